import Vata.InclDown
import Vata.Lang
import Vata.Reduce
import Vata.Proofs.SimModel
import Vata.Proofs.Rename
import Vata.Proofs.TrimModel
/-!
# The certifying downward inclusion models (properties C01, C07): every verdict they return is right

* `chk_sound`, `certB_sound`      : the depth-first check over the choice functions establishes the closure condition;
* `chk_complete`, `certB_complete`, `downCertB_iff`, `downCertRB_iff` : … and is exact;
* `downCertB_sound`, `downCertB_incl` : the Boolean check establishes the hypotheses of `down_cert_incl`;
* `down_certR_sound`, `down_certR_incl` : the certificate principle modulo language preorders on the states
  (generalises `down_cert_incl`), `downCertRB_sound`, `downCertRB_incl` : its Boolean check for a validated simulation
  on the disjoint union;
* `inclDownRec_true/_false/_iff/_cert`, the same for `inclDownOpt`, `inclDownNonrec`, `inclDownSim`,
  `inclDownNonrecSim`, and `checkInclDownRec_iff`, `checkInclDownNonrec_iff`.

Whatever the exploration did, a returned verdict is the truth about `Incl A B` (`Vata/Lang.lean`).  The exploration
itself is analysed in `Vata/Proofs/InclDownInv.lean` and `Vata/Proofs/InclDownTotal.lean`.
-/
namespace Vata
open InclDown
open InclUp (Cert)

namespace InclDown

/-! ### the choice-function check -/

theorem mem_ssetP {acc : List (Rule × Nat)} {i s : Nat} :
    s ∈ ssetP acc i ↔ ∃ rc, rc ∈ acc ∧ rc.2 = i ∧ rc.1.kids[i]? = some s := by
  simp only [ssetP, List.mem_filterMap]
  constructor
  · rintro ⟨rc, hrc, h⟩
    split at h
    · next hi => exact ⟨rc, hrc, hi, h⟩
    · cases h
  · rintro ⟨rc, hrc, hi, h⟩
    exact ⟨rc, hrc, by rw [if_pos hi]; exact h⟩

theorem mem_sset {W : List Rule} {c : Rule → Nat} {i s : Nat} :
    s ∈ sset W c i ↔ ∃ r, r ∈ W ∧ c r = i ∧ r.kids[i]? = some s := by
  simp only [sset, List.mem_filterMap]
  constructor
  · rintro ⟨r, hr, h⟩
    split at h
    · next hi => exact ⟨r, hr, hi, h⟩
    · cases h
  · rintro ⟨r, hr, hi, h⟩
    exact ⟨r, hr, by rw [if_pos hi]; exact h⟩

theorem hit_iff {sub : Nat → List Nat → Bool} {ks : List Nat} {acc : List (Rule × Nat)} :
    hit sub ks acc = true ↔ ∃ i k, ks[i]? = some k ∧ sub k (ssetP acc i) = true := by
  simp only [hit, List.any_eq_true, List.mem_range]
  constructor
  · rintro ⟨i, _, h⟩
    split at h
    · next k hk => exact ⟨i, k, hk, h⟩
    · cases h
  · rintro ⟨i, k, hk, h⟩
    refine ⟨i, ?_, by rw [hk]; exact h⟩
    obtain ⟨hi, _⟩ := List.getElem?_eq_some_iff.mp hk
    exact hi

/-- a successful check: every choice function valid on `W` has a position whose set (from `acc` and the choice
function) contains a set accepted by `sub` -/
theorem chk_sound (sub : Nat → List Nat → Bool) (ks : List Nat) :
    ∀ (W : List Rule) (acc : List (Rule × Nat)), chk sub ks W acc = true →
      ∀ c : Rule → Nat, (∀ r, r ∈ W → c r < ks.length) →
        ∃ i k S, ks[i]? = some k ∧ sub k S = true ∧ ∀ s, s ∈ S → s ∈ ssetP acc i ∨ s ∈ sset W c i
  | [], acc, h, _, _ => by
    obtain ⟨i, k, hk, hs⟩ := hit_iff.mp h
    exact ⟨i, k, _, hk, hs, fun s hs => Or.inl hs⟩
  | r :: W, acc, h, c, hc => by
    simp only [chk, Bool.or_eq_true] at h
    rcases h with h | h
    · obtain ⟨i, k, hk, hs⟩ := hit_iff.mp h
      exact ⟨i, k, _, hk, hs, fun s hs => Or.inl hs⟩
    · have h1 := List.all_eq_true.mp h (c r) (List.mem_range.mpr (hc r List.mem_cons_self))
      obtain ⟨i, k, S, hk, hs, hsub⟩ :=
        chk_sound sub ks W ((r, c r) :: acc) h1 c (fun r' hr' => hc r' (List.mem_cons_of_mem _ hr'))
      refine ⟨i, k, S, hk, hs, fun s hs' => ?_⟩
      rcases hsub s hs' with h2 | h2
      · obtain ⟨rc, hrc, hi, hget⟩ := mem_ssetP.mp h2
        rcases List.mem_cons.mp hrc with he | hrc
        · subst he
          exact Or.inr (mem_sset.mpr ⟨r, List.mem_cons_self, hi, hget⟩)
        · exact Or.inl (mem_ssetP.mpr ⟨rc, hrc, hi, hget⟩)
      · obtain ⟨r', hr', hi, hget⟩ := mem_sset.mp h2
        exact Or.inr (mem_sset.mpr ⟨r', List.mem_cons_of_mem _ hr', hi, hget⟩)

/-- the closure condition with an abstract subsumption `SubP` (monotone consequence of the Boolean test `sub`) -/
def Closed (SubP : Nat → List Nat → Prop) (A B : TA) (X : List Pair) : Prop :=
  ∀ p P, (p, P) ∈ X → ∀ ρ, ρ ∈ A.rules → ρ.parent = p →
    ∀ c : Rule → Nat, (∀ r, r ∈ rulesOf B P ρ.sym ρ.kids.length → c r < ρ.kids.length) →
      ∃ i, ∃ k, ρ.kids[i]? = some k ∧ SubP k (sset (rulesOf B P ρ.sym ρ.kids.length) c i)

theorem certB_sound {sub : Nat → List Nat → Bool} {SubP : Nat → List Nat → Prop} {A B : TA} {X : List Pair}
    (hmono : ∀ k S S', sub k S = true → (∀ s, s ∈ S → s ∈ S') → SubP k S')
    (h : certB sub A B X = true) : Closed SubP A B X ∧ ∀ f, f ∈ A.final → SubP f B.final := by
  simp only [certB, Bool.and_eq_true, List.all_eq_true, Bool.or_eq_true, bne_iff_ne, ne_eq] at h
  refine ⟨?_, fun f hf => hmono f _ _ (h.2 f hf) (fun s hs => hs)⟩
  intro p P hpP ρ hρ hpar c hc
  rcases h.1 (p, P) hpP ρ hρ with h1 | h1
  · exact absurd hpar h1
  · obtain ⟨i, k, S, hk, hs, hsub⟩ := chk_sound sub ρ.kids _ [] h1 c hc
    refine ⟨i, k, hk, hmono k S _ hs (fun s hs' => ?_)⟩
    rcases hsub s hs' with h2 | h2
    · simp [ssetP] at h2
    · exact h2

theorem subX_iff {X : List Pair} {k : Nat} {S : List Nat} :
    subX X k S = true ↔ ∃ S', (k, S') ∈ X ∧ ∀ s, s ∈ S' → s ∈ S := by
  simp only [subX, List.any_eq_true, Bool.and_eq_true, beq_iff_eq, subB_iff]
  constructor
  · rintro ⟨x, hx, hk, hs⟩
    refine ⟨x.2, ?_, hs⟩
    rw [← hk]; exact hx
  · rintro ⟨S', hS', hs⟩
    exact ⟨(k, S'), hS', rfl, hs⟩

/-- the check is exact for a monotone test: it succeeds when every valid choice function has a subsumed position -/
theorem chk_complete (sub : Nat → List Nat → Bool)
    (hmono : ∀ k S S', sub k S = true → (∀ s, s ∈ S → s ∈ S') → sub k S' = true) (ks : List Nat) :
    ∀ (W : List Rule) (acc : List (Rule × Nat)),
      (∀ c : Rule → Nat, (∀ r, r ∈ W → c r < ks.length) →
        ∃ i k, ks[i]? = some k ∧ sub k (ssetP acc i ++ sset W c i) = true) →
      chk sub ks W acc = true
  | [], acc, h => by
    obtain ⟨i, k, hk, hs⟩ := h (fun _ => 0) (fun r hr => by simp at hr)
    simp only [chk]
    refine hit_iff.mpr ⟨i, k, hk, hmono k _ _ hs (fun s hs' => ?_)⟩
    rcases List.mem_append.mp hs' with h1 | h1
    · exact h1
    · simp [sset] at h1
  | r :: W, acc, h => by
    simp only [chk, Bool.or_eq_true]
    refine Or.inr (List.all_eq_true.mpr (fun i hi => ?_))
    have hi' : i < ks.length := List.mem_range.mp hi
    apply chk_complete sub hmono ks W ((r, i) :: acc)
    intro c hc
    let c' : Rule → Nat := fun r' => if r' = r then i else c r'
    have hc' : ∀ r', r' ∈ r :: W → c' r' < ks.length := by
      intro r' hr'
      by_cases he : r' = r
      · simp only [c', if_pos he]; exact hi'
      · simp only [c', if_neg he]
        rcases List.mem_cons.mp hr' with h1 | h1
        · exact absurd h1 he
        · exact hc r' h1
    obtain ⟨j, k, hk, hs⟩ := h c' hc'
    refine ⟨j, k, hk, hmono k _ _ hs (fun s hs' => ?_)⟩
    rcases List.mem_append.mp hs' with h1 | h1
    · obtain ⟨rc, hrc, hj, hget⟩ := mem_ssetP.mp h1
      exact List.mem_append_left _ (mem_ssetP.mpr ⟨rc, List.mem_cons_of_mem _ hrc, hj, hget⟩)
    · obtain ⟨r', hr', hj, hget⟩ := mem_sset.mp h1
      by_cases he : r' = r
      · subst he
        simp only [c', if_true] at hj
        exact List.mem_append_left _ (mem_ssetP.mpr ⟨(r', i), List.mem_cons_self, hj, hget⟩)
      · simp only [c', if_neg he] at hj
        rcases List.mem_cons.mp hr' with h2 | h2
        · exact absurd h2 he
        · exact List.mem_append_right _ (mem_sset.mpr ⟨r', h2, hj, hget⟩)

theorem certB_complete {sub : Nat → List Nat → Bool} {SubP : Nat → List Nat → Prop} {A B : TA} {X : List Pair}
    (hmono : ∀ k S S', sub k S = true → (∀ s, s ∈ S → s ∈ S') → sub k S' = true)
    (hsub : ∀ k S, SubP k S → sub k S = true)
    (h : Closed SubP A B X) (hroot : ∀ f, f ∈ A.final → SubP f B.final) : certB sub A B X = true := by
  simp only [certB, Bool.and_eq_true, List.all_eq_true, Bool.or_eq_true, bne_iff_ne, ne_eq]
  refine ⟨?_, fun f hf => hsub f _ (hroot f hf)⟩
  intro x hx ρ hρ
  by_cases hp : ρ.parent = x.1
  · refine Or.inr (chk_complete sub hmono ρ.kids _ [] (fun c hc => ?_))
    obtain ⟨i, k, hk, hs⟩ := h x.1 x.2 hx ρ hρ hp c hc
    exact ⟨i, k, hk, by simpa [ssetP] using hsub k _ hs⟩
  · exact Or.inl hp

theorem subX_mono {X : List Pair} {k : Nat} {S S' : List Nat} (h : subX X k S = true)
    (hsub : ∀ s, s ∈ S → s ∈ S') : subX X k S' = true := by
  obtain ⟨S₀, hS₀, h₀⟩ := subX_iff.mp h
  exact subX_iff.mpr ⟨S₀, hS₀, fun s hs => hsub s (h₀ s hs)⟩

end InclDown

/-! ### the identity relation -/

/-- the Boolean check establishes the hypotheses of `down_cert_incl` -/
theorem downCertB_sound {A B : TA} {X : List (Nat × List Nat)} (h : downCertB A B X = true) :
    DownCert A B X ∧ ∀ f, f ∈ A.final → Sub X f B.final := by
  refine certB_sound (SubP := Sub X) ?_ h
  intro k S S' hs hsub
  obtain ⟨S₀, hS₀, h₀⟩ := subX_iff.mp hs
  exact ⟨S₀, hS₀, fun s hs => hsub s (h₀ s hs)⟩

/-- the Boolean check is exactly the hypotheses of `down_cert_incl` -/
theorem downCertB_iff (A B : TA) (X : List (Nat × List Nat)) :
    downCertB A B X = true ↔ DownCert A B X ∧ ∀ f, f ∈ A.final → Sub X f B.final := by
  constructor
  · exact downCertB_sound
  · rintro ⟨h1, h2⟩
    exact certB_complete (SubP := Sub X) (fun _ _ _ hs hsub => subX_mono hs hsub)
      (fun k S hs => subX_iff.mpr hs) h1 h2

/-- a checked certificate proves the inclusion (the principle `down_cert_incl`) -/
theorem downCertB_incl {A B : TA} {X : List (Nat × List Nat)} (h : downCertB A B X = true) : Incl A B :=
  fun t ht => down_cert_incl A B X (downCertB_sound h).1 (downCertB_sound h).2 t ht

/-! ### the certificate principle modulo language preorders -/

/-- subsumption modulo the relations: `k` is below a state of `S`, or some `(k', S') ∈ X` has `k ≤ k'` and every
state of `S'` is below a state of `S` -/
def SubR (RA RB RAB : Nat → Nat → Prop) (X : List (Nat × List Nat)) (k : Nat) (S : List Nat) : Prop :=
  (∃ s, s ∈ S ∧ RAB k s) ∨ ∃ k' S', (k', S') ∈ X ∧ RA k k' ∧ ∀ s', s' ∈ S' → ∃ s, s ∈ S ∧ RB s' s

/-- `DownCert` with subsumption modulo the relations -/
def DownCertR (RA RB RAB : Nat → Nat → Prop) (A B : TA) (X : List (Nat × List Nat)) : Prop :=
  ∀ p P, (p, P) ∈ X → ∀ ρ, ρ ∈ A.rules → ρ.parent = p →
    ∀ c : Rule → Nat, (∀ r, r ∈ rulesOf B P ρ.sym ρ.kids.length → c r < ρ.kids.length) →
      ∃ i, ∃ k, ρ.kids[i]? = some k ∧ SubR RA RB RAB X k (sset (rulesOf B P ρ.sym ρ.kids.length) c i)

/-- the relations are sound for the languages of the states -/
structure LangOrd (A B : TA) (RA RB RAB : Nat → Nat → Prop) : Prop where
  hA : ∀ t q q', RA q q' → q ∈ reach A t → q' ∈ reach A t
  hB : ∀ t s s', RB s s' → s ∈ reach B t → s' ∈ reach B t
  hAB : ∀ t q s, RAB q s → q ∈ reach A t → s ∈ reach B t

namespace InclDown

/-- a subsumed pair holds on a tree on which all pairs of `X` hold -/
theorem subR_holds {A B : TA} {RA RB RAB : Nat → Nat → Prop} (hO : LangOrd A B RA RB RAB)
    {X : List (Nat × List Nat)} {t : Tree} (hX : Holds A B X t) {k : Nat} {S : List Nat}
    (hs : SubR RA RB RAB X k S) (hk : k ∈ reach A t) : ∃ s, s ∈ S ∧ s ∈ reach B t := by
  rcases hs with ⟨s, hsS, hks⟩ | ⟨k', S', hkS', hkk', hSS'⟩
  · exact ⟨s, hsS, hO.hAB t k s hks hk⟩
  · obtain ⟨s', hs', hs'B⟩ := hX k' S' hkS' (hO.hA t k k' hkk' hk)
    obtain ⟨s, hsS, hss⟩ := hSS' s' hs'
    exact ⟨s, hsS, hO.hB t s' s hss hs'B⟩

end InclDown

mutual
theorem down_certR_sound (A B : TA) (RA RB RAB : Nat → Nat → Prop) (hO : LangOrd A B RA RB RAB)
    (X : List (Nat × List Nat)) (hX : DownCertR RA RB RAB A B X) : ∀ t : Tree, Holds A B X t
  | .node f ts => by
    have ihs := down_certR_soundL A B RA RB RAB hO X hX ts
    intro p P hpP hp
    rw [reach, mem_post'] at hp
    obtain ⟨ρ, hρ, hs, hm, hpar⟩ := hp
    apply Classical.byContradiction
    intro hno
    have hno' : ∀ r, r ∈ P → r ∉ reach B (Tree.node f ts) := fun r hr hr' => hno ⟨r, hr, hr'⟩
    have hlen : ρ.kids.length = (reachL B ts).length := by
      rw [matchKids_length hm, reachL_eq_map, reachL_eq_map]; simp
    let c : Rule → Nat := fun σ => firstFail σ.kids (reachL B ts)
    have hfail : ∀ σ, σ ∈ rulesOf B P ρ.sym ρ.kids.length → matchKids σ.kids (reachL B ts) = false := by
      intro σ hσ
      simp only [rulesOf, List.mem_filter, Bool.and_eq_true, List.contains_iff_mem, beq_iff_eq] at hσ
      cases hmk : matchKids σ.kids (reachL B ts) with
      | false => rfl
      | true =>
        exfalso
        apply hno' σ.parent hσ.2.1.1
        rw [reach, mem_post']
        exact ⟨σ, hσ.1, hσ.2.1.2.trans hs, hmk, rfl⟩
    have hvalid : ∀ σ, σ ∈ rulesOf B P ρ.sym ρ.kids.length → c σ < ρ.kids.length := by
      intro σ hσ
      have hl : σ.kids.length = ρ.kids.length := by
        simp only [rulesOf, List.mem_filter, Bool.and_eq_true, beq_iff_eq] at hσ; exact hσ.2.2
      have := (firstFail_spec σ.kids (reachL B ts) (by rw [hl, hlen]) (hfail σ hσ)).1
      rw [hl] at this; exact this
    obtain ⟨i, k, hk, hsubR⟩ := hX p P hpP ρ hρ hpar c hvalid
    obtain ⟨sA, hsA, hkA⟩ := matchKids_get ρ.kids (reachL A ts) hm i k hk
    obtain ⟨ti, hti, hget, hsAe⟩ := reachL_get A ts i sA hsA
    rw [hsAe] at hkA
    obtain ⟨s, hs', hsB⟩ := subR_holds hO (ihs ti hti) hsubR hkA
    simp only [sset, List.mem_filterMap] at hs'
    obtain ⟨σ, hσ, hσi⟩ := hs'
    split at hσi
    · rename_i hci
      have hl : σ.kids.length = ρ.kids.length := by
        simp only [rulesOf, List.mem_filter, Bool.and_eq_true, beq_iff_eq] at hσ; exact hσ.2.2
      obtain ⟨_, k', s', h1, h2, h3⟩ := firstFail_spec σ.kids (reachL B ts) (by rw [hl, hlen]) (hfail σ hσ)
      have hci' : firstFail σ.kids (reachL B ts) = i := hci
      rw [hci'] at h1 h2
      rw [h1] at hσi; cases hσi
      obtain ⟨ti', _, hget', hs'e⟩ := reachL_get B ts i s' h2
      rw [hget] at hget'; cases hget'
      rw [hs'e] at h3
      exact h3 hsB
    · cases hσi
theorem down_certR_soundL (A B : TA) (RA RB RAB : Nat → Nat → Prop) (hO : LangOrd A B RA RB RAB)
    (X : List (Nat × List Nat)) (hX : DownCertR RA RB RAB A B X) : ∀ ts : List Tree, ∀ t, t ∈ ts → Holds A B X t
  | [], _, h => by simp at h
  | t :: ts, t', h => by
    rcases List.mem_cons.mp h with h | h
    · rw [h]; exact down_certR_sound A B RA RB RAB hO X hX t
    · exact down_certR_soundL A B RA RB RAB hO X hX ts t' h
end

/-- a set of pairs closed modulo language preorders certifies the inclusion -/
theorem down_certR_incl (A B : TA) (RA RB RAB : Nat → Nat → Prop) (hO : LangOrd A B RA RB RAB)
    (X : List (Nat × List Nat)) (hX : DownCertR RA RB RAB A B X)
    (hroot : ∀ f, f ∈ A.final → SubR RA RB RAB X f B.final) : Incl A B := by
  intro t h
  simp only [accepts, accepting, List.any_eq_true, List.contains_iff_mem] at h ⊢
  obtain ⟨q, hq, hf⟩ := h
  obtain ⟨s, hs, hsB⟩ := subR_holds hO (down_certR_sound A B RA RB RAB hO X hX t) (hroot q hf) hq
  exact ⟨s, hsB, hs⟩

namespace InclDown

/-- the relations of an `Ord` -/
def leAP (o : Ord) : Nat → Nat → Prop := fun q r => o.leA q r = true
def leBP (o : Ord) : Nat → Nat → Prop := fun q r => o.leB q r = true
def leABP (o : Ord) : Nat → Nat → Prop := fun q r => o.leAB q r = true

theorem subXR_mono {o : Ord} {X : List Pair} {k : Nat} {S S' : List Nat} (h : subXR o X k S = true)
    (hsub : ∀ s, s ∈ S → s ∈ S') : SubR (leAP o) (leBP o) (leABP o) X k S' := by
  simp only [subXR, Bool.or_eq_true, byPre, covers, setLe, List.any_eq_true, List.all_eq_true,
    Bool.and_eq_true] at h
  rcases h with ⟨s, hs, hks⟩ | ⟨x, hx, hkx, hall⟩
  · exact Or.inl ⟨s, hsub s hs, hks⟩
  · refine Or.inr ⟨x.1, x.2, hx, hkx, fun s' hs' => ?_⟩
    obtain ⟨s, hs, hss⟩ := hall s' hs'
    exact ⟨s, hsub s hs, hss⟩

theorem subXR_iff {o : Ord} {X : List Pair} {k : Nat} {S : List Nat} :
    subXR o X k S = true ↔ SubR (leAP o) (leBP o) (leABP o) X k S := by
  constructor
  · intro h; exact subXR_mono h (fun s hs => hs)
  · intro h
    simp only [subXR, Bool.or_eq_true, byPre, covers, setLe, List.any_eq_true, List.all_eq_true,
      Bool.and_eq_true]
    rcases h with ⟨s, hs, hks⟩ | ⟨k', S', hx, hkk', hall⟩
    · exact Or.inl ⟨s, hs, hks⟩
    · exact Or.inr ⟨(k', S'), hx, hkk', hall⟩

theorem disjointB_iff {A B : TA} : disjointB A B = true ↔ ∀ q, q ∈ A.states → q ∉ B.states := by
  simp only [disjointB, List.all_eq_true, Bool.not_eq_true']
  constructor
  · intro h q hq hq'
    have := h q hq
    rw [List.contains_iff_mem.mpr hq'] at this
    cases this
  · intro h q hq
    cases hc : B.states.contains q with
    | false => rfl
    | true => exact absurd (List.contains_iff_mem.mp hc) (h q hq)


/-- a validated simulation on the disjoint union gives language preorders -/
theorem ordOf_langOrd {A B : TA} {R : Rel} (hsim : isDownSimB (unionDisjoint A B) R = true)
    (hdis : disjointB A B = true) :
    LangOrd A B (leAP (ordOf R A B)) (leBP (ordOf R A B)) (leABP (ordOf R A B)) := by
  have hS := (isDownSimB_iff _ R).mp hsim
  have hd := disjointB_iff.mp hdis
  have key : ∀ t q r, (q, r) ∈ R → q ∈ reach (unionDisjoint A B) t → r ∈ reach (unionDisjoint A B) t :=
    fun t q r h => downSim_lang _ (RelOf R) hS t q r h
  have hl : ∀ t q, q ∈ reach A t → q ∈ reach (unionDisjoint A B) t :=
    fun t q => reach_mono A (unionDisjoint A B) (fun r hr => List.mem_append_left _ hr) t q
  have hr : ∀ t q, q ∈ reach B t → q ∈ reach (unionDisjoint A B) t :=
    fun t q => reach_mono B (unionDisjoint A B) (fun r hr => List.mem_append_right _ hr) t q
  refine ⟨?_, ?_, ?_⟩
  · intro t q q' h hq
    simp only [leAP, ordOf, Bool.or_eq_true, beq_iff_eq, Bool.and_eq_true, List.contains_iff_mem] at h
    rcases h with h | ⟨hR, hst⟩
    · rw [← h]; exact hq
    · exact (unionDisjoint_reach_left A B hd t q' hst).mp (key t q q' hR (hl t q hq))
  · intro t s s' h hs
    simp only [leBP, ordOf, Bool.or_eq_true, beq_iff_eq, Bool.and_eq_true, List.contains_iff_mem] at h
    rcases h with h | ⟨hR, hst⟩
    · rw [← h]; exact hs
    · exact (unionDisjoint_reach_right A B hd t s' hst).mp (key t s s' hR (hr t s hs))
  · intro t q s h hq
    simp only [leABP, ordOf, Bool.and_eq_true, List.contains_iff_mem] at h
    exact (unionDisjoint_reach_right A B hd t s h.2).mp (key t q s h.1 (hl t q hq))

/-- the identity preorder is a language preorder for any operands -/
theorem idOrd_langOrd (A B : TA) : LangOrd A B (leAP idOrd) (leBP idOrd) (leABP idOrd) := by
  refine ⟨?_, ?_, ?_⟩
  · intro t q q' h hq
    simp only [leAP, idOrd, beq_iff_eq] at h
    rw [← h]; exact hq
  · intro t s s' h hs
    simp only [leBP, idOrd, beq_iff_eq] at h
    rw [← h]; exact hs
  · intro t q s h
    simp [leABP, idOrd] at h

end InclDown

/-- the Boolean check modulo a preorder establishes the hypotheses of `down_certR_incl` -/
theorem downCertRB_sound {o : Ord} {A B : TA} {X : List (Nat × List Nat)} (h : downCertRB o A B X = true) :
    DownCertR (leAP o) (leBP o) (leABP o) A B X ∧
      ∀ f, f ∈ A.final → SubR (leAP o) (leBP o) (leABP o) X f B.final :=
  certB_sound (SubP := SubR (leAP o) (leBP o) (leABP o) X) (fun _ _ _ hs hsub => subXR_mono hs hsub) h

theorem downCertRB_iff (o : Ord) (A B : TA) (X : List (Nat × List Nat)) :
    downCertRB o A B X = true ↔ DownCertR (leAP o) (leBP o) (leABP o) A B X ∧
      ∀ f, f ∈ A.final → SubR (leAP o) (leBP o) (leABP o) X f B.final := by
  constructor
  · exact downCertRB_sound
  · rintro ⟨h1, h2⟩
    exact certB_complete (SubP := SubR (leAP o) (leBP o) (leABP o) X)
      (fun _ _ _ hs hsub => subXR_iff.mpr (subXR_mono hs hsub)) (fun k S hs => subXR_iff.mpr hs) h1 h2
/-- a checked certificate modulo a sound preorder proves the inclusion -/
theorem downCertRB_incl {o : Ord} {A B : TA} {X : List (Nat × List Nat)}
    (hO : LangOrd A B (leAP o) (leBP o) (leABP o)) (h : downCertRB o A B X = true) : Incl A B :=
  down_certR_incl A B _ _ _ hO X (downCertRB_sound h).1 (downCertRB_sound h).2

/-! ### the verdicts -/

namespace InclDown

/-- what a returned result consists of -/
theorem finish_some {certOk : List Pair → Bool} {A B : TA} {r : Option (Except Tree (List Pair))} {b : Bool}
    {c : Cert} (h : finish certOk A B r = some (b, c)) :
    (b = true ∧ ∃ X, c = .closed X ∧ certOk X = true) ∨
    (b = false ∧ ∃ w, c = .witness w ∧ accepts A w = true ∧ accepts B w = false) := by
  unfold finish at h
  split at h
  · cases h
  · next X =>
    split at h
    · next hc =>
      simp only [Option.some.injEq, Prod.mk.injEq] at h
      exact Or.inl ⟨h.1.symm, X, h.2.symm, hc⟩
    · cases h
  · next w =>
    split at h
    · next hc =>
      simp only [Option.some.injEq, Prod.mk.injEq] at h
      simp only [Bool.and_eq_true, Bool.not_eq_true'] at hc
      exact Or.inr ⟨h.1.symm, w, h.2.symm, hc.1, hc.2⟩
    · cases h

theorem finish_iff {certOk : List Pair → Bool} {A B : TA} (hcert : ∀ X, certOk X = true → Incl A B)
    {r : Option (Except Tree (List Pair))} {b : Bool} {c : Cert} (h : finish certOk A B r = some (b, c)) :
    b = true ↔ Incl A B := by
  rcases finish_some h with ⟨hb, X, _, hX⟩ | ⟨hb, w, _, hA, hB⟩
  · exact ⟨fun _ => hcert X hX, fun _ => hb⟩
  · constructor
    · intro hb'; rw [hb] at hb'; cases hb'
    · intro hi
      rw [hi w hA] at hB
      cases hB

/-- the certificate of a `true` verdict passes the check, that of a `false` verdict is a separating tree -/
theorem finish_cert {certOk : List Pair → Bool} {A B : TA} {r : Option (Except Tree (List Pair))} {b : Bool}
    {c : Cert} (h : finish certOk A B r = some (b, c)) :
    match c with
    | .closed X => b = true ∧ certOk X = true
    | .witness w => b = false ∧ accepts A w = true ∧ accepts B w = false := by
  rcases finish_some h with ⟨hb, X, hc, hX⟩ | ⟨hb, w, hc, hA, hB⟩
  · subst hc; exact ⟨hb, hX⟩
  · subst hc; exact ⟨hb, hA, hB⟩

theorem incl_removeUseless' (A B : TA) : Incl (removeUseless A) (removeUseless B) ↔ Incl A B := by
  unfold Incl
  constructor
  · intro h t ht
    rw [← removeUseless_lang] at ht ⊢
    exact h t ht
  · intro h t ht
    rw [removeUseless_lang] at ht ⊢
    exact h t ht

theorem sim_cond {A B : TA} {R : Rel} {α : Type} {x : Option α} {y : α}
    (h : (if isDownSimB (unionDisjoint A B) R && disjointB A B then x else none) = some y) :
    isDownSimB (unionDisjoint A B) R = true ∧ disjointB A B = true ∧ x = some y := by
  split at h
  · next hc =>
    simp only [Bool.and_eq_true] at hc
    exact ⟨hc.1, hc.2, h⟩
  · cases h

end InclDown

/-! #### recursive, identity -/

theorem inclDownRec_iff {A B : TA} {fuel : Nat} {b : Bool} {c : Cert} (h : inclDownRec A B fuel = some (b, c)) :
    b = true ↔ Incl A B :=
  finish_iff (fun _ hX => downCertB_incl hX) h

theorem inclDownRec_true {A B : TA} {fuel : Nat} {c : Cert} (h : inclDownRec A B fuel = some (true, c)) :
    Incl A B := (inclDownRec_iff h).mp rfl

theorem inclDownRec_false {A B : TA} {fuel : Nat} {c : Cert} (h : inclDownRec A B fuel = some (false, c)) :
    ¬ Incl A B := fun hi => by have := (inclDownRec_iff h).mpr hi; cases this

/-- the certificate of a `true` verdict is a `DownCert` covering the roots, that of a `false` verdict a separating
tree -/
theorem inclDownRec_cert {A B : TA} {fuel : Nat} {b : Bool} {c : Cert} (h : inclDownRec A B fuel = some (b, c)) :
    match c with
    | .closed X => b = true ∧ DownCert A B X ∧ ∀ f, f ∈ A.final → Sub X f B.final
    | .witness w => b = false ∧ accepts A w = true ∧ accepts B w = false := by
  have := finish_cert h
  cases c with
  | closed X => exact ⟨this.1, downCertB_sound this.2⟩
  | witness w => exact this

theorem inclDownOpt_iff {A B : TA} {fuel : Nat} {b : Bool} {c : Cert} (h : inclDownOpt A B fuel = some (b, c)) :
    b = true ↔ Incl A B := inclDownRec_iff h

theorem checkInclDownRec_iff {A B : TA} {fuel : Nat} {b : Bool} {c : Cert}
    (h : checkInclDownRec A B fuel = some (b, c)) : b = true ↔ Incl A B :=
  (inclDownRec_iff h).trans (incl_removeUseless' A B)

/-! #### non-recursive, identity -/

theorem inclDownNonrec_iff {A B : TA} {fuel : Nat} {b : Bool} {c : Cert}
    (h : inclDownNonrec A B fuel = some (b, c)) : b = true ↔ Incl A B :=
  finish_iff (fun _ hX => downCertB_incl hX) h

theorem inclDownNonrec_true {A B : TA} {fuel : Nat} {c : Cert} (h : inclDownNonrec A B fuel = some (true, c)) :
    Incl A B := (inclDownNonrec_iff h).mp rfl

theorem inclDownNonrec_false {A B : TA} {fuel : Nat} {c : Cert} (h : inclDownNonrec A B fuel = some (false, c)) :
    ¬ Incl A B := fun hi => by have := (inclDownNonrec_iff h).mpr hi; cases this

theorem checkInclDownNonrec_iff {A B : TA} {fuel : Nat} {b : Bool} {c : Cert}
    (h : checkInclDownNonrec A B fuel = some (b, c)) : b = true ↔ Incl A B :=
  (inclDownNonrec_iff h).trans (incl_removeUseless' A B)

/-! #### with a simulation -/

theorem inclDownSim_iff {A B : TA} {R : Rel} {fuel : Nat} {b : Bool} {c : Cert}
    (h : inclDownSim A B R fuel = some (b, c)) : b = true ↔ Incl A B := by
  obtain ⟨hsim, hdis, h'⟩ := sim_cond h
  exact finish_iff (fun _ hX => downCertRB_incl (ordOf_langOrd hsim hdis) hX) h'

theorem inclDownSim_true {A B : TA} {R : Rel} {fuel : Nat} {c : Cert}
    (h : inclDownSim A B R fuel = some (true, c)) : Incl A B := (inclDownSim_iff h).mp rfl

theorem inclDownSim_false {A B : TA} {R : Rel} {fuel : Nat} {c : Cert}
    (h : inclDownSim A B R fuel = some (false, c)) : ¬ Incl A B :=
  fun hi => by have := (inclDownSim_iff h).mpr hi; cases this

theorem inclDownNonrecSim_iff {A B : TA} {R : Rel} {fuel : Nat} {b : Bool} {c : Cert}
    (h : inclDownNonrecSim A B R fuel = some (b, c)) : b = true ↔ Incl A B := by
  obtain ⟨hsim, hdis, h'⟩ := sim_cond h
  exact finish_iff (fun _ hX => downCertRB_incl (ordOf_langOrd hsim hdis) hX) h'

theorem inclDownNonrecSim_true {A B : TA} {R : Rel} {fuel : Nat} {c : Cert}
    (h : inclDownNonrecSim A B R fuel = some (true, c)) : Incl A B := (inclDownNonrecSim_iff h).mp rfl

theorem inclDownNonrecSim_false {A B : TA} {R : Rel} {fuel : Nat} {c : Cert}
    (h : inclDownNonrecSim A B R fuel = some (false, c)) : ¬ Incl A B :=
  fun hi => by have := (inclDownNonrecSim_iff h).mpr hi; cases this

/-! ### examples (non-vacuity) -/
namespace InclDownEx
open InclUp (showTree)

/-- `{a}` -/
def exA : TA := ⟨[⟨0, [], 1⟩], [1]⟩
/-- `{a, b}` -/
def exAB : TA := ⟨[⟨0, [], 3⟩, ⟨1, [], 3⟩], [3]⟩
/-- `a → 1`, `b → 1`, `g(1,1) → 2` final: all four trees `g(x,y)` -/
def exG : TA := ⟨[⟨0, [], 1⟩, ⟨1, [], 1⟩, ⟨2, [1, 1], 2⟩], [2]⟩
/-- `a → 3`, `b → 4`, `g(3,3) → 9`, `g(4,4) → 9` final: only `g(a,a)` and `g(b,b)` -/
def exH : TA := ⟨[⟨0, [], 3⟩, ⟨1, [], 4⟩, ⟨2, [3, 3], 9⟩, ⟨2, [4, 4], 9⟩], [9]⟩
/-- the unary pair (`h`=0, `a`=1, `b`=2, `c`=3): `h(rp) → q0`, `a(r) → rp`, `b → rp`, `a(rp) → r`, `c → r` with
`q0`=0 (final), `rp`=1, `r`=2 -/
def exU1 : TA := ⟨[⟨0, [1], 0⟩, ⟨1, [2], 1⟩, ⟨2, [], 1⟩, ⟨1, [1], 2⟩, ⟨3, [], 2⟩], [0]⟩
/-- `h(t1) → f1`, `h(t2) → f2`, `a(s1) → t1`, `a(s2) → t1`, `a(s1) → t2`, `a(s2) → t2`, `b → t2`, `a(t1) → s1`, `c → s2`
with `f1`=10, `f2`=11 (final), `t1`=12, `t2`=13, `s1`=14, `s2`=15 -/
def exU2 : TA := ⟨[⟨0, [12], 10⟩, ⟨0, [13], 11⟩, ⟨1, [14], 12⟩, ⟨1, [15], 12⟩, ⟨1, [14], 13⟩, ⟨1, [15], 13⟩,
  ⟨2, [], 13⟩, ⟨1, [12], 14⟩, ⟨3, [], 15⟩], [10, 11]⟩
/-- lists `cons(…cons(nil))` of even length / of any length -/
def exEven : TA := ⟨[⟨0, [], 0⟩, ⟨1, [1], 0⟩, ⟨1, [0], 1⟩], [0]⟩
def exAll : TA := ⟨[⟨0, [], 5⟩, ⟨1, [5], 5⟩], [5]⟩
/-- `g(x, c)` with `x ∈ {a, b}`, one state for `x` / two states for `x`: inclusion holds, the state 1 is not
simulated by 3 or 4, the state 5 is simulated by 6 -/
def exS1 : TA := ⟨[⟨0, [], 1⟩, ⟨1, [], 1⟩, ⟨3, [], 5⟩, ⟨2, [1, 5], 2⟩], [2]⟩
def exS2 : TA := ⟨[⟨0, [], 3⟩, ⟨1, [], 4⟩, ⟨3, [], 6⟩, ⟨2, [3, 6], 9⟩, ⟨2, [4, 6], 9⟩], [9]⟩
/-- `h(g(a))` against `{a}` -/
def exDeep : TA := ⟨[⟨0, [], 1⟩, ⟨2, [1], 5⟩, ⟨3, [5], 2⟩], [2]⟩
/-- `{a}` with a useless state: `g(1) → 5` -/
def exUs : TA := ⟨[⟨0, [], 1⟩, ⟨2, [1], 5⟩, ⟨3, [7], 1⟩], [1]⟩

def verdict (r : Option (Bool × Cert)) : Option Bool := r.map (·.1)
def isClosed (r : Option (Bool × Cert)) (X : List (Nat × List Nat)) : Bool :=
  match r with | some (true, .closed Y) => Y == X | _ => false
def isWitness (r : Option (Bool × Cert)) (w : String) : Bool :=
  match r with | some (false, .witness t) => showTree t == w | _ => false

-- `{a} ⊆ {a,b}` true; the certificate is the single pair `(1, {3})`
#guard isClosed (inclDownRec exA exAB 10) [(1, [3])]
#guard isClosed (inclDownNonrec exA exAB 10) [(1, [3])]
-- `{a,b} ⊆ {a}` false with the witness `b`
#guard isWitness (inclDownRec exAB exA 10) "1"
-- the `g(a,b)` shape: false, the witness is `g(a,b)`
#guard isWitness (inclDownRec exG exH 10) "2(0,1)"
#guard isWitness (inclDownNonrec exG exH 10) "2(0,1)"
#guard isWitness (inclDownOpt exG exH 10) "2(0,1)"
-- the converse holds; three pairs
#guard isClosed (inclDownRec exH exG 10) [(3, [1]), (4, [1]), (9, [2])]
-- the unary pair: false with the witness `h(a(a(b)))`; the converse holds
#guard isWitness (inclDownRec exU1 exU2 10) "0(1(1(2)))"
#guard isWitness (inclDownNonrec exU1 exU2 10) "0(1(1(2)))"
#guard isClosed (inclDownRec exU2 exU1 10) [(14, [2]), (15, [2]), (12, [1]), (10, [0]), (13, [1]), (11, [0])]
-- recursion through the work-set: even ⊆ all, all ⊄ even (witness `cons(nil)`)
#guard isClosed (inclDownRec exEven exAll 10) [(0, [5]), (1, [5])]
#guard isWitness (inclDownRec exAll exEven 10) "1(0)"
-- an empty set of rhs tuples: the tree is completed with trees of productive states
#guard isWitness (inclDownRec exDeep exA 10) "3(2(0))"
-- a choice function is needed (no bigger tuple): `(1, {3,4})`
#guard isClosed (inclDownRec exS1 exS2 10) [(1, [3, 4]), (5, [6]), (2, [9])]
-- with the simulation the pair `(5, {6})` is implied by the preorder
#guard downSimRef (unionDisjoint exS1 exS2) ==
  [(1, 1), (5, 5), (5, 6), (2, 2), (3, 1), (3, 3), (4, 1), (4, 4), (6, 5), (6, 6), (9, 2), (9, 9)]
#guard isClosed (inclDownSim exS1 exS2 (downSimRef (unionDisjoint exS1 exS2)) 10) [(1, [3, 4]), (2, [9])]
#guard isClosed (inclDownNonrecSim exS1 exS2 (downSimRef (unionDisjoint exS1 exS2)) 10) [(1, [3, 4]), (2, [9])]
#guard isClosed (inclDownSim exS1 exS2 [(5, 6)] 10) [(1, [3, 4]), (2, [9])]
-- the converse is implied by the preorder at the root: empty certificate
#guard isClosed (inclDownSim exS2 exS1 (downSimRef (unionDisjoint exS2 exS1)) 10) []
#guard isWitness (inclDownSim exU1 exU2 (downSimRef (unionDisjoint exU1 exU2)) 10) "0(1(1(2)))"
-- a relation that is not a simulation, operands that are not disjoint: refused
#guard verdict (inclDownSim exS1 exS2 [(1, 3)] 10) == none
#guard verdict (inclDownSim exA exA [] 10) == none
-- fuel = nesting depth of the calls
#guard verdict (inclDownRec exG exH 0) == none
#guard verdict (inclDownRec exG exH 1) == some false
-- a useless state of `A` makes the code answer `false` (`h(?) → 1` cannot be completed): the witness check refuses,
-- the sanitising wrapper answers
#guard verdict (inclDownRec exUs exA 10) == none
#guard verdict (checkInclDownRec exUs exA 10) == some true
#guard verdict (checkInclDownNonrec exUs exA 10) == some true

-- the theorems apply to these runs
example : Incl exA exAB := inclDownRec_true (fuel := 10) (c := .closed [(1, [3])]) rfl
example : downCertB exH exG [(3, [1]), (4, [1]), (9, [2])] = true := by decide
example : DownCert exH exG [(3, [1]), (4, [1]), (9, [2])] ∧
    ∀ f, f ∈ exH.final → Sub [(3, [1]), (4, [1]), (9, [2])] f exG.final := downCertB_sound (by decide)
example : Incl exH exG := downCertB_incl (X := [(3, [1]), (4, [1]), (9, [2])]) (by decide)
example : ¬ Incl exG exH :=
  inclDownRec_false (fuel := 10) (c := .witness (.node 2 [.node 0 [], .node 1 []])) rfl
example : ¬ Incl exU1 exU2 :=
  inclDownRec_false (fuel := 10) (c := .witness (.node 0 [.node 1 [.node 1 [.node 2 []]]])) rfl
example : ¬ Incl exU1 exU2 :=
  inclDownNonrec_false (fuel := 10) (c := .witness (.node 0 [.node 1 [.node 1 [.node 2 []]]])) rfl
example : Incl exU2 exU1 :=
  inclDownNonrec_true (fuel := 10)
    (c := .closed [(14, [2]), (15, [2]), (12, [1]), (10, [0]), (13, [1]), (11, [0])]) rfl
example : (true = true ↔ Incl exEven exAll) :=
  inclDownRec_iff (fuel := 10) (c := .closed [(0, [5]), (1, [5])]) rfl
example : (true = true ↔ Incl exUs exA) := checkInclDownRec_iff (fuel := 10) (c := .closed [(1, [1])]) rfl
-- a set that is not closed is refused: the pair for the children of `g` is missing; a missing root is refused
example : downCertB exH exG [(9, [2])] = false := by decide
example : downCertB exH exG [(3, [1]), (4, [1])] = false := by decide
-- a choice function without a subsumed position is found: `(1, {3})` does not hold
example : downCertB exS1 exS2 [(1, [3]), (5, [6]), (2, [9])] = false := by decide
example : downCertB exS1 exS2 [(1, [3, 4]), (5, [6]), (2, [9])] = true := by decide
-- modulo the simulation
example : isDownSimB (unionDisjoint exS1 exS2) [(5, 6)] = true ∧ disjointB exS1 exS2 = true := by decide
example : LangOrd exS1 exS2 (leAP (ordOf [(5, 6)] exS1 exS2)) (leBP (ordOf [(5, 6)] exS1 exS2))
    (leABP (ordOf [(5, 6)] exS1 exS2)) := ordOf_langOrd (by decide) (by decide)
example : downCertRB (ordOf [(5, 6)] exS1 exS2) exS1 exS2 [(1, [3, 4]), (2, [9])] = true := by decide
example : downCertRB idOrd exS1 exS2 [(1, [3, 4]), (2, [9])] = false := by decide
example : Incl exS1 exS2 := inclDownSim_true (R := [(5, 6)]) (fuel := 10) (c := .closed [(1, [3, 4]), (2, [9])]) rfl
example : ¬ Incl exG exH :=
  inclDownSim_false (R := []) (fuel := 10) (c := .witness (.node 2 [.node 0 [], .node 1 []])) rfl

/-! ### self-test against the exact decider `inclM` on pseudo-random pairs -/

def lcg (s : Nat) : Nat := (s * 1103515245 + 12345) % 2147483648
def rnd (s m : Nat) : Nat × Nat := let s' := lcg s; ((s' / 65536) % m, s')

/-- `k` pseudo-random rules over the states `base..base+nq-1` and the symbols `a/0`, `b/0`, `g/2`, `h/1` -/
def genRules (nq base : Nat) : Nat → Nat → List Rule × Nat
  | 0, s => ([], s)
  | k+1, s =>
    let (sy, s) := rnd s 4
    let (p, s) := rnd s nq
    let (k1, s) := rnd s nq
    let (k2, s) := rnd s nq
    let r : Rule := match sy with
      | 0 => ⟨0, [], base + p⟩
      | 1 => ⟨1, [], base + p⟩
      | 2 => ⟨2, [base + k1, base + k2], base + p⟩
      | _ => ⟨3, [base + k1], base + p⟩
    let (rs, s) := genRules nq base k s
    (r :: rs, s)

def genTA (nq base nr s : Nat) : TA × Nat :=
  let (rs, s) := genRules nq base nr s
  let (f1, s) := rnd s nq
  let (f2, s) := rnd s nq
  (⟨rs, [base + f1, base + f2]⟩, s)

/-- `(agreeing verdicts, disagreeing verdicts, none, of the agreeing: true)` over `n` pairs -/
def selfTest (f : TA → TA → Option (Bool × Cert)) (nq nrA nrB : Nat) :
    Nat → Nat → (Nat × Nat × Nat × Nat) → (Nat × Nat × Nat × Nat)
  | 0, _, acc => acc
  | n+1, s, (ag, dis, no, tr) =>
    let (A, s) := genTA nq 0 nrA s
    let (B, s) := genTA nq 10 nrB s
    let acc := match verdict (f A B), inclM A B 1000 with
      | none, _ => (ag, dis, no + 1, tr)
      | some b, some b' => if b == b' then (ag + 1, dis, no, if b then tr + 1 else tr) else (ag, dis + 1, no, tr)
      | some _, none => (ag, dis + 1, no, tr)
    selfTest f nq nrA nrB n s acc

/-- the simulation variants on the sanitised operands with the greatest downward simulation of the union -/
def simOn (g : TA → TA → Rel → Nat → Option (Bool × Cert)) (A B : TA) : Option (Bool × Cert) :=
  let A' := removeUseless A
  let B' := removeUseless B
  g A' B' (downSimRef (unionDisjoint A' B')) 50

-- sanitised operands: no `none`, all verdicts agree (60 pairs each, 21 resp. 17 inclusions)
#guard selfTest (checkInclDownRec · · 50) 3 5 7 60 42 (0, 0, 0, 0) == (60, 0, 0, 21)
#guard selfTest (checkInclDownNonrec · · 50) 3 5 7 60 42 (0, 0, 0, 0) == (60, 0, 0, 21)
#guard selfTest (simOn inclDownSim) 3 5 7 60 42 (0, 0, 0, 0) == (60, 0, 0, 21)
#guard selfTest (simOn inclDownNonrecSim) 3 5 7 60 42 (0, 0, 0, 0) == (60, 0, 0, 21)
#guard selfTest (checkInclDownRec · · 100) 4 8 10 60 7 (0, 0, 0, 0) == (60, 0, 0, 17)
#guard selfTest (checkInclDownNonrec · · 100) 4 8 10 60 7 (0, 0, 0, 0) == (60, 0, 0, 17)
-- raw operands (useless states, against the precondition of the code): `none` where the code's `false` is not
-- backed by a tree (10 of 60); the verdicts returned agree
#guard selfTest (inclDownRec · · 50) 3 5 7 60 42 (0, 0, 0, 0) == (50, 0, 10, 14)
#guard selfTest (inclDownNonrec · · 50) 3 5 7 60 42 (0, 0, 0, 0) == (50, 0, 10, 14)

end InclDownEx

end Vata
