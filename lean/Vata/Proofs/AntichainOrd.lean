import Vata.Proofs.AntichainTwo
/-!
# Theorems about `OrderedAntichain2C` (`Vata.AC.Ord`)

`lt` is the `Less` template argument (applied to `(key, value)`), assumed irreflexive and transitive throughout
(`std::set` needs a strict weak order).

* `OWeak` – holds after ANY history: the antichain is well-formed, the ordered set is strictly ascending, and every
  element of the ordered set refers to a live node of the antichain (no dangling iterator).
* `OInv` – holds as long as `insert` is used inside its (asserted) contract "no equivalent element present": the
  ordered set and the antichain hold the same nodes.  Then `get` returns a least stored element and removes exactly it.
-/
set_option linter.unusedSectionVars false
namespace Vata.AC.Ord
variable {κ β : Type} [DecidableEq κ]

/-- what `std::set` needs of `Less` (here: irreflexive, transitive) -/
structure StrictOrd (lt : κ × β → κ × β → Bool) : Prop where
  irrefl : ∀ a, lt a a = false
  trans : ∀ a b c, lt a b = true → lt b c = true → lt a c = true

/-- strictly ascending -/
def Sorted (lt : κ × β → κ × β → Bool) (l : List (Entry κ β)) : Prop := l.Pairwise (fun a b => ltE lt a b = true)

theorem ltE_irrefl {lt : κ × β → κ × β → Bool} (h : StrictOrd lt) (e : Entry κ β) : ltE lt e e = false := h.irrefl _
theorem ltE_trans {lt : κ × β → κ × β → Bool} (h : StrictOrd lt) {a b c : Entry κ β}
    (h1 : ltE lt a b = true) (h2 : ltE lt b c = true) : ltE lt a c = true := h.trans _ _ _ h1 h2

theorem sorted_not_mem_tail {lt : κ × β → κ × β → Bool} (h : StrictOrd lt) {x : Entry κ β} {xs : List (Entry κ β)}
    (hs : Sorted lt (x :: xs)) : x ∉ xs := by
  intro hx
  have := (List.pairwise_cons.1 hs).1 x hx
  rw [ltE_irrefl h] at this; cases this

/-! ### the ordered set -/
theorem mem_setInsert_sub (lt : κ × β → κ × β → Bool) (e : Entry κ β) (l : List (Entry κ β)) (y : Entry κ β)
    (hy : y ∈ setInsert lt e l) : y = e ∨ y ∈ l := by
  induction l with
  | nil => simp [setInsert] at hy; exact Or.inl hy
  | cons x xs ih =>
    unfold setInsert at hy
    split at hy
    · rcases List.mem_cons.1 hy with h | h
      · exact Or.inl h
      · exact Or.inr h
    · split at hy
      · rcases List.mem_cons.1 hy with h | h
        · exact Or.inr (h ▸ List.mem_cons_self)
        · rcases ih h with h | h
          · exact Or.inl h
          · exact Or.inr (List.mem_cons_of_mem _ h)
      · exact Or.inr hy

theorem mem_setInsert_old (lt : κ × β → κ × β → Bool) (e : Entry κ β) (l : List (Entry κ β)) (y : Entry κ β)
    (hy : y ∈ l) : y ∈ setInsert lt e l := by
  induction l with
  | nil => simp at hy
  | cons x xs ih =>
    unfold setInsert
    split
    · exact List.mem_cons_of_mem _ hy
    · split
      · rcases List.mem_cons.1 hy with h | h
        · exact h ▸ List.mem_cons_self
        · exact List.mem_cons_of_mem _ (ih h)
      · exact hy

/-- inside the contract (no equivalent element) the new element is inserted -/
theorem mem_setInsert_new (lt : κ × β → κ × β → Bool) (e : Entry κ β) (l : List (Entry κ β))
    (hne : ∀ x, x ∈ l → ltE lt e x = true ∨ ltE lt x e = true) : e ∈ setInsert lt e l := by
  induction l with
  | nil => simp [setInsert]
  | cons x xs ih =>
    unfold setInsert
    split
    · exact List.mem_cons_self
    · split
      · exact List.mem_cons_of_mem _ (ih (fun y hy => hne y (List.mem_cons_of_mem _ hy)))
      · rename_i h1 h2
        rcases hne x List.mem_cons_self with h | h
        · exact absurd h h1
        · exact absurd h h2

theorem sorted_setInsert {lt : κ × β → κ × β → Bool} (h : StrictOrd lt) (e : Entry κ β) {l : List (Entry κ β)}
    (hs : Sorted lt l) : Sorted lt (setInsert lt e l) := by
  induction l with
  | nil => simp [setInsert, Sorted]
  | cons x xs ih =>
    have hs' := List.pairwise_cons.1 hs
    unfold setInsert
    split
    · rename_i h1
      refine List.pairwise_cons.2 ⟨?_, hs⟩
      intro y hy
      rcases List.mem_cons.1 hy with hy | hy
      · exact hy ▸ h1
      · exact ltE_trans h h1 (hs'.1 y hy)
    · split
      · rename_i h1 h2
        refine List.pairwise_cons.2 ⟨?_, ih hs'.2⟩
        intro y hy
        rcases mem_setInsert_sub lt e xs y hy with hy | hy
        · exact hy ▸ h2
        · exact hs'.1 y hy
      · exact hs

theorem setErase_sublist (lt : κ × β → κ × β → Bool) (e : Entry κ β) (l : List (Entry κ β)) :
    (setErase lt e l).Sublist l := by
  induction l with
  | nil => exact List.Sublist.refl _
  | cons x xs ih =>
    unfold setErase
    split
    · exact ih.cons_cons _
    · split
      · exact List.Sublist.refl _
      · exact List.sublist_cons_self _ _

/-- an element that is in the set is found and erased -/
theorem not_mem_setErase {lt : κ × β → κ × β → Bool} (h : StrictOrd lt) (e : Entry κ β) {l : List (Entry κ β)}
    (hs : Sorted lt l) : e ∉ setErase lt e l := by
  induction l with
  | nil => simp [setErase]
  | cons x xs ih =>
    have hs' := List.pairwise_cons.1 hs
    unfold setErase
    split
    · rename_i h1
      intro hm
      rcases List.mem_cons.1 hm with hm | hm
      · subst hm; rw [ltE_irrefl h] at h1; cases h1
      · exact ih hs'.2 hm
    · split
      · rename_i h1 h2
        intro hm
        rcases List.mem_cons.1 hm with hm | hm
        · subst hm; rw [ltE_irrefl h] at h2; cases h2
        · exact h1 (hs'.1 e hm)
      · rename_i h1 h2
        intro hm
        exact h1 (hs'.1 e hm)

/-- … and nothing else goes when it is there -/
theorem mem_setErase_of_mem {lt : κ × β → κ × β → Bool} (h : StrictOrd lt) (e : Entry κ β) {l : List (Entry κ β)}
    (hs : Sorted lt l) (he : e ∈ l) (y : Entry κ β) (hy : y ∈ l) (hye : y ≠ e) : y ∈ setErase lt e l := by
  induction l with
  | nil => simp at hy
  | cons x xs ih =>
    have hs' := List.pairwise_cons.1 hs
    unfold setErase
    split
    · rename_i h1
      have hex : e ∈ xs := by
        rcases List.mem_cons.1 he with he | he
        · subst he; rw [ltE_irrefl h] at h1; cases h1
        · exact he
      rcases List.mem_cons.1 hy with hy | hy
      · exact hy ▸ List.mem_cons_self
      · exact List.mem_cons_of_mem _ (ih hs'.2 hex hy)
    · split
      · exact hy
      · rename_i h1 h2
        have hex : e = x := by
          rcases List.mem_cons.1 he with he | he
          · exact he
          · exact absurd (hs'.1 e he) h1
        rcases List.mem_cons.1 hy with hy | hy
        · exact absurd (hy.trans hex.symm) hye
        · exact hy

/-- the iterator `insert` returns points to an element of the set that is equivalent to the new one … -/
theorem setFind_spec {lt : κ × β → κ × β → Bool} (h : StrictOrd lt) (e : Entry κ β) (l : List (Entry κ β)) :
    setFind lt e l ∈ setInsert lt e l ∧ ltE lt e (setFind lt e l) = false ∧ ltE lt (setFind lt e l) e = false := by
  induction l with
  | nil => simp [setFind, setInsert, ltE_irrefl h]
  | cons x xs ih =>
    unfold setFind setInsert
    split
    · exact ⟨List.mem_cons_self, ltE_irrefl h e, ltE_irrefl h e⟩
    · split
      · exact ⟨List.mem_cons_of_mem _ ih.1, ih.2⟩
      · rename_i h1 h2
        exact ⟨List.mem_cons_self, by simpa using h1, by simpa using h2⟩

/-- … inside the contract: to the new element itself -/
theorem setFind_new (lt : κ × β → κ × β → Bool) (e : Entry κ β) (l : List (Entry κ β))
    (hne : ∀ x, x ∈ l → ltE lt e x = true ∨ ltE lt x e = true) : setFind lt e l = e := by
  induction l with
  | nil => rfl
  | cons x xs ih =>
    unfold setFind
    split
    · rfl
    · split
      · exact ih (fun y hy => hne y (List.mem_cons_of_mem _ hy))
      · rename_i h1 h2
        rcases hne x List.mem_cons_self with h | h
        · exact absurd h h1
        · exact absurd h h2

/-- the eraser folded over the removed nodes -/
def eraseAll (lt : κ × β → κ × β → Bool) (l : List (Entry κ β)) (es : List (Entry κ β)) : List (Entry κ β) :=
  es.foldl (fun s e => setErase lt e s) l

theorem eraseAll_sublist (lt : κ × β → κ × β → Bool) (es : List (Entry κ β)) (l : List (Entry κ β)) :
    (eraseAll lt l es).Sublist l := by
  induction es generalizing l with
  | nil => exact List.Sublist.refl _
  | cons e es ih => exact (ih (setErase lt e l)).trans (setErase_sublist lt e l)

theorem not_mem_eraseAll {lt : κ × β → κ × β → Bool} (h : StrictOrd lt) (es : List (Entry κ β)) {l : List (Entry κ β)}
    (hs : Sorted lt l) (e : Entry κ β) (he : e ∈ es) : e ∉ eraseAll lt l es := by
  induction es generalizing l with
  | nil => simp at he
  | cons x xs ih =>
    have hs' : Sorted lt (setErase lt x l) := hs.sublist (setErase_sublist lt x l)
    rcases List.mem_cons.1 he with he | he
    · subst he
      intro hm
      exact not_mem_setErase h e hs ((eraseAll_sublist lt xs _).subset hm)
    · exact ih hs' he

theorem mem_eraseAll {lt : κ × β → κ × β → Bool} (h : StrictOrd lt) (es : List (Entry κ β)) {l : List (Entry κ β)}
    (hs : Sorted lt l) (hes : ∀ e, e ∈ es → e ∈ l) (hnd : es.Nodup) (y : Entry κ β) (hy : y ∈ l) (hye : y ∉ es) :
    y ∈ eraseAll lt l es := by
  induction es generalizing l with
  | nil => exact hy
  | cons x xs ih =>
    have hs' : Sorted lt (setErase lt x l) := hs.sublist (setErase_sublist lt x l)
    have hnd' := List.nodup_cons.1 hnd
    have hyx : y ≠ x := fun h' => hye (h' ▸ List.mem_cons_self)
    refine ih hs' ?_ hnd'.2 (mem_setErase_of_mem h x hs (hes x List.mem_cons_self) y hy hyx)
      (fun h' => hye (List.mem_cons_of_mem _ h'))
    intro e he
    exact mem_setErase_of_mem h x hs (hes x List.mem_cons_self) e (hes e (List.mem_cons_of_mem _ he))
      (fun h' => hnd'.1 (h' ▸ he))

/-! ### invariants -/

/-- after ANY history: no dangling iterator -/
def OWeak (lt : κ × β → κ × β → Bool) (o : State κ β) : Prop :=
  Two.WF o.ac ∧ Two.IdsOk o.ac ∧ Sorted lt o.data ∧ ∀ e : Entry κ β, e ∈ o.data → e.2 ∈ Two.listOf o.ac e.1

/-- inside the contract of `insert`: the ordered set holds exactly the nodes of the antichain -/
def OInv (lt : κ × β → κ × β → Bool) (o : State κ β) : Prop :=
  OWeak lt o ∧ ∀ e : Entry κ β, e.2 ∈ Two.listOf o.ac e.1 → e ∈ o.data

theorem oweak_init (lt : κ × β → κ × β → Bool) : OWeak lt (init : State κ β) :=
  ⟨Two.wf_nil, Two.idsOk_nil, by simp [Sorted, init], by simp [init]⟩

theorem oinv_init (lt : κ × β → κ × β → Bool) : OInv lt (init : State κ β) :=
  ⟨oweak_init lt, by intro e h; simp [init] at h⟩

theorem refine_ac (lt : κ × β → κ × β → Bool) (o : State κ β) (cands : List κ) (Q : β) (cmp : β → β → Bool) :
    (refine lt o cands Q cmp).ac = Two.refineD cmp Q o.ac cands := by
  unfold refine; simp only [Two.refine_fst]

theorem refine_data (lt : κ × β → κ × β → Bool) (o : State κ β) (cands : List κ) (Q : β) (cmp : β → β → Bool) :
    (refine lt o cands Q cmp).data = eraseAll lt o.data (Two.erased cmp Q o.ac cands) := by
  unfold refine; simp only [Two.refine_snd]; rfl

theorem oweak_refine {lt : κ × β → κ × β → Bool} (h : StrictOrd lt) {o : State κ β} (cands : List κ) (Q : β)
    (cmp : β → β → Bool) (ho : OWeak lt o) : OWeak lt (refine lt o cands Q cmp) := by
  obtain ⟨h1, h2, h3, h4⟩ := ho
  refine ⟨?_, ?_, ?_, ?_⟩
  · rw [refine_ac]; exact Two.wf_refineD _ _ _ h1
  · rw [refine_ac]; exact Two.idsOk_of_sublist (Two.sublist_refineD _ _ _ h1.1) h2
  · rw [refine_data]; exact h3.sublist (eraseAll_sublist _ _ _)
  · intro e he
    rw [refine_data] at he
    rw [refine_ac, Two.listOf_refineD _ _ _ h1.1]
    have hin := h4 e ((eraseAll_sublist _ _ _).subset he)
    split
    · rename_i hc
      rw [List.mem_filter]
      refine ⟨hin, ?_⟩
      cases hcm : cmp e.2.2 Q with
      | false => rfl
      | true =>
        exfalso
        exact not_mem_eraseAll h _ h3 e ((Two.mem_erased cmp Q cands h1.1 e).2 ⟨hc, hin, hcm⟩) he
    · exact hin

theorem oinv_refine {lt : κ × β → κ × β → Bool} (h : StrictOrd lt) {o : State κ β} (cands : List κ) (Q : β)
    (cmp : β → β → Bool) (ho : OInv lt o) : OInv lt (refine lt o cands Q cmp) := by
  refine ⟨oweak_refine h cands Q cmp ho.1, ?_⟩
  obtain ⟨⟨h1, h2, h3, h4⟩, h5⟩ := ho
  intro e he
  rw [refine_ac, Two.listOf_refineD _ _ _ h1.1] at he
  rw [refine_data]
  have hin : e.2 ∈ Two.listOf o.ac e.1 := by
    split at he
    · exact (List.mem_filter.1 he).1
    · exact he
  refine mem_eraseAll h _ h3 ?_ (Two.nodup_erased cmp Q cands h1.1 (Two.listOf_nodup_of_idsOk h2)) e (h5 e hin) ?_
  · intro x hx
    exact h5 x ((Two.mem_erased cmp Q cands h1.1 x).1 hx).2.1
  · intro hx
    obtain ⟨hc, _, hcm⟩ := (Two.mem_erased cmp Q cands h1.1 e).1 hx
    simp only [hc, if_true, List.mem_filter] at he
    rw [hcm] at he; simp at he

theorem oweak_insert {lt : κ × β → κ × β → Bool} (h : StrictOrd lt) {o : State κ β} {i : Nat}
    (hf : ∀ k a, a ∈ Two.listOf o.ac k → a.1 ≠ i) (q : κ) (Q : β) (ho : OWeak lt o) : OWeak lt (insert lt o i q Q) := by
  obtain ⟨h1, h2, h3, h4⟩ := ho
  refine ⟨Two.wf_insert h1 _ _ _, Two.idsOk_insert h2 hf _ _, sorted_setInsert h _ h3, ?_⟩
  intro e he
  simp only [insert] at he ⊢
  rw [Two.listOf_insert]
  rcases mem_setInsert_sub lt _ _ e he with he | he
  · subst he; simp
  · have := h4 e he
    split
    · rename_i hq; rw [hq] at this; exact List.mem_append_left _ this
    · exact this

/-- `insert` inside its contract: no element equivalent to the new one is in the ordered set -/
theorem oinv_insert {lt : κ × β → κ × β → Bool} (h : StrictOrd lt) {o : State κ β} {i : Nat}
    (hf : ∀ k a, a ∈ Two.listOf o.ac k → a.1 ≠ i) (q : κ) (Q : β)
    (hne : ∀ x, x ∈ o.data → ltE lt (q, i, Q) x = true ∨ ltE lt x (q, i, Q) = true)
    (ho : OInv lt o) : OInv lt (insert lt o i q Q) := by
  refine ⟨oweak_insert h hf q Q ho.1, ?_⟩
  intro e he
  simp only [insert] at he ⊢
  rw [Two.listOf_insert] at he
  by_cases hq : e.1 = q
  · simp only [hq, if_true, List.mem_append, List.mem_singleton] at he
    rcases he with he | he
    · exact mem_setInsert_old lt _ _ e (ho.2 e (by rw [hq]; exact he))
    · have : e = (q, i, Q) := Prod.ext hq he
      rw [this]; exact mem_setInsert_new lt _ _ hne
  · simp only [hq, if_false] at he
    exact mem_setInsert_old lt _ _ e (ho.2 e he)

/-- same node identity under the same key: same node -/
theorem eq_of_id_eq {d : Two.Data κ β} (hi : Two.IdsOk d) {k : κ} {a b : Nat × β}
    (ha : a ∈ Two.listOf d k) (hb : b ∈ Two.listOf d k) (hab : a.1 = b.1) : a = b := by
  have hnd := hi.1 k
  generalize Two.listOf d k = l at ha hb hnd
  induction l with
  | nil => simp at ha
  | cons x xs ih =>
    simp only [List.map_cons, List.nodup_cons, List.mem_map, not_exists, not_and] at hnd
    rcases List.mem_cons.1 ha with ha | ha <;> rcases List.mem_cons.1 hb with hb | hb
    · rw [ha, hb]
    · exact absurd (by rw [← ha, hab]) (hnd.1 b hb)
    · exact absurd (by rw [← hb]; exact hab) (hnd.1 a ha)
    · exact ih ha hb hnd.2

theorem oweak_get {lt : κ × β → κ × β → Bool} (h : StrictOrd lt) {o o' : State κ β} {e : Entry κ β}
    (ho : OWeak lt o) (hg : get o = some (e, o')) : OWeak lt o' := by
  obtain ⟨h1, h2, h3, h4⟩ := ho
  unfold get at hg
  cases hd : o.data with
  | nil => simp [hd] at hg
  | cons x r =>
    simp only [hd, Option.some.injEq, Prod.mk.injEq] at hg
    obtain ⟨hx, ho'⟩ := hg
    subst hx; subst ho'
    rw [hd] at h3 h4
    have h3' := List.pairwise_cons.1 h3
    refine ⟨Two.wf_remove _ _ h1, Two.idsOk_of_sublist (Two.sublist_remove _ _ h1.1) h2, h3'.2, ?_⟩
    intro y hy
    simp only
    rw [Two.listOf_remove _ _ h1.1]
    have hyin := h4 y (List.mem_cons_of_mem _ hy)
    split
    · rename_i hk
      rw [← hk, List.mem_filter]
      refine ⟨hyin, ?_⟩
      simp only [bne_iff_ne, ne_eq]
      intro hid
      have hxin := h4 x List.mem_cons_self
      rw [← hk] at hxin
      have : y.2 = x.2 := eq_of_id_eq h2 hyin hxin hid
      have hyx : y = x := Prod.ext hk this
      exact sorted_not_mem_tail h h3 (hyx ▸ hy)
    · exact hyin

/-- `get`: the returned element is stored, it is a LEAST stored element w.r.t. `Less`, exactly its node is removed from
the antichain, and the invariant is kept -/
theorem get_spec {lt : κ × β → κ × β → Bool} (h : StrictOrd lt) {o o' : State κ β} {e : Entry κ β}
    (ho : OInv lt o) (hg : get o = some (e, o')) :
    e.2 ∈ Two.listOf o.ac e.1 ∧
      (∀ k n, n ∈ Two.listOf o.ac k → (k, n) = e ∨ ltE lt e (k, n) = true) ∧
      (∀ k, Two.listOf o'.ac k = if k = e.1 then (Two.listOf o.ac e.1).filter (fun P => P.1 != e.2.1) else Two.listOf o.ac k) ∧
      OInv lt o' := by
  have hw' := oweak_get h ho.1 hg
  obtain ⟨⟨h1, h2, h3, h4⟩, h5⟩ := ho
  unfold get at hg
  cases hd : o.data with
  | nil => simp [hd] at hg
  | cons x r =>
    simp only [hd, Option.some.injEq, Prod.mk.injEq] at hg
    obtain ⟨hx, ho'⟩ := hg
    subst hx
    rw [hd] at h3 h4 h5
    have h3' := List.pairwise_cons.1 h3
    refine ⟨h4 x List.mem_cons_self, ?_, ?_, hw', ?_⟩
    · intro k n hn
      rcases List.mem_cons.1 (h5 (k, n) hn) with hm | hm
      · exact Or.inl hm
      · exact Or.inr (h3'.1 _ hm)
    · intro k; subst ho'; exact Two.listOf_remove _ _ h1.1 k
    · intro y hy
      subst ho'
      simp only at hy ⊢
      rw [Two.listOf_remove _ _ h1.1] at hy
      split at hy
      · rename_i hk
        rw [List.mem_filter] at hy
        rcases List.mem_cons.1 (h5 y (by rw [hk]; exact hy.1)) with hm | hm
        · subst hm; simp at hy
        · exact hm
      · rcases List.mem_cons.1 (h5 y hy) with hm | hm
        · subst hm; rename_i hk; exact absurd rfl hk
        · exact hm

/-- `get` answers `false` exactly when nothing is stored -/
theorem get_none_iff {lt : κ × β → κ × β → Bool} {o : State κ β} (ho : OInv lt o) :
    get o = none ↔ ∀ k, Two.listOf o.ac k = [] := by
  unfold get
  cases hd : o.data with
  | nil =>
    simp only [true_iff]
    intro k
    cases hl : Two.listOf o.ac k with
    | nil => rfl
    | cons n l =>
      have := ho.2 (k, n) (by simp [hl])
      rw [hd] at this; simp at this
  | cons x r =>
    simp only [reduceCtorEq, false_iff]
    intro hall
    have := ho.1.2.2.2 x (by rw [hd]; exact List.mem_cons_self)
    rw [hall] at this; simp at this

/-! ### the combination `AddToNext` -/
theorem offer_ac (lt : κ × β → κ × β → Bool) (o : State κ β) (up down : List κ) (le : β → β → Bool) (i : Nat) (q : κ) (Q : β) :
    (offer lt o up down le i q Q).ac = Two.offer o.ac up down le i q Q := by
  unfold offer Two.offer contains
  split
  · rfl
  · simp only [insert, refine_ac, Two.refine0_eq]

/-- `Less` distinguishes different pairs (the one of the inclusion checker: size, then key, then the set) -/
def Total (lt : κ × β → κ × β → Bool) : Prop := ∀ a b, lt a b = false → lt b a = false → a = b

/-- the combination keeps the invariant: reflexive `le`, `q` among its own candidates, `Less` total -/
theorem oinv_offer {lt : κ × β → κ × β → Bool} (h : StrictOrd lt) (htot : Total lt) {le : β → β → Bool}
    (hlrf : ∀ a, le a a = true) {o : State κ β} {up down : List κ} {q : κ} (hq : Two.listOf o.ac q ≠ [] → q ∈ up)
    {i : Nat} (hf : ∀ k a, a ∈ Two.listOf o.ac k → a.1 ≠ i) (Q : β) (ho : OInv lt o) :
    OInv lt (offer lt o up down le i q Q) := by
  unfold offer
  cases hcon : contains o up Q le with
  | true => simpa using ho
  | false =>
    simp only [Bool.false_eq_true, if_false]
    have hr := oinv_refine h down Q (fun P Q => le Q P) ho
    have hsub : ∀ k, (Two.listOf (refine lt o down Q (fun P Q => le Q P)).ac k).Sublist (Two.listOf o.ac k) := by
      intro k; rw [refine_ac]; exact Two.sublist_refineD _ _ _ ho.1.1.1 k
    refine oinv_insert h (fun k a ha => hf k a ((hsub k).subset ha)) q Q ?_ hr
    intro x hx
    have hxin := (hsub x.1).subset (hr.1.2.2.2 x hx)
    cases h1 : ltE lt (q, i, Q) x with
    | true => exact Or.inl rfl
    | false =>
      cases h2 : ltE lt x (q, i, Q) with
      | true => exact Or.inr rfl
      | false =>
        exfalso
        have := htot _ _ h1 h2
        simp only [Prod.mk.injEq] at this
        have hne : Two.listOf o.ac q ≠ [] := fun h' => by rw [← this.1, h'] at hxin; simp at hxin
        have : contains o up Q le = true := by
          unfold contains
          refine (Two.contains_iff _ _ _ _).2 ⟨q, hq hne, x.2, this.1 ▸ hxin, ?_⟩
          rw [← this.2]; exact hlrf _
        rw [hcon] at this; cases this

/-! ### the work-list loop: offers and gets in any order -/
inductive WOp (κ β : Type) where
  | offer (q : κ) (Q : β)
  | get

/-- one step of a work-list history; the node identities come from a counter -/
def wstep (lt : κ × β → κ × β → Bool) (up down : κ → List κ) (le : β → β → Bool) (s : State κ β × Nat) :
    WOp κ β → State κ β × Nat
  | .offer q Q => if contains s.1 (up q) Q le then s else (offer lt s.1 (up q) (down q) le s.2 q Q, s.2 + 1)
  | .get => match get s.1 with
    | some (_, o') => (o', s.2)
    | none => s

def wrun (lt : κ × β → κ × β → Bool) (up down : κ → List κ) (le : β → β → Bool) (s : State κ β × Nat) (ops : List (WOp κ β)) :
    State κ β × Nat := ops.foldl (wstep lt up down le) s

/-- history theorem for the ordered work-list: after ANY interleaving of offers (the `AddToNext` combination) and `get`s,
the ordered set and the antichain hold the same nodes (so – `get_spec` – every `get` returns a least stored element), the
node identities are unique and below the counter, and the antichain invariant holds -/
theorem wrun_inv {lt : κ × β → κ × β → Bool} (h : StrictOrd lt) (htot : Total lt) {kle : κ → κ → Bool} {le : β → β → Bool}
    (hkrf : ∀ a, kle a a = true) (hlrf : ∀ a, le a a = true) {up down : κ → List κ}
    (hup : ∀ q p, p ∈ up q ↔ kle q p = true) (hdown : ∀ q p, p ∈ down q ↔ kle p q = true)
    (ops : List (WOp κ β)) {s : State κ β × Nat} (ho : OInv lt s.1) (hb : Two.IdsBelow s.1.ac s.2) (ha : Two.Anti kle le s.1.ac) :
    OInv lt (wrun lt up down le s ops).1 ∧ Two.IdsBelow (wrun lt up down le s ops).1.ac (wrun lt up down le s ops).2 ∧
      Two.Anti kle le (wrun lt up down le s ops).1.ac := by
  induction ops generalizing s with
  | nil => exact ⟨ho, hb, ha⟩
  | cons op ops ih =>
    have hs : wrun lt up down le s (op :: ops) = wrun lt up down le (wstep lt up down le s op) ops := by simp [wrun]
    rw [hs]
    cases op with
    | offer q Q =>
      simp only [wstep]
      by_cases hcon : contains s.1 (up q) Q le = true
      · simp only [hcon, if_true]; exact ih ho hb ha
      · simp only [hcon, if_false, Bool.false_eq_true]
        have hc : Two.CandOk kle s.1.ac (up q) (down q) q := fun p _ => ⟨hup q p, hdown q p⟩
        refine ih (oinv_offer h htot hlrf (fun _ => (hup q q).2 (hkrf q)) (fun k a hm => Nat.ne_of_lt (hb k a hm)) Q ho) ?_ ?_
        · simp only; rw [offer_ac]; exact Two.idsBelow_offer ho.1.1.1 hb _ _ _ _ _
        · simp only; rw [offer_ac]; exact Two.offer_anti ho.1.1.1 hc _ _ ha
    | get =>
      simp only [wstep]
      cases hg : get s.1 with
      | none => exact ih ho hb ha
      | some x =>
        obtain ⟨e, o'⟩ := x
        obtain ⟨_, _, h3, h4⟩ := get_spec h ho hg
        have hsub : ∀ k, (Two.listOf o'.ac k).Sublist (Two.listOf s.1.ac k) := by
          intro k; rw [h3]; split
          · rename_i hk; rw [hk]; exact List.filter_sublist
          · exact List.Sublist.refl _
        refine ih h4 (Two.idsBelow_of_sublist hsub hb) ?_
        intro k k' a b ha' hb' hab
        exact ha k k' a b ((hsub k).subset ha') ((hsub k').subset hb') hab

/-! ### any history on a pool, in or out of the contract: no dangling iterator -/
def PoolWeak (lt : κ × β → κ × β → Bool) (P : Pool κ β) : Prop :=
  ∀ o, o ∈ P.objs → OWeak lt o ∧ Two.IdsBelow o.ac P.next

theorem obj_weak {lt : κ × β → κ × β → Bool} {P : Pool κ β} (h : PoolWeak lt P) (o : Nat) :
    OWeak lt (obj P o) ∧ Two.IdsBelow (obj P o).ac P.next := by
  unfold obj
  rw [List.getD_eq_getElem?_getD]
  cases ho : P.objs[o]? with
  | none => exact ⟨oweak_init lt, by intro k a h; simp [init] at h⟩
  | some d => simpa using h d (List.mem_of_getElem? ho)

theorem setObj_weak {lt : κ × β → κ × β → Bool} {P : Pool κ β} (h : PoolWeak lt P) (o : Nat) {d : State κ β}
    (hd : OWeak lt d ∧ Two.IdsBelow d.ac P.next) : PoolWeak lt (setObj P o d) := by
  intro d' hd'
  rcases List.mem_or_eq_of_mem_set hd' with h1 | h1
  · exact h d' h1
  · exact h1 ▸ hd

theorem bump_weak {lt : κ × β → κ × β → Bool} {P : Pool κ β} (h : PoolWeak lt P) :
    PoolWeak lt { P with next := P.next + 1 } := by
  intro d hd
  obtain ⟨h1, h2⟩ := h d hd
  exact ⟨h1, fun k a ha => Nat.lt_succ_of_lt (h2 k a ha)⟩

theorem idsBelow_insert {d : Two.Data κ β} {n : Nat} (hb : Two.IdsBelow d n) (q : κ) (Q : β) :
    Two.IdsBelow (Two.insert d n q Q) (n + 1) := by
  intro k a ha
  rw [Two.listOf_insert] at ha
  split at ha
  · rcases List.mem_append.1 ha with ha | ha
    · exact Nat.lt_succ_of_lt (hb _ a ha)
    · simp only [List.mem_singleton] at ha; subst ha; exact Nat.lt_succ_self _
  · exact Nat.lt_succ_of_lt (hb _ a ha)

theorem oweak_offer {lt : κ × β → κ × β → Bool} (h : StrictOrd lt) {o : State κ β} (up down : List κ) (le : β → β → Bool)
    {i : Nat} (hf : ∀ k a, a ∈ Two.listOf o.ac k → a.1 ≠ i) (q : κ) (Q : β) (ho : OWeak lt o) :
    OWeak lt (offer lt o up down le i q Q) := by
  unfold offer
  split
  · exact ho
  · have hr := oweak_refine h down Q (fun P Q => le Q P) ho
    refine oweak_insert h (fun k a ha => hf k a ?_) q Q hr
    rw [refine_ac] at ha
    exact (Two.sublist_refineD _ _ _ ho.1.1 k).subset ha

theorem step_weak {lt : κ × β → κ × β → Bool} (h : StrictOrd lt) (P : Pool κ β) (op : Op κ β) (hp : PoolWeak lt P) :
    PoolWeak lt (step lt P op).1 := by
  cases op with
  | contains o c Q cmp => exact hp
  | refine o c Q cmp =>
    obtain ⟨h1, h2⟩ := obj_weak hp o
    refine setObj_weak hp o ⟨oweak_refine h _ _ _ h1, ?_⟩
    rw [refine_ac]
    exact Two.idsBelow_of_sublist (Two.sublist_refineD _ _ _ h1.1.1) h2
  | insert o q Q =>
    obtain ⟨h1, h2⟩ := obj_weak hp o
    simp only [step]
    have : ({ setObj P o (insert lt (obj P o) P.next q Q) with next := P.next + 1 } : Pool κ β) =
        setObj { P with next := P.next + 1 } o (insert lt (obj P o) P.next q Q) := rfl
    rw [this]
    exact setObj_weak (bump_weak hp) o ⟨oweak_insert h (fun k a ha => Nat.ne_of_lt (h2 k a ha)) _ _ h1,
      idsBelow_insert h2 _ _⟩
  | get o =>
    obtain ⟨h1, h2⟩ := obj_weak hp o
    simp only [step]
    cases hg : get (obj P o) with
    | none => exact hp
    | some x =>
      obtain ⟨e, s⟩ := x
      refine setObj_weak hp o ⟨oweak_get h h1 hg, ?_⟩
      unfold get at hg
      cases hd : (obj P o).data with
      | nil => simp [hd] at hg
      | cons y r =>
        simp only [hd, Option.some.injEq, Prod.mk.injEq] at hg
        rw [← hg.2]
        exact Two.idsBelow_of_sublist (Two.sublist_remove _ _ h1.1.1) h2
  | lookup o k => exact hp
  | empty o => exact hp
  | clear o => exact setObj_weak hp o ⟨oweak_init lt, by intro k a h; simp [init] at h⟩
  | offer o up down le q Q =>
    obtain ⟨h1, h2⟩ := obj_weak hp o
    simp only [step]
    split
    · exact hp
    · have : ({ setObj P o (offer lt (obj P o) up down le P.next q Q) with next := P.next + 1 } : Pool κ β) =
          setObj { P with next := P.next + 1 } o (offer lt (obj P o) up down le P.next q Q) := rfl
      rw [this]
      refine setObj_weak (bump_weak hp) o ⟨oweak_offer h _ _ _ (fun k a ha => Nat.ne_of_lt (h2 k a ha)) _ _ h1, ?_⟩
      rw [offer_ac]
      exact Two.idsBelow_offer h1.1.1 h2 _ _ _ _ _

/-- history theorem for the class as such (in or out of the contract of `insert`): after ANY list of operations every
element of the ordered set refers to a live node of the antichain, the ordered set is strictly ascending, the antichain
is well-formed -/
theorem run_weak {lt : κ × β → κ × β → Bool} (h : StrictOrd lt) (ops : List (Op κ β)) {P : Pool κ β} (hp : PoolWeak lt P) :
    PoolWeak lt (run lt P ops) := by
  induction ops generalizing P with
  | nil => exact hp
  | cons op ops ih =>
    have : run lt P (op :: ops) = run lt (step lt P op).1 ops := by simp [run]
    rw [this]; exact ih (step_weak h P op hp)

end Vata.AC.Ord
