import Vata.Proofs.InclUpBdd
import Vata.Proofs.InclUpSim
/-!
# Termination bound and completeness of the bottom-up BDD upward inclusion model (property C07)

`InclUpBdd.run` (`Vata/InclUpBdd.lean`, the model of `CheckUpwardTreeInclusion`, `src/tree_incl_up.hh`) takes one unit of
fuel per pair taken from `workset`.  This file proves that an explicit amount of fuel suffices:

* `fuelBoundBdd A B = 2 · |Δ_A| · 2^|Δ_B|` (`|Δ|` = number of rules);
* `run_terminates` : `fuelBoundBdd A B < fuel → ∃ r, run A B fuel = some r` (also for the step before the repair:
  `runOld_terminates`; generic in the step: `runWith_terminates`);
* `run_fuel_irrelevant` : above the bound the result does not depend on the fuel;
* `inclUpBdd_total`, `inclUpBdd_complete` : above the bound the certified model returns `some (true, _)` when `Incl A B` and
  `some (false, _)` when not – on ANY operands (no `Trimmed` hypothesis: unlike the explicit upward code, this code has no
  exit on an empty macro-state, it answers `false` only for a pair whose `A`-state is final);
* `checkInclUpBdd_total`, `checkInclUpBdd_complete` (operands sanitised first), `inclUpBddSim_complete`,
  `checkInclUpBddSim_complete` (the selection "with simulation", which ignores the relation).

The measure (the one of `Vata/Proofs/InclUpTotal.lean`, re-used): `phiB st = 2 · mu st.antichain + |st.workset|`, where
`mu P` counts the pairs (parent of an `A`-rule, subset of the parents of `B`-rules) that `P` does not subsume.
* the functor (`fctor`) changes the state only for a pair `(q, S)` NOT subsumed by `antichain`; then `antichain` gets the
  pair (`mu` drops by at least one: the pair `(q, S ∩ parents B)` of the universe becomes subsumed, nothing subsumed is
  lost because `refine` only erases pairs above the new one) and `workset` grows by at most one (`refine` may shrink it):
  `phiB` does not grow;
* every iteration of `loop` first removes the head of `workset`: `phiB` drops by one;
* at the start `phiB ⟨[], []⟩ ≤ 2 · |univ|`.
Proved for every step function built from `foreachUp` on rules of `A` (`PhiSpec`), i.e. for the repaired step
`procTuple` and the old step `procTupleOld`.
-/
namespace Vata
open InclUp InclUpBdd

namespace InclUpBdd

/-! ### the measure -/

/-- twice the number of pairs of the universe not yet subsumed by the antichain, plus the length of the work-list -/
def phiB (A B : TA) (st : St) : Nat := 2 * mu A B st.antichain + st.workset.length

theorem length_addTmp_le (W : List Item) (it : Item) : (addTmp W it).length ≤ W.length + 1 := by
  unfold addTmp
  split
  · omega
  · have := length_refine_le W it.q it.S
    simp only [List.length_append, List.length_cons, List.length_nil]
    omega

/-- `UpwardInclusionFunctor::operator()` does not increase the measure -/
theorem phiB_fctor {A B : TA} {st st' : St} {it : Item} (hd : Dom A B it) (h : fctor A B st it = .ok st') :
    phiB A B st' ≤ phiB A B st := by
  rcases fctor_cases (A := A) (B := B) (st := st) (it := it) with ⟨_, he⟩ | ⟨_, _, _, he⟩ | ⟨hs, _, he⟩
  · rw [he] at h; cases h; exact Nat.le_refl _
  · rw [he] at h; cases h
  · rw [he] at h; cases h
    have hs' : subsumed st.antichain it.q it.S = false := by
      cases hc : subsumed st.antichain it.q it.S with
      | false => rfl
      | true => exact absurd hc hs
    have h1 := mu_addTmp_lt (A := A) (B := B) hd hs'
    have h2 := length_addTmp_le st.workset it
    unfold phiB
    simp only
    omega

/-- the pair the functor is called with for a rule of `A` lives in the universe -/
theorem dom_item {A B : TA} {ρ : Rule} (hρ : ρ ∈ A.rules) (Ss : List (List Nat)) (t : Tree) :
    Dom A B ⟨ρ.parent, macroPost B ρ.sym Ss, t⟩ := by
  constructor
  · exact List.mem_map.mpr ⟨ρ, hρ, rfl⟩
  · intro x hx
    obtain ⟨r, hr, _, _, hp⟩ := mem_post'.mp (mem_macroPost.mp hx)
    exact List.mem_map.mpr ⟨r, hr, hp⟩

theorem phiB_foreachUp {A B : TA} {ks : List Nat} {Ss : List (List Nat)} {ts : List Tree} :
    ∀ {ρs : List Rule} {st st' : St}, (∀ ρ, ρ ∈ ρs → ρ ∈ A.rules) → foreachUp A B ks Ss ts ρs st = .ok st' →
      phiB A B st' ≤ phiB A B st
  | [], st, st', _, h => by
    simp only [foreachUp, Except.ok.injEq] at h
    subst h; exact Nat.le_refl _
  | ρ₀ :: ρs, st, st', hρs, h => by
    have hρs' : ∀ ρ, ρ ∈ ρs → ρ ∈ A.rules := fun ρ hm => hρs ρ (List.mem_cons_of_mem _ hm)
    unfold foreachUp at h
    split at h
    · split at h
      · cases h
      · next st₁ h₁ =>
        exact Nat.le_trans (phiB_foreachUp hρs' h)
          (phiB_fctor (dom_item (hρs ρ₀ List.mem_cons_self) Ss _) h₁)
    · exact phiB_foreachUp hρs' h

theorem phiB_procCombos {A B : TA} {ks : List Nat} :
    ∀ {iss : List (List Item)} {st st' : St}, procCombos A B ks iss st = .ok st' → phiB A B st' ≤ phiB A B st
  | [], st, st', h => by
    simp only [procCombos, Except.ok.injEq] at h
    subst h; exact Nat.le_refl _
  | is₀ :: iss, st, st', h => by
    unfold procCombos at h
    split at h
    · cases h
    · next st₁ h₁ =>
      exact Nat.le_trans (phiB_procCombos h) (phiB_foreachUp (fun _ hm => hm) h₁)

/-- a step function does not increase the measure -/
def PhiSpec (A B : TA) (proc : Item → List Nat → St → Res St) : Prop :=
  ∀ it ks st st', proc it ks st = .ok st' → phiB A B st' ≤ phiB A B st

/-- the repaired step -/
theorem procTuple_phi (A B : TA) : PhiSpec A B (procTuple A B) := by
  intro it ks st st' h
  unfold procTuple at h
  split at h
  · exact phiB_procCombos h
  · simp only [Except.ok.injEq] at h
    subst h; exact Nat.le_refl _

/-- the step before the repair -/
theorem procTupleOld_phi (A B : TA) : PhiSpec A B (procTupleOld A B) := by
  intro it ks st st' h
  unfold procTupleOld at h
  split at h
  · exact phiB_foreachUp (fun _ hm => hm) h
  · simp only [Except.ok.injEq] at h
    subst h; exact Nat.le_refl _

theorem phiB_procTuples {A B : TA} {proc : Item → List Nat → St → Res St} (hp : PhiSpec A B proc) {it : Item} :
    ∀ {Tl : List (List Nat)} {st st' : St}, procTuples proc it Tl st = .ok st' → phiB A B st' ≤ phiB A B st
  | [], st, st', h => by
    simp only [procTuples, Except.ok.injEq] at h
    subst h; exact Nat.le_refl _
  | ks₀ :: Tl, st, st', h => by
    unfold procTuples at h
    split at h
    · cases h
    · next st₁ h₁ => exact Nat.le_trans (phiB_procTuples hp h) (hp it ks₀ st st₁ h₁)

/-! ### termination -/

/-- `while (workset.get(procState, procSet))` ends when the fuel exceeds the measure -/
theorem loop_terminates {A B : TA} {proc : Item → List Nat → St → Res St} (hp : PhiSpec A B proc)
    (T : List (List Nat)) : ∀ (n : Nat) (st : St), phiB A B st < n → ∃ r, loop proc T n st = some r
  | 0, _, h => absurd h (Nat.not_lt_zero _)
  | n+1, st, h => by
    unfold loop
    split
    · exact ⟨_, rfl⟩
    · next it rest hn =>
      split
      · exact ⟨_, rfl⟩
      · next st' h' =>
        apply loop_terminates hp T n st'
        have h1 := phiB_procTuples hp h'
        have h2 : phiB A B ⟨st.antichain, rest⟩ + 1 = phiB A B st := by
          unfold phiB; rw [hn]; simp only [List.length_cons]; omega
        omega

/-- more fuel than needed changes nothing -/
theorem loop_mono {proc : Item → List Nat → St → Res St} {T : List (List Nat)} :
    ∀ {n : Nat} {st : St} {r : Res (List Item)}, loop proc T n st = some r → ∀ m, n ≤ m → loop proc T m st = some r
  | 0, _, _, h, _, _ => by simp [loop] at h
  | n+1, st, r, h, m, hm => by
    obtain ⟨m', rfl⟩ : ∃ m', m = m' + 1 := ⟨m - 1, by omega⟩
    unfold loop at h ⊢
    split
    · next hn => rw [hn] at h; exact h
    · next it rest hn =>
      rw [hn] at h
      simp only at h
      split
      · next e he => rw [he] at h; exact h
      · next st' h' =>
        rw [h'] at h
        exact loop_mono h m' (by omega)

/-- the number of pairs taken from the work-list is bounded by twice the number of pairs
(rule of `A`, set of rules of `B`) -/
def fuelBoundBdd (A B : TA) : Nat := 2 * (A.rules.length * 2 ^ B.rules.length)

theorem fuelBoundBdd_eq (A B : TA) : fuelBoundBdd A B = InclUp.fuelBound A B := rfl

theorem phiB_init_le (A B : TA) : phiB A B ⟨[], []⟩ ≤ fuelBoundBdd A B := by
  unfold phiB mu fuelBoundBdd
  have := List.countP_le_length (p := fun p : Nat × List Nat => !subsumed [] p.1 p.2) (l := InclUp.univ A B)
  rw [length_univ] at this
  simp only [List.length_nil]
  omega

theorem runWith_terminates {A B : TA} {proc : TA → TA → Item → List Nat → St → Res St} (hp : PhiSpec A B (proc A B))
    {fuel : Nat} (h : fuelBoundBdd A B < fuel) : ∃ r, runWith proc A B fuel = some r := by
  unfold runWith
  split
  · exact ⟨_, rfl⟩
  · next st hst =>
    apply loop_terminates hp
    have h1 := phiB_foreachUp (A := A) (B := B) (fun _ hm => hm) hst
    have h2 := phiB_init_le A B
    omega

/-- **the exploration of the repaired algorithm ends within `2 · |Δ_A| · 2^|Δ_B|` picked pairs** -/
theorem run_terminates {A B : TA} {fuel : Nat} (h : fuelBoundBdd A B < fuel) : ∃ r, run A B fuel = some r :=
  runWith_terminates (procTuple_phi A B) h

/-- … and so does the algorithm before the repair (it terminates, with a possibly wrong verdict) -/
theorem runOld_terminates {A B : TA} {fuel : Nat} (h : fuelBoundBdd A B < fuel) : ∃ r, runOld A B fuel = some r :=
  runWith_terminates (procTupleOld_phi A B) h

theorem runWith_mono {A B : TA} {proc : TA → TA → Item → List Nat → St → Res St} {n m : Nat} {r : Res (List Item)}
    (h : runWith proc A B n = some r) (hm : n ≤ m) : runWith proc A B m = some r := by
  unfold runWith at h ⊢
  split
  · next e he => rw [he] at h; exact h
  · next st hst =>
    rw [hst] at h
    exact loop_mono h m hm

/-- above the bound the result of the exploration does not depend on the fuel -/
theorem run_fuel_irrelevant {A B : TA} {f₁ f₂ : Nat} (h₁ : fuelBoundBdd A B < f₁) (h₂ : fuelBoundBdd A B < f₂) :
    run A B f₁ = run A B f₂ := by
  obtain ⟨r, hr⟩ := run_terminates (A := A) (B := B) (fuel := fuelBoundBdd A B + 1) (Nat.lt_succ_self _)
  rw [show run A B f₁ = some r from runWith_mono hr (by omega),
    show run A B f₂ = some r from runWith_mono hr (by omega)]

end InclUpBdd

/-! ### totality and completeness of the certified model -/

/-- on ANY operands the model returns a verdict for every fuel above the bound -/
theorem inclUpBdd_total (A B : TA) {fuel : Nat} (hf : fuelBoundBdd A B < fuel) :
    ∃ b c, inclUpBdd A B fuel = some (b, c) := by
  obtain ⟨r, hr⟩ := InclUpBdd.run_terminates hf
  cases r with
  | ok P => exact ⟨_, _, inclUpBdd_of_run_ok hr⟩
  | error e => obtain ⟨q, w⟩ := e; exact ⟨_, _, inclUpBdd_of_run_error hr⟩

/-- … and it is the right one -/
theorem inclUpBdd_complete (A B : TA) {fuel : Nat} (hf : fuelBoundBdd A B < fuel) :
    (Incl A B → ∃ c, inclUpBdd A B fuel = some (true, c)) ∧
    (¬ Incl A B → ∃ c, inclUpBdd A B fuel = some (false, c)) := by
  obtain ⟨b, c, h⟩ := inclUpBdd_total A B hf
  have := inclUpBdd_iff h
  cases b with
  | true => exact ⟨fun _ => ⟨c, h⟩, fun hn => absurd (this.mp rfl) hn⟩
  | false => exact ⟨fun hi => (by cases this.mpr hi), fun _ => ⟨c, h⟩⟩

/-- above the bound the verdict does not depend on the fuel -/
theorem inclUpBdd_fuel_irrelevant {A B : TA} {f₁ f₂ : Nat} (h₁ : fuelBoundBdd A B < f₁) (h₂ : fuelBoundBdd A B < f₂) :
    inclUpBdd A B f₁ = inclUpBdd A B f₂ := by
  unfold inclUpBdd
  rw [run_fuel_irrelevant h₁ h₂]

/-- the model of `CheckInclusion` with `ANTICHAINS_UP_NOSIM` (operands sanitised first) -/
theorem checkInclUpBdd_total (A B : TA) {fuel : Nat}
    (hf : fuelBoundBdd (removeUseless A) (removeUseless B) < fuel) : ∃ b c, checkInclUpBdd A B fuel = some (b, c) :=
  inclUpBdd_total _ _ hf

theorem checkInclUpBdd_complete (A B : TA) {fuel : Nat}
    (hf : fuelBoundBdd (removeUseless A) (removeUseless B) < fuel) :
    (Incl A B → ∃ c, checkInclUpBdd A B fuel = some (true, c)) ∧
    (¬ Incl A B → ∃ c, checkInclUpBdd A B fuel = some (false, c)) := by
  have := inclUpBdd_complete (removeUseless A) (removeUseless B) hf
  rw [incl_removeUseless] at this
  exact this

/-- the bottom-up selection `ANTICHAINS_UP_SIM` as the library calls it (operands as passed, relation ignored) -/
theorem inclUpBddSim_complete (A B : TA) (R : Rel) {fuel : Nat} (hf : fuelBoundBdd A B < fuel) :
    (Incl A B → ∃ c, inclUpBddSim A B R fuel = some (true, c)) ∧
    (¬ Incl A B → ∃ c, inclUpBddSim A B R fuel = some (false, c)) :=
  inclUpBdd_complete A B hf

/-- … and as the command line calls it (operands prepared by `sanitize`) -/
theorem checkInclUpBddSim_complete (A B : TA) {fuel : Nat}
    (hf : fuelBoundBdd (sanitize A B).1 (sanitize A B).2.1 < fuel) :
    (Incl A B → ∃ c, checkInclUpBddSim A B fuel = some (true, c)) ∧
    (¬ Incl A B → ∃ c, checkInclUpBddSim A B fuel = some (false, c)) := by
  have := inclUpBdd_complete (sanitize A B).1 (sanitize A B).2.1 hf
  rw [checkIncl_sanitized] at this
  exact this

/-! ### examples (non-vacuity) -/
namespace InclUpBddEx

example : fuelBoundBdd cexA cexB = 96 := by decide
example : fuelBoundBdd exEven exAll = 24 := by decide
example : ∃ r, InclUpBdd.run cexA cexB 97 = some r := InclUpBdd.run_terminates (by decide)
example : ∃ r, InclUpBdd.runOld cexA cexB 97 = some r := runOld_terminates (by decide)
example : ∃ c, inclUpBdd cexA cexB 97 = some (false, c) :=
  (inclUpBdd_complete cexA cexB (by decide)).2
    (inclUpBdd_false (fuel := 10) (c := .witness (.node 2 [.node 1 [], .node 0 []])) rfl)
example : ∃ c, inclUpBdd cexB cexA 100 = some (true, c) :=
  (inclUpBdd_complete cexB cexA (by decide)).1
    (inclUpBdd_true (fuel := 10) (c := .closed [(3, [1]), (4, [1]), (9, [2])]) rfl)
-- the bound is generous: 10 units suffice here, 1 unit does not
#guard verdict (inclUpBdd cexA cexB 10) == some false
#guard verdict (inclUpBdd exEven exAll 1) == none
-- no `Trimmed` hypothesis is needed (contrast `InclUp.TotalEx.exU`, on which the explicit model answers `none`)
#guard verdict (inclUpBdd InclUp.TotalEx.exU InclUpEx.exA 100) == some true

end InclUpBddEx

end Vata
