import Vata.Proofs.CowHeapFACand
/-!
# The finite-automaton heap model: every step including `GetCandidateTree`; whole histories as ONE fold

* `DenStepRel`: `denStep` extended to a RELATION between the automata denoted before and after a step – for
  `GetCandidateTree` (and its internal step) the target gets SOME automaton with the two guarantees of `C10_witness`
  (`WitnessSpec`); `fa_history_step_all`: every step of every history satisfies it (no `NotCand`).
* congruences of the `nfas…` operations for `NEquiv` that were missing: `nfasSetFinal`, `nfasSetStart`,
  `nfasSetExistingStart`, `nfasAddTrans`, `nfasUnionDisjoint` (both arguments), `nfasMap idx` for `idx` injective on the
  START states (the only place where the order of a list matters: the first start state with a given image decides the
  entry of the start-symbol map); `nfasMap_congr_needs_inj` shows that injectivity cannot be dropped.
* `denStep_congr`, and `fa_history_fold`: for an operation list without `GetCandidateTree` steps whose `ReindexStates`
  steps use index functions injective on the start states of their source, the automata denoted at the end are – handle by
  handle, up to list order – `ops.foldl denStep den0`.
* `DenRun` / `fa_history_run`: every history (with `GetCandidateTree` steps) is a run of the relation `DenStepRel`.
-/
namespace Vata.CowHeapFA

open Vata Vata.W Vata.NfaS
open Vata.Store (KeysNodup)
open Vata.CowHeap (upd upd_same upd_other)

/-! ### the specification of the witness as a relation -/

/-- the two guarantees of `C10_witness`: the language of `R` is a subset of the language of `A`, and it is empty only if the
    language of `A` is -/
def WitnessSpec (A R : NFAS) : Prop :=
  (∀ w, acceptsW R.toNFA w = true → acceptsW A.toNFA w = true) ∧
  ((∃ w, acceptsW R.toNFA w = true) ↔ ∃ w, acceptsW A.toNFA w = true)

/-- `dRes` with a relation `S` between operand and result in place of a function: the target gets SOME automaton related to
    the operand's, every other handle keeps its automaton -/
def dResRel (a b : Nat → Option NFAS) (src dst : Nat) (S : NFAS → NFAS → Prop) : Prop :=
  match a src with
  | some A => if (a dst).isNone then (∃ R, b dst = some R ∧ S A R) ∧ ∀ x, x ≠ dst → b x = a x else b = a
  | none => b = a

/-- one step, seen on the automata, for EVERY operation: `denStep` up to list order, except that the result of
    `GetCandidateTree` is specified by `WitnessSpec` (and its local `res` in addition as a sub-automaton) -/
def DenStepRel (a : Nat → Option NFAS) (op : Op) (b : Nat → Option NFAS) : Prop :=
  match op with
  | .candRaw src dst => dResRel a b src dst (fun A R => NfaSub R.toNFA A.toNFA ∧ WitnessSpec A R)
  | .candidate src dst => dResRel a b src dst WitnessSpec
  | op => EnvEq b (denStep a op)

theorem den_specRes_rel (a : Nat → Option FAVal) (src dst : Nat) (f : FAVal → FAVal) (S : NFAS → NFAS → Prop)
    (hf : ∀ s, a src = some s → S s.toNFAS (f s).toNFAS) :
    dResRel (den a) (den (specRes a src dst f)) src dst S := by
  unfold specRes dResRel
  cases hs : a src with
  | none => rw [den_none hs]
  | some s =>
    rw [den_some hs]
    simp only
    cases hd : a dst with
    | none =>
      rw [den_none hd]
      simp only [Option.isNone_none, if_true]
      rw [den_upd]
      refine ⟨⟨(f s).toNFAS, by rw [upd_same]; rfl, hf s hs⟩, fun x hx => upd_other _ _ hx⟩
    | some d =>
      rw [den_some hd]
      simp only [Option.isNone_some, Bool.false_eq_true, if_false]

/-- `dResRel` read for a live operand and a dead target -/
theorem dResRel_elim {a b : Nat → Option NFAS} {src dst : Nat} {S : NFAS → NFAS → Prop} (h : dResRel a b src dst S)
    {A : NFAS} (hA : a src = some A) (hd : a dst = none) :
    (∃ R, b dst = some R ∧ S A R) ∧ ∀ x, x ≠ dst → b x = a x := by
  unfold dResRel at h
  rw [hA] at h
  simp only [hd, Option.isNone_none, if_true] at h
  exact h

/-- the value-level `GetCandidateTree` meets the specification of the witness (value with one cluster per state) -/
theorem vCandidate_witness (v : FAVal) (hk : KeysNodup v.trans) : WitnessSpec v.toNFAS (vCandidate v).toNFAS :=
  ⟨vCandidate_sub_lang v, vCandidate_nonempty_iff v hk⟩

/-- … and so does its local `res`, which is moreover a sub-automaton -/
theorem vCandRaw_witness (v : FAVal) (hk : KeysNodup v.trans) :
    NfaSub (vCandRaw v).toNFAS.toNFA v.toNFAS.toNFA ∧ WitnessSpec v.toNFAS (vCandRaw v).toNFAS :=
  ⟨vCandRaw_sub v, (vCandRaw_sub v).lang,
    fun ⟨w, hw⟩ => ⟨w, (vCandRaw_sub v).lang w hw⟩, vCandRaw_nonempty v hk⟩

/-- one step of the specification, seen on the automata, for every operation -/
theorem spec_denote_step_all (a : Nat → Option FAVal) (ha : EnvWF a) (op : Op) (hok : OpOk a op) :
    DenStepRel (den a) op (den (specStep a op)) := by
  cases op with
  | candRaw src dst =>
    exact den_specRes_rel a src dst vCandRaw _ (fun s hs => vCandRaw_witness s (ha src s hs).keys)
  | candidate src dst =>
    exact den_specRes_rel a src dst vCandidate _ (fun s hs => vCandidate_witness s (ha src s hs).keys)
  | _ => exact spec_denote_step a ha _ hok trivial

/-- … for the heap: one more operation – ANY operation – after any history -/
theorem fa_history_step_all (ops : List Op) (op : Op) (hok : OpOk (absFA (exec ops)) op) :
    DenStepRel (den (absFA (exec ops))) op (den (absFA (exec (ops ++ [op])))) := by
  have e : exec (ops ++ [op]) = step (exec ops) op := by
    unfold exec; rw [List.foldl_append]; rfl
  rw [e, (fa_refines_values (fa_history_inv ops) op).1]
  exact spec_denote_step_all _ (envWF_history ops) op hok

/-! ### `EnvEq` is an equivalence -/

theorem ORel.symm {x y : Option NFAS} (h : ORel x y) : ORel y x := by
  cases x <;> cases y
  · trivial
  · exact absurd h id
  · exact absurd h id
  · exact NEquiv.symm h

theorem ORel.trans {x y z : Option NFAS} (h : ORel x y) (h' : ORel y z) : ORel x z := by
  cases x <;> cases y <;> cases z
  · trivial
  · exact absurd h' id
  · exact absurd h id
  · exact absurd h id
  · exact absurd h id
  · exact absurd h id
  · exact absurd h' id
  · exact NEquiv.trans' h h'

theorem EnvEq.symm {a b : Nat → Option NFAS} (h : EnvEq a b) : EnvEq b a := fun x => (h x).symm
theorem EnvEq.trans {a b c : Nat → Option NFAS} (h : EnvEq a b) (h' : EnvEq b c) : EnvEq a c :=
  fun x => (h x).trans (h' x)

theorem ORel.isSome_eq {x y : Option NFAS} (h : ORel x y) : x.isSome = y.isSome := by
  cases x <;> cases y
  · rfl
  · exact absurd h id
  · exact absurd h id
  · rfl

theorem ORel.isNone_eq {x y : Option NFAS} (h : ORel x y) : x.isNone = y.isNone := by
  cases x <;> cases y
  · rfl
  · exact absurd h id
  · exact absurd h id
  · rfl

theorem envEq_upd2 {a b : Nat → Option NFAS} (hab : EnvEq a b) (h : Nat) {x y : Option NFAS} (hxy : ORel x y) :
    EnvEq (upd a h x) (upd b h y) := by
  intro k
  unfold upd
  by_cases e : k = h
  · simp only [e, if_true]; exact hxy
  · simp only [e, if_false]; exact hab k

/-! ### the missing congruences -/

theorem nfasSetFinal_congr {A B : NFAS} (h : NEquiv A B) (q : Nat) : NEquiv (nfasSetFinal A q) (nfasSetFinal B q) := by
  refine ⟨h.start, fun x => ?_, h.trans, h.syms⟩
  show x ∈ insN A.final q ↔ x ∈ insN B.final q
  rw [NfaS.mem_insN, NfaS.mem_insN, h.final x]

theorem nfasAddTrans_congr {A B : NFAS} (h : NEquiv A B) (p a q : Nat) :
    NEquiv (nfasAddTrans A p a q) (nfasAddTrans B p a q) := by
  refine ⟨h.start, h.final, fun e => ?_, h.syms⟩
  show e ∈ A.trans ++ [(p, a, q)] ↔ e ∈ B.trans ++ [(p, a, q)]
  rw [List.mem_append, List.mem_append, h.trans e]

theorem nfasSetStart_congr {A B : NFAS} (h : NEquiv A B) (q a : Nat) :
    NEquiv (nfasSetStart A q a) (nfasSetStart B q a) := by
  refine ⟨fun x => ?_, h.final, h.trans, fun p => ?_⟩
  · show x ∈ insN A.start q ↔ x ∈ insN B.start q
    rw [NfaS.mem_insN, NfaS.mem_insN, h.start x]
  · show smFind (smAddSym A.startSyms q a) p = smFind (smAddSym B.startSyms q a) p
    rw [smFind_smAddSym, smFind_smAddSym, h.syms p]
    simp only [smGet, h.syms q]

theorem nfasSetExistingStart_congr {A B : NFAS} (h : NEquiv A B) (q : Nat) (S : List Nat) :
    NEquiv (nfasSetExistingStart A q S) (nfasSetExistingStart B q S) := by
  refine ⟨fun x => ?_, h.final, h.trans, fun p => ?_⟩
  · show x ∈ insN A.start q ↔ x ∈ insN B.start q
    rw [NfaS.mem_insN, NfaS.mem_insN, h.start x]
  · show smFind (smInsert A.startSyms q S) p = smFind (smInsert B.startSyms q S) p
    rw [smFind_smInsert, smFind_smInsert, h.syms p]

/-- `UnionDisjointStates` respects "the same up to list order" in both arguments -/
theorem nfasUnionDisjoint_congr {A A' B B' : NFAS} (h : NEquiv A A') (h' : NEquiv B B') :
    NEquiv (nfasUnionDisjoint A B) (nfasUnionDisjoint A' B') := by
  refine ⟨fun x => ?_, fun x => ?_, fun e => ?_, fun p => ?_⟩
  · show x ∈ A.start ++ B.start ↔ x ∈ A'.start ++ B'.start
    rw [List.mem_append, List.mem_append, h.start x, h'.start x]
  · show x ∈ A.final ++ B.final ↔ x ∈ A'.final ++ B'.final
    rw [List.mem_append, List.mem_append, h.final x, h'.final x]
  · show e ∈ A.trans ++ B.trans ↔ e ∈ A'.trans ++ B'.trans
    rw [List.mem_append, List.mem_append, h.trans e, h'.trans e]
  · exact smFind_congr_append p (h.syms p) (h'.syms p)

/-- `find?` on two lists with the same elements, for a predicate that at most one element satisfies -/
theorem find?_congr_of_unique {l l' : List Nat} (P : Nat → Bool) (hl : ∀ x, x ∈ l ↔ x ∈ l')
    (hu : ∀ x, x ∈ l → ∀ y, y ∈ l → P x = true → P y = true → x = y) : l.find? P = l'.find? P := by
  cases h : l.find? P with
  | none =>
    rw [List.find?_eq_none] at h
    symm
    rw [List.find?_eq_none]
    exact fun x hx => h x ((hl x).mpr hx)
  | some x =>
    have hx : x ∈ l := List.mem_of_find?_eq_some h
    have hp : P x = true := List.find?_some h
    cases h' : l'.find? P with
    | none =>
      rw [List.find?_eq_none] at h'
      exact absurd hp (h' x ((hl x).mp hx))
    | some y =>
      have hy : y ∈ l := (hl y).mpr (List.mem_of_find?_eq_some h')
      rw [hu x hx y hy hp (List.find?_some h')]

/-- `ReindexStates` into a fresh automaton respects "the same up to list order" when the index function is injective on the
    START states of the operand -/
theorem nfasMap_congr (f : Nat → Nat) {A B : NFAS} (h : NEquiv A B) (hinj : NfaInjOn f A.start) :
    NEquiv (nfasMap f A) (nfasMap f B) := by
  refine ⟨fun x => ?_, fun x => ?_, fun e => ?_, fun p => ?_⟩
  · show x ∈ A.start.map f ↔ x ∈ B.start.map f
    simp only [List.mem_map, h.start]
  · show x ∈ A.final.map f ↔ x ∈ B.final.map f
    simp only [List.mem_map, h.final]
  · show e ∈ A.trans.map (fun e => (f e.1, e.2.1, f e.2.2)) ↔ e ∈ B.trans.map (fun e => (f e.1, e.2.1, f e.2.2))
    simp only [List.mem_map, h.trans]
  · show smFind (A.start.map (fun s => (f s, A.symsOf s))) p = smFind (B.start.map (fun s => (f s, B.symsOf s))) p
    rw [smFind_map_pairs, smFind_map_pairs]
    rw [find?_congr_of_unique (fun s => f s == p) h.start (fun x hx y hy h1 h2 => by
      simp only [beq_iff_eq] at h1 h2
      exact hinj x hx y hy (h1.trans h2.symm))]
    cases B.start.find? (fun s => f s == p) with
    | none => rfl
    | some s => simp only [Option.map_some, h.symsOf s]

/-- injectivity on the start states cannot be dropped: two automata that differ in the ORDER of their start states only, and
    an index function that merges them – `ReindexStates` registers the merged state with the symbols of the first one -/
theorem nfasMap_congr_needs_inj :
    let A : NFAS := ⟨⟨[0, 1], [], []⟩, [(0, [7]), (1, [8])]⟩
    let B : NFAS := ⟨⟨[1, 0], [], []⟩, [(0, [7]), (1, [8])]⟩
    (∀ q, q ∈ A.start ↔ q ∈ B.start) ∧ A.startSyms = B.startSyms ∧
    smFind (nfasMap (fun _ => 0) A).startSyms 0 = some [7] ∧ smFind (nfasMap (fun _ => 0) B).startSyms 0 = some [8] := by
  refine ⟨fun q => ?_, rfl, by decide, by decide⟩
  simp only [List.mem_cons, List.not_mem_nil, or_false]
  exact ⟨fun h => h.elim Or.inr Or.inl, fun h => h.elim Or.inr Or.inl⟩

/-! ### `denStep` respects `EnvEq` -/

theorem d1_congr {a b : Nat → Option NFAS} (hab : EnvEq a b) (h : Nat) (F : NFAS → NFAS)
    (hF : ∀ A B, a h = some A → NEquiv A B → NEquiv (F A) (F B)) : EnvEq (d1 a h F) (d1 b h F) := by
  have := hab h
  unfold d1
  cases ha : a h <;> cases hb : b h <;> rw [ha, hb] at this
  · exact hab
  · exact absurd this id
  · exact absurd this id
  · exact envEq_upd2 hab h (hF _ _ ha this)

theorem dRes_congr {a b : Nat → Option NFAS} (hab : EnvEq a b) (src dst : Nat) (F : NFAS → NFAS)
    (hF : ∀ A B, a src = some A → NEquiv A B → NEquiv (F A) (F B)) : EnvEq (dRes a src dst F) (dRes b src dst F) := by
  have := hab src
  have hn := (hab dst).isNone_eq
  unfold dRes
  cases ha : a src <;> cases hb : b src <;> rw [ha, hb] at this
  · exact hab
  · exact absurd this id
  · exact absurd this id
  · simp only [hn]
    split
    · exact envEq_upd2 hab dst (hF _ _ ha this)
    · exact hab

theorem assign_congr {a b : Nat → Option NFAS} (hab : EnvEq a b) (src dst : Nat) :
    EnvEq (match a src with
        | some s => if (a dst).isSome ∧ src ≠ dst then upd a dst (some s) else a
        | none => a)
      (match b src with
        | some s => if (b dst).isSome ∧ src ≠ dst then upd b dst (some s) else b
        | none => b) := by
  have := hab src
  have hn := (hab dst).isSome_eq
  cases ha : a src <;> cases hb : b src <;> rw [ha, hb] at this
  · exact hab
  · exact absurd this id
  · exact absurd this id
  · simp only [hn]
    split
    · exact envEq_upd2 hab dst this
    · exact hab

/-- what `denStep_congr` needs of a `ReindexStates` step: the index function is injective on the start states of the source -/
def DenOk (a : Nat → Option NFAS) : Op → Prop
  | .reindex src _ idx => ∀ A, a src = some A → NfaInjOn idx A.start
  | _ => True

/-- `denStep` maps environments that agree up to list order to environments that agree up to list order (all operations but
    `GetCandidateTree`, whose model `nfasCandidate` depends on the order of the lists) -/
theorem denStep_congr {a b : Nat → Option NFAS} (hab : EnvEq a b) (op : Op) (hok : DenOk a op) (hnc : NotCand op) :
    EnvEq (denStep a op) (denStep b op) := by
  cases op with
  | new h =>
    simp only [denStep, (hab h).isSome_eq]
    split
    · exact hab
    · exact envEq_upd2 hab h (NEquiv.refl _)
  | copy src dst => exact dRes_congr hab src dst id (fun _ _ _ h => h)
  | moveCtor src dst => exact dRes_congr hab src dst id (fun _ _ _ h => h)
  | assign src dst => exact assign_congr hab src dst
  | moveAssign src dst => exact assign_congr hab src dst
  | setFinal h q => exact d1_congr hab h _ (fun _ _ _ e => nfasSetFinal_congr e q)
  | setStart h q s => exact d1_congr hab h _ (fun _ _ _ e => nfasSetStart_congr e q s)
  | setExistingStart h q S => exact d1_congr hab h _ (fun _ _ _ e => nfasSetExistingStart_congr e q S)
  | add h l s r => exact d1_congr hab h _ (fun _ _ _ e => nfasAddTrans_congr e l s r)
  | destroy h => exact envEq_upd2 hab h trivial
  | reindex src dst idx =>
    have h1 := hab src
    have h2 := hab dst
    simp only [denStep]
    cases ha : a src <;> cases hb : b src <;> rw [ha, hb] at h1
    · exact hab
    · exact absurd h1 id
    · exact absurd h1 id
    · cases hc : a dst <;> cases hd : b dst <;> rw [hc, hd] at h2
      · exact hab
      · exact absurd h2 id
      · exact absurd h2 id
      · simp only
        split
        · exact envEq_upd2 hab dst (nfasUnionDisjoint_congr h2 (nfasMap_congr idx h1 (hok _ ha)))
        · exact hab
  | unionDisj x y dst =>
    have h1 := hab x
    have h2 := hab y
    have hn := (hab dst).isNone_eq
    simp only [denStep]
    cases ha : a x <;> cases hb : b x <;> rw [ha, hb] at h1
    · exact hab
    · exact absurd h1 id
    · exact absurd h1 id
    · cases hc : a y <;> cases hd : b y <;> rw [hc, hd] at h2
      · exact hab
      · exact absurd h2 id
      · exact absurd h2 id
      · simp only [hn]
        split
        · exact envEq_upd2 hab dst (nfasUnionDisjoint_congr h1 h2)
        · exact hab
  | unreach src dst => exact dRes_congr hab src dst _ (fun _ _ _ e => nfasRemoveUnreachable_congr e)
  | reverse src dst => exact dRes_congr hab src dst _ (fun _ _ _ e => nfasReverse_congr e)
  | candRaw src dst => exact absurd hnc id
  | useless src dst => exact dRes_congr hab src dst _ (fun _ _ _ e => nfasRemoveUseless_congr e)
  | candidate src dst => exact absurd hnc id

/-! ### whole histories -/

/-- no object: the environment before the first operation -/
def den0 : Nat → Option NFAS := fun _ => none

/-- what the fold theorem asks of the operation `op` executed in the environment `a` of values: not `GetCandidateTree`; the
    operands of `UnionDisjointStates` have no source state in common; the index function of `ReindexStates` is injective on
    the start states of its source -/
def FoldOk (a : Nat → Option FAVal) : Op → Prop
  | .unionDisj x y _ => ∀ s t, a x = some s → a y = some t → DisjKeys s t
  | .reindex src _ idx => ∀ s, a src = some s → NfaInjOn idx s.mem.start
  | .candRaw _ _ => False
  | .candidate _ _ => False
  | _ => True

theorem FoldOk.opOk {a : Nat → Option FAVal} {op : Op} (h : FoldOk a op) : OpOk a op := by
  cases op <;> first | exact h | trivial

theorem FoldOk.notCand {a : Nat → Option FAVal} {op : Op} (h : FoldOk a op) : NotCand op := by
  cases op <;> first | exact h | trivial

theorem FoldOk.denOk {a : Nat → Option FAVal} {op : Op} (h : FoldOk a op) : DenOk (den a) op := by
  cases op with
  | reindex src dst idx =>
    intro A hA
    cases hs : a src with
    | none => rw [den_none hs] at hA; cases hA
    | some s =>
      rw [den_some hs] at hA
      cases hA
      exact h s hs
  | _ => trivial

/-- **one equation for a whole history**: the automata denoted by the live handles after `ops` are, up to list order,
    `ops.foldl denStep den0` -/
theorem fa_history_fold (ops : List Op)
    (hok : ∀ n (h : n < ops.length), FoldOk (absFA (exec (ops.take n))) ops[n]) :
    EnvEq (den (absFA (exec ops))) (ops.foldl denStep den0) := by
  have key : ∀ n, n ≤ ops.length →
      EnvEq (den (absFA (exec (ops.take n)))) ((ops.take n).foldl denStep den0) := by
    intro n
    induction n with
    | zero =>
      intro _
      rw [List.take_zero]
      show EnvEq (den (absFA initFA)) den0
      rw [absFA_init]
      exact EnvEq.refl _
    | succ n ih =>
      intro hn
      have hlt : n < ops.length := hn
      rw [List.take_succ_eq_append_getElem hlt, List.foldl_append]
      have h := hok n hlt
      refine (fa_history_denote_step (ops.take n) ops[n] h.opOk h.notCand).trans ?_
      exact denStep_congr (ih (Nat.le_of_lt hlt)) ops[n] h.denOk h.notCand
  have := key ops.length (Nat.le_refl _)
  rw [List.take_length] at this
  exact this

/-- the runs of the relational specification `DenStepRel` on automata, started with no object: `DenRun ops b` – `b` is an
    environment of automata that the operation list `ops` can lead to (for `GetCandidateTree` steps: with any witness that
    meets `WitnessSpec`; for the other steps: `denStep` up to list order) -/
inductive DenRun : List Op → (Nat → Option NFAS) → Prop
  | nil : DenRun [] den0
  | snoc {ops : List Op} {a b : Nat → Option NFAS} (op : Op) : DenRun ops a → DenStepRel a op b → DenRun (ops ++ [op]) b

/-- **every history of the heap model, `GetCandidateTree` steps included, is a run of the relational specification** -/
theorem fa_history_run (ops : List Op)
    (hok : ∀ n (h : n < ops.length), OpOk (absFA (exec (ops.take n))) ops[n]) :
    DenRun ops (den (absFA (exec ops))) := by
  have key : ∀ n, n ≤ ops.length → DenRun (ops.take n) (den (absFA (exec (ops.take n)))) := by
    intro n
    induction n with
    | zero =>
      intro _
      rw [List.take_zero]
      show DenRun [] (den (absFA initFA))
      rw [absFA_init]
      exact DenRun.nil
    | succ n ih =>
      intro hn
      have hlt : n < ops.length := hn
      rw [List.take_succ_eq_append_getElem hlt]
      exact DenRun.snoc ops[n] (ih (Nat.le_of_lt hlt)) (fa_history_step_all (ops.take n) ops[n] (hok n hlt))
  have := key ops.length (Nat.le_refl _)
  rw [List.take_length] at this
  exact this

end Vata.CowHeapFA
