import Vata.Proofs.CliPipelineDict
import Vata.Proofs.LoadDump
import Vata.Proofs.UnionModel
import Vata.Proofs.IsectModel
import Vata.Proofs.PropAux
/-!
# The printed result of `vata union` / `vata isect` denotes the union / the intersection

About `Vata/CliPipeline.lean`, sections 2 and 3.

* `bwd?_ofGlue`, `toGlue_bwd_lookup`   the two dictionary models answer the reverse look-up alike
* `unionEntries_vals_nodup`            the numbers `Union` reports for the states of the two operands are pairwise different,
                                       so `CreateUnionStringToStateMap` stays inside its contract (`Glue.unionDict_inv`)
* `union_dumpable`                     the result of `Union` with the dictionary `CreateUnionStringToStateMap` builds is
                                       `Dumpable`: every state has a name, different states have different names
* `isectTD_dom_states`                 the pairs in the product map of `Intersection` are pairs of states of the operands
* `isect_dict_some`, `isect_dumpable`  `CreateProductStringToStateMap` (repaired) is defined on the outcome of `Intersection`, and
                                       the product with that dictionary is `Dumpable` – for ANY operand names
* `cliUnionDesc_lang`, `cliIsectDesc_lang`   the description handed to the serializer, loaded again, accepts `L(A) ∪ L(B)` /
                                       `L(A) ∩ L(B)`
-/
namespace Vata.CliPipe
open Vata.Glue Vata.LoadDump Vata.Dict

/-! ### the two dictionary models -/

theorem bwd?_map_ofList (bw : List (Nat × Name)) (v : Nat) :
    Dict.bwd? (bw.map (fun e => (String.ofList e.2, e.1))) v = (bw.lookup v).map String.ofList := by
  induction bw with
  | nil => rfl
  | cons e r ih =>
    obtain ⟨v', n⟩ := e
    simp only [List.map_cons, Dict.bwd?, List.lookup_cons]
    by_cases h : v' = v
    · subst h; simp
    · have : (v == v') = false := by simpa using (fun e => h e.symm)
      simp [h, this, ih]

/-- the dump's reverse look-up in the dictionary the helper built -/
theorem bwd?_ofGlue (d : Glue.StateDict) (v : Nat) : (ofGlue d).bwd? v = (d.bwd.lookup v).map String.ofList :=
  bwd?_map_ofList d.bwd v

/-- `FindBwd` in the dictionary a load left -/
theorem toGlue_bwd_lookup (sd : Vata.StateDict) (v : Nat) : (toGlue sd).bwd.lookup v = (sd.bwd? v).map String.toList := by
  unfold toGlue
  induction sd with
  | nil => rfl
  | cons e r ih =>
    obtain ⟨n, v'⟩ := e
    simp only [List.map_cons, Dict.bwd?, List.lookup_cons]
    by_cases h : v' = v
    · subst h; simp
    · have : (v == v') = false := by simpa using (fun e => h e.symm)
      simp [h, this, ih]

theorem toList_inj {a b : String} (h : a.toList = b.toList) : a = b := by
  rw [← String.ofList_toList (s := a), ← String.ofList_toList (s := b), h]

theorem ofList_inj {a b : List Char} (h : String.ofList a = String.ofList b) : a = b := by
  rw [← String.toList_ofList (l := a), ← String.toList_ofList (l := b), h]

theorem toGlue_fwd_isMap {sd : Vata.StateDict} (h : sd.Ok) : IsMap (toGlue sd).fwd := by
  have e : (toGlue sd).fwd.map Prod.fst = sd.keys.map String.toList := by
    simp [toGlue, Dict.keys, List.map_map, Function.comp_def]
  unfold IsMap
  rw [e]
  exact nodup_map_of_inj (fun _ _ => toList_inj) h.keys_nodup

theorem toGlue_fwd_vals (sd : Vata.StateDict) : (toGlue sd).fwd.map Prod.snd = sd.vals := by
  simp [toGlue, Dict.vals, List.map_map, Function.comp_def]

theorem mem_toGlue_fwd {sd : Vata.StateDict} {n : String} {v : Nat} (h : (n, v) ∈ sd) : (n.toList, v) ∈ (toGlue sd).fwd :=
  List.mem_map.mpr ⟨(n, v), h, rfl⟩

/-! ### lists -/

theorem nodup_map_filterMap {α β γ : Type} (f : α → Option β) (g : β → γ) : ∀ (l : List α),
    (∀ a, a ∈ l → ∀ a', a' ∈ l → ∀ b b', f a = some b → f a' = some b' → g b = g b' → a = a') → l.Nodup →
      ((l.filterMap f).map g).Nodup
  | [], _, _ => by simp
  | a :: l, hinj, hn => by
    rw [List.nodup_cons] at hn
    have ih := nodup_map_filterMap f g l
      (fun x hx y hy => hinj x (List.mem_cons_of_mem _ hx) y (List.mem_cons_of_mem _ hy)) hn.2
    cases hf : f a with
    | none => rw [List.filterMap_cons_none hf]; exact ih
    | some b =>
      rw [List.filterMap_cons_some hf, List.map_cons, List.nodup_cons]
      refine ⟨?_, ih⟩
      intro hm
      obtain ⟨b', hb', e⟩ := List.mem_map.mp hm
      obtain ⟨a', ha', hfa'⟩ := List.mem_filterMap.mp hb'
      have := hinj a List.mem_cons_self a' (List.mem_cons_of_mem _ ha') b b' hf hfa' e.symm
      exact hn.1 (this ▸ ha')

theorem eq_of_snd_eq {α β : Type} : ∀ {l : List (α × β)}, (l.map Prod.snd).Nodup → ∀ {a b : α × β}, a ∈ l → b ∈ l →
    a.2 = b.2 → a = b
  | [], _, _, _, ha, _, _ => by simp at ha
  | x :: l, hn, a, b, ha, hb, e => by
    rw [List.map_cons, List.nodup_cons] at hn
    rcases List.mem_cons.mp ha with ha' | ha' <;> rcases List.mem_cons.mp hb with hb' | hb'
    · rw [ha', hb']
    · subst ha'; exact absurd (List.mem_map.mpr ⟨b, hb', e.symm⟩) hn.1
    · subst hb'; exact absurd (List.mem_map.mpr ⟨a, ha', e⟩) hn.1
    · exact eq_of_snd_eq hn.2 ha' hb' e

theorem mem_of_lookup' {α β : Type} [BEq α] [LawfulBEq α] : ∀ {m : List (α × β)} {a : α} {b : β},
    m.lookup a = some b → (a, b) ∈ m
  | [], _, _, h => by simp at h
  | (k, v) :: r, a, b, h => by
    simp only [List.lookup_cons] at h
    by_cases e : a = k
    · subst e; simp only [beq_self_eq_true, Option.some.injEq] at h; subst h; exact List.mem_cons_self
    · have : (a == k) = false := by simpa using e
      rw [this] at h
      exact List.mem_cons_of_mem _ (mem_of_lookup' h)

/-! ### `CreateUnionStringToStateMap` on the maps `Union` reports -/

theorem sideEntry_some {suffix : Name → Name} {t : List (Nat × Nat)} {e b : Name × Nat}
    (h : sideEntry suffix (some t) e = some b) : t.lookup e.2 = some b.2 ∧ b.1 = suffix e.1 := by
  simp only [sideEntry, Option.map_eq_some_iff] at h
  obtain ⟨s', hs, rfl⟩ := h
  exact ⟨hs, rfl⟩

theorem sideEntries_vals_nodup {suffix : Name → Name} {sd : Vata.StateDict} (h : sd.Ok) {m : SMap} (hm : Um.Inj m) :
    ((sideEntries suffix (some m) (toGlue sd).fwd).map Prod.snd).Nodup := by
  unfold sideEntries
  apply nodup_map_filterMap
  · intro a ha a' ha' b b' hb hb' e
    obtain ⟨h1, _⟩ := sideEntry_some hb
    obtain ⟨h2, _⟩ := sideEntry_some hb'
    rw [e] at h1
    have := hm a.2 a'.2 b'.2 h1 h2
    exact eq_of_snd_eq (by rw [toGlue_fwd_vals]; exact h.vals_nodup) ha ha' this
  · exact nodup_of_map _ (toGlue_fwd_isMap h)

/-- the contract of `CreateUnionStringToStateMap` holds for the maps a `Union` reports: the numbers are pairwise different -/
theorem unionEntries_vals_nodup {sd₁ sd₂ : Vata.StateDict} (h₁ : sd₁.Ok) (h₂ : sd₂.Ok) {mL mR : SMap} (hL : Um.Inj mL)
    (hR : Um.Inj mR) (hD : Um.Disj mL mR) :
    ((unionEntries (toGlue sd₁) (toGlue sd₂) (some mL) (some mR)).map Prod.snd).Nodup := by
  unfold unionEntries
  rw [List.map_append, List.nodup_append]
  refine ⟨sideEntries_vals_nodup h₁ hL, sideEntries_vals_nodup h₂ hR, ?_⟩
  intro x hx y hy e
  subst e
  obtain ⟨a, ha, rfl⟩ := List.mem_map.mp hx
  obtain ⟨b, hb, e⟩ := List.mem_map.mp hy
  obtain ⟨_, s, _, _, h1⟩ := mem_sideEntries.mp ha
  obtain ⟨_, s', _, _, h2⟩ := mem_sideEntries.mp hb
  simp only at h1 h2
  rw [e] at h2
  exact hD s s' a.2 h1 h2

/-- the name the result dictionary gives to the image of a state of one operand -/
theorem unionDict_bwd {sd₁ sd₂ : Vata.StateDict} (h₁ : sd₁.Ok) (h₂ : sd₂.Ok) {mL mR : SMap} (hL : Um.Inj mL)
    (hR : Um.Inj mR) (hD : Um.Disj mL mR) :
    (unionDict (toGlue sd₁) (toGlue sd₂) (some mL) (some mR)).Inv ∧
    (∀ p n q, sd₁.bwd? p = some n → mL.lookup p = some q →
      (unionDict (toGlue sd₁) (toGlue sd₂) (some mL) (some mR)).bwd.lookup q = some (name1 n.toList)) ∧
    (∀ p n q, sd₂.bwd? p = some n → mR.lookup p = some q →
      (unionDict (toGlue sd₁) (toGlue sd₂) (some mL) (some mR)).bwd.lookup q = some (name2 n.toList)) := by
  obtain ⟨hinv, hb⟩ := unionDict_inv (toGlue_fwd_isMap h₁) (toGlue_fwd_isMap h₂) (some mL) (some mR)
    (unionEntries_vals_nodup h₁ h₂ hL hR hD)
  refine ⟨hinv, ?_, ?_⟩
  · intro p n q hn hq
    apply lookup_of_mem hinv.bwdMap
    rw [hb]
    refine List.mem_map.mpr ⟨(name1 n.toList, q), ?_, rfl⟩
    unfold unionEntries
    exact List.mem_append_left _ (mem_sideEntries.mpr ⟨n.toList, p, mem_toGlue_fwd (bwd?_some_mem hn), rfl, hq⟩)
  · intro p n q hn hq
    apply lookup_of_mem hinv.bwdMap
    rw [hb]
    refine List.mem_map.mpr ⟨(name2 n.toList, q), ?_, rfl⟩
    unfold unionEntries
    exact List.mem_append_right _ (mem_sideEntries.mpr ⟨n.toList, p, mem_toGlue_fwd (bwd?_some_mem hn), rfl, hq⟩)

theorem bwd?_sub {yd₁ yd₂ : SymDict} (h₁ : yd₁.Ok) (h₂ : yd₂.Ok) (s : Sub yd₁ yd₂) {f : Nat} {k : String × Nat}
    (h : yd₁.bwd? f = some k) : yd₂.bwd? f = some k := h₂.bwd_fwd.mpr (s _ _ (h₁.bwd_fwd.mp h))

/-- every name in the dump of the union: a name of an operand state with `_1` resp. `_2` appended -/
def UnionName (sd₁ sd₂ : Vata.StateDict) (n : String) : Prop :=
  (∃ k, k ∈ sd₁.keys ∧ n = String.ofList (name1 k.toList)) ∨ (∃ k, k ∈ sd₂.keys ∧ n = String.ofList (name2 k.toList))

theorem mem_keys_of_bwd? {sd : Vata.StateDict} {v : Nat} {n : String} (h : sd.bwd? v = some n) : n ∈ sd.keys :=
  List.mem_map.mpr ⟨(n, v), bwd?_some_mem h, rfl⟩

/-- the result of `Union` with the dictionary `CreateUnionStringToStateMap` builds can be dumped, every state under its own name -/
theorem union_dumpable {A B : TA} {sd₁ sd₂ : Vata.StateDict} {yd₁ yd₂ : SymDict} (hA : Dumpable A sd₁ yd₁)
    (hB : Dumpable B sd₂ yd₂) (h₁ : sd₁.Ok) (h₂ : sd₂.Ok) (hy₁ : yd₁.Ok) (hy₂ : yd₂.Ok) (hs : Sub yd₁ yd₂) :
    Dumpable (unionModel A B [] []).1
      (ofGlue (unionDict (toGlue sd₁) (toGlue sd₂) (some (unionModel A B [] []).2.1) (some (unionModel A B [] []).2.2))) yd₂ ∧
    ∀ q, q ∈ (unionModel A B [] []).1.states → UnionName sd₁ sd₂
      (nameOf (ofGlue (unionDict (toGlue sd₁) (toGlue sd₂) (some (unionModel A B [] []).2.1)
        (some (unionModel A B [] []).2.2))) q) := by
  obtain ⟨iL, iR, iD⟩ := unionModel_maps_inj A B [] [] Um.inj_nil Um.inj_nil (Um.disj_nil_left _)
  obtain ⟨tL, tR⟩ := unionModel_maps_total A B [] []
  obtain ⟨hinv, nL, nR⟩ := unionDict_bwd h₁ h₂ iL iR iD
  have hU : (unionModel A B [] []).1 =
      unionWith (applyMap (unionModel A B [] []).2.1) (applyMap (unionModel A B [] []).2.2) A B := rfl
  have hname : ∀ q, q ∈ (unionModel A B [] []).1.states → ∃ n,
      (unionDict (toGlue sd₁) (toGlue sd₂) (some (unionModel A B [] []).2.1) (some (unionModel A B [] []).2.2)).bwd.lookup q
        = some n ∧ UnionName sd₁ sd₂ (String.ofList n) := by
    intro q hq
    rw [hU, PropAux.mem_states_unionWith] at hq
    rcases hq with ⟨p, hp, rfl⟩ | ⟨p, hp, rfl⟩
    · obtain ⟨n, hn⟩ := hA.named p hp
      obtain ⟨q, hq⟩ := tL p hp
      rw [Um.applyMap_of_lookup hq]
      exact ⟨_, nL p n q hn hq, Or.inl ⟨n, mem_keys_of_bwd? hn, rfl⟩⟩
    · obtain ⟨n, hn⟩ := hB.named p hp
      obtain ⟨q, hq⟩ := tR p hp
      rw [Um.applyMap_of_lookup hq]
      exact ⟨_, nR p n q hn hq, Or.inr ⟨n, mem_keys_of_bwd? hn, rfl⟩⟩
  refine ⟨⟨?_, ?_, ?_⟩, ?_⟩
  · intro q hq
    obtain ⟨n, hn, _⟩ := hname q hq
    exact ⟨String.ofList n, by rw [bwd?_ofGlue, hn]; rfl⟩
  · intro q q' hq hq' e
    obtain ⟨n, hn, _⟩ := hname q hq
    obtain ⟨n', hn', _⟩ := hname q' hq'
    rw [bwd?_ofGlue, bwd?_ofGlue, hn, hn'] at e
    simp only [Option.map_some, Option.some.injEq] at e
    have := ofList_inj e
    subst this
    exact TwoWayDict.translateBwd_injective hinv hn hn'
  · intro r hr
    rw [hU] at hr
    simp only [unionWith, reindex, List.mem_append, List.mem_map] at hr
    rcases hr with ⟨r0, hr0, rfl⟩ | ⟨r0, hr0, rfl⟩
    · obtain ⟨nm, h⟩ := hA.ranked r0 hr0
      exact ⟨nm, by simpa [mapRule] using bwd?_sub hy₁ hy₂ hs h⟩
    · obtain ⟨nm, h⟩ := hB.ranked r0 hr0
      exact ⟨nm, by simpa [mapRule] using h⟩
  · intro q hq
    obtain ⟨n, hn, hu⟩ := hname q hq
    have : nameOf (ofGlue (unionDict (toGlue sd₁) (toGlue sd₂) (some (unionModel A B [] []).2.1)
        (some (unionModel A B [] []).2.2))) q = String.ofList n := by
      unfold nameOf; rw [bwd?_ofGlue, hn]; rfl
    rw [this]; exact hu

/-! ### the product map of `Intersection` only has pairs of states -/

theorem addPairs_dom : ∀ (ps : List (Nat × Nat)) (m : PMap) (st : List (Nat × Nat)) (p : Nat × Nat),
    p ∈ (addPairs ps m st).1.dom → p ∈ m.dom ∨ p ∈ ps
  | [], m, st, p, h => Or.inl (by simpa only [addPairs] using h)
  | p0 :: ps, m, st, p, h => by
    cases hl : m.lookup p0 with
    | some n =>
      simp only [addPairs, hl] at h
      rcases addPairs_dom ps m st p h with h | h
      · exact Or.inl h
      · exact Or.inr (List.mem_cons_of_mem _ h)
    | none =>
      simp only [addPairs, hl] at h
      rcases addPairs_dom ps _ _ p h with h | h
      · rcases Isx.dom_snoc.mp h with h | h
        · exact Or.inl h
        · exact Or.inr (h ▸ List.mem_cons_self)
      · exact Or.inr (List.mem_cons_of_mem _ h)

theorem isectProc_dom {n : Nat} : ∀ (L : List (Rule × Rule)) (m : PMap) (st : List (Nat × Nat)) (rs : List Rule)
    (p : Nat × Nat), p ∈ (isectProc n L m st rs).1.dom → p ∈ m.dom ∨ ∃ rr, rr ∈ L ∧ p ∈ rr.1.kids.zip rr.2.kids
  | [], m, st, rs, p, h => Or.inl (by simpa only [isectProc] using h)
  | rr :: rest, m, st, rs, p, h => by
    simp only [isectProc] at h
    rcases isectProc_dom rest _ _ _ p h with h | ⟨rr', h1, h2⟩
    · rcases addPairs_dom _ m st p h with h | h
      · exact Or.inl h
      · exact Or.inr ⟨rr, List.mem_cons_self, h⟩
    · exact Or.inr ⟨rr', List.mem_cons_of_mem _ h1, h2⟩

theorem isectLoop_dom {A B : TA} : ∀ (n : Nat) (m : PMap) (st : List (Nat × Nat)) (rs : List Rule) (m' : PMap)
    (rs' : List Rule), isectLoop A B n m st rs = some (m', rs') →
    (∀ p, p ∈ m.dom → p ∈ allPairs2 A.states B.states) → ∀ p, p ∈ m'.dom → p ∈ allPairs2 A.states B.states
  | 0, m, st, rs, m', rs', h, hm => by
    simp only [isectLoop] at h
    split at h
    · simp only [Option.some.injEq, Prod.mk.injEq] at h; rw [← h.1]; exact hm
    · cases h
  | n + 1, m, [], rs, m', rs', h, hm => by
    simp only [isectLoop, Option.some.injEq, Prod.mk.injEq] at h; rw [← h.1]; exact hm
  | n + 1, m, pr :: st, rs, m', rs', h, hm => by
    simp only [isectLoop] at h
    apply isectLoop_dom n _ _ _ m' rs' h
    intro p hp
    rcases isectProc_dom _ m st rs p hp with hp | ⟨rr, h1, h2⟩
    · exact hm p hp
    · exact Isx.matching_zip_states rr h1 p h2

/-- the pairs `Intersection` puts into its `ProductTranslMap` are pairs of a state of `A` and a state of `B` -/
theorem isectTD_dom_states {A B : TA} {fuel : Nat} {P : TA} {m : PMap} (h : isectTD A B fuel = some (P, m)) :
    ∀ p, p ∈ m.dom → p.1 ∈ A.states ∧ p.2 ∈ B.states := by
  intro p hp
  apply Isx.mem_allPairs2.mp
  unfold isectTD at h
  cases hl : isectLoop A B fuel (addPairs (finalPairs A B) [] []).1 (addPairs (finalPairs A B) [] []).2.1 [] with
  | none => simp [hl] at h
  | some res =>
    obtain ⟨m1, rs⟩ := res
    simp only [hl] at h
    split at h
    · simp only [Option.some.injEq, Prod.mk.injEq] at h
      obtain ⟨_, rfl⟩ := h
      refine isectLoop_dom fuel _ _ _ m1 rs hl ?_ p hp
      intro x hx
      rcases addPairs_dom _ _ _ x hx with hx | hx
      · simp [PMap.dom] at hx
      · obtain ⟨h1, h2⟩ := Isx.mem_finalPairs.mp hx
        exact Isx.mem_allPairs2.mpr ⟨mem_states.mpr (Or.inl h1), mem_states.mpr (Or.inl h2)⟩
    · simp at h

/-! ### `CreateProductStringToStateMap` (repaired) on the outcome of `Intersection` -/

/-- the helper is defined: every component of every pair of the product map has a name -/
theorem isect_dict_some {A B : TA} {sd₁ sd₂ : Vata.StateDict} {yd₁ yd₂ : SymDict} (hA : Dumpable A sd₁ yd₁)
    (hB : Dumpable B sd₂ yd₂) {fuel : Nat} {P : TA} {pm : PMap} (h : isectTD A B fuel = some (P, pm)) :
    ∃ dict, productDictFixed (toGlue sd₁) (toGlue sd₂) pm = some dict := by
  have : (productDictFixed (toGlue sd₁) (toGlue sd₂) pm).isSome = true := by
    rw [productDictFixed_isSome_iff]
    intro e he
    obtain ⟨s1, s2⟩ := isectTD_dom_states h e.1 (List.mem_map.mpr ⟨e, he, rfl⟩)
    obtain ⟨n1, hn1⟩ := hA.named _ s1
    obtain ⟨n2, hn2⟩ := hB.named _ s2
    exact ⟨⟨_, by rw [toGlue_bwd_lookup, hn1]; rfl⟩, ⟨_, by rw [toGlue_bwd_lookup, hn2]; rfl⟩⟩
  cases hd : productDictFixed (toGlue sd₁) (toGlue sd₂) pm with
  | none => rw [hd] at this; cases this
  | some d => exact ⟨d, rfl⟩

/-- every name in the dump of the intersection: `[l_1|r_2]` of two operand names, followed by primes -/
def ProdNameOf (sd₁ sd₂ : Vata.StateDict) (n : String) : Prop :=
  ∃ k₁, k₁ ∈ sd₁.keys ∧ ∃ k₂, k₂ ∈ sd₂.keys ∧ ∃ i, n = String.ofList (prodName k₁.toList k₂.toList ++ List.replicate i '\'')

/-- the product with the dictionary the repaired helper builds can be dumped, every state under its own name – whatever the
names of the operands' states are -/
theorem isect_dumpable {A B : TA} {sd₁ sd₂ : Vata.StateDict} {yd₁ yd₂ : SymDict} (hA : Dumpable A sd₁ yd₁)
    (hy₁ : yd₁.Ok) (hy₂ : yd₂.Ok) (hs : Sub yd₁ yd₂) {fuel : Nat} {P : TA} {pm : PMap}
    (h : isectTD A B fuel = some (P, pm)) {dict : Glue.StateDict}
    (hd : productDictFixed (toGlue sd₁) (toGlue sd₂) pm = some dict) :
    Dumpable P (ofGlue dict) yd₂ ∧ ∀ q, q ∈ P.states → ProdNameOf sd₁ sd₂ (nameOf (ofGlue dict) q) := by
  obtain ⟨hinv, _, hfrom⟩ := productDictFixed_spec hd
  have hname : ∀ q, q ∈ P.states → ∃ n, dict.bwd.lookup q = some n := by
    intro q hq
    obtain ⟨p, hp, rfl⟩ := PropAux.isectTD_states h hq
    obtain ⟨n, hn⟩ := Isx.mem_dom_iff.mp hp
    have : lookupF pm p = n := by simp [lookupF, hn]
    rw [this]
    exact (productDictFixed_named hd).2 (p, n) (mem_of_lookup' hn)
  refine ⟨⟨?_, ?_, ?_⟩, ?_⟩
  · intro q hq
    obtain ⟨n, hn⟩ := hname q hq
    exact ⟨String.ofList n, by rw [bwd?_ofGlue, hn]; rfl⟩
  · intro q q' hq hq' e
    obtain ⟨n, hn⟩ := hname q hq
    obtain ⟨n', hn'⟩ := hname q' hq'
    rw [bwd?_ofGlue, bwd?_ofGlue, hn, hn'] at e
    simp only [Option.map_some, Option.some.injEq] at e
    have := ofList_inj e
    subst this
    exact hinv.injective hn hn'
  · intro ρ hρ
    obtain ⟨_, _, _, hr, _⟩ := Isx.isectTD_spec h
    have := (hr ρ).mp hρ
    simp only [prodOn] at this
    obtain ⟨r, hr1, r', _, _, hl, _, rfl⟩ := mem_prodRules.mp this
    obtain ⟨nm, hnm⟩ := hA.ranked r hr1
    refine ⟨nm, ?_⟩
    have := bwd?_sub hy₁ hy₂ hs hnm
    simpa [List.length_zip, hl] using this
  · intro q hq
    obtain ⟨n, hn⟩ := hname q hq
    have e : nameOf (ofGlue dict) q = String.ofList n := by unfold nameOf; rw [bwd?_ofGlue, hn]; rfl
    rw [e]
    obtain ⟨e', _, ln, rn, k, h1, h2, hx⟩ := hfrom _ (hinv.back _ _ (mem_of_lookup hn))
    rw [toGlue_bwd_lookup] at h1 h2
    obtain ⟨k1, hk1, rfl⟩ := Option.map_eq_some_iff.mp h1
    obtain ⟨k2, hk2, rfl⟩ := Option.map_eq_some_iff.mp h2
    simp only [Prod.mk.injEq] at hx
    exact ⟨k1, mem_keys_of_bwd? hk1, k2, mem_keys_of_bwd? hk2, k, by rw [hx.1]⟩

/-! ### the two commands -/

/-- the state of the translators after the first and after the second `LoadFromString` -/
def L1 (d₁ : AutDesc) (yd : SymDict) : TA × LSt := loadFrom ⟨[], 0, yd⟩ d₁
def L2 (d₁ d₂ : AutDesc) (yd : SymDict) : TA × LSt := loadFrom ⟨[], 0, (L1 d₁ yd).2.yd⟩ d₂

theorem loadBoth_eq (d₁ d₂ : AutDesc) (yd : SymDict) :
    loadBoth d₁ d₂ yd = .ok (((L1 d₁ yd).1, (L1 d₁ yd).2.sd), ((L2 d₁ d₂ yd).1, (L2 d₁ d₂ yd).2.sd), (L2 d₁ d₂ yd).2.yd) := rfl

structure Loaded (d₁ d₂ : AutDesc) (yd : SymDict) : Prop where
  dA : Dumpable (L1 d₁ yd).1 (L1 d₁ yd).2.sd (L1 d₁ yd).2.yd
  dB : Dumpable (L2 d₁ d₂ yd).1 (L2 d₁ d₂ yd).2.sd (L2 d₁ d₂ yd).2.yd
  sd₁ : (L1 d₁ yd).2.sd.Ok
  sd₂ : (L2 d₁ d₂ yd).2.sd.Ok
  yd₁ : (L1 d₁ yd).2.yd.Ok
  yd₂ : (L2 d₁ d₂ yd).2.yd.Ok
  sub : Sub (L1 d₁ yd).2.yd (L2 d₁ d₂ yd).2.yd
  keys₁ : ∀ q, q ∈ (L1 d₁ yd).2.sd.keys ↔ q ∈ stateNames d₁
  keys₂ : ∀ q, q ∈ (L2 d₁ d₂ yd).2.sd.keys ↔ q ∈ stateNames d₂

theorem loaded (d₁ d₂ : AutDesc) (yd : SymDict) (hyd : yd.Ok) : Loaded d₁ d₂ yd := by
  obtain ⟨h1, _⟩ := loadFrom_spec ⟨[], 0, yd⟩ (init_ok hyd) d₁
  obtain ⟨h2, _⟩ := loadFrom_spec ⟨[], 0, (L1 d₁ yd).2.yd⟩ (init_ok h1.ok.yd) d₂
  exact ⟨loadFrom_dumpable _ (init_ok hyd) d₁, loadFrom_dumpable _ (init_ok h1.ok.yd) d₂, h1.ok.sd, h2.ok.sd, h1.ok.yd,
    h2.ok.yd, h2.yd, fun q => by rw [L1, h1.sdKeys]; simp [keys], fun q => by rw [L2, h2.sdKeys]; simp [keys]⟩

/-- the result of `Union` and the dictionary it is dumped with -/
def unionU (d₁ d₂ : AutDesc) (yd : SymDict) : TA × SMap × SMap := unionModel (L1 d₁ yd).1 (L2 d₁ d₂ yd).1 [] []
def unionSd (d₁ d₂ : AutDesc) (yd : SymDict) : Vata.StateDict :=
  ofGlue (unionDict (toGlue (L1 d₁ yd).2.sd) (toGlue (L2 d₁ d₂ yd).2.sd) (some (unionU d₁ d₂ yd).2.1)
    (some (unionU d₁ d₂ yd).2.2))

theorem cliUnionDesc_eq (d₁ d₂ : AutDesc) (yd : SymDict) :
    cliUnionDesc d₁ d₂ yd = dumpTA (unionU d₁ d₂ yd).1 (unionSd d₁ d₂ yd) (L2 d₁ d₂ yd).2.yd := rfl

theorem unionU_dumpable (d₁ d₂ : AutDesc) (yd : SymDict) (hyd : yd.Ok) :
    Dumpable (unionU d₁ d₂ yd).1 (unionSd d₁ d₂ yd) (L2 d₁ d₂ yd).2.yd ∧
    ∀ q, q ∈ (unionU d₁ d₂ yd).1.states →
      UnionName (L1 d₁ yd).2.sd (L2 d₁ d₂ yd).2.sd (nameOf (unionSd d₁ d₂ yd) q) := by
  have l := loaded d₁ d₂ yd hyd
  exact union_dumpable l.dA l.dB l.sd₁ l.sd₂ l.yd₁ l.yd₂ l.sub

/-- **`vata union`, description level**: the description that `DumpToAutDesc` hands to the serializer, loaded again (fresh state
dictionary, the alphabet as the run left it), accepts exactly `L(A) ∪ L(B)`, `A` and `B` being the automata the two loads
produced.  No hypothesis on the descriptions. -/
theorem cliUnionDesc_lang (d₁ d₂ : AutDesc) (yd : SymDict) (hyd : yd.Ok) :
    ∃ A sd₁ yd₁ B sd₂ yd₂ out, loadTA d₁ [] yd = .ok (A, sd₁, yd₁) ∧ loadTA d₂ [] yd₁ = .ok (B, sd₂, yd₂) ∧
      cliUnionDesc d₁ d₂ yd = .ok out ∧
      ∃ A' sd' yd', loadTA out [] yd₂ = .ok (A', sd', yd') ∧ ∀ t, accepts A' t = (accepts A t || accepts B t) := by
  have l := loaded d₁ d₂ yd hyd
  obtain ⟨out, A', sd', yd', h1, h2, h3⟩ := dump_reload_lang _ _ _ l.yd₂ (unionU_dumpable d₁ d₂ yd hyd).1
  refine ⟨_, _, _, _, _, _, out, rfl, rfl, by rw [cliUnionDesc_eq]; exact h1, A', sd', yd', h2, ?_⟩
  intro t
  rw [h3 t]
  exact unionModel_lang_empty _ _ t

/-- what `Intersection` returns on the two loaded automata -/
theorem isect_some (d₁ d₂ : AutDesc) (yd : SymDict) :
    ∃ P pm, isectTDRef (L1 d₁ yd).1 (L2 d₁ d₂ yd).1 = some (P, pm) ∧
      ∀ t, accepts P t = (accepts (L1 d₁ yd).1 t && accepts (L2 d₁ d₂ yd).1 t) := isectTDRef_lang _ _

theorem cliIsectDescWith_eq (mk : Glue.StateDict → Glue.StateDict → List ((Nat × Nat) × Nat) → Option Glue.StateDict)
    (d₁ d₂ : AutDesc) (yd : SymDict) {P : TA} {pm : PMap} (h : isectTDRef (L1 d₁ yd).1 (L2 d₁ d₂ yd).1 = some (P, pm))
    {dict : Glue.StateDict} (hd : mk (toGlue (L1 d₁ yd).2.sd) (toGlue (L2 d₁ d₂ yd).2.sd) pm = some dict) :
    cliIsectDescWith mk d₁ d₂ yd = dumpTA P (ofGlue dict) (L2 d₁ d₂ yd).2.yd := by
  unfold cliIsectDescWith
  rw [loadBoth_eq]
  simp only [h, hd]

/-- `vata isect`: the pieces – the product, its map, the dictionary of the repaired helper, and that they can be dumped -/
theorem cliIsect_parts (d₁ d₂ : AutDesc) (yd : SymDict) (hyd : yd.Ok) :
    ∃ P pm dict, isectTDRef (L1 d₁ yd).1 (L2 d₁ d₂ yd).1 = some (P, pm) ∧
      productDictFixed (toGlue (L1 d₁ yd).2.sd) (toGlue (L2 d₁ d₂ yd).2.sd) pm = some dict ∧
      cliIsectDesc d₁ d₂ yd = dumpTA P (ofGlue dict) (L2 d₁ d₂ yd).2.yd ∧
      Dumpable P (ofGlue dict) (L2 d₁ d₂ yd).2.yd ∧
      (∀ q, q ∈ P.states → ProdNameOf (L1 d₁ yd).2.sd (L2 d₁ d₂ yd).2.sd (nameOf (ofGlue dict) q)) ∧
      ∀ t, accepts P t = (accepts (L1 d₁ yd).1 t && accepts (L2 d₁ d₂ yd).1 t) := by
  have l := loaded d₁ d₂ yd hyd
  obtain ⟨P, pm, hP, hl⟩ := isect_some d₁ d₂ yd
  obtain ⟨dict, hd⟩ := isect_dict_some l.dA l.dB (fuel := isectFuel _ _) hP
  obtain ⟨h1, h2⟩ := isect_dumpable l.dA l.yd₁ l.yd₂ l.sub (fuel := isectFuel _ _) hP hd
  exact ⟨P, pm, dict, hP, hd, cliIsectDescWith_eq productDictFixed d₁ d₂ yd hP hd, h1, h2, hl⟩

/-- **`vata isect`, description level**: the description handed to the serializer, loaded again, accepts exactly `L(A) ∩ L(B)`.
No hypothesis on the descriptions: the state names may contain `_1|`, `]`, primes, anything. -/
theorem cliIsectDesc_lang (d₁ d₂ : AutDesc) (yd : SymDict) (hyd : yd.Ok) :
    ∃ A sd₁ yd₁ B sd₂ yd₂ out, loadTA d₁ [] yd = .ok (A, sd₁, yd₁) ∧ loadTA d₂ [] yd₁ = .ok (B, sd₂, yd₂) ∧
      cliIsectDesc d₁ d₂ yd = .ok out ∧
      ∃ A' sd' yd', loadTA out [] yd₂ = .ok (A', sd', yd') ∧ ∀ t, accepts A' t = (accepts A t && accepts B t) := by
  have l := loaded d₁ d₂ yd hyd
  obtain ⟨P, pm, dict, _, _, he, hD, _, hl⟩ := cliIsect_parts d₁ d₂ yd hyd
  obtain ⟨out, A', sd', yd', h1, h2, h3⟩ := dump_reload_lang _ _ _ l.yd₂ hD
  refine ⟨_, _, _, _, _, _, out, rfl, rfl, by rw [he]; exact h1, A', sd', yd', h2, ?_⟩
  intro t
  rw [h3 t, hl t]
  rfl

end Vata.CliPipe
