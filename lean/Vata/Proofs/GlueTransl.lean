import Vata.Proofs.GlueDict
import Vata.UnionModel
import Vata.LoadDump
/-!
# The translators and the dictionary helpers of `util.cc` – theorems about the model of `Vata/Glue.lean` (sections 3, 5)

* `weakMap_eq_weakTr`, `weakMapSeq_counter_eq_weakTrAll`: `TranslatorWeak` with the counter functor IS the `weakTr` /
  `weakTrAll` of `Vata/UnionModel.lean`; `weakDict_eq_loadDump`: on a `TwoWayDict` it is `Dict.weak` of `Vata/LoadDump.lean`.
* `weakMap_lookup_self`, `weakMap_ext`, `weakMap_isMap`, `weakMap_inj`: lookup-or-create; injective when the functor
  returns a value that is not yet a translation (fresh).
* `weakMap_size_functor`, `weak2Map_size_functor`, `weak_size_functor_differ`: the order of evaluation is visible to a
  functor that reads the container's size.
* `weakDict_inv`: on a dictionary a fresh value keeps the invariant.
* `strict_eq_lookup`: the strict translator is a pure lookup (the container is not even an output).
* `unionDict_eq`, `unionDict_fwd`, `unionDict_inv`: names `name_1` / `name_2` for exactly the entries whose state has a
  translation (a pruned state is skipped, the repair of D14); `unionDictOld_eq`: the old code agrees wherever it was defined.
* `productDict_eq`, `productDict_eq_none_iff`, `productDict_fwd`, `productDict_inv`: names `[a_1|b_2]` for exactly the pairs
  of the product map; `prodName_inj_left/right`: the names are injective if one side's names contain no `|`;
  `prodName_not_injective`: in general they are NOT.
-/
set_option linter.unusedSectionVars false
set_option linter.unusedSimpArgs false
namespace Vata.Glue

section
variable {α β : Type} [DecidableEq α] [DecidableEq β]

/-! ### lookup-or-create -/

theorem weakMap_of_some {m : List (α × β)} {a : α} {b : β} (alloc : Nat → α → β) (h : m.lookup a = some b) :
    weakMap m alloc a = (m, b) := by simp [weakMap, h]

theorem weakMap_of_none {m : List (α × β)} {a : α} (alloc : Nat → α → β) (h : m.lookup a = none) :
    weakMap m alloc a = (m ++ [(a, alloc m.length a)], alloc m.length a) := by
  simp [weakMap, h, mapInsert_of_none]

theorem weak2Map_of_none {m : List (α × β)} {a : α} (alloc : Nat → α → β) (h : m.lookup a = none) :
    weak2Map m alloc a = (m ++ [(a, alloc (m.length + 1) a)], alloc (m.length + 1) a) := by
  simp [weak2Map, h]

/-- after the call the key translates to the returned value -/
theorem weakMap_lookup_self (m : List (α × β)) (alloc : Nat → α → β) (a : α) :
    (weakMap m alloc a).1.lookup a = some (weakMap m alloc a).2 := by
  cases h : m.lookup a with
  | some b => rw [weakMap_of_some alloc h]; exact h
  | none => rw [weakMap_of_none alloc h]; simp [List.lookup_append, h, List.lookup_cons]

/-- translations are never changed -/
theorem weakMap_ext (m : List (α × β)) (alloc : Nat → α → β) (a : α) {x : α} {y : β} (h : m.lookup x = some y) :
    (weakMap m alloc a).1.lookup x = some y := by
  cases ha : m.lookup a with
  | some b => rw [weakMap_of_some alloc ha]; exact h
  | none => rw [weakMap_of_none alloc ha]; simp [List.lookup_append, h]

/-- the only new key is the argument -/
theorem weakMap_keys (m : List (α × β)) (alloc : Nat → α → β) (a : α) {x : α} {y : β}
    (h : (weakMap m alloc a).1.lookup x = some y) : m.lookup x = some y ∨ (x = a ∧ m.lookup a = none ∧ y = alloc m.length a) := by
  cases ha : m.lookup a with
  | some b => rw [weakMap_of_some alloc ha] at h; exact Or.inl h
  | none =>
    rw [weakMap_of_none alloc ha] at h
    simp only [List.lookup_append] at h
    cases hx : m.lookup x with
    | some y' => rw [hx] at h; simp at h; subst h; exact Or.inl rfl
    | none =>
      rw [hx] at h
      simp only [Option.none_or, List.lookup_cons] at h
      by_cases e : x = a
      · subst e; simp at h; exact Or.inr ⟨rfl, rfl, h.symm⟩
      · have : (x == a) = false := by simpa using e
        rw [this] at h; simp at h

theorem weakMap_isMap {m : List (α × β)} (hm : IsMap m) (alloc : Nat → α → β) (a : α) : IsMap (weakMap m alloc a).1 := by
  cases h : m.lookup a with
  | some b => rw [weakMap_of_some alloc h]; exact hm
  | none => rw [weakMap_of_none alloc h]; exact isMap_append_single hm _ h

/-- different keys have different translations -/
def InjMap (m : List (α × β)) : Prop := ∀ x x' y, m.lookup x = some y → m.lookup x' = some y → x = x'

/-- the functor's answer is not yet the translation of anything -/
def Fresh (m : List (α × β)) (b : β) : Prop := ∀ x, m.lookup x ≠ some b

/-- `TranslatorWeak` stays injective when the functor returns fresh values -/
theorem weakMap_inj {m : List (α × β)} (hi : InjMap m) (alloc : Nat → α → β) (a : α)
    (hf : m.lookup a = none → Fresh m (alloc m.length a)) : InjMap (weakMap m alloc a).1 := by
  intro x x' y h1 h2
  rcases weakMap_keys m alloc a h1 with h1 | ⟨e1, hn, ey⟩
  · rcases weakMap_keys m alloc a h2 with h2 | ⟨e2, hn, ey⟩
    · exact hi x x' y h1 h2
    · subst ey; exact absurd h1 (hf hn x)
  · rcases weakMap_keys m alloc a h2 with h2 | ⟨e2, _, _⟩
    · subst ey; exact absurd h2 (hf hn x')
    · rw [e1, e2]

theorem weak2Map_inj {m : List (α × β)} (hi : InjMap m) (alloc : Nat → α → β) (a : α)
    (hf : m.lookup a = none → Fresh m (alloc (m.length + 1) a)) : InjMap (weak2Map m alloc a).1 := by
  have e : weak2Map m alloc a = weakMap m (fun sz => alloc (sz + 1)) a := by
    cases h : m.lookup a with
    | some b => simp [weak2Map, weakMap, h]
    | none => rw [weak2Map_of_none alloc h, weakMap_of_none _ h]
  rw [e]
  exact weakMap_inj hi _ a hf

/-! ### the order of evaluation, seen by a functor that reads the container's size -/

/-- `TranslatorWeak` calls the functor BEFORE the insertion: it sees the old size … -/
theorem weakMap_size_functor {m : List (α × Nat)} {a : α} (h : m.lookup a = none) :
    (weakMap m (fun sz _ => sz) a).2 = m.length := by rw [weakMap_of_none _ h]

/-- … `TranslatorWeak2` inserts a default entry first: the functor sees the size that already counts the new key -/
theorem weak2Map_size_functor {m : List (α × Nat)} {a : α} (h : m.lookup a = none) :
    (weak2Map m (fun sz _ => sz) a).2 = m.length + 1 := by rw [weak2Map_of_none _ h]

/-- so with `[&m](…){ return m.size(); }` the two translators number the keys `0, 1, 2, …` and `1, 2, 3, …` -/
theorem weak_size_functor_differ :
    (weakMap (weakMap ([] : List (Nat × Nat)) (fun sz _ => sz) 10).1 (fun sz _ => sz) 20).1 = [(10, 0), (20, 1)] ∧
    (weak2Map (weak2Map ([] : List (Nat × Nat)) (fun sz _ => sz) 10).1 (fun sz _ => sz) 20).1 = [(10, 1), (20, 2)] := by
  decide

/-- dense numbering: if all translations are below the size, the size-reading functor is fresh for `TranslatorWeak` -/
theorem size_functor_fresh {m : List (α × Nat)} (hb : ∀ x y, m.lookup x = some y → y < m.length) : Fresh m m.length := by
  intro x h
  exact Nat.lt_irrefl _ (hb x _ h)

/-! ### on a dictionary -/

theorem weakDict_of_some {d : TwoWayDict α β} {a : α} {b : β} (alloc : Nat → α → β) (h : d.fwd.lookup a = some b) :
    weakDict d alloc a = (d, b) := by simp [weakDict, h]

theorem weakDict_of_none {d : TwoWayDict α β} {a : α} (alloc : Nat → α → β) (h : d.fwd.lookup a = none) :
    weakDict d alloc a = ((d.insert a (alloc d.size a)).1, alloc d.size a) := by simp [weakDict, h]

/-- the forward map of the dictionary evolves exactly like a plain map under `TranslatorWeak` -/
theorem weakDict_fwd (d : TwoWayDict α β) (alloc : Nat → α → β) (a : α) :
    (weakDict d alloc a).1.fwd = (weakMap d.fwd alloc a).1 ∧ (weakDict d alloc a).2 = (weakMap d.fwd alloc a).2 := by
  cases h : d.fwd.lookup a with
  | some b => rw [weakDict_of_some alloc h, weakMap_of_some alloc h]; exact ⟨rfl, rfl⟩
  | none =>
    rw [weakDict_of_none alloc h, weakMap_of_none alloc h]
    simp [TwoWayDict.insert, mapInsert_of_none _ h, TwoWayDict.size]

/-- a fresh value (no name has it yet) keeps the invariant of the dictionary -/
theorem weakDict_inv {d : TwoWayDict α β} (hd : d.Inv) (alloc : Nat → α → β) (a : α)
    (hf : d.fwd.lookup a = none → d.bwd.lookup (alloc d.size a) = none) : (weakDict d alloc a).1.Inv := by
  cases h : d.fwd.lookup a with
  | some b => rw [weakDict_of_some alloc h]; exact hd
  | none =>
    rw [weakDict_of_none alloc h]
    exact TwoWayDict.inv_insert hd (by simp [TwoWayDict.insertOk, h, hf h])

/-- `TranslatorStrict::operator()` is a lookup: it has no access to anything it could change -/
theorem strict_eq_lookup (m : List (α × β)) (a : α) : strict m a = m.lookup a ∧ weakConst m a = m.lookup a := ⟨rfl, rfl⟩

end

/-! ### the connection with the earlier models -/

/-- `TranslatorWeak` with the allocator `[&cnt](…){ return cnt++; }` is the `weakTr` of `Vata/UnionModel.lean` -/
theorem weakMap_eq_weakTr (m : SMap) (cnt q : Nat) :
    Vata.weakTr m cnt q = ((weakMap m (fun _ _ => cnt) q).1, if (m.lookup q).isSome then cnt else cnt + 1) := by
  unfold Vata.weakTr
  cases h : m.lookup q with
  | some b => rw [weakMap_of_some _ h]; simp
  | none => rw [weakMap_of_none _ h]; simp

/-- a sequence of calls on one translator object with the counter functor is `weakTrAll` -/
theorem weakMapSeq_counter_eq_weakTrAll : ∀ (qs : List Nat) (m : SMap) (cnt : Nat) (out : List Nat),
    (weakMapSeq .counter qs m cnt out).1 = (Vata.weakTrAll qs m cnt).1 ∧
      (weakMapSeq .counter qs m cnt out).2.1 = (Vata.weakTrAll qs m cnt).2
  | [], m, cnt, out => ⟨rfl, rfl⟩
  | q :: qs, m, cnt, out => by
    simp only [weakMapSeq, Vata.weakTrAll]
    cases h : m.lookup q with
    | some b =>
      have e : Vata.weakTr m cnt q = (m, cnt) := by simp [Vata.weakTr, h]
      rw [e]
      exact weakMapSeq_counter_eq_weakTrAll qs m cnt _
    | none =>
      have e : Vata.weakTr m cnt q = (m ++ [(q, cnt)], cnt + 1) := by simp [Vata.weakTr, h]
      rw [e]
      simp only [Alloc.run, weakMap_of_none _ h]
      exact weakMapSeq_counter_eq_weakTrAll qs _ _ _

theorem loadDump_fwd?_eq {κ : Type} [DecidableEq κ] (D : Vata.Dict κ) (k : κ) : Vata.Dict.fwd? D k = D.lookup k := by
  induction D with
  | nil => rfl
  | cons e r ih =>
    obtain ⟨k', v⟩ := e
    simp only [Vata.Dict.fwd?, List.lookup_cons]
    by_cases h : k' = k
    · subst h; simp
    · have : (k == k') = false := by simpa using (fun e => h e.symm)
      simp [h, this, ih]

/-- `TranslatorWeak<TwoWayDict>` with the counter functor is the `Dict.weak` of `Vata/LoadDump.lean` (which keeps only the
forward list): same result, same forward map -/
theorem weakDict_eq_loadDump {κ : Type} [DecidableEq κ] (d : TwoWayDict κ Nat) (c : Nat) (k : κ) :
    (weakDict d (fun _ _ => c) k).2 = (Vata.Dict.weak d.fwd c k).1 ∧
      (weakDict d (fun _ _ => c) k).1.fwd = (Vata.Dict.weak d.fwd c k).2.1 := by
  unfold Vata.Dict.weak
  rw [loadDump_fwd?_eq]
  cases h : d.fwd.lookup k with
  | some b => rw [weakDict_of_some _ h]; exact ⟨rfl, rfl⟩
  | none =>
    rw [weakDict_of_none _ h]
    simp [TwoWayDict.insert, mapInsert_of_none _ h, Vata.Dict.insert]

/-! ### names -/

theorem name1_inj {n n' : Name} (h : name1 n = name1 n') : n = n' := List.append_cancel_right h
theorem name2_inj {n n' : Name} (h : name2 n = name2 n') : n = n' := List.append_cancel_right h

theorem name1_ne_name2 (n n' : Name) : name1 n ≠ name2 n' := by
  intro h
  have := congrArg List.getLast? h
  simp [name1, name2] at this

/-- splitting at the first occurrence of a separator is unique -/
theorem split_first {c : Char} : ∀ {x x' y y' : List Char}, c ∉ x → c ∉ x' → x ++ c :: y = x' ++ c :: y' → x = x' ∧ y = y'
  | [], [], _, _, _, _, h => by simpa using h
  | [], b :: x', _, _, _, h', h => by
    simp only [List.nil_append, List.cons_append, List.cons.injEq] at h
    exact absurd (by simp [h.1]) h'
  | a :: x, [], _, _, h', _, h => by
    simp only [List.nil_append, List.cons_append, List.cons.injEq] at h
    exact absurd (by simp [h.1]) h'
  | a :: x, b :: x', y, y', h1, h2, h => by
    simp only [List.cons_append, List.cons.injEq] at h
    have := split_first (x := x) (x' := x') (by intro hc; exact h1 (List.mem_cons_of_mem _ hc))
      (by intro hc; exact h2 (List.mem_cons_of_mem _ hc)) h.2
    exact ⟨by rw [h.1, this.1], this.2⟩

/-- the product names are injective when the names of the LEFT operand contain no `|` … -/
theorem prodName_inj_left {l l' r r' : Name} (hl : '|' ∉ l) (hl' : '|' ∉ l') (h : prodName l r = prodName l' r') :
    l = l' ∧ r = r' := by
  unfold prodName at h
  simp only [List.cons.injEq, true_and] at h
  have e : ∀ (l r : Name), l ++ ['_', '1', '|'] ++ (r ++ ['_', '2', ']']) = (l ++ ['_', '1']) ++ '|' :: (r ++ ['_', '2', ']']) := by
    intro l r; simp
  rw [e, e] at h
  have hs := split_first (c := '|') (by simp [hl]) (by simp [hl']) h
  exact ⟨List.append_cancel_right hs.1, List.append_cancel_right hs.2⟩

/-- … or when the names of the RIGHT operand contain no `|` -/
theorem prodName_inj_right {l l' r r' : Name} (hr : '|' ∉ r) (hr' : '|' ∉ r') (h : prodName l r = prodName l' r') :
    l = l' ∧ r = r' := by
  unfold prodName at h
  simp only [List.cons.injEq, true_and] at h
  have h' := congrArg List.reverse h
  have e : ∀ (l r : Name), (l ++ ['_', '1', '|'] ++ (r ++ ['_', '2', ']'])).reverse =
      ([']', '2', '_'] ++ r.reverse) ++ '|' :: (['1', '_'] ++ l.reverse) := by
    intro l r; simp
  rw [e, e] at h'
  have hs := split_first (c := '|') (by simp [hr]) (by simp [hr']) h'
  have h1 : r.reverse = r'.reverse := List.append_cancel_left hs.1
  have h2 : l.reverse = l'.reverse := List.append_cancel_left hs.2
  exact ⟨List.reverse_inj.1 h2, List.reverse_inj.1 h1⟩

/-- in general the product names are NOT injective: `a_1|b` with `c`, and `a` with `b_1|c`, both give `[a_1|b_1|c_2]` -/
theorem prodName_not_injective :
    prodName "a_1|b".toList "c".toList = prodName "a".toList "b_1|c".toList ∧ "a_1|b".toList ≠ "a".toList := by decide

/-! ### `CreateUnionStringToStateMap` -/

/-- the entry one dictionary element contributes: none when its state has no translation (pruned) -/
def sideEntry (suffix : Name → Name) (tr : Option (List (Nat × Nat))) (e : Name × Nat) : Option (Name × Nat) :=
  match tr with
  | none => some (suffix e.1, e.2)
  | some t => (t.lookup e.2).map (fun s' => (suffix e.1, s'))

/-- all entries of one side -/
def sideEntries (suffix : Name → Name) (tr : Option (List (Nat × Nat))) (cont : List (Name × Nat)) : List (Name × Nat) :=
  cont.filterMap (sideEntry suffix tr)

theorem unionSide_eq (suffix : Name → Name) (tr : Option (List (Nat × Nat))) :
    ∀ (cont : List (Name × Nat)) (res : StateDict),
      unionSide suffix tr cont res = TwoWayDict.insertList res (sideEntries suffix tr cont)
  | [], res => rfl
  | (n, s) :: r, res => by
    cases tr with
    | none => simp only [unionSide, sideEntries, List.filterMap_cons, sideEntry, TwoWayDict.insertList]; exact unionSide_eq suffix none r _
    | some t =>
      cases h : t.lookup s with
      | none =>
        simp only [unionSide, h, sideEntries, List.filterMap_cons, sideEntry, Option.map_none]
        exact unionSide_eq suffix (some t) r _
      | some s' =>
        simp only [unionSide, h, sideEntries, List.filterMap_cons, sideEntry, Option.map_some, TwoWayDict.insertList]
        exact unionSide_eq suffix (some t) r _

theorem insertList_append {α β : Type} [DecidableEq α] [DecidableEq β] (d : TwoWayDict α β) :
    ∀ (es fs : List (α × β)), TwoWayDict.insertList (TwoWayDict.insertList d es) fs = TwoWayDict.insertList d (es ++ fs)
  | [], fs => rfl
  | e :: es, fs => by
    simp only [TwoWayDict.insertList, List.cons_append]
    exact insertList_append (d := (d.insert e.1 e.2).1) es fs ▸ rfl

/-- the entries the function inserts, in the order it inserts them -/
def unionEntries (l r : StateDict) (tl tr : Option (List (Nat × Nat))) : List (Name × Nat) :=
  sideEntries name1 tl l.fwd ++ sideEntries name2 tr r.fwd

/-- the function is a run of `Insert`s of `name_1 ↦ translation` for the left and `name_2 ↦ translation` for the right
dictionary, restricted to the states that HAVE a translation -/
theorem unionDict_eq (l r : StateDict) (tl tr : Option (List (Nat × Nat))) :
    unionDict l r tl tr = TwoWayDict.insertList TwoWayDict.empty (unionEntries l r tl tr) := by
  unfold unionDict unionEntries
  rw [unionSide_eq, unionSide_eq]
  exact insertList_append _ _ _

theorem mem_sideEntries {suffix : Name → Name} {tr : Option (List (Nat × Nat))} {cont : List (Name × Nat)} {x : Name × Nat} :
    x ∈ sideEntries suffix tr cont ↔ ∃ n s, (n, s) ∈ cont ∧ x.1 = suffix n ∧
      (match tr with | none => x.2 = s | some t => t.lookup s = some x.2) := by
  unfold sideEntries
  simp only [List.mem_filterMap, Prod.exists]
  constructor
  · rintro ⟨n, s, hm, he⟩
    refine ⟨n, s, hm, ?_⟩
    cases tr with
    | none => simp only [sideEntry, Option.some.injEq] at he; subst he; exact ⟨rfl, rfl⟩
    | some t =>
      simp only [sideEntry, Option.map_eq_some_iff] at he
      obtain ⟨s', hs, rfl⟩ := he
      exact ⟨rfl, hs⟩
  · rintro ⟨n, s, hm, h1, h2⟩
    refine ⟨n, s, hm, ?_⟩
    obtain ⟨x1, x2⟩ := x
    cases tr with
    | none => simp only at h1 h2; subst h1; subst h2; rfl
    | some t => simp only at h1 h2; subst h1; simp [sideEntry, h2]

theorem sideEntries_keys_sublist (suffix : Name → Name) (tr : Option (List (Nat × Nat))) :
    ∀ (cont : List (Name × Nat)), ((sideEntries suffix tr cont).map Prod.fst).Sublist (cont.map (fun e => suffix e.1))
  | [] => by simp [sideEntries]
  | (n, s) :: r => by
    have ih := sideEntries_keys_sublist suffix tr r
    unfold sideEntries at ih ⊢
    simp only [List.filterMap_cons, List.map_cons]
    cases h : sideEntry suffix tr (n, s) with
    | none => exact ih.cons _
    | some e =>
      have : e.1 = suffix n := by
        cases tr with
        | none => simp [sideEntry] at h; rw [← h]
        | some t => simp [sideEntry] at h; obtain ⟨_, _, rfl⟩ := h; rfl
      simp only [List.map_cons, this]
      exact ih.cons_cons _

/-- the new names are pairwise different (whatever the names are): no forward insertion of the helper can fail -/
theorem unionEntries_keys_nodup {l r : StateDict} (hl : IsMap l.fwd) (hr : IsMap r.fwd) (tl tr : Option (List (Nat × Nat))) :
    ((unionEntries l r tl tr).map Prod.fst).Nodup := by
  unfold unionEntries
  rw [List.map_append, List.nodup_append]
  refine ⟨?_, ?_, ?_⟩
  · apply (sideEntries_keys_sublist name1 tl l.fwd).nodup
    have : l.fwd.map (fun e => name1 e.1) = (l.fwd.map Prod.fst).map name1 := by simp [List.map_map, Function.comp_def]
    rw [this]
    exact nodup_map_of_inj (fun _ _ => name1_inj) hl
  · apply (sideEntries_keys_sublist name2 tr r.fwd).nodup
    have : r.fwd.map (fun e => name2 e.1) = (r.fwd.map Prod.fst).map name2 := by simp [List.map_map, Function.comp_def]
    rw [this]
    exact nodup_map_of_inj (fun _ _ => name2_inj) hr
  · intro x hx y hy e
    subst e
    have h1 := (sideEntries_keys_sublist name1 tl l.fwd).subset hx
    have h2 := (sideEntries_keys_sublist name2 tr r.fwd).subset hy
    simp only [List.mem_map] at h1 h2
    obtain ⟨e1, _, rfl⟩ := h1
    obtain ⟨e2, _, h2⟩ := h2
    exact name1_ne_name2 _ _ h2.symm

/-- the forward map of the result: exactly the entries, whatever the values are -/
theorem unionDict_fwd {l r : StateDict} (hl : IsMap l.fwd) (hr : IsMap r.fwd) (tl tr : Option (List (Nat × Nat))) :
    (unionDict l r tl tr).fwd = unionEntries l r tl tr := by
  rw [unionDict_eq, TwoWayDict.insertList_fwd]
  · simp [TwoWayDict.empty]
  · simpa [TwoWayDict.empty] using unionEntries_keys_nodup hl hr tl tr

/-- the contract of the helper: the numbers of the result are pairwise different (the translations are injective and
their ranges disjoint).  Then the result is a dictionary (invariant) with exactly the entries. -/
theorem unionDict_inv {l r : StateDict} (hl : IsMap l.fwd) (hr : IsMap r.fwd) (tl tr : Option (List (Nat × Nat)))
    (hv : ((unionEntries l r tl tr).map Prod.snd).Nodup) :
    (unionDict l r tl tr).Inv ∧ (unionDict l r tl tr).bwd = (unionEntries l r tl tr).map Prod.swap := by
  rw [unionDict_eq]
  refine ⟨TwoWayDict.insertList_inv _ _ TwoWayDict.inv_empty ?_ ?_, ?_⟩
  · simpa [TwoWayDict.empty] using unionEntries_keys_nodup hl hr tl tr
  · simpa [TwoWayDict.empty] using hv
  · rw [TwoWayDict.insertList_bwd]
    · simp [TwoWayDict.empty]
    · simpa [TwoWayDict.empty] using hv

/-- the code before the repair `7228ecf7` computed the same dictionary whenever it was defined – it was undefined
(dereferenced `end()`) as soon as one state had no translation -/
theorem unionSideOld_eq (suffix : Name → Name) (tr : Option (List (Nat × Nat))) :
    ∀ (cont : List (Name × Nat)) (res res' : StateDict), unionSideOld suffix tr cont res = some res' →
      unionSide suffix tr cont res = res' ∧ (sideEntries suffix tr cont).length = cont.length
  | [], res, res', h => by simp [unionSideOld] at h; subst h; exact ⟨rfl, rfl⟩
  | (n, s) :: r, res, res', h => by
    cases tr with
    | none =>
      simp only [unionSideOld] at h
      have := unionSideOld_eq suffix none r _ res' h
      simp only [unionSide, sideEntries, List.filterMap_cons, sideEntry, List.length_cons]
      exact ⟨this.1, by simpa [sideEntries] using this.2⟩
    | some t =>
      cases hs : t.lookup s with
      | none => simp [unionSideOld, hs] at h
      | some s' =>
        simp only [unionSideOld, hs] at h
        have := unionSideOld_eq suffix (some t) r _ res' h
        simp only [unionSide, hs, sideEntries, List.filterMap_cons, sideEntry, Option.map_some, List.length_cons]
        exact ⟨this.1, by simpa [sideEntries] using this.2⟩

theorem unionDictOld_eq {l r : StateDict} {tl tr : Option (List (Nat × Nat))} {d : StateDict}
    (h : unionDictOld l r tl tr = some d) : unionDict l r tl tr = d := by
  unfold unionDictOld at h
  cases h1 : unionSideOld name1 tl l.fwd TwoWayDict.empty with
  | none => rw [h1] at h; cases h
  | some res =>
    rw [h1] at h
    unfold unionDict
    rw [(unionSideOld_eq name1 tl l.fwd _ res h1).1]
    exact (unionSideOld_eq name2 tr r.fwd _ d h).1

/-- finding D14 in the model: a dictionary entry whose state was pruned made the old code undefined, the repaired code
skips it -/
theorem unionDictOld_pruned :
    let l : StateDict := ⟨[("a".toList, 0), ("b".toList, 1)], [(0, "a".toList), (1, "b".toList)]⟩
    unionDictOld l TwoWayDict.empty (some [(1, 5)]) none = none ∧
      (unionDict l TwoWayDict.empty (some [(1, 5)]) none).fwd = [("b_1".toList, 5)] := by decide

/-! ### `CreateProductStringToStateMap` -/

/-- the entry one element of the product map contributes; `none` = a component has no name (undefined behaviour) -/
def prodEntry (l r : StateDict) (e : (Nat × Nat) × Nat) : Option (Name × Nat) :=
  match l.bwd.lookup e.1.1, r.bwd.lookup e.1.2 with
  | some ln, some rn => some (prodName ln rn, e.2)
  | _, _ => none

def prodEntries (l r : StateDict) : List ((Nat × Nat) × Nat) → Option (List (Name × Nat))
  | [] => some []
  | e :: rest =>
    match prodEntry l r e, prodEntries l r rest with
    | some x, some xs => some (x :: xs)
    | _, _ => none

theorem productLoop_eq (l r : StateDict) : ∀ (pm : List ((Nat × Nat) × Nat)) (res : StateDict),
    productLoop l r pm res = (prodEntries l r pm).map (TwoWayDict.insertList res)
  | [], res => rfl
  | ((p, q), v) :: rest, res => by
    simp only [productLoop, prodEntries, prodEntry]
    cases h1 : l.bwd.lookup p with
    | none => simp
    | some ln =>
      cases h2 : r.bwd.lookup q with
      | none => simp
      | some rn =>
        simp only [productLoop_eq l r rest]
        cases prodEntries l r rest <;> simp [TwoWayDict.insertList]

/-- the function is a run of `Insert`s of `[l_1|r_2] ↦ number` for the pairs of the product map -/
theorem productDict_eq (l r : StateDict) (pm : List ((Nat × Nat) × Nat)) :
    productDict l r pm = (prodEntries l r pm).map (TwoWayDict.insertList TwoWayDict.empty) := productLoop_eq l r pm _

/-- it is undefined exactly when a component of some pair has no name in its dictionary -/
theorem prodEntries_eq_none_iff (l r : StateDict) : ∀ (pm : List ((Nat × Nat) × Nat)),
    prodEntries l r pm = none ↔ ∃ e ∈ pm, l.bwd.lookup e.1.1 = none ∨ r.bwd.lookup e.1.2 = none
  | [] => by simp [prodEntries]
  | e :: rest => by
    have ih := prodEntries_eq_none_iff l r rest
    simp only [prodEntries, List.mem_cons, exists_eq_or_imp]
    rw [← ih]
    unfold prodEntry
    cases h1 : l.bwd.lookup e.1.1 <;> cases h2 : r.bwd.lookup e.1.2 <;> cases prodEntries l r rest <;> simp

theorem productDict_eq_none_iff (l r : StateDict) (pm : List ((Nat × Nat) × Nat)) :
    productDict l r pm = none ↔ ∃ e ∈ pm, l.bwd.lookup e.1.1 = none ∨ r.bwd.lookup e.1.2 = none := by
  rw [productDict_eq, Option.map_eq_none_iff, prodEntries_eq_none_iff]

theorem mem_prodEntries {l r : StateDict} : ∀ {pm : List ((Nat × Nat) × Nat)} {es : List (Name × Nat)},
    prodEntries l r pm = some es → ∀ x, x ∈ es ↔ ∃ e ∈ pm, ∃ ln rn, l.bwd.lookup e.1.1 = some ln ∧ r.bwd.lookup e.1.2 = some rn ∧
      x = (prodName ln rn, e.2)
  | [], es, h, x => by simp [prodEntries] at h; subst h; simp
  | e :: rest, es, h, x => by
    simp only [prodEntries] at h
    cases h1 : prodEntry l r e with
    | none => rw [h1] at h; simp at h
    | some y =>
      cases h2 : prodEntries l r rest with
      | none => rw [h1, h2] at h; simp at h
      | some ys =>
        rw [h1, h2] at h
        simp only [Option.some.injEq] at h
        subst h
        have ih := mem_prodEntries h2 x
        simp only [List.mem_cons, exists_eq_or_imp]
        rw [ih]
        apply or_congr_left
        unfold prodEntry at h1
        cases h3 : l.bwd.lookup e.1.1 with
        | none => rw [h3] at h1; simp at h1
        | some ln =>
          cases h4 : r.bwd.lookup e.1.2 with
          | none => rw [h3, h4] at h1; simp at h1
          | some rn =>
            rw [h3, h4] at h1
            simp only [Option.some.injEq] at h1
            subst h1
            constructor
            · intro hx; exact ⟨ln, rn, rfl, rfl, hx⟩
            · rintro ⟨ln', rn', e1, e2, hx⟩
              cases e1; cases e2; exact hx

/-- the contract of the helper: every component has a name, the produced names are pairwise different and so are the
numbers.  Then the result is a dictionary (invariant) with exactly the entries `[l_1|r_2] ↦ number`. -/
theorem productDict_inv {l r : StateDict} {pm : List ((Nat × Nat) × Nat)} {es : List (Name × Nat)}
    (he : prodEntries l r pm = some es) (hk : (es.map Prod.fst).Nodup) (hv : (es.map Prod.snd).Nodup) :
    ∃ d, productDict l r pm = some d ∧ d.Inv ∧ d.fwd = es ∧ d.bwd = es.map Prod.swap := by
  refine ⟨TwoWayDict.insertList TwoWayDict.empty es, by rw [productDict_eq, he]; rfl, ?_, ?_, ?_⟩
  · exact TwoWayDict.insertList_inv _ _ TwoWayDict.inv_empty (by simpa [TwoWayDict.empty] using hk)
      (by simpa [TwoWayDict.empty] using hv)
  · rw [TwoWayDict.insertList_fwd]
    · simp [TwoWayDict.empty]
    · simpa [TwoWayDict.empty] using hk
  · rw [TwoWayDict.insertList_bwd]
    · simp [TwoWayDict.empty]
    · simpa [TwoWayDict.empty] using hv

/-- with colliding names the result is NOT a dictionary: two product states share one name, `size()` is 1, the reverse map
has 2 entries (the witness the harness confirms on the real function) -/
theorem productDict_collision :
    let l : StateDict := ⟨[("a_1|b".toList, 0), ("a".toList, 1)], [(0, "a_1|b".toList), (1, "a".toList)]⟩
    let r : StateDict := ⟨[("c".toList, 0), ("b_1|c".toList, 1)], [(0, "c".toList), (1, "b_1|c".toList)]⟩
    (productDict l r [((0, 0), 7), ((1, 1), 8)]).map (fun d => (d.fwd.length, d.bwd.length, d.bwd.map Prod.fst)) =
      some (1, 2, [7, 8]) := by decide

end Vata.Glue
