import Vata.NfaInclSim
import Vata.Proofs.NfaIncl
/-!
# The antichain principle modulo a simulation on word automata; the verdicts of `nfaInclACSim`

* `isNfaSimB_iff`, `isNfaSimPreB_iff` : the decidable checkers are the specs `NfaSim`, `NfaSimPre`;
* `sim_path`                         : a simulation transports accepting paths;
* `NfaUpCertSim`, `nfa_up_cert_sim_incl` : the certificate of a `true` (start states covered modulo `R`; every successor of a
  pair either skipped because a state of the successor macro-state simulates it, or covered modulo `R`; no bad pair) implies
  `L(A) ⊆ L(B)` when `R` is a transitive simulation on `A ⊎ B` and the operands are state-disjoint;
* `nfaInclACSim_iff`                 : every verdict of the model is exact under these hypotheses.
-/
namespace Vata
open Vata.W
open NfaIncl

theorem relGet_iff {R : Rel} {p q : Nat} : relGet R p q = true ↔ (p, q) ∈ R := by
  simp [relGet]

theorem isNfaSimB_iff {U : NFA} {R : Rel} : isNfaSimB U R = true ↔ NfaSim U R := by
  simp only [isNfaSimB, List.all_eq_true, Bool.and_eq_true, Bool.or_eq_true, Bool.not_eq_true', List.any_eq_true,
    beq_iff_eq, bne_iff_ne, ne_eq, relGet_iff, List.contains_iff_mem]
  constructor
  · intro h p q hpq
    obtain ⟨h1, h2⟩ := h (p, q) hpq
    constructor
    · intro hf
      rcases h1 with h1 | h1
      · have : U.final.contains p = true := List.contains_iff_mem.mpr hf
        simp only at h1
        rw [h1] at this; cases this
      · exact h1
    · intro a p' he
      rcases h2 (p, a, p') he with hne | ⟨e', he', ⟨h3, h4⟩, h5⟩
      · exact (hne rfl).elim
      · obtain ⟨x, b, q'⟩ := e'
        simp only at h3 h4 h5
        subst h3; subst h4
        exact ⟨q', he', h5⟩
  · intro h pq hpq
    obtain ⟨h1, h2⟩ := h pq.1 pq.2 hpq
    constructor
    · cases hc : U.final.contains pq.1 with
      | false => exact Or.inl rfl
      | true => exact Or.inr (h1 (List.contains_iff_mem.mp hc))
    · intro e he
      by_cases hne : e.1 = pq.1
      · right
        obtain ⟨q', he', hr⟩ := h2 e.2.1 e.2.2 (by rw [← hne]; exact he)
        exact ⟨(pq.2, e.2.1, q'), he', ⟨rfl, rfl⟩, hr⟩
      · exact Or.inl hne

theorem isNfaSimPreB_iff {U : NFA} {R : Rel} : isNfaSimPreB U R = true ↔ NfaSimPre U R := by
  unfold isNfaSimPreB NfaSimPre
  rw [Bool.and_eq_true, Bool.and_eq_true, isNfaSimB_iff]
  simp only [List.all_eq_true, relGet_iff, Bool.or_eq_true, bne_iff_ne, ne_eq]
  constructor
  · rintro ⟨⟨h1, h2⟩, h3⟩
    refine ⟨h1, h2, ?_⟩
    intro p q r hpq hqr
    rcases h3 (p, q) hpq (q, r) hqr with h | h
    · exact (h rfl).elim
    · exact h
  · rintro ⟨h1, h2, h3⟩
    refine ⟨⟨h1, h2⟩, ?_⟩
    intro pq hpq qr hqr
    by_cases he : pq.2 = qr.1
    · right
      have hqr' : (pq.2, qr.2) ∈ R := by rw [he]; exact hqr
      exact h3 pq.1 pq.2 qr.2 hpq hqr'
    · exact Or.inl he

namespace NfaIncl

/-- a simulation transports accepting paths -/
theorem sim_path {U : NFA} {R : Rel} (hR : NfaSim U R) {p f : Nat} {w : List Nat} (hp : Path U p w f)
    (hf : f ∈ U.final) : ∀ q, (p, q) ∈ R → ∃ f', Path U q w f' ∧ f' ∈ U.final := by
  induction hp with
  | nil f => intro q hpq; exact ⟨q, .nil q, (hR f q hpq).1 hf⟩
  | @cons p a r w f he _ ih =>
    intro q hpq
    obtain ⟨q', he', hr⟩ := (hR p q hpq).2 a r he
    obtain ⟨f', hp', hf'⟩ := ih hf q' hr
    exact ⟨f', .cons he' hp', hf'⟩

/-- `lss ≤ rss` modulo `R`: every state of `lss` is simulated by a state of `rss` -/
def Lte (R : Rel) (lss rss : List Nat) : Prop := ∀ x, x ∈ lss → ∃ y, y ∈ rss ∧ (x, y) ∈ R

theorem lteSim_iff {R : Rel} {l r : List Nat} : lteSim R l r = true ↔ Lte R l r := by
  simp only [lteSim, List.all_eq_true, List.any_eq_true, relGet_iff, Lte]

theorem Lte.step {U : NFA} {R : Rel} (hR : NfaSim U R) {S T : List Nat} (h : Lte R S T) (a : Nat) :
    Lte R (stepW U S a) (stepW U T a) := by
  intro x hx
  obtain ⟨p, hp, he⟩ := mem_stepW.mp hx
  obtain ⟨y, hy, hpy⟩ := h p hp
  obtain ⟨y', he', hr⟩ := (hR p y hpy).2 a x he
  exact ⟨y', mem_stepW.mpr ⟨y, hy, he'⟩, hr⟩

theorem Lte.trans {R : Rel} (ht : ∀ p q r, (p, q) ∈ R → (q, r) ∈ R → (p, r) ∈ R) {S T V : List Nat}
    (h1 : Lte R S T) (h2 : Lte R T V) : Lte R S V := by
  intro x hx
  obtain ⟨y, hy, hxy⟩ := h1 x hx
  obtain ⟨z, hz, hyz⟩ := h2 y hy
  exact ⟨z, hz, ht x y z hxy hyz⟩

end NfaIncl

/-- the certificate of a `true` of the antichain functor with a simulation, in `U` -/
def NfaUpCertSim (U : NFA) (R : Rel) (X : List (Nat × List Nat)) : Prop :=
  (∀ P, P ∈ X → ∀ a c', (P.1, a, c') ∈ U.trans →
    (∃ s, s ∈ stepW U P.2 a ∧ (c', s) ∈ R) ∨ ∃ P', P' ∈ X ∧ (c', P'.1) ∈ R ∧ Lte R P'.2 (stepW U P.2 a)) ∧
  (∀ P, P ∈ X → P.1 ∈ U.final → W.accepting U P.2 = true)

namespace NfaIncl

theorem accepting_iff {N : NFA} {S : List Nat} : W.accepting N S = true ↔ ∃ q, q ∈ S ∧ q ∈ N.final := by
  simp only [W.accepting, List.any_eq_true, List.contains_iff_mem]

/-- a state below a pair of the certificate is included in every macro-state above the pair -/
theorem upCertSim_path {U : NFA} {R : Rel} {X : List (Nat × List Nat)} (hR : NfaSim U R)
    (ht : ∀ p q r, (p, q) ∈ R → (q, r) ∈ R → (p, r) ∈ R) (hX : NfaUpCertSim U R X)
    {p f : Nat} {w : List Nat} (hp : Path U p w f) (hf : f ∈ U.final) :
    ∀ P, P ∈ X → (p, P.1) ∈ R → ∀ S, Lte R P.2 S → W.accepting U (w.foldl (stepW U) S) = true := by
  induction hp with
  | nil f =>
    intro P hP hpP S hS
    obtain ⟨x, hx, hxf⟩ := accepting_iff.mp (hX.2 P hP ((hR f P.1 hpP).1 hf))
    obtain ⟨y, hy, hxy⟩ := hS x hx
    exact accepting_iff.mpr ⟨y, hy, (hR x y hxy).1 hxf⟩
  | @cons p a r w f he hp' ih =>
    intro P hP hpP S hS
    obtain ⟨c', hec, hrc⟩ := (hR p P.1 hpP).2 a r he
    simp only [List.foldl_cons]
    rcases hX.1 P hP a c' hec with ⟨s, hs, hcs⟩ | ⟨P', hP', hcP', hl⟩
    · -- skipped by `checkSmallerInBigger`: a state of the successor macro-state simulates `r`
      obtain ⟨s', hs', hss'⟩ := (hS.step hR a) s hs
      have hrs' : (r, s') ∈ R := ht r s s' (ht r c' s hrc hcs) hss'
      obtain ⟨f', hpf, hff⟩ := sim_path hR hp' hf s' hrs'
      exact accepting_iff.mpr ⟨f', (mem_foldl_stepW U w _ f').mpr ⟨s', hs', hpf⟩, hff⟩
    · exact ih hf P' hP' (ht r c' P'.1 hrc hcP') _ (hl.trans ht (hS.step hR a))

end NfaIncl

/-- the antichain principle modulo a simulation: a certificate whose start states are covered implies inclusion -/
theorem nfa_up_cert_sim_incl {A B : NFA} {R : Rel} {X : List (Nat × List Nat)}
    (hdis : ∀ q, q ∈ nfaStates A → q ∈ nfaStates B → False)
    (hR : NfaSim (nfaUnionDisjoint A B) R) (ht : ∀ p q r, (p, q) ∈ R → (q, r) ∈ R → (p, r) ∈ R)
    (hstart : ∀ s, s ∈ A.start → ∃ P, P ∈ X ∧ (s, P.1) ∈ R ∧ Lte R P.2 B.start)
    (hX : NfaUpCertSim (nfaUnionDisjoint A B) R X) : InclW A B := by
  intro w hA
  obtain ⟨s, hs, f, hf, hp⟩ := (acceptsW_iff A w).mp hA
  have hpU : Path (nfaUnionDisjoint A B) s w f := hp.mono (fun e he => List.mem_append_left _ he)
  have hfU : f ∈ (nfaUnionDisjoint A B).final := List.mem_append_left _ hf
  obtain ⟨P, hP, hsP, hl⟩ := hstart s hs
  have hacc := upCertSim_path hR ht hX hpU hfU P hP hsP B.start hl
  obtain ⟨q, hq, hqf⟩ := accepting_iff.mp hacc
  obtain ⟨b, hb, hpb⟩ := (mem_foldl_stepW _ w B.start q).mp hq
  obtain ⟨hpB, hqB⟩ := path_union_right hdis hpb (start_mem_nfaStates hb)
  rcases List.mem_append.mp hqf with hfA | hfB
  · exact (hdis q (final_mem_nfaStates hfA) hqB).elim
  · exact (acceptsW_iff B w).mpr ⟨b, hb, q, hfB, hpB⟩

theorem nfaUpCertSimB_sound {A B : NFA} {R : Rel} {X : List (Nat × List Nat)} (h : nfaUpCertSimB A B R X = true) :
    (∀ s, s ∈ A.start → ∃ P, P ∈ X ∧ (s, P.1) ∈ R ∧ Lte R P.2 B.start) ∧
    NfaUpCertSim (nfaUnionDisjoint A B) R X := by
  simp only [nfaUpCertSimB, Bool.and_eq_true, List.all_eq_true, List.any_eq_true, Bool.or_eq_true, bne_iff_ne, ne_eq,
    Bool.not_eq_true', relGet_iff, lteSim_iff, smallerInBigger] at h
  obtain ⟨⟨h1, h2⟩, h3⟩ := h
  refine ⟨?_, ?_, ?_⟩
  · intro s hs
    obtain ⟨P, hP, h⟩ := h1 s hs
    exact ⟨P, hP, h⟩
  · intro P hP a c' he
    rcases h2 P hP (P.1, a, c') he with (hne | ⟨s, hs, hr⟩) | ⟨P', hP', hr, hl⟩
    · exact (hne rfl).elim
    · exact Or.inl ⟨s, hs, hr⟩
    · exact Or.inr ⟨P', hP', hr, hl⟩
  · intro P hP hf
    rcases h3 P hP with hnf | hacc
    · have : (nfaUnionDisjoint A B).final.contains P.1 = true := List.contains_iff_mem.mpr hf
      rw [hnf] at this; cases this
    · exact hacc

/-- every verdict of the model of `ANTICHAINS_SIM` is exact when the operands are state-disjoint and `R` is a transitive
simulation on `A ⊎ B` -/
theorem nfaInclACSim_iff {A B : NFA} {R : Rel} (hdis : ∀ q, q ∈ nfaStates A → q ∈ nfaStates B → False)
    (hR : NfaSim (nfaUnionDisjoint A B) R) (ht : ∀ p q r, (p, q) ∈ R → (q, r) ∈ R → (p, r) ∈ R)
    {fuel : Nat} {b : Bool} (h : nfaInclACSim A B R fuel = some b) : b = true ↔ InclW A B := by
  unfold nfaInclACSim at h
  split at h
  · cases h
  · split at h
    · next hc =>
      simp only [Option.some.injEq] at h
      subst h
      obtain ⟨h1, h2⟩ := nfaUpCertSimB_sound hc
      exact ⟨fun _ => nfa_up_cert_sim_incl hdis hR ht h1 h2, fun _ => rfl⟩
    · cases h
  · next w _ =>
    split at h
    · next hc =>
      simp only [Option.some.injEq] at h
      subst h
      simp only [Bool.and_eq_true, Bool.not_eq_true'] at hc
      constructor
      · intro h; cases h
      · intro hi
        have := hi w hc.1
        rw [hc.2] at this; cases this
    · cases h

/-- a `false` of the model is right for EVERY relation and all operands -/
theorem nfaInclACSim_false {A B : NFA} {R : Rel} {fuel : Nat} (h : nfaInclACSim A B R fuel = some false) :
    ¬ InclW A B := by
  unfold nfaInclACSim at h
  split at h
  · cases h
  · split at h <;> cases h
  · next w _ =>
    split at h
    · next hc =>
      simp only [Bool.and_eq_true, Bool.not_eq_true'] at hc
      intro hi
      have := hi w hc.1
      rw [hc.2] at this; cases this
    · cases h

end Vata
