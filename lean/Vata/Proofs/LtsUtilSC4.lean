import Vata.Proofs.LtsUtilSC3

/-!
# `SharedCounter` as coded refines a table of numbers (part 4: `copyLabels`)
-/
namespace Vata.LU.SC
namespace P

/-! ## the ranges -/

theorem foldl_max_spec {α : Type} (g : α → Nat) : ∀ (xs : List α) (init : Nat),
    init ≤ xs.foldl (fun s x => max s (g x)) init ∧
    (∀ x, x ∈ xs → g x ≤ xs.foldl (fun s x => max s (g x)) init) ∧
    (xs.foldl (fun s x => max s (g x)) init = init ∨ ∃ x, x ∈ xs ∧ xs.foldl (fun s x => max s (g x)) init = g x)
  | [], init => by simp
  | y :: ys, init => by
    obtain ⟨h1, h2, h3⟩ := foldl_max_spec g ys (max init (g y))
    simp only [List.foldl_cons, List.mem_cons]
    refine ⟨by omega, ?_, ?_⟩
    · rintro x (hx | hx)
      · subst hx; omega
      · exact h2 x hx
    · rcases h3 with h | ⟨x, hx, h⟩
      · by_cases hm : init ≤ g y
        · right; exact ⟨y, Or.inl rfl, by rw [h]; omega⟩
        · left; rw [h]; omega
      · right; exact ⟨x, Or.inr hx, h⟩

/-- row `i` lies in one of the ranges -/
def InRanges (ranges : List (Nat × Nat)) (i : Nat) : Prop := ∃ rg, rg ∈ ranges ∧ rg.1 ≤ i ∧ i < rg.2

/-- row `i` belongs to one of the labels -/
def InLabels (cfg : Cfg) (labels : List Nat) (i : Nat) : Prop :=
  ∃ l, l ∈ labels ∧ ∃ lm, cfg.labelMap[l]? = some lm ∧ lm.1 ≤ i ∧ i < lm.2

theorem copyRanges_spec (cfg : Cfg) (len : Nat) : ∀ (labels : List Nat), labels.all (· < cfg.labelMap.length) = true →
    ∃ ranges, copyRanges cfg len labels = some ranges ∧ (∀ rg, rg ∈ ranges → rg.1 < rg.2) ∧
      ∀ i, InRanges ranges i ↔ i < len ∧ InLabels cfg labels i
  | [], _ => ⟨[], rfl, by simp, by simp [InRanges, InLabels]⟩
  | l :: ls, h => by
    simp only [List.all_cons, Bool.and_eq_true, decide_eq_true_eq] at h
    obtain ⟨ranges, h1, h2, h3⟩ := copyRanges_spec cfg len ls h.2
    have hl : cfg.labelMap[l]? = some cfg.labelMap[l] := List.getElem?_eq_getElem h.1
    generalize cfg.labelMap[l] = lm at hl
    have hlab : ∀ i, InLabels cfg (l :: ls) i ↔ (lm.1 ≤ i ∧ i < lm.2) ∨ InLabels cfg ls i := by
      intro i
      simp only [InLabels, List.mem_cons]
      constructor
      · rintro ⟨l', hl' | hl', lm', g1, g2⟩
        · subst hl'; rw [hl] at g1; cases g1; exact Or.inl g2
        · exact Or.inr ⟨l', hl', lm', g1, g2⟩
      · rintro (g | ⟨l', hl', g⟩)
        · exact ⟨l, Or.inl rfl, lm, hl, g⟩
        · exact ⟨l', Or.inr hl', g⟩
    simp only [copyRanges, hl, h1]
    by_cases hskip : min len lm.2 ≤ lm.1
    · rw [if_pos hskip]
      refine ⟨ranges, rfl, h2, ?_⟩
      intro i
      rw [h3 i, hlab i]
      constructor
      · rintro ⟨g1, g2⟩; exact ⟨g1, Or.inr g2⟩
      · rintro ⟨g1, g2 | g2⟩
        · omega
        · exact ⟨g1, g2⟩
    · rw [if_neg hskip]
      refine ⟨_, rfl, ?_, ?_⟩
      · intro rg hrg
        rcases List.mem_cons.mp hrg with h | h
        · subst h; simp only; omega
        · exact h2 rg h
      · intro i
        rw [hlab i]
        have : InRanges ((lm.1, min len lm.2) :: ranges) i ↔ (lm.1 ≤ i ∧ i < min len lm.2) ∨ InRanges ranges i := by
          simp only [InRanges, List.mem_cons]
          constructor
          · rintro ⟨rg, hrg | hrg, g⟩
            · subst hrg; exact Or.inl g
            · exact Or.inr ⟨rg, hrg, g⟩
          · rintro (g | ⟨rg, hrg, g⟩)
            · exact ⟨_, Or.inl rfl, g⟩
            · exact ⟨rg, Or.inr hrg, g⟩
        rw [this, h3 i]
        constructor
        · rintro (g | ⟨g1, g2⟩)
          · exact ⟨by omega, Or.inl ⟨g.1, by omega⟩⟩
          · exact ⟨g1, Or.inr g2⟩
        · rintro ⟨g1, g2 | g2⟩
          · exact Or.inl ⟨g2.1, by omega⟩
          · exact Or.inr ⟨g1, g2⟩


theorem mem_copiedRows (cfg : Cfg) (labels : List Nat) (n r : Nat) :
    r ∈ copiedRows cfg labels n ↔ r < n ∧ InLabels cfg labels r := by
  simp only [copiedRows, List.mem_filter, List.mem_range, List.any_eq_true, InLabels]
  constructor
  · rintro ⟨h1, l, hl, h⟩
    refine ⟨h1, l, hl, ?_⟩
    cases hlm : cfg.labelMap[l]? with
    | none => rw [hlm] at h; cases h
    | some lm =>
      rw [hlm] at h
      simp only [Bool.and_eq_true, decide_eq_true_eq] at h
      exact ⟨lm, rfl, h⟩
  · rintro ⟨h1, l, hl, lm, hlm, h⟩
    refine ⟨h1, l, hl, ?_⟩
    rw [hlm]
    simp only [Bool.and_eq_true, decide_eq_true_eq]
    exact h

/-- the size `copyLabels` resizes to is the number of rows of the value -/
theorem sent_eq (cfg : Cfg) (labels : List Nat) (len : Nat) (ranges : List (Nat × Nat))
    (h2 : ∀ rg, rg ∈ ranges → rg.1 < rg.2) (h3 : ∀ i, InRanges ranges i ↔ i < len ∧ InLabels cfg labels i) :
    ranges.foldl (fun s r => max s r.2) 0 = (copiedRows cfg labels len).foldl (fun m r => max m (r + 1)) 0 := by
  obtain ⟨_, a2, a3⟩ := foldl_max_spec (fun r : Nat × Nat => r.2) ranges 0
  obtain ⟨_, b2, b3⟩ := foldl_max_spec (fun r : Nat => r + 1) (copiedRows cfg labels len) 0
  apply Nat.le_antisymm
  · rcases a3 with h | ⟨rg, hrg, h⟩
    · rw [h]; exact Nat.zero_le _
    · rw [h]
      have hlt := h2 rg hrg
      have hin : InRanges ranges (rg.2 - 1) := ⟨rg, hrg, by omega, by omega⟩
      have := b2 (rg.2 - 1) ((mem_copiedRows cfg labels len _).mpr ((h3 _).mp hin))
      omega
  · rcases b3 with h | ⟨r, hr, h⟩
    · rw [h]; exact Nat.zero_le _
    · rw [h]
      obtain ⟨rg, hrg, g1, g2⟩ := (h3 r).mpr ((mem_copiedRows cfg labels len r).mp hr)
      have := a2 rg hrg
      omega


/-! ## the copying loop -/

/-- `++(src.data_[rowSize_])` if the source row has data -/
def bump (cfg : Cfg) (m : Mem) : Option Nat → Mem
  | none => m
  | some p => setCell m p cfg.rowSize (cell m p cfg.rowSize + 1)

theorem copyRow_done (cfg : Cfg) (src : Cnt) (m1 : Mem) (d : Cnt) (done : List Nat) (i : Nat) (h : i ∈ done) :
    copyRow cfg src (m1, d, done) i = (m1, d, done) := by
  unfold copyRow
  simp [h]

theorem copyRow_new (cfg : Cfg) (src : Cnt) (m1 : Mem) (d : Cnt) (done : List Nat) (i : Nat) (h : i ∉ done)
    (hd : d.getD i default = default) :
    copyRow cfg src (m1, d, done) i = (bump cfg m1 (src.getD i default).data, d.set i (src.getD i default), i :: done) := by
  unfold copyRow
  simp only [List.contains_iff_mem, h, if_false, hd]
  cases hs : (src.getD i default).data with
  | none =>
    simp only [bump]
    have : (⟨(src.getD i default).master, (default : Row).data⟩ : Row) = src.getD i default := by
      rw [show (default : Row).data = none from rfl, ← hs]
    rw [this]
  | some p =>
    simp only [bump]
    have : (⟨(src.getD i default).master, some p⟩ : Row) = src.getD i default := by rw [← hs]
    rw [this]

theorem bump_next (cfg : Cfg) (m : Mem) (o : Option Nat) : (bump cfg m o).next = m.next := by cases o <;> rfl
theorem bump_free (cfg : Cfg) (m : Mem) (o : Option Nat) : (bump cfg m o).free = m.free := by cases o <;> rfl
theorem bump_len (cfg : Cfg) (m : Mem) (o : Option Nat) (p : Nat) :
    ((bump cfg m o).cells.get p).length = (m.cells.get p).length := by
  cases o with
  | none => rfl
  | some q => exact setCell_len _ _ _ _ _
theorem bump_col (cfg : Cfg) (m : Mem) (o : Option Nat) (p col : Nat) (h : col ≠ cfg.rowSize) :
    cell (bump cfg m o) p col = cell m p col := by
  cases o with
  | none => rfl
  | some q => exact cell_setCell_ne_col _ _ _ _ _ h
theorem bump_cnt (cfg : Cfg) (m : Mem) (o : Option Nat) (p : Nat)
    (hl : ∀ q, o = some q → cfg.rowSize < (m.cells.get q).length) :
    cell (bump cfg m o) p cfg.rowSize = cell m p cfg.rowSize + (if o = some p then 1 else 0) := by
  cases o with
  | none => simp [bump]
  | some q =>
    simp only [bump, Option.some.injEq]
    by_cases hqp : q = p
    · subst hqp; rw [if_pos rfl]; exact cell_setCell_same (hl q rfl)
    · rw [if_neg hqp, cell_setCell_ne_addr _ _ _ _ _ (fun e => hqp e.symm)]; rfl

/-- the effect of the copying loop over the row indices `is` from state `st` to state `st'` -/
structure CopyRel (cfg : Cfg) (src : Cnt) (sent : Nat) (is : List Nat) (st st' : Mem × Cnt × List Nat) : Prop where
  len : st'.2.1.length = st.2.1.length
  rows : ∀ i, i < sent → st'.2.1.getD i default = if i ∈ st.2.2 ∨ i ∈ is then src.getD i default else default
  next : st'.1.next = st.1.next
  free : st'.1.free = st.1.free
  clen : ∀ p, (st'.1.cells.get p).length = (st.1.cells.get p).length
  cols : ∀ p col, col ≠ cfg.rowSize → cell st'.1 p col = cell st.1 p col
  cnt : ∀ p, cell st'.1 p cfg.rowSize + rowRefs p st.2.1 = cell st.1 p cfg.rowSize + rowRefs p st'.2.1

theorem copyFold_spec (cfg : Cfg) (src : Cnt) (sent : Nat) : ∀ (is : List Nat) (m1 : Mem) (d : Cnt) (done : List Nat),
    d.length = sent →
    (∀ i, i < sent → d.getD i default = if i ∈ done then src.getD i default else default) →
    (∀ i, i ∈ is → i < sent) →
    (∀ i, i ∈ is → ∀ p, (src.getD i default).data = some p → cfg.rowSize < (m1.cells.get p).length) →
    CopyRel cfg src sent is (m1, d, done) (is.foldl (copyRow cfg src) (m1, d, done))
  | [], m1, d, done, _, hJ, _, _ => by
    refine ⟨rfl, ?_, rfl, rfl, fun _ => rfl, fun _ _ _ => rfl, fun _ => rfl⟩
    intro i hi
    simpa using hJ i hi
  | i :: rest, m1, d, done, hlen, hJ, hlt, hcl => by
    have hi : i < sent := hlt i (List.mem_cons_self ..)
    simp only [List.foldl_cons]
    by_cases hdone : i ∈ done
    · rw [copyRow_done cfg src m1 d done i hdone]
      have ih := copyFold_spec cfg src sent rest m1 d done hlen hJ (fun j hj => hlt j (List.mem_cons_of_mem _ hj))
        (fun j hj => hcl j (List.mem_cons_of_mem _ hj))
      refine ⟨ih.len, ?_, ih.next, ih.free, ih.clen, ih.cols, ih.cnt⟩
      intro j hj
      rw [ih.rows j hj]
      have : (j ∈ done ∨ j ∈ i :: rest) ↔ (j ∈ done ∨ j ∈ rest) := by
        simp only [List.mem_cons]
        constructor
        · rintro (h | h | h)
          · exact Or.inl h
          · subst h; exact Or.inl hdone
          · exact Or.inr h
        · rintro (h | h)
          · exact Or.inl h
          · exact Or.inr (Or.inr h)
      simp only [this]
    · have hdef : d.getD i default = default := by rw [hJ i hi, if_neg hdone]
      rw [copyRow_new cfg src m1 d done i hdone hdef]
      generalize hs : src.getD i default = s at *
      have hil : i < d.length := by omega
      have hget : d[i]? = some default := by
        rw [List.getD_eq_getElem?_getD, List.getElem?_eq_getElem hil] at hdef
        rw [List.getElem?_eq_getElem hil]; exact congrArg some hdef
      have ih := copyFold_spec cfg src sent rest (bump cfg m1 s.data) (d.set i s) (i :: done)
        (by rw [List.length_set]; exact hlen)
        (by
          intro j hj
          rw [getD_set]
          by_cases hji : j = i
          · subst hji; rw [if_pos ⟨rfl, hil⟩, if_pos (List.mem_cons_self ..), hs]
          · have : ¬ (j = i ∧ i < d.length) := fun h => hji h.1
            rw [if_neg this, hJ j hj]
            simp [hji])
        (fun j hj => hlt j (List.mem_cons_of_mem _ hj))
        (fun j hj p hp => by rw [bump_len]; exact hcl j (List.mem_cons_of_mem _ hj) p hp)
      have hrr : ∀ p, rowRefs p (d.set i s) = rowRefs p d + (if s.data = some p then 1 else 0) := by
        intro p
        have := rowRefs_set (p := p) (row' := s) hget
        simpa [show (default : Row).data = none from rfl] using this
      have hcl' : ∀ q, s.data = some q → cfg.rowSize < (m1.cells.get q).length := fun q hq =>
        hcl i (List.mem_cons_self ..) q (by rw [hs]; exact hq)
      refine ⟨?_, ?_, ?_, ?_, ?_, ?_, ?_⟩
      · rw [ih.len]; exact List.length_set ..
      · intro j hj
        rw [ih.rows j hj]
        have : (j ∈ i :: done ∨ j ∈ rest) ↔ (j ∈ done ∨ j ∈ i :: rest) := by
          simp only [List.mem_cons]
          constructor
          · rintro ((h | h) | h)
            · exact Or.inr (Or.inl h)
            · exact Or.inl h
            · exact Or.inr (Or.inr h)
          · rintro (h | h | h)
            · exact Or.inl (Or.inr h)
            · exact Or.inl (Or.inl h)
            · exact Or.inr h
        simp only [this]
      · rw [ih.next]; exact bump_next ..
      · rw [ih.free]; exact bump_free ..
      · intro p; rw [ih.clen]; exact bump_len ..
      · intro p col hcol; rw [ih.cols p col hcol]; exact bump_col _ _ _ _ _ hcol
      · intro p
        have h1 := ih.cnt p
        have h2 := bump_cnt cfg m1 s.data p hcl'
        have h3 := hrr p
        simp only at h1 ⊢
        omega


theorem mem_flat_ranges (ranges : List (Nat × Nat)) (i : Nat) :
    i ∈ ranges.flatMap (fun rg => List.range' rg.1 (rg.2 - rg.1)) ↔ InRanges ranges i := by
  simp only [List.mem_flatMap, List.mem_range'_1, InRanges]
  constructor
  · rintro ⟨rg, h1, h2, h3⟩; exact ⟨rg, h1, h2, by omega⟩
  · rintro ⟨rg, h1, h2, h3⟩; exact ⟨rg, h1, h2, by omega⟩

/-- what `copyLabels` on a counter without rows computes -/
theorem copyLabels_spec (cfg : Cfg) (m : Mem) (labels : List Nat) (src : Cnt)
    (hall : labels.all (· < cfg.labelMap.length) = true)
    (hcl : ∀ i, i < src.length → ∀ p, (src.getD i default).data = some p → cfg.rowSize < (m.cells.get p).length) :
    ∃ m' d', copyLabels cfg m [] labels src = some (m', d') ∧
      d'.length = (copiedRows cfg labels src.length).foldl (fun m r => max m (r + 1)) 0 ∧
      (∀ i, i < d'.length → d'.getD i default =
        if i ∈ copiedRows cfg labels src.length then src.getD i default else default) ∧
      m'.next = m.next ∧ m'.free = m.free ∧
      (∀ p, (m'.cells.get p).length = (m.cells.get p).length) ∧
      (∀ p col, col ≠ cfg.rowSize → cell m' p col = cell m p col) ∧
      (∀ p, cell m' p cfg.rowSize = cell m p cfg.rowSize + rowRefs p d') := by
  obtain ⟨ranges, h1, h2, h3⟩ := copyRanges_spec cfg src.length labels hall
  have hsent := sent_eq cfg labels src.length ranges h2 h3
  unfold copyLabels
  simp only [h1]
  rw [← List.foldl_flatMap]
  generalize hsn : ranges.foldl (fun s r => max s r.2) 0 = sent at *
  have hres : resize [] sent = List.replicate sent ⟨0, none⟩ := by simp [resize]
  rw [hres]
  obtain ⟨a1, a2, _⟩ := foldl_max_spec (fun r : Nat × Nat => r.2) ranges 0
  rw [hsn] at a2
  have hmem : ∀ i, i ∈ ranges.flatMap (fun rg => List.range' rg.1 (rg.2 - rg.1)) → i < sent ∧ i < src.length := by
    intro i hi
    have hin := (mem_flat_ranges ranges i).mp hi
    obtain ⟨rg, g1, g2, g3⟩ := hin
    have := a2 rg g1
    exact ⟨by omega, ((h3 i).mp ⟨rg, g1, g2, g3⟩).1⟩
  have hspec := copyFold_spec cfg src sent (ranges.flatMap (fun rg => List.range' rg.1 (rg.2 - rg.1))) m
    (List.replicate sent ⟨0, none⟩) [] (by simp)
    (by
      intro i hi
      simp only [List.not_mem_nil, if_false, List.getD_eq_getElem?_getD, List.getElem?_replicate, hi, if_true]
      rfl)
    (fun i hi => (hmem i hi).1)
    (fun i hi p hp => hcl i (hmem i hi).2 p hp)
  generalize (ranges.flatMap (fun rg => List.range' rg.1 (rg.2 - rg.1))).foldl (copyRow cfg src)
    (m, List.replicate sent ⟨0, none⟩, []) = st' at hspec
  have hl : st'.2.1.length = sent := by rw [hspec.len]; simp
  refine ⟨st'.1, st'.2.1, rfl, by rw [hl, ← hsent], ?_, hspec.next, hspec.free, hspec.clen, hspec.cols, ?_⟩
  · intro i hi
    rw [hl] at hi
    rw [hspec.rows i hi]
    have : (i ∈ ([] : List Nat) ∨ i ∈ ranges.flatMap (fun rg => List.range' rg.1 (rg.2 - rg.1))) ↔
        i ∈ copiedRows cfg labels src.length := by
      rw [mem_flat_ranges, mem_copiedRows, h3]; simp
    simp only [this]
  · intro p
    have := hspec.cnt p
    simp only [rowRefs_replicate_none] at this
    omega


/-! ## `copyLabels` preserves the invariant -/

/-- the value of `copyLabels` -/
abbrev copyA (cfg : Cfg) (labels : List Nat) (s : A) : A :=
  ⟨(copiedRows cfg labels s.rows).foldl (fun m r => max m (r + 1)) 0,
   (List.range ((copiedRows cfg labels s.rows).foldl (fun m r => max m (r + 1)) 0 * cfg.rowSize)).map
     (fun idx => if (copiedRows cfg labels s.rows).contains (idx / cfg.rowSize) then s.at idx else 0),
   .running⟩

theorem at_copyA (cfg : Cfg) (labels : List Nat) (s : A) (r col : Nat) (hr : r < (copyA cfg labels s).rows)
    (hcol : col < cfg.rowSize) :
    (copyA cfg labels s).at (r * cfg.rowSize + col) =
      if r ∈ copiedRows cfg labels s.rows then s.at (r * cfg.rowSize + col) else 0 := by
  have hlt : r * cfg.rowSize + col < (copyA cfg labels s).rows * cfg.rowSize := idx_lt hcol hr
  simp only [A.at] at hlt ⊢
  rw [List.getD_eq_getElem?_getD, List.getElem?_map, List.getElem?_range hlt]
  simp only [Option.map_some, Option.getD_some, idx_div hcol, List.contains_iff_mem]

theorem copyLabels_inv {cfg : Cfg} {m : Mem} {cs : List (Option Cnt)} {aw : AWorld} {i j : Nat} {d src : Cnt} {ad s : A}
    {labels : List Nat}
    (hinv : Inv cfg ⟨m, cs⟩ aw) (hij : i ≠ j) (hall : labels.all (· < cfg.labelMap.length) = true)
    (hd : cs.getD i none = some d) (had : aw.getD i none = some ad) (hphd : ad.phase = .fresh)
    (hsrc : cs.getD j none = some src) (has : aw.getD j none = some s) (hphs : s.phase = .running) :
    ∃ mc, copyLabels cfg m d labels src = some mc ∧
      Inv cfg ⟨mc.1, cs.set i (some mc.2)⟩ (aw.set i (some (copyA cfg labels s))) := by
  have holdd : CntInv cfg m cs d ad := hinv.cnt i d ad hd had
  have holds : CntInv cfg m cs src s := hinv.cnt j src s hsrc has
  have hd0 : d = [] := List.eq_nil_of_length_eq_zero (by rw [holdd.len]; exact holdd.fresh hphd)
  subst hd0
  have hsl : src.length = s.rows := holds.len
  have hgetD : ∀ r, r < src.length → src[r]? = some (src.getD r default) := by
    intro r hr
    rw [List.getD_eq_getElem?_getD, List.getElem?_eq_getElem hr]; rfl
  obtain ⟨m', d', e1, e2, e3, e4, e5, e6, e7, e8⟩ := copyLabels_spec cfg m labels src hall
    (fun r hr p hp => by
      have := ((holds.rows r _ (hgetD r hr)).data p hp).len
      omega)
  rw [hsl] at e2 e3
  refine ⟨(m', d'), e1, ?_⟩
  show Inv cfg ⟨m', cs.set i (some d')⟩ _
  have hrefs : ∀ x, refs x (cs.set i (some d')) = refs x cs + rowRefs x d' := by
    intro x
    have := refs_replace (p := x) (some d') hd
    simpa [crefs, rowRefs] using this
  -- a row of the copy with data comes from the source
  have hK : ∀ x, 0 < rowRefs x d' → ∃ (r : Nat) (row : Row), src[r]? = some row ∧ row.data = some x := by
    intro x hx
    obtain ⟨row, hm, hdx⟩ := rowRefs_pos_iff.mp hx
    obtain ⟨r, hr⟩ := List.getElem?_of_mem hm
    have hrl : r < d'.length := by
      apply Classical.byContradiction; intro hn
      rw [List.getElem?_eq_none (by omega)] at hr; cases hr
    have hrow : d'.getD r default = row := by
      rw [List.getD_eq_getElem?_getD, hr]; rfl
    rw [e3 r hrl] at hrow
    by_cases hmem : r ∈ copiedRows cfg labels s.rows
    · rw [if_pos hmem] at hrow
      have hrs : r < src.length := by rw [hsl]; exact ((mem_copiedRows cfg labels s.rows r).mp hmem).1
      exact ⟨r, row, by rw [hgetD r hrs, hrow], hdx⟩
    · rw [if_neg hmem] at hrow
      rw [← hrow] at hdx; cases hdx
  have hKpos : ∀ x, 0 < rowRefs x d' → 0 < rowRefs x src := by
    intro x hx
    obtain ⟨r, row, g1, g2⟩ := hK x hx
    exact rowRefs_pos_of_get g1 g2
  have hphs' : s.phase ≠ .filling := by rw [hphs]; intro h; cases h
  refine replace_cnt hinv hd (by simp) (by omega) ?_ ?_ (by rw [e5]; exact hinv.nodup) ?_
  · intro j' cj aj r' rowj p hji hcj haj hrj hdj
    refine ⟨⟨e6 p, fun col hcol => e7 p col (by omega)⟩, by rw [e8 p, hrefs p]; omega, ?_⟩
    intro hfill
    have h0 : rowRefs p d' = 0 := by
      apply Classical.byContradiction
      intro hne
      obtain ⟨r, row, g1, g2⟩ := hK p (by omega)
      have holdj : CntInv cfg m cs cj aj := hinv.cnt j' cj aj hcj haj
      have h1 := (((holdj.rows r' rowj hrj).data p hdj).fill hfill).1
      by_cases hjj : j' = j
      · subst hjj
        rw [has] at haj; cases haj
        rw [hphs] at hfill; cases hfill
      · have := refs_ge_two hsrc g1 g2 hcj hrj hdj (Or.inl (fun e => hjj e.symm))
        omega
    rw [hrefs p, h0]; rfl
  · intro c' a' hc' ha'
    cases hc'; cases ha'
    refine ⟨e2, by simp, (fun h => by cases h), ?_⟩
    intro r row' hr'
    have hrl : r < d'.length := by
      apply Classical.byContradiction; intro hn
      rw [List.getElem?_eq_none (by omega)] at hr'; cases hr'
    have hrow : d'.getD r default = row' := by
      rw [List.getD_eq_getElem?_getD, hr']; rfl
    rw [e3 r hrl] at hrow
    have hrn : r < (copyA cfg labels s).rows := by
      show r < List.foldl (fun m r => max m (r + 1)) 0 (copiedRows cfg labels s.rows)
      rw [← e2]; exact hrl
    by_cases hmem : r ∈ copiedRows cfg labels s.rows
    · rw [if_pos hmem] at hrow
      have hrs : r < src.length := by rw [hsl]; exact ((mem_copiedRows cfg labels s.rows r).mp hmem).1
      have hsr : src[r]? = some row' := by rw [hgetD r hrs, hrow]
      have hold := holds.rows r row' hsr
      rw [hphs] at hold
      have hold' : RowInv cfg m cs .running (fun col => (copyA cfg labels s).at (r * cfg.rowSize + col)) row' :=
        hold.congr (fun col hcol => by rw [at_copyA cfg labels s r col hrn hcol, if_pos hmem])
      refine hold'.frame (by omega) ?_
      intro p hp
      refine ⟨⟨e6 p, fun col hcol => e7 p col (by omega)⟩, Or.inr ⟨rfl, ?_⟩⟩
      have := (hold.data p hp).run rfl
      rw [e8 p, hrefs p, this]
    · rw [if_neg hmem] at hrow
      rw [← hrow]
      exact rowInv_default (fun col hcol => by rw [at_copyA cfg labels s r col hrn hcol, if_neg hmem])
  · intro x hx
    rw [e5] at hx
    have hf : x < m.next ∧ refs x cs = 0 := hinv.free x hx
    refine ⟨by rw [e4]; exact hf.1, ?_⟩
    rw [hrefs x]
    have : rowRefs x d' = 0 := by
      apply Classical.byContradiction
      intro hne
      have := (running_row_refs hinv hsrc has hphs' (hKpos x (by omega))).2.1
      have := hKpos x (by omega)
      omega
    omega

end P
end Vata.LU.SC
