import Vata.CounterRows
import Vata.Proofs.LtsUtilCA
import Vata.Proofs.LtsEngineCalls2SCRun2
/-!
# The counter rows: `getRowSize`, block bounds of every `SharedCounter` call, the wrongly sized allocator

Proofs for `Vata/CounterRows.lean`; user-facing statements in `Vata/Properties/C20_CounterRows.lean`.
-/
namespace Vata.CR
open Vata.L Vata.LU Vata.LEC2

/-! ### `getRowSize` -/

theorem sqrt_mono {m n : Nat} (h : m ≤ n) : Nat.sqrt m ≤ Nat.sqrt n := by
  apply SC.le_sqrt_of_sq_le
  have := Nat.sqrt_le m
  omega

/-- the doubling loop is monotone in the threshold -/
theorem go_mono {t t' : Nat} (h : t ≤ t') : ∀ (fuel r : Nat), SC.getRowSize.go t fuel r ≤ SC.getRowSize.go t' fuel r := by
  intro fuel
  induction fuel with
  | zero => intro r; exact Nat.le_refl _
  | succ f ih =>
    intro r
    simp only [SC.getRowSize.go]
    by_cases h1 : r ≤ t
    · have h2 : r ≤ t' := by omega
      rw [if_pos h1, if_pos h2]; exact ih _
    · rw [if_neg h1]
      split
      · exact Nat.le_trans (by omega) (getRowSize_go_ge t' f (r * 2))
      · exact Nat.le_refl _

/-- `getRowSize` is monotone -/
theorem getRowSize_mono {m n : Nat} (h : m ≤ n) : SC.getRowSize m ≤ SC.getRowSize n := by
  have h1 : Nat.sqrt m / 2 ≤ Nat.sqrt n / 2 := Nat.div_le_div_right (sqrt_mono h)
  have := go_mono h1 64 32
  unfold SC.getRowSize
  simp only
  omega

/-- the third band: 127 from 16384 states up to 65535 -/
theorem getRowSize_large {n : Nat} (h1 : 16384 ≤ n) (h2 : n < 65536) : SC.getRowSize n = 127 := by
  have h3 : Nat.sqrt n < 256 := SC.sqrt_lt_of_lt_sq (by omega)
  have h4 : 128 ≤ Nat.sqrt n := SC.le_sqrt_of_sq_le (by omega)
  have h5 : 32 ≤ Nat.sqrt n / 2 := by omega
  have h6 : 64 ≤ Nat.sqrt n / 2 := by omega
  have h7 : ¬ 128 ≤ Nat.sqrt n / 2 := by omega
  simp [SC.getRowSize, SC.getRowSize.go, h5, h6, h7]

/-- `getRowSize n` is at least 31, for every `n` -/
theorem getRowSize_ge_31 (n : Nat) : 31 ≤ SC.getRowSize n := by
  have := getRowSize_mono (Nat.zero_le n)
  rw [SC.getRowSize_small (n := 0) (by omega)] at this
  exact this

/-- the two sizes differ exactly from 4096 states on, when the other argument is below 4096 -/
theorem getRowSize_lt_iff {l n : Nat} (hl : l < 4096) : SC.getRowSize l < SC.getRowSize n ↔ 4096 ≤ n := by
  rw [SC.getRowSize_small hl]
  constructor
  · intro h
    apply Nat.le_of_not_lt
    intro hn
    rw [SC.getRowSize_small hn] at h
    omega
  · intro h
    have := getRowSize_mono h
    rw [SC.getRowSize_medium (n := 4096) (by omega) (by omega)] at this
    omega

/-! ### the cells of one call -/

theorem keyOf_eq_kx (cfg : SC.Cfg) (l q : Nat) : keyOf cfg l q = kx cfg l q := rfl

/-- with a block of `rowSize + 1` cells every access of every call is inside the block -/
theorem cellsOf_lt (cfg : SC.Cfg) (hrs : 0 < cfg.rowSize) (op : SC.Op) : ∀ j ∈ cellsOf cfg op, j < cfg.rowSize + 1 := by
  intro j hj
  cases op with
  | set i l q n =>
    simp only [cellsOf, List.mem_cons, List.mem_nil_iff, or_false] at hj
    rcases hj with h | h
    · have := Nat.mod_lt (keyOf cfg l q) hrs; omega
    · omega
  | decr i l q =>
    simp only [cellsOf, List.mem_append, List.mem_cons, List.mem_nil_iff, or_false, List.mem_range] at hj
    rcases hj with (h | h) | h
    · have := Nat.mod_lt (keyOf cfg l q) hrs; omega
    · omega
    · omega
  | init i => simp only [cellsOf, List.mem_cons, List.mem_nil_iff, or_false] at hj; omega
  | destroy i => simp only [cellsOf, List.mem_cons, List.mem_nil_iff, or_false] at hj; omega
  | copyLabels i k ls => simp only [cellsOf, List.mem_cons, List.mem_nil_iff, or_false] at hj; omega
  | new => simp [cellsOf] at hj
  | copyCtor i => simp [cellsOf] at hj
  | resize i n => simp [cellsOf] at hj

theorem opInBlock_of_le (c : Ctor) (cfg : SC.Cfg) (hrs : 0 < cfg.rowSize) (hc : cfg.rowSize + 1 ≤ c.allocSize) (op : SC.Op) :
    opInBlock c cfg op = true := by
  unfold opInBlock
  rw [List.all_eq_true]
  intro j hj
  have := cellsOf_lt cfg hrs op j hj
  exact decide_eq_true (by omega)

/-- the calls that touch a row block (all but the constructors and `resize`) -/
def touchesBlock : SC.Op → Bool
  | .set _ _ _ _ => true
  | .decr _ _ _ => true
  | .init _ => true
  | .destroy _ => true
  | .copyLabels _ _ _ => true
  | _ => false

/-- the reference-count cell `data_[rowSize_]` is among the accesses of every call that touches a block -/
theorem rowSize_mem_cellsOf (cfg : SC.Cfg) {op : SC.Op} (h : touchesBlock op = true) : cfg.rowSize ∈ cellsOf cfg op := by
  cases op <;> simp [touchesBlock] at h <;> simp [cellsOf]

/-- with a block of at most `rowSize` cells every call that touches a block has an access outside -/
theorem opInBlock_false (c : Ctor) (cfg : SC.Cfg) (hc : c.allocSize ≤ cfg.rowSize) {op : SC.Op}
    (h : touchesBlock op = true) : opInBlock c cfg op = false := by
  unfold opInBlock
  rw [List.all_eq_false]
  exact ⟨cfg.rowSize, rowSize_mem_cellsOf cfg h, by simp; omega⟩

theorem firstOverflow_none (c : Ctor) (cfg : SC.Cfg) : ∀ (ops : List SC.Op),
    (∀ op ∈ ops, opInBlock c cfg op = true) → firstOverflow c cfg ops = none
  | [], _ => rfl
  | op :: ops, h => by
    have h1 := h op (by simp)
    unfold opInBlock at h1
    rw [List.all_eq_true] at h1
    have : (cellsOf cfg op).find? (fun j => !decide (j < c.allocSize)) = none := by
      rw [List.find?_eq_none]
      intro j hj
      have := h1 j hj
      simp at this ⊢
      exact this
    unfold firstOverflow
    rw [this]
    exact firstOverflow_none c cfg ops (fun op' h' => h op' (by simp [h']))

theorem firstOverflow_some (c : Ctor) (cfg : SC.Cfg) : ∀ (ops : List SC.Op) {op : SC.Op},
    op ∈ ops → opInBlock c cfg op = false → ∃ op' j, firstOverflow c cfg ops = some (op', j) ∧ op' ∈ ops ∧
      j ∈ cellsOf cfg op' ∧ c.allocSize ≤ j
  | [], _, h, _ => by cases h
  | o :: ops, op, hmem, hf => by
    unfold firstOverflow
    cases hfind : (cellsOf cfg o).find? (fun j => !decide (j < c.allocSize)) with
    | some j =>
      have h1 := List.find?_some hfind
      have h2 := List.mem_of_find?_eq_some hfind
      simp at h1
      exact ⟨o, j, rfl, by simp, h2, h1⟩
    | none =>
      rw [List.find?_eq_none] at hfind
      rcases List.mem_cons.1 hmem with h | h
      · subst h
        unfold opInBlock at hf
        rw [List.all_eq_false] at hf
        obtain ⟨j, hj, hlt⟩ := hf
        have := hfind j hj
        simp at this hlt
        omega
      · obtain ⟨op', j, g1, g2, g3, g4⟩ := firstOverflow_some c cfg ops h hf
        exact ⟨op', j, g1, by simp [g2], g3, g4⟩

/-! ### the discipline at every call of a history -/

/-- every call of a history inside the discipline is inside the discipline in the table world reached before it -/
theorem ok_at_split {cfg : SC.Cfg} {pre post : List SC.Op} {op : SC.Op}
    (h : SC.okAll cfg [] (pre ++ op :: post) = true) :
    SC.okAll cfg [] pre = true ∧ SC.ok cfg (SC.aRun cfg [] pre).1 op = true := by
  rw [sc_okAll_append, sc_okAll_cons] at h
  simp only [Bool.and_eq_true] at h
  exact ⟨h.1, h.2.1⟩

/-- `set` / `decr` inside the discipline: the `key_` access is in range, the key is the one `locate` computes, and the row
index is below the number of rows of the counter object in the table world -/
theorem ok_key_row {cfg : SC.Cfg} {aw : SC.AWorld} {op : SC.Op} (hok : SC.ok cfg aw op = true) :
    (∀ x, keyCellOf cfg op = some x → x < cfg.key.length) ∧
    (∀ i r, rowIdxOf cfg op = some (i, r) → ∃ a, aw.getD i none = some a ∧ r < a.rows) := by
  cases op with
  | set i l q n =>
    simp only [SC.ok] at hok
    cases ha : aw.getD i none with
    | none => rw [ha] at hok; cases hok
    | some a =>
      rw [ha] at hok
      unfold SC.keyIdx at hok
      by_cases hk : l * cfg.states + q < cfg.key.length ∧ 0 < cfg.rowSize
      · rw [if_pos hk] at hok
        simp only [Bool.and_eq_true, decide_eq_true_eq] at hok
        refine ⟨fun x hx => ?_, fun i' r hr => ?_⟩
        · simp only [keyCellOf, Option.some.injEq] at hx; omega
        · simp only [rowIdxOf, Option.some.injEq, Prod.mk.injEq] at hr
          obtain ⟨rfl, rfl⟩ := hr
          refine ⟨a, ha, ?_⟩
          apply Nat.div_lt_of_lt_mul
          rw [Nat.mul_comm]; exact hok.1.2
      · rw [if_neg hk] at hok; cases hok
  | decr i l q =>
    simp only [SC.ok] at hok
    cases ha : aw.getD i none with
    | none => rw [ha] at hok; cases hok
    | some a =>
      rw [ha] at hok
      unfold SC.keyIdx at hok
      by_cases hk : l * cfg.states + q < cfg.key.length ∧ 0 < cfg.rowSize
      · rw [if_pos hk] at hok
        simp only [Bool.and_eq_true, decide_eq_true_eq] at hok
        refine ⟨fun x hx => ?_, fun i' r hr => ?_⟩
        · simp only [keyCellOf, Option.some.injEq] at hx; omega
        · simp only [rowIdxOf, Option.some.injEq, Prod.mk.injEq] at hr
          obtain ⟨rfl, rfl⟩ := hr
          refine ⟨a, ha, ?_⟩
          apply Nat.div_lt_of_lt_mul
          rw [Nat.mul_comm]; exact hok.1.2
      · rw [if_neg hk] at hok; cases hok
  | init i => exact ⟨fun x hx => by simp [keyCellOf] at hx, fun i r hr => by simp [rowIdxOf] at hr⟩
  | destroy i => exact ⟨fun x hx => by simp [keyCellOf] at hx, fun i r hr => by simp [rowIdxOf] at hr⟩
  | copyLabels i k ls => exact ⟨fun x hx => by simp [keyCellOf] at hx, fun i r hr => by simp [rowIdxOf] at hr⟩
  | new => exact ⟨fun x hx => by simp [keyCellOf] at hx, fun i r hr => by simp [rowIdxOf] at hr⟩
  | copyCtor i => exact ⟨fun x hx => by simp [keyCellOf] at hx, fun i r hr => by simp [rowIdxOf] at hr⟩
  | resize i n => exact ⟨fun x hx => by simp [keyCellOf] at hx, fun i r hr => by simp [rowIdxOf] at hr⟩

/-- in a world that satisfies the class invariant every block a live counter points to has exactly `rowSize + 1` cells and
was handed out by the allocator -/
theorem inv_block_len {cfg : SC.Cfg} {W : SC.World} {aw : SC.AWorld} (hinv : SC.Inv cfg W aw)
    {i : Nat} {c : SC.Cnt} {r : Nat} {row : SC.Row} {p : Nat}
    (hc : W.cnt i = some c) (hr : c[r]? = some row) (hp : row.data = some p) :
    (W.mem.cells.get p).length = cfg.rowSize + 1 ∧ p < W.mem.next := by
  obtain ⟨a, ha⟩ := hinv.live_some' (i := i) hc
  have h1 := (hinv.cnt i c a hc ha).rows r row hr
  exact ⟨(h1.data p hp).len, (h1.data p hp).lt⟩

/-- the number of rows of a live counter object is the number of rows of its table -/
theorem inv_cnt_len {cfg : SC.Cfg} {W : SC.World} {aw : SC.AWorld} (hinv : SC.Inv cfg W aw)
    {i : Nat} {a : SC.A} (ha : aw.getD i none = some a) : ∃ c, W.cnt i = some c ∧ c.length = a.rows := by
  obtain ⟨c, hc⟩ := hinv.live_some ha
  exact ⟨c, hc, (hinv.cnt i c a hc ha).len⟩

/-! ### the first accesses to a fresh block -/

theorem allocV_eq_alloc (cfg : SC.Cfg) (m : SC.Mem) : allocV (cfg.rowSize + 1) cfg.poison m = SC.alloc cfg m := by
  unfold allocV SC.alloc SC.poisonRow
  cases m.free <;> rfl

theorem allocV_len (asz poison : Nat) (m : SC.Mem) :
    ((allocV asz poison m).2.cells.get (allocV asz poison m).1).length = asz := by
  unfold allocV
  cases m.free <;> simp [Heap.get_set_same]

theorem setCell_len_same (m : SC.Mem) (p i v : Nat) :
    ((SC.setCell m p i v).cells.get p).length = (m.cells.get p).length := by
  simp [SC.setCell, Heap.get_set_same]

/-- as coded (`asz = rowSize_ + 1`) the two writes are inside the block and the result is that of `SC.set` -/
theorem setFreshB_asCoded (cfg : SC.Cfg) (m : SC.Mem) {col : Nat} (count : Nat) (hcol : col < cfg.rowSize) :
    setFreshB (cfg.rowSize + 1) cfg m col count =
      some ((SC.alloc cfg m).1, SC.setCell (SC.setCell (SC.alloc cfg m).2 (SC.alloc cfg m).1 cfg.rowSize 0) (SC.alloc cfg m).1 col count) := by
  have hl := allocV_len (cfg.rowSize + 1) cfg.poison m
  unfold setFreshB
  simp only
  rw [allocV_eq_alloc] at hl ⊢
  have h1 : setCellB (SC.alloc cfg m).2 (SC.alloc cfg m).1 cfg.rowSize 0 =
      some (SC.setCell (SC.alloc cfg m).2 (SC.alloc cfg m).1 cfg.rowSize 0) := by
    unfold setCellB; rw [if_pos (by omega)]
  rw [h1]
  simp only
  have h2 : setCellB (SC.setCell (SC.alloc cfg m).2 (SC.alloc cfg m).1 cfg.rowSize 0) (SC.alloc cfg m).1 col count =
      some (SC.setCell (SC.setCell (SC.alloc cfg m).2 (SC.alloc cfg m).1 cfg.rowSize 0) (SC.alloc cfg m).1 col count) := by
    unfold setCellB; rw [if_pos (by rw [setCell_len_same]; omega)]
  rw [h2]; rfl

/-- with an allocator of at most `rowSize_` cells the very first write to a fresh block, `row.data_[rowSize_] = 0`, is outside -/
theorem setFreshB_overflow (asz : Nat) (cfg : SC.Cfg) (m : SC.Mem) (col count : Nat) (h : asz ≤ cfg.rowSize) :
    setFreshB asz cfg m col count = none := by
  have hl := allocV_len asz cfg.poison m
  unfold setFreshB
  simp only
  have h1 : setCellB (allocV asz cfg.poison m).2 (allocV asz cfg.poison m).1 cfg.rowSize 0 = none := by
    unfold setCellB; rw [if_neg (by omega)]
  rw [h1]

/-! ### every call of a history inside the discipline, on the heap model -/

/-- all blocks referenced by live counters of `W` have exactly `n` cells and come from the allocator -/
def BlocksSized (W : SC.World) (n : Nat) : Prop :=
  ∀ (i : Nat) (c : SC.Cnt) (r : Nat) (row : SC.Row) (p : Nat), W.cnt i = some c → c[r]? = some row → row.data = some p →
    (W.mem.cells.get p).length = n ∧ p < W.mem.next

/-- one call `op` of a history, at the moment it is made: the class as coded is defined before and at the call, every block
access index is below `rowSize + 1`, the `key_` access and the `data_[rowIndex]` access are in range, and all blocks referenced
before and after the call have exactly `rowSize + 1` cells -/
theorem call_safe {cfg : SC.Cfg} (hrs : 0 < cfg.rowSize) {pre post : List SC.Op} {op : SC.Op}
    (h : SC.okAll cfg [] (pre ++ op :: post) = true) :
    ∃ W outs W' out, SC.run cfg SC.World.empty pre = some (W, outs) ∧ SC.step cfg W op = some (W', out) ∧
      (∀ j ∈ cellsOf cfg op, j < cfg.rowSize + 1) ∧
      (∀ x, keyCellOf cfg op = some x → x < cfg.key.length) ∧
      (∀ i r, rowIdxOf cfg op = some (i, r) → ∃ c, W.cnt i = some c ∧ r < c.length) ∧
      BlocksSized W (cfg.rowSize + 1) ∧ BlocksSized W' (cfg.rowSize + 1) := by
  obtain ⟨hpre, hop⟩ := ok_at_split h
  obtain ⟨W, hrun, hinv⟩ := SC.run_refines_empty pre hpre
  obtain ⟨W', out, hstep, hinv', _⟩ := SC.step_refines hinv hop
  refine ⟨W, _, W', out, hrun, hstep, cellsOf_lt cfg hrs op, (ok_key_row hop).1, ?_, ?_, ?_⟩
  · intro i r hr
    obtain ⟨a, ha, hlt⟩ := (ok_key_row hop).2 i r hr
    obtain ⟨c, hc, hlen⟩ := inv_cnt_len hinv ha
    exact ⟨c, hc, by omega⟩
  · intro i c r row p hc hr hp; exact inv_block_len hinv hc hr hp
  · intro i c r row p hc hr hp; exact inv_block_len hinv' hc hr hp

end Vata.CR
