import Vata.TrimCodedSeeds
import Vata.Proofs.TrimCodedResult
/-!
# Proofs about the seeded variants of `RemoveUselessStates` (`Vata/TrimCodedSeeds.lean`)

(a) `uselessLeafOnce_eq`: when no state has two leaf rules the guard of the moved line is never false on a leaf
transition, so variant (a) IS the coded function (equal automata, not only equivalent ones).
-/
namespace Vata.TrimCoded
open Vata

/-- `noTwoLeafB` in index form -/
theorem noTwoLeafB_spec {A : TA} (h : noTwoLeafB A = true) {i j : Nat} {r r' : Rule}
    (hi : A.rules[i]? = some r) (hj : A.rules[j]? = some r') (hk : r.kids = []) (hk' : r'.kids = [])
    (hp : r.parent = r'.parent) : i = j := by
  have hil : i < A.rules.length := (List.getElem?_eq_some_iff.mp hi).1
  have hjl : j < A.rules.length := (List.getElem?_eq_some_iff.mp hj).1
  unfold noTwoLeafB at h
  rw [List.all_eq_true] at h
  have h1 := h i (List.mem_range.mpr hil)
  rw [List.all_eq_true] at h1
  have h2 := h1 j (List.mem_range.mpr hjl)
  rw [hi, hj] at h2
  simp only [hk, hk', hp, List.isEmpty_nil, Bool.and_self, beq_self_eq_true, Bool.not_true, Bool.false_or,
    beq_iff_eq] at h2
  exact h2

/-- after `k` steps of the first loop `reachableStates` holds only parents of leaf transitions among the first `k` -/
theorem initLoop_reach_src (A : TA) : ∀ (k q : Nat), q ∈ (initLoop A k).reach →
    ∃ j r, A.rules[j]? = some r ∧ j < k ∧ r.kids = [] ∧ r.parent = q
  | 0, q, hq => by
    unfold initLoop at hq
    exact absurd hq List.not_mem_nil
  | k+1, q, hq => by
    unfold initLoop at hq
    cases hr : A.rules[k]? with
    | none =>
      rw [hr] at hq
      obtain ⟨j, r, h1, h2, h3⟩ := initLoop_reach_src A k q hq
      exact ⟨j, r, h1, by omega, h3⟩
    | some r =>
      rw [hr] at hq
      simp only at hq
      unfold initStep at hq
      by_cases hleaf : r.kids.isEmpty = true
      · rw [if_pos hleaf] at hq
        rcases (mem_pushState_reach _ _ _).mp hq with hq | hq
        · obtain ⟨j, r', h1, h2, h3⟩ := initLoop_reach_src A k q hq
          exact ⟨j, r', h1, by omega, h3⟩
        · exact ⟨k, r, hr, by omega, List.isEmpty_iff.mp hleaf, hq.symm⟩
      · rw [if_neg hleaf, registerKids_eq] at hq
        obtain ⟨j, r', h1, h2, h3⟩ := initLoop_reach_src A k q hq
        exact ⟨j, r', h1, by omega, h3⟩

/-- without two leaf rules of one state the first loops coincide -/
theorem initLoopLeafOnce_eq {A : TA} (h : noTwoLeafB A = true) : ∀ k, initLoopLeafOnce A k = initLoop A k
  | 0 => rfl
  | k+1 => by
    unfold initLoopLeafOnce initLoop
    rw [initLoopLeafOnce_eq h k]
    cases hr : A.rules[k]? with
    | none => rfl
    | some r =>
      simp only
      unfold initStepLeafOnce initStep
      by_cases hleaf : r.kids.isEmpty = true
      · rw [if_pos hleaf, if_pos hleaf]
        by_cases hc : (initLoop A k).reach.contains r.parent = true
        · obtain ⟨j, r', h1, h2, h3, h4⟩ := initLoop_reach_src A k r.parent (List.contains_iff_mem.mp hc)
          have := noTwoLeafB_spec h h1 hr h3 (List.isEmpty_iff.mp hleaf) h4
          omega
        · rw [if_neg hc]
      · rw [if_neg hleaf, if_neg hleaf]

/-- variant (a) is the coded function on every automaton in which no state has two leaf rules -/
theorem uselessLeafOnce_eq {A : TA} (h : noTwoLeafB A = true) : uselessLeafOnce A = uselessCoded A := by
  unfold uselessLeafOnce uselessCoded uselessWith finalStLeafOnce finalSt
  rw [initLoopLeafOnce_eq h]

end Vata.TrimCoded

namespace Vata.TrimCoded
open Vata

/-! ### (b): the parameter `dec` influences nothing but the counter -/

/-- the state with another value of `remaining` -/
def St.setRem (σ : St) (m : Nat) : St := { σ with remaining := m }

theorem pushState_setRem (σ : St) (m q : Nat) : (σ.setRem m).pushState q = (σ.pushState q).setRem m := by
  unfold St.pushState St.setRem
  simp only
  split <;> rfl

theorem innerStep_setRem (dec : Rule → Nat) (s : Nat) (σ : St) (m j : Nat) :
    ∃ m', innerStep dec s (σ.setRem m) j = (innerStep decOne s σ j).setRem m' := by
  unfold innerStep
  have : (σ.setRem m).infos = σ.infos := rfl
  rw [this]
  cases hi : σ.infos[j]? with
  | none => exact ⟨m, rfl⟩
  | some info =>
    simp only
    by_cases hf : (info.reachedBy s).2 = true
    · rw [if_pos hf, if_pos hf]
      exact ⟨m - dec info.rule, pushState_setRem
        { σ with infos := σ.infos.set j (info.reachedBy s).1, rtrans := σ.rtrans ++ [j],
                 remaining := σ.remaining - decOne info.rule } (m - dec info.rule) info.rule.parent⟩
    · rw [if_neg hf, if_neg hf]
      exact ⟨m, rfl⟩

theorem foldl_innerStep_setRem (dec : Rule → Nat) (s : Nat) : ∀ (v : List Nat) (σ : St) (m : Nat),
    ∃ m', v.foldl (innerStep dec s) (σ.setRem m) = (v.foldl (innerStep decOne s) σ).setRem m'
  | [], σ, m => ⟨m, rfl⟩
  | j :: v, σ, m => by
    obtain ⟨m1, h1⟩ := innerStep_setRem dec s σ m j
    rw [List.foldl_cons, List.foldl_cons, h1]
    exact foldl_innerStep_setRem dec s v _ m1

theorem mainLoop_setRem (dec : Rule → Nat) : ∀ (f : Nat) (σ : St) (m : Nat),
    ∃ m', mainLoop dec f (σ.setRem m) = (mainLoop decOne f σ).setRem m'
  | 0, σ, m => ⟨m, rfl⟩
  | f+1, σ, m => by
    unfold mainLoop
    have hw : (σ.setRem m).work = σ.work := rfl
    have hs : (σ.setRem m).smap = σ.smap := rfl
    rw [hw, hs]
    cases hwk : σ.work with
    | nil => exact ⟨m, rfl⟩
    | cons s w =>
      simp only
      cases hl : σ.smap.lookup s with
      | none => exact mainLoop_setRem dec f { σ with work := w } m
      | some v =>
        simp only
        obtain ⟨m1, h1⟩ := foldl_innerStep_setRem dec s v { σ with work := w } m
        show ∃ m', mainLoop dec f (List.foldl (innerStep dec s) (({ σ with work := w } : St).setRem m) v) =
          (mainLoop decOne f (List.foldl (innerStep decOne s) ({ σ with work := w } : St) v)).setRem m'
        rw [h1]
        exact mainLoop_setRem dec f _ m1

/-- whatever is subtracted from `remaining`: the sets, the fired transitions and the work-list are those of the code
as written, only the counter differs -/
theorem finalSt_setRem (dec : Rule → Nat) (A : TA) : ∃ m, finalSt dec A = (finalSt decOne A).setRem m := by
  unfold finalSt
  have : initLoop A A.rules.length = (initLoop A A.rules.length).setRem (initLoop A A.rules.length).remaining := rfl
  rw [this]
  exact mainLoop_setRem dec _ _ _

end Vata.TrimCoded
