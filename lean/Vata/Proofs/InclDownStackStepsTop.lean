import Vata.Proofs.InclDownStackStepsMain
/-!
# An explicit bound on the transitions of the stack machine of `expand` (property C01)

* `stepT a b l g fuel` : the bound for one simulated call of nesting depth `fuel` (`a` = a bound on the arities, `b` on the
  number of rhs tuples, `l` on the lhs tuples of a symbol, `g` on the symbols of a cluster); `expandN_reach_n` : the
  induction on the fuel of the recursive model, with `a = maxAr A`, `b = |B.rules|`, `l = g = |A.rules|`;
* `expandStack_of_expandN_n`, `runS_of_runN_n`, `inclDownNonrecStack_of_rec_n` : `expand`, `checkInternal` and the certified
  wrapper return the answer of the recursive model for EVERY bound `k ≥ stepT … fuel + 2`;
* `frameFactor`, `stepT_closed` : `stepT a b l g fuel + 3 ≤ 3 * frameFactor a b l g ^ fuel` (each frame multiplies the cost
  of a call by at most `frameFactor`);
* `stepBound A B = 3 * frameFactor (maxAr A) |B.rules| |A.rules| |A.rules| ^ (fuelBoundD A B + 1)`.
-/
namespace Vata
namespace InclDownStack
open InclDown
open InclUp (normS Wit)

/-- the bound for one simulated call (`_call` … `EXPAND_RETURN`) of nesting depth `fuel`: the push, the loop over the
symbols, `EXPAND_POP_RETURN` -/
def stepT (a b l g : Nat) : Nat → Nat
  | 0 => 0
  | f+1 => costBody a b l g (stepT a b l g f) + 2

/-- the maximal arity of a rule -/
def maxAr (A : TA) : Nat := A.rules.foldr (fun r m => max r.kids.length m) 0

theorem le_foldr_max {rs : List Rule} {r : Rule} (h : r ∈ rs) :
    r.kids.length ≤ rs.foldr (fun r m => max r.kids.length m) 0 := by
  induction rs with
  | nil => cases h
  | cons x rs ih =>
    simp only [List.foldr_cons]
    rcases List.mem_cons.mp h with rfl | h
    · exact Nat.le_max_left _ _
    · exact Nat.le_trans (ih h) (Nat.le_max_right _ _)

theorem le_maxAr {A : TA} {r : Rule} (h : r ∈ A.rules) : r.kids.length ≤ maxAr A := le_foldr_max h

theorem dedup_length_le {α : Type} [BEq α] : ∀ (l : List α), (dedup l).length ≤ l.length
  | [] => Nat.le_refl _
  | x :: l => by
    simp only [dedup, List.length_cons]
    have := List.length_filter_le (fun y => !(y == x)) (dedup l)
    have := dedup_length_le l
    omega

theorem rhsTuples_length_le (B : TA) (P : List Nat) (f n : Nat) : (rhsTuples B P f n).length ≤ B.rules.length := by
  unfold rhsTuples rulesOf
  refine Nat.le_trans (dedup_length_le _) ?_
  rw [List.length_map]
  exact List.length_filter_le _ _

theorem lhsTuples_length_le (A : TA) (p f n : Nat) : (lhsTuples A p f n).length ≤ A.rules.length := by
  unfold lhsTuples
  refine Nat.le_trans (dedup_length_le _) ?_
  rw [List.length_map]
  exact List.length_filter_le _ _

theorem lhsGroups_length_le (A : TA) (p : Nat) : (lhsGroups A p).length ≤ A.rules.length := by
  unfold lhsGroups
  refine Nat.le_trans (dedup_length_le _) ?_
  rw [List.length_map]
  exact List.length_filter_le _ _

theorem lhsGroups_arity_le {A : TA} {p : Nat} {g : Nat × Nat} (h : g ∈ lhsGroups A p) : g.2 ≤ maxAr A := by
  obtain ⟨ρ, hρ, _, _, hk⟩ := mem_lhsGroups.mp h
  rw [← hk]; exact le_maxAr hρ

theorem costBody_mono_g {a b l g g' : Nat} (t : Nat) (h : g ≤ g') : costBody a b l g t ≤ costBody a b l g' t := by
  unfold costBody
  have := Nat.mul_le_mul_right (l * (costTupleB a b t + 1) + 2) h
  omega

section
variable {o : Ord} {A B : TA} {wit : Wit}

/-! ### the call: induction on the fuel of the recursive model -/

theorem expandN_reach_n : ∀ (fuel : Nat) (ws : List Pair),
    CallOKN o A B wit (stepT (maxAr A) B.rules.length A.rules.length A.rules.length fuel)
      (expandN o A B wit fuel ws) ws
  | 0, ws => by
    intro cc st q Q v cc' st' h
    simp [expandN] at h
  | fuel+1, ws => by
    intro cc st q Q v cc' st' h
    have hT : stepT (maxAr A) B.rules.length A.rules.length A.rules.length (fuel + 1)
        = costBody (maxAr A) B.rules.length A.rules.length A.rules.length
            (stepT (maxAr A) B.rules.length A.rules.length A.rules.length fuel) + 2 := rfl
    have h1le : 1 ≤ stepT (maxAr A) B.rules.length A.rules.length A.rules.length (fuel + 1) := by
      rw [hT]; omega
    simp only [expandN] at h
    split at h
    · next hpre =>
      simp only [Option.some.injEq, Prod.mk.injEq] at h
      obtain ⟨rfl, rfl, rfl⟩ := h
      exact ⟨rfl, fun top K k f0 => (ReachN.step (by simp [stepM, hpre])).mono h1le⟩
    · next hpre =>
      split at h
      · next hcov =>
        simp only [Option.some.injEq, Prod.mk.injEq] at h
        obtain ⟨rfl, rfl, rfl⟩ := h
        exact ⟨rfl, fun top K k f0 => (ReachN.step (by simp [stepM, hpre, hcov])).mono h1le⟩
      · next hcov =>
        split at h
        · next x hni =>
          simp only [Option.some.injEq, Prod.mk.injEq] at h
          obtain ⟨rfl, rfl, rfl⟩ := h
          exact ⟨rfl, fun top K k f0 => (ReachN.step (by simp [stepM, hpre, hcov, hni])).mono h1le⟩
        · next hni =>
          have H := expandN_reach_n fuel ((q, Q) :: ws)
          have s1 : ∀ (top : Frame) (K : List Frame) (k : Nat) (f0 : Verdict),
              stepM o A B wit popAll ⟨.call, top, K, ws, st, q, Q, k, f0⟩
              = .inl ⟨.forA,
                  { top with p_S := q, P_B := Q, retAddr := k, childrenCache := [], a := lhsGroups A q, trues0 := st.trues },
                  top :: K, (q, Q) :: ws, st, q, Q, k, f0⟩ := by
            intro top K k f0
            simp [stepM, hpre, hcov, hni]
          have hcb := costBody_mono_g (a := maxAr A) (b := B.rules.length) (l := A.rules.length)
            (stepT (maxAr A) B.rules.length A.rules.length A.rules.length fuel) (lhsGroups_length_le A q)
          simp only [body] at h
          split at h
          · cases h
          · next cc1 st1 hb =>
            simp only [Option.some.injEq, Prod.mk.injEq] at h
            obtain ⟨rfl, rfl, rfl⟩ := h
            refine ⟨rfl, fun top K k f0 => ?_⟩
            obtain ⟨top', r', S', ra', hK, hR⟩ := reach_body_n H (top :: K) q Q
              (rhsTuples_length_le B Q) (lhsTuples_length_le A q) (lhsGroups A q) (fun g hg => lhsGroups_arity_le hg)
              { top with p_S := q, P_B := Q, retAddr := k, childrenCache := [], a := lhsGroups A q, trues0 := st.trues }
              rfl rfl rfl st .holds cc1 st1 q Q k f0 hb
            obtain ⟨hk1, hk2, hk3, hk4⟩ := hK
            have s2 : stepM o A B wit popAll ⟨.popReturn, top', top :: K, (q, Q) :: ws, st1, r', S', ra', .holds⟩
                = .inl ⟨.ret, top, K, ws, ⟨st1.nonIncl, addTrue st1.trues (q, Q)⟩, q, Q, k, .holds⟩ := by
              simp only [stepM, popAll, List.tail_cons]
              rw [hk1, hk2, hk3]
            exact (ReachN.head (s1 top K k f0) (hR.trans (ReachN.step s2))).mono (by rw [hT]; omega)
          · next w cc1 st1 hb =>
            simp only [Option.some.injEq, Prod.mk.injEq] at h
            obtain ⟨rfl, rfl, rfl⟩ := h
            refine ⟨rfl, fun top K k f0 => ?_⟩
            obtain ⟨top', r', S', ra', hK, hR⟩ := reach_body_n H (top :: K) q Q
              (rhsTuples_length_le B Q) (lhsTuples_length_le A q) (lhsGroups A q) (fun g hg => lhsGroups_arity_le hg)
              { top with p_S := q, P_B := Q, retAddr := k, childrenCache := [], a := lhsGroups A q, trues0 := st.trues }
              rfl rfl rfl st (.fails w) cc1 st1 q Q k f0 hb
            obtain ⟨hk1, hk2, hk3, hk4⟩ := hK
            have s2 : stepM o A B wit popAll ⟨.popReturn, top', top :: K, (q, Q) :: ws, st1, r', S', ra', .fails w⟩
                = .inl ⟨.ret, top, K, ws, ⟨st1.nonIncl, st.trues⟩, q, Q, k, .fails w⟩ := by
              simp only [stepM, popAll, List.tail_cons]
              rw [hk1, hk2, hk3, hk4]
            exact (ReachN.head (s1 top K k f0) (hR.trans (ReachN.step s2))).mono (by rw [hT]; omega)

/-- the bound for one call of `expand` from `checkInternal` when the recursive model needs the nesting depth `fuel`:
the call itself, `EXPAND_RETURN` with `retAddr = 0`, `_end` -/
def stepsOf (A B : TA) (fuel : Nat) : Nat := stepT (maxAr A) B.rules.length A.rules.length A.rules.length fuel + 2

theorem expandStack_of_expandN_n {fuel : Nat} {cc : List Pair} {st : St} {p : Nat} {P : List Nat} {v : Verdict}
    {cc' : List Pair} {st' : St} (h : expandN o A B wit fuel [] cc st p P = some (v, cc', st')) :
    ∀ k, stepsOf A B fuel ≤ k → expandStack o A B wit popAll k st p P = some (v, st') := by
  obtain ⟨_, hr⟩ := expandN_reach_n (o := o) (A := A) (B := B) (wit := wit) fuel [] cc st p P v cc' st' h
  obtain ⟨n, hle, hn⟩ := hr Frame.init [] 0 (.fails (.node 0 []))
  have h2 : runM o A B wit popAll 2 ⟨.ret, Frame.init, [], [], st', p, P, 0, v⟩ = some (v, st') := by
    simp [runM, stepM]
  exact fun k hk => runM_mono (runM_of_steps n hn h2) (by unfold stepsOf at hk; omega)

theorem rootLoopS_of_rootLoopN_n {fuel : Nat} {FB : List Nat} {k : Nat} (hk : stepsOf A B fuel ≤ k) :
    ∀ (fs : List Nat) (st : St) (r : Except Tree St), rootLoopN o A B wit fuel FB fs st = some r →
      rootLoopS o A B wit popAll k FB fs st = some r
  | [], st, r, h => by simpa [rootLoopS, rootLoopN] using h
  | f :: fs, st, r, h => by
    simp only [rootLoopN] at h
    split at h
    · cases h
    · next cc1 st1 heq =>
      simp only [rootLoopS]
      rw [expandStack_of_expandN_n heq k hk]
      exact rootLoopS_of_rootLoopN_n hk fs st1 r h
    · next w cc1 st1 heq =>
      simp only [rootLoopS]
      rw [expandStack_of_expandN_n heq k hk]
      exact h

end

theorem runS_of_runN_n {o : Ord} {A B : TA} {fuel : Nat} {r : Except Tree (List Pair)}
    (h : runN o A B fuel = some r) {k : Nat} (hk : stepsOf A B fuel ≤ k) : runS o A B popAll k = some r := by
  unfold runN at h
  split at h
  · cases h
  · next st heq => unfold runS; rw [rootLoopS_of_rootLoopN_n hk _ _ _ heq]; exact h
  · next w heq => unfold runS; rw [rootLoopS_of_rootLoopN_n hk _ _ _ heq]; exact h

/-! ### the closed form -/

theorem le_mul_add {u x y p q : Nat} (hx : x ≤ u * p) (hy : y ≤ u * q) : x + y ≤ u * (p + q) := by
  rw [Nat.mul_add]; omega

theorem le_mul_scale {u x p : Nat} (c : Nat) (hx : x ≤ u * p) : c * x ≤ u * (c * p) := by
  rw [Nat.mul_left_comm]; exact Nat.mul_le_mul_left c hx

theorem le_mul_scale_r {u x p : Nat} (c : Nat) (hx : x ≤ u * p) : x * c ≤ u * (p * c) := by
  rw [← Nat.mul_assoc]; exact Nat.mul_le_mul_right c hx

/-- the factor by which one more level of nesting multiplies (the bound on) the cost of a call:
`g` symbols × `l` lhs tuples × (`b` rhs tuples × `a + 1` for phase 1 + `(a + 1) ^ b` choice functions × `a + 1` positions) -/
def frameFactor (a b l g : Nat) : Nat := g * (l * (b * (a + 1) + (a + 1) * (a + 1) ^ b + 2) + 1) + 2

theorem costBody_le (a b l g t : Nat) : costBody a b l g t + 5 ≤ (t + 3) * frameFactor a b l g := by
  have h0 : a * (t + 3) + 3 ≤ (t + 3) * (a + 1) := by
    rw [Nat.mul_add (t + 3) a 1, Nat.mul_one, Nat.mul_comm (t + 3) a]; omega
  have h1 := le_mul_add (le_mul_add (le_mul_scale b h0) (le_mul_scale_r ((a + 1) ^ b) h0))
    (show 4 ≤ (t + 3) * 2 by omega)
  have h1' : b * (a * (t + 3) + 3) + (a * (t + 3) + 3) * (a + 1) ^ b + 3 + 1
      ≤ (t + 3) * (b * (a + 1) + (a + 1) * (a + 1) ^ b + 2) := by omega
  have h2 := le_mul_add (le_mul_scale l h1') (show 2 ≤ (t + 3) * 1 by omega)
  have h3 := le_mul_add (le_mul_scale g h2) (show 6 ≤ (t + 3) * 2 by omega)
  unfold costBody costTupleB frameFactor
  omega

theorem stepT_succ_le (a b l g f : Nat) :
    stepT a b l g (f + 1) + 3 ≤ (stepT a b l g f + 3) * frameFactor a b l g := by
  have e : stepT a b l g (f + 1) = costBody a b l g (stepT a b l g f) + 2 := rfl
  have := costBody_le a b l g (stepT a b l g f)
  omega

theorem stepT_closed (a b l g : Nat) : ∀ f, stepT a b l g f + 3 ≤ 3 * frameFactor a b l g ^ f
  | 0 => by simp [stepT]
  | f+1 => by
    have ih := stepT_closed a b l g f
    have h1 := stepT_succ_le a b l g f
    have h2 := Nat.mul_le_mul_right (frameFactor a b l g) ih
    rw [Nat.pow_succ, ← Nat.mul_assoc]
    exact Nat.le_trans h1 h2

end InclDownStack

open InclDown InclDownStack

/-- **the explicit bound** on the number of transitions of one call of `expand` from `checkInternal` -/
def stepBound (A B : TA) : Nat :=
  3 * frameFactor (maxAr A) B.rules.length A.rules.length A.rules.length ^ (fuelBoundD A B + 1)

theorem stepsOf_le_stepBound (A B : TA) : stepsOf A B (fuelBoundD A B + 1) ≤ stepBound A B := by
  have := stepT_closed (maxAr A) B.rules.length A.rules.length A.rules.length (fuelBoundD A B + 1)
  unfold stepsOf stepBound
  omega

theorem inclDownNonrecStack_of_rec_n {A B : TA} {fuel : Nat} {r : Bool × InclUp.Cert}
    (h : inclDownNonrec A B fuel = some r) {k : Nat} (hk : stepsOf A B fuel ≤ k) :
    inclDownNonrecStack A B k = some r := by
  unfold inclDownNonrec at h
  cases hrun : runN idOrd A B fuel with
  | none => rw [hrun] at h; simp [finish] at h
  | some res =>
    unfold inclDownNonrecStack
    rw [runS_of_runN_n hrun hk, ← hrun]
    exact h

end Vata
