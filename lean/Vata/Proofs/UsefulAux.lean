import Vata.Proofs.RunBridge
import Vata.Proofs.TrimModel
import Vata.Proofs.Sanitize
/-!
# Completeness of the post-condition checkers `allReachableB` / `allUsefulB` (property C03)

`Vata/Proofs/TrimModel.lean` proves the checkers sound.  Here the converse: a state that takes part in an accepting run
(`UsefulState`, the L0 notion on explicit run objects) is productive and reachable top-down from a final state, hence
(`San.allUsefulB_complete`) the Boolean check answers `true` on every automaton all of whose occurring states are useful.
-/
namespace Vata
namespace UsefulAux

mutual
/-- every state of a valid run whose root is top-down reachable is productive and top-down reachable -/
theorem run_states_good (A : TA) : ∀ ρ : RunT, ρ.valid A = true → TdReachable A ρ.root →
    ∀ q, ρ.hasState q = true → Productive A q ∧ TdReachable A q
  | .node r ks => by
    intro hv hroot q hq
    have hv' := hv
    simp only [RunT.valid, Bool.and_eq_true, List.contains_iff_mem] at hv'
    simp only [RunT.hasState, Bool.or_eq_true, beq_iff_eq] at hq
    rcases hq with hq | hq
    · have hp : Productive A (RunT.node r ks).root := ⟨_, reach_of_run A (.node r ks) hv⟩
      have hq' : (RunT.node r ks).root = q := hq
      rw [← hq']
      exact ⟨hp, hroot⟩
    · exact runs_states_good A ks r.kids hv'.2
        (fun k hk => TdReachable.step hv'.1 hroot hk) q hq
/-- … for the sub-runs below the children `ks` of a rule -/
theorem runs_states_good (A : TA) : ∀ (ρs : List RunT) (ks : List Nat), RunT.validL A ρs ks = true →
    (∀ k, k ∈ ks → TdReachable A k) → ∀ q, RunT.hasStateL q ρs = true → Productive A q ∧ TdReachable A q
  | [], _ => by
    intro _ _ q hq
    simp [RunT.hasStateL] at hq
  | _ :: _, [] => by
    intro hv
    simp [RunT.validL] at hv
  | ρ :: ρs, k :: ks => by
    intro hv hks q hq
    simp only [RunT.validL, Bool.and_eq_true, beq_iff_eq] at hv
    simp only [RunT.hasStateL, Bool.or_eq_true] at hq
    rcases hq with hq | hq
    · exact run_states_good A ρ hv.1.2 (hv.1.1 ▸ hks k List.mem_cons_self) q hq
    · exact runs_states_good A ρs ks hv.2 (fun k' hk' => hks k' (List.mem_cons_of_mem _ hk')) q hq
end

/-- a state that takes part in an accepting run is productive and reachable top-down from a final state -/
theorem usefulState_good {A : TA} {q : Nat} (h : UsefulState A q) : Productive A q ∧ TdReachable A q := by
  obtain ⟨ρ, ⟨hv, hf⟩, hq⟩ := h
  exact run_states_good A ρ hv (TdReachable.final hf) q hq

/-- completeness of `allReachableB` -/
theorem allReachableB_complete {A : TA} (h : ∀ q, Occurs A q → TdReachable A q) : allReachableB A = true := by
  simp only [allReachableB, List.all_eq_true, List.contains_iff_mem]
  intro q hq
  exact (tdReach_iff A q).mpr (h q (mem_states.mp hq))

/-- completeness of `allUsefulB` with respect to the L0 notion: usefulness of the occurring states suffices -/
theorem allUsefulB_complete {A : TA} (h : ∀ q, Occurs A q → UsefulState A q) : allUsefulB A = true :=
  San.allUsefulB_complete (fun q hq => usefulState_good (h q hq))

/-- the two checkers decide the post-conditions -/
theorem allUsefulB_iff (A : TA) : allUsefulB A = true ↔ ∀ q, Occurs A q → UsefulState A q :=
  ⟨fun h => (allUsefulB_sound A h).1, allUsefulB_complete⟩

theorem allReachableB_iff (A : TA) : allReachableB A = true ↔ ∀ q, Occurs A q → TdReachable A q :=
  ⟨allReachableB_sound A, allReachableB_complete⟩

/-- useful states make the rules useful as well (the second conjunct of the post-condition is implied by the first) -/
theorem usefulRule_of_states {A : TA} (h : ∀ q, Occurs A q → UsefulState A q) : ∀ r, r ∈ A.rules → UsefulRule A r :=
  (allUsefulB_sound A (allUsefulB_complete h)).2

/-! ### non-vacuity -/

-- the hypothesis holds on a trimmed automaton with a binary rule, and fails on the untrimmed one
example : ∀ q, Occurs (removeUseless TrimEx.exA) q → UsefulState (removeUseless TrimEx.exA) q :=
  removeUseless_post_state TrimEx.exA
example : allUsefulB (removeUseless TrimEx.exA) = true := allUsefulB_complete (removeUseless_post_state TrimEx.exA)
example : ¬ ∀ q, Occurs TrimEx.exA q → UsefulState TrimEx.exA q :=
  fun h => absurd (allUsefulB_complete h) (by decide)
example : ¬ UsefulState TrimEx.exA 4 := fun h =>
  absurd ((tdReach_iff _ _).mpr (usefulState_good h).2) (by decide)

end UsefulAux
end Vata
