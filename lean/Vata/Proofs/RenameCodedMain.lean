import Vata.Proofs.RenameCodedEv
import Vata.Proofs.GlueTransl
import Vata.Proofs.Rename
/-!
# C14 as coded – part 3: the assembled statements (see `Vata/Properties/C14_Coded.lean`)
-/
namespace Vata.RenameCoded
open Vata.Store

/-- what a (possibly interrupted) `ReindexStates(dst, …)` leaves in `d`: the images of a prefix `fpre` of the final states (if
they were asked for) and of a prefix `rpre` of the rules in iteration order; everything when nothing was thrown -/
structure Left (h : Nat → Nat) (src dst : Store) (af : Bool) (thrown : Option Nat) (d : Store) : Prop where
  ex : ∃ fpre fsuf rpre rsuf, (if af then src.final else []) = fpre ++ fsuf ∧ iterate src = rpre ++ rsuf ∧
    (thrown = none → fsuf = [] ∧ rsuf = []) ∧ (fsuf ≠ [] → rpre = []) ∧
    (∀ x, contains d x = true ↔ contains dst x = true ∨ ∃ r, r ∈ rpre ∧ x = mapRule h r) ∧
    (∀ q, q ∈ d.final ↔ q ∈ dst.final ∨ ∃ p, p ∈ fpre ∧ q = h p)
  winv : WInv dst → WInv d

theorem store_eta (s : Store) : (⟨s.clusters, s.final⟩ : Store) = s := rfl

theorem reindexInto_opt (g : Nat → Option Nat) (src dst : Store) (af : Bool) :
    Left (gd g) src dst af (reindexInto (optT g) src dst () af).thrown (reindexInto (optT g) src dst () af).dst := by
  -- the shape: finals prefix, then an event prefix
  have key : ∃ fpre fsuf pre suf, (if af then src.final else []) = fpre ++ fsuf ∧
      clusterEvs (gd g) src.clusters = pre ++ suf ∧
      ((reindexInto (optT g) src dst () af).thrown = none → fsuf = [] ∧ suf = []) ∧ (fsuf ≠ [] → pre = []) ∧
      (reindexInto (optT g) src dst () af).dst = pre.foldl stepEv (setFinals dst (fpre.map (gd g))) := by
    cases af with
    | false =>
      obtain ⟨pre, suf, e1, e2, e3⟩ := clustersLoop_ev g src.clusters dst
      refine ⟨[], [], pre, suf, rfl, e1, ?_, fun h => absurd rfl h, ?_⟩
      · intro h
        exact ⟨rfl, e2 (by simpa [reindexInto] using h)⟩
      · simpa [reindexInto, setFinals] using e3
    | true =>
      obtain ⟨hc, fpre, fsuf, f1, f2, f3⟩ := finalsLoop_opt g src.final dst
      have hd : (finalsLoop (optT g) src.final dst ()).dst = setFinals dst (fpre.map (gd g)) := by
        rw [← store_eta (finalsLoop (optT g) src.final dst ()).dst, hc, f3]
        rfl
      cases hr : (finalsLoop (optT g) src.final dst ()).thrown with
      | some k =>
        refine ⟨fpre, fsuf, [], _, f1, rfl, ?_, fun _ => rfl, ?_⟩
        · intro h; simp [reindexInto, hr] at h
        · simp only [reindexInto, if_true, hr, List.foldl_nil]; exact hd
      | none =>
        have := f2 hr
        subst this
        obtain ⟨pre, suf, e1, e2, e3⟩ := clustersLoop_ev g src.clusters (finalsLoop (optT g) src.final dst ()).dst
        refine ⟨fpre, [], pre, suf, f1, e1, ?_, fun h => absurd rfl h, ?_⟩
        · intro h
          refine ⟨rfl, e2 ?_⟩
          simpa [reindexInto, hr] using h
        · simp only [reindexInto, if_true, hr]
          rw [e3, hd]
  obtain ⟨fpre, fsuf, pre, suf, k1, k2, k3, k4, k5⟩ := key
  have hrules : (iterate src).map (mapRule (gd g)) = rulesOf pre ++ rulesOf suf := by
    rw [← rulesOf_append, ← k2, rulesOf_clusterEvs (gd g) src.clusters src.final]
  obtain ⟨rpre, rsuf, r1, r2, r3⟩ := List.map_eq_append_iff.mp hrules
  refine ⟨⟨fpre, fsuf, rpre, rsuf, k1, r1, ?_, ?_, ?_, ?_⟩, ?_⟩
  · intro h
    obtain ⟨h1, h2⟩ := k3 h
    refine ⟨h1, ?_⟩
    subst h2
    simp only [rulesOf, List.filterMap_nil, List.map_eq_nil_iff] at r3
    exact r3
  · intro h
    have := k4 h
    subst this
    simp only [rulesOf, List.filterMap_nil, List.map_eq_nil_iff] at r2
    exact r2
  · intro x
    rw [k5, contains_foldl_stepEv, ← r2]
    simp only [List.mem_map]
    constructor
    · rintro (h | ⟨r, hr, e⟩)
      · exact Or.inl h
      · exact Or.inr ⟨r, hr, e.symm⟩
    · rintro (h | ⟨r, hr, e⟩)
      · exact Or.inl h
      · exact Or.inr ⟨r, hr, e.symm⟩
  · intro q
    rw [k5, final_foldl_stepEv]
    simp only [setFinals, mem_foldl_insN, List.mem_map]
    constructor
    · rintro (h | ⟨p, hp, e⟩)
      · exact Or.inl h
      · exact Or.inr ⟨p, hp, e.symm⟩
    · rintro (h | ⟨p, hp, e⟩)
      · exact Or.inl h
      · exact Or.inr ⟨p, hp, e.symm⟩
  · intro hw
    rw [k5]
    exact winv_foldl_stepEv pre (winv_setFinals hw (fpre.map (gd g)) _ rfl rfl)

/-- any lawful translator object: the run leaves the images under the FINAL container of the translator -/
theorem reindexInto_lawful {σ : Type} {T : Transl σ} {view : σ → Nat → Option Nat} (L : Lawful T view)
    (src dst : Store) (st : σ) (af : Bool) :
    Left (gd (view (reindexInto T src dst st af).tr)) src dst af (reindexInto T src dst st af).thrown
      (reindexInto T src dst st af).dst := by
  have h := reindexInto_gen L src dst st af
  have hk : ∀ k, (reindexInto T src dst st af).thrown = some k → view (reindexInto T src dst st af).tr k = none := by
    intro k hk
    have e1 : (appSeq T (lookupOrder src af) st).1 = some k := by rw [← h.1]; exact hk
    have e2 : (appSeq T (lookupOrder src af) st).2 = (reindexInto T src dst st af).tr := by rw [← h.1]
    have := (appSeq_thrown _ _ _ e1).2
    rw [e2] at this
    exact L.miss _ _ this
  have hrep := h.2 (view (reindexInto T src dst st af).tr) (Le.refl _) hk
  have := reindexInto_opt (view (reindexInto T src dst st af).tr) src dst af
  rw [hrep] at this
  exact this

/-! ### strict -/

theorem appSeq_strict (m : List (Nat × Nat)) : ∀ (ks : List Nat),
    appSeq strictT ks m = (ks.find? (fun k => (m.lookup k).isNone), m)
  | [] => rfl
  | k :: ks => by
    simp only [appSeq, List.find?_cons]
    cases h : m.lookup k with
    | none => simp [strictT, Glue.strict, h]
    | some v =>
      have : strictT.app m k = some (v, m) := by simp [strictT, Glue.strict, h]
      rw [this]
      simp only [Option.isNone_some]
      exact appSeq_strict m ks

/-! ### weak -/

theorem lawful_weakT (f : Glue.Alloc) : Lawful (weakT f) (fun st q => st.map.lookup q) := by
  refine ⟨?_, ?_, ?_⟩
  · intro st q q' st' h
    rw [weakT_app] at h
    simp only [Option.some.injEq, Prod.mk.injEq] at h
    rw [← h.1, ← h.2]
    exact Glue.weakMap_lookup_self _ _ _
  · intro st q q' st' h x y hx
    rw [weakT_app] at h
    simp only [Option.some.injEq, Prod.mk.injEq] at h
    rw [← h.2]
    exact Glue.weakMap_ext _ _ _ hx
  · intro st q h
    rw [weakT_app] at h
    cases h

theorem appSeq_weak_none (f : Glue.Alloc) : ∀ (ks : List Nat) (st : WeakSt), (appSeq (weakT f) ks st).1 = none
  | [], _ => rfl
  | k :: ks, st => by
    simp only [appSeq, weakT_app]
    exact appSeq_weak_none f ks _

/-- the map is injective and every value is below the counter -/
def WeakOk (st : WeakSt) : Prop := Glue.InjMap st.map ∧ ∀ x y, st.map.lookup x = some y → y < st.cnt

theorem weakOk_step (st : WeakSt) (q q' : Nat) (st' : WeakSt) (h : WeakOk st)
    (ha : (weakT .counter).app st q = some (q', st')) : WeakOk st' := by
  rw [weakT_app] at ha
  simp only [Option.some.injEq, Prod.mk.injEq] at ha
  obtain ⟨_, e⟩ := ha
  subst e
  simp only [Glue.Alloc.run]
  constructor
  · apply Glue.weakMap_inj h.1
    intro _ x hx
    exact Nat.lt_irrefl _ (h.2 x _ hx)
  · intro x y hxy
    show y < if (st.map.lookup q).isSome then st.cnt else st.cnt + 1
    rcases Glue.weakMap_keys _ _ _ hxy with h1 | ⟨_, hn, ey⟩
    · have := h.2 x y h1
      split <;> omega
    · rw [hn]
      simp only [Option.isSome_none, Bool.false_eq_true, if_false]
      omega

/-! ### an inverse of a map that is injective on the states -/

/-- the inverse of `h` on the image of the states of `A` (0 elsewhere) -/
def invOn (h : Nat → Nat) (A : TA) (y : Nat) : Nat := (A.states.find? (fun q => h q == y)).getD 0

theorem invOn_apply {h : Nat → Nat} {A : TA} (hinj : InjOnStates h A) {q : Nat} (hq : q ∈ A.states) :
    invOn h A (h q) = q := by
  unfold invOn
  cases hf : A.states.find? (fun q' => h q' == h q) with
  | none =>
    have := List.find?_eq_none.mp hf q hq
    simp at this
  | some q' =>
    have h1 := List.find?_some hf
    have h2 := List.mem_of_find?_eq_some hf
    simp only [beq_iff_eq] at h1
    exact hinj q' q h2 hq h1

theorem reindex_invOn {h : Nat → Nat} {A : TA} (hinj : InjOnStates h A) :
    (reindex (invOn h A) (reindex h A)).rules = A.rules ∧ (reindex (invOn h A) (reindex h A)).final = A.final := by
  constructor
  · simp only [reindex, List.map_map]
    conv => rhs; rw [← List.map_id A.rules]
    apply List.map_congr_left
    intro r hr
    simp only [Function.comp, mapRule, List.map_map, id]
    have hp := invOn_apply hinj (Rn.parent_mem_states hr)
    have hk : r.kids.map (invOn h A ∘ h) = r.kids := by
      conv => rhs; rw [← List.map_id r.kids]
      apply List.map_congr_left
      intro k hk
      exact invOn_apply hinj (Rn.kid_mem_states hr hk)
    cases r
    simp_all
  · simp only [reindex, List.map_map]
    conv => rhs; rw [← List.map_id A.final]
    apply List.map_congr_left
    intro q hq
    exact invOn_apply hinj (Rn.final_mem_states hq)

/-! ### `TranslateSymbols` -/

theorem symLoop_opt (g : Nat → Option Nat) : ∀ (rs : List Rule) (dst : Store),
    ∃ pre suf, rs = pre ++ suf ∧ ((symLoop (optT g) rs dst ()).thrown = none → suf = []) ∧
      (symLoop (optT g) rs dst ()).dst = (pre.map (mapSym (gd g))).foldl addTransition dst
  | [], dst => ⟨[], [], rfl, fun _ => rfl, rfl⟩
  | r :: rs, dst => by
    cases hg : g r.sym with
    | none =>
      have ha : (optT g).app () r.sym = none := by simp [optT, hg]
      simp only [symLoop, ha]
      exact ⟨[], r :: rs, rfl, (fun h => by cases h), rfl⟩
    | some f' =>
      have ha : (optT g).app () r.sym = some (f', ()) := by simp [optT, hg]
      obtain ⟨pre, suf, e1, e2, e3⟩ := symLoop_opt g rs (addTransition dst ⟨f', r.kids, r.parent⟩)
      simp only [symLoop, ha]
      refine ⟨r :: pre, suf, by rw [e1]; rfl, e2, ?_⟩
      rw [e3]
      simp [mapSym, gd, hg]

theorem inv_foldl_add {s : Store} (h : Inv s) : ∀ (rs : List Rule), Inv (rs.foldl addTransition s) := by
  intro rs
  induction rs generalizing s with
  | nil => exact h
  | cons r rs ih => exact ih (inv_addTransition h r)

theorem mem_iterate_foldl_add {s : Store} (h : Inv s) (x : Rule) : ∀ (rs : List Rule),
    x ∈ iterate (rs.foldl addTransition s) ↔ x ∈ iterate s ∨ x ∈ rs := by
  intro rs
  induction rs generalizing s with
  | nil => simp
  | cons r rs ih =>
    rw [List.foldl_cons, ih (inv_addTransition h r), mem_iterate_addTransition h, List.mem_cons, or_assoc]

theorem inv_noTrans (fin : List Nat) (h : fin.Nodup) : Inv ⟨[], fin⟩ :=
  ⟨keysNodup_nil, (by intro qc hqc; cases hqc), h⟩

/-! ### the keys that are looked up are the states of the automaton -/

theorem mem_mapKeys {s : Store} (h : Inv s) (k : Nat) :
    k ∈ mapKeys s.clusters ↔ ∃ r, r ∈ iterate s ∧ (k = r.parent ∨ k ∈ r.kids) := by
  simp only [mapKeys, clusterKeys, List.mem_flatMap, List.mem_cons, List.mem_flatten]
  constructor
  · rintro ⟨qc, hqc, hk | ⟨ft, hft, t, ht, hkt⟩⟩
    · have hc := h.clusters qc hqc
      obtain ⟨q, c⟩ := qc
      cases hcc : c with
      | nil => exact absurd hcc hc.nonempty
      | cons ft c' =>
        obtain ⟨f, ts⟩ := ft
        have hft : (f, ts) ∈ c := by rw [hcc]; exact List.mem_cons_self
        cases hts : ts with
        | nil => exact absurd hts (hc.tuples _ hft).1
        | cons t ts' =>
          have ht : t ∈ ts := by rw [hts]; exact List.mem_cons_self
          exact ⟨⟨f, t, q⟩, mem_iterate.mpr ⟨c, hqc, ts, hft, ht⟩, Or.inl hk⟩
    · obtain ⟨q, c⟩ := qc
      obtain ⟨f, ts⟩ := ft
      exact ⟨⟨f, t, q⟩, mem_iterate.mpr ⟨c, hqc, ts, hft, ht⟩, Or.inr hkt⟩
  · rintro ⟨r, hr, hk⟩
    obtain ⟨c, hc, ts, hts, ht⟩ := mem_iterate.mp hr
    refine ⟨(r.parent, c), hc, ?_⟩
    rcases hk with hk | hk
    · exact Or.inl hk
    · exact Or.inr ⟨(r.sym, ts), hts, r.kids, ht, hk⟩

theorem mem_lookupOrder {s : Store} (h : Inv s) (k : Nat) : k ∈ lookupOrder s true ↔ k ∈ usedStates s := by
  rw [mem_usedStates, lookupOrder, List.mem_append, mem_mapKeys h]
  simp

/-! ### small facts used by the property file -/

theorem appSeq_total_none (h : Nat → Nat) : ∀ (ks : List Nat), (appSeq (totalT h) ks ()).1 = none
  | [] => rfl
  | _ :: ks => by
    simp only [appSeq, totalT]
    exact appSeq_total_none h ks

/-- after a sequence of calls without exception every key of the sequence has a translation -/
theorem appSeq_hit {σ : Type} {T : Transl σ} {view : σ → Nat → Option Nat} (L : Lawful T view) :
    ∀ (ks : List Nat) (st : σ), (appSeq T ks st).1 = none → ∀ k, k ∈ ks → view (appSeq T ks st).2 k ≠ none
  | [], _, _, k, hk => by cases hk
  | x :: ks, st, h, k, hk => by
    simp only [appSeq] at h ⊢
    cases ha : T.app st x with
    | none => rw [ha] at h; cases h
    | some p =>
      obtain ⟨x', st'⟩ := p
      rw [ha] at h
      simp only at h ⊢
      rcases List.mem_cons.mp hk with e | hk'
      · subst e
        have := appSeq_le L ks st' _ _ (L.hit st k x' st' ha)
        rw [this]
        simp
      · exact appSeq_hit L ks st' h k hk'

theorem mapRule_invOn {h : Nat → Nat} {A : TA} (hinj : InjOnStates h A) {r : Rule} (hr : r ∈ A.rules) :
    mapRule (invOn h A) (mapRule h r) = r := by
  have hp := invOn_apply hinj (Rn.parent_mem_states hr)
  have hk : (r.kids.map h).map (invOn h A) = r.kids := by
    rw [List.map_map]
    conv => rhs; rw [← List.map_id r.kids]
    apply List.map_congr_left
    intro k hk
    exact invOn_apply hinj (Rn.kid_mem_states hr hk)
  cases r
  simp only [mapRule] at hp hk ⊢
  rw [hp, hk]

end Vata.RenameCoded
