import Vata.Proofs.CowHeapFA
/-!
# Copy-on-write of the explicit finite automaton core – refinement of the value semantics
(proofs for `Vata/CowHeapFA.lean`, second part)

`fa_refines_values : InvFA H → absFA (step H op) = specStep (absFA H) op ∧ InvFA (step H op)`,
`fa_history_isolation`, `fa_history_inv`, `fa_no_garbage`, `specStep_other`, `untouched_keeps_value`.
-/
namespace Vata.CowHeapFA

open Vata.Store (Cluster upsert insTuple addToCluster addToMap)
open Vata.CowHeap (Heap upd upd_same upd_other uniqueMap mout valM Val InvP Inv MapUnique abs)
open Vata.CowHeapX (missing upd_upd_same upd_self)

/-- the reference-count invariant of the shared part (the three value members need none) -/
def InvFA (H : HeapFA) : Prop := Inv H.core

theorem invFA_init : InvFA initFA := CowHeap.inv_init

theorem invBFA_iff (H : HeapFA) : invBFA H = true ↔ InvFA H := CowHeap.invB_iff H.core

variable {H : HeapFA}

theorem absFA_eq (H : HeapFA) (x : Nat) : absFA H x = (abs H.core x).map (fun t => ⟨H.mem x, t⟩) := by
  by_cases hx : x ∈ H.core.hl <;> simp [absFA, valOf, abs, hx]

theorem absFA_of_mem {x : Nat} (hx : x ∈ H.core.hl) : absFA H x = some (valOf H x) := by simp [absFA, hx]
theorem absFA_of_not_mem {x : Nat} (hx : x ∉ H.core.hl) : absFA H x = none := by simp [absFA, hx]
theorem absFA_isSome {x : Nat} : (absFA H x).isSome = true ↔ x ∈ H.core.hl := by
  by_cases hx : x ∈ H.core.hl <;> simp [absFA, hx]
theorem absFA_isNone {x : Nat} : (absFA H x).isNone = true ↔ x ∉ H.core.hl := by
  by_cases hx : x ∈ H.core.hl <;> simp [absFA, hx]

theorem absFA_init : absFA initFA = specInit := by
  funext x
  simp [absFA, initFA, CowHeap.init, specInit]

theorem absFA_upd_some {core' : Heap} {d : Nat} {t : Val} (m : Members)
    (hc : abs core' = upd (abs H.core) d (some t)) :
    absFA ⟨core', upd H.mem d m⟩ = upd (absFA H) d (some ⟨m, t⟩) := by
  funext x
  rw [absFA_eq]
  show (abs core' x).map (fun t => (⟨upd H.mem d m x, t⟩ : FAVal)) = _
  rw [hc]
  by_cases e : x = d
  · subst e; simp only [upd_same, Option.map_some]
  · rw [upd_other _ _ e, upd_other _ _ e, upd_other _ _ e, absFA_eq]

theorem absFA_upd_none {core' : Heap} {d : Nat} (hc : abs core' = upd (abs H.core) d none) :
    absFA ⟨core', H.mem⟩ = upd (absFA H) d none := by
  funext x
  rw [absFA_eq]
  show (abs core' x).map (fun t => (⟨H.mem x, t⟩ : FAVal)) = _
  rw [hc]
  by_cases e : x = d
  · subst e; simp only [upd_same, Option.map_none]
  · rw [upd_other _ _ e, upd_other _ _ e, absFA_eq]

/-! ### the two shapes of operations -/

theorem mut1_refines (hI : InvFA H) (h : Nat) (coreF : Heap → Heap) (f : FAVal → FAVal)
    (hc : h ∈ H.core.hl →
      Inv (coreF H.core) ∧ abs (coreF H.core) = upd (abs H.core) h (some (f (valOf H h)).trans)) :
    absFA (mut1 H h coreF f) = spec1 (absFA H) h f ∧ InvFA (mut1 H h coreF f) := by
  unfold mut1 spec1
  by_cases hh : h ∈ H.core.hl
  · obtain ⟨h1, h2⟩ := hc hh
    rw [if_pos hh, absFA_of_mem hh]
    exact ⟨absFA_upd_some _ h2, h1⟩
  · rw [if_neg hh, absFA_of_not_mem hh]
    exact ⟨rfl, hI⟩

theorem res1_refines (hI : InvFA H) (src dst : Nat) (coreF : Heap → Heap) (f : FAVal → FAVal)
    (hc : src ∈ H.core.hl → dst ∉ H.core.hl →
      Inv (coreF H.core) ∧ abs (coreF H.core) = upd (abs H.core) dst (some (f (valOf H src)).trans)) :
    absFA (res1 H src dst coreF f) = specRes (absFA H) src dst f ∧ InvFA (res1 H src dst coreF f) := by
  unfold res1 specRes
  by_cases hs : src ∈ H.core.hl
  · rw [absFA_of_mem hs]
    simp only
    by_cases hd : dst ∈ H.core.hl
    · rw [if_neg (fun h => h.2 hd), if_neg (by rw [absFA_of_mem hd]; simp)]
      exact ⟨rfl, hI⟩
    · obtain ⟨h1, h2⟩ := hc hs hd
      rw [if_pos ⟨hs, hd⟩, if_pos (absFA_isNone.mpr hd)]
      exact ⟨absFA_upd_some _ h2, h1⟩
  · rw [if_neg (fun h => hs h.1), absFA_of_not_mem hs]
    exact ⟨rfl, hI⟩

theorem core_same {h : Nat} (hh : h ∈ H.core.hl) :
    Inv H.core → Inv H.core ∧ abs H.core = upd (abs H.core) h (some (valOf H h).trans) :=
  fun hI => ⟨hI, (CowHeap.upd_abs_self hh).symm⟩

/-! ### the operations that are not sequences of operations -/

/-- not `useless` / `candidate` -/
def base : Op → Bool
  | .useless _ _ => false
  | .candidate _ _ => false
  | _ => true

theorem stepB_copy (hI : InvFA H) (src dst : Nat) :
    absFA (res1 H src dst (fun c => CowHeap.step c (.copy src dst)) id) = specRes (absFA H) src dst id ∧
      InvFA (res1 H src dst (fun c => CowHeap.step c (.copy src dst)) id) :=
  res1_refines hI src dst _ id (fun hs hd => step_copy_live hI hs hd)

theorem stepB_assign (hI : InvFA H) (src dst : Nat) :
    absFA (stepB H (.assign src dst)) = specStep (absFA H) (.assign src dst) ∧ InvFA (stepB H (.assign src dst)) := by
  simp only [stepB, specStep]
  by_cases hs : src ∈ H.core.hl
  · rw [absFA_of_mem hs]
    simp only
    by_cases hc : dst ∈ H.core.hl ∧ src ≠ dst
    · obtain ⟨h1, h2⟩ := CowHeap.cow_refines_values hI (.assign src dst)
      simp only [CowHeap.specStep] at h1
      rw [if_pos ⟨CowHeap.abs_isSome.mpr hs, CowHeap.abs_isSome.mpr hc.1, hc.2⟩, CowHeap.abs_of_mem hs] at h1
      rw [if_pos ⟨hs, hc⟩, if_pos ⟨absFA_isSome.mpr hc.1, hc.2⟩]
      exact ⟨absFA_upd_some _ h1, h2⟩
    · rw [if_neg (fun h => hc h.2), if_neg (fun h => hc ⟨absFA_isSome.mp h.1, h.2⟩)]
      exact ⟨rfl, hI⟩
  · rw [if_neg (fun h => hs h.1), absFA_of_not_mem hs]
    exact ⟨rfl, hI⟩

theorem stepB_reindex (hI : InvFA H) (src dst : Nat) (idx : Nat → Nat) :
    absFA (stepB H (.reindex src dst idx)) = specStep (absFA H) (.reindex src dst idx) ∧
      InvFA (stepB H (.reindex src dst idx)) := by
  simp only [stepB, specStep]
  by_cases hs : src ∈ H.core.hl
  · by_cases hd : dst ∈ H.core.hl
    · rw [absFA_of_mem hs, absFA_of_mem hd]
      simp only
      by_cases hne : src ≠ dst
      · rw [if_pos ⟨hs, hd, hne⟩, if_pos hne]
        obtain ⟨h1, h2⟩ := reindexCore_spec hI hd idx (valOf H src).trans
        exact ⟨absFA_upd_some _ h2, h1⟩
      · rw [if_neg (fun h => hne h.2.2), if_neg hne]
        exact ⟨rfl, hI⟩
    · rw [if_neg (fun h => hd h.2.1), absFA_of_not_mem hd]
      refine ⟨?_, hI⟩
      cases absFA H src <;> rfl
  · rw [if_neg (fun h => hs h.1), absFA_of_not_mem hs]
    exact ⟨rfl, hI⟩

theorem stepB_unionDisj (hI : InvFA H) (a b dst : Nat) :
    absFA (stepB H (.unionDisj a b dst)) = specStep (absFA H) (.unionDisj a b dst) ∧
      InvFA (stepB H (.unionDisj a b dst)) := by
  simp only [stepB, specStep]
  by_cases ha : a ∈ H.core.hl
  · by_cases hb : b ∈ H.core.hl
    · rw [absFA_of_mem ha, absFA_of_mem hb]
      simp only
      by_cases hd : dst ∈ H.core.hl
      · rw [if_neg (fun h => h.2.2 hd), if_neg (by rw [absFA_of_mem hd]; simp)]
        exact ⟨rfl, hI⟩
      · rw [if_pos ⟨ha, hb, hd⟩, if_pos (absFA_isNone.mpr hd)]
        obtain ⟨h1, h2⟩ := unionDisjCore_spec hI ha hb hd
        exact ⟨absFA_upd_some _ h2, h1⟩
    · rw [if_neg (fun h => hb h.2.1), absFA_of_not_mem hb]
      refine ⟨?_, hI⟩
      cases absFA H a <;> rfl
  · rw [if_neg (fun h => ha h.1), absFA_of_not_mem ha]
    exact ⟨rfl, hI⟩

theorem stepB_refines (hI : InvFA H) (op : Op) (hb : base op = true) :
    absFA (stepB H op) = specStep (absFA H) op ∧ InvFA (stepB H op) := by
  cases op with
  | new h =>
    simp only [stepB, specStep]
    by_cases hh : h ∈ H.core.hl
    · have e : CowHeap.step H.core (.new h) = H.core := by simp only [CowHeap.step]; rw [if_pos hh]
      rw [e, if_pos hh, if_pos (absFA_isSome.mpr hh)]
      exact ⟨rfl, hI⟩
    · obtain ⟨h1, h2, _, _⟩ := step_new_dead hI hh
      rw [if_neg hh, if_neg (fun hs => hh (absFA_isSome.mp hs))]
      exact ⟨absFA_upd_some _ h2, h1⟩
  | copy src dst => exact stepB_copy hI src dst
  | moveCtor src dst => exact stepB_copy hI src dst
  | assign src dst => exact stepB_assign hI src dst
  | moveAssign src dst => exact stepB_assign hI src dst
  | setFinal h q => exact mut1_refines hI h id _ (fun hh => core_same hh hI)
  | setStart h q a => exact mut1_refines hI h id _ (fun hh => core_same hh hI)
  | setExistingStart h q S => exact mut1_refines hI h id _ (fun hh => core_same hh hI)
  | add h l a r =>
    exact mut1_refines hI h _ _ (fun hh => ⟨(addCore_spec hI hh l a r).1.inv, (addCore_spec hI hh l a r).2⟩)
  | destroy h =>
    obtain ⟨h1, h2⟩ := CowHeap.cow_refines_values hI (.destroy h)
    exact ⟨absFA_upd_none h1, h2⟩
  | reindex src dst idx => exact stepB_reindex hI src dst idx
  | unionDisj a b dst => exact stepB_unionDisj hI a b dst
  | unreach src dst => exact res1_refines hI src dst _ _ (fun hs hd => shareCore_spec hI hs hd _ true)
  | reverse src dst => exact res1_refines hI src dst _ _ (fun hs hd => reverseCore_spec hI hd _)
  | candRaw src dst => exact res1_refines hI src dst _ _ (fun hs hd => shareCore_spec hI hs hd _ false)
  | useless src dst => simp [base] at hb
  | candidate src dst => simp [base] at hb

theorem foldB_refines (ops : List Op) (hb : ops.all base = true) :
    ∀ {H : HeapFA}, InvFA H →
      absFA (ops.foldl stepB H) = ops.foldl specStep (absFA H) ∧ InvFA (ops.foldl stepB H) := by
  induction ops with
  | nil => exact fun hI => ⟨rfl, hI⟩
  | cons op ops ih =>
    intro H hI
    rw [List.all_cons, Bool.and_eq_true] at hb
    obtain ⟨h1, h2⟩ := stepB_refines hI op hb.1
    obtain ⟨h3, h4⟩ := ih hb.2 h2
    exact ⟨by rw [List.foldl_cons, List.foldl_cons, h3, h1], h4⟩

/-! ### the operations with temporaries -/

theorem specRes_some {a : Nat → Option FAVal} {src dst : Nat} {s : FAVal} (f : FAVal → FAVal) (hs : a src = some s)
    (hd : a dst = none) : specRes a src dst f = upd a dst (some (f s)) := by
  unfold specRes
  rw [hs]
  simp only
  rw [if_pos (by rw [hd]; rfl)]

/-- on values the temporaries of `RemoveUselessStates` leave no trace -/
theorem spec_useless (a : Nat → Option FAVal) {src dst t : Nat} {s : FAVal} (hs : a src = some s)
    (hd : a dst = none) (h0 : a t = none) (h1 : a (t + 1) = none) (h2 : a (t + 2) = none) (hdt : dst < t) :
    (uselessOps src dst t).foldl specStep a = upd a dst (some (vUseless s)) := by
  simp only [uselessOps, List.foldl_cons, List.foldl_nil, specStep]
  have e1 : specRes a src t vUnreach = upd a t (some (vUnreach s)) := specRes_some vUnreach hs h0
  rw [e1]
  have e2 : specRes (upd a t (some (vUnreach s))) t (t + 1) vReverse =
      upd (upd a t (some (vUnreach s))) (t + 1) (some (vReverse (vUnreach s))) :=
    specRes_some vReverse (by rw [upd_same]) (by rw [upd_other _ _ (by omega)]; exact h1)
  rw [e2]
  have e3 : specRes (upd (upd a t (some (vUnreach s))) (t + 1) (some (vReverse (vUnreach s)))) (t + 1) (t + 2)
      vUnreach = upd (upd (upd a t (some (vUnreach s))) (t + 1) (some (vReverse (vUnreach s)))) (t + 2)
        (some (vUnreach (vReverse (vUnreach s)))) :=
    specRes_some vUnreach (by rw [upd_same])
      (by rw [upd_other _ _ (by omega), upd_other _ _ (by omega)]; exact h2)
  rw [e3]
  have e4 : specRes (upd (upd (upd a t (some (vUnreach s))) (t + 1) (some (vReverse (vUnreach s)))) (t + 2)
        (some (vUnreach (vReverse (vUnreach s))))) (t + 2) dst vReverse =
      upd (upd (upd (upd a t (some (vUnreach s))) (t + 1) (some (vReverse (vUnreach s)))) (t + 2)
        (some (vUnreach (vReverse (vUnreach s))))) dst (some (vUseless s)) :=
    specRes_some vReverse (by rw [upd_same])
      (by rw [upd_other _ _ (by omega), upd_other _ _ (by omega), upd_other _ _ (by omega)]; exact hd)
  rw [e4]
  funext x
  by_cases e4 : x = dst
  · subst e4
    rw [upd_other _ _ (by omega), upd_other _ _ (by omega), upd_other _ _ (by omega), upd_same, upd_same]
  · rw [upd_other _ _ e4]
    by_cases e1 : x = t
    · subst e1; rw [upd_same, h0]
    · rw [upd_other _ _ e1]
      by_cases e2 : x = t + 1
      · subst e2; rw [upd_same, h1]
      · rw [upd_other _ _ e2]
        by_cases e3 : x = t + 2
        · subst e3; rw [upd_same, h2]
        · rw [upd_other _ _ e3, upd_other _ _ e4, upd_other _ _ e3, upd_other _ _ e2, upd_other _ _ e1]

/-- … nor do those of `GetCandidateTree` -/
theorem spec_candidate (a : Nat → Option FAVal) {src dst t : Nat} {s : FAVal} (hs : a src = some s)
    (hd : a dst = none) (h0 : a t = none) (h1 : a (t + 1) = none) (h2 : a (t + 2) = none) (h3 : a (t + 3) = none)
    (hdt : dst < t) :
    (candidateOps src dst t).foldl specStep a = upd a dst (some (vCandidate s)) := by
  unfold candidateOps
  simp only [List.foldl_append, List.foldl_cons, List.foldl_nil, specStep]
  have e1 : specRes a src t vCandRaw = upd a t (some (vCandRaw s)) := specRes_some vCandRaw hs h0
  rw [e1]
  rw [spec_useless (upd a t (some (vCandRaw s))) (s := vCandRaw s) (by rw [upd_same])
    (by rw [upd_other _ _ (by omega)]; exact hd) (by rw [upd_other _ _ (by omega)]; exact h1)
    (by rw [upd_other _ _ (by omega)]; exact h2) (by rw [upd_other _ _ (by omega)]; exact h3) (by omega)]
  funext x
  unfold vCandidate
  by_cases e4 : x = dst
  · subst e4
    rw [upd_other _ _ (by omega), upd_same, upd_same]
  · by_cases e1 : x = t
    · subst e1; rw [upd_same, upd_other _ _ e4, h0]
    · rw [upd_other _ _ e1, upd_other _ _ e4, upd_other _ _ e1, upd_other _ _ e4]

theorem le_foldl_max (l : List Nat) (a : Nat) : a ≤ l.foldl max a ∧ ∀ x, x ∈ l → x ≤ l.foldl max a := by
  induction l generalizing a with
  | nil => exact ⟨Nat.le_refl _, fun x hx => by simp at hx⟩
  | cons y l ih =>
    obtain ⟨h1, h2⟩ := ih (max a y)
    rw [List.foldl_cons]
    refine ⟨by omega, ?_⟩
    intro x hx
    rcases List.mem_cons.mp hx with e | hx'
    · subst e; omega
    · exact h2 x hx'

theorem tmpBase_gt (H : Heap) (avoid : Nat) : avoid < tmpBase H avoid ∧ ∀ x, x ∈ H.hl → x < tmpBase H avoid := by
  obtain ⟨h1, h2⟩ := le_foldl_max H.hl avoid
  unfold tmpBase
  exact ⟨by omega, fun x hx => by have := h2 x hx; omega⟩

theorem absFA_tmp (H : HeapFA) (avoid k : Nat) : absFA H (tmpBase H.core avoid + k) = none := by
  apply absFA_of_not_mem
  intro hm
  have := (tmpBase_gt H.core avoid).2 _ hm
  omega

/-! ### main theorems -/

/-- every operation acts on the handle values exactly like the value-level specification, and keeps the
    reference-count invariant -/
theorem fa_refines_values (hI : InvFA H) (op : Op) :
    absFA (step H op) = specStep (absFA H) op ∧ InvFA (step H op) := by
  by_cases hb : base op = true
  · have e : step H op = stepB H op := by
      cases op <;> first | rfl | (simp [base] at hb)
    rw [e]
    exact stepB_refines hI op hb
  · cases op with
    | useless src dst =>
      simp only [step, specStep]
      by_cases hc : src ∈ H.core.hl ∧ dst ∉ H.core.hl
      · rw [if_pos hc]
        obtain ⟨h1, h2⟩ := foldB_refines (uselessOps src dst (tmpBase H.core dst))
          rfl hI
        refine ⟨?_, h2⟩
        rw [h1, specRes_some vUseless (absFA_of_mem hc.1) (absFA_of_not_mem hc.2)]
        exact spec_useless _ (absFA_of_mem hc.1) (absFA_of_not_mem hc.2) (absFA_tmp H dst 0) (absFA_tmp H dst 1)
          (absFA_tmp H dst 2) (tmpBase_gt H.core dst).1
      · rw [if_neg hc]
        refine ⟨?_, hI⟩
        unfold specRes
        by_cases hs : src ∈ H.core.hl
        · have hd : dst ∈ H.core.hl := Classical.not_not.mp (fun hd => hc ⟨hs, hd⟩)
          rw [absFA_of_mem hs]
          simp only
          rw [if_neg (by rw [absFA_of_mem hd]; simp)]
        · rw [absFA_of_not_mem hs]
    | candidate src dst =>
      simp only [step, specStep]
      by_cases hc : src ∈ H.core.hl ∧ dst ∉ H.core.hl
      · rw [if_pos hc]
        obtain ⟨h1, h2⟩ := foldB_refines (candidateOps src dst (tmpBase H.core dst))
          rfl hI
        refine ⟨?_, h2⟩
        rw [h1, specRes_some vCandidate (absFA_of_mem hc.1) (absFA_of_not_mem hc.2)]
        exact spec_candidate _ (absFA_of_mem hc.1) (absFA_of_not_mem hc.2) (absFA_tmp H dst 0) (absFA_tmp H dst 1)
          (absFA_tmp H dst 2) (absFA_tmp H dst 3) (tmpBase_gt H.core dst).1
      · rw [if_neg hc]
        refine ⟨?_, hI⟩
        unfold specRes
        by_cases hs : src ∈ H.core.hl
        · have hd : dst ∈ H.core.hl := Classical.not_not.mp (fun hd => hc ⟨hs, hd⟩)
          rw [absFA_of_mem hs]
          simp only
          rw [if_neg (by rw [absFA_of_mem hd]; simp)]
        · rw [absFA_of_not_mem hs]
    | _ => simp [base] at hb

theorem fa_history_refines (hI : InvFA H) (ops : List Op) :
    absFA (ops.foldl step H) = ops.foldl specStep (absFA H) ∧ InvFA (ops.foldl step H) := by
  induction ops generalizing H with
  | nil => exact ⟨rfl, hI⟩
  | cons op ops ih =>
    obtain ⟨h1, h2⟩ := fa_refines_values hI op
    obtain ⟨h3, h4⟩ := ih h2
    exact ⟨by rw [List.foldl_cons, List.foldl_cons, h3, h1], h4⟩

/-- for every operation history the handles behave as independent values -/
theorem fa_history_isolation (ops : List Op) : absFA (exec ops) = ops.foldl specStep specInit := by
  unfold exec
  rw [(fa_history_refines invFA_init ops).1, absFA_init]

theorem fa_history_inv (ops : List Op) : InvFA (exec ops) := (fa_history_refines invFA_init ops).2

/-- no garbage: when the last handle is gone every map node and every cluster node has been freed -/
theorem fa_no_garbage (hI : InvFA H) (hl : H.core.hl = []) : H.core.ml = [] ∧ H.core.cl = [] :=
  CowHeap.no_garbage hI hl

/-! ### isolation, read off the specification -/

theorem spec1_other (a : Nat → Option FAVal) (h : Nat) (f : FAVal → FAVal) {x : Nat} (hx : x ≠ h) :
    spec1 a h f x = a x := by
  unfold spec1
  cases a h with
  | none => rfl
  | some s => simp only; rw [upd_other _ _ hx]

theorem specRes_other (a : Nat → Option FAVal) (src dst : Nat) (f : FAVal → FAVal) {x : Nat} (hx : x ≠ dst) :
    specRes a src dst f x = a x := by
  unfold specRes
  cases a src with
  | none => rfl
  | some s => simp only; split <;> simp [upd_other _ _ hx]

/-- an operation never changes the value of a handle other than its target (in particular: a mutation through one handle
    never changes another live handle; the operands of a library function keep their values) -/
theorem specStep_other (a : Nat → Option FAVal) (op : Op) (x : Nat) (hx : x ≠ target op) :
    specStep a op x = a x := by
  cases op with
  | new h => simp only [specStep]; split <;> simp [upd_other _ _ (show x ≠ h from hx)]
  | copy src dst => exact specRes_other a src dst id hx
  | moveCtor src dst => exact specRes_other a src dst id hx
  | assign src dst =>
    simp only [specStep]
    cases a src with
    | none => rfl
    | some s => simp only; split <;> simp [upd_other _ _ (show x ≠ dst from hx)]
  | moveAssign src dst =>
    simp only [specStep]
    cases a src with
    | none => rfl
    | some s => simp only; split <;> simp [upd_other _ _ (show x ≠ dst from hx)]
  | setFinal h q => exact spec1_other a h _ hx
  | setStart h q s => exact spec1_other a h _ hx
  | setExistingStart h q S => exact spec1_other a h _ hx
  | add h l s r => exact spec1_other a h _ hx
  | destroy h => simp only [specStep]; rw [upd_other _ _ (show x ≠ h from hx)]
  | reindex src dst idx =>
    simp only [specStep]
    cases a src with
    | none => rfl
    | some s =>
      cases a dst with
      | none => rfl
      | some d => simp only; split <;> simp [upd_other _ _ (show x ≠ dst from hx)]
  | unionDisj p q dst =>
    simp only [specStep]
    cases a p with
    | none => rfl
    | some s =>
      cases a q with
      | none => rfl
      | some d => simp only; split <;> simp [upd_other _ _ (show x ≠ dst from hx)]
  | unreach src dst => exact specRes_other a src dst _ hx
  | reverse src dst => exact specRes_other a src dst _ hx
  | candRaw src dst => exact specRes_other a src dst _ hx
  | useless src dst => exact specRes_other a src dst _ hx
  | candidate src dst => exact specRes_other a src dst _ hx

/-- the heap model: an operation leaves the value read through every handle other than its target unchanged -/
theorem step_other (hI : InvFA H) (op : Op) (x : Nat) (hx : x ≠ target op) : absFA (step H op) x = absFA H x := by
  rw [(fa_refines_values hI op).1, specStep_other _ _ _ hx]

/-- a handle keeps its value – and stays alive or dead – along every history none of whose operations targets it: the result
    of a library function keeps its value when its operands are mutated, assigned to or destroyed afterwards -/
theorem untouched_keeps_value (hI : InvFA H) (ops : List Op) (x : Nat) (hx : ∀ op, op ∈ ops → x ≠ target op) :
    absFA (ops.foldl step H) x = absFA H x := by
  induction ops generalizing H with
  | nil => rfl
  | cons op ops ih =>
    rw [List.foldl_cons, ih (fa_refines_values hI op).2 (fun o ho => hx o (List.mem_cons_of_mem _ ho)),
      step_other hI op x (hx op List.mem_cons_self)]

/-! ### the history runner -/

theorem trace_aux (ops : List Op) (H : HeapFA) (acc : List HeapFA) :
    ops.foldl (fun (acc : HeapFA × List HeapFA) op => let H := step acc.1 op; (H, acc.2 ++ [H])) (H, acc) =
      (ops.foldl step H,
        acc ++ (List.range ops.length).map (fun i => (ops.take (i + 1)).foldl step H)) := by
  induction ops generalizing H acc with
  | nil => simp
  | cons op ops ih =>
    rw [List.foldl_cons, ih]
    simp only [List.foldl_cons, List.length_cons, List.range_succ_eq_map, List.map_cons, List.map_map,
      List.take_succ_cons, List.take_zero, List.foldl_nil, List.append_assoc, List.singleton_append]
    rfl

/-- `run` lists, for every non-empty prefix of the history, what is read through the live handles after it -/
theorem run_eq (ops : List Op) :
    run ops = (List.range ops.length).map (fun i => observe (exec (ops.take (i + 1)))) := by
  unfold run trace
  rw [trace_aux]
  simp [exec, List.map_map, Function.comp_def]

/-- `observe` shows exactly the live handles with the values read through them -/
theorem mem_observe (H : HeapFA) (h : Nat) (v : FAVal) : (h, v) ∈ observe H ↔ absFA H h = some v := by
  unfold observe absFA
  simp only [List.mem_append, List.mem_map, List.mem_filter, List.mem_range, List.contains_iff_mem,
    List.mem_reverse, decide_eq_true_eq, Prod.mk.injEq]
  constructor
  · rintro (⟨x, ⟨_, hx⟩, rfl, rfl⟩ | ⟨x, ⟨hx, _⟩, rfl, rfl⟩) <;> rw [if_pos hx]
  · intro hv
    by_cases hh : h ∈ H.core.hl
    · rw [if_pos hh] at hv
      by_cases hlt : h < H.core.next
      · exact Or.inl ⟨h, ⟨hlt, hh⟩, rfl, (Option.some.inj hv)⟩
      · exact Or.inr ⟨h, ⟨hh, by omega⟩, rfl, (Option.some.inj hv)⟩
    · rw [if_neg hh] at hv
      cases hv

end Vata.CowHeapFA
