import Vata.Proofs.NfaOpsCodedIsect
/-!
# `Intersection` as coded: the loop invariant, the initial state, partial correctness and totality
-/
namespace Vata.NfaC
open Vata.W

/-- the invariant of `while (!stack.empty())` (current code) -/
structure IsectInv (A B : NFA) (st : IsectSt) : Prop where
  wf : TmWF st.tm
  stk : ∀ e, e ∈ st.stack → tmFind st.tm e.1 = some e.2
  hstart : ∀ p, p ∈ nfaStartPairs A B → ∃ n, tmFind st.tm p = some n
  least : ∀ S : List (Nat × Nat), (∀ p, p ∈ nfaStartPairs A B → p ∈ S) → NfaPairClosed A B S →
    ∀ p n, tmFind st.tm p = some n → p ∈ S
  done : ∀ p n, tmFind st.tm p = some n → (∀ e, e ∈ st.stack → e.1 ≠ p) →
    (∀ x, x ∈ nfaJoint A B p → ∃ k, tmFind st.tm x.2 = some k ∧ (n, x.1, k) ∈ st.res.trans) ∧
    (p.1 ∈ A.final → p.2 ∈ B.final → n ∈ st.res.final)
  tsound : ∀ t, t ∈ st.res.trans → ∃ p n x k, tmFind st.tm p = some n ∧ x ∈ nfaJoint A B p ∧
    tmFind st.tm x.2 = some k ∧ t = (n, x.1, k)
  fsound : ∀ n, n ∈ st.res.final → ∃ p, tmFind st.tm p = some n ∧ p.1 ∈ A.final ∧ p.2 ∈ B.final
  sstart : ∀ n, n ∈ st.res.start ↔ ∃ p, p ∈ nfaStartPairs A B ∧ tmFind st.tm p = some n

theorem isectTurn_inv {A B : NFA} {st st1 st' : IsectSt} {act : (Nat × Nat) × Nat} {rest : List ((Nat × Nat) × Nat)}
    {xs : List (Nat × (Nat × Nat))} (hs : st.stack = act :: rest) (inv : IsectInv A B st)
    (htm : st1.tm = st.tm) (hstk : st1.stack = rest) (htr : st1.res.trans = st.res.trans)
    (hst : st1.res.start = st.res.start)
    (hfin : ∀ n, n ∈ st1.res.final ↔ n ∈ st.res.final ∨ (n = act.2 ∧ act.1.1 ∈ A.final ∧ act.1.2 ∈ B.final))
    (hxs : ∀ x, x ∈ xs ↔ x ∈ nfaJoint A B act.1) (step : IsectStep A B act.2 xs st1 st') : IsectInv A B st' := by
  have hact : tmFind st.tm act.1 = some act.2 := inv.stk act (by rw [hs]; exact List.mem_cons_self)
  have hrest : ∀ e, e ∈ rest → e ∈ st'.stack := fun e he => step.sub e (by rw [hstk]; exact he)
  have mono : ∀ q k, tmFind st.tm q = some k → tmFind st'.tm q = some k := fun q k h => step.mono q k (by rw [htm]; exact h)
  refine ⟨step.wf (by rw [htm]; exact inv.wf), ?_, ?_, ?_, ?_, ?_, ?_, ?_⟩
  · apply step.stk
    intro e he
    rw [htm]
    exact inv.stk e (by rw [hs]; rw [hstk] at he; exact List.mem_cons_of_mem _ he)
  · intro p hp
    obtain ⟨n, hn⟩ := inv.hstart p hp
    exact ⟨n, mono _ _ hn⟩
  · intro S hS hcl p n hp
    rcases step.new p n hp with h | ⟨_, x, hx, e⟩
    · rw [htm] at h; exact inv.least S hS hcl p n h
    · have ha := inv.least S hS hcl _ _ hact
      obtain ⟨h1, h2⟩ := mem_nfaJoint.mp ((hxs x).mp hx)
      rw [← e]
      exact hcl act.1 ha x.1 x.2 h1 h2
  · intro p n hp hns
    have hp0 : tmFind st.tm p = some n := by
      rcases step.new p n hp with h | ⟨h, _⟩
      · rw [htm] at h; exact h
      · exact absurd rfl (hns _ h)
    by_cases hpa : p = act.1
    · subst hpa
      have hn : n = act.2 := Option.some.inj (hp0.symm.trans hact)
      subst hn
      refine ⟨fun x hx => step.did x ((hxs x).mpr hx), fun h1 h2 => ?_⟩
      rw [step.same.2.1, hfin]
      exact Or.inr ⟨rfl, h1, h2⟩
    · have hns0 : ∀ e, e ∈ st.stack → e.1 ≠ p := by
        intro e he
        rw [hs] at he
        rcases List.mem_cons.mp he with h | h
        · rw [h]; exact fun e => hpa e.symm
        · exact hns e (hrest e h)
      obtain ⟨d1, d2⟩ := inv.done p n hp0 hns0
      refine ⟨fun x hx => ?_, fun h1 h2 => ?_⟩
      · obtain ⟨k, hk, ht⟩ := d1 x hx
        exact ⟨k, mono _ _ hk, step.tsub _ (by rw [htr]; exact ht)⟩
      · rw [step.same.2.1, hfin]
        exact Or.inl (d2 h1 h2)
  · intro t ht
    rcases step.tnew t ht with h | ⟨x, hx, k, hk, e⟩
    · rw [htr] at h
      obtain ⟨p, n, x, k, h1, h2, h3, h4⟩ := inv.tsound t h
      exact ⟨p, n, x, k, mono _ _ h1, h2, mono _ _ h3, h4⟩
    · exact ⟨act.1, act.2, x, k, mono _ _ hact, (hxs x).mp hx, hk, e⟩
  · intro n hn
    rw [step.same.2.1, hfin] at hn
    rcases hn with h | ⟨h, h1, h2⟩
    · obtain ⟨p, hp, hf⟩ := inv.fsound n h
      exact ⟨p, mono _ _ hp, hf⟩
    · subst h; exact ⟨act.1, mono _ _ hact, h1, h2⟩
  · intro n
    rw [step.same.1, hst, inv.sstart]
    constructor
    · rintro ⟨p, hp, h⟩; exact ⟨p, hp, mono _ _ h⟩
    · rintro ⟨p, hp, h⟩
      obtain ⟨n', hn'⟩ := inv.hstart p hp
      have := (mono _ _ hn').symm.trans h
      cases this
      exact ⟨p, hp, hn'⟩

/-- one turn of the loop keeps the invariant and decreases the measure -/
theorem isectBody_inv {o : NfaOrd} (ho : o.Ok) (A B : NFAS) {st : IsectSt} {act : (Nat × Nat) × Nat}
    {rest : List ((Nat × Nat) × Nat)} (hs : st.stack = act :: rest) (inv : IsectInv A.toNFA B.toNFA st) :
    IsectInv A.toNFA B.toNFA (isectBody o .fixed A B act ⟨st.tm, rest, st.res⟩) := by
  rw [isectBody_fixed]
  refine isectTurn_inv (act := act) hs inv (st1 := (if A.final.contains act.1.1 && B.final.contains act.1.2 then
    ⟨st.tm, rest, nfasSetFinal st.res act.2⟩ else ⟨st.tm, rest, st.res⟩)) ?_ ?_ ?_ ?_ ?_
    (fun x => mem_isectFlat ho) (isectStep_fold _ _ _ _ _)
  · split <;> rfl
  · split <;> rfl
  · split <;> rfl
  · split <;> rfl
  · intro n
    split
    · rename_i h
      simp only [Bool.and_eq_true, List.contains_iff_mem] at h
      simp only [nfasSetFinal, NfaS.mem_insN]
      constructor
      · rintro (h' | h')
        · exact Or.inl h'
        · exact Or.inr ⟨h', h⟩
      · rintro (h' | ⟨h', _⟩)
        · exact Or.inl h'
        · exact Or.inr h'
    · rename_i h
      simp only [Bool.and_eq_true, List.contains_iff_mem] at h
      constructor
      · exact Or.inl
      · rintro (h' | ⟨_, h'⟩)
        · exact h'
        · exact absurd h' h

theorem isectBody_meas {o : NfaOrd} (ho : o.Ok) (A B : NFAS) (tm : TranslMap) (res : NFAS) (act : (Nat × Nat) × Nat)
    (rest : List ((Nat × Nat) × Nat)) :
    (isectBody o .fixed A B act ⟨tm, rest, res⟩).stack.length +
        isectUnseen A.toNFA B.toNFA (isectBody o .fixed A B act ⟨tm, rest, res⟩).tm
      ≤ rest.length + isectUnseen A.toNFA B.toNFA tm := by
  rw [isectBody_fixed]
  have step := isectStep_fold A.toNFA B.toNFA act.2 (isectFlat o A.toNFA B.toNFA act.1.1 act.1.2)
    (if A.final.contains act.1.1 && B.final.contains act.1.2 then ⟨tm, rest, nfasSetFinal res act.2⟩ else ⟨tm, rest, res⟩)
  have h := step.meas (fun x hx => by
    obtain ⟨h1, h2⟩ := mem_nfaJoint.mp ((mem_isectFlat ho).mp hx)
    exact ⟨act.1, mem_nfaJointAll.mpr ⟨h1, h2⟩⟩)
  refine Nat.le_trans h (Nat.le_of_eq ?_)
  split <;> rfl

/-- partial correctness of the loop: the invariant holds at the end, with an empty stack -/
theorem isectLoop_inv {o : NfaOrd} (ho : o.Ok) (A B : NFAS) : ∀ (fuel : Nat) (st st' : IsectSt),
    IsectInv A.toNFA B.toNFA st → isectLoop o .fixed A B fuel st = some st' →
      IsectInv A.toNFA B.toNFA st' ∧ st'.stack = []
  | 0, st, st', inv, h => by
    simp only [isectLoop] at h
    split at h
    · rename_i he
      cases h
      exact ⟨inv, List.isEmpty_iff.mp he⟩
    · cases h
  | n + 1, st, st', inv, h => by
    simp only [isectLoop] at h
    split at h
    · rename_i he
      cases h
      exact ⟨inv, he⟩
    · rename_i act rest he
      exact isectLoop_inv ho A B n _ st' (isectBody_inv ho A B he inv) h

/-- totality: the loop ends within `stack.length + isectUnseen` turns -/
theorem isectLoop_total {o : NfaOrd} (ho : o.Ok) (A B : NFAS) : ∀ (fuel : Nat) (st : IsectSt),
    st.stack.length + isectUnseen A.toNFA B.toNFA st.tm ≤ fuel → ∃ st', isectLoop o .fixed A B fuel st = some st'
  | 0, st, h => by
    have : st.stack = [] := List.length_eq_zero_iff.mp (by omega)
    exact ⟨st, by simp [isectLoop, this]⟩
  | n + 1, st, h => by
    simp only [isectLoop]
    split
    · exact ⟨st, rfl⟩
    · rename_i act rest he
      apply isectLoop_total ho A B n
      have := isectBody_meas ho A B st.tm st.res act rest
      rw [he, List.length_cons] at h
      omega

end Vata.NfaC

namespace Vata.NfaC
open Vata.W

/-! ### the initial state -/

/-- the body of the two `for` loops over the start states (current code) -/
def isectInitStep (A B : NFAS) (st : IsectSt) (p : Nat × Nat) : IsectSt :=
  ⟨(tmInsert st.tm p).1, (p, (tmInsert st.tm p).2.1) :: st.stack,
    nfasSetExistingStart st.res (tmInsert st.tm p).2.1 (A.symsOf p.1 ++ B.symsOf p.2)⟩

/-- the pairs of start states in the order of the two loops -/
def isectInitPairs (o : NfaOrd) (A B : NFA) : List (Nat × Nat) :=
  (iterSet o.sts A.start).flatMap (fun l => (iterSet o.sts B.start).map (fun r => (l, r)))

theorem foldl_pairs_flat {σ : Type} (f : σ → Nat × Nat → σ) (LB : List Nat) : ∀ (LA : List Nat) (s : σ),
    LA.foldl (fun st l => LB.foldl (fun st r => f st (l, r)) st) s
      = (LA.flatMap (fun l => LB.map (fun r => (l, r)))).foldl f s
  | [], _ => rfl
  | l :: LA, s => by
    simp only [List.foldl_cons, List.flatMap_cons, List.foldl_append, List.foldl_map]
    exact foldl_pairs_flat f LB LA _

theorem isectInit_fixed (o : NfaOrd) (A B : NFAS) :
    isectInit o .fixed A B = (isectInitPairs o A.toNFA B.toNFA).foldl (isectInitStep A B) ⟨[], [], nfasEmpty⟩ := by
  unfold isectInit isectInitPairs
  exact foldl_pairs_flat (isectInitStep A B) _ _ _

theorem mem_isectInitPairs {o : NfaOrd} (ho : o.Ok) {A B : NFA} {p : Nat × Nat} :
    p ∈ isectInitPairs o A B ↔ p ∈ nfaStartPairs A B := by
  rw [mem_nfaStartPairs]
  simp only [isectInitPairs, List.mem_flatMap, List.mem_map, mem_iterSet ho.1]
  constructor
  · rintro ⟨l, hl, r, hr, rfl⟩; exact ⟨hl, hr⟩
  · rintro ⟨hl, hr⟩; exact ⟨p.1, hl, p.2, hr, rfl⟩

/-- what a segment of the start loops does -/
structure IsectInitSeg (ps : List (Nat × Nat)) (st st' : IsectSt) : Prop where
  mono : ∀ q k, tmFind st.tm q = some k → tmFind st'.tm q = some k
  wf : TmWF st.tm → TmWF st'.tm
  stk : (∀ e, e ∈ st.stack → tmFind st.tm e.1 = some e.2) → ∀ e, e ∈ st'.stack → tmFind st'.tm e.1 = some e.2
  sub : ∀ e, e ∈ st.stack → e ∈ st'.stack
  has : ∀ p, p ∈ ps → ∃ n, tmFind st'.tm p = some n
  new : ∀ q k, tmFind st'.tm q = some k → tmFind st.tm q = some k ∨ ((q, k) ∈ st'.stack ∧ q ∈ ps)
  same : st'.res.trans = st.res.trans ∧ st'.res.final = st.res.final
  sst : ∀ n, n ∈ st'.res.start ↔ n ∈ st.res.start ∨ ∃ p, p ∈ ps ∧ tmFind st'.tm p = some n
  len : st'.stack.length = st.stack.length + ps.length

theorem IsectInitSeg.refl (st : IsectSt) : IsectInitSeg [] st st :=
  { mono := fun _ _ h => h, wf := fun h => h, stk := fun h => h, sub := fun _ h => h, has := fun _ h => (nomatch h),
    new := fun _ _ h => Or.inl h, same := ⟨rfl, rfl⟩,
    sst := fun _ => ⟨Or.inl, fun h => h.elim id (fun ⟨_, h, _⟩ => nomatch h)⟩, len := rfl }

theorem IsectInitSeg.trans {xs ys : List (Nat × Nat)} {s0 s1 s2 : IsectSt}
    (h1 : IsectInitSeg xs s0 s1) (h2 : IsectInitSeg ys s1 s2) : IsectInitSeg (xs ++ ys) s0 s2 where
  mono q k h := h2.mono q k (h1.mono q k h)
  wf h := h2.wf (h1.wf h)
  stk h := h2.stk (h1.stk h)
  sub e h := h2.sub e (h1.sub e h)
  has p hp := by
    rcases List.mem_append.mp hp with h | h
    · obtain ⟨n, hn⟩ := h1.has p h; exact ⟨n, h2.mono _ _ hn⟩
    · exact h2.has p h
  new q k h := by
    rcases h2.new q k h with h | ⟨h, hx⟩
    · rcases h1.new q k h with h | ⟨h, hx⟩
      · exact Or.inl h
      · exact Or.inr ⟨h2.sub _ h, List.mem_append_left _ hx⟩
    · exact Or.inr ⟨h, List.mem_append_right _ hx⟩
  same := ⟨h2.same.1.trans h1.same.1, h2.same.2.trans h1.same.2⟩
  sst n := by
    rw [h2.sst, h1.sst]
    constructor
    · rintro ((h | ⟨p, hp, h⟩) | ⟨p, hp, h⟩)
      · exact Or.inl h
      · exact Or.inr ⟨p, List.mem_append_left _ hp, h2.mono _ _ h⟩
      · exact Or.inr ⟨p, List.mem_append_right _ hp, h⟩
    · rintro (h | ⟨p, hp, h⟩)
      · exact Or.inl (Or.inl h)
      · rcases List.mem_append.mp hp with hp | hp
        · obtain ⟨n', hn'⟩ := h1.has p hp
          have := (h2.mono _ _ hn').symm.trans h
          cases this
          exact Or.inl (Or.inr ⟨p, hp, hn'⟩)
        · exact Or.inr ⟨p, hp, h⟩
  len := by rw [h2.len, h1.len, List.length_append]; omega

theorem IsectInitSeg.one (A B : NFAS) (p : Nat × Nat) (st : IsectSt) :
    IsectInitSeg [p] st (isectInitStep A B st p) := by
  cases hf : tmFind st.tm p with
  | some k =>
    have e : isectInitStep A B st p =
        ⟨st.tm, (p, k) :: st.stack, nfasSetExistingStart st.res k (A.symsOf p.1 ++ B.symsOf p.2)⟩ := by
      simp [isectInitStep, tmInsert, hf]
    rw [e]
    refine ⟨fun _ _ h => h, fun h => h, ?_, fun _ h => List.mem_cons_of_mem _ h, ?_, fun _ _ h => Or.inl h,
      ⟨rfl, rfl⟩, ?_, rfl⟩
    · intro h e he
      rcases List.mem_cons.mp he with h' | h'
      · rw [h']; exact hf
      · exact h e h'
    · intro q hq
      rw [List.mem_singleton] at hq; subst hq
      exact ⟨k, hf⟩
    · intro n
      simp only [nfasSetExistingStart, NfaS.mem_insN, List.mem_singleton]
      constructor
      · rintro (h | h)
        · exact Or.inl h
        · exact Or.inr ⟨p, rfl, by rw [h]; exact hf⟩
      · rintro (h | ⟨q, hq, h⟩)
        · exact Or.inl h
        · subst hq
          exact Or.inr (Option.some.inj (h.symm.trans hf))
  | none =>
    have e : isectInitStep A B st p =
        ⟨st.tm ++ [(p, st.tm.length)], (p, st.tm.length) :: st.stack,
          nfasSetExistingStart st.res st.tm.length (A.symsOf p.1 ++ B.symsOf p.2)⟩ := by
      simp [isectInitStep, tmInsert, hf]
    rw [e]
    have hnew : tmFind (st.tm ++ [(p, st.tm.length)]) p = some st.tm.length := tmFind_append_new hf
    refine ⟨fun _ _ h => tmFind_append_of_some h, fun h => h.append _, ?_, fun _ h => List.mem_cons_of_mem _ h, ?_, ?_,
      ⟨rfl, rfl⟩, ?_, rfl⟩
    · intro h e he
      rcases List.mem_cons.mp he with h' | h'
      · rw [h']; exact hnew
      · exact tmFind_append_of_some (h e h')
    · intro q hq
      rw [List.mem_singleton] at hq; subst hq
      exact ⟨_, hnew⟩
    · intro q k hq
      by_cases hqx : q = p
      · subst hqx
        rw [hnew] at hq
        cases hq
        exact Or.inr ⟨List.mem_cons_self, List.mem_singleton.mpr rfl⟩
      · rw [tmFind_append_other hqx] at hq
        exact Or.inl hq
    · intro n
      simp only [nfasSetExistingStart, NfaS.mem_insN, List.mem_singleton]
      constructor
      · rintro (h | h)
        · exact Or.inl h
        · exact Or.inr ⟨p, rfl, by rw [h]; exact hnew⟩
      · rintro (h | ⟨q, hq, h⟩)
        · exact Or.inl h
        · subst hq
          exact Or.inr (Option.some.inj (h.symm.trans hnew))

theorem isectInitSeg_fold (A B : NFAS) : ∀ (ps : List (Nat × Nat)) (st : IsectSt),
    IsectInitSeg ps st (ps.foldl (isectInitStep A B) st)
  | [], st => IsectInitSeg.refl st
  | p :: ps, st => by
    rw [List.foldl_cons]
    exact (IsectInitSeg.one A B p st).trans (isectInitSeg_fold A B ps _)

theorem tmFind_nil (p : Nat × Nat) : tmFind [] p = none := rfl

/-- the invariant holds when the loop is entered -/
theorem isectInit_inv {o : NfaOrd} (ho : o.Ok) (A B : NFAS) : IsectInv A.toNFA B.toNFA (isectInit o .fixed A B) := by
  rw [isectInit_fixed]
  have seg := isectInitSeg_fold A B (isectInitPairs o A.toNFA B.toNFA) ⟨[], [], nfasEmpty⟩
  have hnew : ∀ q k, tmFind ((isectInitPairs o A.toNFA B.toNFA).foldl (isectInitStep A B) ⟨[], [], nfasEmpty⟩).tm q = some k →
      (q, k) ∈ ((isectInitPairs o A.toNFA B.toNFA).foldl (isectInitStep A B) ⟨[], [], nfasEmpty⟩).stack ∧
        q ∈ nfaStartPairs A.toNFA B.toNFA := by
    intro q k h
    rcases seg.new q k h with h | ⟨h, h'⟩
    · exact nomatch h
    · exact ⟨h, (mem_isectInitPairs ho).mp h'⟩
  refine ⟨seg.wf rfl, seg.stk (fun _ h => nomatch h), ?_, ?_, ?_, ?_, ?_, ?_⟩
  · intro p hp; exact seg.has p ((mem_isectInitPairs ho).mpr hp)
  · intro S hS _ p n hp; exact hS p (hnew p n hp).2
  · intro p n hp hns; exact absurd rfl (hns _ (hnew p n hp).1)
  · intro t ht; rw [seg.same.1] at ht; exact nomatch ht
  · intro n hn; rw [seg.same.2] at hn; exact nomatch hn
  · intro n
    rw [seg.sst]
    constructor
    · rintro (h | ⟨p, hp, h⟩)
      · exact nomatch h
      · exact ⟨p, (mem_isectInitPairs ho).mp hp, h⟩
    · rintro ⟨p, hp, h⟩; exact Or.inr ⟨p, (mem_isectInitPairs ho).mpr hp, h⟩

theorem isectInit_stack_length (o : NfaOrd) (A B : NFAS) :
    (isectInit o .fixed A B).stack.length = (iterSet o.sts A.start).length * (iterSet o.sts B.start).length := by
  rw [isectInit_fixed, (isectInitSeg_fold A B _ _).len]
  simp only [isectInitPairs, List.length_nil, Nat.zero_add]
  generalize iterSet o.sts A.start = LA
  induction LA with
  | nil => simp
  | cons l LA ih => simp only [List.flatMap_cons, List.length_append, List.length_map, ih, List.length_cons]; rw [Nat.add_mul]; omega

end Vata.NfaC
