import Vata.Proofs.RcStoreWZ
/-!
# Which histories stay below `2^w` referrers (properties C18 / C20)

* `histBounded w f ops` ⇔ `maxRefs f ops < 2^w`                      (`histBounded_iff_maxRefs`)
* the counter of an allocated node is at most `2 * #allocated nodes + #live handles`  (`rc_le_size`), so a history
  in which `2 * #nodes + #handles` stays below `2^w` is bounded                     (`histBounded_of_size`)
-/
namespace Vata.RcSW
open Vata.R (Data contrib indegL cnt)
open Vata.RcS

theorem foldl_max_lt (g : Nat → Nat) (p : Nat) : ∀ (l : List Nat) (m : Nat),
    l.foldl (fun m n => max m (g n)) m < p ↔ m < p ∧ ∀ n, n ∈ l → g n < p
  | [], m => by simp
  | a :: l, m => by
    simp only [List.foldl_cons, foldl_max_lt g p l, Nat.max_lt, List.mem_cons, forall_eq_or_imp]
    exact ⟨fun h => ⟨h.1.1, h.1.2, h.2⟩, fun h => ⟨⟨h.1, h.2.1⟩, h.2.2⟩⟩

theorem bounded_iff_maxRefsS (w : Nat) (s : Store) : bounded w s = true ↔ maxRefsS s < 2^w := by
  simp only [bounded, List.all_eq_true, decide_eq_true_eq, maxRefsS, foldl_max_lt]
  exact ⟨fun h => ⟨two_pow_pos' w, h⟩, fun h => h.2⟩

theorem histBoundedFrom_iff_maxRefsFrom (w : Nat) (f : Nat → Nat → Nat) : ∀ (ops : List Op) (s : Store),
    histBoundedFrom w f s ops = true ↔ maxRefsFrom f s ops < 2^w
  | [], s => bounded_iff_maxRefsS w s
  | op :: ops, s => by
    simp only [histBoundedFrom, maxRefsFrom, Bool.and_eq_true, Nat.max_lt, bounded_iff_maxRefsS,
      histBoundedFrom_iff_maxRefsFrom w f ops]

theorem histBounded_iff_maxRefs (w : Nat) (f : Nat → Nat → Nat) (ops : List Op) :
    histBounded w f ops = true ↔ maxRefs f ops < 2^w := histBoundedFrom_iff_maxRefsFrom w f ops empty

/-! ## counters are bounded by the size of the store -/

theorem contrib_le_two (dat : Nat → Data) (n m : Nat) : contrib dat n m ≤ 2 := by
  unfold contrib
  split
  · omega
  · split <;> split <;> omega

theorem sum_map_le (g : Nat → Nat) (c : Nat) (hg : ∀ x, g x ≤ c) : ∀ (l : List Nat), (l.map g).sum ≤ c * l.length
  | [] => by simp
  | a :: l => by
    have := sum_map_le g c hg l
    have := hg a
    simp only [List.map_cons, List.sum_cons, List.length_cons, Nat.mul_succ]
    omega

/-- `2 * #allocated nodes + #live handles` -/
def size (s : Store) : Nat := 2 * s.ids.length + s.hs.length

theorem rc_le_size {s : Store} (hi : Inv s) {n : Nat} (hn : n ∈ s.ids) : s.rc n ≤ size s := by
  have h1 := hi.rc_inv.1 n hn
  have h2 : indeg s n ≤ 2 * s.ids.length := sum_map_le _ 2 (fun m => contrib_le_two s.dat n m) s.ids
  have h3 : handlesTo s n ≤ s.hs.length := by
    have := List.count_le_length (a := n) (l := roots s)
    simp only [roots, List.length_map] at this
    exact this
  simp only [size]
  omega

theorem bounded_of_size {w : Nat} {s : Store} (hi : Inv s) (h : size s < 2^w) : bounded w s = true := by
  simp only [bounded, List.all_eq_true, decide_eq_true_eq]
  exact fun n hn => Nat.lt_of_le_of_lt (rc_le_size hi hn) h

theorem histBoundedFrom_of_size (w : Nat) (f : Nat → Nat → Nat) : ∀ (ops : List Op) (s : Store), Inv s →
    (∀ k, size ((ops.take k).foldl (RcS.stepF f) s) < 2^w) → histBoundedFrom w f s ops = true
  | [], s, hi, h => bounded_of_size hi (h 0)
  | op :: ops, s, hi, h => by
    simp only [histBoundedFrom, Bool.and_eq_true]
    exact ⟨bounded_of_size hi (h 0),
      histBoundedFrom_of_size w f ops _ (stepF_inv f op hi).1 (fun k => h (k+1))⟩

theorem histBounded_of_size (w : Nat) (f : Nat → Nat → Nat) (ops : List Op)
    (h : ∀ k, size (RcS.runF f (ops.take k)) < 2^w) : histBounded w f ops = true :=
  histBoundedFrom_of_size w f ops empty inv_empty h

end Vata.RcSW
