import Vata.Proofs.InclDownTablesClass
import Vata.Proofs.InclDownTablesClassDet
/-!
# Run for run when the only classes of the left table are classes of NULLARY symbols

`SymDetPos n ar a`: two ranked symbols `< 2 ^ n` that select the same non-empty leaf of `a` are equal OR nullary (`ar f = 0`) – the
left table may have states with several leaf symbols (`a → q`, `b → q`: the automata of defect D9), but no two symbols of arity `> 0`
of a state share their set of children tuples.  On a nullary call the functor does not touch its state
(`if (arity == 0) { if (!rhs.empty()) return; … }`), and a second call with the same two leaves after a first one that returned
`holds` returns `holds` again.  Hence the run of the code (one call per pair of leaves) and the run of the abstract model on the
dump (one call per ranked symbol) are EQUAL: `bodyT_eq_nullary`, `expandT_eq_of_body`, `runTD_eq_of_body`.

The proof compares both call lists with their common de-duplication `dd` (first occurrences of the pairs of leaves with a
non-empty left leaf), which the logging callback `logNe` computes on any list (`runL_logNe_dd`).
-/
namespace Vata
namespace InclDownTables
open M BddAbs BddAbsTD BddTraverse InclDown
open InclUp (normS prodWit Wit)

def SymDetPos (n : Nat) (ar : Nat → Nat) (a : Node LS) : Prop :=
  ∀ f g, f < 2 ^ n → g < 2 ^ n → eval a (bits f) ≠ [] → eval a (bits f) = eval a (bits g) → f = g ∨ ar f = 0

theorem symDetPos_of_symDet {n : Nat} {ar : Nat → Nat} {a : Node LS} (h : SymDet n a) : SymDetPos n ar a :=
  fun f g hf hg hne he => Or.inl (h f g hf hg hne he)

/-! ### the de-duplication the logging callback computes -/

/-- the items with a non-empty left leaf whose pair of leaves is not among `s` nor earlier in the list -/
def dd : List It → List It → List It
  | [], _ => []
  | i :: l, s => if i.2.1.isEmpty || s.any (fun j => j.2 == i.2) then dd l s else i :: dd l (s ++ [i])

theorem runL_logNe_dd : ∀ (l s : List It), runL logNe l s = .ok (s ++ dd l s)
  | [], s => by simp [runL, dd]
  | i :: l, s => by
    simp only [runL, logNe, dd]
    by_cases hc : (i.2.1.isEmpty || s.any (fun j => j.2 == i.2)) = true
    · rw [if_pos hc, if_pos hc]; exact runL_logNe_dd l s
    · rw [if_neg hc, if_neg hc, runL_logNe_dd l (s ++ [i])]; simp

theorem dd_cond {i : It} {s : List It} :
    (i.2.1.isEmpty || s.any (fun j => j.2 == i.2)) = true ↔ i.2.1 = [] ∨ ∃ j, j ∈ s ∧ j.2 = i.2 := by
  simp [List.isEmpty_iff]

/-! ### the functor on nullary leaves -/

/-- the functor on an item (ghost symbol, left leaf, right leaf) -/
def fItem (call1 call2 : Call) (wit : Wit) (post : List Nat → List Nat) (i : It) : List Pair → St → Ret :=
  procLeaf call1 call2 wit post i.1 i.2.1 i.2.2

theorem procLeaf_nullary (call1 call2 : Call) (wit : Wit) (post : List Nat → List Nat) (f : Nat) {L W : LS}
    (hL : L ≠ []) (h0 : (L.headD []).length = 0) (cc : List Pair) (st : St) :
    procLeaf call1 call2 wit post f L W cc st =
      if W.isEmpty then some (.fails (.node f []), cc, st) else some (.holds, cc, st) := by
  unfold procLeaf
  have h1 : ¬ L.isEmpty = true := by simpa [List.isEmpty_iff] using hL
  simp only [h1, if_false, h0, if_true, Bool.false_eq_true]

/-- what the repeated nullary call needs: the relation between two items -/
def RNull (i j : It) : Prop := i.2 = j.2 → i.2.1 ≠ [] → (i.2.1.headD []).length = 0

theorem forAllL_dd (call1 call2 : Call) (wit : Wit) (post : List Nat → List Nat) :
    ∀ (l s : List It) (cc : List Pair) (st : St),
      (∀ i, i ∈ l → i.2.1 ≠ [] → (∃ j, j ∈ s ∧ j.2 = i.2) → (i.2.1.headD []).length = 0 ∧ i.2.2 ≠ []) →
      l.Pairwise RNull →
      forAllL (fItem call1 call2 wit post) l cc st = forAllL (fItem call1 call2 wit post) (dd l s) cc st
  | [], s, cc, st, _, _ => rfl
  | i :: l, s, cc, st, H1, H2 => by
    obtain ⟨h2a, h2b⟩ := List.pairwise_cons.mp H2
    have H1' : ∀ j, j ∈ l → j.2.1 ≠ [] → (∃ k, k ∈ s ∧ k.2 = j.2) → (j.2.1.headD []).length = 0 ∧ j.2.2 ≠ [] :=
      fun j hj => H1 j (List.mem_cons_of_mem _ hj)
    simp only [dd]
    by_cases hc : (i.2.1.isEmpty || s.any (fun j => j.2 == i.2)) = true
    · rw [if_pos hc]
      have hskip : fItem call1 call2 wit post i cc st = some (.holds, cc, st) := by
        unfold fItem
        by_cases he : i.2.1 = []
        · rw [he]; rfl
        · rcases dd_cond.mp hc with h | h
          · exact absurd h he
          · obtain ⟨k0, kW⟩ := H1 i List.mem_cons_self he h
            rw [procLeaf_nullary call1 call2 wit post i.1 he k0]
            have : ¬ i.2.2.isEmpty = true := by simpa [List.isEmpty_iff] using kW
            rw [if_neg this]
      simp only [forAllL, hskip]
      exact forAllL_dd call1 call2 wit post l s cc st H1' h2b
    · rw [if_neg hc]
      have hne : i.2.1 ≠ [] := fun he => hc (dd_cond.mpr (Or.inl he))
      simp only [forAllL]
      cases hr : fItem call1 call2 wit post i cc st with
      | none => rfl
      | some r =>
        obtain ⟨v, cc', st'⟩ := r
        cases v with
        | fails w => rfl
        | holds =>
          simp only []
          refine forAllL_dd call1 call2 wit post l (s ++ [i]) cc' st' ?_ h2b
          intro j hj hjne ⟨k, hk, hkj⟩
          rcases List.mem_append.mp hk with hk | hk
          · exact H1' j hj hjne ⟨k, hk, hkj⟩
          · rw [List.mem_singleton.mp hk] at hkj
            have h0 := h2a j hj hkj hne
            have hW : i.2.2 ≠ [] := by
              intro hW
              unfold fItem at hr
              rw [procLeaf_nullary call1 call2 wit post i.1 hne h0, hW] at hr
              simp at hr
            rw [← hkj]
            exact ⟨h0, hW⟩

/-! ### both call lists are lists of symbol items -/

/-- the items of all symbols: pairwise, equal pairs of leaves with a non-empty left leaf only for nullary symbols -/
theorem syms_pairwise_null {n : Nat} {ar : Nat → Nat} {a b : Node LS} (hd : SymDetPos n ar a)
    (hrk : ∀ c ks, c < 2 ^ n → ks ∈ eval a (bits c) → ks.length = ar c) : (symItems a b 0 (2 ^ n)).Pairwise RNull := by
  unfold symItems
  rw [List.pairwise_map]
  refine List.Pairwise.imp_of_mem ?_ (List.pairwise_lt_range (n := 2 ^ n))
  intro f g hf hg hlt e ne1
  simp only [Nat.zero_add] at e ne1 ⊢
  have hf' := List.mem_range.mp hf
  rcases hd f g hf' (List.mem_range.mp hg) ne1 (congrArg Prod.fst e) with h | h
  · omega
  · obtain ⟨ks, L, hL⟩ := List.exists_cons_of_ne_nil ne1
    rw [hL, List.headD_cons, hrk f ks hf' (by rw [hL]; exact List.mem_cons_self), h]

theorem paths_pairwise_null {n : Nat} {ar : Nat → Nat} {a b : Node LS} (wa : WF a) (wb : WF b) (ba : Below n a)
    (bb : Below n b) (hd : SymDetPos n ar a) (hrk : ∀ c ks, c < 2 ^ n → ks ∈ eval a (bits c) → ks.length = ar c) :
    ((voidApply2P a b).map symItem).Pairwise RNull := by
  rw [List.pairwise_map]
  have hdis := pairwise_of_countP_le_one (fun (r : Nat → Bool) (c : Path × LS × LS) => inPath r c.1) (voidApply2P a b)
    (fun r => Nat.le_of_eq (voidApply2P_partition r a b))
  refine List.Pairwise.imp_of_mem ?_ hdis
  intro c₁ c₂ h1 h2 hr e ne1
  obtain ⟨l1, i1, _⟩ := voidApply2P_nonempty wa wb ba bb h1
  obtain ⟨l2, i2, _⟩ := voidApply2P_nonempty wa wb ba bb h2
  have s1 := (voidApply2P_sound _ a b c₁ h1 i1).1
  have s2 := (voidApply2P_sound _ a b c₂ h2 i2).1
  simp only [symItem] at ne1 e ⊢
  have e' : c₁.2.1 = c₂.2.1 := congrArg Prod.fst e
  rcases hd _ _ l1 l2 (by rw [← s1]; exact ne1) (by rw [← s1, ← s2]; exact e') with h | h
  · exact absurd ⟨i1, by rw [h]; exact i2⟩ (hr (bits (reprSym c₁.1)))
  · obtain ⟨ks, L, hL⟩ := List.exists_cons_of_ne_nil ne1
    rw [hL, List.headD_cons, hrk _ ks l1 (by rw [← s1, hL]; exact List.mem_cons_self), h]

/-- the calls of the traversal as coded and the loop over all symbols have the same de-duplication -/
theorem dd_calls_eq {n : Nat} {a b : Node LS} (wa : WF a) (wb : WF b) (ba : Below n a) (bb : Below n b) :
    dd ((voidApply2Calls a b).map symItem) [] = dd (symItems a b 0 (2 ^ n)) [] := by
  have h1 := symLoop_eq_trav idem_logNe n a b 0 wa wb ba bb []
  have h2 := voidApply2Calls_run idem_logNe a b reprSym []
  have e0 : travItems a b (2 ^ n * 0) = (voidApply2P a b).map symItem := by
    simp [travItems, symItem_eq]
  rw [Nat.mul_zero] at h1
  rw [Nat.mul_zero] at e0
  rw [e0] at h1
  rw [← symItem_eq] at h2
  rw [← h1, runL_logNe_dd, runL_logNe_dd] at h2
  simpa using h2

/-! ### the dump: its groups are the symbol items with a non-empty left leaf (no `SymDet`) -/

theorem groupItems_pathOrder {n : Nat} {ar : Nat → Nat} {syms : List Nat} {TA TB : TableTD} (FA FB : List Nat)
    (hs : syms.Pairwise (· < ·)) (hb : ∀ c, c ∈ syms → c < 2 ^ n)
    (hcov : ∀ p c, c < 2 ^ n → eval (getTD TA p) (bits c) ≠ [] → c ∈ syms)
    (okA : TabOK n ar TA) (okB : TabOK n ar TB) (p : Nat) (P : List Nat) :
    neIt (symItems (getTD TA p) (unionAllTD TB P) 0 (2 ^ n)) =
      groupItems (pathOrder syms TA FA) (pathOrder syms TB FB) p P := by
  unfold groupItems
  rw [lhsGroups_pathOrder FA hs hb okA p, List.map_map]
  unfold neIt symItems
  rw [List.filter_map]
  have e2 : (List.range (2 ^ n)).filter ((fun i : It => !i.2.1.isEmpty) ∘
      fun g => (0 + g, eval (getTD TA p) (bits (0 + g)), eval (unionAllTD TB P) (bits (0 + g)))) =
      syms.filter (fun c => !(eval (getTD TA p) (bits c)).isEmpty) := by
    refine sorted_ext (List.pairwise_lt_range.filter _) (hs.filter _) (fun c => ?_)
    simp only [List.mem_filter, List.mem_range, Function.comp, Nat.zero_add, Bool.not_eq_true',
      List.isEmpty_eq_false_iff]
    constructor
    · rintro ⟨h1, h2⟩; exact ⟨hcov p c h1 h2, h2⟩
    · rintro ⟨h1, h2⟩; exact ⟨hb c h1, h2⟩
  rw [e2]
  refine List.map_congr_left (fun c hc => ?_)
  obtain ⟨hc1, _⟩ := List.mem_filter.mp hc
  simp only [Function.comp, Nat.zero_add]
  rw [lhsTuples_pathOrder FA hs okA p hc1 (hb c hc1), rhsTuples_pathOrder FB hs okB P hc1 (hb c hc1)]

/-- **the traversal as coded is the loop of the abstract model** when the only classes of the left table are nullary -/
theorem bodyT_eq_nullary {n : Nat} {ar : Nat → Nat} {syms : List Nat} {TA TB : TableTD} (FA FB : List Nat)
    (hs : syms.Pairwise (· < ·)) (hb : ∀ c, c ∈ syms → c < 2 ^ n)
    (hcov : ∀ p c, c < 2 ^ n → eval (getTD TA p) (bits c) ≠ [] → c ∈ syms)
    (okA : TabOK n ar TA) (okB : TabOK n ar TB) (hd : ∀ p, SymDetPos n ar (getTD TA p))
    (call1 call2 : Call) (wit : Wit) (post : List Nat → List Nat) (p : Nat) (P : List Nat) (cc : List Pair) (st : St) :
    bodyT call1 call2 TA TB wit post p P cc st =
      body call1 call2 (pathOrder syms TA FA) (pathOrder syms TB FB) wit post p P cc st := by
  have hu := unionAllTD_wf okB.wf P
  have hrk : ∀ c ks, c < 2 ^ n → ks ∈ eval (getTD TA p) (bits c) → ks.length = ar c := fun c ks => okA.ranked p c ks
  have pS := syms_pairwise_null (b := unionAllTD TB P) (hd p) hrk
  have pP := paths_pairwise_null (okA.wf p).1 hu.1 (okA.wf p).2 hu.2 (hd p) hrk
  have pC : ((voidApply2Calls (getTD TA p) (unionAllTD TB P)).map symItem).Pairwise RNull :=
    List.Pairwise.sublist ((voidApply2C_sublist _ _ []).map _) pP
  have hnil : ∀ (l : List It) i, i ∈ l → i.2.1 ≠ [] → (∃ j, j ∈ ([] : List It) ∧ j.2 = i.2) →
      (i.2.1.headD []).length = 0 ∧ i.2.2 ≠ [] := fun _ _ _ _ ⟨_, hj, _⟩ => by cases hj
  -- the code: the calls
  have e1 : bodyT call1 call2 TA TB wit post p P cc st =
      forAllL (fItem call1 call2 wit post) ((voidApply2Calls (getTD TA p) (unionAllTD TB P)).map symItem) cc st := by
    unfold bodyT travDown
    rw [forAllL_map]; rfl
  -- the model: the groups
  have e2 : body call1 call2 (pathOrder syms TA FA) (pathOrder syms TB FB) wit post p P cc st =
      forAllL (fItem call1 call2 wit post) (symItems (getTD TA p) (unionAllTD TB P) 0 (2 ^ n)) cc st := by
    unfold body
    have e3 : forAllL (fItem call1 call2 wit post) (symItems (getTD TA p) (unionAllTD TB P) 0 (2 ^ n)) cc st =
        forAllL (fItem call1 call2 wit post) (neIt (symItems (getTD TA p) (unionAllTD TB P) 0 (2 ^ n))) cc st := by
      unfold neIt
      refine (forAllL_filter _ _ ?_ _ cc st).symm
      intro i hi cc st
      have : i.2.1 = [] := by
        cases hcl : i.2.1 with
        | nil => rfl
        | cons a l => rw [hcl] at hi; simp at hi
      unfold fItem
      rw [this]; rfl
    rw [e3, groupItems_pathOrder FA FB hs hb hcov okA okB p P]
    unfold groupItems
    rw [forAllL_map]
    exact forAllL_congr (fun g hg => by
      funext cc st
      exact procGroup_eq_procLeaf call1 call2 _ _ wit post p P hg cc st) cc st
  rw [e1, e2, forAllL_dd call1 call2 wit post _ [] cc st (hnil _) pC,
    forAllL_dd call1 call2 wit post _ [] cc st (hnil _) pS,
    dd_calls_eq (okA.wf p).1 hu.1 (okA.wf p).2 hu.2]

/-! ### from the agreement of the bodies to the agreement of the runs -/

theorem expandT_eq_of_body {TA TB : TableTD} {A B : Vata.TA}
    (h : ∀ call1 call2 wit post p P cc st, bodyT call1 call2 TA TB wit post p P cc st = body call1 call2 A B wit post p P cc st)
    (o : Ord) (wit : Wit) : ∀ fuel, expandT o TA TB wit fuel = expand o A B wit fuel := by
  intro fuel
  induction fuel with
  | zero => funext ws cc st p P; rfl
  | succ n ih =>
    funext ws cc st p P
    simp only [expandT, expand, ih, h]
    rfl

theorem rootLoopT_eq_of_body {TA TB : TableTD} {A B : Vata.TA}
    (h : ∀ call1 call2 wit post p P cc st, bodyT call1 call2 TA TB wit post p P cc st = body call1 call2 A B wit post p P cc st)
    (o : Ord) (wit : Wit) (fuel : Nat) (FB : List Nat) : ∀ (fs : List Nat) (cc : List Pair) (st : St),
    rootLoopT o TA TB wit fuel FB fs cc st = rootLoop o A B wit fuel FB fs cc st
  | [], _, _ => rfl
  | f :: fs, cc, st => by
    simp only [rootLoopT, rootLoop, expandT_eq_of_body h, h]
    split
    · exact rootLoopT_eq_of_body h o wit fuel FB fs cc st
    · cases body (expand o A B wit fuel []) (expand o A B wit fuel []) A B wit normS f FB cc st with
      | none => rfl
      | some r =>
        obtain ⟨v, cc', st'⟩ := r
        cases v with
        | holds => exact rootLoopT_eq_of_body h o wit fuel FB fs cc' _
        | fails w => rfl

theorem runTD_eq_of_body {TA TB : TableTD} {A B : Vata.TA}
    (h : ∀ call1 call2 wit post p P cc st, bodyT call1 call2 TA TB wit post p P cc st = body call1 call2 A B wit post p P cc st)
    (o : Ord) (fuel : Nat) : runTD o TA A.final TB B.final (prodWit A) fuel = run o A B fuel := by
  unfold runTD run
  rw [rootLoopT_eq_of_body h]
  rfl

/-! ### the rule-level criterion for loaded tables -/

theorem arOf_rankOf (r : Rule) : arOf (rankOf r) = r.kids.length % 64 := by
  unfold arOf rankOf
  have h2 : r.sym % 2 ^ 16 < 2 ^ 16 := Nat.mod_lt _ (by decide)
  omega

/-- two rules with the same parent have the same ranked symbol, or are nullary, or have different sets of children tuples -/
def symDetPosRulesB (rs : List Rule) : Bool :=
  rs.all (fun r₁ => rs.all (fun r₂ =>
    r₁.parent != r₂.parent || rankOf r₁ == rankOf r₂ || r₁.kids.length % 64 == 0 ||
      !sameSetB (tuplesOfRank rs r₁.parent (rankOf r₁)) (tuplesOfRank rs r₂.parent (rankOf r₂))))

theorem symDetPos_ofRulesTD_iff (rs : List Rule) :
    (∀ p, SymDetPos 22 arOf (getTD (ofRulesTD rs) p)) ↔ symDetPosRulesB rs = true := by
  constructor
  · intro h
    simp only [symDetPosRulesB, List.all_eq_true, Bool.or_eq_true, bne_iff_ne, ne_eq, beq_iff_eq, Bool.not_eq_true']
    intro r₁ h1 r₂ h2
    by_cases hp : r₁.parent = r₂.parent
    · by_cases hk : rankOf r₁ = rankOf r₂
      · exact Or.inl (Or.inl (Or.inr hk))
      · by_cases h0 : r₁.kids.length % 64 = 0
        · exact Or.inl (Or.inr h0)
        · refine Or.inr ?_
          cases hs : sameSetB (tuplesOfRank rs r₁.parent (rankOf r₁)) (tuplesOfRank rs r₂.parent (rankOf r₂)) with
          | false => rfl
          | true =>
            exfalso
            rw [← hp] at hs
            have he := (eval_ofRulesTD_eq_iff rs r₁.parent (rankOf_lt r₁) (rankOf_lt r₂)).mpr hs
            have hne : eval (getTD (ofRulesTD rs) r₁.parent) (bits (rankOf r₁)) ≠ [] :=
              List.ne_nil_of_mem ((mem_eval_ofRulesTD rs r₁.parent (rankOf_lt r₁) r₁.kids).mpr ⟨r₁, h1, rfl, rfl, rfl⟩)
            rcases h r₁.parent _ _ (rankOf_lt r₁) (rankOf_lt r₂) hne he with h' | h'
            · exact hk h'
            · rw [arOf_rankOf] at h'; exact h0 h'
    · exact Or.inl (Or.inl (Or.inl hp))
  · intro h p f g hf hg hne he
    simp only [symDetPosRulesB, List.all_eq_true, Bool.or_eq_true, bne_iff_ne, ne_eq, beq_iff_eq, Bool.not_eq_true'] at h
    obtain ⟨ks, hks⟩ := List.exists_mem_of_ne_nil _ hne
    obtain ⟨r₁, m1, _, p1, k1⟩ := (mem_eval_ofRulesTD rs p hf ks).mp hks
    obtain ⟨r₂, m2, _, p2, k2⟩ := (mem_eval_ofRulesTD rs p hg ks).mp (by rw [← he]; exact hks)
    rcases h r₁ m1 r₂ m2 with ((h' | h') | h') | h'
    · exact absurd (by rw [p1, p2]) h'
    · exact Or.inl (by rw [← k1, ← k2]; exact h')
    · exact Or.inr (by rw [← k1, arOf_rankOf]; exact h')
    · rw [p1, p2, k1, k2, (eval_ofRulesTD_eq_iff rs p hf hg).mp he] at h'
      cases h'

example : symDetPosRulesB BddAbsEx.rsA = true ∧ symDetRulesB BddAbsEx.rsA = false := by decide
/-- two UNARY symbols with the same children: not covered -/
example : symDetPosRulesB [⟨5, [1], 2⟩, ⟨6, [1], 2⟩] = false := by decide

end InclDownTables
end Vata
