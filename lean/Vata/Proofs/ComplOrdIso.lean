import Vata.Proofs.ComplOrd
import Vata.Proofs.Equivariance
import Vata.Proofs.BddAbsTD
/-!
# Complementation with an arbitrary exploration order: the results are isomorphic

* `TAIso σ τ C D`: `σ` and `τ` are mutually inverse bijections between the states of `C` and `D` that carry rules to
  rules and final states to final states; consequences: same language, same number of states, same number of rules (for
  duplicate-free rule lists); trimming (`removeUseless`) preserves isomorphism.
* `raw_iso`: the untrimmed results of two finished runs are isomorphic through `ordIso` (the number a macro-state has in
  the first cache ↦ its number in the second), because both caches are duplicate-free lists of the SAME set `MReach`, and
  the rules are the ones the cache prescribes.
* `complTDOrd_iso`, `complTDOrd_sizes`.
-/
namespace Vata

/-- `σ`, `τ`: mutually inverse bijections between the states of `C` and of `D`, rules to rules, final to final -/
structure TAIso (σ τ : Nat → Nat) (C D : TA) : Prop where
  toFun : ∀ q, q ∈ C.states → σ q ∈ D.states ∧ τ (σ q) = q
  invFun : ∀ q, q ∈ D.states → τ q ∈ C.states ∧ σ (τ q) = q
  rules : ∀ r, r ∈ C.rules → mapRule σ r ∈ D.rules
  rulesInv : ∀ r, r ∈ D.rules → mapRule τ r ∈ C.rules
  final : ∀ q, q ∈ C.final → σ q ∈ D.final
  finalInv : ∀ q, q ∈ D.final → τ q ∈ C.final

namespace TAIso
open BddAbsTD (SetEqTA)

theorem symm {σ τ : Nat → Nat} {C D : TA} (h : TAIso σ τ C D) : TAIso τ σ D C :=
  ⟨h.invFun, h.toFun, h.rulesInv, h.rules, h.finalInv, h.final⟩

theorem image_mem_states {σ : Nat → Nat} {C D : TA} (hr : ∀ r, r ∈ C.rules → mapRule σ r ∈ D.rules)
    (hf : ∀ q, q ∈ C.final → σ q ∈ D.final) {q : Nat} (hq : q ∈ C.states) : σ q ∈ D.states := by
  rcases Rn.mem_states.mp hq with ⟨r, hr', hc⟩ | hq
  · rcases hc with hc | hc
    · rw [hc]; exact Rn.parent_mem_states (hr r hr')
    · exact Rn.kid_mem_states (hr r hr') (r := mapRule σ r) (List.mem_map.mpr ⟨q, hc, rfl⟩)
  · exact Rn.final_mem_states (hf q hq)

/-- an isomorphism from its essential data -/
theorem mk' {σ τ : Nat → Nat} {C D : TA} (h1 : ∀ q, q ∈ C.states → τ (σ q) = q) (h2 : ∀ q, q ∈ D.states → σ (τ q) = q)
    (hr : ∀ r, r ∈ C.rules → mapRule σ r ∈ D.rules) (hr' : ∀ r, r ∈ D.rules → mapRule τ r ∈ C.rules)
    (hf : ∀ q, q ∈ C.final → σ q ∈ D.final) (hf' : ∀ q, q ∈ D.final → τ q ∈ C.final) : TAIso σ τ C D :=
  ⟨fun q hq => ⟨image_mem_states hr hf hq, h1 q hq⟩, fun q hq => ⟨image_mem_states hr' hf' hq, h2 q hq⟩,
    hr, hr', hf, hf'⟩

theorem inj {σ τ : Nat → Nat} {C D : TA} (h : TAIso σ τ C D) : InjOnStates σ C := by
  intro q q' hq hq' e
  rw [← (h.toFun q hq).2, ← (h.toFun q' hq').2, e]

theorem mapRule_inv {σ τ : Nat → Nat} {C D : TA} (h : TAIso σ τ C D) {r : Rule} (hr : r ∈ D.rules) :
    mapRule σ (mapRule τ r) = r := by
  cases r with
  | mk f ks p =>
    simp only [mapRule, List.map_map, Rule.mk.injEq, true_and]
    constructor
    · have : ∀ k, k ∈ ks → (σ ∘ τ) k = id k := fun k hk => (h.invFun k (Rn.kid_mem_states hr hk)).2
      rw [List.map_congr_left this, List.map_id]
    · exact (h.invFun p (Rn.parent_mem_states hr)).2

/-- `D` is the `σ`-image of `C` (as sets of rules and of final states) -/
theorem setEq {σ τ : Nat → Nat} {C D : TA} (h : TAIso σ τ C D) : SetEqTA (reindex σ C) D := by
  constructor
  · intro r
    rw [reindex_rules]
    constructor
    · rintro ⟨r', hr', rfl⟩; exact h.rules r' hr'
    · intro hr
      exact ⟨mapRule τ r, h.rulesInv r hr, (h.mapRule_inv hr).symm⟩
  · intro q
    rw [reindex_final]
    constructor
    · rintro ⟨q', hq', rfl⟩; exact h.final q' hq'
    · intro hq
      exact ⟨τ q, h.finalInv q hq, (h.invFun q (Rn.final_mem_states hq)).2.symm⟩

/-- isomorphic automata accept the same trees -/
theorem lang {σ τ : Nat → Nat} {C D : TA} (h : TAIso σ τ C D) (t : Tree) : accepts C t = accepts D t := by
  rw [← reindex_inj_lang σ C h.inj t]
  exact h.setEq.lang t

theorem length_eq_of_mem_iff {α : Type} {l₁ l₂ : List α} (h₁ : l₁.Nodup) (h₂ : l₂.Nodup) (h : ∀ a, a ∈ l₁ ↔ a ∈ l₂) :
    l₁.length = l₂.length :=
  Nat.le_antisymm (h₁.length_le_of_subset (fun a ha => (h a).mp ha)) (h₂.length_le_of_subset (fun a ha => (h a).mpr ha))

theorem setEq_states {A B : TA} (h : SetEqTA A B) (q : Nat) : q ∈ A.states ↔ q ∈ B.states := by
  rw [Rn.mem_states, Rn.mem_states]
  constructor
  · rintro (⟨r, hr, hc⟩ | hf)
    · exact Or.inl ⟨r, (h.1 r).mp hr, hc⟩
    · exact Or.inr ((h.2 q).mp hf)
  · rintro (⟨r, hr, hc⟩ | hf)
    · exact Or.inl ⟨r, (h.1 r).mpr hr, hc⟩
    · exact Or.inr ((h.2 q).mpr hf)

/-- isomorphic automata have the same number of states -/
theorem states_length {σ τ : Nat → Nat} {C D : TA} (h : TAIso σ τ C D) : C.states.length = D.states.length := by
  rw [← reindex_states_length σ C h.inj]
  exact length_eq_of_mem_iff (PropAux.nodup_states _) (PropAux.nodup_states _) (setEq_states h.setEq)

theorem nodup_map_on {α β : Type} {f : α → β} : ∀ {l : List α}, l.Nodup →
    (∀ a b, a ∈ l → b ∈ l → f a = f b → a = b) → (l.map f).Nodup
  | [], _, _ => List.nodup_nil
  | x :: l, hn, hinj => by
    rw [List.map_cons, List.nodup_cons]
    obtain ⟨hx, hl⟩ := List.nodup_cons.mp hn
    refine ⟨?_, nodup_map_on hl (fun a b ha hb => hinj a b (List.mem_cons_of_mem _ ha) (List.mem_cons_of_mem _ hb))⟩
    intro hm
    obtain ⟨y, hy, e⟩ := List.mem_map.mp hm
    have := hinj y x (List.mem_cons_of_mem _ hy) List.mem_cons_self e
    exact hx (this ▸ hy)

theorem mapRule_inj_on {σ : Nat → Nat} {C : TA} (hinj : InjOnStates σ C) {r r' : Rule} (hr : r ∈ C.rules)
    (hr' : r' ∈ C.rules) (e : mapRule σ r = mapRule σ r') : r = r' := by
  cases r with
  | mk f ks p =>
    cases r' with
    | mk f' ks' p' =>
      simp only [mapRule, Rule.mk.injEq] at e
      obtain ⟨e1, e2, e3⟩ := e
      have hk : ks = ks' := Eqv.map_inj_on σ (fun q => q ∈ C.states) hinj ks ks'
        (fun a ha => Rn.kid_mem_states hr ha) (fun a ha => Rn.kid_mem_states hr' ha) e2
      have hp : p = p' := hinj p p' (Rn.parent_mem_states hr) (Rn.parent_mem_states hr') e3
      rw [e1, hk, hp]

/-- isomorphic automata with duplicate-free rule lists have the same number of rules -/
theorem rules_length {σ τ : Nat → Nat} {C D : TA} (h : TAIso σ τ C D) (hC : C.rules.Nodup) (hD : D.rules.Nodup) :
    C.rules.length = D.rules.length := by
  rw [← reindex_rules_length σ C]
  apply length_eq_of_mem_iff _ hD h.setEq.1
  exact nodup_map_on hC (fun a b ha hb e => mapRule_inj_on h.inj ha hb e)

/-! ### trimming -/

theorem setEq_removeUseless {A B : TA} (h : SetEqTA A B) : SetEqTA (removeUseless A) (removeUseless B) := by
  rw [removeUseless_eq, removeUseless_eq]
  apply BddAbsTD.setEqTA_removeUnreachable
  constructor
  · intro r
    rw [BddAbsTD.mem_restrict_rules, BddAbsTD.mem_restrict_rules, h.1 r, BddAbsTD.mem_prodStates_skel h.skel]
    constructor
    · rintro ⟨h1, h2, h3⟩
      exact ⟨h1, h2, fun k hk => (BddAbsTD.mem_prodStates_skel h.skel k).mp (h3 k hk)⟩
    · rintro ⟨h1, h2, h3⟩
      exact ⟨h1, h2, fun k hk => (BddAbsTD.mem_prodStates_skel h.skel k).mpr (h3 k hk)⟩
  · intro q
    rw [BddAbsTD.mem_restrict_final, BddAbsTD.mem_restrict_final, h.2 q, BddAbsTD.mem_prodStates_skel h.skel]

theorem removeUseless_half {σ τ : Nat → Nat} {C D : TA} (h : TAIso σ τ C D) :
    (∀ r, r ∈ (removeUseless C).rules → mapRule σ r ∈ (removeUseless D).rules) ∧
    (∀ q, q ∈ (removeUseless C).final → σ q ∈ (removeUseless D).final) := by
  have hs := setEq_removeUseless h.setEq
  rw [removeUseless_reindex_eq σ C h.inj] at hs
  exact ⟨fun r hr => (hs.1 _).mp ((reindex_rules σ _ _).mpr ⟨r, hr, rfl⟩),
    fun q hq => (hs.2 _).mp ((reindex_final σ _ _).mpr ⟨q, hq, rfl⟩)⟩

/-- `RemoveUselessStates` maps isomorphic automata to isomorphic automata (same bijection) -/
theorem removeUseless {σ τ : Nat → Nat} {C D : TA} (h : TAIso σ τ C D) :
    TAIso σ τ (Vata.removeUseless C) (Vata.removeUseless D) :=
  mk' (fun q hq => (h.toFun q (Eqv.states_removeUseless_sub hq)).2)
    (fun q hq => (h.invFun q (Eqv.states_removeUseless_sub hq)).2)
    (removeUseless_half h).1 (removeUseless_half h.symm).1 (removeUseless_half h).2 (removeUseless_half h.symm).2

theorem nodup_rules_removeUseless {A : TA} (h : A.rules.Nodup) : (Vata.removeUseless A).rules.Nodup := by
  show (List.filter _ (List.filter _ A.rules)).Nodup
  exact List.Nodup.sublist (List.filter_sublist.trans List.filter_sublist) h

end TAIso

/-! ### the runs -/
namespace Compl
open InclUp (normS)

theorem getD_idxOf_of_mem {c : List (List Nat)} {P : List Nat} (h : P ∈ c) : c.getD (c.idxOf P) [] = P := by
  rw [List.getD_eq_getElem?_getD, getElem?_idxOf_of_mem h]; rfl

/-- the renaming sends the number of `P` in the first cache to its number in the second -/
theorem ordIso_idxOf {c₁ c₂ : List (List Nat)} {P : List Nat} (h : P ∈ c₁) : ordIso c₁ c₂ (c₁.idxOf P) = c₂.idxOf P := by
  unfold ordIso
  rw [getD_idxOf_of_mem h]

theorem Final.idx_zero {A : TA} {Sg : List (Nat × Nat)} {st : St} (F : Final A Sg st) :
    st.cache.idxOf (normS A.final) = 0 := idxOf_of_getElem? F.nodup F.head

theorem Final.getD_zero {A : TA} {Sg : List (Nat × Nat)} {st : St} (F : Final A Sg st) :
    st.cache.getD 0 [] = normS A.final := by
  rw [List.getD_eq_getElem?_getD, F.head]; rfl

/-- the states of the untrimmed result are numbers of macro-states -/
theorem Final.states_lt {A : TA} {Sg : List (Nat × Nat)} {st : St} (F : Final A Sg st) {q : Nat}
    (hq : q ∈ (⟨st.rules, [0]⟩ : TA).states) : q < st.cache.length := by
  have hcl := tdClosedB_iff.mp F.closed
  rcases Rn.mem_states.mp hq with ⟨r, hr, hc⟩ | hf
  · obtain ⟨P, f, n, c, hP, hfa, hc', rfl⟩ := mem_tdExpected.mp ((F.rules r).mp hr)
    rcases hc with hc | hc
    · rw [hc]; exact List.idxOf_lt_length_of_mem hP
    · simp only [macros, List.map_map, List.mem_map, List.mem_range, Function.comp] at hc
      obtain ⟨i, hi, rfl⟩ := hc
      exact List.idxOf_lt_length_of_mem (hcl P f n c hP hfa hc' i hi)
  · have : q = 0 := by simpa using hf
    rw [this, ← F.idx_zero]
    exact List.idxOf_lt_length_of_mem (mem_of_getElem? F.head)

theorem ordIso_inv {A : TA} {Sg : List (Nat × Nat)} {st₁ st₂ : St} (F₁ : Final A Sg st₁) (F₂ : Final A Sg st₂)
    {q : Nat} (hq : q < st₁.cache.length) : ordIso st₂.cache st₁.cache (ordIso st₁.cache st₂.cache q) = q := by
  have h1 : st₁.cache.getD q [] = st₁.cache[q] := by
    rw [List.getD_eq_getElem?_getD, List.getElem?_eq_getElem hq]; rfl
  have hm : st₁.cache[q] ∈ st₂.cache := (F₂.mem _).mpr ((F₁.mem _).mp (List.getElem_mem hq))
  unfold ordIso
  rw [h1, getD_idxOf_of_mem hm]
  exact F₁.nodup.idxOf_getElem q hq

theorem raw_rules_map {A : TA} {Sg : List (Nat × Nat)} {st₁ st₂ : St} (F₁ : Final A Sg st₁) (F₂ : Final A Sg st₂)
    {r : Rule} (hr : r ∈ st₁.rules) : mapRule (ordIso st₁.cache st₂.cache) r ∈ st₂.rules := by
  have hcl := tdClosedB_iff.mp F₁.closed
  obtain ⟨P, f, n, c, hP, hfa, hc, rfl⟩ := mem_tdExpected.mp ((F₁.rules r).mp hr)
  apply (F₂.rules _).mpr
  apply mem_tdExpected.mpr
  refine ⟨P, f, n, c, (F₂.mem _).mpr ((F₁.mem _).mp hP), hfa, hc, ?_⟩
  simp only [mapRule, List.map_map, Rule.mk.injEq, true_and]
  constructor
  · apply List.map_congr_left
    intro Q hQ
    simp only [macros, List.mem_map, List.mem_range] at hQ
    obtain ⟨i, hi, rfl⟩ := hQ
    exact ordIso_idxOf (hcl P f n c hP hfa hc i hi)
  · exact ordIso_idxOf hP

theorem ordIso_zero {A : TA} {Sg : List (Nat × Nat)} {st₁ st₂ : St} (F₁ : Final A Sg st₁) (F₂ : Final A Sg st₂) :
    ordIso st₁.cache st₂.cache 0 = 0 := by
  unfold ordIso
  rw [F₁.getD_zero, F₂.idx_zero]

/-- the untrimmed results of two finished runs are isomorphic -/
theorem raw_iso {A : TA} {Sg : List (Nat × Nat)} {st₁ st₂ : St} (F₁ : Final A Sg st₁) (F₂ : Final A Sg st₂) :
    TAIso (ordIso st₁.cache st₂.cache) (ordIso st₂.cache st₁.cache) ⟨st₁.rules, [0]⟩ ⟨st₂.rules, [0]⟩ := by
  apply TAIso.mk'
  · exact fun q hq => ordIso_inv F₁ F₂ (F₁.states_lt hq)
  · exact fun q hq => ordIso_inv F₂ F₁ (F₂.states_lt hq)
  · exact fun r hr => raw_rules_map F₁ F₂ hr
  · exact fun r hr => raw_rules_map F₂ F₁ hr
  · intro q hq
    have : q = 0 := by simpa using hq
    rw [this, ordIso_zero F₁ F₂]; exact List.mem_singleton.mpr rfl
  · intro q hq
    have : q = 0 := by simpa using hq
    rw [this, ordIso_zero F₂ F₁]; exact List.mem_singleton.mpr rfl

/-- two finished runs have discovered the same macro-states, and as many -/
theorem final_cache_same {A : TA} {Sg : List (Nat × Nat)} {st₁ st₂ : St} (F₁ : Final A Sg st₁) (F₂ : Final A Sg st₂) :
    (∀ P, P ∈ st₁.cache ↔ P ∈ st₂.cache) ∧ st₁.cache.length = st₂.cache.length ∧
      st₁.rules.length = st₂.rules.length := by
  have hm : ∀ P, P ∈ st₁.cache ↔ P ∈ st₂.cache := fun P => (F₁.mem P).trans (F₂.mem P).symm
  exact ⟨hm, TAIso.length_eq_of_mem_iff F₁.nodup F₂.nodup hm, (raw_iso F₁ F₂).rules_length F₁.nodupR F₂.nodupR⟩

theorem complTDOrd_unfold {pick : StO → Nat} {A : TA} {Sg : List (Nat × Nat)} {fuel : Nat} {C : TA}
    (h : complTDOrdS pick A Sg fuel = some C) :
    ∃ s, runOrdS pick A Sg fuel = some s ∧ C = removeUseless ⟨s.st.rules, [0]⟩ := by
  unfold complTDOrdS at h
  cases hr : runOrdS pick A Sg fuel with
  | none => rw [hr] at h; cases h
  | some s =>
    rw [hr] at h
    simp only [Option.map_some, Option.some.injEq] at h
    exact ⟨s, rfl, h.symm⟩

/-- the results of two exploration orders are isomorphic, through the renaming of the macro-state numbers -/
theorem complTDOrd_iso {p₁ p₂ : StO → Nat} {A : TA} {Sg : List (Nat × Nat)} {f₁ f₂ : Nat} {C D : TA}
    (h₁ : complTDOrdS p₁ A Sg f₁ = some C) (h₂ : complTDOrdS p₂ A Sg f₂ = some D) :
    ∃ s₁ s₂, runOrdS p₁ A Sg f₁ = some s₁ ∧ runOrdS p₂ A Sg f₂ = some s₂ ∧
      TAIso (ordIso s₁.st.cache s₂.st.cache) (ordIso s₂.st.cache s₁.st.cache) C D := by
  obtain ⟨s₁, hr₁, rfl⟩ := complTDOrd_unfold h₁
  obtain ⟨s₂, hr₂, rfl⟩ := complTDOrd_unfold h₂
  exact ⟨s₁, s₂, hr₁, hr₂, (raw_iso (runOrd_final hr₁) (runOrd_final hr₂)).removeUseless⟩

/-! ### the order of the symbols (`for (auto symbolIndexPair : symbolMap)`, an unordered map) does not matter either -/

theorem MReach.congr_sg {A : TA} {Sg Sg' : List (Nat × Nat)} (h : ∀ fa, fa ∈ Sg → fa ∈ Sg') {P : List Nat}
    (hP : MReach A Sg P) : MReach A Sg' P := by
  induction hP with
  | init => exact MReach.init
  | step _ hfa hc hi ih => exact MReach.step ih (h _ hfa) hc hi

/-- the properties of a finished run only depend on the SET of ranked symbols -/
theorem Final.congr_sg {A : TA} {Sg Sg' : List (Nat × Nat)} (h : ∀ fa, fa ∈ Sg ↔ fa ∈ Sg') {st : St}
    (F : Final A Sg st) : Final A Sg' st := by
  refine ⟨F.nodup, F.head, ?_, ?_, ?_, F.nodupR⟩
  · intro P
    rw [F.mem P]
    exact ⟨MReach.congr_sg (fun fa => (h fa).mp), MReach.congr_sg (fun fa => (h fa).mpr)⟩
  · intro r
    rw [F.rules r, mem_tdExpected, mem_tdExpected]
    constructor
    · rintro ⟨P, f, n, c, hP, hfa, hc, e⟩; exact ⟨P, f, n, c, hP, (h _).mp hfa, hc, e⟩
    · rintro ⟨P, f, n, c, hP, hfa, hc, e⟩; exact ⟨P, f, n, c, hP, (h _).mpr hfa, hc, e⟩
  · apply tdClosedB_iff.mpr
    intro P f n c hP hfa hc
    exact tdClosedB_iff.mp F.closed P f n c hP ((h _).mpr hfa) hc

/-- two exploration orders AND two listings of the same set of ranked symbols: isomorphic results -/
theorem complTDOrd_iso_sg {p₁ p₂ : StO → Nat} {A : TA} {Sg₁ Sg₂ : List (Nat × Nat)}
    (hSg : ∀ fa, fa ∈ Sg₁ ↔ fa ∈ Sg₂) {f₁ f₂ : Nat} {C D : TA}
    (h₁ : complTDOrdS p₁ A Sg₁ f₁ = some C) (h₂ : complTDOrdS p₂ A Sg₂ f₂ = some D) :
    ∃ s₁ s₂, runOrdS p₁ A Sg₁ f₁ = some s₁ ∧ runOrdS p₂ A Sg₂ f₂ = some s₂ ∧
      TAIso (ordIso s₁.st.cache s₂.st.cache) (ordIso s₂.st.cache s₁.st.cache) C D := by
  obtain ⟨s₁, hr₁, rfl⟩ := complTDOrd_unfold h₁
  obtain ⟨s₂, hr₂, rfl⟩ := complTDOrd_unfold h₂
  exact ⟨s₁, s₂, hr₁, hr₂, (raw_iso ((runOrd_final hr₁).congr_sg hSg) (runOrd_final hr₂)).removeUseless⟩

/-- the same for EVERY two executions of the loop (any element taken in any round) -/
theorem runs_iso {A : TA} {Sg₁ Sg₂ : List (Nat × Nat)} (hSg : ∀ fa, fa ∈ Sg₁ ↔ fa ∈ Sg₂) {s₁ s₂ : StO}
    (h₁ : Runs A Sg₁ (initOrd A) s₁) (h₂ : Runs A Sg₂ (initOrd A) s₂) :
    TAIso (ordIso s₁.st.cache s₂.st.cache) (ordIso s₂.st.cache s₁.st.cache)
      (removeUseless ⟨s₁.st.rules, [0]⟩) (removeUseless ⟨s₂.st.rules, [0]⟩) :=
  (raw_iso (h₁.final.congr_sg hSg) h₂.final).removeUseless

theorem complTDOrd_nodup_rules {p : StO → Nat} {A : TA} {Sg : List (Nat × Nat)} {f : Nat} {C : TA}
    (h : complTDOrdS p A Sg f = some C) : C.rules.Nodup := by
  obtain ⟨s, hr, rfl⟩ := complTDOrd_unfold h
  exact TAIso.nodup_rules_removeUseless (runOrd_final hr).nodupR

end Compl
end Vata
