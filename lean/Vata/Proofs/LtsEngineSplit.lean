import Vata.Proofs.LtsEngineAux
/-!
# The LTS simulation engine: well-formedness of the state and the effect of splitting a block

`WF` (partition, relation and insets are consistent), `Refine e0 e1 par` (`e1` arises from `e0` by splitting blocks:
every block `i` of `e1` lies inside block `par i` of `e0`, sees the same states through its row, has the same counters
and the same remove lists), and the lemmas that `splitBlockCore` / `copySlots` produce such a refinement.
-/
namespace Vata.LE
open Vata.L

/-- number of states of the block with an incoming `a`-edge -/
def cntIn (L : LTS) (a : Nat) (blk : List Nat) : Nat := blk.countP (hasIn L a)

/-- the `SmartSet` `s` is the inset of the block -/
def InsFor (L : LTS) (s : List (Nat × Nat)) (blk : List Nat) : Prop := InsOK s ∧ ∀ a, insCount s a = cntIn L a blk

theorem InsFor.mem_iff {L : LTS} {s : List (Nat × Nat)} {blk : List Nat} (h : InsFor L s blk) (a : Nat) :
    a ∈ insKeys s ↔ ∃ q, q ∈ blk ∧ hasIn L a q = true := by
  rw [← insCount_pos_iff h.1, h.2 a, cntIn, List.countP_pos_iff]

/-! ### moving labels between insets -/

theorem foldl_insAdd (ls : List Nat) (hls : ls.Nodup) (s : List (Nat × Nat)) (hs : InsOK s) :
    InsOK (ls.foldl insAdd s) ∧ ∀ a, insCount (ls.foldl insAdd s) a = insCount s a + (if a ∈ ls then 1 else 0) := by
  induction ls generalizing s with
  | nil => exact ⟨hs, fun a => by simp⟩
  | cons x ls ih =>
    have hnd := List.nodup_cons.mp hls
    have := ih hnd.2 (insAdd s x) (insOK_insAdd hs x)
    simp only [List.foldl_cons]
    refine ⟨this.1, ?_⟩
    intro a
    rw [this.2 a, insCount_insAdd]
    by_cases hax : a = x
    · subst hax
      simp [hnd.1]
    · simp [hax]

theorem foldl_move (ls : List Nat) (hls : ls.Nodup) (pc : List (Nat × Nat) × List (Nat × Nat))
    (hp : InsOK pc.1) (hc : InsOK pc.2) :
    let r := ls.foldl (fun pc a => (insRemove pc.1 a, insAdd pc.2 a)) pc
    InsOK r.1 ∧ InsOK r.2 ∧ ∀ a, insCount r.1 a = insCount pc.1 a - (if a ∈ ls then 1 else 0) ∧
      insCount r.2 a = insCount pc.2 a + (if a ∈ ls then 1 else 0) := by
  induction ls generalizing pc with
  | nil => exact ⟨hp, hc, fun a => by simp⟩
  | cons x ls ih =>
    have hnd := List.nodup_cons.mp hls
    have := ih hnd.2 (insRemove pc.1 x, insAdd pc.2 x) (insOK_insRemove hp x) (insOK_insAdd hc x)
    simp only [List.foldl_cons]
    refine ⟨this.1, this.2.1, ?_⟩
    intro a
    rw [(this.2.2 a).1, (this.2.2 a).2, insCount_insRemove hp, insCount_insAdd]
    by_cases hax : a = x
    · subst hax
      simp [hnd.1]
    · simp [hax]

theorem mem_bwLabels_ite (L : LTS) (a q : Nat) :
    (if a ∈ bwLabels L q then 1 else 0) = (if hasIn L a q = true then 1 else 0) := by
  simp only [mem_bwLabels]

theorem mkInset_spec (L : LTS) (states : List Nat) (s : List (Nat × Nat)) (hs : InsOK s) :
    InsOK (states.foldl (fun s q => (bwLabels L q).foldl insAdd s) s) ∧
    ∀ a, insCount (states.foldl (fun s q => (bwLabels L q).foldl insAdd s) s) a = insCount s a + cntIn L a states := by
  induction states generalizing s with
  | nil => exact ⟨hs, fun a => by simp [cntIn]⟩
  | cons x l ih =>
    have h1 := foldl_insAdd (bwLabels L x) (nodup_bwLabels L x) s hs
    have := ih _ h1.1
    simp only [List.foldl_cons]
    refine ⟨this.1, ?_⟩
    intro a
    rw [this.2 a, h1.2 a, mem_bwLabels_ite, cntIn, cntIn, List.countP_cons]
    omega

theorem insFor_mkInset (L : LTS) (states : List Nat) : InsFor L (mkInset L states) states := by
  have := mkInset_spec L states [] insOK_nil
  refine ⟨this.1, ?_⟩
  intro a
  rw [mkInset, this.2 a]
  simp [insCount]

theorem moveInset_spec (L : LTS) (states : List Nat) (pc : List (Nat × Nat) × List (Nat × Nat))
    (hp : InsOK pc.1) (hc : InsOK pc.2) :
    let r := states.foldl (fun pc q => (bwLabels L q).foldl (fun pc a => (insRemove pc.1 a, insAdd pc.2 a)) pc) pc
    InsOK r.1 ∧ InsOK r.2 ∧ ∀ a, insCount r.1 a = insCount pc.1 a - cntIn L a states ∧
      insCount r.2 a = insCount pc.2 a + cntIn L a states := by
  induction states generalizing pc with
  | nil => exact ⟨hp, hc, fun a => by simp [cntIn]⟩
  | cons x l ih =>
    have h1 := foldl_move (bwLabels L x) (nodup_bwLabels L x) pc hp hc
    have := ih _ h1.1 h1.2.1
    simp only [List.foldl_cons]
    refine ⟨this.1, this.2.1, ?_⟩
    intro a
    rw [(this.2.2 a).1, (this.2.2 a).2, (h1.2.2 a).1, (h1.2.2 a).2, mem_bwLabels_ite, cntIn, cntIn, List.countP_cons]
    constructor <;> omega

/-- the insets after a split -/
theorem insFor_moveInset (L : LTS) {s : List (Nat × Nat)} {blk rest new : List Nat} (h : InsFor L s blk)
    (hb : blk.Nodup) (hr : rest.Nodup) (hn : new.Nodup) (hdisj : ∀ x, x ∈ rest → x ∈ new → False)
    (hu : ∀ x, x ∈ blk ↔ x ∈ rest ∨ x ∈ new) :
    InsFor L (moveInset L new s).1 rest ∧ InsFor L (moveInset L new s).2 new := by
  have := moveInset_spec L new (s, []) h.1 insOK_nil
  have hsplit : ∀ a, cntIn L a blk = cntIn L a rest + cntIn L a new :=
    fun a => countP_split (hasIn L a) hb hr hn hdisj hu
  refine ⟨⟨this.1, ?_⟩, ⟨this.2.1, ?_⟩⟩
  · intro a
    rw [moveInset, (this.2.2 a).1, h.2 a, hsplit a]; omega
  · intro a
    rw [moveInset, (this.2.2 a).2]; simp [insCount]

/-! ### well-formed engine states -/

structure WF (L : LTS) (e : Eng) : Prop where
  hrel : e.rel.length = e.part.length
  hins : e.inset.length = e.part.length
  hdisj : ∀ i j q, q ∈ e.block i → q ∈ e.block j → i = j
  hnd : ∀ i, (e.block i).Nodup
  hcov : ∀ q, q < L.n ↔ ∃ i, q ∈ e.block i
  hne : ∀ i, i < e.part.length → e.block i ≠ []
  hrow : ∀ i j, j ∈ e.row i → j < e.part.length
  hrefl : ∀ i, i < e.part.length → i ∈ e.row i
  hinset : ∀ i, i < e.part.length → InsFor L (e.inset.getD i []) (e.block i)
  hrownd : ∀ i, (e.row i).Nodup

theorem block_ge (e : Eng) (i : Nat) (h : e.part.length ≤ i) : e.block i = [] := getD_ge _ _ _ h

theorem lt_of_mem_block {e : Eng} {i q : Nat} (h : q ∈ e.block i) : i < e.part.length := by
  refine Classical.byContradiction fun hn => ?_
  rw [block_ge e i (Nat.le_of_not_lt hn)] at h
  cases h

theorem WF.blockOf_eq {L : LTS} {e : Eng} (w : WF L e) {q i : Nat} (h : q ∈ e.block i) : blockOf e.part q = i :=
  Vata.LE.blockOf_eq e.part q i w.hdisj h

theorem WF.blockOf_mem {L : LTS} {e : Eng} (w : WF L e) {q : Nat} (h : q < L.n) :
    blockOf e.part q < e.part.length ∧ q ∈ e.block (blockOf e.part q) :=
  blockOf_lt e.part q ((w.hcov q).mp h)

theorem WF.mem_ins {L : LTS} {e : Eng} (w : WF L e) {i : Nat} (hi : i < e.part.length) (a : Nat) :
    a ∈ e.ins i ↔ ∃ q, q ∈ e.block i ∧ hasIn L a q = true :=
  (w.hinset i hi).mem_iff a

theorem WF.lt_of_mem {L : LTS} {e : Eng} (w : WF L e) {i q : Nat} (h : q ∈ e.block i) : q < L.n :=
  (w.hcov q).mpr ⟨i, h⟩

/-! ### one block is split -/

structure SplitOK (e : Eng) (b : Nat) (rest new : List Nat) : Prop where
  hb : b < e.part.length
  hnew : ∀ q, q ∈ new → q ∈ e.block b
  hrest : ∀ q, q ∈ rest ↔ q ∈ e.block b ∧ q ∉ new
  hrn : rest.Nodup
  hnn : new.Nodup
  hre : rest ≠ []
  hne : new ≠ []

section core
variable {L : LTS} {e : Eng} {b : Nat} {rest new : List Nat}

theorem core_length : (splitBlockCore L e b rest new).part.length = e.part.length + 1 := by
  simp [splitBlockCore]

theorem core_block (s : SplitOK e b rest new) (i : Nat) :
    (splitBlockCore L e b rest new).block i =
      if i = b then rest else if i = e.part.length then new else e.block i := by
  simp only [Eng.block, splitBlockCore]
  exact getD_set_append [] e.part b rest new s.hb i

theorem core_inset (w : WF L e) (s : SplitOK e b rest new) (i : Nat) :
    (splitBlockCore L e b rest new).inset.getD i [] =
      if i = b then (moveInset L new (e.inset.getD b [])).1
      else if i = e.part.length then (moveInset L new (e.inset.getD b [])).2 else e.inset.getD i [] := by
  simp only [splitBlockCore]
  rw [getD_set_append [] e.inset b _ _ (by rw [w.hins]; exact s.hb) i, w.hins]

theorem core_row (w : WF L e) (i : Nat) :
    (splitBlockCore L e b rest new).row i =
      if i < e.part.length then (if b ∈ e.row i then e.row i ++ [e.part.length] else e.row i)
      else if i = e.part.length then e.row b ++ [e.part.length] else [] := by
  have h : (splitBlockCore L e b rest new).row i = (relSplit e.rel b).getD i [] := rfl
  rw [h, relSplit_getD, w.hrel]
  change (if i < e.part.length then (if (e.row i).contains b then e.row i ++ [e.part.length] else e.row i)
      else if i = e.part.length then e.row b ++ [e.part.length] else []) = _
  by_cases h1 : i < e.part.length
  · rw [if_pos h1, if_pos h1]
    by_cases h2 : b ∈ e.row i
    · rw [if_pos h2, if_pos (by simpa using h2)]
    · rw [if_neg h2, if_neg (by simpa using h2)]
  · rw [if_neg h1, if_neg h1]

theorem core_wf (w : WF L e) (s : SplitOK e b rest new) : WF L (splitBlockCore L e b rest new) := by
  have hbl := core_block (L := L) s
  have hlenb : e.block e.part.length = [] := block_ge e _ (Nat.le_refl _)
  have hbne : b ≠ e.part.length := Nat.ne_of_lt s.hb
  have hrestsub : ∀ q, q ∈ rest → q ∈ e.block b := fun q h => ((s.hrest q).mp h).1
  -- membership in the new blocks in terms of the old ones
  have hmem : ∀ i q, q ∈ (splitBlockCore L e b rest new).block i →
      (i = b ∧ q ∈ rest) ∨ (i = e.part.length ∧ q ∈ new) ∨ (i ≠ b ∧ i ≠ e.part.length ∧ q ∈ e.block i) := by
    intro i q h
    rw [hbl] at h
    by_cases h1 : i = b
    · rw [if_pos h1] at h; exact Or.inl ⟨h1, h⟩
    · rw [if_neg h1] at h
      by_cases h2 : i = e.part.length
      · rw [if_pos h2] at h; exact Or.inr (Or.inl ⟨h2, h⟩)
      · rw [if_neg h2] at h; exact Or.inr (Or.inr ⟨h1, h2, h⟩)
  have happ : ∀ row : List Nat, row.Nodup → e.part.length ∉ row → (row ++ [e.part.length]).Nodup := by
    intro row h1 h2
    refine List.nodup_append.mpr ⟨h1, by simp, ?_⟩
    intro a ha b hb hab
    simp only [List.mem_cons, List.not_mem_nil, or_false] at hb
    exact h2 (hb ▸ hab ▸ ha)
  have hnotlen : ∀ k, e.part.length ∉ e.row k := fun k h => Nat.lt_irrefl _ (w.hrow k _ h)
  refine ⟨?_, ?_, ?_, ?_, ?_, ?_, ?_, ?_, ?_, ?_⟩
  · simp [splitBlockCore, relSplit, w.hrel]
  · simp [splitBlockCore, w.hins]
  · intro i j q hi hj
    rcases hmem i q hi with ⟨e1, h1⟩ | ⟨e1, h1⟩ | ⟨n1, n2, h1⟩ <;>
      rcases hmem j q hj with ⟨e2, h2⟩ | ⟨e2, h2⟩ | ⟨m1, m2, h2⟩
    · rw [e1, e2]
    · exact absurd h2 ((s.hrest q).mp h1).2
    · exact absurd (w.hdisj _ _ q h2 (hrestsub q h1)) m1
    · exact absurd h1 ((s.hrest q).mp h2).2
    · rw [e1, e2]
    · exact absurd (w.hdisj _ _ q h2 (s.hnew q h1)) m1
    · exact absurd (w.hdisj _ _ q h1 (hrestsub q h2)) n1
    · exact absurd (w.hdisj _ _ q h1 (s.hnew q h2)) n1
    · exact w.hdisj i j q h1 h2
  · intro i
    rw [hbl]
    split
    · exact s.hrn
    · split
      · exact s.hnn
      · exact w.hnd i
  · intro q
    rw [w.hcov q]
    constructor
    · rintro ⟨i, hi⟩
      by_cases hib : i = b
      · subst hib
        by_cases hq : q ∈ new
        · exact ⟨e.part.length, by rw [hbl, if_neg (Ne.symm hbne), if_pos rfl]; exact hq⟩
        · exact ⟨i, by rw [hbl, if_pos rfl]; exact (s.hrest q).mpr ⟨hi, hq⟩⟩
      · have : i ≠ e.part.length := Nat.ne_of_lt (lt_of_mem_block hi)
        exact ⟨i, by rw [hbl, if_neg hib, if_neg this]; exact hi⟩
    · rintro ⟨i, hi⟩
      rcases hmem i q hi with ⟨_, h1⟩ | ⟨_, h1⟩ | ⟨_, _, h1⟩
      · exact ⟨b, hrestsub q h1⟩
      · exact ⟨b, s.hnew q h1⟩
      · exact ⟨i, h1⟩
  · intro i hi
    rw [core_length] at hi
    rw [hbl]
    split
    · exact s.hre
    · split
      · exact s.hne
      · rename_i h1 h2
        exact w.hne i (by omega)
  · intro i j hj
    rw [core_length]
    rw [core_row w] at hj
    split at hj
    · split at hj
      · rcases List.mem_append.mp hj with h | h
        · exact Nat.lt_succ_of_lt (w.hrow i j h)
        · simp only [List.mem_cons, List.not_mem_nil, or_false] at h; omega
      · exact Nat.lt_succ_of_lt (w.hrow i j hj)
    · split at hj
      · rcases List.mem_append.mp hj with h | h
        · exact Nat.lt_succ_of_lt (w.hrow b j h)
        · simp only [List.mem_cons, List.not_mem_nil, or_false] at h; omega
      · cases hj
  · intro i hi
    rw [core_length] at hi
    rw [core_row w]
    split
    · rename_i h
      split
      · exact List.mem_append_left _ (w.hrefl i h)
      · exact w.hrefl i h
    · rename_i h
      have : i = e.part.length := by omega
      rw [if_pos this, this]
      exact List.mem_append_right _ (by simp)
  · intro i hi
    rw [core_length] at hi
    have hmv := insFor_moveInset L (w.hinset b s.hb) (w.hnd b) s.hrn s.hnn
      (fun x h1 h2 => ((s.hrest x).mp h1).2 h2)
      (fun x => by
        constructor
        · intro h
          by_cases hx : x ∈ new
          · exact Or.inr hx
          · exact Or.inl ((s.hrest x).mpr ⟨h, hx⟩)
        · rintro (h | h)
          · exact hrestsub x h
          · exact s.hnew x h)
    rw [core_inset w s, hbl]
    split
    · exact hmv.1
    · split
      · exact hmv.2
      · rename_i h1 h2
        exact w.hinset i (by omega)
  · intro i
    rw [core_row w]
    split
    · split
      · exact happ _ (w.hrownd i) (hnotlen i)
      · exact w.hrownd i
    · split
      · exact happ _ (w.hrownd b) (hnotlen b)
      · exact List.nodup_nil

/-- the block of a state after the split -/
theorem core_blockOf (w : WF L e) (s : SplitOK e b rest new) {r : Nat} (hr : r < L.n) :
    blockOf (splitBlockCore L e b rest new).part r = if r ∈ new then e.part.length else blockOf e.part r := by
  have w' := core_wf w s
  have hbne : b ≠ e.part.length := Nat.ne_of_lt s.hb
  obtain ⟨hlt, hmem⟩ := w.blockOf_mem hr
  apply w'.blockOf_eq
  rw [core_block s]
  split
  · rename_i h
    rw [if_neg (Ne.symm hbne), if_pos rfl]; exact h
  · rename_i h
    by_cases hb' : blockOf e.part r = b
    · rw [if_pos hb']
      exact (s.hrest r).mpr ⟨hb' ▸ hmem, h⟩
    · rw [if_neg hb', if_neg (Nat.ne_of_lt hlt)]; exact hmem

/-- the parent of a block after the split -/
def parOf (len b : Nat) (i : Nat) : Nat := if i = len then b else i

/-- a block of the new state sees a state through its row iff its parent did -/
theorem core_U (w : WF L e) (s : SplitOK e b rest new) {i r : Nat} (hi : i < e.part.length + 1) (hr : r < L.n) :
    blockOf (splitBlockCore L e b rest new).part r ∈ (splitBlockCore L e b rest new).row i ↔
      blockOf e.part r ∈ e.row (parOf e.part.length b i) := by
  obtain ⟨hlt, hmem⟩ := w.blockOf_mem hr
  have hnotlen : ∀ k, e.part.length ∉ e.row k := fun k h => Nat.lt_irrefl _ (w.hrow k _ h)
  -- generic statement about a row `row' = row ++ [len]` (if `b ∈ row`) or `row`
  have key : ∀ row : List Nat, e.part.length ∉ row →
      ((if r ∈ new then e.part.length else blockOf e.part r) ∈ (if b ∈ row then row ++ [e.part.length] else row) ↔
        blockOf e.part r ∈ row) := by
    intro row hrow
    by_cases hrn : r ∈ new
    · have hbr : blockOf e.part r = b := w.blockOf_eq (s.hnew r hrn)
      rw [if_pos hrn, hbr]
      by_cases hbrow : b ∈ row
      · simp [hbrow]
      · simp [hbrow, hrow]
    · rw [if_neg hrn]
      by_cases hbrow : b ∈ row
      · rw [if_pos hbrow, List.mem_append]
        constructor
        · rintro (h | h)
          · exact h
          · simp only [List.mem_cons, List.not_mem_nil, or_false] at h; omega
        · exact Or.inl
      · rw [if_neg hbrow]
  rw [core_blockOf w s hr, core_row w]
  by_cases hil : i < e.part.length
  · rw [if_pos hil, parOf, if_neg (Nat.ne_of_lt hil)]
    exact key (e.row i) (hnotlen i)
  · have hie : i = e.part.length := by omega
    rw [if_neg hil, if_pos hie, parOf, if_pos hie]
    have := key (e.row b) (hnotlen b)
    rw [if_pos (w.hrefl b s.hb)] at this
    exact this

end core

/-! ### the queue and the remove slots -/

structure QOK (e : Eng) : Prop where
  hnd : e.queue.Nodup
  hiff : ∀ i a, (e.remv i a).isSome = true ↔ (i, a) ∈ e.queue
  hlt : ∀ i a, (i, a) ∈ e.queue → i < e.part.length

/-! ### `copySlots` -/

theorem copy1_spec (b nb : Nat) (hne : nb ≠ b) (ls : List Nat) (e : Eng) :
    let e' := ls.foldl (fun (e : Eng) a => { e with cnt := setCntRow e.cnt nb a ((e.cnt.getD b []).getD a []) }) e
    e'.part = e.part ∧ e'.rel = e.rel ∧ e'.inset = e.inset ∧ e'.rem = e.rem ∧ e'.queue = e.queue ∧
      e'.nextId = e.nextId ∧
      ∀ i a q, cget e'.cnt i a q = if i = nb ∧ a ∈ ls then cget e.cnt b a q else cget e.cnt i a q := by
  induction ls generalizing e with
  | nil => simp
  | cons x ls ih =>
    simp only [List.foldl_cons]
    have := ih { e with cnt := setCntRow e.cnt nb x ((e.cnt.getD b []).getD x []) }
    obtain ⟨h1, h2, h3, h4, h5, h6, h7⟩ := this
    refine ⟨h1, h2, h3, h4, h5, h6, ?_⟩
    intro i a q
    rw [h7 i a q]
    simp only [cget_setCntRow]
    have hb : ¬ (b = nb ∧ a = x) := fun h => hne h.1.symm
    rw [if_neg hb]
    by_cases hi : i = nb
    · by_cases hal : a ∈ ls
      · simp [hi, hal]
      · by_cases hax : a = x
        · subst hax; simp [hi, hal, cget]
        · simp [hi, hal, hax]
    · simp [hi]

theorem copy2_spec (b nb : Nat) (hne : nb ≠ b) (ls : List Nat) (hls : ls.Nodup) (e : Eng) :
    let e' := ls.foldl (fun (e : Eng) a =>
      match e.remv b a with
      | none => e
      | some r => { e with queue := (nb, a) :: e.queue, rem := setRem e.rem nb a (some r) }) e
    e'.part = e.part ∧ e'.rel = e.rel ∧ e'.inset = e.inset ∧ e'.cnt = e.cnt ∧ e'.nextId = e.nextId ∧
      (∀ i a, rget e'.rem i a =
        if i = nb ∧ a ∈ ls ∧ (rget e.rem b a).isSome = true then rget e.rem b a else rget e.rem i a) ∧
      (∀ x, x ∈ e'.queue ↔ x ∈ e.queue ∨ (x.1 = nb ∧ x.2 ∈ ls ∧ (rget e.rem b x.2).isSome = true)) ∧
      ((∀ a, a ∈ ls → (nb, a) ∉ e.queue) → e.queue.Nodup → e'.queue.Nodup) := by
  induction ls generalizing e with
  | nil => simp
  | cons x ls ih =>
    have hnd := List.nodup_cons.mp hls
    simp only [List.foldl_cons]
    cases hx : e.remv b x with
    | none =>
      have hx' : rget e.rem b x = none := hx
      obtain ⟨h1, h2, h3, h4, h5, h6, h7, h8⟩ := ih hnd.2 e
      refine ⟨h1, h2, h3, h4, h5, ?_, ?_, ?_⟩
      · intro i a
        rw [h6 i a]
        by_cases hax : a = x
        · subst hax; simp [hx', hnd.1]
        · simp [hax]
      · intro y
        rw [h7 y]
        by_cases hax : y.2 = x
        · simp [hax, hx', hnd.1]
        · simp [hax]
      · intro hq hn
        exact h8 (fun a ha => hq a (List.mem_cons_of_mem _ ha)) hn
    | some r =>
      have hx' : rget e.rem b x = some r := hx
      obtain ⟨h1, h2, h3, h4, h5, h6, h7, h8⟩ :=
        ih hnd.2 { e with queue := (nb, x) :: e.queue, rem := setRem e.rem nb x (some r) }
      have hb : ∀ a, rget (setRem e.rem nb x (some r)) b a = rget e.rem b a := by
        intro a
        rw [rget_setRem]
        have : ¬ (b = nb ∧ a = x) := fun h => hne h.1.symm
        rw [if_neg this]
      refine ⟨h1, h2, h3, h4, h5, ?_, ?_, ?_⟩
      · intro i a
        rw [h6 i a]
        simp only [hb]
        by_cases hax : a = x
        · subst hax
          simp only [hnd.1, and_false, if_false, rget_setRem, List.mem_cons, true_or,
            hx', Option.isSome_some, and_true]
        · simp only [rget_setRem, hax, and_false, if_false, List.mem_cons, false_or]
      · intro y
        rw [h7 y]
        simp only [hb, List.mem_cons]
        constructor
        · rintro ((h | h) | ⟨h, h', h''⟩)
          · right; rw [h]; simp [hx']
          · left; exact h
          · right; exact ⟨h, Or.inr h', h''⟩
        · rintro (h | ⟨h, h' | h', h''⟩)
          · left; right; exact h
          · left; left
            obtain ⟨y1, y2⟩ := y
            simp only at h h'
            rw [h, h']
          · right; exact ⟨h, h', h''⟩
      · intro hq hn
        apply h8
        · intro a ha
          simp only [List.mem_cons, not_or]
          constructor
          · intro e1
            have : a = x := by injection e1
            exact hnd.1 (this ▸ ha)
          · exact hq a (List.mem_cons_of_mem _ ha)
        · exact List.nodup_cons.mpr ⟨hq x List.mem_cons_self, hn⟩

/-- the effect of `copySlots` -/
theorem copySlots_spec (e : Eng) (b nb : Nat) (hne : nb ≠ b) (hins : (e.ins nb).Nodup) :
    let e' := copySlots e b nb
    e'.part = e.part ∧ e'.rel = e.rel ∧ e'.inset = e.inset ∧ e'.nextId = e.nextId ∧
      (∀ i a q, e'.cntv i a q = if i = nb ∧ a ∈ e.ins nb then e.cntv b a q else e.cntv i a q) ∧
      (∀ i a, e'.remv i a =
        if i = nb ∧ a ∈ e.ins nb ∧ (e.remv b a).isSome = true then e.remv b a else e.remv i a) ∧
      (∀ x, x ∈ e'.queue ↔ x ∈ e.queue ∨ (x.1 = nb ∧ x.2 ∈ e.ins nb ∧ (e.remv b x.2).isSome = true)) ∧
      ((∀ a, (nb, a) ∉ e.queue) → e.queue.Nodup → e'.queue.Nodup) := by
  intro e'
  obtain ⟨a1, a2, a3, a4, a5, a6, a7⟩ := copy1_spec b nb hne (e.ins nb) e
  have hins1 : ∀ e1 : Eng, e1.inset = e.inset → e1.ins nb = e.ins nb := by
    intro e1 h; simp only [Eng.ins, h]
  have he' : e' = ((e.ins nb).foldl (fun (e : Eng) a =>
      match e.remv b a with
      | none => e
      | some r => { e with queue := (nb, a) :: e.queue, rem := setRem e.rem nb a (some r) })
      ((e.ins nb).foldl (fun (e : Eng) a =>
        { e with cnt := setCntRow e.cnt nb a ((e.cnt.getD b []).getD a []) }) e)) := by
    show copySlots e b nb = _
    unfold copySlots
    simp only []
    rw [hins1 _ a3]
    rfl
  obtain ⟨b1, b2, b3, b4, b5, b6, b7, b8⟩ := copy2_spec b nb hne (e.ins nb) hins
    ((e.ins nb).foldl (fun (e : Eng) a => { e with cnt := setCntRow e.cnt nb a ((e.cnt.getD b []).getD a []) }) e)
  rw [← he'] at b1 b2 b3 b4 b5 b6 b7 b8
  refine ⟨b1.trans a1, b2.trans a2, b3.trans a3, b5.trans a6, ?_, ?_, ?_, ?_⟩
  · intro i a q
    rw [cntv_eq, b4, a7]; rfl
  · intro i a
    rw [remv_eq, b6, a4]; rfl
  · intro x
    rw [b7, a5, a4]; rfl
  · intro h1 h2
    apply b8
    · intro a _; rw [a5]; exact h1 a
    · rw [a5]; exact h2

/-! ### refinement of engine states -/

/-- structural part: blocks of `e1` lie inside their parents and see the same states through their rows -/
structure RefineS (L : LTS) (e0 e1 : Eng) (par : Nat → Nat) : Prop where
  hlen : e0.part.length ≤ e1.part.length
  hpar : ∀ i, i < e1.part.length → par i < e0.part.length
  hsub : ∀ i q, q ∈ e1.block i → q ∈ e0.block (par i)
  hU : ∀ i r, i < e1.part.length → r < L.n →
    (blockOf e1.part r ∈ e1.row i ↔ blockOf e0.part r ∈ e0.row (par i))

/-- … and have the counters and remove lists of their parents (for the labels of their insets) -/
structure Refine (L : LTS) (e0 e1 : Eng) (par : Nat → Nat) : Prop extends RefineS L e0 e1 par where
  hcnt : ∀ i a q, i < e1.part.length → a ∈ e1.ins i → e1.cntv i a q = e0.cntv (par i) a q
  hrem1 : ∀ i a r, i < e1.part.length → e1.remv i a = some r → e0.remv (par i) a = some r
  hrem2 : ∀ i a r, i < e1.part.length → a ∈ e1.ins i → e0.remv (par i) a = some r → e1.remv i a = some r

theorem RefineS.refl (L : LTS) (e : Eng) : RefineS L e e id :=
  ⟨Nat.le_refl _, fun _ h => h, fun _ _ h => h, fun _ _ _ _ => Iff.rfl⟩

theorem Refine.refl (L : LTS) (e : Eng) : Refine L e e id :=
  ⟨RefineS.refl L e, fun _ _ _ _ _ => rfl, fun _ _ _ _ h => h, fun _ _ _ _ _ h => h⟩

theorem RefineS.trans {L : LTS} {e0 e1 e2 : Eng} {p1 p2 : Nat → Nat} (h1 : RefineS L e0 e1 p1)
    (h2 : RefineS L e1 e2 p2) : RefineS L e0 e2 (p1 ∘ p2) := by
  refine ⟨Nat.le_trans h1.hlen h2.hlen, ?_, ?_, ?_⟩
  · intro i hi; exact h1.hpar _ (h2.hpar i hi)
  · intro i q hq; exact h1.hsub _ q (h2.hsub i q hq)
  · intro i r hi hr
    rw [h2.hU i r hi hr, h1.hU _ r (h2.hpar i hi) hr]; rfl

/-- the labels of a block's inset are labels of its parent's inset -/
theorem RefineS.ins_sub {L : LTS} {e0 e1 : Eng} {par : Nat → Nat} (h : RefineS L e0 e1 par) (w0 : WF L e0)
    (w1 : WF L e1) {i a : Nat} (hi : i < e1.part.length) (ha : a ∈ e1.ins i) : a ∈ e0.ins (par i) := by
  obtain ⟨q, hq, hin⟩ := (w1.mem_ins hi a).mp ha
  exact (w0.mem_ins (h.hpar i hi) a).mpr ⟨q, h.hsub i q hq, hin⟩

theorem Refine.trans {L : LTS} {e0 e1 e2 : Eng} {p1 p2 : Nat → Nat} (w1 : WF L e1) (w2 : WF L e2)
    (h1 : Refine L e0 e1 p1) (h2 : Refine L e1 e2 p2) : Refine L e0 e2 (p1 ∘ p2) := by
  refine ⟨h1.toRefineS.trans h2.toRefineS, ?_, ?_, ?_⟩
  · intro i a q hi ha
    rw [h2.hcnt i a q hi ha, h1.hcnt _ a q (h2.hpar i hi) (h2.toRefineS.ins_sub w1 w2 hi ha)]; rfl
  · intro i a r hi hr
    exact h1.hrem1 _ a r (h2.hpar i hi) (h2.hrem1 i a r hi hr)
  · intro i a r hi ha hr
    exact h2.hrem2 i a r hi ha (h1.hrem2 _ a r (h2.hpar i hi) (h2.toRefineS.ins_sub w1 w2 hi ha) hr)

/-- the state relation on valid states is the same after a refinement -/
theorem RefineS.rel_iff {L : LTS} {e0 e1 : Eng} {par : Nat → Nat} (h : RefineS L e0 e1 par) (w0 : WF L e0)
    (w1 : WF L e1) {x y : Nat} (hx : x < L.n) (hy : y < L.n) :
    blockOf e1.part y ∈ e1.row (blockOf e1.part x) ↔ blockOf e0.part y ∈ e0.row (blockOf e0.part x) := by
  obtain ⟨hlt, hmem⟩ := w1.blockOf_mem hx
  rw [h.hU _ y hlt hy, w0.blockOf_eq (h.hsub _ x hmem)]

/-- the parent of the block of a state is its old block -/
theorem RefineS.par_blockOf {L : LTS} {e0 e1 : Eng} {par : Nat → Nat} (h : RefineS L e0 e1 par) (w0 : WF L e0)
    (w1 : WF L e1) {x : Nat} (hx : x < L.n) : par (blockOf e1.part x) = blockOf e0.part x := by
  obtain ⟨_, hmem⟩ := w1.blockOf_mem hx
  exact (w0.blockOf_eq (h.hsub _ x hmem)).symm

/-! ### one split step is a refinement -/

theorem core_refineS {L : LTS} {e : Eng} {b : Nat} {rest new : List Nat} (w : WF L e) (s : SplitOK e b rest new) :
    RefineS L e (splitBlockCore L e b rest new) (parOf e.part.length b) := by
  refine ⟨by rw [core_length]; omega, ?_, ?_, ?_⟩
  · intro i hi
    rw [core_length] at hi
    unfold parOf
    split
    · exact s.hb
    · omega
  · intro i q hq
    rw [core_block s] at hq
    unfold parOf
    by_cases h1 : i = b
    · rw [if_pos h1] at hq
      rw [if_neg (by rw [h1]; exact Nat.ne_of_lt s.hb), h1]
      exact ((s.hrest q).mp hq).1
    · rw [if_neg h1] at hq
      by_cases h2 : i = e.part.length
      · rw [if_pos h2] at hq; rw [if_pos h2]; exact s.hnew q hq
      · rw [if_neg h2] at hq; rw [if_neg h2]; exact hq
  · intro i r hi hr
    rw [core_length] at hi
    exact core_U w s hi hr

/-- the full split step (`split`): counters and remove lists are copied for the labels of the new inset -/
theorem split_refine {L : LTS} {e : Eng} {b : Nat} {rest new : List Nat} (w : WF L e) (qk : QOK e)
    (s : SplitOK e b rest new) :
    let e' := copySlots (splitBlockCore L e b rest new) b e.part.length
    WF L e' ∧ QOK e' ∧ Refine L e e' (parOf e.part.length b) ∧ e'.part = (splitBlockCore L e b rest new).part ∧
      e'.rel = (splitBlockCore L e b rest new).rel ∧ e'.nextId = e.nextId := by
  intro e'
  have wc := core_wf w s
  have hbne : e.part.length ≠ b := Ne.symm (Nat.ne_of_lt s.hb)
  have hnd : ((splitBlockCore L e b rest new).ins e.part.length).Nodup :=
    (wc.hinset e.part.length (by rw [core_length]; omega)).1.1
  obtain ⟨c1, c2, c3, c4, c5, c6, c7, c8⟩ := copySlots_spec (splitBlockCore L e b rest new) b e.part.length hbne hnd
  have hblock : ∀ i, e'.block i = (splitBlockCore L e b rest new).block i := fun i => by simp only [Eng.block, e', c1]
  have hrow : ∀ i, e'.row i = (splitBlockCore L e b rest new).row i := fun i => by simp only [Eng.row, e', c2]
  have hinsv : ∀ i, e'.ins i = (splitBlockCore L e b rest new).ins i := fun i => by simp only [Eng.ins, e', c3]
  have hlen : e'.part.length = e.part.length + 1 := by rw [c1, core_length]
  have w' : WF L e' := by
    refine ⟨?_, ?_, ?_, ?_, ?_, ?_, ?_, ?_, ?_, ?_⟩
    · rw [c2, c1]; exact wc.hrel
    · rw [c3, c1]; exact wc.hins
    · intro i j q; rw [hblock, hblock]; exact wc.hdisj i j q
    · intro i; rw [hblock]; exact wc.hnd i
    · intro q; simp only [hblock]; exact wc.hcov q
    · intro i hi; rw [hblock]; rw [c1] at hi; exact wc.hne i hi
    · intro i j; rw [hrow, c1]; exact wc.hrow i j
    · intro i hi; rw [hrow]; rw [c1] at hi; exact wc.hrefl i hi
    · intro i hi; rw [hblock, c3]; rw [c1] at hi; exact wc.hinset i hi
    · intro i; rw [hrow]; exact wc.hrownd i
  have hcq : (splitBlockCore L e b rest new).queue = e.queue := rfl
  have hcr : ∀ i a, (splitBlockCore L e b rest new).remv i a = e.remv i a := fun _ _ => rfl
  have hcc : ∀ i a q, (splitBlockCore L e b rest new).cntv i a q = e.cntv i a q := fun _ _ _ => rfl
  have hnoq : ∀ a, (e.part.length, a) ∉ e.queue := fun a h => Nat.lt_irrefl _ (qk.hlt _ a h)
  have hnor : ∀ a, e.remv e.part.length a = none := by
    intro a
    cases h : e.remv e.part.length a with
    | none => rfl
    | some r => exact absurd ((qk.hiff _ a).mp (by rw [h]; rfl)) (hnoq a)
  refine ⟨w', ?_, ?_, c1, c2, c4⟩
  · refine ⟨?_, ?_, ?_⟩
    · exact c8 (by rw [hcq]; exact hnoq) (by rw [hcq]; exact qk.hnd)
    · intro i a
      rw [c7, c6, hcq]
      simp only [hcr]
      by_cases hi : i = e.part.length
      · subst hi
        simp only [true_and]
        by_cases hc : a ∈ (splitBlockCore L e b rest new).ins e.part.length ∧ (e.remv b a).isSome = true
        · rw [if_pos hc]; simp [hc.1, hc.2]
        · rw [if_neg hc, hnor a]
          simp only [Option.isSome_none, Bool.false_eq_true, false_iff, not_or]
          exact ⟨hnoq a, hc⟩
      · simp only [hi, false_and, if_false, or_false]
        exact qk.hiff i a
    · intro i a h
      rw [hlen]
      rw [c7, hcq] at h
      rcases h with h | h
      · exact Nat.lt_succ_of_lt (qk.hlt i a h)
      · have h1 : i = e.part.length := h.1
        rw [h1]; exact Nat.lt_succ_self _
  · refine ⟨?_, ?_, ?_, ?_⟩
    · have := core_refineS w s
      refine ⟨by rw [c1]; exact this.hlen, ?_, ?_, ?_⟩
      · intro i hi; rw [c1] at hi; exact this.hpar i hi
      · intro i q; rw [hblock]; exact this.hsub i q
      · intro i r hi hr; rw [c1, hrow]; rw [c1] at hi; exact this.hU i r hi hr
    · intro i a q hi ha
      rw [c5, hcc, hcc]
      unfold parOf
      by_cases hil : i = e.part.length
      · rw [if_pos hil]
        rw [hinsv, hil] at ha
        rw [if_pos ⟨hil, ha⟩]
      · rw [if_neg hil, if_neg (fun h => hil h.1)]
    · intro i a r hi hr
      rw [c6] at hr
      simp only [hcr] at hr
      unfold parOf
      by_cases hil : i = e.part.length
      · rw [if_pos hil]
        by_cases hc : i = e.part.length ∧ a ∈ (splitBlockCore L e b rest new).ins e.part.length ∧
            (e.remv b a).isSome = true
        · rw [if_pos hc] at hr; exact hr
        · rw [if_neg hc, hil, hnor a] at hr; cases hr
      · rw [if_neg hil]
        rw [if_neg (fun h => hil h.1)] at hr
        exact hr
    · intro i a r hi ha hr
      rw [c6]
      simp only [hcr]
      unfold parOf at hr
      by_cases hil : i = e.part.length
      · rw [if_pos hil] at hr
        rw [hinsv, hil] at ha
        rw [if_pos ⟨hil, ha, by rw [hr]; rfl⟩]
        exact hr
      · rw [if_neg hil] at hr
        rw [if_neg (fun h => hil h.1)]
        exact hr

end Vata.LE
