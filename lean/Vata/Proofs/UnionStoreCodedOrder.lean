import Vata.Proofs.UnionStoreCodedInv
/-!
# `Union` on the rule store – proofs, part 3: the lookup order of the store code and the visiting order of `unionModel`

`lookupOrder s true` (final states; per CLUSTER the parent, then all children) and `visitOrder (toTA s)` (final states; per RULE
the parent, then its children) differ only by repeated occurrences of a parent that was looked up before – provided no cluster /
tuple set is empty –, and a weak translator ignores a repeated key: the two orders give the SAME map and counter.
-/
namespace Vata.UnionStoreCoded
open Vata.Store Vata.RenameCoded

theorem weakTrAll_append : ∀ (a b : List Nat) (m : SMap) (c : Nat),
    weakTrAll (a ++ b) m c = weakTrAll b (weakTrAll a m c).1 (weakTrAll a m c).2
  | [], _, _, _ => rfl
  | k :: a, b, m, c => by
    simp only [List.cons_append, weakTrAll]
    exact weakTrAll_append a b _ _

/-- the key has a translation -/
def Known (m : SMap) (q : Nat) : Prop := ∃ n, m.lookup q = some n

theorem weakTr_of_known {m : SMap} {q : Nat} (h : Known m q) (c : Nat) : weakTr m c q = (m, c) := by
  obtain ⟨n, hn⟩ := h
  simp [weakTr, hn]

theorem known_weakTr {m : SMap} {q : Nat} (h : Known m q) (c k : Nat) : Known (weakTr m c k).1 q := by
  unfold weakTr
  split
  · exact h
  · obtain ⟨n, hn⟩ := h
    exact ⟨n, by simp only; rw [Um.lookup_snoc, hn]; rfl⟩

theorem known_weakTrAll {q : Nat} : ∀ (ks : List Nat) (m : SMap) (c : Nat), Known m q → Known (weakTrAll ks m c).1 q
  | [], _, _, h => h
  | k :: ks, _, c, h => known_weakTrAll ks _ _ (known_weakTr h c k)

theorem weakTrAll_cons_known {m : SMap} {q : Nat} (h : Known m q) (ks : List Nat) (c : Nat) :
    weakTrAll (q :: ks) m c = weakTrAll ks m c := by
  simp only [weakTrAll, weakTr_of_known h]

/-- the tuples of one symbol: the parent repeated before every tuple is ignored -/
theorem weakTrAll_tuples (q : Nat) : ∀ (ts : TupleSet) (m : SMap) (c : Nat), Known m q →
    weakTrAll (ts.flatMap (fun t => q :: t)) m c = weakTrAll ts.flatten m c
  | [], _, _, _ => rfl
  | t :: ts, m, c, h => by
    rw [List.flatMap_cons, List.flatten_cons, List.cons_append, weakTrAll_cons_known h, weakTrAll_append, weakTrAll_append,
      weakTrAll_tuples q ts _ _ (known_weakTrAll t m c h)]

theorem weakTrAll_symbols (q : Nat) : ∀ (cl : Cluster) (m : SMap) (c : Nat), Known m q →
    weakTrAll (cl.flatMap (fun ft => ft.2.flatMap (fun t => q :: t))) m c = weakTrAll (clusterKeys cl) m c
  | [], _, _, _ => rfl
  | ft :: cl, m, c, h => by
    simp only [clusterKeys, List.flatMap_cons]
    rw [weakTrAll_append, weakTrAll_append, weakTrAll_tuples q ft.2 m c h]
    exact weakTrAll_symbols q cl _ _ (known_weakTrAll ft.2.flatten m c h)

/-- the states of the rules of one cluster in iteration order -/
def visitCluster (q : Nat) (cl : Cluster) : List Nat := cl.flatMap (fun ft => ft.2.flatMap (fun t => q :: t))

theorem visitCluster_eq (q : Nat) (cl : Cluster) : (flatCluster q cl).flatMap Rule.states = visitCluster q cl := by
  simp only [flatCluster, visitCluster, List.flatMap_assoc, List.flatMap_map, Rule.states]

theorem weakTrAll_cluster (q : Nat) (cl : Cluster) (hne : cl ≠ [] ∧ ∀ ft, ft ∈ cl → ft.2 ≠ []) (m : SMap) (c : Nat) :
    weakTrAll (visitCluster q cl) m c = weakTrAll (q :: clusterKeys cl) m c := by
  have hk : Known (weakTr m c q).1 q := Um.weakTr_known m c q
  have e : visitCluster q cl = q :: (visitCluster q cl).tail := by
    cases hc : cl with
    | nil => exact absurd hc hne.1
    | cons ft cl' =>
      cases hts : ft.2 with
      | nil => exact absurd hts (hne.2 ft (hc ▸ List.mem_cons_self))
      | cons t ts => simp [visitCluster, hts]
  have h1 : weakTrAll (q :: visitCluster q cl) m c = weakTrAll (visitCluster q cl) m c := by
    rw [e]
    simp only [weakTrAll]
    rw [weakTr_of_known hk]
  rw [← h1]
  simp only [weakTrAll]
  exact weakTrAll_symbols q cl _ _ hk

theorem weakTrAll_clusters : ∀ (cm : List (Nat × Cluster)), NE cm → ∀ (m : SMap) (c : Nat),
    weakTrAll (cm.flatMap (fun qc => visitCluster qc.1 qc.2)) m c = weakTrAll (mapKeys cm) m c
  | [], _, _, _ => rfl
  | qc :: cm, hne, m, c => by
    simp only [mapKeys, List.flatMap_cons]
    rw [weakTrAll_append, weakTrAll_append, weakTrAll_cluster qc.1 qc.2 (hne qc List.mem_cons_self)]
    exact weakTrAll_clusters cm (fun qc' h => hne qc' (List.mem_cons_of_mem _ h)) _ _

/-- the two visiting orders give the same map and the same counter -/
theorem weakTrAll_visit_eq (s : Store) (hne : NE s.clusters) (m : SMap) (c : Nat) :
    weakTrAll (visitOrder (toTA s)) m c = weakTrAll (lookupOrder s true) m c := by
  have e : visitOrder (toTA s) = s.final ++ s.clusters.flatMap (fun qc => visitCluster qc.1 qc.2) := by
    simp only [visitOrder, toTA, iterate, List.flatMap_assoc, visitCluster_eq]
  rw [e]
  simp only [lookupOrder, if_true]
  rw [weakTrAll_append, weakTrAll_append, weakTrAll_clusters s.clusters hne]

/-- for operands satisfying the invariant the order-parametric model instance IS `unionModel` -/
theorem unionModelOrd_lookupOrder_eq (A B : Store) (mL mR : SMap) (hA : Inv A) (hB : Inv B) :
    unionModelOrd (lookupOrder A true) (lookupOrder B true) (toTA A) (toTA B) mL mR = unionModel (toTA A) (toTA B) mL mR := by
  simp only [unionModel, unionModelOrd]
  rw [weakTrAll_visit_eq A (ne_of_inv hA), weakTrAll_visit_eq B (ne_of_inv hB)]

end Vata.UnionStoreCoded
