import Vata.Proofs.BddTrimCodedBU5
/-!
# The bottom-up `RemoveUselessStates` as coded: totality (property C08)

The first loop: `leafCount T` iterations (`buGLoop_total`).  The traversal pushes a node only when its state is new in
`useful`, and `nodes` has at most `leafCount T` entries (a node is allocated during a call of the functor on a leaf state, and
every tuple is processed at most once), so `F.length + leafCount T` iterations suffice (`bu_useless_coded_total`).
-/
namespace Vata
namespace BddTrimCoded
open M BddAbs BddAbsTD

/-! ### the number of nodes -/

def wT (l : List (List Nat × MT)) : Nat := (l.flatMap (fun e => leafParents e.2)).length

theorem wT_append (l l' : List (List Nat × MT)) : wT (l ++ l') = wT l + wT l' := by
  simp [wT, List.flatMap_append]

theorem wT_filter_le (p : List Nat × MT → Bool) : ∀ l : List (List Nat × MT), wT (l.filter p) ≤ wT l
  | [] => Nat.le_refl _
  | e :: l => by
    have ih := wT_filter_le p l
    by_cases h : p e = true
    · rw [List.filter_cons_of_pos h]
      simp only [wT, List.flatMap_cons, List.length_append] at ih ⊢
      omega
    · rw [List.filter_cons_of_neg h]
      simp only [wT, List.flatMap_cons, List.length_append] at ih ⊢
      omega

theorem collectStepG_nodes_len (tup : List Nat) (fs : FSt) (q : Nat) :
    (collectStepG tup fs q).nodes.length ≤ fs.nodes.length + 1 := by
  unfold collectStepG
  cases findBwd fs.nodes q <;> simp

theorem collectG_fold_nodes_len (tup : List Nat) : ∀ (L : List Nat) (fs : FSt),
    (L.foldl (collectStepG tup) fs).nodes.length ≤ fs.nodes.length + L.length
  | [], _ => Nat.le_refl _
  | q :: L, fs => by
    have := collectG_fold_nodes_len tup L (collectStepG tup fs q)
    have := collectStepG_nodes_len tup fs q
    simp only [List.foldl_cons, List.length_cons]
    omega

theorem scanG_fold_nodes_len (s : Nat) : ∀ (l : List (List Nat × MT)) (g : BuGSt),
    (l.foldl (scanStepG s) g).nodes.length + wT (l.foldl (scanStepG s) g).tuples ≤ g.nodes.length + wT g.tuples + wT l
  | [], _ => by simp [wT]
  | e :: l, g => by
    have ih := scanG_fold_nodes_len s l (scanStepG s g e)
    have step : (scanStepG s g e).nodes.length + wT (scanStepG s g e).tuples ≤
        g.nodes.length + wT g.tuples + (leafParents e.2).length := by
      unfold scanStepG
      split
      · have := collectG_fold_nodes_len e.1 (leafParents e.2) ⟨g.reach, g.ws, g.graph, g.nodes⟩
        simp only [collectG] at this ⊢
        omega
      · simp only [wT_append]
        simp only [wT, List.flatMap_cons, List.flatMap_nil, List.append_nil]
        omega
    have : wT (e :: l) = (leafParents e.2).length + wT l := by simp [wT]
    simp only [List.foldl_cons]
    omega

theorem buGLoop_nodes_len (N : Nat) : ∀ (fuel : Nat) (g g' : BuGSt), g.nodes.length + wT g.tuples ≤ N →
    buGLoop fuel g = some g' → g'.nodes.length ≤ N
  | fuel, ⟨r, [], tu, G, d⟩, g', h, e => by
    have : buGLoop fuel ⟨r, [], tu, G, d⟩ = some ⟨r, [], tu, G, d⟩ := by cases fuel <;> simp [buGLoop]
    rw [this] at e
    cases e
    simp only at h ⊢
    omega
  | 0, ⟨r, s :: ws, tu, G, d⟩, g', _, e => by simp [buGLoop] at e
  | fuel + 1, ⟨r, s :: ws, tu, G, d⟩, g', h, e => by
    simp only [buGLoop] at e
    refine buGLoop_nodes_len N fuel _ g' ?_ e
    have := scanG_fold_nodes_len s tu ⟨r, ws, [], G, d⟩
    simp only [wT, List.flatMap_nil, List.length_nil] at this h ⊢
    omega

theorem buGInit_nodes_len (T : Table) : (buGInit T).nodes.length + wT (buGInit T).tuples ≤ leafCount T := by
  have h1 := collectG_fold_nodes_len [] (leafParents T.nullary) ⟨[], [], Graph.empty, []⟩
  have h2 := wT_filter_le (fun e => e.1 != []) T.entries
  simp only [buGInit, collectG, leafCount, allParents, List.length_append, wT] at h1 h2 ⊢
  simp only [List.length_nil, Nat.zero_add] at h1
  omega

/-! ### the traversal -/

def muT (d : List (Nat × Nat)) (s : List Nat × List Nat) : Nat := s.1.length + cntNot (d.map (·.2)) s.2

theorem outStep_mu (d : List (Nat × Nat)) (s : List Nat × List Nat) (m : Nat) : muT d (outStep d s m) ≤ muT d s := by
  unfold outStep
  cases hf : findFwd d m with
  | none => exact Nat.le_refl _
  | some q =>
    simp only
    split
    · exact Nat.le_refl _
    · next h =>
      have h' : q ∉ s.2 := by simpa using h
      have hq : q ∈ d.map (·.2) := List.mem_map.mpr ⟨(m, q), findFwd_some hf, rfl⟩
      have := cntNot_add hq h'
      simp only [muT, List.length_cons]
      omega

theorem outStep_fold_mu (d : List (Nat × Nat)) : ∀ (L : List Nat) (s : List Nat × List Nat),
    muT d (L.foldl (outStep d) s) ≤ muT d s
  | [], _ => Nat.le_refl _
  | m :: L, s => by
    simp only [List.foldl_cons]
    exact Nat.le_trans (outStep_fold_mu d L _) (outStep_mu d s m)

theorem traverse_total (d : List (Nat × Nat)) : ∀ (fuel : Nat) (tr : TrSt), muT d (tr.stack, tr.useful) ≤ fuel →
    ∃ tr', traverse d fuel tr = some tr'
  | fuel, ⟨[], u, G⟩, _ => ⟨⟨[], u, G⟩, by cases fuel <;> simp [traverse]⟩
  | 0, ⟨_ :: _, u, G⟩, h => by simp [muT] at h
  | fuel + 1, ⟨node :: stk, u, G⟩, h => by
    simp only [traverse]
    refine traverse_total d fuel _ ?_
    have := outStep_fold_mu d ((eraseIn G node).egr node) (stk, u)
    simp only [muT, List.length_cons] at h this ⊢
    omega

theorem seed_fold_len (d : List (Nat × Nat)) : ∀ (Fl : List Nat) (s : List Nat × List Nat),
    (Fl.foldl (seedStep d) s).1.length ≤ s.1.length + Fl.length
  | [], _ => Nat.le_refl _
  | f :: Fl, s => by
    have ih := seed_fold_len d Fl (seedStep d s f)
    have : (seedStep d s f).1.length ≤ s.1.length + 1 := by
      unfold seedStep
      cases findBwd d f <;> simp
    simp only [List.foldl_cons, List.length_cons]
    omega

/-- **totality of `RemoveUselessStates` (bottom-up) as coded** -/
theorem bu_useless_coded_total (T : Table) (F : List Nat) {fuel : Nat} (h : F.length + leafCount T ≤ fuel) :
    ∃ R, buUselessCoded T F fuel = some R := by
  obtain ⟨g, hg⟩ := buGLoop_total T (fuel := fuel) (by omega)
  have hn := buGLoop_nodes_len (leafCount T) fuel _ g (buGInit_nodes_len T) hg
  have hs := seed_fold_len g.nodes F ([], [])
  have hc : cntNot (g.nodes.map (·.2)) (F.foldl (seedStep g.nodes) ([], [])).2 ≤ g.nodes.length := by
    unfold cntNot
    exact Nat.le_trans List.countP_le_length (by simp)
  obtain ⟨tr, htr⟩ := traverse_total g.nodes fuel
    ⟨(F.foldl (seedStep g.nodes) ([], [])).1, (F.foldl (seedStep g.nodes) ([], [])).2, g.graph⟩
    (by simp only [muT, List.length_nil, Nat.zero_add] at hs ⊢; omega)
  have hst : buUselessSt T F fuel = some (g, tr) := by
    unfold buUselessSt
    rw [hg]
    simp only
    rw [htr]
  exact ⟨_, by unfold buUselessCoded; rw [hst]; rfl⟩

/-- `bu_useless_coded_spec` and totality together -/
theorem bu_useless_coded_spec_total {T : Table} (hT : TableOk T) (F : List Nat) :
    ∃ R, buUselessCoded T F (F.length + leafCount T) = some R ∧
      (∀ ρ ks p, HasRule R.1 ρ ks p ↔ HasRule (removeUselessBU T F).1 ρ ks p) ∧ R.2 = (removeUselessBU T F).2 := by
  obtain ⟨R, hR⟩ := bu_useless_coded_total T F (Nat.le_refl _)
  exact ⟨R, hR, bu_useless_coded_spec hT F hR⟩

end BddTrimCoded
end Vata
