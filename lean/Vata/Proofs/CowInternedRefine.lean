import Vata.Proofs.CowInternedOps
/-!
# Named automata over one tuple cache – every automaton denotes the value the value-level specification gives it

`Inv' s` : the reference-count invariant of the heap (`CowHeapX.InvX`), the cache consistent with the live tuple-set nodes and
the outside holders (`CI`), and every element of a tuple set is one `cell`.  `stepC_lib` : a call of the library keeps
`Inv'` and acts on `absV` (automaton name ⇀ `Store.Store` of tuple VALUES) like `CowHeapX.specStepX` on independent values.
-/
namespace Vata.CowI
open Vata.Store (upsert insN insTuple TupleSet addToMap addToCluster)
open Vata.CowHeap (upd upd_same upd_other)
open Vata.CowHeap3 (Heap valM valC mout cout hmap_mem)
open Vata.CowHeapX (HeapX stepX absX specStepX specInitX InvX ValX HOpX absX_of_mem absX_of_not_mem)
open Vata.StoreI (CacheSt lookupC acquireC releaseC derefC CInv)

/-! ### tuple sets hold cells -/

def CellsT (d : TupleSet) : Prop := ∀ l, l ∈ d → ∃ p, l = cell p
def CellsS (s : Store.Store) : Prop := ∀ qc, qc ∈ s.clusters → ∀ ft, ft ∈ qc.2 → CellsT ft.2
def CellsV (a : Nat → Option ValX) : Prop := ∀ h s, a h = some s → CellsS s

theorem cellsT_ins (p : Nat) {d : TupleSet} (h : CellsT d) : CellsT (insTuple (cell p) d) := by
  intro l hl
  unfold insTuple at hl
  split at hl
  · exact h l hl
  · rcases List.mem_append.1 hl with h' | h'
    · exact h l h'
    · exact ⟨p, by simpa using h'⟩

theorem cellsS_add (q f p : Nat) {s : Store.Store} (h : CellsS s) : CellsS (Store.addTransition s ⟨f, cell p, q⟩) := by
  have hnil : CellsT [] := fun l hl => by cases hl
  have hcl : ∀ cl : Store.Cluster, (∀ ft, ft ∈ cl → CellsT ft.2) → ∀ ft, ft ∈ addToCluster f (cell p) cl → CellsT ft.2 := by
    intro cl hcl
    unfold addToCluster
    exact Store.forall_upsert (P := CellsT) f (fun o => insTuple (cell p) (o.getD [])) (cellsT_ins p hnil)
      (fun v hv => cellsT_ins p hv) hcl
  unfold CellsS Store.addTransition addToMap
  simp only
  exact Store.forall_upsert (P := fun (cl : Store.Cluster) => ∀ ft : Nat × TupleSet, ft ∈ cl → CellsT ft.2) q
    (fun o => addToCluster f (cell p) (o.getD []))
    (hcl [] (fun ft hft => by cases hft)) (fun v hv => hcl v hv) (fun kv hkv => h kv hkv)

theorem cellsV_upd {a : Nat → Option ValX} (ha : CellsV a) (h : Nat) {x : Option ValX}
    (hx : ∀ s, x = some s → CellsS s) : CellsV (upd a h x) := by
  intro k s hk
  by_cases e : k = h
  · subst e
    rw [upd_same] at hk
    exact hx s hk
  · rw [upd_other _ _ e] at hk
    exact ha k s hk

theorem cellsS_empty : CellsS Store.empty := fun qc hqc => by cases hqc

/-- the calls of the value level that `stepC` performs at the level of cells -/
def cellOp : HOpX → Prop
  | .new _ => True
  | .copy _ _ ct cf => ct = true ∧ cf = true
  | .assign _ _ => True
  | .add _ _ v => ∃ p, v.2 = cell p
  | .setFinal _ _ => True
  | .clear _ => True
  | .destroy _ => True
  | _ => False

theorem cellsV_step {a : Nat → Option ValX} (ha : CellsV a) {op : HOpX} (hop : cellOp op) : CellsV (specStepX a op) := by
  cases op with
  | new h =>
    simp only [specStepX]
    split
    · exact ha
    · exact cellsV_upd ha h (fun s hs => by rw [← Option.some.inj hs]; exact cellsS_empty)
  | copy src dst ct cf =>
    obtain ⟨e1, e2⟩ := hop
    subst e1; subst e2
    simp only [specStepX]
    split
    · apply cellsV_upd ha
      intro s hs
      cases hsrc : a src with
      | none => simp [hsrc] at hs
      | some s0 =>
        simp only [hsrc, Option.map_some, if_true, Option.some.injEq] at hs
        rw [← hs]
        exact ha src s0 hsrc
    · exact ha
  | assign src dst =>
    simp only [specStepX]
    split
    · exact cellsV_upd ha dst (fun s hs => ha src s hs)
    · exact ha
  | add h q v =>
    obtain ⟨p, hp⟩ := hop
    obtain ⟨f, t⟩ := v
    simp only at hp
    subst hp
    simp only [specStepX]
    cases hh : a h with
    | none => exact ha
    | some s0 =>
      simp only
      exact cellsV_upd ha h (fun s hs => by rw [← Option.some.inj hs]; exact cellsS_add q f p (ha h s0 hh))
  | setFinal h q =>
    simp only [specStepX]
    cases hh : a h with
    | none => exact ha
    | some s0 =>
      simp only
      exact cellsV_upd ha h (fun s hs => by rw [← Option.some.inj hs]; exact ha h s0 hh)
  | clear h =>
    simp only [specStepX]
    cases hh : a h with
    | none => exact ha
    | some s0 =>
      simp only
      exact cellsV_upd ha h (fun s hs => by rw [← Option.some.inj hs]; exact cellsS_empty)
  | destroy h =>
    simp only [specStepX]
    exact cellsV_upd ha h (fun s hs => by cases hs)
  | move _ _ => cases hop
  | moveAssign _ _ => cases hop
  | setFinals _ _ => cases hop
  | eraseFinal _ => cases hop
  | shareAll _ _ _ => cases hop
  | shareClusters _ _ _ => cases hop
  | unionDisj _ _ _ => cases hop

/-! ### dereferencing -/

/-- the pointers a store of cells mentions -/
def MentionsOnly (s : Store.Store) (P : Nat → Prop) : Prop :=
  ∀ qc, qc ∈ s.clusters → ∀ ft, ft ∈ qc.2 → ∀ l, l ∈ ft.2 → ∀ id, id ∈ l → P id

theorem derefS_congr {c c' : CacheSt} {s : Store.Store}
    (h : MentionsOnly s (fun id => derefC c' id = derefC c id)) : derefS c' s = derefS c s := by
  unfold derefS
  congr 1
  apply List.map_congr_left
  intro qc hqc
  congr 1
  apply List.map_congr_left
  intro ft hft
  congr 1
  apply List.map_congr_left
  intro l hl
  unfold derefCell
  exact flatMap_congr' (fun id hid => h qc hqc ft hft l hl id hid)

/-- the value of a live automaton mentions pointers of live tuple-set nodes only -/
theorem mentions_live {HX : HeapX} (hI : InvX HX) {h : Nat} (hh : h ∈ HX.core.hl) :
    MentionsOnly ⟨valM HX.core (HX.core.hmap h), HX.fin h⟩ (fun id => id ∈ refsT HX.core) := by
  intro qc hqc ft hft l hl id hid
  simp only [valM, List.mem_map] at hqc
  obtain ⟨kc, hkc, e⟩ := hqc
  subst e
  simp only [valC, List.mem_map] at hft
  obtain ⟨ft0, hft0, e⟩ := hft
  subst e
  simp only at hl
  have hm := hmap_mem hI hh
  have hc : kc.2 ∈ HX.core.cl := hI.mc.pt _ hm kc.2 (List.mem_map.2 ⟨kc, hkc, rfl⟩)
  have ht : ft0.2 ∈ HX.core.tl := hI.ct.pt _ hc ft0.2 (List.mem_map.2 ⟨ft0, hft0, rfl⟩)
  exact mem_refsT ht (List.mem_flatten.2 ⟨l, hl, hid⟩)

theorem absX_map_congr {HX : HeapX} (hI : InvX HX) {c c' : CacheSt}
    (hd : ∀ id, id ∈ refsT HX.core → derefC c' id = derefC c id) (k : Nat) :
    (absX HX k).map (derefS c') = (absX HX k).map (derefS c) := by
  by_cases hk : k ∈ HX.core.hl
  · rw [absX_of_mem hk]
    simp only [Option.map_some]
    congr 1
    apply derefS_congr
    intro qc hqc ft hft l hl id hid
    exact hd id (mentions_live hI hk qc hqc ft hft l hl id hid)
  · rw [absX_of_not_mem hk]
    rfl

theorem map_insTuple {d : List Nat → List Nat} {x : List Nat} {S : TupleSet}
    (hinj : ∀ a, a ∈ S → d a = d x → a = x) : (insTuple x S).map d = insTuple (d x) (S.map d) := by
  unfold insTuple
  have : (S.map d).contains (d x) = S.contains x := by
    rw [Bool.eq_iff_iff]
    simp only [List.contains_iff_mem, List.mem_map]
    constructor
    · rintro ⟨a, ha, e⟩
      rw [← hinj a ha e]
      exact ha
    · intro h
      exact ⟨x, h, rfl⟩
  rw [this]
  split <;> simp

theorem derefCell_cell (c : CacheSt) (p : Nat) : derefCell c (cell p) = derefC c p := by
  simp [derefCell, cell]

/-- inserting a pointer is inserting the tuple it points to -/
theorem derefS_add {c : CacheSt} {s : Store.Store} (q f p : Nat) (hcells : CellsS s)
    (hinj : MentionsOnly s (fun a => derefC c a = derefC c p → a = p)) :
    derefS c (Store.addTransition s ⟨f, cell p, q⟩) = Store.addTransition (derefS c s) ⟨f, derefC c p, q⟩ := by
  unfold derefS Store.addTransition
  simp only
  congr 1
  unfold addToMap
  apply StoreI.map_upsert (fun (cl : Store.Cluster) => cl.map (fun ft => (ft.1, ft.2.map (derefCell c))))
  · simp [addToCluster, upsert, insTuple, derefCell_cell]
  · intro cl hcl
    simp only [Option.getD_some]
    unfold addToCluster
    apply StoreI.map_upsert (fun (ts : TupleSet) => ts.map (derefCell c))
    · simp [insTuple, derefCell_cell]
    · intro ts hts
      simp only [Option.getD_some]
      rw [← derefCell_cell c p]
      apply map_insTuple
      intro a ha e
      obtain ⟨pa, hpa⟩ := hcells _ hcl _ hts a ha
      subst hpa
      rw [derefCell_cell, derefCell_cell] at e
      have := hinj _ hcl _ hts _ ha pa (by simp [cell]) e
      rw [this]

/-! ### mapping a function over the specification -/

theorem map_upd (F : ValX → ValX) (a : Nat → Option ValX) (h : Nat) (x : Option ValX) :
    (fun k => (upd a h x k).map F) = upd (fun k => (a k).map F) h (x.map F) := by
  funext k
  by_cases e : k = h
  · subst e; simp [upd_same]
  · simp [upd_other _ _ e]

/-- the calls that do not look at tuples -/
def simpleOp : HOpX → Prop
  | .new _ => True
  | .copy _ _ ct cf => ct = true ∧ cf = true
  | .assign _ _ => True
  | .setFinal _ _ => True
  | .clear _ => True
  | .destroy _ => True
  | _ => False

theorem simpleOp_cellOp {op : HOpX} (h : simpleOp op) : cellOp op := by
  cases op <;> simp_all [simpleOp, cellOp]

theorem specStepX_map_simple (c : CacheSt) (a : Nat → Option ValX) {op : HOpX} (hop : simpleOp op) :
    (fun k => (specStepX a op k).map (derefS c)) = specStepX (fun k => (a k).map (derefS c)) op := by
  cases op with
  | new h =>
    simp only [specStepX, Option.isSome_map]
    split
    · rfl
    · rw [map_upd]; rfl
  | copy src dst ct cf =>
    obtain ⟨e1, e2⟩ := hop
    subst e1; subst e2
    simp only [specStepX, Option.isSome_map, Option.isNone_map]
    split
    · rw [map_upd]
      congr 1
      cases a src <;> rfl
    · rfl
  | assign src dst =>
    simp only [specStepX, Option.isSome_map]
    split
    · rw [map_upd]
    · rfl
  | setFinal h q =>
    simp only [specStepX]
    cases hh : a h with
    | none => simp
    | some s0 => simp only [Option.map_some]; rw [map_upd]; rfl
  | clear h =>
    simp only [specStepX]
    cases hh : a h with
    | none => simp
    | some s0 => simp only [Option.map_some]; rw [map_upd]; rfl
  | destroy h =>
    simp only [specStepX]
    rw [map_upd]; rfl
  | add _ _ _ => cases hop
  | move _ _ => cases hop
  | moveAssign _ _ => cases hop
  | setFinals _ _ => cases hop
  | eraseFinal _ => cases hop
  | shareAll _ _ _ => cases hop
  | shareClusters _ _ _ => cases hop
  | unionDisj _ _ _ => cases hop

theorem specStepX_map_add (c : CacheSt) (a : Nat → Option ValX) (h q f p : Nat)
    (hcells : ∀ s, a h = some s → CellsS s)
    (hinj : ∀ s, a h = some s → MentionsOnly s (fun x => derefC c x = derefC c p → x = p)) :
    (fun k => (specStepX a (.add h q (f, cell p)) k).map (derefS c)) =
      specStepX (fun k => (a k).map (derefS c)) (.add h q (f, derefC c p)) := by
  simp only [specStepX]
  cases hh : a h with
  | none => simp
  | some s0 =>
    simp only [Option.map_some]
    rw [map_upd, Option.map_some, derefS_add q f p (hcells s0 hh) (hinj s0 hh)]

end Vata.CowI
