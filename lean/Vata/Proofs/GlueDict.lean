import Vata.Glue
/-!
# `TwoWayDict` – theorems about the model of `Vata/Glue.lean` (section 2)

* `IsMap m`: the keys of the association list are distinct (what `std::map` / `std::unordered_map` guarantee); under it
  `List.lookup` and membership coincide (`lookup_eq_some_iff_mem`).
* `TwoWayDict.Inv d`: both members are maps and `bwdMap_` is the inverse relation of `fwdMap_` – the representation
  invariant.  `inv_empty`, `inv_insert` (inside the contract `insertOk`), `ofMap_inv` / `ofMap_eq_none_iff`, `inv_union`.
* consequences: `translate_inverse`, `translateFwd_injective`, `translateBwd_injective`, `size_eq`,
  `getReverseMap_spec`.
* `insertList`: a run of `Insert`s (the shape of `Union` and of both helpers of `util.cc`), `insertList_fwd/_bwd/_inv`.
* outside the contract the bijection breaks: `insert_present_key_breaks`.
-/
set_option linter.unusedSectionVars false
set_option linter.unusedSimpArgs false
namespace Vata.Glue

theorem nodup_of_map {γ δ : Type} (f : γ → δ) {l : List γ} (h : (l.map f).Nodup) : l.Nodup :=
  (List.pairwise_map.1 h).imp (fun hne e => hne (congrArg f e))

theorem nodup_map_of_inj {γ δ : Type} {f : γ → δ} (inj : ∀ x y, f x = f y → x = y) {l : List γ} (h : l.Nodup) :
    (l.map f).Nodup :=
  List.pairwise_map.2 (h.imp (fun hne e => hne (inj _ _ e)))

section
variable {α β : Type} [DecidableEq α] [DecidableEq β]

/-- distinct keys -/
def IsMap (m : List (α × β)) : Prop := (m.map Prod.fst).Nodup

theorem isMap_nil : IsMap ([] : List (α × β)) := by simp [IsMap]

theorem lookup_eq_none_iff_not_mem (m : List (α × β)) (a : α) : m.lookup a = none ↔ a ∉ m.map Prod.fst := by
  induction m with
  | nil => simp
  | cons e r ih =>
    obtain ⟨x, y⟩ := e
    simp only [List.lookup_cons, List.map_cons, List.mem_cons, not_or]
    by_cases h : a = x
    · subst h; simp
    · have : (a == x) = false := by simpa using h
      simp [this, ih, h]

theorem mem_of_lookup {m : List (α × β)} {a : α} {b : β} (h : m.lookup a = some b) : (a, b) ∈ m := by
  induction m with
  | nil => simp at h
  | cons e r ih =>
    obtain ⟨x, y⟩ := e
    simp only [List.lookup_cons] at h
    by_cases hx : a = x
    · subst hx
      simp at h
      subst h
      simp
    · have : (a == x) = false := by simpa using hx
      rw [this] at h
      exact List.mem_cons_of_mem _ (ih h)

theorem lookup_of_mem {m : List (α × β)} (hm : IsMap m) {a : α} {b : β} (h : (a, b) ∈ m) : m.lookup a = some b := by
  induction m with
  | nil => simp at h
  | cons e r ih =>
    obtain ⟨x, y⟩ := e
    simp only [IsMap, List.map_cons, List.nodup_cons] at hm
    simp only [List.lookup_cons]
    rcases List.mem_cons.1 h with h' | h'
    · cases h'; simp
    · have hx : a ≠ x := by
        intro e; subst e
        exact hm.1 (List.mem_map.2 ⟨(a, b), h', rfl⟩)
      have : (a == x) = false := by simpa using hx
      rw [this]
      exact ih hm.2 h'

theorem lookup_eq_some_iff_mem {m : List (α × β)} (hm : IsMap m) {a : α} {b : β} : m.lookup a = some b ↔ (a, b) ∈ m :=
  ⟨mem_of_lookup, lookup_of_mem hm⟩

theorem isMap_append_single {m : List (α × β)} (hm : IsMap m) {a : α} (b : β) (h : m.lookup a = none) : IsMap (m ++ [(a, b)]) := by
  unfold IsMap at *
  rw [List.map_append, List.nodup_append]
  refine ⟨hm, by simp, ?_⟩
  intro x hx y hy
  simp at hy
  subst hy
  intro e; subst e
  exact (lookup_eq_none_iff_not_mem m x).1 h hx

/-! ### `insert` of a standard map -/

theorem mapInsert_of_none {m : List (α × β)} {a : α} (b : β) (h : m.lookup a = none) : mapInsert m a b = (m ++ [(a, b)], true) := by
  simp [mapInsert, h]

theorem mapInsert_of_some {m : List (α × β)} {a : α} (b : β) {b' : β} (h : m.lookup a = some b') : mapInsert m a b = (m, false) := by
  simp [mapInsert, h]

theorem isMap_mapInsert {m : List (α × β)} (hm : IsMap m) (a : α) (b : β) : IsMap (mapInsert m a b).1 := by
  cases h : m.lookup a with
  | none => rw [mapInsert_of_none b h]; exact isMap_append_single hm b h
  | some b' => rw [mapInsert_of_some b h]; exact hm

theorem isMap_mapOfList (l : List (α × β)) : IsMap (mapOfList l) := by
  unfold mapOfList
  have : ∀ (l : List (α × β)) (m : List (α × β)), IsMap m → IsMap (l.foldl (fun m e => (mapInsert m e.1 e.2).1) m) := by
    intro l
    induction l with
    | nil => intro m hm; exact hm
    | cons e r ih => intro m hm; exact ih _ (isMap_mapInsert hm _ _)
  exact this l [] isMap_nil

/-- a key that is present keeps its value, a new key gets the given one -/
theorem lookup_mapInsert (m : List (α × β)) (a x : α) (b : β) :
    (mapInsert m a b).1.lookup x = if x = a then some ((m.lookup a).getD b) else m.lookup x := by
  cases h : m.lookup a with
  | some b' =>
    rw [mapInsert_of_some b h]
    by_cases hx : x = a
    · subst hx; simp [h]
    · simp [hx]
  | none =>
    rw [mapInsert_of_none b h]
    simp only [List.lookup_append, Option.getD_none]
    by_cases hx : x = a
    · subst hx; simp [h, List.lookup_cons]
    · have : (x == a) = false := by simpa using hx
      simp [hx, List.lookup_cons, this]

/-! ### the representation invariant of `TwoWayDict` -/

/-- both members are maps and `bwdMap_` is the inverse of `fwdMap_` -/
structure TwoWayDict.Inv (d : TwoWayDict α β) : Prop where
  fwdMap : IsMap d.fwd
  bwdMap : IsMap d.bwd
  inverse : ∀ a b, (a, b) ∈ d.fwd ↔ (b, a) ∈ d.bwd

namespace TwoWayDict

theorem inv_empty : (empty : TwoWayDict α β).Inv := ⟨isMap_nil, isMap_nil, by simp [empty]⟩

theorem inv_default : ({} : TwoWayDict α β).Inv := ⟨isMap_nil, isMap_nil, by simp⟩

/-- `Insert` inside its contract appends the pair to both maps … -/
theorem insert_of_ok {d : TwoWayDict α β} {a : α} {b : β} (ok : d.insertOk a b = true) :
    d.insert a b = (⟨d.fwd ++ [(a, b)], d.bwd ++ [(b, a)]⟩, (a, b), true) := by
  simp only [insertOk, Bool.and_eq_true, Option.isNone_iff_eq_none] at ok
  simp only [insert, mapInsert_of_none _ ok.1, mapInsert_of_none _ ok.2]
  simp [List.lookup_append, ok.1, List.lookup_cons]

/-- … and keeps the invariant -/
theorem inv_insert {d : TwoWayDict α β} (h : d.Inv) {a : α} {b : β} (ok : d.insertOk a b = true) : (d.insert a b).1.Inv := by
  rw [insert_of_ok ok]
  simp only [insertOk, Bool.and_eq_true, Option.isNone_iff_eq_none] at ok
  refine ⟨isMap_append_single h.fwdMap b ok.1, isMap_append_single h.bwdMap a ok.2, ?_⟩
  intro x y
  simp only [List.mem_append, List.mem_singleton, Prod.mk.injEq]
  rw [h.inverse x y]
  constructor
  · rintro (h1 | ⟨h1, h2⟩)
    · exact Or.inl h1
    · exact Or.inr ⟨h2, h1⟩
  · rintro (h1 | ⟨h1, h2⟩)
    · exact Or.inl h1
    · exact Or.inr ⟨h2, h1⟩

/-- `TranslateFwd` and `TranslateBwd` are inverse to each other -/
theorem translate_inverse {d : TwoWayDict α β} (h : d.Inv) (a : α) (b : β) :
    d.translateFwd a = some b ↔ d.translateBwd b = some a := by
  unfold translateFwd translateBwd
  rw [lookup_eq_some_iff_mem h.fwdMap, lookup_eq_some_iff_mem h.bwdMap, h.inverse]

/-- different names have different numbers -/
theorem translateFwd_injective {d : TwoWayDict α β} (h : d.Inv) {a a' : α} {b : β}
    (h1 : d.translateFwd a = some b) (h2 : d.translateFwd a' = some b) : a = a' := by
  have e1 := (translate_inverse h a b).1 h1
  have e2 := (translate_inverse h a' b).1 h2
  rw [e1] at e2
  exact Option.some.inj e2

theorem translateBwd_injective {d : TwoWayDict α β} (h : d.Inv) {b b' : β} {a : α}
    (h1 : d.translateBwd b = some a) (h2 : d.translateBwd b' = some a) : b = b' := by
  have e1 := (translate_inverse h a b).2 h1
  have e2 := (translate_inverse h a b').2 h2
  rw [e1] at e2
  exact Option.some.inj e2

/-- `FindFwd` / `FindBwd` / `at` agree with the translations -/
theorem find_spec (d : TwoWayDict α β) (a : α) (b : β) :
    (d.findFwd a = (d.translateFwd a).map (fun y => (a, y))) ∧ (d.findBwd b = (d.translateBwd b).map (fun x => (b, x))) ∧
      d.at? a = d.translateFwd a := ⟨rfl, rfl, rfl⟩

/-- `GetReverseMap()` is a map, and it is the inverse of the forward translation -/
theorem getReverseMap_spec {d : TwoWayDict α β} (h : d.Inv) :
    IsMap d.getReverseMap ∧ ∀ a b, d.getReverseMap.lookup b = some a ↔ d.translateFwd a = some b :=
  ⟨h.bwdMap, fun a b => (translate_inverse h a b).symm⟩

theorem bwd_perm {d : TwoWayDict α β} (h : d.Inv) : d.bwd.Perm (d.fwd.map Prod.swap) := by
  apply (List.perm_ext_iff_of_nodup ?_ ?_).2
  · intro e
    obtain ⟨b, a⟩ := e
    rw [← h.inverse a b]
    simp only [List.mem_map, Prod.exists, Prod.swap_prod_mk, Prod.mk.injEq]
    constructor
    · intro hm; exact ⟨a, b, hm, rfl, rfl⟩
    · rintro ⟨x, y, hm, rfl, rfl⟩; exact hm
  · exact nodup_of_map _ h.bwdMap
  · have hf : d.fwd.Nodup := nodup_of_map _ h.fwdMap
    refine nodup_map_of_inj ?_ hf
    intro x y hxy
    have := congrArg Prod.swap hxy
    simpa using this

/-- `size()` (= `fwdMap_.size()`) is also the size of the reverse map -/
theorem size_eq {d : TwoWayDict α β} (h : d.Inv) : d.size = d.getReverseMap.length := by
  have := (bwd_perm h).length_eq
  simp [size, getReverseMap, this]

/-! ### the constructor from a map -/

theorem ofMapLoop_some : ∀ (m : List (α × β)) (bw r : List (β × α)), ofMapLoop m bw = some r →
    r = bw ++ m.map Prod.swap ∧ (IsMap bw → IsMap r)
  | [], bw, r, h => by
    simp only [ofMapLoop, Option.some.injEq] at h
    subst h; simp
  | (a, b) :: m, bw, r, h => by
    simp only [ofMapLoop] at h
    cases hl : bw.lookup b with
    | some a' => rw [mapInsert_of_some a hl] at h; simp at h
    | none =>
      rw [mapInsert_of_none a hl] at h
      obtain ⟨e, hm⟩ := ofMapLoop_some m _ r h
      refine ⟨by simp [e], fun hb => hm (isMap_append_single hb a hl)⟩

theorem ofMapLoop_none : ∀ (m : List (α × β)) (bw : List (β × α)), ofMapLoop m bw = none →
    ¬ ((bw.map Prod.fst) ++ m.map Prod.snd).Nodup
  | [], bw, h => by simp [ofMapLoop] at h
  | (a, b) :: m, bw, h => by
    simp only [ofMapLoop] at h
    cases hl : bw.lookup b with
    | some a' =>
      intro hn
      have hb : b ∈ bw.map Prod.fst := by
        have := mem_of_lookup hl
        exact List.mem_map.2 ⟨(b, a'), this, rfl⟩
      rw [List.nodup_append] at hn
      exact hn.2.2 b hb b (by simp) rfl
    | none =>
      rw [mapInsert_of_none a hl] at h
      have := ofMapLoop_none m _ h
      intro hn
      apply this
      simpa [List.append_assoc] using hn

theorem ofMapLoop_isSome_of_nodup : ∀ (m : List (α × β)) (bw : List (β × α)),
    ((bw.map Prod.fst) ++ m.map Prod.snd).Nodup → (ofMapLoop m bw).isSome = true
  | [], bw, _ => rfl
  | (a, b) :: m, bw, hn => by
    have hl : bw.lookup b = none := by
      rw [lookup_eq_none_iff_not_mem]
      intro hb
      rw [List.nodup_append] at hn
      exact hn.2.2 b hb b (by simp) rfl
    simp only [ofMapLoop, mapInsert_of_none a hl]
    apply ofMapLoop_isSome_of_nodup
    simpa [List.append_assoc] using hn

/-- the constructor from a map: when it returns, the dictionary has the given forward map and satisfies the invariant -/
theorem ofMap_inv {m : List (α × β)} (hm : IsMap m) {d : TwoWayDict α β} (h : ofMap m = some d) :
    d.Inv ∧ d.fwd = m ∧ d.bwd = m.map Prod.swap := by
  unfold ofMap at h
  cases hl : ofMapLoop m [] with
  | none => rw [hl] at h; cases h
  | some bw =>
    rw [hl] at h
    cases h
    obtain ⟨e, hb⟩ := ofMapLoop_some m [] bw hl
    simp only [List.nil_append] at e
    refine ⟨⟨hm, hb isMap_nil, ?_⟩, rfl, e⟩
    intro a b
    subst e
    simp only [List.mem_map, Prod.exists, Prod.swap_prod_mk, Prod.mk.injEq]
    constructor
    · intro hm; exact ⟨a, b, hm, rfl, rfl⟩
    · rintro ⟨x, y, hm, rfl, rfl⟩; exact hm

/-- it throws exactly when two keys have the same value -/
theorem ofMap_eq_none_iff (m : List (α × β)) : ofMap m = none ↔ ¬ (m.map Prod.snd).Nodup := by
  unfold ofMap
  constructor
  · intro h
    cases hl : ofMapLoop m [] with
    | none => simpa using ofMapLoop_none m [] hl
    | some bw => rw [hl] at h; cases h
  · intro h
    cases hl : ofMapLoop m [] with
    | none => rfl
    | some bw =>
      exfalso
      apply h
      obtain ⟨e, hb⟩ := ofMapLoop_some m [] bw hl
      have := hb isMap_nil
      subst e
      simpa [IsMap, List.map_map, Function.comp_def] using this

/-! ### a run of `Insert`s -/

/-- `for (e : es) d.Insert(e)` -/
def insertList (d : TwoWayDict α β) : List (α × β) → TwoWayDict α β
  | [] => d
  | e :: r => insertList (d.insert e.1 e.2).1 r

theorem union_eq_insertList (d r : TwoWayDict α β) : d.union r = insertList d r.fwd := by
  unfold union
  generalize r.fwd = es
  induction es generalizing d with
  | nil => rfl
  | cons e es ih => simp only [List.foldl_cons, insertList]; exact ih _

/-- distinct new keys, none of them present: the forward map grows by the list … -/
theorem insertList_fwd : ∀ (es : List (α × β)) (d : TwoWayDict α β),
    ((d.fwd ++ es).map Prod.fst).Nodup → (insertList d es).fwd = d.fwd ++ es
  | [], d, _ => by simp [insertList]
  | (a, b) :: es, d, h => by
    have hl : d.fwd.lookup a = none := by
      rw [lookup_eq_none_iff_not_mem]
      intro ha
      rw [List.map_append, List.nodup_append] at h
      exact h.2.2 a ha a (by simp) rfl
    have e : (d.insert a b).1.fwd = d.fwd ++ [(a, b)] := by simp [insert, mapInsert_of_none _ hl]
    rw [insertList, insertList_fwd es, e]
    · simp
    · rw [e]; simpa using h

/-- … distinct new values, none of them present: the backward map grows by the swapped list -/
theorem insertList_bwd : ∀ (es : List (α × β)) (d : TwoWayDict α β),
    (d.bwd.map Prod.fst ++ es.map Prod.snd).Nodup → (insertList d es).bwd = d.bwd ++ es.map Prod.swap
  | [], d, _ => by simp [insertList]
  | (a, b) :: es, d, h => by
    have hl : d.bwd.lookup b = none := by
      rw [lookup_eq_none_iff_not_mem]
      intro hb
      rw [List.nodup_append] at h
      exact h.2.2 b hb b (by simp) rfl
    have e : (d.insert a b).1.bwd = d.bwd ++ [(b, a)] := by simp [insert, mapInsert_of_none _ hl]
    rw [insertList, insertList_bwd es, e]
    · simp
    · rw [e]; simpa [List.append_assoc] using h

/-- a run of `Insert`s inside the contract keeps the invariant -/
theorem insertList_inv : ∀ (es : List (α × β)) (d : TwoWayDict α β), d.Inv →
    ((d.fwd ++ es).map Prod.fst).Nodup → (d.bwd.map Prod.fst ++ es.map Prod.snd).Nodup → (insertList d es).Inv
  | [], d, h, _, _ => by simpa [insertList] using h
  | (a, b) :: es, d, h, hk, hv => by
    have hl : d.fwd.lookup a = none := by
      rw [lookup_eq_none_iff_not_mem]
      intro ha
      rw [List.map_append, List.nodup_append] at hk
      exact hk.2.2 a ha a (by simp) rfl
    have hl' : d.bwd.lookup b = none := by
      rw [lookup_eq_none_iff_not_mem]
      intro hb
      rw [List.nodup_append] at hv
      exact hv.2.2 b hb b (by simp) rfl
    have ok : d.insertOk a b = true := by simp [insertOk, hl, hl']
    rw [insertList]
    apply insertList_inv es _ (inv_insert h ok)
    · rw [insert_of_ok ok]; simpa using hk
    · rw [insert_of_ok ok]; simpa [List.append_assoc] using hv

/-- `Union` inside its contract (no key and no value of `rhs` present): the invariant holds and the result has the
entries of both -/
theorem inv_union {d r : TwoWayDict α β} (hd : d.Inv) (hr : r.Inv)
    (hk : ∀ a ∈ r.fwd.map Prod.fst, a ∉ d.fwd.map Prod.fst) (hv : ∀ b ∈ r.bwd.map Prod.fst, b ∉ d.bwd.map Prod.fst) :
    (d.union r).Inv ∧ (d.union r).fwd = d.fwd ++ r.fwd ∧ (d.union r).bwd = d.bwd ++ r.fwd.map Prod.swap := by
  rw [union_eq_insertList]
  have hk' : ((d.fwd ++ r.fwd).map Prod.fst).Nodup := by
    rw [List.map_append, List.nodup_append]
    exact ⟨hd.fwdMap, hr.fwdMap, fun x hx y hy e => hk y hy (e ▸ hx)⟩
  have hvals : r.fwd.map Prod.snd = (r.fwd.map Prod.swap).map Prod.fst := by
    simp [List.map_map, Function.comp_def]
  have hv' : (d.bwd.map Prod.fst ++ r.fwd.map Prod.snd).Nodup := by
    rw [List.nodup_append]
    refine ⟨hd.bwdMap, ?_, ?_⟩
    · rw [hvals]
      exact ((bwd_perm hr).map Prod.fst).nodup_iff.1 hr.bwdMap
    · intro x hx y hy e
      subst e
      have : x ∈ r.bwd.map Prod.fst := by
        rw [hvals] at hy
        exact ((bwd_perm hr).map Prod.fst).mem_iff.2 hy
      exact hv x this hx
  exact ⟨insertList_inv _ _ hd hk' hv', insertList_fwd _ _ hk', insertList_bwd _ _ hv'⟩

end TwoWayDict
end

/-- outside the contract (`NDEBUG`): inserting a present key with a new value leaves the forward map alone but adds the
backward entry – `TranslateBwd(2)` answers a name whose `TranslateFwd` is 1 -/
theorem insert_present_key_breaks :
    let d : TwoWayDict Nat Nat := ((TwoWayDict.empty.insert 7 1).1.insert 7 2).1
    d.translateFwd 7 = some 1 ∧ d.translateBwd 2 = some 7 ∧ d.size = 1 ∧ d.getReverseMap.length = 2 := by
  decide

end Vata.Glue
