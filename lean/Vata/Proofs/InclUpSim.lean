import Vata.InclUpSim
import Vata.UpCert
import Vata.Lang
import Vata.Proofs.SimModel
import Vata.Proofs.Rename
import Vata.Proofs.InclUp
import Vata.Proofs.InclDown
import Vata.Proofs.Sanitize
import Vata.Proofs.InclUpBdd
/-!
# Upward antichain inclusion pruned by an upward simulation (properties C01, C07)

* `Star`, `upSim_star`            the reflexive-transitive closure of an upward simulation is an upward simulation;
* `Comp`, `replace_kids`          inside a component of the disjoint union the children of a rule can be replaced one by
                                  one by simulating states of the component (upward simulation with identity on siblings);
* `Ctx`, `upSim_ctx`, `upSim_ctx_accepts`   the "context language" lemma: a simulating state reaches, through every
                                  context, a state that simulates what the simulated state reaches;
* `UpCertSim`, `CoverS`, `up_cert_sim_sound`, `up_cert_sim_incl`   the antichain principle modulo an upward simulation on
                                  the disjoint union of the operands;
* `upCertSimB_sound`, `upCertSimB_incl`   the Boolean checker;
* `inclUpSim_true/false/iff/cert`, `checkInclUpSim_iff`   every verdict of the certifying model is right.
* `inclUpBddSim_iff`, `checkInclUpBddSim_iff`   the bottom-up BDD selection, which ignores the relation.

The exploration itself (`InclUpSim.run`) is analysed in `Vata/Proofs/InclUpSimInv.lean` (the final antichain of a
`return true` passes the check, a `return false` is justified) and `Vata/Proofs/InclUpSimTotal.lean` (termination,
totality on trimmed operands with a validated preorder, `checkInclUpSim_complete`).
-/
namespace Vata
open InclUp InclUpSim

namespace InclUpSim

/-! ### 1. reflexive-transitive closure -/

inductive Star (R : Nat → Nat → Prop) : Nat → Nat → Prop
  | refl (q : Nat) : Star R q q
  | tail {a b c : Nat} : Star R a b → R b c → Star R a c

theorem Star.single {R : Nat → Nat → Prop} {a b : Nat} (h : R a b) : Star R a b := .tail (.refl a) h

theorem Star.trans {R : Nat → Nat → Prop} {a b c : Nat} (h₁ : Star R a b) (h₂ : Star R b c) : Star R a c := by
  induction h₂ with
  | refl => exact h₁
  | tail _ h ih => exact .tail ih h

/-- the reflexive-transitive closure of an upward simulation is an upward simulation -/
theorem upSim_star (U : TA) {R : Nat → Nat → Prop} (hR : IsUpSim U R) : IsUpSim U (Star R) := by
  intro q r h
  induction h with
  | refl =>
    exact ⟨id, fun ρ hρ i hi => ⟨ρ, hρ, rfl, (SimModel.setAt_self _ _ _ hi).symm, .refl _⟩⟩
  | @tail b _ _ h₂ ih =>
    obtain ⟨f₁, s₁⟩ := ih
    obtain ⟨f₂, s₂⟩ := hR _ _ h₂
    refine ⟨fun h => f₂ (f₁ h), ?_⟩
    intro ρ hρ i hi
    obtain ⟨σ, hσ, e₁, e₂, e₃⟩ := s₁ ρ hρ i hi
    have hi' : σ.kids[i]? = some b := by rw [e₂]; exact SimModel.getElem?_setAt _ _ _ _ hi
    obtain ⟨τ, hτ, k₁, k₂, k₃⟩ := s₂ σ hσ i hi'
    exact ⟨τ, hτ, k₁.trans e₁, by rw [k₂, e₂, SimModel.setAt_setAt], .tail e₃ k₃⟩

/-! ### 2. replacing the children of a rule inside a component -/

/-- `C` is a component of `U`: its rules are rules of `U`, and a rule of `U` with a child among the states of `C` is a
rule of `C` -/
structure Comp (U C : TA) : Prop where
  sub : ∀ r, r ∈ C.rules → r ∈ U.rules
  kid : ∀ σ, σ ∈ U.rules → ∀ k, k ∈ σ.kids → k ∈ C.states → σ ∈ C.rules

theorem comp_left (A B : TA) (hdis : ∀ q, q ∈ A.states → q ∉ B.states) : Comp (unionDisjoint A B) A where
  sub := fun _ hr => List.mem_append_left _ hr
  kid := fun σ hσ k hk hkA => by
    rcases List.mem_append.mp hσ with h | h
    · exact h
    · exact absurd (SimModel.kid_mem_states h hk) (hdis k hkA)

theorem comp_right (A B : TA) (hdis : ∀ q, q ∈ A.states → q ∉ B.states) : Comp (unionDisjoint A B) B where
  sub := fun _ hr => List.mem_append_right _ hr
  kid := fun σ hσ k hk hkB => by
    rcases List.mem_append.mp hσ with h | h
    · exact absurd hkB (hdis k (SimModel.kid_mem_states h hk))
    · exact h

theorem setAt_append : ∀ (pre : List Nat) (k p : Nat) (rest : List Nat),
    setAt (pre ++ k :: rest) pre.length p = pre ++ p :: rest
  | [], _, _, _ => by simp only [List.nil_append, List.length_nil, setAt]
  | x :: pre, k, p, rest => by
    simp only [List.cons_append, List.length_cons, setAt, setAt_append pre k p rest]

theorem mem_setAt : ∀ (ks : List Nat) (i q r : Nat), ks[i]? = some q → r ∈ setAt ks i r
  | [], _, _, _, h => by simp at h
  | _ :: _, 0, _, _, _ => by simp only [setAt, List.mem_cons, true_or]
  | _ :: ks, i+1, q, r, h => by
    simp only [List.getElem?_cons_succ] at h
    simp only [setAt, List.mem_cons]
    exact Or.inr (mem_setAt ks i q r h)

/-- all children of a rule of the component `C` replaced by simulating states of `C` -/
theorem replace_kids {U C : TA} (hC : Comp U C) {S : Nat → Nat → Prop} (hS : IsUpSim U S)
    (hrefl : ∀ q, S q q) (htr : ∀ a b c, S a b → S b c → S a c) {rest ps : List Nat}
    (h : All2 (fun k p => S k p ∧ p ∈ C.states) rest ps) :
    ∀ (ρ : Rule) (pre : List Nat), ρ ∈ C.rules → ρ.kids = pre ++ rest →
      ∃ σ, σ ∈ C.rules ∧ σ.sym = ρ.sym ∧ σ.kids = pre ++ ps ∧ S ρ.parent σ.parent := by
  induction h with
  | nil => exact fun ρ pre hρ hk => ⟨ρ, hρ, rfl, hk, hrefl _⟩
  | @cons k p rest ps hd _ ih =>
    intro ρ pre hρ hk
    have hi : ρ.kids[pre.length]? = some k := by rw [hk]; simp
    obtain ⟨σ, hσ, e₁, e₂, e₃⟩ := (hS k p hd.1).2 ρ (hC.sub ρ hρ) pre.length hi
    rw [hk, setAt_append] at e₂
    have hσC : σ ∈ C.rules := hC.kid σ hσ p (by rw [e₂]; simp) hd.2
    obtain ⟨τ, hτ, k₁, k₂, k₃⟩ := ih σ (pre ++ [p]) hσC (by rw [e₂]; simp)
    exact ⟨τ, hτ, k₁.trans e₁, by rw [k₂]; simp, htr _ _ _ e₃ k₃⟩

/-- children that match sets `Ps` lifted along "every state of `P` is simulated by a state of `T`" -/
theorem matchKids_lift {S : Nat → Nat → Prop} {C : TA} : ∀ (ks : List Nat) {Ps Ts : List (List Nat)},
    All2 (fun P T => ∀ s, s ∈ P → ∃ s', s' ∈ T ∧ S s s' ∧ s' ∈ C.states) Ps Ts → matchKids ks Ps = true →
    ∃ ks', All2 (fun k p => S k p ∧ p ∈ C.states) ks ks' ∧ matchKids ks' Ts = true
  | [], _, _, All2.nil, _ => ⟨[], All2.nil, rfl⟩
  | [], _, _, All2.cons _ _, hm => by simp [matchKids] at hm
  | _ :: _, _, _, All2.nil, hm => by simp [matchKids] at hm
  | k :: ks, _, _, All2.cons hd tl, hm => by
    simp only [matchKids, Bool.and_eq_true, List.contains_iff_mem] at hm
    obtain ⟨s', hs', hS, hC⟩ := hd k hm.1
    obtain ⟨ks', h₁, h₂⟩ := matchKids_lift ks tl hm.2
    refine ⟨s' :: ks', All2.cons ⟨hS, hC⟩ h₁, ?_⟩
    simp only [matchKids, Bool.and_eq_true, List.contains_iff_mem]
    exact ⟨hs', h₂⟩

/-- the post-image in a component is monotone modulo the simulation -/
theorem post_sim {U C : TA} (hC : Comp U C) {S : Nat → Nat → Prop} (hS : IsUpSim U S)
    (hrefl : ∀ q, S q q) (htr : ∀ a b c, S a b → S b c → S a c) (f : Nat) {Ps Ts : List (List Nat)}
    (h : All2 (fun P T => ∀ s, s ∈ P → ∃ s', s' ∈ T ∧ S s s' ∧ s' ∈ C.states) Ps Ts) :
    ∀ s, s ∈ post C f Ps → ∃ s', s' ∈ post C f Ts ∧ S s s' := by
  intro s hs
  rw [mem_post'] at hs
  obtain ⟨ρ, hρ, hf, hm, hp⟩ := hs
  obtain ⟨ks', h₁, h₂⟩ := matchKids_lift ρ.kids h hm
  obtain ⟨σ, hσ, e₁, e₂, e₃⟩ := replace_kids hC hS hrefl htr h₁ ρ [] hρ rfl
  refine ⟨σ.parent, mem_post'.mpr ⟨σ, hσ, e₁.trans hf, ?_, rfl⟩, hp ▸ e₃⟩
  rw [e₂]; exact h₂

/-! ### 2b. the context-language lemma -/

/-- a tree with one hole -/
inductive Ctx where
  | hole
  | node (f : Nat) (pre : List Tree) (c : Ctx) (suf : List Tree)

/-- the hole filled with `t` -/
def Ctx.plug : Ctx → Tree → Tree
  | .hole, t => t
  | .node f pre c suf, t => .node f (pre ++ c.plug t :: suf)

/-- the states at the root of the context when the hole carries the states `Q` (the siblings are evaluated in `U`) -/
def Ctx.reachFrom (U : TA) : Ctx → List Nat → List Nat
  | .hole, Q => Q
  | .node f pre c suf, Q => post U f (reachL U pre ++ c.reachFrom U Q :: reachL U suf)

theorem reachL_append (U : TA) (pre : List Tree) (t : Tree) (suf : List Tree) :
    reachL U (pre ++ t :: suf) = reachL U pre ++ reach U t :: reachL U suf := by
  simp only [reachL_eq_map, List.map_append, List.map_cons]

/-- plugging a tree = running the context from the states of the tree -/
theorem reach_plug (U : TA) : ∀ (c : Ctx) (t : Tree), reach U (c.plug t) = c.reachFrom U (reach U t)
  | .hole, _ => rfl
  | .node f pre c suf, t => by
    simp only [Ctx.plug, Ctx.reachFrom, reach, reachL_append, reach_plug U c t]

theorem all2_mid {L₁ L₂ : List (List Nat)} {Q Q' : List Nat} (h : ∀ x, x ∈ Q → x ∈ Q') :
    All2 (fun s s' => ∀ q, q ∈ s → q ∈ s') (L₁ ++ Q :: L₂) (L₁ ++ Q' :: L₂) := by
  have hrefl : ∀ L : List (List Nat), All2 (fun s s' => ∀ q, q ∈ s → q ∈ s') L L := fun L => by
    induction L with
    | nil => exact All2.nil
    | cons _ _ ih => exact All2.cons (fun _ h => h) ih
  induction L₁ with
  | nil => exact All2.cons h (hrefl _)
  | cons _ _ ih => exact All2.cons (fun _ h => h) ih

theorem reachFrom_mono (U : TA) : ∀ (c : Ctx) {Q Q' : List Nat}, (∀ x, x ∈ Q → x ∈ Q') →
    ∀ p, p ∈ c.reachFrom U Q → p ∈ c.reachFrom U Q'
  | .hole, _, _, h, p, hp => h p hp
  | .node f _ c _, _, _, h, p, hp => by
    simp only [Ctx.reachFrom] at hp ⊢
    exact post_mono U f (all2_mid (reachFrom_mono U c h)) p hp

/-- the child in the middle position of a matching tuple can be exchanged -/
theorem matchKids_mid : ∀ (L₁ : List (List Nat)) (ks : List Nat) (Q : List Nat) (L₂ : List (List Nat)),
    matchKids ks (L₁ ++ Q :: L₂) = true →
    ∃ k, ks[L₁.length]? = some k ∧ k ∈ Q ∧
      ∀ (Q' : List Nat) (k' : Nat), k' ∈ Q' → matchKids (setAt ks L₁.length k') (L₁ ++ Q' :: L₂) = true
  | [], [], _, _, h => by simp [matchKids] at h
  | [], k :: ks, Q, L₂, h => by
    simp only [List.nil_append, matchKids, Bool.and_eq_true, List.contains_iff_mem] at h
    refine ⟨k, by simp, h.1, fun Q' k' hk' => ?_⟩
    simp only [List.nil_append, List.length_nil, setAt, matchKids, Bool.and_eq_true, List.contains_iff_mem]
    exact ⟨hk', h.2⟩
  | _ :: _, [], _, _, h => by simp [matchKids] at h
  | s :: L₁, x :: ks, Q, L₂, h => by
    simp only [List.cons_append, matchKids, Bool.and_eq_true, List.contains_iff_mem] at h
    obtain ⟨k, hk, hkQ, hall⟩ := matchKids_mid L₁ ks Q L₂ h.2
    refine ⟨k, by simpa using hk, hkQ, fun Q' k' hk' => ?_⟩
    simp only [List.cons_append, List.length_cons, setAt, matchKids, Bool.and_eq_true, List.contains_iff_mem]
    exact ⟨h.1, hall Q' k' hk'⟩

/-- **context lemma**: if `r` simulates `q` upward (identity on siblings), then through every context whatever `q`
reaches at the root is simulated by something `r` reaches at the root -/
theorem upSim_ctx (U : TA) (S : Nat → Nat → Prop) (hS : IsUpSim U S) : ∀ (c : Ctx) (q r p : Nat), S q r →
    p ∈ c.reachFrom U [q] → ∃ p', p' ∈ c.reachFrom U [r] ∧ S p p'
  | .hole, q, r, p, hqr, hp => by
    simp only [Ctx.reachFrom, List.mem_singleton] at hp ⊢
    exact ⟨r, rfl, hp ▸ hqr⟩
  | .node f pre c suf, q, r, p, hqr, hp => by
    simp only [Ctx.reachFrom] at hp ⊢
    rw [mem_post'] at hp
    obtain ⟨ρ, hρ, hf, hm, hpar⟩ := hp
    obtain ⟨k, hk, hkQ, hall⟩ := matchKids_mid _ _ _ _ hm
    obtain ⟨k', hk', hkk'⟩ := upSim_ctx U S hS c q r k hqr hkQ
    obtain ⟨σ, hσ, e₁, e₂, e₃⟩ := (hS k k' hkk').2 ρ hρ _ hk
    refine ⟨σ.parent, mem_post'.mpr ⟨σ, hσ, e₁.trans hf, ?_, rfl⟩, hpar ▸ e₃⟩
    rw [e₂]; exact hall _ k' hk'

/-- the context language of `q` is included in that of a simulating `r`: a context that leads from `q` to a final state
accepts every tree that `r` labels -/
theorem upSim_ctx_accepts (U : TA) (S : Nat → Nat → Prop) (hS : IsUpSim U S) (c : Ctx) {q r : Nat} {t' : Tree}
    (hqr : S q r) (hr : r ∈ reach U t') (h : accepting U (c.reachFrom U [q]) = true) :
    accepts U (c.plug t') = true := by
  simp only [accepts, accepting, List.any_eq_true, List.contains_iff_mem] at h ⊢
  obtain ⟨p, hp, hf⟩ := h
  obtain ⟨p', hp', hpp'⟩ := upSim_ctx U S hS c q r p hqr hp
  refine ⟨p', ?_, (hS p p' hpp').1 hf⟩
  rw [reach_plug]
  refine reachFrom_mono U c (fun x hx => ?_) p' hp'
  rw [List.mem_singleton.mp hx]; exact hr

/-! ### 3. the antichain principle modulo an upward simulation -/

/-- `X` is closed under the post-image of the rules of `A` up to the subsumption modulo `S`: for all choices of pairs of
`X` for the children, either the parent is simulated by a state of the post-image (`checkIntersection`: the pair is
skipped), or a pair `(p, P)` of `X` has `parent ≼ p` and every state of `P` is simulated by a state of the post-image
(`contains(ind[parent], post, lte)`) -/
def UpCertSim (A B : TA) (S : Nat → Nat → Prop) (X : List (Nat × List Nat)) : Prop :=
  ∀ ρ, ρ ∈ A.rules → ∀ Ss : List (List Nat), All2 (fun k P => (k, P) ∈ X) ρ.kids Ss →
    (∃ s, s ∈ post B ρ.sym Ss ∧ S ρ.parent s) ∨
    (∃ p P, (p, P) ∈ X ∧ S ρ.parent p ∧ ∀ s, s ∈ P → ∃ s', s' ∈ post B ρ.sym Ss ∧ S s s')

/-- the first components of `X` are states of `A` -/
def KeysIn (A : TA) (X : List (Nat × List Nat)) : Prop := ∀ q P, (q, P) ∈ X → q ∈ A.states

theorem upCertSim_mono {A B : TA} {S S' : Nat → Nat → Prop} (h : ∀ a b, S a b → S' a b) {X : List (Nat × List Nat)}
    (hX : UpCertSim A B S X) : UpCertSim A B S' X := by
  intro ρ hρ Ss hSs
  rcases hX ρ hρ Ss hSs with ⟨s, hs, hS⟩ | ⟨p, P, hp, hS, hP⟩
  · exact Or.inl ⟨s, hs, h _ _ hS⟩
  · refine Or.inr ⟨p, P, hp, h _ _ hS, fun s hs => ?_⟩
    obtain ⟨s', hs', hS'⟩ := hP s hs
    exact ⟨s', hs', h _ _ hS'⟩

/-- the invariant: `Cover` of `Vata/UpCert.lean` weakened by `S` – every state of `A` that labels `t` is simulated by a
state of `B` that labels `t`, or simulated by the first component of a pair of `X` whose macro-state is simulated
(state by state) by the states of `B` that label `t` -/
def CoverS (A B : TA) (S : Nat → Nat → Prop) (X : List (Nat × List Nat)) (t : Tree) : Prop :=
  ∀ q, q ∈ reach A t → (∃ s, s ∈ reach B t ∧ S q s) ∨
    (∃ p P, (p, P) ∈ X ∧ S q p ∧ ∀ s, s ∈ P → ∃ s', s' ∈ reach B t ∧ S s s')

/-- for matched children: either one of them is simulated by a state of `B` (then the tuple with that state matches in
the union), or all of them are covered by pairs of `X` -/
theorem coverS_kids (A B : TA) (S : Nat → Nat → Prop) (X : List (Nat × List Nat)) (hkeys : KeysIn A X) :
    ∀ (ts : List Tree), (∀ t, t ∈ ts → CoverS A B S X t) → ∀ ks : List Nat, matchKids ks (reachL A ts) = true →
      (∃ i k s, ks[i]? = some k ∧ S k s ∧ s ∈ B.states ∧
        matchKids (setAt ks i s) (reachL (unionDisjoint A B) ts) = true) ∨
      (∃ (ps : List Nat) (Ps : List (List Nat)), All2 (fun k p => S k p ∧ p ∈ A.states) ks ps ∧
        All2 (fun p P => (p, P) ∈ X) ps Ps ∧
        All2 (fun P T => ∀ s, s ∈ P → ∃ s', s' ∈ T ∧ S s s' ∧ s' ∈ B.states) Ps (reachL B ts))
  | [], _, ks, h => by
    cases ks with
    | nil => exact Or.inr ⟨[], [], All2.nil, All2.nil, All2.nil⟩
    | cons _ _ => simp [matchKids, reachL] at h
  | t :: ts, hc, ks, h => by
    cases ks with
    | nil => simp [matchKids, reachL] at h
    | cons k ks =>
      have hAU : ∀ r, r ∈ A.rules → r ∈ (unionDisjoint A B).rules := fun r hr => List.mem_append_left _ hr
      have hBU : ∀ r, r ∈ B.rules → r ∈ (unionDisjoint A B).rules := fun r hr => List.mem_append_right _ hr
      simp only [reachL, matchKids, Bool.and_eq_true, List.contains_iff_mem] at h
      rcases hc t List.mem_cons_self k h.1 with ⟨s, hs, hS⟩ | ⟨p, P, hp, hS, hP⟩
      · refine Or.inl ⟨0, k, s, by simp, hS, reach_mem_states B t s hs, ?_⟩
        simp only [setAt, reachL, matchKids, Bool.and_eq_true, List.contains_iff_mem]
        exact ⟨reach_mono B _ hBU t s hs, matchKids_mono (reachL_mono A _ hAU ts) h.2⟩
      · rcases coverS_kids A B S X hkeys ts (fun t' ht' => hc t' (List.mem_cons_of_mem _ ht')) ks h.2 with
          ⟨i, k', s, hi, hS', hsB, hm⟩ | ⟨ps, Ps, h₁, h₂, h₃⟩
        · refine Or.inl ⟨i + 1, k', s, by simpa using hi, hS', hsB, ?_⟩
          simp only [setAt, reachL, matchKids, Bool.and_eq_true, List.contains_iff_mem]
          exact ⟨reach_mono A _ hAU t k h.1, hm⟩
        · refine Or.inr ⟨p :: ps, P :: Ps, All2.cons ⟨hS, hkeys p P hp⟩ h₁, All2.cons hp h₂, ?_⟩
          simp only [reachL]
          refine All2.cons (fun s hs => ?_) h₃
          obtain ⟨s', hs', hS'⟩ := hP s hs
          exact ⟨s', hs', hS', reach_mem_states B t s' hs'⟩

theorem all2_keys {X : List (Nat × List Nat)} {σ : Rule} {ps : List Nat} (e : σ.kids = ps) {Ps : List (List Nat)}
    (h : All2 (fun p P => (p, P) ∈ X) ps Ps) : All2 (fun k P => (k, P) ∈ X) σ.kids Ps := e ▸ h

mutual
theorem up_cert_sim_sound (A B : TA) (S : Nat → Nat → Prop) (hS : IsUpSim (unionDisjoint A B) S)
    (hrefl : ∀ q, S q q) (htr : ∀ a b c, S a b → S b c → S a c) (hdis : ∀ q, q ∈ A.states → q ∉ B.states)
    (X : List (Nat × List Nat)) (hX : UpCertSim A B S X) (hkeys : KeysIn A X) : ∀ t : Tree, CoverS A B S X t
  | .node f ts => by
    intro q hq
    rw [reach, mem_post'] at hq
    obtain ⟨ρ, hρ, hs, hm, hp⟩ := hq
    have hCA := comp_left A B hdis
    have hCB := comp_right A B hdis
    rcases coverS_kids A B S X hkeys ts (up_cert_sim_soundL A B S hS hrefl htr hdis X hX hkeys ts) ρ.kids hm with
      ⟨i, k, s, hi, hks, hsB, hmU⟩ | ⟨ps, Ps, h₁, h₂, h₃⟩
    · -- a child is simulated by a state of `B`: the simulating rule is a rule of `B`
      obtain ⟨σ, hσ, e₁, e₂, e₃⟩ := (hS k s hks).2 ρ (hCA.sub ρ hρ) i hi
      have hσB : σ ∈ B.rules := hCB.kid σ hσ s (by rw [e₂]; exact mem_setAt _ _ _ _ hi) hsB
      have hU : σ.parent ∈ reach (unionDisjoint A B) (.node f ts) := by
        rw [reach, mem_post']
        exact ⟨σ, hσ, e₁.trans hs, by rw [e₂]; exact hmU, rfl⟩
      refine Or.inl ⟨σ.parent, ?_, hp ▸ e₃⟩
      exact (unionDisjoint_reach_right A B hdis _ _ (SimModel.parent_mem_states hσB)).mp hU
    · -- all children are covered by pairs of `X`: replace them, then use the closure of `X`
      obtain ⟨σ, hσ, e₁, e₂, e₃⟩ := replace_kids hCA hS hrefl htr h₁ ρ [] hρ rfl
      simp only [List.nil_append] at e₂
      have hpost : ∀ s, s ∈ post B σ.sym Ps → ∃ s', s' ∈ reach B (.node f ts) ∧ S s s' := by
        intro s hs'
        rw [reach, ← hs, ← e₁]
        exact post_sim hCB hS hrefl htr σ.sym h₃ s hs'
      rcases hX σ hσ Ps (all2_keys e₂ h₂) with ⟨s, hs', hS'⟩ | ⟨p, P, hpX, hS', hP⟩
      · obtain ⟨s', hs'', hS''⟩ := hpost s hs'
        exact Or.inl ⟨s', hs'', htr _ _ _ (hp ▸ e₃) (htr _ _ _ hS' hS'')⟩
      · refine Or.inr ⟨p, P, hpX, htr _ _ _ (hp ▸ e₃) hS', fun s hsP => ?_⟩
        obtain ⟨s'', hs'', hS''⟩ := hP s hsP
        obtain ⟨s', hs', hS₃⟩ := hpost s'' hs''
        exact ⟨s', hs', htr _ _ _ hS'' hS₃⟩
theorem up_cert_sim_soundL (A B : TA) (S : Nat → Nat → Prop) (hS : IsUpSim (unionDisjoint A B) S)
    (hrefl : ∀ q, S q q) (htr : ∀ a b c, S a b → S b c → S a c) (hdis : ∀ q, q ∈ A.states → q ∉ B.states)
    (X : List (Nat × List Nat)) (hX : UpCertSim A B S X) (hkeys : KeysIn A X) :
    ∀ ts : List Tree, ∀ t, t ∈ ts → CoverS A B S X t
  | [], _, h => by simp at h
  | t :: ts, t', h => by
    rcases List.mem_cons.mp h with h | h
    · rw [h]; exact up_cert_sim_sound A B S hS hrefl htr hdis X hX hkeys t
    · exact up_cert_sim_soundL A B S hS hrefl htr hdis X hX hkeys ts t' h
end

/-- **the antichain principle modulo an upward simulation**: `S` a reflexive and transitive upward simulation (identity
on siblings, respecting finality) of the disjoint union of `A` and `B`; a set `X` of pairs with first components in `A`
that is closed under the post-image up to the subsumption modulo `S` and has no bad pair certifies `L(A) ⊆ L(B)` -/
theorem up_cert_sim_incl (A B : TA) (S : Nat → Nat → Prop) (hS : IsUpSim (unionDisjoint A B) S)
    (hrefl : ∀ q, S q q) (htr : ∀ a b c, S a b → S b c → S a c) (hdis : ∀ q, q ∈ A.states → q ∉ B.states)
    (X : List (Nat × List Nat)) (hX : UpCertSim A B S X) (hkeys : KeysIn A X) (hok : NoBad A B X) : Incl A B := by
  intro t h
  simp only [accepts, accepting, List.any_eq_true, List.contains_iff_mem] at h ⊢
  obtain ⟨q, hq, hf⟩ := h
  -- a final state of the union that is a state of `B` is final in `B`
  have hfinB : ∀ s, s ∈ B.states → s ∈ (unionDisjoint A B).final → s ∈ B.final := fun s hsB hsf => by
    rcases List.mem_append.mp hsf with h | h
    · exact absurd hsB (hdis s (SimModel.final_mem_states h))
    · exact h
  have hqU : q ∈ (unionDisjoint A B).final := List.mem_append_left _ hf
  rcases up_cert_sim_sound A B S hS hrefl htr hdis X hX hkeys t q hq with ⟨s, hs, hqs⟩ | ⟨p, P, hpX, hqp, hP⟩
  · exact ⟨s, hs, hfinB s (reach_mem_states B t s hs) ((hS q s hqs).1 hqU)⟩
  · have hpU := (hS q p hqp).1 hqU
    have hpA : p ∈ A.final := by
      rcases List.mem_append.mp hpU with h | h
      · exact h
      · exact absurd (SimModel.final_mem_states h) (hdis p (hkeys p P hpX))
    obtain ⟨s, hsP, hsf⟩ := hok p P hpX hpA
    obtain ⟨s', hs', hss'⟩ := hP s hsP
    exact ⟨s', hs', hfinB s' (reach_mem_states B t s' hs') ((hS s s' hss').1 (List.mem_append_right _ hsf))⟩

/-- the same for a relation given as a list of pairs, closed reflexively and transitively -/
theorem up_cert_sim_incl_rel (A B : TA) (R : Rel) (hR : IsUpSim (unionDisjoint A B) (RelOf R))
    (hdis : ∀ q, q ∈ A.states → q ∉ B.states) (X : List (Nat × List Nat))
    (hX : UpCertSim A B (fun a b => a = b ∨ (a, b) ∈ R) X) (hkeys : KeysIn A X) (hok : NoBad A B X) : Incl A B := by
  refine up_cert_sim_incl A B (Star (RelOf R)) (upSim_star _ hR) Star.refl (fun _ _ _ => Star.trans) hdis X
    (upCertSim_mono ?_ hX) hkeys hok
  rintro a b (rfl | h)
  · exact Star.refl a
  · exact Star.single h

/-! ### 4. the Boolean checker -/

/-- the reflexive closure of a relation given as a list -/
def LeqP (R : Rel) (a b : Nat) : Prop := a = b ∨ (a, b) ∈ R

theorem leq_iff {R : Rel} {a b : Nat} : leq R a b = true ↔ LeqP R a b := by
  simp only [leq, LeqP, Bool.or_eq_true, beq_iff_eq, List.contains_iff_mem]

end InclUpSim

/-- the Boolean check decides `UpCertSim` (for the reflexive closure of `R`) together with "first components in `A`" and
"no bad pair" -/
theorem upCertSimB_iff (A B : TA) (R : Rel) (X : List (Nat × List Nat)) :
    upCertSimB A B R X = true ↔ UpCertSim A B (LeqP R) X ∧ KeysIn A X ∧ NoBad A B X := by
  simp only [upCertSimB, Bool.and_eq_true, List.all_eq_true, List.any_eq_true, Bool.or_eq_true, leq_iff,
    Bool.not_eq_true', List.contains_iff_mem, UpCertSim, KeysIn, NoBad]
  constructor
  · rintro ⟨h1, h2⟩
    refine ⟨?_, ?_, ?_⟩
    · intro ρ hρ Ss hSs
      rcases h1 ρ hρ Ss (mem_choices.mpr hSs) with ⟨s, hs, hS⟩ | ⟨p, hp, hS, hP⟩
      · exact Or.inl ⟨s, hs, hS⟩
      · exact Or.inr ⟨p.1, p.2, hp, hS, hP⟩
    · intro q P hqP
      exact (h2 (q, P) hqP).1
    · intro q P hqP hf
      rcases (h2 (q, P) hqP).2 with h | h
      · have : A.final.contains q = true := List.contains_iff_mem.mpr hf
        simp only at h
        rw [h] at this; cases this
      · exact accepting_iff.mp h
  · rintro ⟨h1, h2, h3⟩
    refine ⟨?_, ?_⟩
    · intro ρ hρ Ss hSs
      rcases h1 ρ hρ Ss (mem_choices.mp hSs) with ⟨s, hs, hS⟩ | ⟨p, P, hp, hS, hP⟩
      · exact Or.inl ⟨s, hs, hS⟩
      · exact Or.inr ⟨(p, P), hp, hS, hP⟩
    · intro p hp
      refine ⟨h2 p.1 p.2 hp, ?_⟩
      cases hc : A.final.contains p.1 with
      | false => exact Or.inl rfl
      | true => exact Or.inr (accepting_iff.mpr (h3 p.1 p.2 hp (List.contains_iff_mem.mp hc)))

theorem upCertSimB_sound {A B : TA} {R : Rel} {X : List (Nat × List Nat)} (h : upCertSimB A B R X = true) :
    UpCertSim A B (LeqP R) X ∧ KeysIn A X ∧ NoBad A B X := (upCertSimB_iff A B R X).mp h

/-- a checked certificate modulo a validated relation proves the inclusion -/
theorem upCertSimB_incl {A B : TA} {R : Rel} {X : List (Nat × List Nat)}
    (hsim : isUpSimB (unionDisjoint A B) R = true) (hdis : InclDown.disjointB A B = true)
    (h : upCertSimB A B R X = true) : Incl A B :=
  up_cert_sim_incl_rel A B R ((isUpSimB_iff _ R).mp hsim) (InclDown.disjointB_iff.mp hdis) X
    (upCertSimB_sound h).1 (upCertSimB_sound h).2.1 (upCertSimB_sound h).2.2

/-! ### 5. the verdicts of the model -/

namespace InclUpSim

/-- what a returned result consists of -/
theorem inclUpSim_some {A B : TA} {R : Rel} {fuel : Nat} {b : Bool} {c : Cert}
    (h : inclUpSim A B R fuel = some (b, c)) :
    (b = true ∧ isUpSimB (unionDisjoint A B) R = true ∧ InclDown.disjointB A B = true ∧
      ∃ X, c = .closed X ∧ upCertSimB A B R X = true) ∨
    (b = false ∧ ∃ w, c = .witness w ∧ accepts A w = true ∧ accepts B w = false) := by
  unfold inclUpSim at h
  split at h
  · cases h
  · next P _ =>
    simp only at h
    split at h
    · next hc =>
      simp only [Option.some.injEq, Prod.mk.injEq] at h
      simp only [Bool.and_eq_true] at hc
      exact Or.inl ⟨h.1.symm, hc.1.1, hc.1.2, _, h.2.symm, hc.2⟩
    · cases h
  · next q t _ =>
    simp only at h
    split at h
    · next hc =>
      simp only [Option.some.injEq, Prod.mk.injEq] at h
      simp only [Bool.and_eq_true, Bool.not_eq_true'] at hc
      exact Or.inr ⟨h.1.symm, _, h.2.symm, hc.1, hc.2⟩
    · cases h

end InclUpSim

theorem inclUpSim_true {A B : TA} {R : Rel} {fuel : Nat} {c : Cert} (h : inclUpSim A B R fuel = some (true, c)) :
    Incl A B := by
  rcases inclUpSim_some h with ⟨_, hsim, hdis, X, _, hX⟩ | ⟨hb, _⟩
  · exact upCertSimB_incl hsim hdis hX
  · cases hb

theorem inclUpSim_false {A B : TA} {R : Rel} {fuel : Nat} {c : Cert} (h : inclUpSim A B R fuel = some (false, c)) :
    ¬ Incl A B := by
  rcases inclUpSim_some h with ⟨hb, _⟩ | ⟨_, w, _, hA, hB⟩
  · cases hb
  · intro hincl
    rw [hincl w hA] at hB
    cases hB

/-- every verdict of the upward algorithm pruned by ANY relation `R` is exact (the model validates `R`) -/
theorem inclUpSim_iff {A B : TA} {R : Rel} {fuel : Nat} {b : Bool} {c : Cert}
    (h : inclUpSim A B R fuel = some (b, c)) : b = true ↔ Incl A B := by
  cases b with
  | true => exact ⟨fun _ => inclUpSim_true h, fun _ => rfl⟩
  | false => exact ⟨fun hb => (by cases hb), fun hi => absurd hi (inclUpSim_false h)⟩

/-- the certificate of a `true` verdict is a validated relation with an `UpCertSim` (first components in `A`, no bad
pair), that of a `false` verdict a separating tree -/
theorem inclUpSim_cert {A B : TA} {R : Rel} {fuel : Nat} {b : Bool} {c : Cert}
    (h : inclUpSim A B R fuel = some (b, c)) :
    match c with
    | .closed X => b = true ∧ IsUpSim (unionDisjoint A B) (RelOf R) ∧ (∀ q, q ∈ A.states → q ∉ B.states) ∧
        UpCertSim A B (LeqP R) X ∧ KeysIn A X ∧ NoBad A B X
    | .witness w => b = false ∧ accepts A w = true ∧ accepts B w = false := by
  rcases inclUpSim_some h with ⟨hb, hsim, hdis, X, hc, hX⟩ | ⟨hb, w, hc, hA, hB⟩
  · subst hc; exact ⟨hb, (isUpSimB_iff _ R).mp hsim, InclDown.disjointB_iff.mp hdis, upCertSimB_sound hX⟩
  · subst hc; exact ⟨hb, hA, hB⟩

/-- the model of the command-line `CheckInclusion` with `ANTICHAINS_UP_SIM` (sanitise, upward simulation of the disjoint
union, pruned exploration): every verdict is exact for the ORIGINAL operands -/
theorem checkInclUpSim_iff {A B : TA} {fuel : Nat} {b : Bool} {c : Cert}
    (h : checkInclUpSim A B fuel = some (b, c)) : b = true ↔ Incl A B :=
  (inclUpSim_iff h).trans (checkIncl_sanitized A B)

/-- on the sanitised operands the validation of the computed relation always passes: a `none` of `checkInclUpSim` is
"fuel exhausted", "the final antichain fails the check" or "the witness fails the check", never "bad relation" -/
theorem checkInclUpSim_validation (A B : TA) :
    isUpSimB (unionDisjoint (sanitize A B).1 (sanitize A B).2.1)
      (upSimRef (unionDisjoint (sanitize A B).1 (sanitize A B).2.1)) = true ∧
    InclDown.disjointB (sanitize A B).1 (sanitize A B).2.1 = true :=
  ⟨upSimRef_check _, InclDown.disjointB_iff.mpr (sanitize_disjoint A B)⟩

/-- bottom-up BDD encoding, upward with a "simulation": the relation is ignored by the code, every verdict is exact -/
theorem inclUpBddSim_iff {A B : TA} {R : Rel} {fuel : Nat} {b : Bool} {c : Cert}
    (h : inclUpBddSim A B R fuel = some (b, c)) : b = true ↔ Incl A B := inclUpBdd_iff h

theorem checkInclUpBddSim_iff {A B : TA} {fuel : Nat} {b : Bool} {c : Cert}
    (h : checkInclUpBddSim A B fuel = some (b, c)) : b = true ↔ Incl A B :=
  (inclUpBdd_iff h).trans (checkIncl_sanitized A B)

/-! ### examples (non-vacuity) and self-test -/
namespace InclUpSimEx
open InclDownEx (verdict isClosed isWitness selfTest)

/-- `a → 1`, `a → 2`, `g(1) → 3`, `g(2) → 3`, `h(2) → 3`, final `3`: `{g(a), h(a)}`; `2` simulates `1` upward -/
def exP : TA := ⟨[⟨0, [], 1⟩, ⟨0, [], 2⟩, ⟨2, [1], 3⟩, ⟨2, [2], 3⟩, ⟨3, [2], 3⟩], [3]⟩
/-- the same language with the states `10`, `12`, `11`; `12` simulates `10` upward -/
def exQ : TA := ⟨[⟨0, [], 10⟩, ⟨0, [], 12⟩, ⟨2, [10], 11⟩, ⟨2, [12], 11⟩, ⟨3, [12], 11⟩], [11]⟩
/-- the part of the upward simulation of the union that stays inside the operands -/
def exR : Rel := [(1, 1), (2, 2), (3, 3), (10, 10), (11, 11), (12, 12), (1, 2), (10, 12)]
/-- binary symbol: `a → 1`, `a → 2`, `b → 2`, `g(x, y) → 3` for all `x, y ∈ {1, 2}` -/
def exP2 : TA := ⟨[⟨0, [], 1⟩, ⟨0, [], 2⟩, ⟨1, [], 2⟩, ⟨2, [1, 1], 3⟩, ⟨2, [2, 1], 3⟩, ⟨2, [1, 2], 3⟩, ⟨2, [2, 2], 3⟩], [3]⟩
def exQ2 : TA := ⟨[⟨0, [], 10⟩, ⟨0, [], 12⟩, ⟨1, [], 12⟩, ⟨2, [10, 10], 11⟩, ⟨2, [12, 10], 11⟩, ⟨2, [10, 12], 11⟩,
  ⟨2, [12, 12], 11⟩], [11]⟩
/-- `{a}` with the state `11` -/
def exA' : TA := ⟨[⟨0, [], 11⟩], [11]⟩

-- the greatest upward simulation of the union also relates states of `exP` to states of `exQ`
#guard upSimRef (unionDisjoint exP exQ) ==
  [(1, 1), (1, 2), (1, 10), (1, 12), (2, 2), (2, 12), (3, 3), (3, 11), (10, 1), (10, 2), (10, 10), (10, 12), (12, 2),
    (12, 12), (11, 3), (11, 11)]
-- without a relation (`R = []` is not even reflexive): pairs are recorded repeatedly, the verdict is still certified
#guard isClosed (inclUpSim exP exQ [] 20) [(1, [10, 12]), (2, [10, 12]), (3, [11]), (3, [11]), (3, [11])]
-- the plain algorithm records three pairs
#guard isClosed (inclUp exP exQ 20) [(1, [10, 12]), (2, [10, 12]), (3, [11])]
-- with `exR`: the macro-state `{10, 12}` is minimised to `{12}`, the pair `(1, {12})` is subsumed by `(2, {12})`
#guard isClosed (inclUpSim exP exQ exR 20) [(2, [12]), (3, [11])]
-- with the greatest simulation every pair is skipped by `checkIntersection` (`1 ≼ 12`, `2 ≼ 12`, `3 ≼ 11`)
#guard isClosed (inclUpSim exP exQ (upSimRef (unionDisjoint exP exQ)) 20) []
-- a binary symbol forbids simulation across the operands below the root; `1 ≈ 2`, `10 ≈ 12`
#guard isClosed (inclUpSim exP2 exQ2 (upSimRef (unionDisjoint exP2 exQ2)) 20) [(1, [10])]
#guard isClosed (inclUp exP2 exQ2 20) [(1, [10, 12]), (2, [12]), (3, [11])]
#guard isClosed (inclUpSim InclUpEx.exH InclUpEx.exG (upSimRef (unionDisjoint InclUpEx.exH InclUpEx.exG)) 20)
  [(3, [1]), (4, [1])]
#guard isWitness (inclUpSim InclUpEx.exG InclUpEx.exH (upSimRef (unionDisjoint InclUpEx.exG InclUpEx.exH)) 20) "2(0,1)"
#guard isWitness (inclUpSim InclUpEx.exDeep exA' (upSimRef (unionDisjoint InclUpEx.exDeep exA')) 20) "3(2(0))"
-- operands that share the state `1` (`exDeep`, `exA`): the exploration skips the pair `(1, {1})` because "`1` simulates
-- `1`" and ends with `return true` although the inclusion is false; the model refuses (the operands are not disjoint)
#guard (match InclUpSim.run (upSimRef (unionDisjoint InclUpEx.exDeep InclUpEx.exA)) InclUpEx.exDeep InclUpEx.exA 20 with
  | some (.ok P) => P.isEmpty | _ => false)
#guard verdict (inclUpSim InclUpEx.exDeep InclUpEx.exA (upSimRef (unionDisjoint InclUpEx.exDeep InclUpEx.exA)) 20) == none
#guard inclM InclUpEx.exDeep InclUpEx.exA 10 == some false
-- a relation that is not an upward simulation changes the exploration; the `true` is refused.  Overlapping operands
-- are refused.  Fuel.
#guard verdict (inclUpSim exP exQ [(1, 11)] 20) == none
#guard verdict (inclUpSim InclUpEx.exA InclUpEx.exA [] 20) == none
#guard verdict (inclUpSim exP exQ exR 1) == none
-- the command-line model: overlapping, untrimmed operands are sanitised first
#guard isClosed (checkInclUpSim SanEx.exA SanEx.exB 20) [(1, [2])]
#guard isWitness (checkInclUpSim SanEx.exB SanEx.exA 20) "3"

-- the theorems apply
example : IsUpSim (unionDisjoint exP exQ) (RelOf exR) := (isUpSimB_iff _ _).mp (by decide)
example : IsUpSim (unionDisjoint exP exQ) (Star (RelOf exR)) := upSim_star _ ((isUpSimB_iff _ _).mp (by decide))
example : Comp (unionDisjoint exP exQ) exQ := comp_right _ _ (InclDown.disjointB_iff.mp (by decide))
-- the context `g(□)`: from `1` it reaches the final state `3`; `12` simulates `1`; hence `g(a)` is accepted via `12`
example : accepts (unionDisjoint exP exQ) (Ctx.plug (.node 2 [] .hole []) (.node 0 [])) = true :=
  upSim_ctx_accepts _ (RelOf (upSimRef (unionDisjoint exP exQ))) (upSimRef_sim _) (.node 2 [] .hole [])
    (q := 1) (r := 12) (by decide) (by decide) (by decide)
example : ∃ p', p' ∈ (Ctx.node 3 [] .hole []).reachFrom (unionDisjoint exP exQ) [12] ∧
    RelOf (upSimRef (unionDisjoint exP exQ)) 3 p' :=
  upSim_ctx _ _ (upSimRef_sim _) (.node 3 [] .hole []) 2 12 3 (by decide) (by decide)
example : upCertSimB exP exQ exR [(2, [12]), (3, [11])] = true := by decide
example : UpCertSim exP exQ (LeqP exR) [(2, [12]), (3, [11])] ∧ KeysIn exP [(2, [12]), (3, [11])] ∧
    NoBad exP exQ [(2, [12]), (3, [11])] := upCertSimB_sound (by decide)
example : Incl exP exQ :=
  up_cert_sim_incl_rel exP exQ exR ((isUpSimB_iff _ _).mp (by decide)) (InclDown.disjointB_iff.mp (by decide))
    [(2, [12]), (3, [11])] (upCertSimB_sound (B := exQ) (R := exR) (by decide)).1
    (upCertSimB_sound (B := exQ) (R := exR) (by decide)).2.1 (upCertSimB_sound (R := exR) (by decide)).2.2
example : Incl exP exQ := upCertSimB_incl (R := exR) (X := [(2, [12]), (3, [11])]) (by decide) (by decide) (by decide)
-- modulo the identity the same set is NOT a certificate (the pair for `1` is missing), nor is a set with a bad pair
example : upCertSimB exP exQ [] [(2, [12]), (3, [11])] = false := by decide
example : upCertSimB exP exQ exR [(2, [12]), (3, [])] = false := by decide
example : upCertSimB exP exQ exR [(2, [12]), (3, [11]), (11, [11])] = false := by decide
example : Incl exP exQ := inclUpSim_true (R := exR) (fuel := 20) (c := .closed [(2, [12]), (3, [11])]) rfl
example : ¬ Incl InclUpEx.exG InclUpEx.exH :=
  inclUpSim_false (R := []) (fuel := 20) (c := .witness (.node 2 [.node 0 [], .node 1 []])) rfl
example : (true = true ↔ Incl exP2 exQ2) :=
  inclUpSim_iff (R := [(1, 1), (1, 2), (2, 1), (2, 2), (3, 3), (3, 11), (10, 10), (10, 12), (12, 10), (12, 12), (11, 3),
    (11, 11)]) (fuel := 20) (c := .closed [(1, [10])]) rfl
example : (true = true ↔ Incl SanEx.exA SanEx.exB) :=
  checkInclUpSim_iff (fuel := 20) (c := .closed [(1, [2])]) rfl
-- the bottom-up BDD selection ignores the relation
example : inclUpBddSim exP exQ [(1, 11)] 20 = inclUpBddSim exP exQ exR 20 := rfl
#guard isClosed (inclUpBddSim exP exQ [(1, 11)] 20) [(1, [10, 12]), (2, [10, 12]), (3, [11])]
example : (true = true ↔ Incl exP exQ) :=
  inclUpBddSim_iff (R := [(1, 11)]) (fuel := 20) (c := .closed [(1, [10, 12]), (2, [10, 12]), (3, [11])]) rfl
#guard verdict (checkInclUpBddSim SanEx.exA SanEx.exB 20) == some true
#guard verdict (checkInclUpBddSim SanEx.exB SanEx.exA 20) == some false

/-! #### self-test against the exact decider `inclM` on pseudo-random pairs
`(agreeing verdicts, disagreeing verdicts, none, of the agreeing: true)`: 320 pairs, no `none`, no disagreement -/

#guard selfTest (checkInclUpSim · · 200) 3 5 7 60 42 (0, 0, 0, 0) == (60, 0, 0, 21)
#guard selfTest (checkInclUpSim · · 200) 4 8 10 60 7 (0, 0, 0, 0) == (60, 0, 0, 17)
#guard selfTest (checkInclUpSim · · 200) 4 10 10 100 11 (0, 0, 0, 0) == (100, 0, 0, 13)
#guard selfTest (checkInclUpSim · · 200) 5 12 14 100 5 (0, 0, 0, 0) == (100, 0, 0, 17)

/-- the exploration on the raw operands (disjoint by construction, not trimmed) with the simulation of their union -/
def rawSim (A B : TA) : Option (Bool × Cert) := inclUpSim A B (upSimRef (unionDisjoint A B)) 200

-- raw operands (useless states, against the precondition of the code): `none` where the code's `false` is not backed by
-- a tree (9 resp. 8 of 60); the verdicts returned agree
#guard selfTest rawSim 3 5 7 60 42 (0, 0, 0, 0) == (51, 0, 9, 13)
#guard selfTest rawSim 4 8 10 60 7 (0, 0, 0, 0) == (52, 0, 8, 11)

end InclUpSimEx

end Vata
