import Vata.Proofs.TimbukGrammarParser
import Vata.Proofs.TimbukGrammarWords
import Vata.Proofs.TimbukGrammarTrans
/-!
# The reader computes the readings of the grammar (property C13)

`reads_iff : Reads t R ↔ readText t = some R`, from the line-level equivalences (`words_iff`, `tokens_iff`,
`transLine_iff`) by induction over the lines; with `parseC_ok_iff`: `parseC_ok_iff_reads`.
-/
namespace Vata.Timbuk
open Vata.T (splitDelim)

/-! ## line level -/

theorem isBlankLine_iff (l : Str) : isBlankLine l = true ↔ AllWs l := by
  unfold isBlankLine
  rw [decide_eq_true_iff, trim_eq_nil_iff]

theorem isTransitionsLine_iff (l : Str) : isTransitionsLine l = true ↔ TransitionsLine l := by
  unfold isTransitionsLine TransitionsLine
  rw [decide_eq_true_iff]
  constructor
  · intro h
    cases hw : readWords (trim l) with
    | nil => rw [hw] at h; exact absurd h.symm (by decide)
    | cons w ws =>
      rw [hw] at h
      simp only [List.headD_cons] at h
      subst h
      exact ⟨ws, (words_iff l _).mpr hw⟩
  · rintro ⟨ws, h⟩
    rw [(words_iff l _).mp h]; rfl

theorem words_noWs {l : Str} {ws : List Str} (h : Words l ws) : ∀ w ∈ ws, NoWs w :=
  fun w hw => (words_word h w hw).2

theorem optOk_parseTokens {ws : List Str} (hws : ∀ w ∈ ws, NoWs w) (ps : List (Str × Int)) :
    optOk (parseTokens ws) = some ps ↔ Tokens ws ps := by
  rw [optOk_eq_some, tokens_iff hws]

theorem readHeader_nil : readHeader [] = none := by decide

theorem readHeader_cons (w : Str) (ws : List Str) : readHeader (w :: ws) =
    (if w = kwAutomaton then
      if ws.tail ≠ [] then none else some (.aut, ws.map (fun n => (n, -1)))
    else if w = kwOps then (optOk (parseTokens ws)).map (fun ps => (HKind.ops, ps))
    else if w = kwStates then (optOk (parseTokens ws)).map (fun ps => (HKind.states, ps))
    else if w = kwFinal then
      if ws.headD [] ≠ kwStates then none
      else (optOk (parseTokens ws.tail)).map (fun ps => (HKind.final, ps))
    else none) := rfl

/-- a header line of the grammar is exactly what the reader reads from the words of the line -/
theorem headerLine_iff (l : Str) (k : HKind) (ps : List (Str × Int)) :
    HeaderLine l k ps ↔ readHeader (readWords (trim l)) = some (k, ps) := by
  constructor
  · intro h
    have e1 : kwOps ≠ kwAutomaton := by decide
    have e2 : kwStates ≠ kwAutomaton := by decide
    have e3 : kwStates ≠ kwOps := by decide
    have e4 : kwFinal ≠ kwAutomaton := by decide
    have e5 : kwFinal ≠ kwOps := by decide
    have e6 : kwFinal ≠ kwStates := by decide
    cases h with
    | ops hw ht =>
      have hn := words_noWs hw
      rw [(words_iff l _).mp hw]
      have := (optOk_parseTokens (fun w hw' => hn w (List.mem_cons_of_mem _ hw')) ps).mpr ht
      simp [readHeader, this, e1]
    | states hw ht =>
      have hn := words_noWs hw
      rw [(words_iff l _).mp hw]
      have := (optOk_parseTokens (fun w hw' => hn w (List.mem_cons_of_mem _ hw')) ps).mpr ht
      simp [readHeader, this, e2, e3]
    | final hw ht =>
      have hn := words_noWs hw
      rw [(words_iff l _).mp hw]
      have := (optOk_parseTokens
        (fun w hw' => hn w (List.mem_cons_of_mem _ (List.mem_cons_of_mem _ hw'))) ps).mpr ht
      simp [readHeader, this, e4, e5, e6]
    | autNone hw =>
      rw [(words_iff l _).mp hw]; rfl
    | autName hw =>
      rw [(words_iff l _).mp hw]
      simp [readHeader]
  · intro h
    have hw : Words l (readWords (trim l)) := (words_iff l _).mpr rfl
    generalize readWords (trim l) = ws at h hw
    have hn := words_noWs hw
    cases ws with
    | nil => rw [readHeader_nil] at h; cases h
    | cons w ws =>
      rw [readHeader_cons] at h
      by_cases h1 : w = kwAutomaton
      · subst h1
        rw [if_pos rfl] at h
        cases ws with
        | nil =>
          simp only [List.tail_nil, ne_eq, not_true_eq_false, if_false, List.map_nil, Option.some.injEq,
            Prod.mk.injEq] at h
          obtain ⟨rfl, rfl⟩ := h
          exact .autNone hw
        | cons nm ws =>
          cases ws with
          | nil =>
            simp only [List.tail_cons, ne_eq, not_true_eq_false, if_false, List.map_cons, List.map_nil,
              Option.some.injEq, Prod.mk.injEq] at h
            obtain ⟨rfl, rfl⟩ := h
            exact .autName hw
          | cons x ws => simp at h
      rw [if_neg h1] at h
      by_cases h2 : w = kwOps
      · subst h2
        rw [if_pos rfl] at h
        cases ht : optOk (parseTokens ws) with
        | none => rw [ht] at h; cases h
        | some ps' =>
          rw [ht] at h
          simp only [Option.map_some, Option.some.injEq, Prod.mk.injEq] at h
          obtain ⟨rfl, rfl⟩ := h
          exact .ops hw ((optOk_parseTokens (fun w hw' => hn w (List.mem_cons_of_mem _ hw')) _).mp ht)
      rw [if_neg h2] at h
      by_cases h3 : w = kwStates
      · subst h3
        rw [if_pos rfl] at h
        cases ht : optOk (parseTokens ws) with
        | none => rw [ht] at h; cases h
        | some ps' =>
          rw [ht] at h
          simp only [Option.map_some, Option.some.injEq, Prod.mk.injEq] at h
          obtain ⟨rfl, rfl⟩ := h
          exact .states hw ((optOk_parseTokens (fun w hw' => hn w (List.mem_cons_of_mem _ hw')) _).mp ht)
      rw [if_neg h3] at h
      by_cases h4 : w = kwFinal
      · subst h4
        rw [if_pos rfl] at h
        by_cases h5 : ws.headD [] ≠ kwStates
        · rw [if_pos h5] at h; cases h
        · rw [if_neg h5] at h
          cases ws with
          | nil => exact absurd (by decide) h5
          | cons s ws =>
            simp only [List.headD_cons, ne_eq, Decidable.not_not] at h5
            subst h5
            simp only [List.tail_cons] at h
            cases ht : optOk (parseTokens ws) with
            | none => rw [ht] at h; cases h
            | some ps' =>
              rw [ht] at h
              simp only [Option.map_some, Option.some.injEq, Prod.mk.injEq] at h
              obtain ⟨rfl, rfl⟩ := h
              exact .final hw ((optOk_parseTokens
                (fun w hw' => hn w (List.mem_cons_of_mem _ (List.mem_cons_of_mem _ hw'))) _).mp ht)
      rw [if_neg h4] at h
      cases h

/-- the first word of a header line is its keyword -/
theorem headerLine_first {l : Str} {k : HKind} {ps : List (Str × Int)} (h : HeaderLine l k ps) :
    ∃ ws, readWords (trim l) = k.kw :: ws := by
  cases h with
  | ops hw _ => exact ⟨_, (words_iff l _).mp hw⟩
  | states hw _ => exact ⟨_, (words_iff l _).mp hw⟩
  | final hw _ => exact ⟨_, (words_iff l _).mp hw⟩
  | autNone hw => exact ⟨_, (words_iff l _).mp hw⟩
  | autName hw => exact ⟨_, (words_iff l _).mp hw⟩

/-- a header line is neither blank nor a `Transitions` line -/
theorem headerLine_excl {l : Str} {k : HKind} {ps : List (Str × Int)} (h : HeaderLine l k ps) :
    isBlankLine l = false ∧ isTransitionsLine l = false := by
  obtain ⟨ws, hw⟩ := headerLine_first h
  constructor
  · unfold isBlankLine
    rw [decide_eq_false_iff_not]
    intro e
    rw [e, readWords_nil] at hw; cases hw
  · unfold isTransitionsLine
    rw [decide_eq_false_iff_not, hw]
    exact kw_ne_transitions k

theorem transitionsLine_not_blank {l : Str} (h : TransitionsLine l) : isBlankLine l = false := by
  obtain ⟨ws, hw⟩ := h
  have := (words_iff l _).mp hw
  unfold isBlankLine
  rw [decide_eq_false_iff_not]
  intro e
  rw [e, readWords_nil] at this; cases this

theorem transLine_not_blank {l : Str} {r : Trans} (h : readTransLine l = some r) : isBlankLine l = false := by
  unfold isBlankLine
  rw [decide_eq_false_iff_not]
  intro e
  unfold readTransLine at h
  rw [e] at h
  simp [splitArrow] at h

/-! ## file level -/

theorem rulePart_iff (ls : List Str) (rs : List Trans) : RulePart ls rs ↔ readRulePart ls = some rs := by
  constructor
  · intro h
    induction h with
    | nil => rfl
    | blank hb _ ih =>
      rw [readRulePart, (isBlankLine_iff _).mpr hb]; exact ih
    | line ht _ ih =>
      have hr := (transLine_iff _ _ _ _).mp ht
      rw [readRulePart, transLine_not_blank hr]
      simp only [Bool.false_eq_true, if_false, hr, ih]
  · induction ls generalizing rs with
    | nil =>
      intro h
      simp only [readRulePart, Option.some.injEq] at h
      subst h; exact .nil
    | cons l ls ih =>
      intro h
      rw [readRulePart] at h
      by_cases hb : isBlankLine l = true
      · rw [if_pos hb] at h
        exact .blank ((isBlankLine_iff l).mp hb) (ih rs h)
      · rw [if_neg hb] at h
        cases hr : readTransLine l with
        | none => rw [hr] at h; cases h
        | some r =>
          rw [hr] at h
          cases hrs : readRulePart ls with
          | none => rw [hrs] at h; cases h
          | some rs' =>
            rw [hrs] at h
            simp only [Option.some.injEq] at h
            subst h
            obtain ⟨kids, lab, rhs⟩ := r
            exact .line ((transLine_iff _ _ _ _).mpr hr) (ih rs' hrs)

theorem headerPart_iff (ls : List Str) (hs : List (HKind × List (Str × Int))) (rest : List Str) :
    (∃ hdr trl, ls = hdr ++ trl :: rest ∧ HeaderPart hdr hs ∧ TransitionsLine trl) ↔
      readHeaderPart ls = some (hs, rest) := by
  constructor
  · rintro ⟨hdr, trl, rfl, hh, ht⟩
    induction hh with
    | nil =>
      rw [List.nil_append, readHeaderPart, transitionsLine_not_blank ht, (isTransitionsLine_iff trl).mpr ht]
      rfl
    | blank hb _ ih =>
      rw [List.cons_append, readHeaderPart, (isBlankLine_iff _).mpr hb]; exact ih
    | line hl _ ih =>
      have he := headerLine_excl hl
      rw [List.cons_append, readHeaderPart, he.1, he.2, (headerLine_iff _ _ _).mp hl]
      simp only [Bool.false_eq_true, if_false, ih]
  · induction ls generalizing hs with
    | nil => intro h; rw [readHeaderPart] at h; cases h
    | cons l ls ih =>
      intro h
      rw [readHeaderPart] at h
      by_cases hb : isBlankLine l = true
      · rw [if_pos hb] at h
        obtain ⟨hdr, trl, e, hh, ht⟩ := ih hs h
        exact ⟨l :: hdr, trl, by rw [e]; rfl, .blank ((isBlankLine_iff l).mp hb) hh, ht⟩
      · rw [if_neg hb] at h
        by_cases hT : isTransitionsLine l = true
        · rw [if_pos hT] at h
          simp only [Option.some.injEq, Prod.mk.injEq] at h
          obtain ⟨rfl, rfl⟩ := h
          exact ⟨[], l, rfl, .nil, (isTransitionsLine_iff l).mp hT⟩
        · rw [if_neg hT] at h
          cases hr : readHeader (readWords (trim l)) with
          | none => rw [hr] at h; cases h
          | some x =>
            rw [hr] at h
            cases hp : readHeaderPart ls with
            | none => rw [hp] at h; cases h
            | some p =>
              obtain ⟨hs', rest'⟩ := p
              rw [hp] at h
              simp only [Option.some.injEq, Prod.mk.injEq] at h
              obtain ⟨rfl, rfl⟩ := h
              obtain ⟨hdr, trl, e, hh, ht⟩ := ih hs' hp
              obtain ⟨k, ps⟩ := x
              exact ⟨l :: hdr, trl, by rw [e]; rfl, .line ((headerLine_iff _ _ _).mpr hr) hh, ht⟩

/-- **the reader computes exactly the readings of the grammar** -/
theorem reads_iff (t : Str) (R : Reading) : Reads t R ↔ readText t = some R := by
  unfold readText readLines
  constructor
  · rintro ⟨⟨hdr, trl, rules, hl, hh, ht, hr⟩, hn⟩
    rw [(lines_iff _ _).mp hl, (headerPart_iff _ _ _).mp ⟨hdr, trl, rfl, hh, ht⟩]
    simp only [(rulePart_iff _ _).mp hr, if_pos hn]
  · intro h
    cases hp : readHeaderPart (splitDelim '\n' t) with
    | none => rw [hp] at h; cases h
    | some p =>
      obtain ⟨hs, rest⟩ := p
      rw [hp] at h
      simp only at h
      cases hr : readRulePart rest with
      | none => rw [hr] at h; cases h
      | some rs =>
        rw [hr] at h
        simp only at h
        by_cases hn : (hs.map (·.1)).Nodup
        · rw [if_pos hn] at h
          simp only [Option.some.injEq] at h
          subst h
          obtain ⟨hdr, trl, e, hh, ht⟩ := (headerPart_iff _ _ _).mpr hp
          exact ⟨⟨hdr, trl, rest, (lines_iff _ _).mpr e, hh, ht, (rulePart_iff _ _).mpr hr⟩, hn⟩
        · rw [if_neg hn] at h; cases h

theorem acceptedB_iff (t : Str) : acceptedB t = true ↔ Accepted t := by
  unfold acceptedB Accepted
  rw [Option.isSome_iff_exists]
  exact ⟨fun ⟨R, h⟩ => ⟨R, (reads_iff t R).mpr h⟩, fun ⟨R, h⟩ => ⟨R, (reads_iff t R).mp h⟩⟩

instance (t : Str) : Decidable (Accepted t) := decidable_of_iff _ (acceptedB_iff t)

/-- the parser succeeds with `d` iff the text has a reading of the grammar whose description is `d` -/
theorem parseC_ok_iff_reads (t : Str) (d : Desc) : parseC t = .ok d ↔ ∃ R, Reads t R ∧ d = R.desc := by
  rw [parseC_ok_iff]
  exact ⟨fun ⟨R, h, e⟩ => ⟨R, (reads_iff t R).mpr h, e⟩, fun ⟨R, h, e⟩ => ⟨R, (reads_iff t R).mp h, e⟩⟩

/-- a text has at most one reading -/
theorem reads_unique {t : Str} {R R' : Reading} (h : Reads t R) (h' : Reads t R') : R = R' := by
  have := ((reads_iff t R).mp h).symm.trans ((reads_iff t R').mp h')
  exact Option.some.inj this

end Vata.Timbuk
