import Vata.CowHeapFAIsect
import Vata.Proofs.CowHeapFAUnion
import Vata.Proofs.NfaOpsCodedMain
/-!
# `Intersection` as a block of the heap model (proofs for `Vata/CowHeapFAIsect.lean`, property C11 / C10)

* `Sim`, `isect_trace_sim`: the recording run `trLoop` and the performing run `isectLoop … .fixed` of `NfaOpsCoded.lean` go in
  lock step: same translation map, same stack, and replaying the recorded writes on the empty automaton gives `res` up to list
  order (the C++ `stateSet.insert` is a set insertion, `nfasAddTrans` appends).
* `spec_writes`, `writes_denote`: the recorded writes as operations on the handle `t` / on values / on automata.
* `fa_isect_block`: the block `isectOps` after any history.
-/
namespace Vata.CowHeapFA

open Vata Vata.W Vata.NfaS Vata.NfaC
open Vata.Store (KeysNodup)
open Vata.CowHeap (upd upd_same upd_other)

/-- the write on an automaton -/
def ResW.napply (R : NFAS) : ResW → NFAS
  | .start n S => nfasSetExistingStart R n S
  | .final n => nfasSetFinal R n
  | .add n a k => nfasAddTrans R n a k

/-- replaying recorded writes on the empty automaton -/
def replay (ws : List ResW) : NFAS := ws.foldl ResW.napply nfasEmpty

theorem replay_snoc (ws : List ResW) (w : ResW) : replay (ws ++ [w]) = ResW.napply (replay ws) w := by
  unfold replay; rw [List.foldl_append]; rfl

theorem napply_congr {R S : NFAS} (h : NEquiv R S) (w : ResW) : NEquiv (ResW.napply R w) (ResW.napply S w) := by
  cases w with
  | start n T => exact nfasSetExistingStart_congr h n T
  | final n => exact nfasSetFinal_congr h n
  | add n a k => exact nfasAddTrans_congr h n a k

/-- the two runs in lock step -/
structure Sim (st : IsectSt) (tr : IsectTr) : Prop where
  tm : st.tm = tr.tm
  stack : st.stack = tr.stack
  res : NEquiv (replay tr.ws) st.res

theorem foldl_rel {σ τ α : Type} (R : σ → τ → Prop) (f : σ → α → σ) (g : τ → α → τ)
    (h : ∀ s t x, R s t → R (f s x) (g t x)) : ∀ (l : List α) s t, R s t → R (l.foldl f s) (l.foldl g t) := by
  intro l
  induction l with
  | nil => intro s t hr; exact hr
  | cons x l ih => intro s t hr; exact ih _ _ (h s t x hr)

theorem sim_init (o : NfaOrd) (A B : NFAS) : Sim (isectInit o .fixed A B) (trInit o A B) := by
  unfold isectInit trInit
  refine foldl_rel Sim _ _ (fun s t lss hr => ?_) _ _ _ ⟨rfl, rfl, NEquiv.refl _⟩
  refine foldl_rel Sim _ _ (fun s t rss hr => ?_) _ _ _ hr
  obtain ⟨h1, h2, h3⟩ := hr
  refine ⟨by simp only [h1], by simp only [h1, h2], ?_⟩
  simp only [replay_snoc, h1]
  exact nfasSetExistingStart_congr h3 _ _

theorem sim_ins (n a : Nat) {st : IsectSt} {tr : IsectTr} (hr : Sim st tr) (q : Nat × Nat) :
    Sim (isectIns n a st q) (trIns n a tr q) := by
  obtain ⟨h1, h2, h3⟩ := hr
  unfold isectIns trIns
  refine ⟨by simp only [h1], by simp only [h1, h2], ?_⟩
  simp only [replay_snoc, h1]
  refine ⟨h3.start, h3.final, fun e => ?_, h3.syms⟩
  show e ∈ (replay tr.ws).trans ++ [_] ↔ e ∈ insT st.res.trans _
  rw [List.mem_append, mem_insT, h3.trans e, List.mem_singleton]

theorem sim_body (o : NfaOrd) (A B : NFAS) (act : (Nat × Nat) × Nat) {st : IsectSt} {tr : IsectTr} (hr : Sim st tr) :
    Sim (isectBody o .fixed A B act st) (trBody o A B act tr) := by
  have h1 : Sim (if A.final.contains act.1.1 && B.final.contains act.1.2 then ⟨st.tm, st.stack, nfasSetFinal st.res act.2⟩ else st)
      (if A.final.contains act.1.1 && B.final.contains act.1.2 then ⟨tr.tm, tr.stack, tr.ws ++ [.final act.2]⟩ else tr) := by
    split
    · refine ⟨hr.tm, hr.stack, ?_⟩
      simp only [replay_snoc]
      exact nfasSetFinal_congr hr.res _
    · exact hr
  unfold isectBody trBody
  simp only
  split
  · exact h1
  · split
    · exact h1
    · refine foldl_rel Sim _ _ (fun s t c hc => ?_) _ _ _ h1
      exact foldl_rel Sim _ _ (fun s t q hq => sim_ins act.2 c.1 hq q) _ _ _ hc

/-- the relation on the results of the fuel loops -/
def OptSim : Option IsectSt → Option IsectTr → Prop
  | some st, some tr => Sim st tr
  | none, none => True
  | _, _ => False

theorem sim_loop (o : NfaOrd) (A B : NFAS) : ∀ (n : Nat) (st : IsectSt) (tr : IsectTr), Sim st tr →
    OptSim (NfaC.isectLoop o IsectVariant.fixed A B n st) (trLoop o A B n tr) := by
  intro n
  induction n with
  | zero =>
    intro st tr hr
    unfold NfaC.isectLoop trLoop
    rw [← hr.stack]
    split
    · exact hr
    · trivial
  | succ n ih =>
    intro st tr hr
    unfold NfaC.isectLoop trLoop
    have hs := hr.stack
    cases h : st.stack with
    | nil =>
      rw [h] at hs
      simp only [← hs]
      exact hr
    | cons act rest =>
      rw [h] at hs
      simp only [← hs]
      exact ih _ _ (sim_body o A B act ⟨hr.tm, rfl, hr.res⟩)

/-- **the recorded writes replay to `res`**: the recording run ends exactly when the run of `NfaOpsCoded.lean` does, with the
    same translation map, and its writes, replayed on the empty automaton, give `res` (before `RemoveUselessStates`) up to
    list order -/
theorem isect_trace_sim (o : NfaOrd) (A B : NFAS) (fuel : Nat) :
    OptSim (nfasIsectCodedRaw o .fixed A B fuel) (trLoop o A B fuel (trInit o A B)) :=
  sim_loop o A B fuel _ _ (sim_init o A B)

/-- totality of the recording run on the fuel `isectFuel`, and what `isectWrites` is -/
theorem isect_trace_total {o : NfaOrd} (ho : o.Ok) (A B : NFAS) :
    ∃ st tr, nfasIsectCodedRaw o .fixed A B (NfaC.isectFuel o IsectVariant.fixed A B) = some st ∧
      trLoop o A B (NfaC.isectFuel o IsectVariant.fixed A B) (trInit o A B) = some tr ∧ Sim st tr ∧ isectWrites o A B = tr.ws := by
  obtain ⟨st, hst⟩ := nfasIsectCodedRaw_total ho A B
  have h := isect_trace_sim o A B (NfaC.isectFuel o IsectVariant.fixed A B)
  rw [hst] at h
  cases htr : trLoop o A B (NfaC.isectFuel o IsectVariant.fixed A B) (trInit o A B) with
  | none => rw [htr] at h; exact absurd h id
  | some tr =>
    rw [htr] at h
    exact ⟨st, tr, hst, rfl, h, by simp [isectWrites, htr]⟩

/-! ### the writes as operations, on values, on automata -/

theorem specStep_write (e : Nat → Option FAVal) (t : Nat) (w : ResW) : specStep e (w.op t) = spec1 e t (fun v => ResW.vapply v w) := by
  cases w <;> rfl

/-- the recorded writes as operations on the live handle `t`: only `t` changes, to the value with the writes applied -/
theorem spec_writes (t : Nat) (ws : List ResW) : ∀ (e : Nat → Option FAVal) (v : FAVal), e t = some v →
    (ws.map (ResW.op t)).foldl specStep e = upd e t (some (ws.foldl ResW.vapply v)) := by
  induction ws with
  | nil =>
    intro e v hv
    funext x
    unfold upd
    by_cases h : x = t
    · simp [h, hv]
    · simp [h]
  | cons w ws ih =>
    intro e v hv
    rw [List.map_cons, List.foldl_cons, specStep_write, List.foldl_cons]
    have e1 : spec1 e t (fun v => ResW.vapply v w) = upd e t (some (ResW.vapply v w)) := by
      unfold spec1; rw [hv]
    rw [e1, ih _ (ResW.vapply v w) (upd_same _ _ _), upd_upd]

theorem vapply_denote (v : FAVal) (w : ResW) : NEquiv (ResW.vapply v w).toNFAS (ResW.napply v.toNFAS w) := by
  cases w with
  | start n S => exact NEquiv.refl _
  | final n => exact NEquiv.refl _
  | add n a k => exact vAdd_denote n a k v

theorem writes_denote (ws : List ResW) : ∀ (v : FAVal) (N : NFAS), NEquiv v.toNFAS N →
    NEquiv (ws.foldl ResW.vapply v).toNFAS (ws.foldl ResW.napply N) := by
  induction ws with
  | nil => intro v N h; exact h
  | cons w ws ih =>
    intro v N h
    exact ih _ _ ((vapply_denote v w).trans' (napply_congr h w))

theorem wfv_vapply {v : FAVal} (h : WFV v) (w : ResW) : WFV (ResW.vapply v w) := by
  cases w with
  | start n S => exact wfv_of_trans_eq h rfl
  | final n => exact wfv_of_trans_eq h rfl
  | add n a k => exact wfv_vAdd n a k h

theorem wfv_writes (ws : List ResW) : ∀ (v : FAVal), WFV v → WFV (ws.foldl ResW.vapply v) := by
  induction ws with
  | nil => intro v h; exact h
  | cons w ws ih => intro v h; exact ih _ (wfv_vapply h w)

/-- the value of the local `res` of `Intersection` before `RemoveUselessStates` -/
def vIsectRaw (o : NfaOrd) (A B : FAVal) : FAVal := (isectWrites o A.toNFAS B.toNFAS).foldl ResW.vapply vNew

/-- the value `Intersection` returns -/
def vIsect (o : NfaOrd) (A B : FAVal) : FAVal := vUseless (vIsectRaw o A B)

/-- **`res` in the heap model denotes the `res` of `nfasIsectCodedRaw`** (up to list order), and the returned value denotes
    `nfasRemoveUseless` of it -/
theorem vIsect_denote {o : NfaOrd} (ho : o.Ok) (A B : FAVal) :
    ∃ st, nfasIsectCodedRaw o .fixed A.toNFAS B.toNFAS (NfaC.isectFuel o IsectVariant.fixed A.toNFAS B.toNFAS) = some st ∧
      nfasIsectCoded o A.toNFAS B.toNFAS = (nfasUselessCoded o true st.res, st.tm) ∧
      NEquiv (vIsectRaw o A B).toNFAS st.res ∧ NEquiv (vIsect o A B).toNFAS (nfasRemoveUseless st.res) := by
  obtain ⟨st, tr, hst, _, hs, hw⟩ := isect_trace_total ho A.toNFAS B.toNFAS
  have h1 : NEquiv (vIsectRaw o A B).toNFAS st.res := by
    unfold vIsectRaw
    rw [hw]
    exact (writes_denote tr.ws vNew nfasEmpty (NEquiv.refl _)).trans' hs.res
  have hk : KeysNodup (vIsectRaw o A B).trans := (wfv_writes _ vNew wfv_vNew).keys
  refine ⟨st, hst, ?_, h1, (vUseless_denote _ hk).trans' (nfasRemoveUseless_congr h1)⟩
  simp [nfasIsectCoded, nfasIsectCodedF, hst]

/-- the language of the value `Intersection` returns is the intersection, and it is the language of `(nfasIsectCoded …).1` -/
theorem vIsect_lang {o : NfaOrd} (ho : o.Ok) (A B : FAVal) (w : List Nat) :
    acceptsW (vIsect o A B).toNFA w = (acceptsW A.toNFA w && acceptsW B.toNFA w) ∧
    acceptsW (vIsect o A B).toNFA w = acceptsW (nfasIsectCoded o A.toNFAS B.toNFAS).1.toNFA w := by
  obtain ⟨st, hst, he, _, h2⟩ := vIsect_denote ho A B
  have hl : acceptsW (vIsect o A B).toNFA w = acceptsW st.res.toNFA w :=
    (h2.lang w).trans (nfaRemoveUseless_lang st.res.toNFA w)
  refine ⟨hl.trans ((nfasIsectCodedRaw_spec ho A.toNFAS B.toNFAS _ st hst).2.2.2.2.2 w), ?_⟩
  rw [he, nfasUselessCoded_lang ho]
  exact hl

/-! ### the block after a history -/

/-- **`Intersection` after any history**: with `dst` and the local `t` dead and distinct, the block `isectOps` leaves `vIsect` in
    `dst`, `t` is dead again, and every other handle reads what it read before (the operands are only read: their values
    `A`, `B` enter through the recorded writes) -/
theorem fa_isect_block (ops : List Op) (o : NfaOrd) (A B : FAVal) (dst t : Nat)
    (hd : absFA (exec ops) dst = none) (ht : absFA (exec ops) t = none) (hne : dst ≠ t) :
    absFA (exec (ops ++ isectOps o A B dst t)) dst = some (vIsect o A B) ∧
    absFA (exec (ops ++ isectOps o A B dst t)) t = none ∧
    ∀ x, x ≠ dst → x ≠ t → absFA (exec (ops ++ isectOps o A B dst t)) x = absFA (exec ops) x := by
  have e0 : absFA (exec (ops ++ isectOps o A B dst t)) =
      upd (upd (upd (absFA (exec ops)) t (some (vIsectRaw o A B))) dst (some (vIsect o A B))) t none := by
    rw [absFA_exec_append]
    unfold isectOps
    rw [List.foldl_cons, List.foldl_append]
    have e1 : specStep (absFA (exec ops)) (.new t) = upd (absFA (exec ops)) t (some vNew) := by
      simp only [specStep, ht, Option.isSome_none, Bool.false_eq_true, if_false]
    rw [e1, spec_writes t _ _ vNew (upd_same _ _ _), upd_upd]
    show specStep (specStep _ (.useless t dst)) (.destroy t) = _
    have e2 : specStep (upd (absFA (exec ops)) t (some (vIsectRaw o A B))) (.useless t dst) =
        upd (upd (absFA (exec ops)) t (some (vIsectRaw o A B))) dst (some (vIsect o A B)) := by
      have h1 : upd (absFA (exec ops)) t (some (vIsectRaw o A B)) dst = none := by
        rw [upd_other _ _ hne]; exact hd
      simp only [specStep, specRes, upd_same, h1, Option.isNone_none, if_true]
      rfl
    unfold vIsectRaw at e2 ⊢
    rw [e2]
    rfl
  rw [e0]
  refine ⟨?_, upd_same _ _ _, fun x hx hxt => ?_⟩
  · rw [upd_other _ _ hne]; exact upd_same _ _ _
  · rw [upd_other _ _ hxt, upd_other _ _ hx, upd_other _ _ hxt]

end Vata.CowHeapFA
