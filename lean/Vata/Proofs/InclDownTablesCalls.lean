import Vata.Proofs.InclDownTables
import Vata.Proofs.BddTraverse
/-!
# The calls of the cached traversal with a non-empty left leaf, for a symbol-deterministic left diagram

`SymDet n a`: two ranked symbols `< 2 ^ n` that select the same NON-EMPTY leaf of `a` are equal (different symbols of a state
have different sets of children tuples).  Then every path of `a` to a non-empty leaf tests all `n` variables, no such leaf is
shared, and the cache of `VoidApply2Functor` (which merges the visits of a pair of nodes) drops no call with a non-empty left
leaf: these calls are, in order, the symbols `f < 2 ^ n` with a non-empty leaf, each with the two leaves `f` selects
(`calls_ne_eq`).  Without `SymDet` the traversal calls the functor once per CLASS (or less: once per pair of leaves) – see the
regressions in `Vata/Properties/C07_TraverseDown.lean`.
-/
namespace Vata
namespace InclDownTables
open M BddAbs BddAbsTD BddTraverse InclDown

abbrev LS := List (List Nat)
abbrev It := Nat × LS × LS

def SymDet (n : Nat) (a : Node LS) : Prop :=
  ∀ f g, f < 2 ^ n → g < 2 ^ n → eval a (bits f) ≠ [] → eval a (bits f) = eval a (bits g) → f = g

/-! ### the logging callback -/

/-- logs an item whose left leaf is not empty and whose pair of leaves was not logged before -/
def logNe (i : It) (s : List It) : Except Unit (List It) :=
  .ok (if i.2.1.isEmpty || s.any (fun j => j.2 == i.2) then s else s ++ [i])

def DoneNe (k : LS × LS) (s : List It) : Prop := k.1 = [] ∨ ∃ j, j ∈ s ∧ j.2 = k

theorem idem_logNe : Idem logNe (fun i => i.2) DoneNe := by
  refine ⟨?_, ?_, ?_⟩
  · intro i s s' h
    simp only [logNe, Except.ok.injEq] at h
    subst h
    split
    · rename_i hc
      rcases Bool.or_eq_true _ _ |>.mp hc with h1 | h1
      · exact Or.inl (List.isEmpty_iff.mp h1)
      · obtain ⟨j, hj, e⟩ := List.any_eq_true.mp h1
        exact Or.inr ⟨j, hj, by simpa using e⟩
    · exact Or.inr ⟨i, List.mem_append_right _ List.mem_cons_self, rfl⟩
  · intro i k s s' hd h
    simp only [logNe, Except.ok.injEq] at h
    subst h
    split
    · exact hd
    · rcases hd with h1 | ⟨j, hj, e⟩
      · exact Or.inl h1
      · exact Or.inr ⟨j, List.mem_append_left _ hj, e⟩
  · intro i s hd
    simp only [logNe]
    rw [if_pos]
    rcases hd with h1 | ⟨j, hj, e⟩
    · simp [h1]
    · rw [Bool.or_eq_true]; right
      exact List.any_eq_true.mpr ⟨j, hj, by simp [e]⟩

/-- distinct non-empty left leaves -/
def RNe (i j : It) : Prop := i.2.1 ≠ [] → j.2.1 ≠ [] → i.2.1 ≠ j.2.1

def neIt (l : List It) : List It := l.filter (fun i => !i.2.1.isEmpty)

theorem runL_logNe : ∀ (l : List It) (s : List It), l.Pairwise RNe →
    (∀ i, i ∈ l → ∀ j, j ∈ s → i.2.1 ≠ [] → j.2.1 ≠ i.2.1) → runL logNe l s = .ok (s ++ neIt l)
  | [], s, _, _ => by simp [runL, neIt]
  | i :: l, s, hp, hs => by
    obtain ⟨h1, h2⟩ := List.pairwise_cons.mp hp
    simp only [runL, logNe]
    by_cases he : i.2.1 = []
    · have e1 : (i.2.1.isEmpty || s.any fun j => j.2 == i.2) = true := by simp [he]
      rw [if_pos e1, runL_logNe l s h2 (fun i' hi' => hs i' (List.mem_cons_of_mem _ hi'))]
      simp [neIt, he]
    · have e1 : ¬ (i.2.1.isEmpty || s.any fun j => j.2 == i.2) = true := by
        rw [Bool.or_eq_true]
        rintro (h | h)
        · exact he (List.isEmpty_iff.mp h)
        · obtain ⟨j, hj, e⟩ := List.any_eq_true.mp h
          have e' : j.2 = i.2 := by simpa using e
          exact hs i List.mem_cons_self j hj he (by rw [e'])
      rw [if_neg e1, runL_logNe l (s ++ [i]) h2]
      · have : neIt (i :: l) = i :: neIt l := by
          simp only [neIt]
          rw [List.filter_cons_of_pos]
          simp only [Bool.not_eq_true', List.isEmpty_eq_false_iff]
          exact he
        rw [this]; simp
      · intro i' hi' j hj hne
        rcases List.mem_append.mp hj with hj | hj
        · exact hs i' (List.mem_cons_of_mem _ hi') j hj hne
        · rw [List.mem_singleton.mp hj]
          exact h1 i' hi' he hne

/-! ### the paths are disjoint classes; the cached calls are a sub-list of the calls per path -/

theorem pairwise_of_countP_le_one {γ ρ : Type} (Q : ρ → γ → Bool) : ∀ (l : List γ), (∀ r, l.countP (Q r) ≤ 1) →
    l.Pairwise (fun c₁ c₂ => ∀ r, ¬ (Q r c₁ = true ∧ Q r c₂ = true))
  | [], _ => List.Pairwise.nil
  | c :: l, h => by
    refine List.pairwise_cons.mpr ⟨fun c₂ hc₂ r ⟨q1, q2⟩ => ?_, pairwise_of_countP_le_one Q l (fun r => ?_)⟩
    · have h1 := h r
      rw [List.countP_cons_of_pos q1] at h1
      have : 0 < l.countP (Q r) := List.countP_pos_iff.mpr ⟨c₂, hc₂, q2⟩
      omega
    · have h1 := h r
      rw [List.countP_cons] at h1
      omega

theorem branchL_sublist {α β : Type} {x : Nat} {l₀ l₁ l₀' l₁' : List (Path × α × β)} (h0 : l₀.Sublist l₀')
    (h1 : l₁.Sublist l₁') : (branchL x l₀ l₁).Sublist (branchL x l₀' l₁') :=
  (h0.map _).append (h1.map _)

/-- the cached traversal makes a sub-list of the calls of the traversal per path -/
theorem voidApply2C_sublist {α β : Type} [DecidableEq α] [DecidableEq β] (a : Node α) (b : Node β) :
    ∀ (ht : Cache α β), (voidApply2C a b ht).1.Sublist (voidApply2P a b) := by
  induction a, b using voidApply2P.induct with
  | case1 v w =>
    intro ht; rw [voidApply2C, voidApply2P]
    split
    · exact List.nil_sublist _
    · exact List.Sublist.refl _
  | case2 x lo hi w ih1 ih2 =>
    intro ht; rw [voidApply2C, voidApply2P]
    split
    · exact List.nil_sublist _
    · exact branchL_sublist (ih1 _) (ih2 _)
  | case3 v y lo hi ih1 ih2 =>
    intro ht; rw [voidApply2C, voidApply2P]
    split
    · exact List.nil_sublist _
    · exact branchL_sublist (ih1 _) (ih2 _)
  | case4 alo ahi x blo bhi ih1 ih2 =>
    intro ht; rw [voidApply2C, voidApply2P]
    simp only [if_true]
    split
    · exact List.nil_sublist _
    · exact branchL_sublist (ih1 _) (ih2 _)
  | case5 x alo ahi y blo bhi hne hlt ih1 ih2 =>
    intro ht; rw [voidApply2C, voidApply2P]
    simp only [hne, hlt, if_false, if_true]
    split
    · exact List.nil_sublist _
    · exact branchL_sublist (ih1 _) (ih2 _)
  | case6 x alo ahi y blo bhi hne hlt ih1 ih2 =>
    intro ht; rw [voidApply2C, voidApply2P]
    simp only [hne, hlt, if_false]
    split
    · exact List.nil_sublist _
    · exact branchL_sublist (ih1 _) (ih2 _)

/-- the items of the paths have distinct non-empty left leaves -/
theorem paths_pairwise {n : Nat} {a b : Node LS} (wa : WF a) (wb : WF b) (ba : Below n a) (bb : Below n b)
    (hd : SymDet n a) : ((voidApply2P a b).map symItem).Pairwise RNe := by
  rw [List.pairwise_map]
  have hdis := pairwise_of_countP_le_one (fun (r : Nat → Bool) (c : Path × LS × LS) => inPath r c.1) (voidApply2P a b)
    (fun r => Nat.le_of_eq (voidApply2P_partition r a b))
  refine List.Pairwise.imp_of_mem ?_ hdis
  intro c₁ c₂ h1 h2 hr ne1 _ e
  obtain ⟨l1, i1, _⟩ := voidApply2P_nonempty wa wb ba bb h1
  obtain ⟨l2, i2, _⟩ := voidApply2P_nonempty wa wb ba bb h2
  have s1 := (voidApply2P_sound _ a b c₁ h1 i1).1
  have s2 := (voidApply2P_sound _ a b c₂ h2 i2).1
  simp only [symItem] at ne1 e
  have : reprSym c₁.1 = reprSym c₂.1 := hd _ _ l1 l2 (by rw [← s1]; exact ne1) (by rw [← s1, ← s2]; exact e)
  exact hr (bits (reprSym c₁.1)) ⟨i1, by rw [this]; exact i2⟩

/-- the items of all symbols have distinct non-empty left leaves -/
theorem syms_pairwise {n : Nat} {a b : Node LS} (hd : SymDet n a) : (symItems a b 0 (2 ^ n)).Pairwise RNe := by
  unfold symItems
  rw [List.pairwise_map]
  refine List.Pairwise.imp_of_mem ?_ (List.pairwise_lt_range (n := 2 ^ n))
  intro f g hf hg hlt ne1 _ e
  simp only [Nat.zero_add] at ne1 e
  have := hd f g (List.mem_range.mp hf) (List.mem_range.mp hg) ne1 e
  omega

/-- **the calls with a non-empty left leaf** of the traversal as coded: the symbols `f < 2 ^ n` with a non-empty leaf in `a`, in
increasing order, each with the two leaves it selects -/
theorem calls_ne_eq {n : Nat} {a b : Node LS} (wa : WF a) (wb : WF b) (ba : Below n a) (bb : Below n b)
    (hd : SymDet n a) :
    neIt ((voidApply2Calls a b).map symItem) = neIt (symItems a b 0 (2 ^ n)) := by
  have h1 := symLoop_eq_trav idem_logNe n a b 0 wa wb ba bb []
  have h2 := voidApply2Calls_run idem_logNe a b reprSym []
  have e0 : travItems a b (2 ^ n * 0) = (voidApply2P a b).map symItem := by
    simp [travItems, symItem_eq]
  rw [Nat.mul_zero] at h1
  rw [Nat.mul_zero] at e0
  rw [e0] at h1
  rw [← symItem_eq] at h2
  have pP := paths_pairwise wa wb ba bb hd
  have pC : ((voidApply2Calls a b).map symItem).Pairwise RNe :=
    List.Pairwise.sublist ((voidApply2C_sublist a b []).map _) pP
  rw [runL_logNe _ [] (syms_pairwise hd) (fun _ _ _ hj => by cases hj),
    runL_logNe _ [] pP (fun _ _ _ hj => by cases hj)] at h1
  rw [runL_logNe _ [] pC (fun _ _ _ hj => by cases hj),
    runL_logNe _ [] pP (fun _ _ _ hj => by cases hj)] at h2
  simp only [List.nil_append, Except.ok.injEq] at h1 h2
  rw [h2, ← h1]

end InclDownTables
end Vata
