/-!
# Labelled transition systems: the reference simulation `ltsSimRef` (C16)

Self-contained (core Lean only, no imports).  `ltsSimRef L I` is the naive refinement of the initial relation `I`:

* `ltsSimRef_sub`        the result is inside `I`
* `ltsSimRef_contains`   every simulation inside `I` is inside the result
* `ltsSimRef_sim`        the result is a simulation (unconditionally: `|I|+1` rounds reach the fixed point;
                         `ltsSimRef_check` says that the final Boolean check `isLtsSimB` never fails)
* `ltsSimRef_greatest`, `ltsSimRef_spec`   the three together: the union of all simulations inside `I`
* `ltsSimRef_preorder`   reflexive on `0..n-1` and transitive if `I` is (needs that edges lead to states `< n`)
* `ltsSimRef_default`    from the full relation on `0..n-1`: the greatest simulation of the system
* `restrict_output`      what is reported for output size `k` is the restriction of the result to states `< k`
-/
namespace Vata.L

structure LTS where
  n : Nat
  edges : List (Nat × Nat × Nat)      -- (src, label, dst); states are 0..n-1

def IsSim (L : LTS) (R : Nat → Nat → Prop) : Prop :=
  ∀ q r, R q r → ∀ a q', (q, a, q') ∈ L.edges → ∃ r', (r, a, r') ∈ L.edges ∧ R q' r'

abbrev Rel := List (Nat × Nat)

/-- the relation (as a predicate) given by a list of pairs -/
def RelOf (R : Rel) : Nat → Nat → Prop := fun q r => (q, r) ∈ R

instance (R : Rel) (q r : Nat) : Decidable (RelOf R q r) := inferInstanceAs (Decidable ((q, r) ∈ R))

def ltsOk (L : LTS) (R : Rel) (q r : Nat) : Bool :=
  L.edges.all (fun e => e.1 != q || L.edges.any (fun e' => e'.1 == r && e'.2.1 == e.2.1 && R.contains (e.2.2, e'.2.2)))

/-- filter with `ltsOk` until the length is stable (like `refineIter` of `Ref.lean`) -/
def ltsRefine (L : LTS) : Nat → Rel → Rel
  | 0, R => R
  | k+1, R =>
    let R' := R.filter (fun p => ltsOk L R p.1 p.2)
    if R'.length == R.length then R else ltsRefine L k R'

/-- `I` = initial relation (arbitrary pairs allowed) -/
def ltsSimRef (L : LTS) (I : Rel) : Rel := ltsRefine L (I.length + 1) I

def isLtsSimB (L : LTS) (R : Rel) : Bool := R.all (fun p => ltsOk L R p.1 p.2)

/-- the pairs with both components `< k` -/
def restrictRel (k : Nat) (R : Rel) : Rel := R.filter (fun p => decide (p.1 < k) && decide (p.2 < k))

/-- what the engine reports for `outputSize = k` -/
def ltsSimOut (L : LTS) (I : Rel) (k : Nat) : Rel := restrictRel k (ltsSimRef L I)

/-- the full relation on `0..n-1` -/
def fullRel (n : Nat) : Rel := (List.range n).flatMap (fun q => (List.range n).map (fun r => (q, r)))

/-! ### the Boolean test against the specification -/

/-- `ltsOk` is exactly the transfer condition of a simulation for the pair `(q, r)` -/
theorem ltsOk_iff (L : LTS) (R : Rel) (q r : Nat) :
    ltsOk L R q r = true ↔ ∀ a q', (q, a, q') ∈ L.edges → ∃ r', (r, a, r') ∈ L.edges ∧ RelOf R q' r' := by
  simp only [ltsOk, List.all_eq_true, Bool.or_eq_true, bne_iff_ne, ne_eq, List.any_eq_true, Bool.and_eq_true,
    beq_iff_eq, List.contains_iff_mem, RelOf]
  constructor
  · intro h a q' he
    cases h (q, a, q') he with
    | inl h1 => exact absurd rfl h1
    | inr h1 =>
      obtain ⟨e', he', ⟨h2, h3⟩, h4⟩ := h1
      refine ⟨e'.2.2, ?_, h4⟩
      have : e' = (r, a, e'.2.2) := by
        obtain ⟨x, y, z⟩ := e'
        simp only at h2 h3
        rw [h2, h3]
      rw [← this]; exact he'
  · intro h e he
    by_cases hq : e.1 = q
    · obtain ⟨r', hr', hR⟩ := h e.2.1 e.2.2 (by rw [← hq]; exact he)
      exact Or.inr ⟨(r, e.2.1, r'), hr', ⟨rfl, rfl⟩, hR⟩
    · exact Or.inl hq

theorem isLtsSimB_iff (L : LTS) (R : Rel) : isLtsSimB L R = true ↔ IsSim L (RelOf R) := by
  simp only [isLtsSimB, List.all_eq_true, ltsOk_iff, IsSim]
  constructor
  · intro h q r hqr; exact h (q, r) hqr
  · intro h p hp; exact h p.1 p.2 hp

/-! ### the refinement loop -/

theorem ltsRefine_sub (L : LTS) : ∀ (k : Nat) (R : Rel) (p : Nat × Nat), p ∈ ltsRefine L k R → p ∈ R
  | 0, _, _, h => h
  | k+1, R, p, h => by
    simp only [ltsRefine] at h
    split at h
    · exact h
    · exact (List.mem_filter.mp (ltsRefine_sub L k _ p h)).1

/-- a set `P` of pairs that passes the test whenever it is inside the current relation is never filtered out -/
theorem ltsRefine_contains (L : LTS) (P : Nat × Nat → Prop)
    (hstep : ∀ R : Rel, (∀ p, P p → p ∈ R) → ∀ p, P p → ltsOk L R p.1 p.2 = true) :
    ∀ (k : Nat) (R : Rel), (∀ p, P p → p ∈ R) → ∀ p, P p → p ∈ ltsRefine L k R
  | 0, _, h, p, hp => h p hp
  | k+1, R, h, p, hp => by
    simp only [ltsRefine]
    split
    · exact h p hp
    · apply ltsRefine_contains L P hstep k _ _ p hp
      intro p' hp'
      exact List.mem_filter.mpr ⟨h p' hp', hstep R h p' hp'⟩

/-- with more rounds than pairs, the loop stops at a relation all of whose pairs pass the test -/
theorem ltsRefine_stable (L : LTS) :
    ∀ (k : Nat) (R : Rel), R.length < k → ∀ p, p ∈ ltsRefine L k R → ltsOk L (ltsRefine L k R) p.1 p.2 = true
  | 0, _, h, _, _ => absurd h (Nat.not_lt_zero _)
  | k+1, R, h, p, hp => by
    simp only [ltsRefine] at hp ⊢
    split
    · rename_i heq
      rw [if_pos heq] at hp
      exact List.length_filter_eq_length_iff.mp (eq_of_beq heq) p hp
    · rename_i hne
      rw [if_neg hne] at hp
      have hle := List.length_filter_le (fun p => ltsOk L R p.1 p.2) R
      have hne' : (R.filter (fun p => ltsOk L R p.1 p.2)).length ≠ R.length :=
        fun e => hne (by rw [e]; exact beq_self_eq_true _)
      exact ltsRefine_stable L k _ (by omega) p hp

/-! ### the main theorems -/

/-- a concrete system for the non-vacuity examples: `0 -a→ 2`, `1 -a→ 2`, `1 -b→ 2`
(`1` simulates `0` but not conversely; `2` is simulated by everything) -/
def exL : LTS := ⟨3, [(0, 0, 2), (1, 0, 2), (1, 1, 2)]⟩

theorem ltsSimRef_sub (L : LTS) (I : Rel) (p : Nat × Nat) : p ∈ ltsSimRef L I → p ∈ I :=
  ltsRefine_sub L _ I p

theorem ltsSimRef_contains (L : LTS) (I : Rel) (S : Nat → Nat → Prop) (hS : IsSim L S)
    (hSI : ∀ q r, S q r → (q, r) ∈ I) (q r : Nat) : S q r → (q, r) ∈ ltsSimRef L I := by
  intro hqr
  refine ltsRefine_contains L (fun p => S p.1 p.2) ?_ _ I (fun p hp => hSI p.1 p.2 hp) (q, r) hqr
  intro R hR p hp
  rw [ltsOk_iff]
  intro a q' he
  obtain ⟨r', hr', hS'⟩ := hS p.1 p.2 hp a q' he
  exact ⟨r', hr', hR (q', r') hS'⟩

example : IsSim exL (RelOf [(0, 1), (2, 2)]) ∧ (∀ q r, RelOf [(0, 1), (2, 2)] q r → (q, r) ∈ fullRel 3) ∧
    RelOf [(0, 1), (2, 2)] 0 1 :=
  ⟨(isLtsSimB_iff _ _).mp (by decide),
    fun q r h => (by decide : ∀ p, p ∈ [(0, 1), (2, 2)] → p ∈ fullRel 3) (q, r) h, by decide⟩

/-- the final Boolean check never fails: `|I| + 1` rounds reach the fixed point -/
theorem ltsSimRef_check (L : LTS) (I : Rel) : isLtsSimB L (ltsSimRef L I) = true := by
  simp only [isLtsSimB, List.all_eq_true]
  intro p hp
  exact ltsRefine_stable L _ I (Nat.lt_succ_self _) p hp

/-- certifying form -/
theorem ltsSimRef_isSim (L : LTS) (I : Rel) :
    isLtsSimB L (ltsSimRef L I) = true → IsSim L (RelOf (ltsSimRef L I)) :=
  (isLtsSimB_iff L _).mp

/-- unconditional form -/
theorem ltsSimRef_sim (L : LTS) (I : Rel) : IsSim L (RelOf (ltsSimRef L I)) :=
  ltsSimRef_isSim L I (ltsSimRef_check L I)

/-- C16: the greatest simulation inside `I` -/
theorem ltsSimRef_greatest (L : LTS) (I : Rel) :
    IsSim L (RelOf (ltsSimRef L I)) ∧ (∀ p, p ∈ ltsSimRef L I → p ∈ I) ∧
    ∀ S : Nat → Nat → Prop, IsSim L S → (∀ q r, S q r → (q, r) ∈ I) → ∀ q r, S q r → (q, r) ∈ ltsSimRef L I :=
  ⟨ltsSimRef_sim L I, ltsSimRef_sub L I, ltsSimRef_contains L I⟩

/-- the result is the union of all simulations inside `I` -/
theorem ltsSimRef_spec (L : LTS) (I : Rel) (q r : Nat) :
    (q, r) ∈ ltsSimRef L I ↔ ∃ S : Nat → Nat → Prop, IsSim L S ∧ (∀ a b, S a b → (a, b) ∈ I) ∧ S q r := by
  constructor
  · intro h
    exact ⟨RelOf (ltsSimRef L I), ltsSimRef_sim L I, fun a b hab => ltsSimRef_sub L I (a, b) hab, h⟩
  · rintro ⟨S, hS, hSI, hqr⟩
    exact ltsSimRef_contains L I S hS hSI q r hqr

example : ltsSimRef exL (fullRel 3) = [(0, 0), (0, 1), (1, 1), (2, 0), (2, 1), (2, 2)] := by decide
example : ltsSimRef exL [(0, 1), (1, 0), (2, 2), (7, 7)] = [(0, 1), (2, 2), (7, 7)] := by decide

/-! ### preorder -/

theorem isSim_comp (L : LTS) {R R' : Nat → Nat → Prop} (hR : IsSim L R) (hR' : IsSim L R') :
    IsSim L (fun a c => ∃ b, R a b ∧ R' b c) := by
  intro q s hqs a q' he
  obtain ⟨r, hqr, hrs⟩ := hqs
  obtain ⟨r', hr', h1⟩ := hR q r hqr a q' he
  obtain ⟨s', hs', h2⟩ := hR' r s hrs a r' hr'
  exact ⟨s', hs', r', h1, h2⟩

/-- transitivity is inherited from `I` (no assumption on the system) -/
theorem ltsSimRef_trans (L : LTS) (I : Rel)
    (htrans : ∀ a b c, (a, b) ∈ I → (b, c) ∈ I → (a, c) ∈ I) :
    ∀ a b c, (a, b) ∈ ltsSimRef L I → (b, c) ∈ ltsSimRef L I → (a, c) ∈ ltsSimRef L I := by
  intro a b c hab hbc
  refine ltsSimRef_contains L I _ (isSim_comp L (ltsSimRef_sim L I) (ltsSimRef_sim L I)) ?_ a c ⟨b, hab, hbc⟩
  rintro x z ⟨y, hxy, hyz⟩
  exact htrans x y z (ltsSimRef_sub L I _ hxy) (ltsSimRef_sub L I _ hyz)

/-- reflexivity is inherited on every set of states closed under the transitions -/
theorem ltsSimRef_refl_on (L : LTS) (I : Rel) (Q : Nat → Prop)
    (hcl : ∀ q a q', Q q → (q, a, q') ∈ L.edges → Q q') (hrefl : ∀ q, Q q → (q, q) ∈ I) :
    ∀ q, Q q → (q, q) ∈ ltsSimRef L I := by
  intro q hq
  refine ltsSimRef_contains L I (fun a b => a = b ∧ Q a) ?_ ?_ q q ⟨rfl, hq⟩
  · rintro a b ⟨hab, ha⟩ l a' he
    exact ⟨a', hab ▸ he, rfl, hcl a l a' ha he⟩
  · rintro a b ⟨hab, ha⟩
    exact hab ▸ hrefl a ha

/-- if `I` is reflexive on `0..n-1` and transitive then so is the result; `hwf`: the edges lead to states `< n`
(without it reflexivity can be lost, see the example below) -/
theorem ltsSimRef_preorder (L : LTS) (I : Rel) (hwf : ∀ e, e ∈ L.edges → e.2.2 < L.n)
    (hrefl : ∀ q, q < L.n → (q, q) ∈ I) (htrans : ∀ a b c, (a, b) ∈ I → (b, c) ∈ I → (a, c) ∈ I) :
    (∀ q, q < L.n → (q, q) ∈ ltsSimRef L I) ∧
    (∀ a b c, (a, b) ∈ ltsSimRef L I → (b, c) ∈ ltsSimRef L I → (a, c) ∈ ltsSimRef L I) :=
  ⟨ltsSimRef_refl_on L I (· < L.n) (fun q a q' _ he => hwf (q, a, q') he) hrefl, ltsSimRef_trans L I htrans⟩

example : (∀ e, e ∈ exL.edges → e.2.2 < exL.n) ∧ (∀ q, q < exL.n → (q, q) ∈ fullRel 3) := by decide

/-- without `hwf` reflexivity on `0..n-1` can be lost: `n = 1`, one edge `0 → 5`, `I = {(0,0)}` -/
example : (∀ q, q < 1 → (q, q) ∈ [(0, 0)]) ∧ ltsSimRef ⟨1, [(0, 0, 5)]⟩ [(0, 0)] = [] := by decide

/-! ### the default initial relation -/

theorem mem_fullRel {n q r : Nat} : (q, r) ∈ fullRel n ↔ q < n ∧ r < n := by
  unfold fullRel
  simp only [List.mem_flatMap, List.mem_map, List.mem_range, Prod.mk.injEq]
  constructor
  · rintro ⟨a, ha, b, hb, h1, h2⟩
    exact ⟨h1 ▸ ha, h2 ▸ hb⟩
  · rintro ⟨hq, hr⟩
    exact ⟨q, hq, r, hr, rfl, rfl⟩

/-- from the full relation on `0..n-1` the result is the greatest simulation of the system (on `0..n-1`) -/
theorem ltsSimRef_default (L : LTS) (hwf : ∀ e, e ∈ L.edges → e.2.2 < L.n) (q r : Nat) :
    (q, r) ∈ ltsSimRef L (fullRel L.n) ↔ q < L.n ∧ r < L.n ∧ ∃ S : Nat → Nat → Prop, IsSim L S ∧ S q r := by
  constructor
  · intro h
    have hI := mem_fullRel.mp (ltsSimRef_sub L _ _ h)
    exact ⟨hI.1, hI.2, RelOf (ltsSimRef L (fullRel L.n)), ltsSimRef_sim L _, h⟩
  · rintro ⟨hq, hr, S, hS, hqr⟩
    refine ltsSimRef_contains L _ (fun a b => S a b ∧ a < L.n ∧ b < L.n) ?_ ?_ q r ⟨hqr, hq, hr⟩
    · rintro a b ⟨hab, _, _⟩ l a' he
      obtain ⟨b', hb', h1⟩ := hS a b hab l a' he
      exact ⟨b', hb', h1, hwf _ he, hwf _ hb'⟩
    · rintro a b ⟨_, ha, hb⟩
      exact mem_fullRel.mpr ⟨ha, hb⟩

/-- … and it is a preorder on `0..n-1` -/
theorem ltsSimRef_default_preorder (L : LTS) (hwf : ∀ e, e ∈ L.edges → e.2.2 < L.n) :
    (∀ q, q < L.n → (q, q) ∈ ltsSimRef L (fullRel L.n)) ∧
    (∀ a b c, (a, b) ∈ ltsSimRef L (fullRel L.n) → (b, c) ∈ ltsSimRef L (fullRel L.n) →
      (a, c) ∈ ltsSimRef L (fullRel L.n)) :=
  ltsSimRef_preorder L _ hwf (fun _ hq => mem_fullRel.mpr ⟨hq, hq⟩)
    (fun _ _ _ hab hbc => mem_fullRel.mpr ⟨(mem_fullRel.mp hab).1, (mem_fullRel.mp hbc).2⟩)

/-! ### restricted output -/

theorem mem_restrictRel {k : Nat} {R : Rel} {q r : Nat} : (q, r) ∈ restrictRel k R ↔ (q, r) ∈ R ∧ q < k ∧ r < k := by
  simp only [restrictRel, List.mem_filter, Bool.and_eq_true, decide_eq_true_eq]

/-- the pairs reported for output size `k` are exactly the pairs of the result with both components `< k` -/
theorem restrict_output (L : LTS) (I : Rel) (k q r : Nat) :
    (q, r) ∈ ltsSimOut L I k ↔ q < k ∧ r < k ∧ (q, r) ∈ ltsSimRef L I := by
  unfold ltsSimOut
  rw [mem_restrictRel]
  constructor
  · rintro ⟨h, hq, hr⟩; exact ⟨hq, hr, h⟩
  · rintro ⟨hq, hr, h⟩; exact ⟨h, hq, hr⟩

/-- … i.e. the pairs `< k` related by some simulation inside `I` (a simulation of the whole system, not of its
restriction to the states `< k`) -/
theorem restrict_output_spec (L : LTS) (I : Rel) (k q r : Nat) :
    (q, r) ∈ ltsSimOut L I k ↔
      q < k ∧ r < k ∧ ∃ S : Nat → Nat → Prop, IsSim L S ∧ (∀ a b, S a b → (a, b) ∈ I) ∧ S q r := by
  rw [restrict_output, ltsSimRef_spec]

/-- restricting the output twice / order of the restrictions -/
theorem restrictRel_restrictRel (k k' : Nat) (R : Rel) (q r : Nat) :
    (q, r) ∈ restrictRel k (restrictRel k' R) ↔ (q, r) ∈ restrictRel (min k k') R := by
  simp only [mem_restrictRel, Nat.lt_min]
  constructor
  · rintro ⟨⟨h, h1, h2⟩, h3, h4⟩; exact ⟨h, ⟨h3, h1⟩, ⟨h4, h2⟩⟩
  · rintro ⟨h, ⟨h3, h1⟩, ⟨h4, h2⟩⟩; exact ⟨⟨h, h1, h2⟩, h3, h4⟩

example : ltsSimOut exL (fullRel 3) 2 = [(0, 0), (0, 1), (1, 1)] := by decide

/-- the restriction has to be applied to the output, not to the initial relation: here the states `< 2` are related
through their successor `2`, which a restricted initial relation no longer contains -/
example : ltsSimRef exL (restrictRel 2 (fullRel 3)) = [] ∧ ltsSimOut exL (fullRel 3) 2 ≠ [] := by decide

end Vata.L
