import Vata.NfaIncl
import Vata.Proofs.NfaOps
/-!
# The NFA inclusion models are exact for every verdict they return (property C09)

* `nfa_up_cert_incl`, `nfaUpCertB_sound` : the antichain principle for words (certificate);
* `nfaInclAC_iff`, `checkNfaInclAC_iff`  : a verdict of the antichain model is right;
* `congr_cert_sound`, `congrCertB_sound` : a bisimulation up to congruence (Bonchi–Pous) proves inclusion;
* `nfaInclCongr_iff`, `nfaInclCongr_false_sound`, `checkNfaInclCongr_iff` : a verdict of the congruence model is right.

The explorations themselves are analysed in `Vata/Proofs/NfaInclTotal.lean` (antichains: invariants, termination,
totality) and `Vata/Proofs/NfaInclCongr.lean`, `Vata/Proofs/NfaInclCongrTotal.lean` (congruences: invariants, completeness
of the certificate check, termination, totality).
-/
namespace Vata
open Vata.W
open NfaIncl

namespace NfaIncl

/-! ### monotonicity of the subset construction -/

theorem stepW_mono (N : NFA) {S S' : List Nat} (h : ∀ x, x ∈ S → x ∈ S') (a : Nat) :
    ∀ x, x ∈ stepW N S a → x ∈ stepW N S' a := by
  intro x hx
  obtain ⟨p, hp, he⟩ := mem_stepW.mp hx
  exact mem_stepW.mpr ⟨p, h p hp, he⟩

theorem foldl_stepW_mono (N : NFA) : ∀ (w : List Nat) {S S' : List Nat}, (∀ x, x ∈ S → x ∈ S') →
    ∀ x, x ∈ w.foldl (stepW N) S → x ∈ w.foldl (stepW N) S'
  | [], _, _, h => h
  | a :: w, _, _, h => by
    simp only [List.foldl_cons]
    exact foldl_stepW_mono N w (stepW_mono N h a)

theorem accepting_mono (N : NFA) {S S' : List Nat} (h : ∀ x, x ∈ S → x ∈ S') :
    W.accepting N S = true → W.accepting N S' = true := by
  simp only [W.accepting, List.any_eq_true]
  rintro ⟨q, hq, hf⟩
  exact ⟨q, h q hq, hf⟩

end NfaIncl

/-! ### 1. the antichain principle for words -/

/-- `X` is a set of pairs (state of `A`, macro-state of `B`) that subsumes the start pairs, is closed under the
post-image up to subsumption, and has no pair with a final state of `A` and a rejecting macro-state of `B` -/
def NfaUpCert (A B : NFA) (X : List (Nat × List Nat)) : Prop :=
  (∀ s, s ∈ A.start → ∃ p, p ∈ X ∧ p.1 = s ∧ ∀ x, x ∈ p.2 → x ∈ B.start) ∧
  (∀ p, p ∈ X → ∀ a q', (p.1, a, q') ∈ A.trans →
    ∃ p', p' ∈ X ∧ p'.1 = q' ∧ ∀ x, x ∈ p'.2 → x ∈ stepW B p.2 a) ∧
  (∀ p, p ∈ X → p.1 ∈ A.final → W.accepting B p.2 = true)

namespace NfaIncl

/-- along a path of `A` the certificate keeps a pair below the macro-state of `B` -/
theorem upCert_path {A B : NFA} {X : List (Nat × List Nat)} (hX : NfaUpCert A B X) {p q : Nat} {w : List Nat}
    (hp : Path A p w q) : ∀ (P : Nat × List Nat), P ∈ X → P.1 = p → ∀ S₀ : List Nat, (∀ x, x ∈ P.2 → x ∈ S₀) →
      ∃ P', P' ∈ X ∧ P'.1 = q ∧ ∀ x, x ∈ P'.2 → x ∈ w.foldl (stepW B) S₀ := by
  induction hp with
  | nil q => intro P hP h1 S₀ hS; exact ⟨P, hP, h1, hS⟩
  | @cons p a r w q he _ ih =>
    intro P hP h1 S₀ hS
    obtain ⟨P', hP', h1', hS'⟩ := hX.2.1 P hP a r (h1 ▸ he)
    simp only [List.foldl_cons]
    exact ih P' hP' h1' _ (fun x hx => stepW_mono B hS a x (hS' x hx))

end NfaIncl

theorem nfa_up_cert_incl {A B : NFA} {X : List (Nat × List Nat)} : NfaUpCert A B X → InclW A B := by
  intro hX w hA
  obtain ⟨s, hs, q, hq, hp⟩ := (acceptsW_iff A w).mp hA
  obtain ⟨P, hP, h1, hS⟩ := hX.1 s hs
  obtain ⟨P', hP', h1', hS'⟩ := upCert_path hX hp P hP h1 B.start hS
  have hacc := hX.2.2 P' hP' (h1' ▸ hq)
  exact accepting_mono B hS' hacc

theorem nfaUpCertB_sound {A B : NFA} {X : List (Nat × List Nat)} (h : nfaUpCertB A B X = true) : NfaUpCert A B X := by
  simp only [nfaUpCertB, Bool.and_eq_true, List.all_eq_true, List.any_eq_true, beq_iff_eq, subB_iff, Bool.or_eq_true,
    bne_iff_ne, ne_eq, Bool.not_eq_true'] at h
  obtain ⟨⟨h1, h2⟩, h3⟩ := h
  refine ⟨?_, ?_, ?_⟩
  · intro s hs
    obtain ⟨p, hp, he, hsub⟩ := h1 s hs
    exact ⟨p, hp, he, hsub⟩
  · intro p hp a q' he
    rcases h2 p hp (p.1, a, q') he with hne | ⟨p', hp', he', hsub⟩
    · exact (hne rfl).elim
    · exact ⟨p', hp', he', hsub⟩
  · intro p hp hf
    rcases h3 p hp with hnf | hacc
    · have : A.final.contains p.1 = true := List.contains_iff_mem.mpr hf
      rw [hnf] at this; cases this
    · exact hacc

theorem nfaUpCertB_incl {A B : NFA} {X : List (Nat × List Nat)} (h : nfaUpCertB A B X = true) : InclW A B :=
  nfa_up_cert_incl (nfaUpCertB_sound h)

/-! ### 2. the antichain model -/

theorem nfaInclAC_iff {A B : NFA} {fuel : Nat} {b : Bool} {c : Cert} :
    nfaInclAC A B fuel = some (b, c) → (b = true ↔ InclW A B) := by
  intro h
  unfold nfaInclAC at h
  split at h
  · cases h
  · next P _ =>
    simp only at h
    split at h
    · next hc =>
      simp only [Option.some.injEq, Prod.mk.injEq] at h
      obtain ⟨rfl, _⟩ := h
      exact ⟨fun _ => nfaUpCertB_incl hc, fun _ => rfl⟩
    · cases h
  · next w _ =>
    split at h
    · next hc =>
      simp only [Option.some.injEq, Prod.mk.injEq] at h
      obtain ⟨rfl, _⟩ := h
      simp only [Bool.and_eq_true, Bool.not_eq_true'] at hc
      constructor
      · intro h; cases h
      · intro hincl
        have := hincl w hc.1
        rw [hc.2] at this; cases this
    · cases h

/-- a `false` of the antichain model comes with a word accepted by `A` and not by `B` -/
theorem nfaInclAC_false_sound {A B : NFA} {fuel : Nat} {c : Cert} (h : nfaInclAC A B fuel = some (false, c)) :
    ∃ w, c = .witness w ∧ acceptsW A w = true ∧ acceptsW B w = false := by
  unfold nfaInclAC at h
  split at h
  · cases h
  · simp only at h
    split at h
    · simp at h
    · cases h
  · next w _ =>
    split at h
    · next hc =>
      simp only [Option.some.injEq, Prod.mk.injEq, true_and] at h
      simp only [Bool.and_eq_true, Bool.not_eq_true'] at hc
      exact ⟨w, h.symm, hc.1, hc.2⟩
    · cases h

/-- a `true` of the antichain model comes with a certificate -/
theorem nfaInclAC_true_sound {A B : NFA} {fuel : Nat} {c : Cert} (h : nfaInclAC A B fuel = some (true, c)) :
    ∃ X, c = .antichain X ∧ NfaUpCert A B X := by
  unfold nfaInclAC at h
  split at h
  · cases h
  · simp only at h
    split at h
    · next hc =>
      simp only [Option.some.injEq, Prod.mk.injEq, true_and] at h
      exact ⟨_, h.symm, nfaUpCertB_sound hc⟩
    · cases h
  · split at h
    · simp at h
    · cases h

/-! ### the dispatcher: sanitising does not change the languages -/

namespace NfaIncl

theorem sanitize_fst_lang (A B : NFA) (w : List Nat) : acceptsW (nfaSanitize A B).1 w = acceptsW A w := by
  simp only [nfaSanitize]
  rw [nfaMap_inj_lang, nfaRemoveUseless_lang]
  intro p hp q _ h
  exact idxOf_inj (mem_nfaStateList.mpr hp) h

theorem sanitize_snd_lang (A B : NFA) (w : List Nat) : acceptsW (nfaSanitize A B).2 w = acceptsW B w := by
  simp only [nfaSanitize]
  rw [nfaMap_inj_lang, nfaRemoveUseless_lang]
  intro p hp q _ h
  exact idxOf_inj (mem_nfaStateList.mpr hp) (Nat.add_left_cancel h)

theorem sanitize_incl (A B : NFA) : InclW (nfaSanitize A B).1 (nfaSanitize A B).2 ↔ InclW A B := by
  simp only [InclW, sanitize_fst_lang, sanitize_snd_lang]

/-- the sanitised operands have disjoint sets of states -/
theorem sanitize_disjoint (A B : NFA) :
    ∀ q, q ∈ nfaStates (nfaSanitize A B).1 → q ∈ nfaStates (nfaSanitize A B).2 → False := by
  intro x h1 h2
  simp only [nfaSanitize] at h1 h2
  obtain ⟨p, hp, rfl⟩ := mem_nfaStates_nfaMap.mp h1
  obtain ⟨q, _, h⟩ := mem_nfaStates_nfaMap.mp h2
  have : (nfaStateList (nfaRemoveUseless A)).idxOf p < (nfaStateList (nfaRemoveUseless A)).length :=
    List.idxOf_lt_length_iff.mpr (mem_nfaStateList.mpr hp)
  omega

end NfaIncl

theorem checkNfaInclAC_iff {A B : NFA} {fuel : Nat} {b : Bool} {c : Cert} :
    checkNfaInclAC A B fuel = some (b, c) → (b = true ↔ InclW A B) := by
  intro h
  rw [← sanitize_incl A B]
  exact nfaInclAC_iff h

/-! ### 3. bisimulations up to congruence (Bonchi–Pous) -/

namespace NfaIncl

/-- the congruence closure `c(R)` of a relation on macro-states: the least equivalence (on lists read as sets) that
contains `R` and is closed under union -/
inductive CongrCl (R : List CRule) : List Nat → List Nat → Prop
  | base {X Y : List Nat} : (X, Y) ∈ R → CongrCl R X Y
  | refl {X Y : List Nat} : (∀ x, x ∈ X ↔ x ∈ Y) → CongrCl R X Y
  | symm {X Y : List Nat} : CongrCl R X Y → CongrCl R Y X
  | trans {X Y Z : List Nat} : CongrCl R X Y → CongrCl R Y Z → CongrCl R X Z
  | union {X₁ Y₁ X₂ Y₂ : List Nat} : CongrCl R X₁ Y₁ → CongrCl R X₂ Y₂ → CongrCl R (X₁ ++ X₂) (Y₁ ++ Y₂)

theorem accepting_append (N : NFA) (S T : List Nat) :
    W.accepting N (S ++ T) = (W.accepting N S || W.accepting N T) := by
  simp only [W.accepting, List.any_append]

theorem mem_stepW_append (N : NFA) (S T : List Nat) (a : Nat) (x : Nat) :
    x ∈ stepW N (S ++ T) a ↔ x ∈ stepW N S a ++ stepW N T a := by
  simp only [List.mem_append, mem_stepW]
  constructor
  · rintro ⟨p, hp | hp, he⟩
    · exact Or.inl ⟨p, hp, he⟩
    · exact Or.inr ⟨p, hp, he⟩
  · rintro (⟨p, hp, he⟩ | ⟨p, hp, he⟩)
    · exact ⟨p, Or.inl hp, he⟩
    · exact ⟨p, Or.inr hp, he⟩

/-- `R` is a bisimulation up to congruence in `U`: related macro-states agree on acceptance and their successors are
related by the congruence closure of `R` -/
def BisimUpTo (U : NFA) (R : List CRule) : Prop :=
  ∀ p, p ∈ R → W.accepting U p.1 = W.accepting U p.2 ∧ ∀ a, CongrCl R (stepW U p.1 a) (stepW U p.2 a)

/-- the congruence closure of a bisimulation up to congruence is a bisimulation -/
theorem congrCl_bisim {U : NFA} {R : List CRule} (hR : BisimUpTo U R) {X Y : List Nat} (h : CongrCl R X Y) :
    W.accepting U X = W.accepting U Y ∧ ∀ a, CongrCl R (stepW U X a) (stepW U Y a) := by
  induction h with
  | base hm => exact hR _ hm
  | refl he =>
    refine ⟨W.accepting_congr U he, fun a => ?_⟩
    rw [W.stepW_congr U he]
    exact .refl (fun _ => Iff.rfl)
  | symm _ ih => exact ⟨ih.1.symm, fun a => .symm (ih.2 a)⟩
  | trans _ _ ih1 ih2 => exact ⟨ih1.1.trans ih2.1, fun a => .trans (ih1.2 a) (ih2.2 a)⟩
  | union _ _ ih1 ih2 =>
    refine ⟨?_, fun a => ?_⟩
    · rw [accepting_append, accepting_append, ih1.1, ih2.1]
    · exact .trans (.refl (mem_stepW_append U _ _ a))
        (.trans (.union (ih1.2 a) (ih2.2 a)) (.refl (fun x => (mem_stepW_append U _ _ a x).symm)))

/-- congruent macro-states have the same language -/
theorem congrCl_lang {U : NFA} {R : List CRule} (hR : BisimUpTo U R) : ∀ (w : List Nat) {X Y : List Nat},
    CongrCl R X Y → W.accepting U (w.foldl (stepW U) X) = W.accepting U (w.foldl (stepW U) Y)
  | [], _, _, h => (congrCl_bisim hR h).1
  | a :: w, _, _, h => by
    simp only [List.foldl_cons]
    exact congrCl_lang hR w ((congrCl_bisim hR h).2 a)

end NfaIncl

/-- the operands are disjoint, the start macro-states of `U = A ⊎ B` and of `B` are congruent modulo `R`, and `R` is a
bisimulation up to congruence in `U` -/
def CongrCert (A B : NFA) (R : List CRule) : Prop :=
  (∀ q, q ∈ nfaStates A → q ∈ nfaStates B → False) ∧
  CongrCl R (A.start ++ B.start) B.start ∧
  BisimUpTo (nfaUnionDisjoint A B) R

theorem congr_cert_sound {A B : NFA} {R : List CRule} : CongrCert A B R → InclW A B := by
  rintro ⟨hdis, hinit, hbis⟩ w hA
  have hU : acceptsW (nfaUnionDisjoint A B) w = true := by
    apply nfaUnionDisjoint_lang_ge; rw [hA]; rfl
  have heq := congrCl_lang hbis w hinit
  have hB : W.accepting (nfaUnionDisjoint A B) (w.foldl (stepW (nfaUnionDisjoint A B)) B.start) = true := by
    rw [← heq]; exact hU
  simp only [W.accepting, List.any_eq_true, List.contains_iff_mem] at hB
  obtain ⟨q, hq, hf⟩ := hB
  obtain ⟨s, hs, hp⟩ := (mem_foldl_stepW _ w B.start q).mp hq
  obtain ⟨hpB, hqB⟩ := path_union_right hdis hp (start_mem_nfaStates hs)
  rcases List.mem_append.mp hf with hfA | hfB
  · exact (hdis q (final_mem_nfaStates hfA) hqB).elim
  · exact (acceptsW_iff B w).mpr ⟨s, hs, q, hfB, hpB⟩

/-- what the certificate says about the languages: `U = A ⊎ B` and `B` are equivalent -/
theorem congr_cert_equiv {A B : NFA} {R : List CRule} (h : CongrCert A B R) (w : List Nat) :
    acceptsW (nfaUnionDisjoint A B) w = acceptsW B w := by
  rw [nfaUnionDisjoint_lang A B w h.1]
  cases hA : acceptsW A w
  · rfl
  · rw [congr_cert_sound h w hA]; rfl

namespace NfaIncl

/-! the Boolean closure computes congruent sets -/

theorem mem_insS {x y : Nat} : ∀ {l : List Nat}, y ∈ insS x l ↔ y = x ∨ y ∈ l
  | [] => by simp [insS]
  | z :: l => by
    unfold insS
    split
    · simp
    · split
      · next h =>
        have hxz : x = z := by simpa using h
        subst hxz
        simp
      · rw [List.mem_cons, mem_insS (l := l), List.mem_cons]
        constructor
        · rintro (h | h | h)
          · exact Or.inr (Or.inl h)
          · exact Or.inl h
          · exact Or.inr (Or.inr h)
        · rintro (h | h | h)
          · exact Or.inr (Or.inl h)
          · exact Or.inl h
          · exact Or.inr (Or.inr h)

theorem mem_normS {l : List Nat} {y : Nat} : y ∈ normS l ↔ y ∈ l := by
  induction l with
  | nil => simp [normS]
  | cons x l ih =>
    have : normS (x :: l) = insS x (normS l) := rfl
    rw [this, mem_insS, ih, List.mem_cons]

theorem CongrCl.rfl' {R : List CRule} (X : List Nat) : CongrCl R X X := .refl (fun _ => Iff.rfl)

/-- firing one rule keeps the set in its congruence class -/
theorem congrCl_fire {R : List CRule} {r : CRule} (hr : r ∈ R) {T : List Nat}
    (hm : (∀ x, x ∈ r.1 → x ∈ T) ∨ (∀ x, x ∈ r.2 → x ∈ T)) : CongrCl R T (normS (T ++ r.1 ++ r.2)) := by
  have hb : CongrCl R r.1 r.2 := .base hr
  rcases hm with h1 | h2
  · have hu : CongrCl R (T ++ r.1) (T ++ r.2) := .union (.rfl' T) hb
    have e1 : CongrCl R T (T ++ r.1) := by
      refine .refl ?_
      intro x; simp only [List.mem_append]
      exact ⟨Or.inl, fun h => h.elim id (h1 x)⟩
    have e2 : CongrCl R (T ++ r.2) (normS (T ++ r.1 ++ r.2)) := by
      refine .refl ?_
      intro x; simp only [mem_normS, List.mem_append]
      constructor
      · rintro (h | h)
        · exact Or.inl (Or.inl h)
        · exact Or.inr h
      · rintro ((h | h) | h)
        · exact Or.inl h
        · exact Or.inl (h1 x h)
        · exact Or.inr h
    exact .trans e1 (.trans hu e2)
  · have hu : CongrCl R (T ++ r.2) (T ++ r.1) := .union (.rfl' T) hb.symm
    have e1 : CongrCl R T (T ++ r.2) := by
      refine .refl ?_
      intro x; simp only [List.mem_append]
      exact ⟨Or.inl, fun h => h.elim id (h2 x)⟩
    have e2 : CongrCl R (T ++ r.1) (normS (T ++ r.1 ++ r.2)) := by
      refine .refl ?_
      intro x; simp only [mem_normS, List.mem_append]
      constructor
      · rintro (h | h)
        · exact Or.inl (Or.inl h)
        · exact Or.inl (Or.inr h)
      · rintro ((h | h) | h)
        · exact Or.inl h
        · exact Or.inr h
        · exact Or.inl (h2 x h)
    exact .trans e1 (.trans hu e2)

theorem congrCl_foldl {R : List CRule} {S : List Nat} : ∀ (R' : List CRule) (T : List Nat), (∀ r, r ∈ R' → r ∈ R) →
    CongrCl R S T →
    CongrCl R S (R'.foldl (fun S r => if Vata.subB r.1 S || Vata.subB r.2 S then normS (S ++ r.1 ++ r.2) else S) T)
  | [], _, _, h => h
  | r :: R', T, hsub, h => by
    simp only [List.foldl_cons]
    apply congrCl_foldl R' _ (fun r hr => hsub r (List.mem_cons_of_mem _ hr))
    split
    · next hc =>
      simp only [Bool.or_eq_true, subB_iff] at hc
      exact .trans h (congrCl_fire (hsub r List.mem_cons_self) hc)
    · exact h

theorem congrCl_clStep (R : List CRule) (S : List Nat) : CongrCl R S (clStep R S) :=
  congrCl_foldl R S (fun _ h => h) (.rfl' S)

theorem congrCl_clIter (R : List CRule) : ∀ (n : Nat) (S T : List Nat), CongrCl R S T → CongrCl R S (clIter R n T)
  | 0, _, _, h => h
  | n+1, S, T, h => congrCl_clIter R n S _ (.trans h (congrCl_clStep R T))

theorem congrCl_congrCl (R : List CRule) (S : List Nat) : CongrCl R S (congrCl R S) :=
  congrCl_clIter R _ S S (.rfl' S)

theorem inCongrB_sound {R : List CRule} {X Y : List Nat} (h : inCongrB R X Y = true) : CongrCl R X Y := by
  simp only [inCongrB, Bool.and_eq_true, subB_iff] at h
  obtain ⟨hX, hY⟩ := h
  -- `X ++ Y ~ cl X ++ Y = cl X ~ X` and `X ++ Y ~ X ++ cl Y = cl Y ~ Y`
  have h1 : CongrCl R (X ++ Y) X := by
    have hu : CongrCl R (X ++ Y) (congrCl R X ++ Y) := .union (congrCl_congrCl R X) (.rfl' Y)
    have e : CongrCl R (congrCl R X ++ Y) (congrCl R X) := by
      refine .refl ?_
      intro x; simp only [List.mem_append]
      exact ⟨fun h => h.elim id (hY x), Or.inl⟩
    exact .trans hu (.trans e (congrCl_congrCl R X).symm)
  have h2 : CongrCl R (X ++ Y) Y := by
    have hu : CongrCl R (X ++ Y) (X ++ congrCl R Y) := .union (.rfl' X) (congrCl_congrCl R Y)
    have e : CongrCl R (X ++ congrCl R Y) (congrCl R Y) := by
      refine .refl ?_
      intro x; simp only [List.mem_append]
      exact ⟨fun h => h.elim (hX x) id, Or.inr⟩
    exact .trans hu (.trans e (congrCl_congrCl R Y).symm)
  exact .trans h1.symm h2

end NfaIncl

theorem congrCertB_sound {A B : NFA} {R : List CRule} (h : congrCertB A B R = true) : CongrCert A B R := by
  simp only [congrCertB, Bool.and_eq_true, List.all_eq_true, Bool.not_eq_true', beq_iff_eq, List.mem_eraseDups] at h
  obtain ⟨⟨h1, h2⟩, h3⟩ := h
  refine ⟨?_, inCongrB_sound h2, ?_⟩
  · intro q hA hB
    have := h1 q hA
    rw [List.contains_iff_mem.mpr hB] at this; cases this
  · intro p hp
    refine ⟨(h3 p hp).1, fun a => ?_⟩
    by_cases ha : a ∈ W.syms (nfaUnionDisjoint A B)
    · exact inCongrB_sound ((h3 p hp).2 a ha)
    · rw [W.stepW_nil_of_not_sym _ _ a ha, W.stepW_nil_of_not_sym _ _ a ha]
      exact .refl (fun _ => Iff.rfl)

theorem congrCertB_incl {A B : NFA} {R : List CRule} (h : congrCertB A B R = true) : InclW A B :=
  congr_cert_sound (congrCertB_sound h)

/-! ### the congruence model -/

theorem nfaInclCongr_iff {A B : NFA} {breadth : Bool} {fuel : Nat} {b : Bool} {c : Cert} :
    nfaInclCongr A B breadth fuel = some (b, c) → (b = true ↔ InclW A B) := by
  intro h
  unfold nfaInclCongr at h
  split at h
  · cases h
  · simp only at h
    split at h
    · next hc =>
      simp only [Option.some.injEq, Prod.mk.injEq] at h
      obtain ⟨rfl, _⟩ := h
      exact ⟨fun _ => congrCertB_incl hc, fun _ => rfl⟩
    · cases h
  · next w _ =>
    split at h
    · next hc =>
      simp only [Option.some.injEq, Prod.mk.injEq] at h
      obtain ⟨rfl, _⟩ := h
      simp only [Bool.and_eq_true, Bool.not_eq_true'] at hc
      constructor
      · intro h; cases h
      · intro hincl
        have := hincl w hc.1
        rw [hc.2] at this; cases this
    · cases h

/-- a `false` of the congruence model comes with a word accepted by `A` and not by `B` -/
theorem nfaInclCongr_false_sound {A B : NFA} {breadth : Bool} {fuel : Nat} {c : Cert}
    (h : nfaInclCongr A B breadth fuel = some (false, c)) :
    ∃ w, c = .witness w ∧ acceptsW A w = true ∧ acceptsW B w = false := by
  unfold nfaInclCongr at h
  split at h
  · cases h
  · simp only at h
    split at h
    · simp at h
    · cases h
  · next w _ =>
    split at h
    · next hc =>
      simp only [Option.some.injEq, Prod.mk.injEq, true_and] at h
      simp only [Bool.and_eq_true, Bool.not_eq_true'] at hc
      exact ⟨w, h.symm, hc.1, hc.2⟩
    · cases h

/-- a `true` of the congruence model comes with a bisimulation up to congruence -/
theorem nfaInclCongr_true_sound {A B : NFA} {breadth : Bool} {fuel : Nat} {c : Cert}
    (h : nfaInclCongr A B breadth fuel = some (true, c)) : ∃ R, c = .relation R ∧ CongrCert A B R := by
  unfold nfaInclCongr at h
  split at h
  · cases h
  · simp only at h
    split at h
    · next hc =>
      simp only [Option.some.injEq, Prod.mk.injEq, true_and] at h
      exact ⟨_, h.symm, congrCertB_sound hc⟩
    · cases h
  · split at h
    · simp at h
    · cases h

theorem checkNfaInclCongr_iff {A B : NFA} {breadth : Bool} {fuel : Nat} {b : Bool} {c : Cert} :
    checkNfaInclCongr A B breadth fuel = some (b, c) → (b = true ↔ InclW A B) := by
  intro h
  rw [← sanitize_incl A B]
  exact nfaInclCongr_iff h

/-! ### examples (non-vacuity, regression) -/
namespace NfaInclEx

/-- (a) `a* ⊆ (a|b)*` (the states of the second operand are 1-based so that the operands are disjoint) -/
def exAstar : NFA := ⟨[0], [0], [(0, 0, 0)]⟩
def exABstar : NFA := ⟨[1], [1], [(1, 0, 1), (1, 1, 1)]⟩

/-- (b) the regression of the repaired subset memo of the antichain functor (symbols `a = 0`, `b = 1`, `c = 2`) -/
def exMemoA : NFA := ⟨[2], [0, 1], [(0, 1, 0), (0, 1, 1), (1, 1, 3), (0, 2, 1), (1, 2, 0), (2, 2, 1)]⟩
def exMemoB : NFA := ⟨[0, 2], [0, 1, 2, 3],
  [(3, 0, 2), (0, 1, 2), (2, 1, 1), (2, 1, 2), (3, 1, 0), (0, 2, 1), (0, 2, 3), (1, 2, 3), (2, 2, 0), (3, 2, 1)]⟩

/-- (c) `L(A) = a a⁺ b*`, `L(B) = a⁺` (the states of `B` are 10-based) -/
def exAAB : NFA := ⟨[0], [2, 3], [(0, 0, 1), (1, 0, 2), (2, 0, 2), (2, 1, 3), (3, 1, 3)]⟩
def exAplus : NFA := ⟨[10], [11], [(10, 0, 11), (11, 0, 11)]⟩

def verdict (r : Option (Bool × Cert)) : Option Bool := r.map (·.1)
def witness (r : Option (Bool × Cert)) : Option (List Nat) :=
  match r with
  | some (false, .witness w) => some w
  | _ => none

-- (a)
#guard verdict (nfaInclAC exAstar exABstar 10) == some true
#guard verdict (nfaInclAC exABstar exAstar 10) == some false
#guard witness (nfaInclAC exABstar exAstar 10) == some [1]
#guard verdict (nfaInclCongr exAstar exABstar true 10) == some true
#guard verdict (nfaInclCongr exAstar exABstar false 10) == some true
#guard witness (nfaInclCongr exABstar exAstar false 10) == some [1]
#guard verdict (checkNfaInclAC exAstar exABstar 10) == some true
#guard verdict (checkNfaInclCongr exAstar exABstar true 10) == some true
-- (b)
#guard verdict (nfaInclAC exMemoA exMemoB 20) == some true
#guard verdict (checkNfaInclAC exMemoA exMemoB 20) == some true
#guard verdict (checkNfaInclCongr exMemoA exMemoB true 20) == some true
#guard verdict (checkNfaInclCongr exMemoA exMemoB false 20) == some true
#guard verdict (checkNfaInclAC exMemoB exMemoA 20) == some false
#guard verdict (checkNfaInclCongr exMemoB exMemoA true 20) == some false
-- the operands of (b) share state names: the congruence model refuses them without the renaming of the dispatcher
#guard nfaInclCongr exMemoA exMemoB true 20 |>.isNone
-- (c)
#guard witness (nfaInclAC exAAB exAplus 10) == some [0, 0, 1]
#guard witness (checkNfaInclAC exAAB exAplus 10) == some [0, 0, 1]
#guard witness (nfaInclCongr exAAB exAplus true 10) == some [0, 0, 1]
#guard witness (nfaInclCongr exAAB exAplus false 10) == some [0, 0, 1]
#guard witness (checkNfaInclCongr exAAB exAplus false 10) == some [0, 0, 1]
#guard verdict (nfaInclAC exAplus exAAB 10) == some false
-- too little fuel
#guard (nfaInclAC exMemoA exMemoB 3).isNone
#guard (checkNfaInclCongr exMemoA exMemoB true 3).isNone
-- subsumption at work: the pair `(1, {3,4})` reached by `a` is replaced by `(1, {3})` reached by `b`
#guard (match nfaInclAC ⟨[0], [1], [(0, 0, 1), (0, 1, 1)]⟩ ⟨[2], [3], [(2, 0, 3), (2, 0, 4), (2, 1, 3)]⟩ 10 with
  | some (true, .antichain X) => X == [(0, [2]), (1, [3])] | _ => false)
-- congruence at work: `({1,2,3}, {3})` … the relation of (b) is smaller than the set of reachable pairs
#guard (match checkNfaInclCongr exMemoA exMemoB true 20 with
  | some (true, .relation R) => R.length == 6 | _ => false)

/-- non-vacuity of `nfa_up_cert_incl` / `nfaUpCertB_sound` -/
example : NfaUpCert exAstar exABstar [(0, [1])] := nfaUpCertB_sound (by decide)
example : NfaUpCert exMemoA exMemoB
    [(2, [0, 2]), (0, [1, 3]), (0, [0]), (1, [0]), (1, [1, 3]), (0, [2]), (1, [2]), (3, [2]), (3, [0])] :=
  nfaUpCertB_sound (by decide)
/-- non-vacuity of `nfaInclAC_iff` (both verdicts) -/
example : ∃ c, nfaInclAC exMemoA exMemoB 20 = some (true, c) := ⟨_, rfl⟩
example : InclW exMemoA exMemoB := (nfaInclAC_iff (fuel := 20) (b := true) (c := _) rfl).mp rfl
example : ∃ c, nfaInclAC exAAB exAplus 10 = some (false, c) := ⟨_, rfl⟩
example : ¬ InclW exAAB exAplus := fun h => by
  have := (nfaInclAC_iff (A := exAAB) (B := exAplus) (fuel := 10) (b := false) (c := _) rfl).mpr h
  cases this
/-- non-vacuity of `congr_cert_sound` / `congrCertB_sound` -/
example : CongrCert exAstar exABstar [([0, 1], [1])] := congrCertB_sound (by decide)
/-- non-vacuity of `nfaInclCongr_iff`, `nfaInclCongr_false_sound`, `checkNfaInclCongr_iff` -/
example : ∃ c, nfaInclCongr exAstar exABstar true 10 = some (true, c) := ⟨_, rfl⟩
example : ∃ c, nfaInclCongr exAAB exAplus false 10 = some (false, c) := ⟨_, rfl⟩
theorem verdict_some {r : Option (Bool × Cert)} {b : Bool} (h : verdict r = some b) : ∃ c, r = some (b, c) := by
  cases r with
  | none => cases h
  | some p =>
    obtain ⟨b', c⟩ := p
    simp only [verdict, Option.map_some, Option.some.injEq] at h
    exact ⟨c, by rw [h]⟩
example : ∃ c, checkNfaInclCongr exMemoA exMemoB true 20 = some (true, c) := verdict_some (by decide +kernel)
example : ∃ c, checkNfaInclCongr exMemoA exMemoB false 20 = some (true, c) := verdict_some (by decide +kernel)
example : ∃ c, checkNfaInclAC exMemoA exMemoB 20 = some (true, c) := verdict_some (by decide +kernel)
example : InclW exMemoA exMemoB := by
  obtain ⟨c, h⟩ : ∃ c, checkNfaInclCongr exMemoA exMemoB true 20 = some (true, c) := verdict_some (by decide +kernel)
  exact (checkNfaInclCongr_iff h).mp rfl

/-- the operands of (b) as the dispatcher sanitises them -/
def exSanA : NFA := ⟨[0], [1, 2], [(1, 1, 1), (1, 1, 2), (1, 2, 2), (2, 2, 1), (0, 2, 2)]⟩
def exSanB : NFA := ⟨[3, 4], [3, 5, 4, 6],
  [(6, 0, 4), (3, 1, 4), (4, 1, 5), (4, 1, 4), (6, 1, 3), (3, 2, 5), (3, 2, 6), (5, 2, 6), (4, 2, 3), (6, 2, 5)]⟩
/-- the relation the congruence model returns for them (breadth-first) -/
def exSanR : List CRule :=
  [([0, 3, 4], [3, 4]), ([2, 3, 5, 6], [3, 5, 6]), ([1, 5, 6], [5, 6]), ([1, 2, 3], [3]), ([1, 2, 4], [4]),
   ([1, 2, 5, 6], [5, 6])]
/-- `R` is a plain bisimulation: successor pairs are equal or in `R` -/
def plainBisimB (U : NFA) (R : List CRule) : Bool :=
  R.all (fun p => (W.syms U).eraseDups.all (fun a =>
    normS (stepW U p.1 a) == normS (stepW U p.2 a) || R.contains (normS (stepW U p.1 a), normS (stepW U p.2 a))))

#guard (nfaSanitize exMemoA exMemoB).1.trans == exSanA.trans && (nfaSanitize exMemoA exMemoB).2.trans == exSanB.trans
#guard (match nfaInclCongr exSanA exSanB true 20 with | some (true, .relation R) => R == exSanR | _ => false)
-- the relation is a bisimulation up to congruence, but not a bisimulation: the pruning is really used
#guard congrCertB exSanA exSanB exSanR && !plainBisimB (nfaUnionDisjoint exSanA exSanB) exSanR
/-- non-vacuity of `congr_cert_sound` on a relation that needs the congruence closure -/
example : CongrCert exSanA exSanB exSanR := congrCertB_sound (by decide +kernel)
example : InclW exSanA exSanB := congr_cert_sound (congrCertB_sound (R := exSanR) (by decide +kernel))

end NfaInclEx

end Vata
