import Vata.UnionModel
import Vata.Proofs.Rename
/-!
# Property C02 – `Union` with its weak translators and ONE shared counter (`Vata/UnionModel.lean`)

* `Um.weakTrAll_grow` …          what a pass of the weak translator does to a map and the counter (`Um.Grow`): old
                                 bindings are kept, new numbers are `cnt, cnt+1, …`, each given once
* `unionModelOrd_maps_ok`, `unionModel_maps_ok`     pre-filled maps that are injective with disjoint images yield final
                                 maps that are injective on the states of their operand and have disjoint images there
* `unionModel_maps_ext`, `unionModel_maps_total`    the final maps extend the pre-filled ones and are defined on all
                                 states of their operand
* `unionModelOrd_lang`, `unionModel_lang`           the result accepts exactly `L(A) ∪ L(B)` (via `unionWith_lang`)
* `smapInjB_sound`, `smapDisjB_sound`               Boolean checks of the precondition
* `UnionEx.old_*`                the code before the repair (counter from 0, finding D11) merges states and accepts a tree
                                 that is in neither language although the precondition holds
The theorems about `unionModelOrd` hold for ALL visiting orders that cover the states of the operands.
-/
namespace Vata
namespace Um

/-! ### association lists -/

theorem lookup_snoc {m : SMap} {q k v : Nat} :
    (m ++ [(q, v)]).lookup k = (m.lookup k).or (if k = q then some v else none) := by
  rw [List.lookup_append]
  congr 1
  by_cases h : k = q
  · subst h; simp
  · have : (k == q) = false := by simpa using h
    simp [List.lookup_cons, this, h]

theorem mem_of_lookup : ∀ {m : SMap} {q n : Nat}, m.lookup q = some n → (q, n) ∈ m
  | [], _, _, h => by simp at h
  | (k, v) :: m, q, n, h => by
    rw [List.lookup_cons] at h
    by_cases hk : q = k
    · subst hk
      simp only [beq_self_eq_true, Option.some.injEq] at h
      subst h
      exact List.mem_cons_self
    · have : (q == k) = false := by simpa using hk
      rw [this] at h
      exact List.mem_cons_of_mem _ (mem_of_lookup h)

theorem lookup_isSome_of_mem : ∀ {m : SMap} {q n : Nat}, (q, n) ∈ m → ∃ n', m.lookup q = some n'
  | (k, v) :: m, q, n, h => by
    rw [List.lookup_cons]
    by_cases hk : q = k
    · subst hk; exact ⟨v, by simp⟩
    · have hb : (q == k) = false := by simpa using hk
      rw [hb]
      rcases List.mem_cons.mp h with h1 | h1
      · exact absurd (Prod.mk.inj h1).1 hk
      · exact lookup_isSome_of_mem h1

theorem lookup_none_iff {m : SMap} {q : Nat} : m.lookup q = none ↔ q ∉ m.map Prod.fst := by
  constructor
  · intro h hq
    obtain ⟨e, he, rfl⟩ := List.mem_map.mp hq
    obtain ⟨n', hn'⟩ := lookup_isSome_of_mem (q := e.1) (n := e.2) he
    rw [h] at hn'; cases hn'
  · intro h
    cases hl : m.lookup q with
    | none => rfl
    | some n => exact absurd (List.mem_map.mpr ⟨(q, n), mem_of_lookup hl, rfl⟩) h

/-! ### the properties of translation maps -/

/-- different keys have different numbers -/
def Inj (m : SMap) : Prop := ∀ p p' n, m.lookup p = some n → m.lookup p' = some n → p = p'
/-- no number is used by both maps -/
def Disj (m m' : SMap) : Prop := ∀ p p' n, m.lookup p = some n → m'.lookup p' = some n → False
/-- all numbers are below `c` -/
def Below (m : SMap) (c : Nat) : Prop := ∀ p n, m.lookup p = some n → n < c
/-- `m'` extends `m` -/
def Ext (m m' : SMap) : Prop := ∀ p n, m.lookup p = some n → m'.lookup p = some n

theorem Below.mono {m : SMap} {c c' : Nat} (h : Below m c) (hc : c ≤ c') : Below m c' :=
  fun p n hp => Nat.lt_of_lt_of_le (h p n hp) hc

theorem below_nil (c : Nat) : Below [] c := fun p n h => by simp at h
theorem inj_nil : Inj [] := fun p p' n h => by simp at h
theorem disj_nil_left (m : SMap) : Disj [] m := fun p p' n h => by simp at h
theorem disj_nil_right (m : SMap) : Disj m [] := fun p p' n _ h => by simp at h

/-- what a pass through the weak translator does: the map grows from `m` to `m'` while the counter goes from `c` to
`c'`; new bindings carry numbers in `[c, c')`, every such number is given to one key only -/
structure Grow (m : SMap) (c : Nat) (m' : SMap) (c' : Nat) : Prop where
  ext : Ext m m'
  le : c ≤ c'
  new : ∀ p n, m'.lookup p = some n → m.lookup p = some n ∨ (c ≤ n ∧ n < c')
  uniq : ∀ p p' n, m'.lookup p = some n → m'.lookup p' = some n → c ≤ n → p = p'
  onto : ∀ n, c ≤ n → n < c' → ∃ p, m'.lookup p = some n
  len : m'.length + c = m.length + c'
  nodup : (m.map Prod.fst).Nodup → (m'.map Prod.fst).Nodup

theorem Grow.refl (m : SMap) (c : Nat) (hb : Below m c) : Grow m c m c :=
  ⟨fun _ _ h => h, Nat.le_refl _, fun _ _ h => Or.inl h,
    fun p _ n h _ hc => absurd (hb p n h) (Nat.not_lt.mpr hc), fun _ h1 h2 => absurd h2 (Nat.not_lt.mpr h1), rfl, fun h => h⟩

theorem Grow.trans {m m1 m2 : SMap} {c c1 c2 : Nat} (h : Grow m c m1 c1) (h' : Grow m1 c1 m2 c2) : Grow m c m2 c2 := by
  refine ⟨fun p n hp => h'.ext p n (h.ext p n hp), Nat.le_trans h.le h'.le, ?_, ?_, ?_, ?_, fun hn => h'.nodup (h.nodup hn)⟩
  · intro p n hp
    rcases h'.new p n hp with h1 | ⟨h1, h2⟩
    · rcases h.new p n h1 with h3 | ⟨h3, h4⟩
      · exact Or.inl h3
      · exact Or.inr ⟨h3, Nat.lt_of_lt_of_le h4 h'.le⟩
    · exact Or.inr ⟨Nat.le_trans h.le h1, h2⟩
  · intro p p' n hp hp' hc
    by_cases hn : c1 ≤ n
    · exact h'.uniq p p' n hp hp' hn
    · rcases h'.new p n hp with h1 | ⟨h1, _⟩
      · rcases h'.new p' n hp' with h2 | ⟨h2, _⟩
        · exact h.uniq p p' n h1 h2 hc
        · exact absurd h2 hn
      · exact absurd h1 hn
  · intro n h1 h2
    by_cases hn : c1 ≤ n
    · exact h'.onto n hn h2
    · obtain ⟨p, hp⟩ := h.onto n h1 (Nat.lt_of_not_le hn)
      exact ⟨p, h'.ext p n hp⟩
  · have := h.len; have := h'.len; omega

theorem Grow.below {m m' : SMap} {c c' : Nat} (h : Grow m c m' c') (hb : Below m c) : Below m' c' := by
  intro p n hp
  rcases h.new p n hp with h1 | ⟨_, h1⟩
  · exact Nat.lt_of_lt_of_le (hb p n h1) h.le
  · exact h1

theorem Grow.inj {m m' : SMap} {c c' : Nat} (h : Grow m c m' c') (hi : Inj m) : Inj m' := by
  intro p p' n hp hp'
  by_cases hn : c ≤ n
  · exact h.uniq p p' n hp hp' hn
  · rcases h.new p n hp with h1 | ⟨h1, _⟩
    · rcases h.new p' n hp' with h2 | ⟨h2, _⟩
      · exact hi p p' n h1 h2
      · exact absurd h2 hn
    · exact absurd h1 hn

/-- a map that grew above `c` stays disjoint from a map whose numbers are below `c` -/
theorem Grow.disj_left {m m' o : SMap} {c c' : Nat} (h : Grow m c m' c') (ho : Below o c) (hd : Disj m o) : Disj m' o := by
  intro p p' n hp hp'
  rcases h.new p n hp with h1 | ⟨h1, _⟩
  · exact hd p p' n h1 hp'
  · exact absurd (ho p' n hp') (Nat.not_lt.mpr h1)

theorem Grow.disj_right {m m' o : SMap} {c c' : Nat} (h : Grow m c m' c') (ho : Below o c) (hd : Disj o m) : Disj o m' := by
  intro p p' n hp hp'
  rcases h.new p' n hp' with h1 | ⟨h1, _⟩
  · exact hd p p' n hp h1
  · exact absurd (ho p n hp) (Nat.not_lt.mpr h1)

/-! ### one call and a sequence of calls of the weak translator -/

theorem weakTr_grow (m : SMap) (c q : Nat) (hb : Below m c) : Grow m c (weakTr m c q).1 (weakTr m c q).2 := by
  unfold weakTr
  cases hl : m.lookup q with
  | some _ => exact Grow.refl m c hb
  | none =>
    have key : ∀ p n, (m ++ [(q, c)]).lookup p = some n → m.lookup p = some n ∨ (p = q ∧ n = c) := by
      intro p n hp
      rw [lookup_snoc, Option.or_eq_some_iff] at hp
      rcases hp with hp | ⟨_, hp⟩
      · exact Or.inl hp
      · by_cases hpq : p = q
        · rw [if_pos hpq] at hp; exact Or.inr ⟨hpq, (Option.some.inj hp).symm⟩
        · rw [if_neg hpq] at hp; cases hp
    refine ⟨?_, Nat.le_succ _, ?_, ?_, ?_, ?_, ?_⟩
    · intro p n hp
      show (m ++ [(q, c)]).lookup p = some n
      rw [lookup_snoc, hp]; rfl
    · intro p n hp
      rcases key p n hp with h1 | ⟨_, h1⟩
      · exact Or.inl h1
      · exact Or.inr ⟨by omega, by simp only; omega⟩
    · intro p p' n hp hp' hc
      rcases key p n hp with h1 | ⟨h1, _⟩
      · exact absurd (hb p n h1) (Nat.not_lt.mpr hc)
      · rcases key p' n hp' with h2 | ⟨h2, _⟩
        · exact absurd (hb p' n h2) (Nat.not_lt.mpr hc)
        · rw [h1, h2]
    · intro n h1 h2
      have : n = c := by simp only at h2; omega
      subst this
      exact ⟨q, by show (m ++ [(q, n)]).lookup q = some n; rw [lookup_snoc, hl]; simp⟩
    · simp only [List.length_append, List.length_singleton]; omega
    · intro hn
      simp only [List.map_append, List.map_cons, List.map_nil]
      rw [List.nodup_append]
      refine ⟨hn, by simp, ?_⟩
      intro a ha b hb' hab
      simp only [List.mem_singleton] at hb'
      subst hb'
      subst hab
      exact lookup_none_iff.mp hl ha

theorem weakTr_known (m : SMap) (c q : Nat) : ∃ n, (weakTr m c q).1.lookup q = some n := by
  unfold weakTr
  cases hl : m.lookup q with
  | some n => exact ⟨n, hl⟩
  | none => exact ⟨c, by show (m ++ [(q, c)]).lookup q = some c; rw [lookup_snoc, hl]; simp⟩

theorem weakTr_keys (m : SMap) (c q : Nat) : ∀ p n, (weakTr m c q).1.lookup p = some n → m.lookup p = some n ∨ p = q := by
  unfold weakTr
  cases hl : m.lookup q with
  | some n => exact fun p n hp => Or.inl hp
  | none =>
    intro p n hp
    have hp' : (m ++ [(q, c)]).lookup p = some n := hp
    rw [lookup_snoc, Option.or_eq_some_iff] at hp'
    rcases hp' with hp' | ⟨_, hp'⟩
    · exact Or.inl hp'
    · by_cases hpq : p = q
      · exact Or.inr hpq
      · rw [if_neg hpq] at hp'; cases hp'

theorem weakTrAll_grow : ∀ (qs : List Nat) (m : SMap) (c : Nat), Below m c →
    Grow m c (weakTrAll qs m c).1 (weakTrAll qs m c).2
  | [], m, c, hb => Grow.refl m c hb
  | q :: qs, m, c, hb => by
    have h1 := weakTr_grow m c q hb
    exact h1.trans (weakTrAll_grow qs _ _ (h1.below hb))

/-- every visited state is known afterwards -/
theorem weakTrAll_total : ∀ (qs : List Nat) (m : SMap) (c : Nat), Below m c →
    ∀ q, q ∈ qs → ∃ n, (weakTrAll qs m c).1.lookup q = some n
  | [], _, _, _, q, hq => by simp at hq
  | x :: qs, m, c, hb, q, hq => by
    have h1 := weakTr_grow m c x hb
    have h2 := weakTrAll_grow qs _ _ (h1.below hb)
    rcases List.mem_cons.mp hq with h | h
    · subst h
      obtain ⟨n, hn⟩ := weakTr_known m c q
      exact ⟨n, h2.ext q n hn⟩
    · exact weakTrAll_total qs _ _ (h1.below hb) q h

/-- only visited states are added -/
theorem weakTrAll_keys : ∀ (qs : List Nat) (m : SMap) (c : Nat),
    ∀ p n, (weakTrAll qs m c).1.lookup p = some n → m.lookup p = some n ∨ p ∈ qs
  | [], _, _, p, n, hp => Or.inl hp
  | x :: qs, m, c, p, n, hp => by
    rcases weakTrAll_keys qs _ _ p n hp with h | h
    · rcases weakTr_keys m c x p n h with h1 | h1
      · exact Or.inl h1
      · exact Or.inr (h1 ▸ List.mem_cons_self)
    · exact Or.inr (List.mem_cons_of_mem _ h)

/-! ### the start value of the counter -/

theorem maxVal_spec : ∀ (m : SMap) (c : Nat), c ≤ maxVal m c ∧ ∀ e, e ∈ m → e.2 < maxVal m c
  | [], c => ⟨Nat.le_refl _, fun e he => by simp at he⟩
  | x :: m, c => by
    obtain ⟨h1, h2⟩ := maxVal_spec m (max c (x.2 + 1))
    simp only [maxVal, List.foldl_cons] at h1 h2 ⊢
    refine ⟨Nat.le_trans (Nat.le_max_left _ _) h1, ?_⟩
    intro e he
    rcases List.mem_cons.mp he with h | h
    · subst h
      exact Nat.lt_of_lt_of_le (Nat.lt_of_lt_of_le (Nat.lt_succ_self _) (Nat.le_max_right c _)) h1
    · exact h2 e h

theorem below_unionCnt_left (mL mR : SMap) : Below mL (unionCnt mL mR) := by
  intro p n hp
  exact Nat.lt_of_lt_of_le ((maxVal_spec mL 0).2 _ (mem_of_lookup hp)) (maxVal_spec mR _).1

theorem below_unionCnt_right (mL mR : SMap) : Below mR (unionCnt mL mR) := by
  intro p n hp
  exact (maxVal_spec mR _).2 _ (mem_of_lookup hp)

/-! ### the Boolean checks of the precondition -/

end Um

theorem smapInjB_sound {m : SMap} (h : smapInjB m = true) : Um.Inj m := by
  intro p p' n hp hp'
  simp only [smapInjB, List.all_eq_true, Bool.or_eq_true, bne_iff_ne, beq_iff_eq] at h
  rcases h _ (Um.mem_of_lookup hp) _ (Um.mem_of_lookup hp') with h1 | h1
  · exact absurd rfl h1
  · exact h1

theorem smapDisjB_sound {m m' : SMap} (h : smapDisjB m m' = true) : Um.Disj m m' := by
  intro p p' n hp hp'
  simp only [smapDisjB, List.all_eq_true, bne_iff_ne] at h
  exact h _ (Um.mem_of_lookup hp) _ (Um.mem_of_lookup hp') rfl

namespace Um

/-! ### the two passes of `Union` -/

/-- everything the two passes establish, for any start value `c` of the counter above the numbers in both maps -/
theorem passes {oA oB : List Nat} {mL mR : SMap} {c : Nat} (hbL : Below mL c) (hbR : Below mR c)
    (hL : Inj mL) (hR : Inj mR) (hD : Disj mL mR) :
    Inj (weakTrAll oA mL c).1 ∧ Inj (weakTrAll oB mR (weakTrAll oA mL c).2).1 ∧
    Disj (weakTrAll oA mL c).1 (weakTrAll oB mR (weakTrAll oA mL c).2).1 ∧
    Ext mL (weakTrAll oA mL c).1 ∧ Ext mR (weakTrAll oB mR (weakTrAll oA mL c).2).1 ∧
    (∀ q, q ∈ oA → ∃ n, (weakTrAll oA mL c).1.lookup q = some n) ∧
    (∀ q, q ∈ oB → ∃ n, (weakTrAll oB mR (weakTrAll oA mL c).2).1.lookup q = some n) := by
  have g1 := weakTrAll_grow oA mL c hbL
  have hbR' : Below mR (weakTrAll oA mL c).2 := hbR.mono g1.le
  have g2 := weakTrAll_grow oB mR _ hbR'
  refine ⟨g1.inj hL, g2.inj hR, ?_, g1.ext, g2.ext, weakTrAll_total oA mL c hbL, weakTrAll_total oB mR _ hbR'⟩
  exact g2.disj_right (g1.below hbL) (g1.disj_left hbR hD)

/-- from maps to functions on the states -/
theorem applyMap_of_lookup {m : SMap} {q n : Nat} (h : m.lookup q = some n) : applyMap m q = n := by
  simp only [applyMap, h, Option.getD_some]

theorem injOn_of {m : SMap} {Q : List Nat} (hi : Inj m) (ht : ∀ q, q ∈ Q → ∃ n, m.lookup q = some n) :
    ∀ q q', q ∈ Q → q' ∈ Q → applyMap m q = applyMap m q' → q = q' := by
  intro q q' hq hq' he
  obtain ⟨n, hn⟩ := ht q hq
  obtain ⟨n', hn'⟩ := ht q' hq'
  rw [applyMap_of_lookup hn, applyMap_of_lookup hn'] at he
  subst he
  exact hi q q' n hn hn'

theorem disjOn_of {m m' : SMap} {Q Q' : List Nat} (hd : Disj m m') (ht : ∀ q, q ∈ Q → ∃ n, m.lookup q = some n)
    (ht' : ∀ q, q ∈ Q' → ∃ n, m'.lookup q = some n) :
    ∀ q q', q ∈ Q → q' ∈ Q' → applyMap m q ≠ applyMap m' q' := by
  intro q q' hq hq' he
  obtain ⟨n, hn⟩ := ht q hq
  obtain ⟨n', hn'⟩ := ht' q' hq'
  rw [applyMap_of_lookup hn, applyMap_of_lookup hn'] at he
  subst he
  exact hd q q' n hn hn'

/-- the visiting order of `ReindexStates` covers the states -/
theorem mem_visitOrder {A : TA} {q : Nat} : q ∈ visitOrder A ↔ q ∈ A.states := by
  unfold visitOrder TA.states
  rw [Rn.mem_dedupL, List.mem_append, List.mem_append]
  exact Or.comm

end Um

/-! ## the theorems about the model (for all visiting orders that cover the states) -/

/-- the final maps are injective on the states of their operand and their images of the operands' states are disjoint,
provided the pre-filled maps are injective with disjoint images (e.g. both empty, or the maps a previous `Union`
returned) -/
theorem unionModelOrd_maps_ok (oA oB : List Nat) (A B : TA) (mL mR : SMap)
    (hoA : ∀ q, q ∈ A.states → q ∈ oA) (hoB : ∀ q, q ∈ B.states → q ∈ oB)
    (hL : Um.Inj mL) (hR : Um.Inj mR) (hD : Um.Disj mL mR) :
    InjOnStates (applyMap (unionModelOrd oA oB A B mL mR).2.1) A ∧
    InjOnStates (applyMap (unionModelOrd oA oB A B mL mR).2.2) B ∧
    (∀ q q', q ∈ A.states → q' ∈ B.states →
      applyMap (unionModelOrd oA oB A B mL mR).2.1 q ≠ applyMap (unionModelOrd oA oB A B mL mR).2.2 q') := by
  obtain ⟨h1, h2, h3, _, _, h6, h7⟩ := Um.passes (oA := oA) (oB := oB) (Um.below_unionCnt_left mL mR)
    (Um.below_unionCnt_right mL mR) hL hR hD
  have tA : ∀ q, q ∈ A.states → ∃ n, (weakTrAll oA mL (unionCnt mL mR)).1.lookup q = some n := fun q hq => h6 q (hoA q hq)
  have tB : ∀ q, q ∈ B.states → ∃ n, (weakTrAll oB mR (weakTrAll oA mL (unionCnt mL mR)).2).1.lookup q = some n :=
    fun q hq => h7 q (hoB q hq)
  exact ⟨Um.injOn_of h1 tA, Um.injOn_of h2 tB, Um.disjOn_of h3 tA tB⟩

/-- the final maps as association lists: injective, with disjoint images (also outside the operands' states) -/
theorem unionModelOrd_maps_inj (oA oB : List Nat) (A B : TA) (mL mR : SMap)
    (hL : Um.Inj mL) (hR : Um.Inj mR) (hD : Um.Disj mL mR) :
    Um.Inj (unionModelOrd oA oB A B mL mR).2.1 ∧ Um.Inj (unionModelOrd oA oB A B mL mR).2.2 ∧
    Um.Disj (unionModelOrd oA oB A B mL mR).2.1 (unionModelOrd oA oB A B mL mR).2.2 := by
  obtain ⟨h1, h2, h3, _⟩ := Um.passes (oA := oA) (oB := oB) (Um.below_unionCnt_left mL mR)
    (Um.below_unionCnt_right mL mR) hL hR hD
  exact ⟨h1, h2, h3⟩

/-- the final maps extend the pre-filled ones (no hypothesis on the maps) -/
theorem unionModelOrd_maps_ext (oA oB : List Nat) (A B : TA) (mL mR : SMap) :
    Um.Ext mL (unionModelOrd oA oB A B mL mR).2.1 ∧ Um.Ext mR (unionModelOrd oA oB A B mL mR).2.2 := by
  have g1 := Um.weakTrAll_grow oA mL _ (Um.below_unionCnt_left mL mR)
  have g2 := Um.weakTrAll_grow oB mR _ ((Um.below_unionCnt_right mL mR).mono g1.le)
  exact ⟨g1.ext, g2.ext⟩

/-- the final maps are defined on all states of their operand (no hypothesis on the maps) -/
theorem unionModelOrd_maps_total (oA oB : List Nat) (A B : TA) (mL mR : SMap)
    (hoA : ∀ q, q ∈ A.states → q ∈ oA) (hoB : ∀ q, q ∈ B.states → q ∈ oB) :
    (∀ q, q ∈ A.states → ∃ n, (unionModelOrd oA oB A B mL mR).2.1.lookup q = some n) ∧
    (∀ q, q ∈ B.states → ∃ n, (unionModelOrd oA oB A B mL mR).2.2.lookup q = some n) := by
  have g1 := Um.weakTrAll_grow oA mL _ (Um.below_unionCnt_left mL mR)
  exact ⟨fun q hq => Um.weakTrAll_total oA mL _ (Um.below_unionCnt_left mL mR) q (hoA q hq),
    fun q hq => Um.weakTrAll_total oB mR _ ((Um.below_unionCnt_right mL mR).mono g1.le) q (hoB q hq)⟩

/-- the result accepts exactly the union of the two languages -/
theorem unionModelOrd_lang (oA oB : List Nat) (A B : TA) (mL mR : SMap)
    (hoA : ∀ q, q ∈ A.states → q ∈ oA) (hoB : ∀ q, q ∈ B.states → q ∈ oB)
    (hL : Um.Inj mL) (hR : Um.Inj mR) (hD : Um.Disj mL mR) (t : Tree) :
    accepts (unionModelOrd oA oB A B mL mR).1 t = (accepts A t || accepts B t) := by
  obtain ⟨h1, h2, h3⟩ := unionModelOrd_maps_ok oA oB A B mL mR hoA hoB hL hR hD
  exact unionWith_lang _ _ A B h1 h2 h3 t

/-! ## the same for the list-order instance `unionModel` -/

theorem unionModel_maps_ok (A B : TA) (mL mR : SMap) (hL : Um.Inj mL) (hR : Um.Inj mR) (hD : Um.Disj mL mR) :
    InjOnStates (applyMap (unionModel A B mL mR).2.1) A ∧ InjOnStates (applyMap (unionModel A B mL mR).2.2) B ∧
    (∀ q q', q ∈ A.states → q' ∈ B.states →
      applyMap (unionModel A B mL mR).2.1 q ≠ applyMap (unionModel A B mL mR).2.2 q') :=
  unionModelOrd_maps_ok _ _ A B mL mR (fun _ h => Um.mem_visitOrder.mpr h) (fun _ h => Um.mem_visitOrder.mpr h) hL hR hD

theorem unionModel_maps_inj (A B : TA) (mL mR : SMap) (hL : Um.Inj mL) (hR : Um.Inj mR) (hD : Um.Disj mL mR) :
    Um.Inj (unionModel A B mL mR).2.1 ∧ Um.Inj (unionModel A B mL mR).2.2 ∧
    Um.Disj (unionModel A B mL mR).2.1 (unionModel A B mL mR).2.2 :=
  unionModelOrd_maps_inj _ _ A B mL mR hL hR hD

theorem unionModel_maps_ext (A B : TA) (mL mR : SMap) :
    Um.Ext mL (unionModel A B mL mR).2.1 ∧ Um.Ext mR (unionModel A B mL mR).2.2 :=
  unionModelOrd_maps_ext _ _ A B mL mR

theorem unionModel_maps_total (A B : TA) (mL mR : SMap) :
    (∀ q, q ∈ A.states → ∃ n, (unionModel A B mL mR).2.1.lookup q = some n) ∧
    (∀ q, q ∈ B.states → ∃ n, (unionModel A B mL mR).2.2.lookup q = some n) :=
  unionModelOrd_maps_total _ _ A B mL mR (fun _ h => Um.mem_visitOrder.mpr h) (fun _ h => Um.mem_visitOrder.mpr h)

theorem unionModel_lang (A B : TA) (mL mR : SMap) (hL : Um.Inj mL) (hR : Um.Inj mR) (hD : Um.Disj mL mR) (t : Tree) :
    accepts (unionModel A B mL mR).1 t = (accepts A t || accepts B t) :=
  unionModelOrd_lang _ _ A B mL mR (fun _ h => Um.mem_visitOrder.mpr h) (fun _ h => Um.mem_visitOrder.mpr h) hL hR hD t

/-- the common call with no maps supplied -/
theorem unionModel_lang_empty (A B : TA) (t : Tree) :
    accepts (unionModel A B [] []).1 t = (accepts A t || accepts B t) :=
  unionModel_lang A B [] [] Um.inj_nil Um.inj_nil (Um.disj_nil_left _) t

/-- chaining: the maps returned by one `Union` satisfy the precondition of the next one -/
theorem unionModel_chain (A B C D : TA) (mL mR : SMap) (hL : Um.Inj mL) (hR : Um.Inj mR) (hD : Um.Disj mL mR) (t : Tree) :
    accepts (unionModel C D (unionModel A B mL mR).2.1 (unionModel A B mL mR).2.2).1 t = (accepts C t || accepts D t) := by
  obtain ⟨h1, h2, h3⟩ := unionModel_maps_inj A B mL mR hL hR hD
  exact unionModel_lang C D _ _ h1 h2 h3 t

/-! ## non-vacuity and the counterexample for the old code -/
namespace UnionEx

/-- `a → 5`, final `5` -/
def exA5 : TA := ⟨[⟨0, [], 5⟩], [5]⟩
/-- `b → 9`, final `9` -/
def exB9 : TA := ⟨[⟨1, [], 9⟩], [9]⟩
/-- `a → 5`, `h(5) → 6`, final `6`: the language is `{h(a)}` -/
def exA : TA := ⟨[⟨0, [], 5⟩, ⟨2, [5], 6⟩], [6]⟩
/-- the trees `a`, `b`, `h(a)`, `h(b)` -/
def tA : Tree := .node 0 []
def tB : Tree := .node 1 []
def tHA : Tree := .node 2 [.node 0 []]
def tHB : Tree := .node 2 [.node 1 []]

-- the precondition holds for the pre-filled maps used below
example : Um.Inj [(5, 0)] ∧ Um.Inj [] ∧ Um.Disj [(5, 0)] [] := ⟨smapInjB_sound (by decide), Um.inj_nil, Um.disj_nil_right _⟩
example : Um.Inj [(5, 0), (6, 1)] ∧ Um.Inj [(7, 3)] ∧ Um.Disj [(5, 0), (6, 1)] [(7, 3)] :=
  ⟨smapInjB_sound (by decide), smapInjB_sound (by decide), smapDisjB_sound (by decide)⟩
-- … and the checks are not vacuous
example : smapInjB [(5, 0), (6, 0)] = false ∧ smapDisjB [(5, 0)] [(7, 0)] = false := by decide

-- the repaired code: the counter starts above the pre-filled numbers
/-- the observable parts of a result -/
def obs (r : TA × SMap × SMap) : List Rule × List Nat × SMap × SMap := (r.1.rules, r.1.final, r.2.1, r.2.2)

example : obs (unionModel exA5 exB9 [(5, 0)] []) = ([⟨0, [], 0⟩, ⟨1, [], 1⟩], [0, 1], [(5, 0)], [(9, 1)]) := by decide
example : obs (unionModel exA exB9 [(5, 0), (6, 1)] [(7, 3)]) =
    ([⟨0, [], 0⟩, ⟨2, [0], 1⟩, ⟨1, [], 4⟩], [1, 4], [(5, 0), (6, 1)], [(7, 3), (9, 4)]) := by decide
example : (unionModel exA exB9 [] []).2 = ([(6, 0), (5, 1)], [(9, 2)]) := by decide
example : accepts (unionModel exA exB9 [(5, 0), (6, 1)] []).1 tHA = true ∧
    accepts (unionModel exA exB9 [(5, 0), (6, 1)] []).1 tB = true ∧
    accepts (unionModel exA exB9 [(5, 0), (6, 1)] []).1 tA = false ∧
    accepts (unionModel exA exB9 [(5, 0), (6, 1)] []).1 tHB = false := by decide

/-- the old code (counter from 0): with the pre-filled map `5 ↦ 0` the state `9` of `B` also gets the number `0` -/
theorem old_merges :
    obs (unionModelOld exA5 exB9 [(5, 0)] []) = ([⟨0, [], 0⟩, ⟨1, [], 0⟩], [0, 0], [(5, 0)], [(9, 0)]) ∧
    applyMap (unionModelOld exA5 exB9 [(5, 0)] []).2.1 5 = applyMap (unionModelOld exA5 exB9 [(5, 0)] []).2.2 9 := by
  decide

/-- … and the language claim fails: with `A = {h(a)}` (map pre-filled by the caller) and `B = {b}` the old result accepts
`a` and `h(b)`, which are in neither language, although the pre-filled maps satisfy the precondition -/
theorem old_lang_fails :
    accepts (unionModelOld exA exB9 [(5, 0), (6, 1)] []).1 tA = true ∧ accepts exA tA = false ∧ accepts exB9 tA = false ∧
    accepts (unionModelOld exA exB9 [(5, 0), (6, 1)] []).1 tHB = true ∧ accepts exA tHB = false ∧ accepts exB9 tHB = false := by
  decide

/-- the repaired model is right on the same input -/
example (t : Tree) : accepts (unionModel exA exB9 [(5, 0), (6, 1)] []).1 t = (accepts exA t || accepts exB9 t) :=
  unionModel_lang exA exB9 _ _ (smapInjB_sound (by decide)) Um.inj_nil (Um.disj_nil_right _) t

end UnionEx

end Vata
