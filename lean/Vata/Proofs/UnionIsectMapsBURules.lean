import Vata.Proofs.UnionIsectMapsBUInv
/-!
# Property C02 – `IntersectionBU` from a caller-supplied `MapOk` map: the RULES and FINAL STATES of the result, exactly

For the empty map the result is the product on the (bottom-up closed) domain of the map.  For a pre-filled map it is not:
`pTranslMap->find(statePair)` also accepts a pre-filled children pair that is never produced.  What the loop writes is

* every product rule `f(m(c₁),…,m(cₙ)) → m(p)` of matching rules all of whose children pairs are IN THE MAP ON EXIT and
  (`n = 0` or) at least one of whose children pairs has been POPPED,

where a pair has been popped iff its number is the parent of a rule of the result (every push follows an
`AddTransition` with that parent); the final states are the numbers of the popped pairs of two final states.

The second invariant `Ibf.RInv` is kept next to `Ibf.PInv`.  Its completeness clause `r2` says: a matching pair of rules whose
children pairs are all in the map, one of them popped, NONE OF THEM WAITING ON THE STACK, has been written (a pair that
enters the map later is pushed, and the rule is written when that entry is popped).

* `isectBUFrom_rules`   the characterisation
-/
namespace Vata
namespace Ibf
open Isx Ibu

/-- what a batch of work does, second part (`Q` describes the examined rule pairs) -/
structure RStep (A B : TA) (Q : Rule → Rule → Prop) (m : PMap) (st : List BUEntry) (rs : List Rule) (m' : PMap)
    (st' : List BUEntry) (rs' : List Rule) : Prop where
  dom_new : ∀ p n, m'.lookup p = some n → m.lookup p = some n ∨ (p, n) ∈ st'
  rs_new2 : ∀ ρ, ρ ∈ rs' → ρ ∈ rs ∨ ∃ r r', Q r r' ∧ Matching A B r r' ∧ (∀ x, x ∈ r.kids.zip r'.kids → x ∈ m'.dom) ∧
    (∃ n, m'.lookup (r.parent, r'.parent) = some n ∧ ((r.parent, r'.parent), n) ∈ st') ∧ ρ = PRule m' r r'
  st_new2 : ∀ e, e ∈ st' → e ∈ st ∨ ∃ ρ, ρ ∈ rs' ∧ ρ.parent = e.2

theorem RStep.refl {A B : TA} {Q : Rule → Rule → Prop} (m : PMap) (st : List BUEntry) (rs : List Rule) :
    RStep A B Q m st rs m st rs :=
  ⟨fun _ _ h => Or.inl h, fun _ h => Or.inl h, fun _ h => Or.inl h⟩

theorem RStep.trans {A B : TA} {Q : Rule → Rule → Prop} {m m' m'' : PMap} {st st' st'' : List BUEntry}
    {rs rs' rs'' : List Rule} (h : RStep A B Q m st rs m' st' rs') (h' : RStep A B Q m' st' rs' m'' st'' rs'')
    (s' : PStep A B m' st' rs' m'' st'' rs'') : RStep A B Q m st rs m'' st'' rs'' := by
  refine ⟨?_, ?_, ?_⟩
  · intro p n hp
    rcases h'.dom_new p n hp with h1 | h1
    · rcases h.dom_new p n h1 with h2 | h2
      · exact Or.inl h2
      · exact Or.inr (s'.st_sub _ h2)
    · exact Or.inr h1
  · intro ρ hρ
    rcases h'.rs_new2 ρ hρ with h1 | h1
    · rcases h.rs_new2 ρ h1 with h2 | ⟨r, r', hq, hm, hk, ⟨n, hn1, hn2⟩, he⟩
      · exact Or.inl h2
      · right
        refine ⟨r, r', hq, hm, fun x hx => s'.ext.dom (hk x hx), ⟨n, s'.ext _ _ hn1, s'.st_sub _ hn2⟩, ?_⟩
        rw [he, PRule_ext s'.ext (mem_dom_iff.mpr ⟨n, hn1⟩) hk]
    · exact Or.inr h1
  · intro e he
    rcases h'.st_new2 e he with h1 | h1
    · rcases h.st_new2 e h1 with h2 | ⟨ρ, h2, h3⟩
      · exact Or.inl h2
      · exact Or.inr ⟨ρ, s'.rs_sub _ h2, h3⟩
    · exact Or.inr h1

theorem rstep_add {A B : TA} {Q : Rule → Rule → Prop} {r r' : Rule} {m : PMap} (hq : Q r r') (hm : Matching A B r r')
    (st : List BUEntry) (rs : List Rule) (h : ∀ c, c ∈ r.kids.zip r'.kids → c ∈ m.dom) :
    RStep A B Q m st rs (buInsert m (r.parent, r'.parent)).1
      (((r.parent, r'.parent), (buInsert m (r.parent, r'.parent)).2.1) :: st)
      (rs ++ [PRule (buInsert m (r.parent, r'.parent)).1 r r']) := by
  have I := Ibu.ins m (r.parent, r'.parent)
  refine ⟨?_, ?_, ?_⟩
  · intro p n hp
    rcases I.look_new p n hp with h1 | ⟨h1, h2⟩
    · exact Or.inl h1
    · rw [h1, h2]; exact Or.inr List.mem_cons_self
  · intro ρ hρ
    rcases List.mem_append.mp hρ with h1 | h1
    · exact Or.inl h1
    · right
      rw [List.mem_singleton.mp h1]
      exact ⟨r, r', hq, hm, fun x hx => I.ext.dom (h x hx), ⟨_, I.look, List.mem_cons_self⟩, rfl⟩
  · intro e he
    rcases List.mem_cons.mp he with h1 | h1
    · right
      refine ⟨_, List.mem_append_right _ List.mem_cons_self, ?_⟩
      rw [h1]
      simp only [PRule, lookupF, I.look, Option.getD_some]
    · exact Or.inl h1

theorem buProcPair_rstep {A B : TA} {Q : Rule → Rule → Prop} {r r' : Rule} {m : PMap} (hq : Q r r')
    (hm : Matching A B r r') (st : List BUEntry) (rs : List Rule) :
    RStep A B Q m st rs (buProcPair r r' m st rs).1 (buProcPair r r' m st rs).2.1 (buProcPair r r' m st rs).2.2 := by
  by_cases h : ∀ c, c ∈ r.kids.zip r'.kids → c ∈ m.dom
  · rw [buProcPair_ready st rs h]
    exact rstep_add hq hm st rs h
  · have h' : ∃ c, c ∈ r.kids.zip r'.kids ∧ c ∉ m.dom := by
      apply Classical.byContradiction
      intro hne
      apply h
      intro c hc
      apply Classical.byContradiction
      intro hcd
      exact hne ⟨c, hc, hcd⟩
    rw [buProcPair_notready st rs h']
    exact RStep.refl m st rs

theorem buProcAll_rspec {A B : TA} {Q : Rule → Rule → Prop} : ∀ (L : List (Rule × Rule)) (m : PMap) (st : List BUEntry)
    (rs : List Rule), MapOk m → (∀ rr, rr ∈ L → Q rr.1 rr.2 ∧ Matching A B rr.1 rr.2) →
    RStep A B Q m st rs (buProcAll L m st rs).1 (buProcAll L m st rs).2.1 (buProcAll L m st rs).2.2
  | [], m, st, rs, _, _ => by
    simp only [buProcAll]
    exact RStep.refl m st rs
  | rr :: rest, m, st, rs, hok, hL => by
    obtain ⟨hq, hm⟩ := hL rr List.mem_cons_self
    have t1 := buProcPair_rstep (A := A) (B := B) (Q := Q) (m := m) hq hm st rs
    obtain ⟨s1, _⟩ := buProcPair_pstep hm hok st rs
    have t2 := buProcAll_rspec (A := A) (B := B) (Q := Q) rest _ (buProcPair rr.1 rr.2 m st rs).2.1
      (buProcPair rr.1 rr.2 m st rs).2.2 s1.ok (fun x hx => hL x (List.mem_cons_of_mem _ hx))
    obtain ⟨s2, _⟩ := buProcAll_pspec (A := A) (B := B) rest _ (buProcPair rr.1 rr.2 m st rs).2.1
      (buProcPair rr.1 rr.2 m st rs).2.2 s1.ok (fun x hx => (hL x (List.mem_cons_of_mem _ hx)).2)
    simp only [buProcAll]
    exact t1.trans t2 s2

/-- the leaf phase: second part; a number marked final belongs to a pushed pair of final states -/
theorem buLeafPhase_rspec {A B : TA} : ∀ (L : List (Rule × Rule)) (m : PMap) (st : List BUEntry) (rs : List Rule)
    (fs : List Nat), MapOk m → (∀ rr, rr ∈ L → Matching A B rr.1 rr.2 ∧ rr.1.kids = []) →
    RStep A B (fun r _ => r.kids = []) m st rs (buLeafPhase A B L m st rs fs).1 (buLeafPhase A B L m st rs fs).2.1
      (buLeafPhase A B L m st rs fs).2.2.1 ∧
    (∀ x, x ∈ (buLeafPhase A B L m st rs fs).2.2.2 → x ∈ fs ∨
      ∃ pr, (buLeafPhase A B L m st rs fs).1.lookup pr = some x ∧ pr.1 ∈ A.final ∧ pr.2 ∈ B.final ∧
        (pr, x) ∈ (buLeafPhase A B L m st rs fs).2.1)
  | [], m, st, rs, fs, _, _ => by
    simp only [buLeafPhase]
    exact ⟨RStep.refl m st rs, fun x hx => Or.inl hx⟩
  | rr :: rest, m, st, rs, fs, hok, hL => by
    obtain ⟨hm, hk⟩ := hL rr List.mem_cons_self
    have hz : rr.1.kids.zip rr.2.kids = [] := by rw [hk]; rfl
    have hkids : ∀ c, c ∈ rr.1.kids.zip rr.2.kids → c ∈ m.dom := by rw [hz]; intro c hc; simp at hc
    have I := Ibu.ins m (rr.1.parent, rr.2.parent)
    obtain ⟨s1, _⟩ := pstep_add hm hok st rs hkids
    have t1 := rstep_add (A := A) (B := B) (Q := fun r _ => r.kids = []) hk hm st rs hkids
    have hnew : (⟨rr.1.sym, [], (buInsert m (rr.1.parent, rr.2.parent)).2.1⟩ : Rule) =
        PRule (buInsert m (rr.1.parent, rr.2.parent)).1 rr.1 rr.2 := by
      unfold PRule
      rw [hz]
      simp only [List.map_nil, lookupF, I.look, Option.getD_some]
    obtain ⟨t2, f2⟩ := buLeafPhase_rspec (A := A) (B := B) rest (buInsert m (rr.1.parent, rr.2.parent)).1
      (((rr.1.parent, rr.2.parent), (buInsert m (rr.1.parent, rr.2.parent)).2.1) :: st)
      (rs ++ [⟨rr.1.sym, [], (buInsert m (rr.1.parent, rr.2.parent)).2.1⟩])
      (if A.final.contains rr.1.parent && B.final.contains rr.2.parent then fs ++ [(buInsert m (rr.1.parent, rr.2.parent)).2.1] else fs)
      s1.ok (fun x hx => hL x (List.mem_cons_of_mem _ hx))
    obtain ⟨s2, _, _⟩ := buLeafPhase_pspec (A := A) (B := B) rest (buInsert m (rr.1.parent, rr.2.parent)).1
      (((rr.1.parent, rr.2.parent), (buInsert m (rr.1.parent, rr.2.parent)).2.1) :: st)
      (rs ++ [⟨rr.1.sym, [], (buInsert m (rr.1.parent, rr.2.parent)).2.1⟩])
      (if A.final.contains rr.1.parent && B.final.contains rr.2.parent then fs ++ [(buInsert m (rr.1.parent, rr.2.parent)).2.1] else fs)
      s1.ok (fun x hx => hL x (List.mem_cons_of_mem _ hx))
    simp only [buLeafPhase]
    rw [hnew] at t2 f2 s2 ⊢
    refine ⟨t1.trans t2 s2, ?_⟩
    intro x hx
    rcases f2 x hx with h | h
    · split at h
      · rename_i hfin
        rcases List.mem_append.mp h with h1 | h1
        · exact Or.inl h1
        · right
          simp only [Bool.and_eq_true, List.contains_iff_mem] at hfin
          rw [List.mem_singleton.mp h1]
          exact ⟨(rr.1.parent, rr.2.parent), s2.ext _ _ I.look, hfin.1, hfin.2, s2.st_sub _ List.mem_cons_self⟩
      · exact Or.inl h
    · exact Or.inr h

/-! ### the second invariant -/

structure RInv (A B : TA) (m : PMap) (st : List BUEntry) (ns : List Nat) (rs : List Rule) (fs : List Nat) : Prop where
  r1 : ∀ ρ, ρ ∈ rs → ∃ r r', Matching A B r r' ∧ (∀ x, x ∈ r.kids.zip r'.kids → x ∈ m.dom) ∧
    Pend m st ns (r.parent, r'.parent) ∧ (r.kids = [] ∨ ∃ x, x ∈ r.kids.zip r'.kids ∧ Done m ns x) ∧ ρ = PRule m r r'
  r2 : ∀ r r', Matching A B r r' → (∀ x, x ∈ r.kids.zip r'.kids → x ∈ m.dom) →
    (r.kids = [] ∨ ∃ x, x ∈ r.kids.zip r'.kids ∧ Done m ns x) →
    (∀ x, x ∈ r.kids.zip r'.kids → ∀ n, (x, n) ∈ st → n ∈ ns) → (r.parent, r'.parent) ∈ m.dom ∧ PRule m r r' ∈ rs
  f1 : ∀ x, x ∈ fs → ∃ pr, m.lookup pr = some x ∧ pr.1 ∈ A.final ∧ pr.2 ∈ B.final ∧ ((pr, x) ∈ st ∨ x ∈ ns)
  s1 : ∀ e, e ∈ st → ∃ ρ, ρ ∈ rs ∧ ρ.parent = e.2
  n1 : ∀ k, k ∈ ns → ∃ ρ, ρ ∈ rs ∧ ρ.parent = k

theorem RInv.skip {A B : TA} {m : PMap} {e : BUEntry} {st : List BUEntry} {ns : List Nat} {rs : List Rule} {fs : List Nat}
    (h : RInv A B m (e :: st) ns rs fs) (he : e.2 ∈ ns) : RInv A B m st ns rs fs := by
  have hpend : ∀ p, Pend m (e :: st) ns p → Pend m st ns p := by
    rintro p ⟨n, h1, h2⟩
    refine ⟨n, h1, ?_⟩
    rcases h2 with h2 | h2
    · rcases List.mem_cons.mp h2 with h4 | h4
      · right
        rw [← h4] at he
        exact he
      · exact Or.inl h4
    · exact Or.inr h2
  refine ⟨?_, ?_, ?_, fun x hx => h.s1 x (List.mem_cons_of_mem _ hx), h.n1⟩
  · intro ρ hρ
    obtain ⟨r, r', hm, hk, hp, hd, he'⟩ := h.r1 ρ hρ
    exact ⟨r, r', hm, hk, hpend _ hp, hd, he'⟩
  · intro r r' hm hk hd hw
    apply h.r2 r r' hm hk hd
    intro x hx n hn
    rcases List.mem_cons.mp hn with h1 | h1
    · rw [← h1] at he
      exact he
    · exact hw x hx n h1
  · intro x hx
    obtain ⟨pr, h1, h2, h3, h4⟩ := h.f1 x hx
    refine ⟨pr, h1, h2, h3, ?_⟩
    rcases h4 with h4 | h4
    · rcases List.mem_cons.mp h4 with h5 | h5
      · right
        rw [← h5] at he
        exact he
      · exact Or.inl h5
    · exact Or.inr h4

theorem RInv.pop {A B : TA} {m : PMap} {e : BUEntry} {st : List BUEntry} {ns : List Nat} {rs : List Rule} {fs : List Nat}
    (hp : PInv A B m (e :: st) ns rs fs) (h : RInv A B m (e :: st) ns rs fs) :
    RInv A B (buProcAll (buMatching A B e.1) m st rs).1 (buProcAll (buMatching A B e.1) m st rs).2.1 (e.2 :: ns)
      (buProcAll (buMatching A B e.1) m st rs).2.2
      (if A.final.contains e.1.1 && B.final.contains e.1.2 then fs ++ [e.2] else fs) := by
  obtain ⟨pr, k⟩ := e
  have hpr : m.lookup pr = some k := hp.hst _ List.mem_cons_self
  obtain ⟨s, c⟩ := buProcAll_pspec (A := A) (B := B) (buMatching A B pr) m st rs hp.ok
    (fun rr hrr => (mem_buMatching.mp hrr).1)
  have t := buProcAll_rspec (A := A) (B := B) (Q := fun r r' => pr ∈ r.kids.zip r'.kids) (buMatching A B pr) m st rs hp.ok
    (fun rr hrr => ⟨(mem_buMatching.mp hrr).2, (mem_buMatching.mp hrr).1⟩)
  have hpr' := s.ext _ _ hpr
  have donePr : Done (buProcAll (buMatching A B pr) m st rs).1 (k :: ns) pr := ⟨k, hpr', List.mem_cons_self⟩
  have done_lift : ∀ x, Done m ns x → Done (buProcAll (buMatching A B pr) m st rs).1 (k :: ns) x :=
    fun x ⟨j, h1, h2⟩ => ⟨j, s.ext _ _ h1, List.mem_cons_of_mem _ h2⟩
  have entry_lift : ∀ (p : Nat × Nat) (n : Nat), ((p, n) ∈ (pr, k) :: st ∨ n ∈ ns) →
      ((p, n) ∈ (buProcAll (buMatching A B pr) m st rs).2.1 ∨ n ∈ k :: ns) := by
    intro p n d3
    rcases d3 with d3 | d3
    · rcases List.mem_cons.mp d3 with d4 | d4
      · right
        rw [(Prod.mk.inj d4).2]
        exact List.mem_cons_self
      · exact Or.inl (s.st_sub _ d4)
    · exact Or.inr (List.mem_cons_of_mem _ d3)
  refine ⟨?_, ?_, ?_, ?_, ?_⟩
  · intro ρ hρ
    rcases t.rs_new2 ρ hρ with h1 | ⟨r, r', hq, hm, hk, ⟨n, hn1, hn2⟩, he⟩
    · obtain ⟨r, r', hm, hk, ⟨n, d1, d3⟩, hd, he⟩ := h.r1 ρ h1
      refine ⟨r, r', hm, fun x hx => s.ext.dom (hk x hx), ⟨n, s.ext _ _ d1, entry_lift _ _ d3⟩, ?_, ?_⟩
      · rcases hd with hd | ⟨x, hx, hd⟩
        · exact Or.inl hd
        · exact Or.inr ⟨x, hx, done_lift x hd⟩
      · rw [he, PRule_ext s.ext (mem_dom_iff.mpr ⟨n, d1⟩) hk]
    · exact ⟨r, r', hm, hk, ⟨n, hn1, Or.inl hn2⟩, Or.inr ⟨pr, hq, donePr⟩, he⟩
  · intro r r' hm hk hd hw
    -- a children pair that entered the map in this step would wait on the stack
    have hknown : ∀ x, x ∈ r.kids.zip r'.kids → x ∈ m.dom := by
      intro x hx
      obtain ⟨n, hn⟩ := mem_dom_iff.mp (hk x hx)
      rcases t.dom_new x n hn with h1 | h1
      · exact mem_dom_iff.mpr ⟨n, h1⟩
      · rcases List.mem_cons.mp (hw x hx n h1) with h2 | h2
        · have hnk : n = k := h2
          rw [hnk] at hn
          have : x = pr := s.ok.2 x pr k hn hpr'
          rw [this]; exact mem_dom_iff.mpr ⟨k, hpr⟩
        · obtain ⟨p, hp'⟩ := hp.hns n h2
          have : p = x := s.ok.2 p x n (s.ext _ _ hp') hn
          rw [← this]; exact mem_dom_iff.mpr ⟨n, hp'⟩
    by_cases hin : pr ∈ r.kids.zip r'.kids
    · obtain ⟨n, h1, _, h3⟩ := c (r, r') (mem_buMatching.mpr ⟨hm, hin⟩) hknown
      exact ⟨mem_dom_iff.mpr ⟨n, h1⟩, h3⟩
    · have hd' : r.kids = [] ∨ ∃ x, x ∈ r.kids.zip r'.kids ∧ Done m ns x := by
        rcases hd with hd | ⟨x, hx, j, hj1, hj2⟩
        · exact Or.inl hd
        · rcases done_back s.ok s.ext hp.hns hpr hj1 hj2 with h1 | h1
          · exact absurd (h1 ▸ hx) hin
          · exact Or.inr ⟨x, hx, j, h1⟩
      have hw' : ∀ x, x ∈ r.kids.zip r'.kids → ∀ n, (x, n) ∈ (pr, k) :: st → n ∈ ns := by
        intro x hx n hn
        rcases List.mem_cons.mp hn with h1 | h1
        · exact absurd ((Prod.mk.inj h1).1 ▸ hx) hin
        · rcases List.mem_cons.mp (hw x hx n (s.st_sub _ h1)) with h2 | h2
          · have hx' : m.lookup x = some n := hp.hst (x, n) (List.mem_cons_of_mem _ h1)
            have hnk : n = k := h2
            rw [hnk] at hx'
            have : x = pr := hp.ok.2 x pr k hx' hpr
            exact absurd (this ▸ hx) hin
          · exact h2
      obtain ⟨d1, d2⟩ := h.r2 r r' hm hknown hd' hw'
      refine ⟨s.ext.dom d1, ?_⟩
      rw [PRule_ext s.ext d1 hknown]
      exact s.rs_sub _ d2
  · intro x hx
    split at hx
    · rename_i hfin
      rcases List.mem_append.mp hx with h1 | h1
      · obtain ⟨p, g1, g2, g3, g4⟩ := h.f1 x h1
        exact ⟨p, s.ext _ _ g1, g2, g3, entry_lift _ _ g4⟩
      · simp only [Bool.and_eq_true, List.contains_iff_mem] at hfin
        rw [List.mem_singleton.mp h1]
        exact ⟨pr, hpr', hfin.1, hfin.2, Or.inr List.mem_cons_self⟩
    · obtain ⟨p, g1, g2, g3, g4⟩ := h.f1 x hx
      exact ⟨p, s.ext _ _ g1, g2, g3, entry_lift _ _ g4⟩
  · intro e he
    rcases t.st_new2 e he with h1 | h1
    · obtain ⟨ρ, g1, g2⟩ := h.s1 e (List.mem_cons_of_mem _ h1)
      exact ⟨ρ, s.rs_sub _ g1, g2⟩
    · exact h1
  · intro j hj
    rcases List.mem_cons.mp hj with h1 | h1
    · obtain ⟨ρ, g1, g2⟩ := h.s1 (pr, k) List.mem_cons_self
      exact ⟨ρ, s.rs_sub _ g1, by rw [h1]; exact g2⟩
    · obtain ⟨ρ, g1, g2⟩ := h.n1 j h1
      exact ⟨ρ, s.rs_sub _ g1, g2⟩

theorem loop_rinv {A B : TA} : ∀ (n : Nat) (m : PMap) (st : List BUEntry) (ns : List Nat) (rs : List Rule) (fs : List Nat)
    (m' : PMap) (rs' : List Rule) (fs' : List Nat), PInv A B m st ns rs fs → RInv A B m st ns rs fs →
    buLoop A B n m st ns rs fs = some (m', rs', fs') → ∃ ns', PInv A B m' [] ns' rs' fs' ∧ RInv A B m' [] ns' rs' fs'
  | 0, m, st, ns, rs, fs, m', rs', fs', hp, h, he => by
    simp only [buLoop] at he
    split at he
    · rename_i hs
      have hs' : st = [] := List.isEmpty_iff.mp hs
      simp only [Option.some.injEq, Prod.mk.injEq] at he
      obtain ⟨rfl, rfl, rfl⟩ := he
      subst hs'
      exact ⟨ns, hp, h⟩
    · cases he
  | n+1, m, [], ns, rs, fs, m', rs', fs', hp, h, he => by
    simp only [buLoop, Option.some.injEq, Prod.mk.injEq] at he
    obtain ⟨rfl, rfl, rfl⟩ := he
    exact ⟨ns, hp, h⟩
  | n+1, m, e :: st, ns, rs, fs, m', rs', fs', hp, h, he => by
    simp only [buLoop] at he
    split at he
    · rename_i hc
      exact loop_rinv n m st ns rs fs m' rs' fs' (hp.skip (List.contains_iff_mem.mp hc))
        (h.skip (List.contains_iff_mem.mp hc)) he
    · exact loop_rinv n _ _ _ _ _ m' rs' fs' hp.pop (RInv.pop hp h) he

theorem init_rinv (A B : TA) (m0 : PMap) (hok : MapOk m0) :
    RInv A B (buLeafPhase A B (buLeafPairs A B) m0 [] [] []).1 (buLeafPhase A B (buLeafPairs A B) m0 [] [] []).2.1 []
      (buLeafPhase A B (buLeafPairs A B) m0 [] [] []).2.2.1 (buLeafPhase A B (buLeafPairs A B) m0 [] [] []).2.2.2 := by
  obtain ⟨t, f⟩ := buLeafPhase_rspec (A := A) (B := B) (buLeafPairs A B) m0 [] [] [] hok
    (fun rr hrr => mem_buLeafPairs.mp hrr)
  obtain ⟨_, c, _⟩ := buLeafPhase_pspec (A := A) (B := B) (buLeafPairs A B) m0 [] [] [] hok
    (fun rr hrr => mem_buLeafPairs.mp hrr)
  refine ⟨?_, ?_, ?_, ?_, fun k hk => by simp at hk⟩
  · intro ρ hρ
    rcases t.rs_new2 ρ hρ with h1 | ⟨r, r', hq, hm, hk, ⟨n, hn1, hn2⟩, he⟩
    · simp at h1
    · exact ⟨r, r', hm, hk, ⟨n, hn1, Or.inl hn2⟩, Or.inl hq, he⟩
  · intro r r' hm _ hd _
    rcases hd with hd | ⟨x, _, j, _, hj⟩
    · obtain ⟨n, h1, _, h3⟩ := c (r, r') (mem_buLeafPairs.mpr ⟨hm, hd⟩)
      exact ⟨mem_dom_iff.mpr ⟨n, h1⟩, h3⟩
    · simp at hj
  · intro x hx
    rcases f x hx with h1 | ⟨pr, g1, g2, g3, g4⟩
    · simp at h1
    · exact ⟨pr, g1, g2, g3, Or.inl g4⟩
  · intro e he
    rcases t.st_new2 e he with h1 | h1
    · simp at h1
    · exact h1

end Ibf

open Isx in
/-- **rules and final states of `IntersectionBU(lhs, rhs, &m)` for a `MapOk` entry map, exactly.**  Call a pair POPPED when it
is in the map on exit and its number is the parent of a rule of the result.  The rules are (as a set) the product rules
of matching rules all of whose children pairs are in the map on exit and which are leaf rules or have a popped children
pair; the final states are the numbers of the popped pairs of two final states. -/
theorem isectBUFrom_rules {A B : TA} {m0 : PMap} {fuel : Nat} {P : TA} {m : PMap} (hok : Isx.MapOk m0)
    (h : isectBUFrom A B m0 fuel = some (P, m)) :
    (∀ ρ, ρ ∈ P.rules ↔ ∃ r r', Matching A B r r' ∧ (∀ x, x ∈ r.kids.zip r'.kids → x ∈ m.dom) ∧
      (r.kids = [] ∨ ∃ x, x ∈ r.kids.zip r'.kids ∧ x ∈ m.dom ∧ ∃ σ, σ ∈ P.rules ∧ σ.parent = lookupF m x) ∧
      ρ = PRule m r r') ∧
    (∀ x, x ∈ P.final ↔ ∃ pr, pr ∈ m.dom ∧ (∃ σ, σ ∈ P.rules ∧ σ.parent = lookupF m pr) ∧
      pr.1 ∈ A.final ∧ pr.2 ∈ B.final ∧ lookupF m pr = x) := by
  have hinit := Ibf.init_inv A B m0 hok
  have hrinit := Ibf.init_rinv A B m0 hok
  unfold isectBUFrom at h
  simp only at h
  split at h
  · cases h
  · rename_i m1 rs fs hl
    simp only [Option.some.injEq, Prod.mk.injEq] at h
    obtain ⟨rfl, rfl⟩ := h
    obtain ⟨ns, hp, hr⟩ := Ibf.loop_rinv fuel _ _ _ _ _ m1 rs fs hinit.2 hrinit hl
    -- popped = number in `newStates`
    have hdone : ∀ p, Ibu.Done m1 ns p ↔ (p ∈ m1.dom ∧ ∃ σ, σ ∈ rs ∧ σ.parent = lookupF m1 p) := by
      intro p
      constructor
      · rintro ⟨n, h1, h2⟩
        obtain ⟨σ, g1, g2⟩ := hr.n1 n h2
        exact ⟨mem_dom_iff.mpr ⟨n, h1⟩, σ, g1, by simp only [g2, lookupF, h1, Option.getD_some]⟩
      · rintro ⟨hpd, σ, g1, g2⟩
        obtain ⟨n, hn⟩ := mem_dom_iff.mp hpd
        obtain ⟨r, r', _, _, ⟨n', d1, d3⟩, _, he⟩ := hr.r1 σ g1
        rcases d3 with d3 | d3
        · simp at d3
        · refine ⟨n, hn, ?_⟩
          have : n = n' := by
            have e1 : σ.parent = n' := by rw [he]; simp only [PRule, lookupF, d1, Option.getD_some]
            have e2 : lookupF m1 p = n := by simp only [lookupF, hn, Option.getD_some]
            rw [← e2, ← g2, e1]
          rw [this]; exact d3
    constructor
    · intro ρ
      constructor
      · intro hρ
        obtain ⟨r, r', hm, hk, _, hd, he⟩ := hr.r1 ρ hρ
        refine ⟨r, r', hm, hk, ?_, he⟩
        rcases hd with hd | ⟨x, hx, hd⟩
        · exact Or.inl hd
        · exact Or.inr ⟨x, hx, (hdone x).mp hd⟩
      · rintro ⟨r, r', hm, hk, hd, he⟩
        rw [he]
        refine (hr.r2 r r' hm hk ?_ (fun x _ n hn => by simp at hn)).2
        rcases hd with hd | ⟨x, hx, hd⟩
        · exact Or.inl hd
        · exact Or.inr ⟨x, hx, (hdone x).mpr hd⟩
    · intro x
      constructor
      · intro hx
        obtain ⟨pr, g1, g2, g3, g4⟩ := hr.f1 x hx
        rcases g4 with g4 | g4
        · simp at g4
        · obtain ⟨hd1, hd2⟩ := (hdone pr).mp ⟨x, g1, g4⟩
          exact ⟨pr, hd1, hd2, g2, g3, by simp only [lookupF, g1, Option.getD_some]⟩
      · rintro ⟨pr, hd1, hd2, g2, g3, g5⟩
        obtain ⟨n, hn1, hn2⟩ := (hdone pr).mpr ⟨hd1, hd2⟩
        have : x = n := by rw [← g5]; simp only [lookupF, hn1, Option.getD_some]
        rw [this]
        exact hp.fcomplete pr n hn1 hn2 g2 g3

end Vata
