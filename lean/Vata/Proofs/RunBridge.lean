import Vata.Spec
/-!
# Runs as objects (`RunT`) versus the functional run semantics `reach`

`q ∈ reach A t ↔ ∃ ρ, ρ.valid A ∧ ρ.root = q ∧ ρ.tree = t`, and the construction that embeds a valid run below a
top-down reachable state into an accepting run (used for "takes part in an accepting run").
-/
namespace Vata

mutual
theorem run_of_reach (A : TA) : ∀ (t : Tree) (q : Nat), q ∈ reach A t →
    ∃ ρ : RunT, ρ.valid A = true ∧ ρ.root = q ∧ ρ.tree = t
  | .node f ts, q => by
    rw [reach, mem_post']
    rintro ⟨r, hr, hs, hm, hp⟩
    obtain ⟨ρs, hv, ht⟩ := runs_of_match A ts r.kids hm
    refine ⟨.node r ρs, ?_, hp, ?_⟩
    · simp only [RunT.valid, Bool.and_eq_true, List.contains_iff_mem]
      exact ⟨hr, hv⟩
    · simp only [RunT.tree, ht, hs]
theorem runs_of_match (A : TA) : ∀ (ts : List Tree) (ks : List Nat), matchKids ks (reachL A ts) = true →
    ∃ ρs : List RunT, RunT.validL A ρs ks = true ∧ RunT.treeL ρs = ts
  | [], [] => fun _ => ⟨[], rfl, rfl⟩
  | [], _ :: _ => fun h => by simp [reachL, matchKids] at h
  | _ :: _, [] => fun h => by simp [reachL, matchKids] at h
  | t :: ts, k :: ks => fun h => by
    simp only [reachL, matchKids, Bool.and_eq_true, List.contains_iff_mem] at h
    obtain ⟨ρ, hv, hr, ht⟩ := run_of_reach A t k h.1
    obtain ⟨ρs, hvs, hts⟩ := runs_of_match A ts ks h.2
    refine ⟨ρ :: ρs, ?_, ?_⟩
    · simp only [RunT.validL, Bool.and_eq_true, beq_iff_eq]
      exact ⟨⟨hr, hv⟩, hvs⟩
    · simp only [RunT.treeL, ht, hts]
end

mutual
theorem reach_of_run (A : TA) : ∀ ρ : RunT, ρ.valid A = true → ρ.root ∈ reach A ρ.tree
  | .node r ρs => by
    intro h
    simp only [RunT.valid, Bool.and_eq_true, List.contains_iff_mem] at h
    simp only [RunT.root, RunT.tree]
    rw [reach, mem_post']
    exact ⟨r, h.1, rfl, match_of_runs A ρs r.kids h.2, rfl⟩
theorem match_of_runs (A : TA) : ∀ (ρs : List RunT) (ks : List Nat), RunT.validL A ρs ks = true →
    matchKids ks (reachL A (RunT.treeL ρs)) = true
  | [], [] => fun _ => rfl
  | [], _ :: _ => fun h => by simp [RunT.validL] at h
  | _ :: _, [] => fun h => by simp [RunT.validL] at h
  | ρ :: ρs, k :: ks => fun h => by
    simp only [RunT.validL, Bool.and_eq_true, beq_iff_eq] at h
    simp only [RunT.treeL, reachL, matchKids, Bool.and_eq_true, List.contains_iff_mem]
    refine ⟨?_, match_of_runs A ρs ks h.2⟩
    rw [← h.1.1]
    exact reach_of_run A ρ h.1.2
end

/-- the bridge: `reach` collects exactly the roots of the valid runs on the tree -/
theorem reach_iff_run (A : TA) (t : Tree) (q : Nat) :
    q ∈ reach A t ↔ ∃ ρ : RunT, ρ.valid A = true ∧ ρ.root = q ∧ ρ.tree = t := by
  constructor
  · exact run_of_reach A t q
  · rintro ⟨ρ, hv, hr, ht⟩
    rw [← hr, ← ht]
    exact reach_of_run A ρ hv

theorem productive_iff_run (A : TA) (q : Nat) : Productive A q ↔ ∃ ρ : RunT, ρ.valid A = true ∧ ρ.root = q := by
  constructor
  · rintro ⟨t, ht⟩
    obtain ⟨ρ, hv, hr, _⟩ := run_of_reach A t q ht
    exact ⟨ρ, hv, hr⟩
  · rintro ⟨ρ, hv, hr⟩
    exact ⟨ρ.tree, hr ▸ reach_of_run A ρ hv⟩

/-- `accepts` in terms of accepting runs -/
theorem accepts_iff_run (A : TA) (t : Tree) : accepts A t = true ↔ ∃ ρ, AcceptingRun A ρ ∧ ρ.tree = t := by
  simp only [accepts, accepting, List.any_eq_true, List.contains_iff_mem, AcceptingRun]
  constructor
  · rintro ⟨q, hq, hf⟩
    obtain ⟨ρ, hv, hr, ht⟩ := run_of_reach A t q hq
    exact ⟨ρ, ⟨hv, hr ▸ hf⟩, ht⟩
  · rintro ⟨ρ, ⟨hv, hf⟩, ht⟩
    exact ⟨ρ.root, ht ▸ reach_of_run A ρ hv, hf⟩

/-! ### embedding a run into an accepting run -/

/-- runs for a list of productive states -/
theorem exists_runs (A : TA) : ∀ ks : List Nat, (∀ k, k ∈ ks → Productive A k) →
    ∃ ρs : List RunT, RunT.validL A ρs ks = true
  | [], _ => ⟨[], rfl⟩
  | k :: ks, h => by
    obtain ⟨ρ, hv, hr⟩ := (productive_iff_run A k).mp (h k List.mem_cons_self)
    obtain ⟨ρs, hvs⟩ := exists_runs A ks (fun k' hk' => h k' (List.mem_cons_of_mem _ hk'))
    refine ⟨ρ :: ρs, ?_⟩
    simp only [RunT.validL, Bool.and_eq_true, beq_iff_eq]
    exact ⟨⟨hr, hv⟩, hvs⟩

/-- runs for a list of productive states, with a prescribed run `σ` at some position holding the root of `σ` -/
theorem exists_runs_with (A : TA) (σ : RunT) (hσ : σ.valid A = true) : ∀ ks : List Nat,
    (∀ k, k ∈ ks → Productive A k) → σ.root ∈ ks →
    ∃ ρs : List RunT, RunT.validL A ρs ks = true ∧
      (∀ x, σ.hasState x = true → RunT.hasStateL x ρs = true) ∧ (∀ x, σ.hasRule x = true → RunT.hasRuleL x ρs = true)
  | [], _, hm => by simp at hm
  | k :: ks, h, hm => by
    by_cases hk : σ.root = k
    · obtain ⟨ρs, hvs⟩ := exists_runs A ks (fun k' hk' => h k' (List.mem_cons_of_mem _ hk'))
      refine ⟨σ :: ρs, ?_, ?_, ?_⟩
      · simp only [RunT.validL, Bool.and_eq_true, beq_iff_eq]
        exact ⟨⟨hk, hσ⟩, hvs⟩
      · intro x hx; simp only [RunT.hasStateL, Bool.or_eq_true]; exact Or.inl hx
      · intro x hx; simp only [RunT.hasRuleL, Bool.or_eq_true]; exact Or.inl hx
    · have hm' : σ.root ∈ ks := by
        rcases List.mem_cons.mp hm with h' | h'
        · exact absurd h' hk
        · exact h'
      obtain ⟨ρ, hv, hr⟩ := (productive_iff_run A k).mp (h k List.mem_cons_self)
      obtain ⟨ρs, hvs, h1, h2⟩ := exists_runs_with A σ hσ ks (fun k' hk' => h k' (List.mem_cons_of_mem _ hk')) hm'
      refine ⟨ρ :: ρs, ?_, ?_, ?_⟩
      · simp only [RunT.validL, Bool.and_eq_true, beq_iff_eq]
        exact ⟨⟨hr, hv⟩, hvs⟩
      · intro x hx; simp only [RunT.hasStateL, Bool.or_eq_true]; exact Or.inr (h1 x hx)
      · intro x hx; simp only [RunT.hasRuleL, Bool.or_eq_true]; exact Or.inr (h2 x hx)

/-- if the children of all rules are productive, every valid run whose root is top-down reachable is part of an
accepting run -/
theorem embed_run {A : TA} (hprod : ∀ r, r ∈ A.rules → ∀ k, k ∈ r.kids → Productive A k) {q : Nat}
    (hq : TdReachable A q) : ∀ σ : RunT, σ.valid A = true → σ.root = q →
    ∃ ρ, AcceptingRun A ρ ∧ (∀ x, σ.hasState x = true → ρ.hasState x = true) ∧
      (∀ x, σ.hasRule x = true → ρ.hasRule x = true) := by
  induction hq with
  | final hf =>
    intro σ hv hr
    exact ⟨σ, ⟨hv, hr ▸ hf⟩, fun _ h => h, fun _ h => h⟩
  | @step r k hr _ hk ih =>
    intro σ hv hroot
    obtain ⟨ρs, hvs, h1, h2⟩ := exists_runs_with A σ hv r.kids (hprod r hr) (hroot ▸ hk)
    have hv' : (RunT.node r ρs).valid A = true := by
      simp only [RunT.valid, Bool.and_eq_true, List.contains_iff_mem]
      exact ⟨hr, hvs⟩
    obtain ⟨ρ, hacc, h3, h4⟩ := ih (.node r ρs) hv' rfl
    refine ⟨ρ, hacc, ?_, ?_⟩
    · intro x hx
      apply h3
      simp only [RunT.hasState, Bool.or_eq_true]
      exact Or.inr (h1 x hx)
    · intro x hx
      apply h4
      simp only [RunT.hasRule, Bool.or_eq_true]
      exact Or.inr (h2 x hx)

theorem RunT.hasState_root (ρ : RunT) : ρ.hasState ρ.root = true := by
  cases ρ with
  | node r ks => simp [RunT.hasState, RunT.root]

/-- a productive, top-down reachable state of an automaton whose rule children are all productive is useful -/
theorem useful_state_of {A : TA} (hprod : ∀ r, r ∈ A.rules → ∀ k, k ∈ r.kids → Productive A k) {q : Nat}
    (hq : TdReachable A q) (hp : Productive A q) : UsefulState A q := by
  obtain ⟨σ, hv, hr⟩ := (productive_iff_run A q).mp hp
  obtain ⟨ρ, hacc, h1, _⟩ := embed_run hprod hq σ hv hr
  exact ⟨ρ, hacc, h1 q (hr ▸ σ.hasState_root)⟩

/-- a rule with top-down reachable parent of an automaton whose rule children are all productive is useful -/
theorem useful_rule_of {A : TA} (hprod : ∀ r, r ∈ A.rules → ∀ k, k ∈ r.kids → Productive A k) {r : Rule}
    (hr : r ∈ A.rules) (hq : TdReachable A r.parent) : UsefulRule A r := by
  obtain ⟨ρs, hvs⟩ := exists_runs A r.kids (hprod r hr)
  have hv' : (RunT.node r ρs).valid A = true := by
    simp only [RunT.valid, Bool.and_eq_true, List.contains_iff_mem]
    exact ⟨hr, hvs⟩
  obtain ⟨ρ, hacc, _, h2⟩ := embed_run hprod hq (.node r ρs) hv' rfl
  refine ⟨ρ, hacc, h2 r ?_⟩
  simp [RunT.hasRule]

end Vata
