import Vata.CowInterned2
import Vata.Proofs.CowInternedStep
/-!
# Named automata over one tuple cache, part 2 – move and the storage-sharing results: the threaded primitives

1. every new threaded primitive of `Vata/CowInterned2.lean` acts on the heap exactly like the core operation of
   `Vata/CowHeapX.lean` (`…_fst`);
2. it keeps the cache consistent with the live tuple-set nodes and the outside holders (`CI`) and creates no cache entry
   (`Sub`) – `…_ok`;
3. the value-level specification of the new calls keeps "tuple sets hold cells" (`cellsV_step2`) and commutes with
   dereferencing (`specStepX_map_simple2`); `frame2`.
-/
namespace Vata.CowI
open Vata.Store (upsert insN insTuple TupleSet addToMap addToCluster)
open Vata.CowHeap (upd upd_same upd_other)
open Vata.CowHeap3 (Heap allocMap incMap retarget addHandle dropHandle releaseMap uniqueMap valM valC mout cout
  InvP Inv hmap_mem)
open Vata.CowHeapX (HeapX stepX absX specStepX specInitX InvX ValX HOpX absX_of_mem absX_of_not_mem insertEntries missing
  moveCore moveAssignCore shareAllCore shareClustersCore unionDisjCore freshMap unionStore)
open Vata.StoreI (CacheSt lookupC acquireC releaseC derefC CInv)

/-! ### 1. heap projections -/

theorem moveI_fst (S : HC) (src dst : Nat) : (moveI S src dst).1 = moveCore S.1 src dst := rfl

theorem moveAssignI_fst (S : HC) (src dst : Nat) : (moveAssignI S src dst).1 = moveAssignCore S.1 src dst := by
  unfold moveAssignI moveAssignCore
  rw [releaseMapI_fst]

theorem shareAllI_fst (S : HC) (src dst : Nat) : (shareAllI S src dst).1 = shareAllCore S.1 src dst := by
  unfold shareAllI shareAllCore
  rw [assignI_fst]

theorem freshMapI_fst (S : HC) (h : Nat) : (freshMapI S h).1 = freshMap S.1 h := by
  unfold freshMapI freshMap
  rw [releaseMapI_fst]

theorem shareClustersI_fst (S : HC) (src dst : Nat) (keep : Nat → Bool) :
    (shareClustersI S src dst keep).1 = shareClustersCore S.1 src dst keep := by
  unfold shareClustersI shareClustersCore
  simp only
  rw [freshMapI_fst]

theorem unionDisjI_fst (S : HC) (a b dst : Nat) : (unionDisjI S a b dst).1 = unionDisjCore S.1 a b dst := by
  unfold unionDisjI unionDisjCore
  simp only
  rw [uniqueMapI_fst]

/-! ### 2. the cache stays consistent -/

variable {E : List Nat}

theorem refsT_insertEntries (H : Heap) (m : Nat) (ins : List (Nat × Nat)) : refsT (insertEntries H m ins) = refsT H := rfl

theorem refsT_moveCore (H : Heap) (src dst : Nat) : refsT (moveCore H src dst) = refsT H := rfl

theorem refsT_step_new (H : Heap) (dst : Nat) : refsT (CowHeap3.step H (.new dst)) = refsT H := by
  simp only [CowHeap3.step]
  split <;> rfl

theorem refsT_step_copy (H : Heap) (a dst : Nat) : refsT (CowHeap3.step H (.copy a dst)) = refsT H := by
  simp only [CowHeap3.step]
  split <;> rfl

/-- move construction touches no use count at all -/
theorem moveI_ok {S : HC} (_hI : Inv S.1) {src dst : Nat} (_hs : src ∈ S.1.hl) (_hd : dst ∉ S.1.hl) (hc : CI S E) :
    CI (moveI S src dst) E ∧ Sub (moveI S src dst).2 S.2 :=
  ⟨hc, Sub.refl _⟩

theorem moveAssignI_ok {S : HC} (hI : Inv S.1) {src dst : Nat} (hs : src ∈ S.1.hl) (hd : dst ∈ S.1.hl) (hne : src ≠ dst)
    (hc : CI S E) : CI (moveAssignI S src dst) E ∧ Sub (moveAssignI S src dst).2 S.2 := by
  unfold moveAssignI
  have h1 := CowHeap3.dropHandle_inv hI hs
  have hd' : dst ∈ (dropHandle S.1 src).hl := (List.mem_erase_of_ne (fun e => hne e.symm)).mpr hd
  have h2 := CowHeap3.retarget_inv (h := dst) h1 hd'
  have := releaseMapI_ok (S := (retarget (dropHandle S.1 src) dst (S.1.hmap src), S.2)) (E := E) h2 hc
  exact ⟨this.1, this.2.1⟩

theorem shareAllI_ok {S : HC} (hI : Inv S.1) {src dst : Nat} (_hs : src ∈ S.1.hl) (hd : dst ∉ S.1.hl) (hc : CI S E) :
    CI (shareAllI S src dst) E ∧ Sub (shareAllI S src dst).2 S.2 := by
  unfold shareAllI
  have h1 := (CowHeapX.step_new_dead hI hd).1
  have hc1 : CI (CowHeap3.step S.1 (.new dst), S.2) E := by
    unfold CI
    rw [refsT_step_new]
    exact hc
  exact assignI_ok (S := (CowHeap3.step S.1 (.new dst), S.2)) h1 hc1 src dst

theorem freshMapI_ok {S : HC} (hI : Inv S.1) {h : Nat} (hh : h ∈ S.1.hl) (hc : CI S E) :
    CI (freshMapI S h) E ∧ Sub (freshMapI S h).2 S.2 := by
  unfold freshMapI
  have h1 : InvP (allocMap S.1 []) [S.1.next] [] [] :=
    CowHeap3.allocMap_inv hI [] (by intro c hc; simp at hc)
  have h2 := CowHeap3.retarget_inv (h := h) h1 hh
  have := releaseMapI_ok (S := (retarget (allocMap S.1 []) h S.1.next, S.2)) (E := E) h2 hc
  exact ⟨this.1, this.2.1⟩

theorem mem_step_new (H : Heap) (dst : Nat) : dst ∈ (CowHeap3.step H (.new dst)).hl := by
  simp only [CowHeap3.step]
  split
  · assumption
  · exact List.mem_cons_self

theorem shareClustersI_ok {S : HC} (hI : Inv S.1) {src dst : Nat} (_hs : src ∈ S.1.hl) (hd : dst ∉ S.1.hl)
    (keep : Nat → Bool) (hc : CI S E) :
    CI (shareClustersI S src dst keep) E ∧ Sub (shareClustersI S src dst keep).2 S.2 := by
  unfold shareClustersI
  simp only
  have h1 := (CowHeapX.step_new_dead hI hd).1
  have hc1 : CI (CowHeap3.step S.1 (.new dst), S.2) E := by
    unfold CI
    rw [refsT_step_new]
    exact hc
  obtain ⟨a1, a2⟩ := freshMapI_ok (S := (CowHeap3.step S.1 (.new dst), S.2)) h1 (mem_step_new S.1 dst) hc1
  exact ⟨a1, a2⟩

theorem mem_step_copy {H : Heap} {a dst : Nat} (ha : a ∈ H.hl) (hd : dst ∉ H.hl) :
    dst ∈ (CowHeap3.step H (.copy a dst)).hl := by
  simp only [CowHeap3.step]
  rw [if_pos ⟨ha, hd⟩]
  exact List.mem_cons_self

theorem unionDisjI_ok {S : HC} (hI : Inv S.1) {a b dst : Nat} (ha : a ∈ S.1.hl) (_hb : b ∈ S.1.hl) (hd : dst ∉ S.1.hl)
    (hc : CI S E) : CI (unionDisjI S a b dst) E ∧ Sub (unionDisjI S a b dst).2 S.2 := by
  unfold unionDisjI
  simp only
  have h1 := (CowHeapX.step_copy_live hI ha hd).1
  have hc1 : CI (CowHeap3.step S.1 (.copy a dst), S.2) E := by
    unfold CI
    rw [refsT_step_copy]
    exact hc
  obtain ⟨a1, a2⟩ := uniqueMapI_ok (S := (CowHeap3.step S.1 (.copy a dst), S.2)) h1 (mem_step_copy ha hd) hc1
  exact ⟨a1, a2⟩

/-! ### 3. the value level: cells, dereferencing -/

/-- the calls of the value level that `stepC2` performs at the level of cells -/
def cellOp2 : HOpX → Prop
  | .move _ _ => True
  | .moveAssign _ _ => True
  | .shareAll _ _ _ => True
  | .shareClusters _ _ _ => True
  | .unionDisj _ _ _ => True
  | op => cellOp op

theorem cellOp_cellOp2 {op : HOpX} (h : cellOp op) : cellOp2 op := by
  cases op <;> first | exact h | trivial

theorem cellsS_of_sub {s s' : Store.Store} (h : CellsS s) (hsub : ∀ qc, qc ∈ s'.clusters → qc ∈ s.clusters) :
    CellsS s' := fun qc hqc => h qc (hsub qc hqc)

theorem cellsS_union {s t : Store.Store} (hs : CellsS s) (ht : CellsS t) : CellsS (unionStore s t) := by
  intro qc hqc
  rcases List.mem_append.1 hqc with h | h
  · exact hs qc h
  · exact ht qc (CowHeapX.mem_missing h)

theorem cellsV_step2 {a : Nat → Option ValX} (ha : CellsV a) {op : HOpX} (hop : cellOp2 op) :
    CellsV (specStepX a op) := by
  cases op with
  | move src dst =>
    simp only [specStepX]
    split
    · exact cellsV_upd (cellsV_upd ha src (fun s hs => by cases hs)) dst (fun s hs => ha src s hs)
    · exact ha
  | moveAssign src dst =>
    simp only [specStepX]
    split
    · exact cellsV_upd (cellsV_upd ha src (fun s hs => by cases hs)) dst (fun s hs => ha src s hs)
    · exact ha
  | shareAll src dst keepF =>
    simp only [specStepX]
    split
    · apply cellsV_upd ha
      intro s hs
      cases hsrc : a src with
      | none => simp [hsrc] at hs
      | some s0 =>
        simp only [hsrc, Option.map_some, Option.some.injEq] at hs
        rw [← hs]
        exact cellsS_of_sub (ha src s0 hsrc) (fun qc hqc => hqc)
    · exact ha
  | shareClusters src dst keep =>
    simp only [specStepX]
    split
    · apply cellsV_upd ha
      intro s hs
      cases hsrc : a src with
      | none => simp [hsrc] at hs
      | some s0 =>
        simp only [hsrc, Option.map_some, Option.some.injEq] at hs
        rw [← hs]
        exact cellsS_of_sub (ha src s0 hsrc) (fun qc hqc => (List.mem_filter.1 hqc).1)
    · exact ha
  | unionDisj x y dst =>
    simp only [specStepX]
    cases hx : a x with
    | none => exact ha
    | some s =>
      cases hy : a y with
      | none => exact ha
      | some t =>
        simp only
        split
        · exact cellsV_upd ha dst (fun u hu => by
            rw [← Option.some.inj hu]; exact cellsS_union (ha x s hx) (ha y t hy))
        · exact ha
  | new h => exact cellsV_step ha hop
  | copy src dst ct cf => exact cellsV_step ha hop
  | assign src dst => exact cellsV_step ha hop
  | add h q v => exact cellsV_step ha hop
  | setFinal h q => exact cellsV_step ha hop
  | clear h => exact cellsV_step ha hop
  | destroy h => exact cellsV_step ha hop
  | setFinals _ _ => cases hop
  | eraseFinal _ => cases hop

/-- the calls that do not look at tuples -/
def simpleOp2 : HOpX → Prop
  | .move _ _ => True
  | .moveAssign _ _ => True
  | .shareAll _ _ _ => True
  | .shareClusters _ _ _ => True
  | .unionDisj _ _ _ => True
  | op => simpleOp op

theorem simpleOp_simpleOp2 {op : HOpX} (h : simpleOp op) : simpleOp2 op := by
  cases op <;> first | exact h | trivial

theorem simpleOp2_cellOp2 {op : HOpX} (h : simpleOp2 op) : cellOp2 op := by
  cases op <;> first | trivial | exact cellOp_cellOp2 (simpleOp_cellOp h)

/-- `derefS` on the clusters of a value: keys are kept -/
def derefCl (c : CacheSt) (cl : Store.Cluster) : Store.Cluster := cl.map (fun ft => (ft.1, ft.2.map (derefCell c)))

theorem derefS_eq (c : CacheSt) (s : Store.Store) :
    derefS c s = ⟨s.clusters.map (fun qc => (qc.1, derefCl c qc.2)), s.final⟩ := rfl

theorem derefS_union (c : CacheSt) (s t : Store.Store) :
    derefS c (unionStore s t) = unionStore (derefS c s) (derefS c t) := by
  simp only [derefS_eq, unionStore, Store.setFinals]
  rw [List.map_append, CowHeapX.missing_map (derefCl c)]

theorem derefS_filter (c : CacheSt) (s : Store.Store) (keep : Nat → Bool) :
    derefS c ⟨s.clusters.filter (fun kc => keep kc.1), s.final⟩ =
      ⟨(derefS c s).clusters.filter (fun kc => keep kc.1), (derefS c s).final⟩ := by
  simp only [derefS_eq]
  rw [List.filter_map]
  rfl

theorem specStepX_map_simple2 (c : CacheSt) (a : Nat → Option ValX) {op : HOpX} (hop : simpleOp2 op) :
    (fun k => (specStepX a op k).map (derefS c)) = specStepX (fun k => (a k).map (derefS c)) op := by
  cases op with
  | move src dst =>
    simp only [specStepX, Option.isSome_map, Option.isNone_map]
    split
    · rw [map_upd, map_upd]; rfl
    · rfl
  | moveAssign src dst =>
    simp only [specStepX, Option.isSome_map]
    split
    · rw [map_upd, map_upd]; rfl
    · rfl
  | shareAll src dst keepF =>
    simp only [specStepX, Option.isSome_map, Option.isNone_map]
    split
    · rw [map_upd]
      congr 1
      cases a src <;> rfl
    · rfl
  | shareClusters src dst keep =>
    simp only [specStepX, Option.isSome_map, Option.isNone_map]
    split
    · rw [map_upd]
      congr 1
      cases a src with
      | none => rfl
      | some s0 =>
        simp only [Option.map_some]
        rw [derefS_filter]
    · rfl
  | unionDisj x y dst =>
    simp only [specStepX]
    cases hx : a x with
    | none => simp only [Option.map_none]
    | some s =>
      cases hy : a y with
      | none => simp only [Option.map_some, Option.map_none]
      | some t =>
        simp only [Option.map_some, Option.isNone_map]
        split
        · rw [map_upd, Option.map_some, derefS_union]
        · rfl
  | new h => exact specStepX_map_simple c a hop
  | copy src dst ct cf => exact specStepX_map_simple c a hop
  | assign src dst => exact specStepX_map_simple c a hop
  | setFinal h q => exact specStepX_map_simple c a hop
  | clear h => exact specStepX_map_simple c a hop
  | destroy h => exact specStepX_map_simple c a hop
  | add _ _ _ => cases hop
  | setFinals _ _ => cases hop
  | eraseFinal _ => cases hop

/-- `frame` of `CowInternedStep.lean` for the calls of `stepC2`: a call that acts on the heap as `stepX … op'` and on the
    cache by acquire / release steps from `c₀` -/
theorem frame2 {HX : HeapX} (hI : InvX HX) (hcv : CellsV (absX HX)) {c₀ : CacheSt} {R₀ : List Nat} (h0 : CInv c₀ R₀)
    {op' : HOpX} (hop : cellOp2 op') {c' : CacheSt} {E' : List Nat} (hci : CI ((stepX HX op').core, c') E')
    (hsub : Sub c' c₀) :
    Inv' ⟨stepX HX op', c', E'⟩ ∧
      absV ⟨stepX HX op', c', E'⟩ = fun k => (specStepX (absX HX) op' k).map (derefS c₀) := by
  obtain ⟨e, hI'⟩ := CowHeapX.cowX_refines_values hI op'
  refine ⟨⟨hI', hci, by rw [e]; exact cellsV_step2 hcv hop⟩, ?_⟩
  funext k
  show (absX (stepX HX op') k).map (derefS c') = _
  rw [absX_map_congr hI' (fun id hid => deref_of_sub h0 hci hsub (List.mem_append_left _ hid)) k, e]

end Vata.CowI
