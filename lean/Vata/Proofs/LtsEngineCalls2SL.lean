import Vata.Proofs.LtsEngineCalls2
import Vata.Proofs.LtsUtilSL2
/-!
# The `SharedList` call discipline of the LTS engine: the invariant and the single calls

`SI L e A d`: the value `A` of the `SharedList` world (`SL.A`: one optional list of segments per handle, the detached list) has
`nSlots L` handles, handle `slot L b a` is non-null exactly when `remove_[a]` of block `b` is non-null in the engine state `e`,
a list is detached iff `d`, and non-null handles of `e` belong to existing blocks and to labels `< labels L`.
`G L e t d`: the history `t.sl` is inside `SL.ok` and leads to such a value.
-/
namespace Vata.LEC2
open Vata.L Vata.LE Vata.LU Vata.LEC

theorem sl_okAll_append : ∀ (t u : List SL.Op) (A : SL.A),
    SL.okAll A (t ++ u) = (SL.okAll A t && SL.okAll (SL.aRun A t) u)
  | [], _, _ => by simp [SL.okAll, SL.aRun]
  | op :: t, u, A => by simp [SL.okAll, SL.aRun, sl_okAll_append t u, Bool.and_assoc]

theorem sl_aRun_append : ∀ (t u : List SL.Op) (A : SL.A), SL.aRun A (t ++ u) = SL.aRun (SL.aRun A t) u
  | [], _, _ => rfl
  | op :: t, u, A => by simp [SL.aRun, sl_aRun_append t u]

theorem foldl_inv {σ α : Type} (Q : σ → Prop) (f : σ → α → σ) : ∀ (l : List α) (s : σ),
    (∀ s x, x ∈ l → Q s → Q (f s x)) → Q s → Q (l.foldl f s)
  | [], _, _, h => h
  | x :: l, s, hf, h => foldl_inv Q f l (f s x) (fun s y hy => hf s y (List.mem_cons_of_mem _ hy)) (hf s x List.mem_cons_self h)

/-! ### handles -/

theorem slot_lt {L : LTS} {b a : Nat} (hb : b < L.n) (ha : a < labels L) : slot L b a < nSlots L := by
  unfold slot nSlots
  have h1 : (b + 1) * labels L ≤ L.n * labels L := Nat.mul_le_mul_right _ hb
  rw [Nat.succ_mul] at h1
  omega

theorem slot_inj {L : LTS} {b a b' a' : Nat} (ha : a < labels L) (ha' : a' < labels L) (h : slot L b a = slot L b' a') :
    b = b' ∧ a = a' := by
  unfold slot at h
  have key : ∀ {x y u v : Nat}, u < labels L → x < y → x * labels L + u < y * labels L + v := by
    intro x y u v hu hxy
    have h1 : (x + 1) * labels L ≤ y * labels L := Nat.mul_le_mul_right _ hxy
    rw [Nat.succ_mul] at h1
    omega
  rcases Nat.lt_trichotomy b b' with hlt | heq | hgt
  · have := key (v := a') ha hlt; omega
  · subst heq; exact ⟨rfl, by omega⟩
  · have := key (v := a) ha' hgt; omega

/-- handle `s` is non-null -/
def sh (A : SL.A) (s : Nat) : Bool := (A.slots.getD s none).isSome

theorem sh_set (A : SL.A) (s : Nat) (v : Option SL.RemList) (hs : s < A.slots.length) (k : Nat) :
    ((A.slots.set s v).getD k none).isSome = if k = s then v.isSome else sh A k := by
  unfold sh
  simp only [List.getD_eq_getElem?_getD]
  by_cases hk : k = s
  · subst hk; rw [if_pos rfl, List.getElem?_set_self hs]; rfl
  · rw [if_neg hk, List.getElem?_set_ne (fun h => hk h.symm)]

structure SI (L : LTS) (e : Eng) (A : SL.A) (d : Bool) : Prop where
  len : A.slots.length = nSlots L
  det : A.detached.isSome = d
  shp : ∀ b a, b < L.n → a < labels L → sh A (slot L b a) = (e.remv b a).isSome
  bnd : ∀ b a, (e.remv b a).isSome = true → b < e.part.length ∧ a < labels L

theorem SI.congr {L : LTS} {e e' : Eng} {A : SL.A} {d : Bool} (h : SI L e A d) (h1 : e'.rem = e.rem)
    (h2 : e'.part.length = e.part.length) : SI L e' A d := by
  have hr : ∀ b a, e'.remv b a = e.remv b a := fun b a => by simp only [Eng.remv, h1]
  refine ⟨h.len, h.det, fun b a hb ha => by rw [hr]; exact h.shp b a hb ha, fun b a hs => ?_⟩
  rw [hr] at hs; rw [h2]; exact h.bnd b a hs

/-- one handle changes -/
theorem SI.upd {L : LTS} {e e' : Eng} {A A' : SL.A} {d d' : Bool} (h : SI L e A d) {b a : Nat}
    {v : Option SL.RemList} {r : Option RemList} (hb : b < L.n) (ha : a < labels L)
    (hs : A'.slots = A.slots.set (slot L b a) v) (hd : A'.detached.isSome = d')
    (hr : ∀ i a', e'.remv i a' = if i = b ∧ a' = a then r else e.remv i a')
    (hv : v.isSome = r.isSome) (hbp : r.isSome = true → b < e'.part.length) (hp : e.part.length ≤ e'.part.length) :
    SI L e' A' d' := by
  have hlt : slot L b a < A.slots.length := by rw [h.len]; exact slot_lt hb ha
  refine ⟨by rw [hs, List.length_set]; exact h.len, hd, ?_, ?_⟩
  · intro b' a' hb' ha'
    show (A'.slots.getD _ none).isSome = _
    rw [hs, sh_set A _ v hlt, hr]
    by_cases hk : b' = b ∧ a' = a
    · rw [if_pos hk, if_pos (by rw [hk.1, hk.2])]; exact hv
    · rw [if_neg hk, if_neg (fun heq => hk (slot_inj ha' ha heq))]
      exact h.shp b' a' hb' ha'
  · intro b' a' hsome
    rw [hr] at hsome
    by_cases hk : b' = b ∧ a' = a
    · rw [if_pos hk] at hsome
      rw [hk.1, hk.2]; exact ⟨hbp hsome, ha⟩
    · rw [if_neg hk] at hsome
      exact ⟨Nat.lt_of_lt_of_le (h.bnd b' a' hsome).1 hp, (h.bnd b' a' hsome).2⟩

/-- the history so far is inside the discipline and leads to a value that shows the handles of the engine state -/
def G (L : LTS) (e : Eng) (t : Tr2) (d : Bool) : Prop :=
  SL.okAll (SL.A.mk0 (nSlots L)) t.sl = true ∧ SI L e (SL.aRun (SL.A.mk0 (nSlots L)) t.sl) d

theorem G.add {L : LTS} {e e' : Eng} {t : Tr2} {d d' : Bool} {ops : List SL.Op} (g : G L e t d)
    (h : SL.okAll (SL.aRun (SL.A.mk0 (nSlots L)) t.sl) ops = true ∧
      SI L e' (SL.aRun (SL.aRun (SL.A.mk0 (nSlots L)) t.sl) ops) d') : G L e' (t.addSL ops) d' := by
  refine ⟨?_, ?_⟩
  · show SL.okAll _ (t.sl ++ ops) = true
    rw [sl_okAll_append, g.1, h.1]; rfl
  · show SI L e' (SL.aRun _ (t.sl ++ ops)) d'
    rw [sl_aRun_append]; exact h.2

theorem G.congr {L : LTS} {e e' : Eng} {t t' : Tr2} {d : Bool} (g : G L e t d) (h1 : e'.rem = e.rem)
    (h2 : e'.part.length = e.part.length) (h3 : t'.sl = t.sl) : G L e' t' d := by
  unfold G; rw [h3]; exact ⟨g.1, g.2.congr h1 h2⟩

/-! ### the single calls -/

theorem sl_aRun_single (A : SL.A) (op : SL.Op) : SL.aRun A [op] = SL.aStep A op := rfl

theorem sl_okAll_single (A : SL.A) (op : SL.Op) : SL.okAll A [op] = SL.ok A op := by simp [SL.okAll]

theorem aStep_append_slots (A : SL.A) (s x : Nat) :
    ∃ r, (SL.aStep A (.append s x)).slots = A.slots.set s (some r) ∧ (SL.aStep A (.append s x)).detached = A.detached := by
  simp only [SL.aStep]
  split
  · exact ⟨_, rfl, rfl⟩
  · exact ⟨_, rfl, rfl⟩
  · split
    · exact ⟨_, rfl, rfl⟩
    · exact ⟨_, rfl, rfl⟩

/-- `RemoveList::append(block->remove_[label], state, removeAllocator_)` -/
theorem append_good {L : LTS} {e e' : Eng} {t : Tr2} {d : Bool} (g : G L e t d) {b a q : Nat} (hb : b < e.part.length)
    (hn : e.part.length ≤ L.n) (ha : a < labels L) (hp : e'.part = e.part)
    (hr : ∀ i a', ¬ (i = b ∧ a' = a) → e'.remv i a' = e.remv i a') (hs : (e'.remv b a).isSome = true) :
    G L e' (t.addSL [SL.Op.append (slot L b a) q]) d := by
  have hbn : b < L.n := Nat.lt_of_lt_of_le hb hn
  obtain ⟨r, h1, h2⟩ := aStep_append_slots (SL.aRun (SL.A.mk0 (nSlots L)) t.sl) (slot L b a) q
  refine g.add ⟨?_, ?_⟩
  · rw [sl_okAll_single]
    simp only [SL.ok, decide_eq_true_eq]
    rw [g.2.len]; exact slot_lt hbn ha
  · rw [sl_aRun_single]
    refine g.2.upd (r := e'.remv b a) hbn ha h1 (by rw [h2]; exact g.2.det) ?_ (by rw [hs]; rfl)
      (fun _ => by rw [hp]; exact hb) (by rw [hp]; exact Nat.le_refl _)
    intro i a'
    by_cases hk : i = b ∧ a' = a
    · rw [if_pos hk, hk.1, hk.2]
    · rw [if_neg hk]; exact hr i a' hk

/-- `b1->remove_[a] = new RemoveList(new std::vector<size_t>(s.begin(), s.end()))` -/
theorem newList_good {L : LTS} {e e' : Eng} {t : Tr2} {d : Bool} (g : G L e t d) {b a : Nat} {s : List Nat} {r : RemList}
    (hb : b < e.part.length) (hn : e.part.length ≤ L.n) (ha : a < labels L) (hp : e'.part = e.part)
    (hnone : e.remv b a = none) (hne : s.isEmpty = false)
    (hr : ∀ i a', e'.remv i a' = if i = b ∧ a' = a then some r else e.remv i a') :
    G L e' (t.addSL [SL.Op.newList (slot L b a) s]) d := by
  have hbn : b < L.n := Nat.lt_of_lt_of_le hb hn
  refine g.add ⟨?_, ?_⟩
  · have h0 := g.2.shp b a hbn ha
    rw [hnone] at h0
    rw [sl_okAll_single]
    simp only [SL.ok, Bool.and_eq_true, decide_eq_true_eq, hne, Bool.not_false, and_true]
    refine ⟨by rw [g.2.len]; exact slot_lt hbn ha, ?_⟩
    have : sh (SL.aRun (SL.A.mk0 (nSlots L)) t.sl) (slot L b a) = false := h0
    unfold sh at this
    rw [Option.isNone_iff_eq_none]
    cases hx : (SL.aRun (SL.A.mk0 (nSlots L)) t.sl).slots.getD (slot L b a) none with
    | none => rfl
    | some x => rw [hx] at this; cases this
  · rw [sl_aRun_single]
    exact g.2.upd (r := some r) hbn ha rfl g.2.det hr rfl (fun _ => by rw [hp]; exact hb) (by rw [hp]; exact Nat.le_refl _)

/-- `remove = block->remove_[label]; block->remove_[label] = nullptr;` (and the iteration of `*remove`) -/
theorem take_good {L : LTS} {e e' : Eng} {t : Tr2} (g : G L e t false) {b a : Nat}
    (hn : e.part.length ≤ L.n) (hp : e'.part = e.part) (hsome : (e.remv b a).isSome = true)
    (hr : ∀ i a', e'.remv i a' = if i = b ∧ a' = a then none else e.remv i a') :
    G L e' (t.addSL [SL.Op.take (slot L b a)]) true := by
  obtain ⟨hb, ha⟩ := g.2.bnd b a hsome
  have hbn : b < L.n := Nat.lt_of_lt_of_le hb hn
  have h0 := g.2.shp b a hbn ha
  rw [hsome] at h0
  refine g.add ⟨?_, ?_⟩
  · have hd := g.2.det
    rw [sl_okAll_single]
    simp only [SL.ok, Bool.and_eq_true, decide_eq_true_eq]
    refine ⟨⟨by rw [g.2.len]; exact slot_lt hbn ha, h0⟩, ?_⟩
    cases hx : (SL.aRun (SL.A.mk0 (nSlots L)) t.sl).detached with
    | none => rfl
    | some x => rw [hx] at hd; cases hd
  · rw [sl_aRun_single]
    refine g.2.upd (r := none) (v := none) hbn ha rfl ?_ hr rfl (fun h => by cases h) (by rw [hp]; exact Nat.le_refl _)
    show ((SL.aRun (SL.A.mk0 (nSlots L)) t.sl).slots.getD (slot L b a) none).isSome = true
    exact h0

/-- `remove->unsafeRelease(…)` -/
theorem release_good {L : LTS} {e : Eng} {t : Tr2} (g : G L e t true) : G L e (t.addSL [SL.Op.release]) false := by
  refine g.add ⟨?_, ?_⟩
  · rw [sl_okAll_single]
    exact g.2.det
  · exact ⟨g.2.len, rfl, g.2.shp, g.2.bnd⟩

/-! ### the copies made by `split` for one new block -/

theorem copies_ok (c : Nat → Bool) (src dst : Nat → Nat) : ∀ (ls : List Nat) (A : SL.A),
    (∀ a, a ∈ ls → src a < A.slots.length ∧ dst a < A.slots.length) →
    (∀ a, a ∈ ls → c a = true → sh A (src a) = true) →
    (∀ a, a ∈ ls → sh A (dst a) = false) →
    ls.Nodup → (∀ a a', a ∈ ls → a' ∈ ls → dst a = dst a' → a = a') →
    (∀ a a', a ∈ ls → a' ∈ ls → src a ≠ dst a') →
    SL.okAll A (ls.filterMap (fun a => if c a then some (SL.Op.copy (src a) (dst a)) else none)) = true ∧
    (SL.aRun A (ls.filterMap (fun a => if c a then some (SL.Op.copy (src a) (dst a)) else none))).slots.length =
      A.slots.length ∧
    (SL.aRun A (ls.filterMap (fun a => if c a then some (SL.Op.copy (src a) (dst a)) else none))).detached = A.detached ∧
    ∀ s, sh (SL.aRun A (ls.filterMap (fun a => if c a then some (SL.Op.copy (src a) (dst a)) else none))) s =
      (sh A s || ls.any (fun a => c a && s == dst a))
  | [], A, _, _, _, _, _, _ => by simp [SL.okAll, SL.aRun]
  | a :: ls, A, hlen, hsrc, hdst, hnd, hinj, hsd => by
    have hnd' := List.nodup_cons.mp hnd
    by_cases hc : c a = true
    · simp only [List.filterMap_cons, hc, if_true]
      have hl := hlen a List.mem_cons_self
      have hsa := hsrc a List.mem_cons_self hc
      have hda := hdst a List.mem_cons_self
      have hshA1 : ∀ k, sh (SL.aStep A (.copy (src a) (dst a))) k = if k = dst a then true else sh A k := by
        intro k
        show ((A.slots.set (dst a) (A.slots.getD (src a) none)).getD k none).isSome = _
        rw [sh_set A _ _ hl.2]
        by_cases hk : k = dst a
        · rw [if_pos hk, if_pos hk]; exact hsa
        · rw [if_neg hk, if_neg hk]
      have hlen1 : (SL.aStep A (.copy (src a) (dst a))).slots.length = A.slots.length := by
        show (A.slots.set _ _).length = _
        rw [List.length_set]
      obtain ⟨i1, i2, i3, i4⟩ := copies_ok c src dst ls (SL.aStep A (.copy (src a) (dst a)))
        (fun x hx => by rw [hlen1]; exact hlen x (List.mem_cons_of_mem _ hx))
        (fun x hx hcx => by
          rw [hshA1, if_neg (hsd x a (List.mem_cons_of_mem _ hx) List.mem_cons_self)]
          exact hsrc x (List.mem_cons_of_mem _ hx) hcx)
        (fun x hx => by
          rw [hshA1, if_neg (fun h => hnd'.1 (hinj x a (List.mem_cons_of_mem _ hx) List.mem_cons_self h ▸ hx))]
          exact hdst x (List.mem_cons_of_mem _ hx))
        hnd'.2
        (fun x y hx hy => hinj x y (List.mem_cons_of_mem _ hx) (List.mem_cons_of_mem _ hy))
        (fun x y hx hy => hsd x y (List.mem_cons_of_mem _ hx) (List.mem_cons_of_mem _ hy))
      refine ⟨?_, by rw [SL.aRun, i2, hlen1], by rw [SL.aRun, i3]; rfl, ?_⟩
      · simp only [SL.okAll, SL.ok, Bool.and_eq_true, decide_eq_true_eq]
        refine ⟨⟨⟨⟨hl.1, hl.2⟩, hsa⟩, ?_⟩, i1⟩
        have : sh A (dst a) = false := hda
        unfold sh at this
        cases hx : A.slots.getD (dst a) none with
        | none => rfl
        | some x => rw [hx] at this; cases this
      · intro s
        rw [SL.aRun, i4 s, hshA1, List.any_cons, hc, Bool.true_and]
        by_cases hk : s = dst a
        · subst hk; simp
        · have : (s == dst a) = false := by simpa using hk
          rw [if_neg hk, this, Bool.false_or]
    · have hcf : c a = false := by simpa using hc
      simp only [List.filterMap_cons, hcf, Bool.false_eq_true, if_false]
      obtain ⟨i1, i2, i3, i4⟩ := copies_ok c src dst ls A
        (fun x hx => hlen x (List.mem_cons_of_mem _ hx))
        (fun x hx hcx => hsrc x (List.mem_cons_of_mem _ hx) hcx)
        (fun x hx => hdst x (List.mem_cons_of_mem _ hx))
        hnd'.2
        (fun x y hx hy => hinj x y (List.mem_cons_of_mem _ hx) (List.mem_cons_of_mem _ hy))
        (fun x y hx hy => hsd x y (List.mem_cons_of_mem _ hx) (List.mem_cons_of_mem _ hy))
      refine ⟨i1, i2, i3, ?_⟩
      intro s
      rw [i4 s, List.any_cons, hcf, Bool.false_and, Bool.false_or]

end Vata.LEC2
