import Vata.Proofs.BddUnionCodedTD
/-!
# The bottom-up BDD `Union` / `UnionDisjointStates` as coded (property C08) – part 3

The keys of a bottom-up table are children TUPLES: a tuple `ks` is renumbered to `ks.map f`; the empty tuple stays the empty
tuple for both operands, its MTBDDs (per object) are united at the end.

* `pass_specBU`, `buUnion_rules`, `buUnion_setEq`: the two `ReindexStates` passes and the final `SetMtbdd(StateTuple(), …)`;
* `buUnionFrom_lang_of_maps`, `buUnionFrom_maps_ok`: the coded function;
* `buUnionDisj_rules`: the distinct-tables branch of `UnionDisjointStates`.
-/
namespace Vata
namespace BddUnionCoded
open M BddAbs BddAbsTD Um

theorem map_inj_on (f : Nat → Nat) (S : Nat → Prop) (hf : ∀ q q', S q → S q' → f q = f q' → q = q') :
    ∀ (ks ks' : List Nat), (∀ q, q ∈ ks → S q) → (∀ q, q ∈ ks' → S q) → ks.map f = ks'.map f → ks = ks'
  | [], [], _, _, _ => rfl
  | [], _ :: _, _, _, h => by simp at h
  | _ :: _, [], _, _, h => by simp at h
  | q :: ks, q' :: ks', h1, h2, h => by
    simp only [List.map_cons, List.cons.injEq] at h
    have e1 : q = q' := hf q q' (h1 q List.mem_cons_self) (h2 q' List.mem_cons_self) h.1
    have e2 := map_inj_on f S hf ks ks' (fun x hx => h1 x (List.mem_cons_of_mem _ hx))
      (fun x hx => h2 x (List.mem_cons_of_mem _ hx)) h.2
    rw [e1, e2]

/-! ### the table after a pass -/

theorem get_pureLoopBU_notin (M : SMap) (T : Table) : ∀ (L : List (List Nat × MT)) (R : Table) (ks' : List Nat),
    ks' ∉ L.map (fun e => e.1.map (applyMap M)) → (pureLoopBU M T L R).get ks' = R.get ks'
  | [], _, _, _ => rfl
  | e :: L, R, ks', h => by
    have h1 : e.1.map (applyMap M) ≠ ks' := fun e1 => h (by simp [← e1])
    have h2 : ks' ∉ L.map (fun e => e.1.map (applyMap M)) := fun h2 => h (by
      simp only [List.map_cons, List.mem_cons]; exact Or.inr h2)
    show (pureLoopBU M T L _).get ks' = _
    rw [get_pureLoopBU_notin M T L _ ks' h2, get_set, if_neg h1]

theorem get_pureLoopBU_in (M : SMap) (T : Table) : ∀ (L : List (List Nat × MT)) (R : Table) (ks : List Nat),
    (∀ k k', k ∈ L.map (·.1) → k' ∈ L.map (·.1) → k.map (applyMap M) = k'.map (applyMap M) → k = k') →
    ks ∈ L.map (·.1) → (pureLoopBU M T L R).get (ks.map (applyMap M)) = apply1 (rwBU M) (T.get ks)
  | [], _, _, _, h => by simp at h
  | e :: L, R, ks, hinj, hp => by
    have hsub : ∀ k, k ∈ L.map (·.1) → k ∈ (e :: L).map (·.1) := fun k hk => by
      simp only [List.map_cons, List.mem_cons]; exact Or.inr hk
    show (pureLoopBU M T L _).get _ = _
    by_cases hL : ks ∈ L.map (·.1)
    · exact get_pureLoopBU_in M T L _ ks (fun k k' hk hk' => hinj k k' (hsub k hk) (hsub k' hk')) hL
    · have hpe : ks = e.1 := by
        simp only [List.map_cons, List.mem_cons] at hp
        exact hp.resolve_right hL
      have hn : ks.map (applyMap M) ∉ L.map (fun e => e.1.map (applyMap M)) := by
        intro hm
        obtain ⟨e', he', hqe⟩ := List.mem_map.mp hm
        have : e'.1 = ks := hinj e'.1 ks (hsub _ (List.mem_map_of_mem he')) hp hqe
        exact hL (this ▸ List.mem_map_of_mem he')
      rw [get_pureLoopBU_notin M T L _ _ hn, get_set, hpe, if_pos rfl]

theorem mem_eval_rwBU (M : SMap) (m : MT) (ρ : Nat → Bool) (p' : Nat) :
    p' ∈ eval (apply1 (rwBU M) m) ρ ↔ ∃ p, p ∈ eval m ρ ∧ p' = applyMap M p := by
  rw [apply1_eval, rwBU, InclUp.mem_normS, List.mem_map]
  constructor
  · rintro ⟨p, h, e⟩; exact ⟨p, h, e.symm⟩
  · rintro ⟨p, h, e⟩; exact ⟨p, h, e.symm⟩

/-- the translated rules of `T` -/
def ImgBU (f : Nat → Nat) (T : Table) (ρ : Nat → Bool) (ks' : List Nat) (p' : Nat) : Prop :=
  ∃ ks p, HasRule T ρ ks p ∧ ks' = ks.map f ∧ p' = f p

theorem keys_eq_pairs (T : Table) : (pairs T).map (·.1) = T.keys := rfl

theorem pairs_map_keys (M : SMap) (T : Table) :
    (pairs T).map (fun e => e.1.map (applyMap M)) = T.keys.map (fun k => k.map (applyMap M)) := by
  rw [← keys_eq_pairs, List.map_map]; rfl

/-- one `ReindexStates` table loop into the table `R0` -/
theorem pass_specBU (M : SMap) (T R0 : Table)
    (hinj : ∀ k k', k ∈ T.keys → k' ∈ T.keys → k.map (applyMap M) = k'.map (applyMap M) → k = k')
    (ρ : Nat → Bool) (ks' : List Nat) (p' : Nat) :
    HasRule (pureLoopBU M T (pairs T) R0) ρ ks' p' ↔
      ImgBU (applyMap M) T ρ ks' p' ∨ (ks' ∉ T.keys.map (fun k => k.map (applyMap M)) ∧ HasRule R0 ρ ks' p') := by
  by_cases hk : ks' ∈ T.keys.map (fun k => k.map (applyMap M))
  · obtain ⟨ks, hks, rfl⟩ := List.mem_map.mp hk
    unfold HasRule ImgBU
    rw [get_pureLoopBU_in M T (pairs T) R0 ks hinj hks, mem_eval_rwBU]
    constructor
    · rintro ⟨p, h, e⟩
      exact Or.inl ⟨ks, p, h, rfl, e⟩
    · rintro (⟨ks₀, p, h, e1, e2⟩ | ⟨hn, _⟩)
      · have : ks = ks₀ := hinj ks ks₀ hks (hasRule_key h) e1
        subst this
        exact ⟨p, h, e2⟩
      · exact absurd hk hn
  · unfold HasRule ImgBU
    rw [get_pureLoopBU_notin M T (pairs T) R0 ks' (by rw [pairs_map_keys]; exact hk)]
    constructor
    · intro h; exact Or.inr ⟨hk, h⟩
    · rintro (⟨ks₀, p, h, e1, _⟩ | ⟨_, h⟩)
      · exact absurd (List.mem_map.mpr ⟨ks₀, hasRule_key h, e1.symm⟩) hk
      · exact h

theorem hasRule_set_nil_ne (T : Table) (m : MT) (ρ : Nat → Bool) {ks' : List Nat} (p' : Nat) (h : ks' ≠ []) :
    HasRule (T.set [] m) ρ ks' p' ↔ HasRule T ρ ks' p' := by
  unfold HasRule
  rw [get_set, if_neg (fun e => h e.symm)]

/-- the table `Union` returns (two passes, then the nullary MTBDDs united): exactly the translated rules of both operands,
when the maps are injective on the key tuples and send the non-empty key tuples of the two tables to different tuples -/
theorem buUnion_rules (ML MR : SMap) (T₁ T₂ : Table)
    (h1 : ∀ k k', k ∈ T₁.keys → k' ∈ T₁.keys → k.map (applyMap ML) = k'.map (applyMap ML) → k = k')
    (h2 : ∀ k k', k ∈ T₂.keys → k' ∈ T₂.keys → k.map (applyMap MR) = k'.map (applyMap MR) → k = k')
    (hd : ∀ k k', k ∈ T₁.keys → k' ∈ T₂.keys → k ≠ [] → k.map (applyMap ML) ≠ k'.map (applyMap MR))
    (ρ : Nat → Bool) (ks' : List Nat) (p' : Nat) :
    HasRule (((pureLoopBU MR T₂ (pairs T₂)
        ((pureLoopBU ML T₁ (pairs T₁) Table.empty).set [] (apply1 (rwBU ML) (T₁.get [])))).set []
          (apply1 (rwBU MR) (T₂.get []))).set []
        (apply2 unionS (apply1 (rwBU ML) (T₁.get [])) (apply1 (rwBU MR) (T₂.get [])))) ρ ks' p' ↔
      ImgBU (applyMap ML) T₁ ρ ks' p' ∨ ImgBU (applyMap MR) T₂ ρ ks' p' := by
  by_cases hk : ks' = []
  · subst hk
    have e : ∀ (f : Nat → Nat) (T : Table), ImgBU f T ρ [] p' ↔ ∃ p, p ∈ eval (T.get []) ρ ∧ p' = f p := by
      intro f T
      constructor
      · rintro ⟨ks, p, h, e1, e2⟩
        have : ks = [] := by cases ks with
          | nil => rfl
          | cons => simp at e1
        subst this
        exact ⟨p, h, e2⟩
      · rintro ⟨p, h, e2⟩
        exact ⟨[], p, h, rfl, e2⟩
    unfold HasRule
    rw [get_set, if_pos rfl, apply2_eval, mem_unionS, mem_eval_rwBU, mem_eval_rwBU, e, e]
  · rw [hasRule_set_nil_ne _ _ _ _ hk, hasRule_set_nil_ne _ _ _ _ hk, pass_specBU MR T₂ _ h2,
      hasRule_set_nil_ne _ _ _ _ hk, pass_specBU ML T₁ _ h1]
    constructor
    · rintro (h | ⟨_, h | ⟨_, h⟩⟩)
      · exact Or.inr h
      · exact Or.inl h
      · exact absurd h (hasRule_empty _ _ _)
    · rintro (h | h)
      · refine Or.inr ⟨?_, Or.inl h⟩
        obtain ⟨ks, p, hr, e, _⟩ := h
        intro hm
        obtain ⟨k', hk', hke⟩ := List.mem_map.mp hm
        have hne : ks ≠ [] := fun h0 => hk (by rw [e, h0]; rfl)
        exact hd ks k' (hasRule_key hr) hk' hne (by rw [← e, hke])
      · exact Or.inl h

theorem mem_absRules_img (syms : List Nat) (f : Nat → Nat) (T : Table) (r : Rule) :
    r ∈ (absRules syms T).map (mapRule f) ↔ r.sym ∈ syms ∧ ImgBU f T (bits r.sym) r.kids r.parent := by
  rw [List.mem_map]
  constructor
  · rintro ⟨r₀, hr₀, rfl⟩
    obtain ⟨hs, h⟩ := mem_absRules.mp hr₀
    exact ⟨hs, r₀.kids, r₀.parent, h, rfl, rfl⟩
  · rintro ⟨hs, ks, p, h, e1, e2⟩
    refine ⟨⟨r.sym, ks, p⟩, mem_absRules.mpr ⟨hs, h⟩, ?_⟩
    obtain ⟨s, k, q⟩ := r
    simp only [mapRule] at *
    rw [e1, e2]

/-- … so the abstraction of the result is `unionWith` of the abstractions of the operands -/
theorem buUnion_setEq (syms : List Nat) (ML MR : SMap) (T₁ T₂ : Table) (F₁ F₂ : List Nat)
    (h1 : ∀ k k', k ∈ T₁.keys → k' ∈ T₁.keys → k.map (applyMap ML) = k'.map (applyMap ML) → k = k')
    (h2 : ∀ k k', k ∈ T₂.keys → k' ∈ T₂.keys → k.map (applyMap MR) = k'.map (applyMap MR) → k = k')
    (hd : ∀ k k', k ∈ T₁.keys → k' ∈ T₂.keys → k ≠ [] → k.map (applyMap ML) ≠ k'.map (applyMap MR)) :
    SetEqTA (absBU syms (((pureLoopBU MR T₂ (pairs T₂)
        ((pureLoopBU ML T₁ (pairs T₁) Table.empty).set [] (apply1 (rwBU ML) (T₁.get [])))).set []
          (apply1 (rwBU MR) (T₂.get []))).set []
        (apply2 unionS (apply1 (rwBU ML) (T₁.get [])) (apply1 (rwBU MR) (T₂.get []))))
        (([] ++ F₁.map (applyMap ML)) ++ F₂.map (applyMap MR)))
      (unionWith (applyMap ML) (applyMap MR) (absBU syms T₁ F₁) (absBU syms T₂ F₂)) := by
  refine ⟨fun r => ?_, fun q => by simp [unionWith, reindex, absBU]⟩
  show r ∈ absRules syms _ ↔ r ∈ (absRules syms T₁).map (mapRule _) ++ (absRules syms T₂).map (mapRule _)
  rw [List.mem_append, mem_absRules_img, mem_absRules_img, mem_absRules, buUnion_rules ML MR T₁ T₂ h1 h2 hd]
  constructor
  · rintro ⟨hs, h | h⟩
    · exact Or.inl ⟨hs, h⟩
    · exact Or.inr ⟨hs, h⟩
  · rintro (⟨hs, h⟩ | ⟨hs, h⟩)
    · exact ⟨hs, Or.inl h⟩
    · exact ⟨hs, Or.inr h⟩

/-! ### the states of a handle -/

theorem mem_orderLoopBU_key {T : Table} {ks : List Nat} {q : Nat} (h : ks ∈ T.keys) (hq : q ∈ ks) :
    q ∈ orderLoopBU T (pairs T) := by
  rw [← keys_eq_pairs] at h
  obtain ⟨e, he, rfl⟩ := List.mem_map.mp h
  exact List.mem_flatMap.mpr ⟨e, he, List.mem_append_left _ hq⟩

theorem mem_orderLoopBU_parent {T : Table} {ρ : Nat → Bool} {ks : List Nat} {p : Nat} (h : HasRule T ρ ks p) :
    p ∈ orderLoopBU T (pairs T) := by
  have hk := hasRule_key h
  rw [← keys_eq_pairs] at hk
  obtain ⟨e, he, rfl⟩ := List.mem_map.mp hk
  refine List.mem_flatMap.mpr ⟨e, he, List.mem_append_right _ ?_⟩
  exact List.mem_flatMap.mpr ⟨_, eval_mem_voidApply1 ρ _, h⟩

theorem keys_sub_allStates_BU (A : AutBU) {ks : List Nat} {q : Nat} (h : ks ∈ A.T.keys) (hq : q ∈ ks) : q ∈ A.allStates :=
  List.mem_append_left _ (List.mem_append_left _ (mem_orderLoopBU_key h hq))

/-- every state of the abstraction is presented to the translator -/
theorem abs_states_sub_BU (syms : List Nat) (A : AutBU) {q : Nat} (h : q ∈ (A.abs syms).states) : q ∈ A.allStates := by
  rcases Vata.mem_states.mp h with hf | ⟨r, hr, hq⟩
  · exact List.mem_append_left _ (List.mem_append_right _ hf)
  · obtain ⟨_, hr⟩ := mem_absRules.mp hr
    refine List.mem_append_left _ (List.mem_append_left _ ?_)
    rcases hq with hq | hq
    · exact hq ▸ mem_orderLoopBU_parent hr
    · exact mem_orderLoopBU_key (hasRule_key hr) hq

/-! ### the coded `Union` -/

theorem buUnionFrom_maps (c0 fresh : Nat) (lhs rhs : AutBU) (oL oR : Option SMap) (hne : lhs.tid ≠ rhs.tid) :
    (buUnionFrom c0 fresh lhs rhs oL oR).2.1 = (weakTrAll (orderBU lhs) (oL.getD []) c0).1 ∧
    (buUnionFrom c0 fresh lhs rhs oL oR).2.2 =
      (weakTrAll (orderBU rhs) (oR.getD []) (weakTrAll (orderBU lhs) (oL.getD []) c0).2).1 := by
  unfold buUnionFrom
  rw [if_neg hne]
  have h1 := (reindexBU_spec lhs ⟨fresh, Table.empty, []⟩ (oL.getD [], c0)).1
  have h2 := (reindexBU_spec rhs (reindexBU lhs ⟨fresh, Table.empty, []⟩ (oL.getD [], c0)).1
    (oR.getD [], (reindexBU lhs ⟨fresh, Table.empty, []⟩ (oL.getD [], c0)).2.2.2)).1
  refine ⟨by show (reindexBU lhs _ _).2.2.1 = _; rw [h1]; rfl, ?_⟩
  show (reindexBU rhs _ _).2.2.1 = _
  rw [h2, h1]; rfl

/-- the result of the distinct-tables branch in terms of the FINAL maps -/
theorem buUnionFrom_result (c0 fresh : Nat) (lhs rhs : AutBU) (oL oR : Option SMap) (hne : lhs.tid ≠ rhs.tid) :
    (buUnionFrom c0 fresh lhs rhs oL oR).1 =
      ⟨fresh, ((pureLoopBU (buUnionFrom c0 fresh lhs rhs oL oR).2.2 rhs.T (pairs rhs.T)
          ((pureLoopBU (buUnionFrom c0 fresh lhs rhs oL oR).2.1 lhs.T (pairs lhs.T) Table.empty).set []
            (apply1 (rwBU (buUnionFrom c0 fresh lhs rhs oL oR).2.1) (lhs.T.get [])))).set []
          (apply1 (rwBU (buUnionFrom c0 fresh lhs rhs oL oR).2.2) (rhs.T.get []))).set []
        (apply2 unionS (apply1 (rwBU (buUnionFrom c0 fresh lhs rhs oL oR).2.1) (lhs.T.get []))
          (apply1 (rwBU (buUnionFrom c0 fresh lhs rhs oL oR).2.2) (rhs.T.get []))),
        ([] ++ lhs.fin.map (applyMap (buUnionFrom c0 fresh lhs rhs oL oR).2.1)) ++
          rhs.fin.map (applyMap (buUnionFrom c0 fresh lhs rhs oL oR).2.2)⟩ := by
  obtain ⟨m1, m2⟩ := buUnionFrom_maps c0 fresh lhs rhs oL oR hne
  rw [m1, m2]
  unfold buUnionFrom
  rw [if_neg hne]
  have s1 := reindexBU_spec lhs ⟨fresh, Table.empty, []⟩ (oL.getD [], c0)
  have e1 := s1.2 _ (Ext.refl _)
  have s2 := reindexBU_spec rhs (reindexBU lhs ⟨fresh, Table.empty, []⟩ (oL.getD [], c0)).1
    (oR.getD [], (reindexBU lhs ⟨fresh, Table.empty, []⟩ (oL.getD [], c0)).2.2.2)
  have e2 := s2.2 _ (Ext.refl _)
  show AutBU.mk fresh ((reindexBU rhs _ _).1.T.set [] (apply2 unionS (reindexBU lhs _ _).2.1 (reindexBU rhs _ _).2.1))
    (reindexBU rhs _ _).1.fin = _
  rw [e2.1, e2.2, e1.1, e1.2, s1.1]
  rfl

/-- **exactness from the final maps** (any start value of the counter, any pre-filled maps) -/
theorem buUnionFrom_lang_of_maps (c0 fresh : Nat) (lhs rhs : AutBU) (oL oR : Option SMap) (syms : List Nat)
    (hne : lhs.tid ≠ rhs.tid)
    (hL : Inj (buUnionFrom c0 fresh lhs rhs oL oR).2.1) (hR : Inj (buUnionFrom c0 fresh lhs rhs oL oR).2.2)
    (hD : Disj (buUnionFrom c0 fresh lhs rhs oL oR).2.1 (buUnionFrom c0 fresh lhs rhs oL oR).2.2) :
    SetEqTA ((buUnionFrom c0 fresh lhs rhs oL oR).1.abs syms)
      (unionWith (applyMap (buUnionFrom c0 fresh lhs rhs oL oR).2.1) (applyMap (buUnionFrom c0 fresh lhs rhs oL oR).2.2)
        (lhs.abs syms) (rhs.abs syms)) ∧
    (∀ t, accepts ((buUnionFrom c0 fresh lhs rhs oL oR).1.abs syms) t =
      (accepts (lhs.abs syms) t || accepts (rhs.abs syms) t)) ∧
    (∀ q, q ∈ lhs.allStates → ∃ n, (buUnionFrom c0 fresh lhs rhs oL oR).2.1.lookup q = some n) ∧
    (∀ q, q ∈ rhs.allStates → ∃ n, (buUnionFrom c0 fresh lhs rhs oL oR).2.2.lookup q = some n) := by
  obtain ⟨m1, m2⟩ := buUnionFrom_maps c0 fresh lhs rhs oL oR hne
  have tA : ∀ q, q ∈ lhs.allStates → ∃ n, (buUnionFrom c0 fresh lhs rhs oL oR).2.1.lookup q = some n := by
    rw [m1]; exact fun q hq => wAll_known (orderBU lhs) (oL.getD [], c0) q hq
  have tB : ∀ q, q ∈ rhs.allStates → ∃ n, (buUnionFrom c0 fresh lhs rhs oL oR).2.2.lookup q = some n := by
    rw [m2]; exact fun q hq => wAll_known (orderBU rhs) (oR.getD [], _) q hq
  have iA := injOn_of hL tA
  have iB := injOn_of hR tB
  have dAB := disjOn_of hD tA tB
  have hse : SetEqTA ((buUnionFrom c0 fresh lhs rhs oL oR).1.abs syms)
      (unionWith (applyMap (buUnionFrom c0 fresh lhs rhs oL oR).2.1) (applyMap (buUnionFrom c0 fresh lhs rhs oL oR).2.2)
        (lhs.abs syms) (rhs.abs syms)) := by
    rw [buUnionFrom_result c0 fresh lhs rhs oL oR hne]
    refine buUnion_setEq syms _ _ lhs.T rhs.T lhs.fin rhs.fin ?_ ?_ ?_
    · exact fun k k' hk hk' => map_inj_on _ (· ∈ lhs.allStates) iA k k'
        (fun q hq => keys_sub_allStates_BU lhs hk hq) (fun q hq => keys_sub_allStates_BU lhs hk' hq)
    · exact fun k k' hk hk' => map_inj_on _ (· ∈ rhs.allStates) iB k k'
        (fun q hq => keys_sub_allStates_BU rhs hk hq) (fun q hq => keys_sub_allStates_BU rhs hk' hq)
    · intro k k' hk hk' hne' he
      cases k with
      | nil => exact hne' rfl
      | cons q k =>
        cases k' with
        | nil => simp at he
        | cons q' k' =>
          simp only [List.map_cons, List.cons.injEq] at he
          exact dAB q q' (keys_sub_allStates_BU lhs hk List.mem_cons_self)
            (keys_sub_allStates_BU rhs hk' List.mem_cons_self) he.1
  refine ⟨hse, fun t => ?_, tA, tB⟩
  rw [hse.lang t]
  exact unionWith_lang _ _ _ _
    (fun q q' hq hq' => iA q q' (abs_states_sub_BU syms lhs hq) (abs_states_sub_BU syms lhs hq'))
    (fun q q' hq hq' => iB q q' (abs_states_sub_BU syms rhs hq) (abs_states_sub_BU syms rhs hq'))
    (fun q q' hq hq' => dAB q q' (abs_states_sub_BU syms lhs hq) (abs_states_sub_BU syms rhs hq')) t

theorem buUnionFrom_maps_ok (c0 fresh : Nat) (lhs rhs : AutBU) (oL oR : Option SMap) (hne : lhs.tid ≠ rhs.tid)
    (hbL : Below (oL.getD []) c0) (hbR : Below (oR.getD []) c0)
    (hL : Inj (oL.getD [])) (hR : Inj (oR.getD [])) (hD : Disj (oL.getD []) (oR.getD [])) :
    Inj (buUnionFrom c0 fresh lhs rhs oL oR).2.1 ∧ Inj (buUnionFrom c0 fresh lhs rhs oL oR).2.2 ∧
    Disj (buUnionFrom c0 fresh lhs rhs oL oR).2.1 (buUnionFrom c0 fresh lhs rhs oL oR).2.2 ∧
    Ext (oL.getD []) (buUnionFrom c0 fresh lhs rhs oL oR).2.1 ∧ Ext (oR.getD []) (buUnionFrom c0 fresh lhs rhs oL oR).2.2 := by
  obtain ⟨m1, m2⟩ := buUnionFrom_maps c0 fresh lhs rhs oL oR hne
  rw [m1, m2]
  obtain ⟨h1, h2, h3, h4, h5, _, _⟩ := passes (oA := orderBU lhs) (oB := orderBU rhs) hbL hbR hL hR hD
  exact ⟨h1, h2, h3, h4, h5⟩

/-! ### `UnionDisjointStates`, distinct tables -/

theorem get_copyLoopBU (T₂ : Table) : ∀ (L : List (List Nat × MT)) (R : Table) (ks : List Nat),
    (L.foldl (fun R e => R.set e.1 (T₂.get e.1)) R).get ks = if ks ∈ L.map (·.1) then T₂.get ks else R.get ks
  | [], _, _ => by simp
  | e :: L, R, ks => by
    rw [List.foldl_cons, get_copyLoopBU T₂ L]
    by_cases h : ks ∈ L.map (·.1)
    · have : ks ∈ (e :: L).map (·.1) := by simp only [List.map_cons, List.mem_cons]; exact Or.inr h
      rw [if_pos h, if_pos this]
    · rw [if_neg h, get_set]
      by_cases he : e.1 = ks
      · have : ks ∈ (e :: L).map (·.1) := by simp [← he]
        rw [if_pos he, if_pos this, he]
      · have : ks ∉ (e :: L).map (·.1) := by
          simp only [List.map_cons, List.mem_cons, not_or]
          exact ⟨fun e' => he e'.symm, h⟩
        rw [if_neg he, if_neg this]

/-- the table of the bottom-up `UnionDisjointStates` (distinct tables) holds exactly the rules of both operands when no
non-empty tuple is a key of both tables -/
theorem buUnionDisj_rules (T₁ T₂ : Table) (hd : ∀ k, k ∈ T₁.keys → k ∈ T₂.keys → k = [])
    (ρ : Nat → Bool) (ks : List Nat) (p : Nat) :
    HasRule (((pairs T₂).foldl (fun R e => R.set e.1 (T₂.get e.1)) T₁).set [] (apply2 unionS (T₁.get []) (T₂.get []))) ρ ks p ↔
      HasRule T₁ ρ ks p ∨ HasRule T₂ ρ ks p := by
  by_cases hk : ks = []
  · subst hk
    unfold HasRule
    rw [get_set, if_pos rfl, apply2_eval, mem_unionS]
  · rw [hasRule_set_nil_ne _ _ _ _ hk]
    unfold HasRule
    rw [get_copyLoopBU, keys_eq_pairs]
    split
    · next h2 =>
      constructor
      · exact Or.inr
      · rintro (h | h)
        · exact absurd (hd ks (hasRule_key h) h2) hk
        · exact h
    · next h2 =>
      constructor
      · exact Or.inl
      · rintro (h | h)
        · exact h
        · exact absurd (hasRule_key h) h2

theorem buUnionDisj_setEq (syms : List Nat) (T₁ T₂ : Table) (F₁ F₂ : List Nat)
    (hd : ∀ k, k ∈ T₁.keys → k ∈ T₂.keys → k = []) :
    SetEqTA (absBU syms (((pairs T₂).foldl (fun R e => R.set e.1 (T₂.get e.1)) T₁).set []
        (apply2 unionS (T₁.get []) (T₂.get []))) (F₁ ++ F₂))
      (unionDisjoint (absBU syms T₁ F₁) (absBU syms T₂ F₂)) := by
  refine ⟨fun r => ?_, fun q => Iff.rfl⟩
  show r ∈ absRules syms _ ↔ r ∈ absRules syms T₁ ++ absRules syms T₂
  rw [List.mem_append, mem_absRules, mem_absRules, mem_absRules, buUnionDisj_rules T₁ T₂ hd]
  constructor
  · rintro ⟨hs, h | h⟩
    · exact Or.inl ⟨hs, h⟩
    · exact Or.inr ⟨hs, h⟩
  · rintro (⟨hs, h⟩ | ⟨hs, h⟩)
    · exact ⟨hs, Or.inl h⟩
    · exact ⟨hs, Or.inr h⟩

/-- key-disjointness from state-disjointness -/
theorem keys_disj_of_states_BU (lhs rhs : AutBU) (hdis : ∀ q, q ∈ lhs.allStates → q ∉ rhs.allStates) :
    ∀ k, k ∈ lhs.T.keys → k ∈ rhs.T.keys → k = [] := by
  intro k h1 h2
  cases k with
  | nil => rfl
  | cons q k =>
    exact absurd (keys_sub_allStates_BU rhs h2 List.mem_cons_self)
      (hdis q (keys_sub_allStates_BU lhs h1 List.mem_cons_self))

end BddUnionCoded
end Vata
