import Vata.LtsUtil

/-!
# `SplittingRelation` as coded refines the list of rows — part 1: representation predicate, observations

Model: section `namespace SR` of `Vata/LtsUtil.lean`.  Helpers live in `Vata.LU.SR.P`.

Files: `LtsUtilSR.lean` (this file: chains, `Obs`, `Shape`, `Inv`, observations), `LtsUtilSR2.lean` (`erase`, `eraseRow`),
`LtsUtilSR3.lean` (shapes under construction), `LtsUtilSR4.lean` (`init`), `LtsUtilSR5.lean` (the phases of `split`),
`LtsUtilSR6.lean` (`split_refines`, capacity, `step_refines`, `run_refines`, examples).

* `P.DL nxt prv ps`: the pointers `ps` are doubly linked (`nxt` forwards, `prv` backwards), generic in the two
  directions, so rows (`getRight`/`getLeft`) and columns (`getDown`/`getUp`) share all chain lemmas
  (`DL_extend`, `DL_push`, `DL_remove`, frames `DL_congr`).
* `P.Obs` / `P.obs`: everything the invariant reads from a state (`T`), so that every primitive write is described by
  ONE record equation (`setRight_obs`, …, `obs_setCell`, `alloc_spec`) and the reasoning about shapes is free of `T`.
* `P.Shape o n R C`: the address lists `R i` / `C j` describe rows / columns (`Data`: mutual consistency, rows without
  duplicate columns, columns sorted by row; `Mem`: live cells allocated and not free, free list without duplicates;
  `RowC` / `ColC`: closed doubly linked lists between the sentinels); `Inv s rel`.
* observations: `rowCells_refines`, `colCells_refines`, `size_refines`.
-/
namespace Vata.LU.SR
namespace P

/-! ### function update -/

def upd (f : Ptr → Option Ptr) (p v : Ptr) : Ptr → Option Ptr := fun q => if q = p then some v else f q

def updN (f : Nat → Nat) (a v : Nat) : Nat → Nat := fun b => if b = a then v else f b

@[simp] theorem upd_same (f : Ptr → Option Ptr) (p v : Ptr) : upd f p v p = some v := by simp [upd]
theorem upd_ne (f : Ptr → Option Ptr) {p q : Ptr} (v : Ptr) (h : q ≠ p) : upd f p v q = f q := by simp [upd, h]
@[simp] theorem updN_same (f : Nat → Nat) (a v : Nat) : updN f a v a = v := by simp [updN]
theorem updN_ne (f : Nat → Nat) {a b : Nat} (v : Nat) (h : b ≠ a) : updN f a v b = f b := by simp [updN, h]

theorem upd_eta (f : Ptr → Option Ptr) (p v : Ptr) (h : f p = some v) : upd f p v = f := by
  funext q; unfold upd; split
  · rename_i e; rw [e, h]
  · rfl

theorem updN_eta (f : Nat → Nat) (a : Nat) : updN f a (f a) = f := by
  funext b; unfold updN; split
  · rename_i e; rw [e]
  · rfl

/-! ### doubly linked pointer lists -/

local notation "cs" => List.map Ptr.cell

/-- consecutive pointers of the list are linked in both directions -/
def DL (nxt prv : Ptr → Option Ptr) : List Ptr → Prop
  | p :: q :: r => nxt p = some q ∧ prv q = some p ∧ DL nxt prv (q :: r)
  | _ => True

variable {nxt prv nxt' prv' : Ptr → Option Ptr}

@[simp] theorem DL_nil : DL nxt prv [] = True := by simp [DL]
@[simp] theorem DL_single (p : Ptr) : DL nxt prv [p] = True := by simp [DL]
theorem DL_cons2 (p q : Ptr) (r : List Ptr) :
    DL nxt prv (p :: q :: r) ↔ nxt p = some q ∧ prv q = some p ∧ DL nxt prv (q :: r) := by simp [DL]

theorem DL_append_cons : ∀ (P : List Ptr) (q : Ptr) (Q : List Ptr),
    DL nxt prv (P ++ q :: Q) ↔ DL nxt prv (P ++ [q]) ∧ DL nxt prv (q :: Q)
  | [], q, Q => by simp
  | [p], q, Q => by simp [DL_cons2, and_assoc]
  | p :: p' :: P, q, Q => by
    have ih := DL_append_cons (p' :: P) q Q
    simp only [List.cons_append, DL_cons2] at ih ⊢
    rw [ih]; simp [and_assoc]

theorem DL_snoc2 (P : List Ptr) (p q : Ptr) :
    DL nxt prv (P ++ [p, q]) ↔ DL nxt prv (P ++ [p]) ∧ nxt p = some q ∧ prv q = some p := by
  rw [DL_append_cons]; simp [DL_cons2]

/-- frame: the links only read `nxt` on all but the last and `prv` on all but the first pointer -/
theorem DL_congr : ∀ (ps : List Ptr), DL nxt prv ps → (∀ p ∈ ps.dropLast, nxt' p = nxt p) →
    (∀ p ∈ ps.tail, prv' p = prv p) → DL nxt' prv' ps
  | [], _, _, _ => by simp
  | [p], _, _, _ => by simp
  | p :: q :: r, h, h1, h2 => by
    rw [DL_cons2] at h ⊢
    refine ⟨?_, ?_, DL_congr (q :: r) h.2.2 ?_ ?_⟩
    · rw [h1 p (by simp)]; exact h.1
    · rw [h2 q (by simp)]; exact h.2.1
    · intro x hx; exact h1 x (by simp only [List.dropLast_cons_cons]; exact List.mem_cons_of_mem _ hx)
    · intro x hx; exact h2 x (by simp only [List.tail_cons] at hx ⊢; exact List.mem_cons_of_mem _ hx)

/-- simple frame: nothing of the list is touched -/
theorem DL_congr' (ps : List Ptr) (h : DL nxt prv ps) (h1 : ∀ p ∈ ps, nxt' p = nxt p)
    (h2 : ∀ p ∈ ps, prv' p = prv p) : DL nxt' prv' ps :=
  DL_congr ps h (fun p hp => h1 p (List.dropLast_subset _ hp)) (fun p hp => h2 p (List.mem_of_mem_tail hp))

/-- last pointer of `b :: cs l` -/
def lastP (b : Ptr) : List Nat → Ptr
  | [] => b
  | a :: l => lastP (.cell a) l

/-- first pointer of `cs l ++ [e]` -/
def headP (l : List Nat) (e : Ptr) : Ptr :=
  match l with
  | [] => e
  | a :: _ => .cell a

@[simp] theorem lastP_nil (b : Ptr) : lastP b [] = b := rfl
@[simp] theorem lastP_cons (b : Ptr) (a : Nat) (l : List Nat) : lastP b (a :: l) = lastP (.cell a) l := rfl
@[simp] theorem headP_nil (e : Ptr) : headP [] e = e := rfl
@[simp] theorem headP_cons (a : Nat) (l : List Nat) (e : Ptr) : headP (a :: l) e = .cell a := rfl

@[simp] theorem lastP_append : ∀ (l1 l2 : List Nat) (b : Ptr), lastP b (l1 ++ l2) = lastP (lastP b l1) l2
  | [], _, _ => rfl
  | a :: l1, l2, _ => by simp [lastP_append l1 l2]

theorem lastP_snoc (l : List Nat) (a : Nat) (b : Ptr) : lastP b (l ++ [a]) = .cell a := by simp

theorem lastP_cases : ∀ (l : List Nat) (b : Ptr), (l = [] ∧ lastP b l = b) ∨ (∃ a, a ∈ l ∧ lastP b l = .cell a)
  | [], _ => Or.inl ⟨rfl, rfl⟩
  | a :: l, b => by
    rcases lastP_cases l (.cell a) with ⟨h1, h2⟩ | ⟨x, h1, h2⟩
    · exact Or.inr ⟨a, by simp, by simp [h2]⟩
    · exact Or.inr ⟨x, by simp [h1], by simp [h2]⟩

theorem headP_cases (l : List Nat) (e : Ptr) : (l = [] ∧ headP l e = e) ∨ (∃ a, a ∈ l ∧ headP l e = .cell a) := by
  cases l with
  | nil => exact Or.inl ⟨rfl, rfl⟩
  | cons a l => exact Or.inr ⟨a, by simp, rfl⟩

theorem lastP_mem (l : List Nat) (b : Ptr) : lastP b l ∈ b :: cs l := by
  rcases lastP_cases l b with ⟨_, h⟩ | ⟨a, h1, h2⟩
  · simp [h]
  · rw [h2]; exact List.mem_cons_of_mem _ (List.mem_map_of_mem h1)

theorem headP_mem (l : List Nat) (e : Ptr) : headP l e ∈ cs l ++ [e] := by
  cases l <;> simp

theorem exists_init : ∀ (l : List Nat) (b : Ptr), ∃ P, b :: cs l = P ++ [lastP b l]
  | [], b => ⟨[], rfl⟩
  | a :: l, b => by
    obtain ⟨P, h⟩ := exists_init l (.cell a)
    exact ⟨b :: P, by simp only [List.map_cons, lastP_cons, List.cons_append]; rw [h]⟩

theorem exists_tail (l : List Nat) (e : Ptr) : ∃ Q, cs l ++ [e] = headP l e :: Q := by
  cases l with
  | nil => exact ⟨[], rfl⟩
  | cons a l => exact ⟨cs l ++ [e], rfl⟩

/-- `b :: cs l` followed by one more pointer -/
theorem DL_snoc (b : Ptr) (l : List Nat) (q : Ptr) :
    DL nxt prv (b :: cs l ++ [q]) ↔
      DL nxt prv (b :: cs l) ∧ nxt (lastP b l) = some q ∧ prv q = some (lastP b l) := by
  obtain ⟨P, h⟩ := exists_init l b
  have : b :: cs l ++ [q] = P ++ [lastP b l, q] := by
    rw [h]; simp
  rw [this, DL_snoc2, h]

/-- open chain extended by one cell -/
theorem DL_snoc_cell (b : Ptr) (l : List Nat) (t : Nat) :
    DL nxt prv (b :: cs (l ++ [t])) ↔
      DL nxt prv (b :: cs l) ∧ nxt (lastP b l) = some (.cell t) ∧ prv (.cell t) = some (lastP b l) := by
  rw [← DL_snoc]; simp

/-- what a closed chain says about one of its cells -/
theorem DL_mid (b e : Ptr) (l1 l2 : List Nat) (a : Nat) (h : DL nxt prv (b :: cs (l1 ++ a :: l2) ++ [e])) :
    nxt (.cell a) = some (headP l2 e) ∧ prv (.cell a) = some (lastP b l1) ∧
    nxt (lastP b l1) = some (.cell a) ∧ prv (headP l2 e) = some (.cell a) := by
  obtain ⟨P, hP⟩ := exists_init l1 b
  obtain ⟨Q, hQ⟩ := exists_tail l2 e
  have : b :: cs (l1 ++ a :: l2) ++ [e] = P ++ lastP b l1 :: (.cell a :: headP l2 e :: Q) := by
    rw [List.map_append, ← List.cons_append, hP]
    simp only [List.map_cons, List.append_assoc, List.cons_append, List.nil_append, hQ]
  rw [this, DL_append_cons, DL_cons2, DL_cons2] at h
  exact ⟨h.2.2.2.1, h.2.2.1, h.2.1, h.2.2.2.2.1⟩

/-- extend an open chain by one pointer (a cell, or the closing sentinel) -/
theorem DL_extend (b q : Ptr) (l : List Nat) (h : DL nxt prv (b :: cs l)) (hnd : (b :: cs l).Nodup)
    (h1 : ∀ y ∈ b :: cs l, y ≠ lastP b l → nxt' y = nxt y) (h1a : nxt' (lastP b l) = some q)
    (h2 : ∀ y ∈ cs l, prv' y = prv y) (h2a : prv' q = some (lastP b l)) :
    DL nxt' prv' (b :: cs l ++ [q]) := by
  rw [DL_snoc]
  refine ⟨?_, h1a, h2a⟩
  obtain ⟨P, hP⟩ := exists_init l b
  refine DL_congr _ h ?_ ?_
  · intro y hy
    rw [hP] at hy hnd
    simp only [List.dropLast_concat] at hy
    refine h1 y (by rw [hP]; exact List.mem_append_left _ hy) ?_
    intro e; subst e
    exact (List.nodup_append.1 hnd).2.2 _ hy _ (List.mem_singleton.2 rfl) rfl
  · intro y hy; exact h2 y (by simpa using hy)

/-- append the cell `t` at the end of a closed chain -/
theorem DL_push (b e : Ptr) (l : List Nat) (t : Nat) (h : DL nxt prv (b :: cs l ++ [e]))
    (hnd : (b :: cs (l ++ [t])).Nodup)
    (h1 : ∀ y ∈ b :: cs l, y ≠ lastP b l → nxt' y = nxt y) (h1a : nxt' (lastP b l) = some (.cell t))
    (h1b : nxt' (.cell t) = some e)
    (h2 : ∀ y ∈ cs l, prv' y = prv y) (h2a : prv' (.cell t) = some (lastP b l)) (h2b : prv' e = some (.cell t)) :
    DL nxt' prv' (b :: cs (l ++ [t]) ++ [e]) := by
  have hnd0 : (b :: cs l).Nodup := by
    have : (b :: cs l ++ [Ptr.cell t]).Nodup := by simpa using hnd
    exact (List.nodup_append.1 this).1
  have h0 := (DL_snoc b l e).1 h
  have hA : DL nxt' prv' (b :: cs (l ++ [t])) := by
    have := DL_extend (nxt' := nxt') (prv' := prv') b (.cell t) l h0.1 hnd0 h1 h1a h2 h2a
    simpa using this
  refine DL_extend b e (l ++ [t]) hA hnd (fun _ _ _ => rfl) ?_ (fun _ _ => rfl) ?_
  · rw [lastP_snoc]; exact h1b
  · rw [lastP_snoc]; exact h2b

theorem DL_remove_raw (P Q : List Ptr) (p x q : Ptr) (h : DL nxt prv (P ++ p :: x :: q :: Q))
    (hnd : (P ++ p :: x :: q :: Q).Nodup)
    (h1 : ∀ y ∈ P ++ p :: x :: q :: Q, y ≠ p → nxt' y = nxt y) (h1' : nxt' p = some q)
    (h2 : ∀ y ∈ P ++ p :: x :: q :: Q, y ≠ q → prv' y = prv y) (h2' : prv' q = some p) :
    DL nxt' prv' (P ++ p :: q :: Q) := by
  rw [DL_append_cons] at h ⊢
  have hnd' := List.nodup_append.1 hnd
  have hnd2 : p ∉ q :: Q ∧ q ∉ Q := by
    have := hnd'.2.1
    simp only [List.nodup_cons, List.mem_cons, not_or] at this
    exact ⟨by simp only [List.mem_cons, not_or]; exact ⟨this.1.2.1, this.1.2.2⟩, this.2.2.1⟩
  refine ⟨DL_congr _ h.1 ?_ ?_, ?_⟩
  · intro y hy
    simp only [List.dropLast_concat] at hy
    refine h1 y (List.mem_append_left _ hy) ?_
    intro e; subst e
    exact hnd'.2.2 _ hy _ (by simp) rfl
  · intro y hy
    have hy' : y ∈ P ++ [p] := List.mem_of_mem_tail hy
    refine h2 y (by simp only [List.mem_append, List.mem_cons, List.not_mem_nil, or_false] at hy' ⊢
                    rcases hy' with h | h
                    · exact Or.inl h
                    · exact Or.inr (Or.inl h)) ?_
    intro e; subst e
    simp only [List.mem_append, List.mem_cons, List.not_mem_nil, or_false] at hy'
    rcases hy' with h | h
    · exact hnd'.2.2 _ h _ (by simp) rfl
    · exact hnd2.1 (by simp [h])
  · have hq : DL nxt prv (q :: Q) := by
      have := h.2; rw [DL_cons2, DL_cons2] at this; exact this.2.2.2.2
    rw [DL_cons2]
    refine ⟨h1', h2', DL_congr _ hq ?_ ?_⟩
    · intro y hy
      have hy' : y ∈ q :: Q := List.dropLast_subset _ hy
      refine h1 y (by simp only [List.mem_append, List.mem_cons] at hy' ⊢; rcases hy' with h | h
                      · exact Or.inr (Or.inr (Or.inr (Or.inl h)))
                      · exact Or.inr (Or.inr (Or.inr (Or.inr h)))) ?_
      intro e; subst e; exact hnd2.1 hy'
    · intro y hy
      simp only [List.tail_cons] at hy
      refine h2 y (by simp only [List.mem_append, List.mem_cons]; exact Or.inr (Or.inr (Or.inr (Or.inr hy)))) ?_
      intro e; subst e; exact hnd2.2 hy

/-- unlink the cell `a` from a closed chain -/
theorem DL_remove (b e : Ptr) (l1 l2 : List Nat) (a : Nat)
    (h : DL nxt prv (b :: cs (l1 ++ a :: l2) ++ [e])) (hnd : (b :: cs (l1 ++ a :: l2) ++ [e]).Nodup)
    (h1 : ∀ y, y ≠ lastP b l1 → nxt' y = nxt y) (h1' : nxt' (lastP b l1) = some (headP l2 e))
    (h2 : ∀ y, y ≠ headP l2 e → prv' y = prv y) (h2' : prv' (headP l2 e) = some (lastP b l1)) :
    DL nxt' prv' (b :: cs (l1 ++ l2) ++ [e]) := by
  obtain ⟨P, hP⟩ := exists_init l1 b
  obtain ⟨Q, hQ⟩ := exists_tail l2 e
  have e1 : b :: cs (l1 ++ a :: l2) ++ [e] = P ++ lastP b l1 :: (.cell a :: headP l2 e :: Q) := by
    rw [List.map_append, ← List.cons_append, hP]
    simp only [List.map_cons, List.append_assoc, List.cons_append, List.nil_append, hQ]
  have e2 : b :: cs (l1 ++ l2) ++ [e] = P ++ lastP b l1 :: headP l2 e :: Q := by
    rw [List.map_append, ← List.cons_append, hP]
    simp only [List.append_assoc, List.cons_append, List.nil_append, hQ]
  rw [e1] at h hnd
  rw [e2]
  exact DL_remove_raw P Q _ _ _ h hnd (fun y _ hy => h1 y hy) h1' (fun y _ hy => h2 y hy) h2'

/-! ### what the invariant reads from a state -/

structure Obs where
  gr : Ptr → Option Ptr
  gl : Ptr → Option Ptr
  gd : Ptr → Option Ptr
  gu : Ptr → Option Ptr
  col : Nat → Nat
  row : Nat → Nat
  next : Nat
  free : List Nat
  size : Nat
  nr : Nat
  nc : Nat

def obs (s : T) : Obs :=
  ⟨getRight s, getLeft s, getDown s, getUp s, fun a => (s.cells.get a).col, fun a => (s.cells.get a).row,
   s.next, s.free, s.size, s.rows.length, s.cols.length⟩

theorem obs_setCell (s : T) (a : Nat) (c : Cell) :
    obs { s with cells := s.cells.set a c } =
      { obs s with gr := upd (obs s).gr (.cell a) c.right, gl := upd (obs s).gl (.cell a) c.left,
                   gd := upd (obs s).gd (.cell a) c.down, gu := upd (obs s).gu (.cell a) c.up,
                   col := updN (obs s).col a c.col, row := updN (obs s).row a c.row } := by
  simp only [obs, Obs.mk.injEq, and_true]
  refine ⟨?_, ?_, ?_, ?_, ?_, ?_⟩
  · funext q; cases q <;> simp [getRight, upd, Heap.get_set]
    split <;> simp_all
  · funext q
    cases q with
    | cell b => simp [getLeft, upd, Heap.get_set]; split <;> simp_all
    | rowS k => cases k <;> simp [getLeft, upd]
    | colS k => cases k <;> simp [getLeft, upd]
    | null => simp [getLeft, upd]
  · funext q; cases q <;> simp [getDown, upd, Heap.get_set]
    split <;> simp_all
  · funext q
    cases q with
    | cell b => simp [getUp, upd, Heap.get_set]; split <;> simp_all
    | rowS k => cases k <;> simp [getUp, upd]
    | colS k => cases k <;> simp [getUp, upd]
    | null => simp [getUp, upd]
  · funext b; simp only [updN, Heap.get_set]; split <;> rfl
  · funext b; simp only [updN, Heap.get_set]; split <;> rfl

theorem gr_cell (s : T) (a : Nat) : (obs s).gr (.cell a) = some (s.cells.get a).right := rfl
theorem gl_cell (s : T) (a : Nat) : (obs s).gl (.cell a) = some (s.cells.get a).left := rfl
theorem gd_cell (s : T) (a : Nat) : (obs s).gd (.cell a) = some (s.cells.get a).down := rfl
theorem gu_cell (s : T) (a : Nat) : (obs s).gu (.cell a) = some (s.cells.get a).up := rfl
theorem col_cell (s : T) (a : Nat) : (obs s).col a = (s.cells.get a).col := rfl
theorem row_cell (s : T) (a : Nat) : (obs s).row a = (s.cells.get a).row := rfl

theorem right_of {s : T} {a : Nat} {q : Ptr} (h : (obs s).gr (.cell a) = some q) : (s.cells.get a).right = q :=
  Option.some.inj h
theorem left_of {s : T} {a : Nat} {q : Ptr} (h : (obs s).gl (.cell a) = some q) : (s.cells.get a).left = q :=
  Option.some.inj h
theorem down_of {s : T} {a : Nat} {q : Ptr} (h : (obs s).gd (.cell a) = some q) : (s.cells.get a).down = q :=
  Option.some.inj h
theorem up_of {s : T} {a : Nat} {q : Ptr} (h : (obs s).gu (.cell a) = some q) : (s.cells.get a).up = q :=
  Option.some.inj h

@[simp] theorem upd_gr_self (s : T) (a : Nat) : upd (obs s).gr (.cell a) (s.cells.get a).right = (obs s).gr :=
  upd_eta _ _ _ rfl
@[simp] theorem upd_gl_self (s : T) (a : Nat) : upd (obs s).gl (.cell a) (s.cells.get a).left = (obs s).gl :=
  upd_eta _ _ _ rfl
@[simp] theorem upd_gd_self (s : T) (a : Nat) : upd (obs s).gd (.cell a) (s.cells.get a).down = (obs s).gd :=
  upd_eta _ _ _ rfl
@[simp] theorem upd_gu_self (s : T) (a : Nat) : upd (obs s).gu (.cell a) (s.cells.get a).up = (obs s).gu :=
  upd_eta _ _ _ rfl
@[simp] theorem updN_col_self (s : T) (a : Nat) : updN (obs s).col a (s.cells.get a).col = (obs s).col :=
  updN_eta _ _
@[simp] theorem updN_row_self (s : T) (a : Nat) : updN (obs s).row a (s.cells.get a).row = (obs s).row :=
  updN_eta _ _

theorem setRight_obs {s : T} {p q : Ptr} (v : Ptr) (h : (obs s).gr p = some q) :
    ∃ s', setRight s p v = some s' ∧ obs s' = { obs s with gr := upd (obs s).gr p v } := by
  cases p with
  | cell a =>
    refine ⟨_, rfl, ?_⟩
    rw [obs_setCell]; simp
  | rowS i =>
    have hi : i < s.rows.length := by
      simp only [obs, getRight, Option.map_eq_some_iff] at h
      obtain ⟨x, hx, _⟩ := h
      exact (List.getElem?_eq_some_iff.1 hx).1
    refine ⟨{ s with rows := s.rows.set i (v, (s.rows.getD i default).2) }, by simp [setRight, hi], ?_⟩
    simp only [obs, Obs.mk.injEq, List.length_set, and_true]
    refine ⟨?_, ?_, rfl, rfl⟩
    · funext x
      cases x with
      | rowS k =>
        simp only [getRight, upd, List.getElem?_set, Ptr.rowS.injEq]
        by_cases hk : k = i
        · subst hk; simp [hi]
        · have : ¬ i = k := fun e => hk e.symm
          simp [hk, this]
      | _ => simp [getRight, upd]
    · funext x
      cases x with
      | rowS k =>
        cases k with
        | zero => simp [getLeft]
        | succ k =>
          simp only [getLeft, List.getElem?_set]
          by_cases hk : i = k
          · subst hk; simp [hi]
          · simp [hk]
      | _ => simp [getLeft]
  | null => simp [obs, getRight] at h
  | colS k => simp [obs, getRight] at h

theorem setLeft_obs {s : T} {p q : Ptr} (v : Ptr) (h : (obs s).gl p = some q) :
    ∃ s', setLeft s p v = some s' ∧ obs s' = { obs s with gl := upd (obs s).gl p v } := by
  cases p with
  | cell a =>
    refine ⟨_, rfl, ?_⟩
    rw [obs_setCell]; simp
  | rowS k =>
    cases k with
    | zero => simp [obs, getLeft] at h
    | succ i =>
    have hi : i < s.rows.length := by
      simp only [obs, getLeft, Option.map_eq_some_iff] at h
      obtain ⟨x, hx, _⟩ := h
      exact (List.getElem?_eq_some_iff.1 hx).1
    refine ⟨{ s with rows := s.rows.set i ((s.rows.getD i default).1, v) }, by simp [setLeft, hi], ?_⟩
    simp only [obs, Obs.mk.injEq, List.length_set, and_true]
    refine ⟨?_, ?_, rfl, rfl⟩
    · funext x
      cases x with
      | rowS k =>
        simp only [getRight, List.getElem?_set]
        by_cases hk : i = k
        · subst hk; simp [hi]
        · simp [hk]
      | _ => simp [getRight]
    · funext x
      cases x with
      | rowS k =>
        cases k with
        | zero => simp [getLeft, upd]
        | succ k =>
          simp only [getLeft, upd, List.getElem?_set, Ptr.rowS.injEq, Nat.add_right_cancel_iff]
          by_cases hk : k = i
          · subst hk; simp [hi]
          · have : ¬ i = k := fun e => hk e.symm
            simp [hk, this]
      | _ => simp [getLeft, upd]
  | null => simp [obs, getLeft] at h
  | colS k => simp [obs, getLeft] at h

theorem setDown_obs {s : T} {p q : Ptr} (v : Ptr) (h : (obs s).gd p = some q) :
    ∃ s', setDown s p v = some s' ∧ obs s' = { obs s with gd := upd (obs s).gd p v } := by
  cases p with
  | cell a =>
    refine ⟨_, rfl, ?_⟩
    rw [obs_setCell]; simp
  | colS i =>
    have hi : i < s.cols.length := by
      simp only [obs, getDown, Option.map_eq_some_iff] at h
      obtain ⟨x, hx, _⟩ := h
      exact (List.getElem?_eq_some_iff.1 hx).1
    refine ⟨{ s with cols := s.cols.set i (v, (s.cols.getD i default).2) }, by simp [setDown, hi], ?_⟩
    simp only [obs, Obs.mk.injEq, List.length_set, and_true]
    refine ⟨rfl, rfl, ?_, ?_⟩
    · funext x
      cases x with
      | colS k =>
        simp only [getDown, upd, List.getElem?_set, Ptr.colS.injEq]
        by_cases hk : k = i
        · subst hk; simp [hi]
        · have : ¬ i = k := fun e => hk e.symm
          simp [hk, this]
      | _ => simp [getDown, upd]
    · funext x
      cases x with
      | colS k =>
        cases k with
        | zero => simp [getUp]
        | succ k =>
          simp only [getUp, List.getElem?_set]
          by_cases hk : i = k
          · subst hk; simp [hi]
          · simp [hk]
      | _ => simp [getUp]
  | null => simp [obs, getDown] at h
  | rowS k => simp [obs, getDown] at h

theorem setUp_obs {s : T} {p q : Ptr} (v : Ptr) (h : (obs s).gu p = some q) :
    ∃ s', setUp s p v = some s' ∧ obs s' = { obs s with gu := upd (obs s).gu p v } := by
  cases p with
  | cell a =>
    refine ⟨_, rfl, ?_⟩
    rw [obs_setCell]; simp
  | colS k =>
    cases k with
    | zero => simp [obs, getUp] at h
    | succ i =>
    have hi : i < s.cols.length := by
      simp only [obs, getUp, Option.map_eq_some_iff] at h
      obtain ⟨x, hx, _⟩ := h
      exact (List.getElem?_eq_some_iff.1 hx).1
    refine ⟨{ s with cols := s.cols.set i ((s.cols.getD i default).1, v) }, by simp [setUp, hi], ?_⟩
    simp only [obs, Obs.mk.injEq, List.length_set, and_true]
    refine ⟨rfl, rfl, ?_, ?_⟩
    · funext x
      cases x with
      | colS k =>
        simp only [getDown, List.getElem?_set]
        by_cases hk : i = k
        · subst hk; simp [hi]
        · simp [hk]
      | _ => simp [getDown]
    · funext x
      cases x with
      | colS k =>
        cases k with
        | zero => simp [getUp, upd]
        | succ k =>
          simp only [getUp, upd, List.getElem?_set, Ptr.colS.injEq, Nat.add_right_cancel_iff]
          by_cases hk : k = i
          · subst hk; simp [hi]
          · have : ¬ i = k := fun e => hk e.symm
            simp [hk, this]
      | _ => simp [getUp, upd]
  | null => simp [obs, getUp] at h
  | rowS k => simp [obs, getUp] at h


theorem setRowSecond_eq (s : T) (i : Nat) (v : Ptr) : setRowSecond s i v = setLeft s (.rowS (i + 1)) v := rfl
theorem setColSecond_eq (s : T) (i : Nat) (v : Ptr) : setColSecond s i v = setUp s (.colS (i + 1)) v := rfl

theorem rows_first {s : T} {i : Nat} {q : Ptr} (h : (obs s).gr (.rowS i) = some q) :
    ∃ rw, s.rows[i]? = some rw ∧ rw.1 = q := by
  simpa [obs, getRight] using h
theorem rows_second {s : T} {i : Nat} {q : Ptr} (h : (obs s).gl (.rowS (i + 1)) = some q) :
    ∃ rw, s.rows[i]? = some rw ∧ rw.2 = q := by
  simpa [obs, getLeft] using h
theorem cols_first {s : T} {i : Nat} {q : Ptr} (h : (obs s).gd (.colS i) = some q) :
    ∃ rw, s.cols[i]? = some rw ∧ rw.1 = q := by
  simpa [obs, getDown] using h
theorem cols_second {s : T} {i : Nat} {q : Ptr} (h : (obs s).gu (.colS (i + 1)) = some q) :
    ∃ rw, s.cols[i]? = some rw ∧ rw.2 = q := by
  simpa [obs, getUp] using h
theorem rows_second_getD {s : T} {i : Nat} {q : Ptr} (h : (obs s).gl (.rowS (i + 1)) = some q) :
    (s.rows.getD i default).2 = q := by
  obtain ⟨rw, h1, h2⟩ := rows_second h
  simp [List.getD_eq_getElem?_getD, h1, h2]
theorem cols_second_getD {s : T} {i : Nat} {q : Ptr} (h : (obs s).gu (.colS (i + 1)) = some q) :
    (s.cols.getD i default).2 = q := by
  obtain ⟨rw, h1, h2⟩ := cols_second h
  simp [List.getD_eq_getElem?_getD, h1, h2]

theorem obs_setCell_next (s : T) (a k : Nat) (c : Cell) :
    obs { s with next := k, cells := s.cells.set a c } = { obs { s with cells := s.cells.set a c } with next := k } := rfl

/-- what `alloc` does, as far as the invariant can see: the cell `t` comes from the free list or is new; nothing else
changes -/
structure AllocRel (o o1 : Obs) (t : Nat) : Prop where
  gr : ∀ p, p ≠ .cell t → o1.gr p = o.gr p
  gl : ∀ p, p ≠ .cell t → o1.gl p = o.gl p
  gd : ∀ p, p ≠ .cell t → o1.gd p = o.gd p
  gu : ∀ p, p ≠ .cell t → o1.gu p = o.gu p
  col : ∀ a, a ≠ t → o1.col a = o.col a
  row : ∀ a, a ≠ t → o1.row a = o.row a
  size : o1.size = o.size
  nr : o1.nr = o.nr
  nc : o1.nc = o.nc
  next_le : o.next ≤ o1.next
  t_lt : t < o1.next
  t_nfree : t ∉ o1.free
  free_sub : ∀ a ∈ o1.free, a ∈ o.free
  free_nd : o1.free.Nodup
  t_old : t ∈ o.free ∨ o.next ≤ t

theorem alloc_spec (s : T) (hnd : s.free.Nodup) (hlt : ∀ a ∈ s.free, a < s.next) :
    AllocRel (obs s) (obs (alloc s).2) (alloc s).1 := by
  cases hf : s.free with
  | nil =>
    have ha : alloc s = (s.next, { s with next := s.next + 1, cells := s.cells.set s.next default }) := by
      unfold alloc; rw [hf]
    rw [ha]; simp only []
    rw [obs_setCell_next, obs_setCell]
    exact {
      gr := fun p hp => upd_ne _ _ hp
      gl := fun p hp => upd_ne _ _ hp
      gd := fun p hp => upd_ne _ _ hp
      gu := fun p hp => upd_ne _ _ hp
      col := fun a ha => updN_ne _ _ ha
      row := fun a ha => updN_ne _ _ ha
      size := rfl
      nr := rfl
      nc := rfl
      next_le := Nat.le_succ _
      t_lt := Nat.lt_succ_self _
      t_nfree := by show s.next ∉ s.free; simp [hf]
      free_sub := fun a ha => ha
      free_nd := hnd
      t_old := Or.inr (Nat.le_refl _) }
  | cons p f =>
    have ha : alloc s = (p, { s with free := f }) := by
      unfold alloc; rw [hf]
    rw [hf] at hnd hlt
    have e2 : obs { s with free := f } = { obs s with free := f } := rfl
    rw [ha, e2]
    exact {
      gr := fun _ _ => rfl
      gl := fun _ _ => rfl
      gd := fun _ _ => rfl
      gu := fun _ _ => rfl
      col := fun _ _ => rfl
      row := fun _ _ => rfl
      size := rfl
      nr := rfl
      nc := rfl
      next_le := Nat.le_refl _
      t_lt := hlt p (by simp)
      t_nfree := (List.nodup_cons.1 hnd).1
      free_sub := fun a ha => by show a ∈ s.free; rw [hf]; exact List.mem_cons_of_mem _ ha
      free_nd := (List.nodup_cons.1 hnd).2
      t_old := Or.inl (by show p ∈ s.free; rw [hf]; simp) }


/-! ### the invariant -/

/-- the address lists `R i` (row `i`, left to right) and `C j` (column `j`, top down) describe the same set of cells -/
structure Data (col row : Nat → Nat) (n : Nat) (R C : Nat → List Nat) : Prop where
  rrow : ∀ i, ∀ a ∈ R i, row a = i
  ccol : ∀ j, ∀ a ∈ C j, col a = j
  rc : ∀ i, ∀ a ∈ R i, a ∈ C (col a)
  cr : ∀ j, ∀ a ∈ C j, a ∈ R (row a)
  rlt : ∀ i, ∀ a ∈ R i, i < n ∧ col a < n
  rnd : ∀ i, ((R i).map col).Nodup
  csorted : ∀ j, ((C j).map row).Pairwise (· < ·)

/-- live cells are allocated and not in the free list; the free list has no duplicates -/
structure Mem (o : Obs) (R : Nat → List Nat) : Prop where
  lt : ∀ i, ∀ a ∈ R i, a < o.next
  nfree : ∀ i, ∀ a ∈ R i, a ∉ o.free
  fnd : o.free.Nodup
  flt : ∀ a ∈ o.free, a < o.next

/-- row `i` is the closed doubly linked list `rowBegin(i)`, cells, `rowEnd(i)` -/
def RowC (o : Obs) (R : Nat → List Nat) (i : Nat) : Prop :=
  DL o.gr o.gl (.rowS i :: cs (R i) ++ [.rowS (i + 1)])

/-- column `j` is the closed doubly linked list `colBegin(j)`, cells, `colEnd(j)` -/
def ColC (o : Obs) (C : Nat → List Nat) (j : Nat) : Prop :=
  DL o.gd o.gu (.colS j :: cs (C j) ++ [.colS (j + 1)])

structure Shape (o : Obs) (n : Nat) (R C : Nat → List Nat) : Prop where
  data : Data o.col o.row n R C
  mem : Mem o R
  rowC : ∀ i, i < n → RowC o R i
  colC : ∀ j, j < n → ColC o C j
  size : o.size = n
  nr : n ≤ o.nr
  nc : o.nc = o.nr

end P

/-- the state `s` represents the relation `rel` (list of rows): rows and columns are mutually consistent doubly linked
lists between their sentinels, the free list is disjoint from the live cells -/
def Inv (s : T) (rel : List (List Nat)) : Prop :=
  ∃ R C, P.Shape (P.obs s) rel.length R C ∧ ∀ i, i < rel.length → (R i).map (P.obs s).col = rel.getD i []

namespace P

local notation "cs" => List.map Ptr.cell

theorem nodup_of_map {α β : Type} (f : α → β) {l : List α} (h : (l.map f).Nodup) : l.Nodup := by
  unfold List.Nodup at h ⊢
  rw [List.pairwise_map] at h
  exact h.imp (fun hab e => hab (by rw [e]))

theorem nodup_map_cell {l : List Nat} (h : l.Nodup) : (cs l).Nodup := by
  unfold List.Nodup at h ⊢
  rw [List.pairwise_map]
  exact h.imp (fun hab e => hab (Ptr.cell.inj e))

theorem Data.R_nodup {col row n R C} (d : Data col row n R C) (i : Nat) : (R i).Nodup :=
  nodup_of_map _ (d.rnd i)

theorem Data.C_nodup {col row n R C} (d : Data col row n R C) (j : Nat) : (C j).Nodup := by
  have h := d.csorted j
  refine nodup_of_map row ?_
  exact h.imp (fun hab => Nat.ne_of_lt hab)

theorem Data.C_lt {col row n R C} (d : Data col row n R C) {j a : Nat} (h : a ∈ C j) : j < n ∧ row a < n := by
  have h1 := d.cr j a h
  have h2 := d.rlt _ a h1
  rw [d.ccol j a h] at h2
  exact ⟨h2.2, h2.1⟩

theorem chain_nodup_row (l : List Nat) (i k : Nat) (h : l.Nodup) (hk : k ≠ i) :
    (Ptr.rowS i :: cs l ++ [Ptr.rowS k]).Nodup := by
  simp only [List.cons_append, List.nodup_cons, List.mem_append, List.mem_map, List.mem_singleton, reduceCtorEq,
    and_false, exists_false, Ptr.rowS.injEq, false_or, List.nodup_append, List.not_mem_nil, not_false_eq_true,
    List.nodup_nil, and_self, true_and, ne_eq, forall_exists_index, and_imp]
  refine ⟨fun e => hk e.symm, ?_, ?_⟩
  · exact nodup_map_cell h
  · intro a x _ hx b hb; subst hb; subst hx; simp

theorem chain_nodup_col (l : List Nat) (i k : Nat) (h : l.Nodup) (hk : k ≠ i) :
    (Ptr.colS i :: cs l ++ [Ptr.colS k]).Nodup := by
  simp only [List.cons_append, List.nodup_cons, List.mem_append, List.mem_map, List.mem_singleton, reduceCtorEq,
    and_false, exists_false, Ptr.colS.injEq, false_or, List.nodup_append, List.not_mem_nil, not_false_eq_true,
    List.nodup_nil, and_self, true_and, ne_eq, forall_exists_index, and_imp]
  refine ⟨fun e => hk e.symm, ?_, ?_⟩
  · exact nodup_map_cell h
  · intro a x _ hx b hb; subst hb; subst hx; simp

/-! ### observations -/

variable {nxt prv : Ptr → Option Ptr}

theorem DL_head (b e : Ptr) (l : List Nat) (h : DL nxt prv (b :: cs l ++ [e])) : nxt b = some (headP l e) := by
  cases l with
  | nil => exact ((DL_cons2 _ _ _).1 h).1
  | cons a l => exact ((DL_cons2 _ _ _).1 h).1

theorem DL_last (b e : Ptr) (l : List Nat) (h : DL nxt prv (b :: cs l ++ [e])) : prv e = some (lastP b l) :=
  ((DL_snoc b l e).1 h).2.2

theorem DL_tail (b e : Ptr) (a : Nat) (l : List Nat) (h : DL nxt prv (b :: cs (a :: l) ++ [e])) :
    DL nxt prv (.cell a :: cs l ++ [e]) := ((DL_cons2 _ _ _).1 h).2.2

theorem rowWalk_spec (s : T) (i : Nat) : ∀ (l : List Nat) (b : Ptr) (fuel : Nat),
    DL (obs s).gr (obs s).gl (b :: cs l ++ [.rowS (i + 1)]) → l.length < fuel →
    rowWalk s i fuel (headP l (.rowS (i + 1))) = some (l.map (fun a => (a, (obs s).col a)))
  | [], b, fuel + 1, _, _ => by simp [rowWalk]
  | a :: l, b, fuel + 1, h, hf => by
    have h1 := DL_tail _ _ _ _ h
    have h2 := right_of (DL_head _ _ _ h1)
    have ih := rowWalk_spec s i l (.cell a) fuel h1 (by simpa using hf)
    simp only [headP_cons, rowWalk, reduceCtorEq, if_false, h2, ih]
    rfl

theorem colWalk_spec (s : T) (i : Nat) : ∀ (l : List Nat) (b : Ptr) (fuel : Nat),
    DL (obs s).gd (obs s).gu (b :: cs l ++ [.colS (i + 1)]) → l.length < fuel →
    colWalk s i fuel (headP l (.colS (i + 1))) = some (l.map (fun a => (a, (obs s).row a)))
  | [], b, fuel + 1, _, _ => by simp [colWalk]
  | a :: l, b, fuel + 1, h, hf => by
    have h1 := DL_tail _ _ _ _ h
    have h2 := down_of (DL_head _ _ _ h1)
    have ih := colWalk_spec s i l (.cell a) fuel h1 (by simpa using hf)
    simp only [headP_cons, colWalk, reduceCtorEq, if_false, h2, ih]
    rfl

theorem length_le_of_lt {l : List Nat} {n : Nat} (hnd : l.Nodup) (h : ∀ a ∈ l, a < n) : l.length ≤ n := by
  have := List.Nodup.length_le_of_subset hnd (l₂ := List.range n) (fun a ha => List.mem_range.2 (h a ha))
  simpa using this

theorem sorted_ext : ∀ (l1 l2 : List Nat), l1.Pairwise (· < ·) → l2.Pairwise (· < ·) → (∀ x, x ∈ l1 ↔ x ∈ l2) → l1 = l2
  | [], [], _, _, _ => rfl
  | [], b :: l2, _, _, h => by have := (h b).2 (by simp); simp at this
  | a :: l1, [], _, _, h => by have := (h a).1 (by simp); simp at this
  | a :: l1, b :: l2, h1, h2, h => by
    rw [List.pairwise_cons] at h1 h2
    have hab : a = b := by
      have ha := (h a).1 (by simp)
      have hb := (h b).2 (by simp)
      simp only [List.mem_cons] at ha hb
      rcases ha with ha | ha
      · exact ha
      · rcases hb with hb | hb
        · exact hb.symm
        · have := h1.1 b hb; have := h2.1 a ha; omega
    subst hab
    congr 1
    refine sorted_ext l1 l2 h1.2 h2.2 (fun x => ⟨fun hx => ?_, fun hx => ?_⟩)
    · have := (h x).1 (List.mem_cons_of_mem _ hx)
      simp only [List.mem_cons] at this
      rcases this with e | e
      · have := h1.1 x hx; omega
      · exact e
    · have := (h x).2 (List.mem_cons_of_mem _ hx)
      simp only [List.mem_cons] at this
      rcases this with e | e
      · have := h2.1 x hx; omega
      · exact e


theorem Shape.rowCells_eq {s : T} {n : Nat} {R C : Nat → List Nat} (h : Shape (obs s) n R C) {i : Nat} (hi : i < n) :
    rowCells s i = some ((R i).map (fun a => (a, (obs s).col a))) := by
  have hc := h.rowC i hi
  obtain ⟨rw, h1, h2⟩ := rows_first (DL_head _ _ _ hc)
  have hlen : (R i).length < s.next + 1 :=
    Nat.lt_succ_of_le (length_le_of_lt (h.data.R_nodup i) (h.mem.lt i))
  simp only [rowCells, h1, h2]
  exact rowWalk_spec s i (R i) _ _ hc hlen

theorem Shape.colCells_eq {s : T} {n : Nat} {R C : Nat → List Nat} (h : Shape (obs s) n R C) {j : Nat} (hj : j < n) :
    colCells s j = some ((C j).map (fun a => (a, (obs s).row a))) := by
  have hc := h.colC j hj
  obtain ⟨rw, h1, h2⟩ := cols_first (DL_head _ _ _ hc)
  have hlen : (C j).length < s.next + 1 :=
    Nat.lt_succ_of_le (length_le_of_lt (h.data.C_nodup j)
      (fun a ha => h.mem.lt _ a (h.data.cr j a ha)))
  simp only [colCells, h1, h2]
  exact colWalk_spec s j (C j) _ _ hc hlen

/-- the column of the value is determined by the rows -/
theorem Data.col_eq {col row : Nat → Nat} {R C : Nat → List Nat} {rel : List (List Nat)}
    (d : Data col row rel.length R C) (hv : ∀ i, i < rel.length → (R i).map col = rel.getD i []) (j : Nat) :
    (C j).map row = aCol rel j := by
  refine sorted_ext _ _ (d.csorted j) ?_ (fun i => ?_)
  · unfold aCol
    exact List.Pairwise.sublist List.filter_sublist List.pairwise_lt_range
  · simp only [aCol, List.mem_map, List.mem_filter, List.mem_range, List.contains_iff_mem]
    constructor
    · rintro ⟨a, ha, rfl⟩
      have h1 := d.cr j a ha
      have h2 := d.rlt _ a h1
      refine ⟨h2.1, ?_⟩
      rw [← hv _ h2.1, ← d.ccol j a ha]
      exact List.mem_map_of_mem h1
    · rintro ⟨hi, hj⟩
      rw [← hv i hi, List.mem_map] at hj
      obtain ⟨a, ha, rfl⟩ := hj
      exact ⟨a, d.rc i a ha, d.rrow i a ha⟩

end P

/-- observation: iterating `row(i)` yields the `i`-th row of the value -/
theorem rowCells_refines {s : T} {rel : List (List Nat)} (h : Inv s rel) {i : Nat} (hi : i < rel.length) :
    (rowCells s i).map (·.map (·.2)) = some (rel.getD i []) := by
  obtain ⟨R, C, hs, hv⟩ := h
  rw [hs.rowCells_eq hi, ← hv i hi]
  simp [List.map_map, Function.comp_def]

/-- observation: iterating `column(j)` yields the rows that contain `j`, in increasing order -/
theorem colCells_refines {s : T} {rel : List (List Nat)} (h : Inv s rel) {j : Nat} (hj : j < rel.length) :
    (colCells s j).map (·.map (·.2)) = some (aCol rel j) := by
  obtain ⟨R, C, hs, hv⟩ := h
  rw [hs.colCells_eq hj, ← hs.data.col_eq hv j]
  simp [List.map_map, Function.comp_def]

theorem size_refines {s : T} {rel : List (List Nat)} (h : Inv s rel) : s.size = rel.length := by
  obtain ⟨R, C, hs, _⟩ := h
  exact hs.size

namespace P
end P
end Vata.LU.SR
