import Vata.RcStore
/-!
# Node lifetime of the MTBDD store (C18): proofs about the model `Vata/RcStore.lean`

Main results (for every operation list, `runF f ops`): `rc_inv`, `no_garbage`, `no_premature_free`, `no_double_free`,
`denotation_stable`, `all_released`, `all_released_destroyAll`.
-/
namespace Vata.RcS
open Vata.R (Data decrRc contrib indegL cnt J Closed)

/-! ## association lists -/
section Tab
set_option linter.unusedSectionVars false
variable {κ : Type} [DecidableEq κ]

def KeysNodup (t : List (κ × Nat)) : Prop := (t.map (·.1)).Nodup

theorem find_some_mem {k : κ} {n : Nat} : ∀ {t : List (κ × Nat)}, find k t = some n → (k, n) ∈ t
  | [], h => by simp [find] at h
  | (k', m) :: t, h => by
    simp only [find] at h
    split at h
    · rename_i e; cases h; subst e; exact List.mem_cons_self
    · exact List.mem_cons_of_mem _ (find_some_mem h)

theorem find_none_not_mem {k : κ} : ∀ {t : List (κ × Nat)}, find k t = none → ∀ n, (k, n) ∉ t
  | [], _, n => by simp
  | (k', m) :: t, h, n => by
    simp only [find] at h
    split at h
    · cases h
    · rename_i e
      intro hm
      rcases List.mem_cons.mp hm with hm | hm
      · cases hm; exact e rfl
      · exact find_none_not_mem h n hm

theorem key_mem_of_mem {k : κ} {n : Nat} {t : List (κ × Nat)} (h : (k, n) ∈ t) : k ∈ t.map (·.1) :=
  List.mem_map.mpr ⟨(k, n), h, rfl⟩

theorem keys_inj {k : κ} {a b : Nat} : ∀ {t : List (κ × Nat)}, KeysNodup t → (k, a) ∈ t → (k, b) ∈ t → a = b
  | [], _, h, _ => by simp at h
  | (k', m) :: t, hk, ha, hb => by
    have hk' : k' ∉ t.map (·.1) ∧ KeysNodup t := by
      simpa [KeysNodup] using hk
    rcases List.mem_cons.mp ha with ha1 | ha1 <;> rcases List.mem_cons.mp hb with hb1 | hb1
    · cases ha1; cases hb1; rfl
    · cases ha1; exact absurd (key_mem_of_mem (t := t) hb1) hk'.1
    · cases hb1; exact absurd (key_mem_of_mem (t := t) ha1) hk'.1
    · exact keys_inj hk'.2 ha1 hb1

theorem mem_find {k : κ} {n : Nat} {t : List (κ × Nat)} (hk : KeysNodup t) (h : (k, n) ∈ t) : find k t = some n := by
  cases e : find k t with
  | none => exact absurd h (find_none_not_mem e n)
  | some m => rw [keys_inj hk (find_some_mem e) h]

theorem mem_eraseKey {k k' : κ} {n : Nat} {t : List (κ × Nat)} : (k', n) ∈ eraseKey k t ↔ (k', n) ∈ t ∧ k' ≠ k := by
  simp [eraseKey]

theorem keysNodup_eraseKey {k : κ} {t : List (κ × Nat)} (h : KeysNodup t) : KeysNodup (eraseKey k t) :=
  List.Nodup.sublist (List.Sublist.map _ List.filter_sublist) h

theorem keysNodup_erase {e : κ × Nat} {t : List (κ × Nat)} (h : KeysNodup t) : KeysNodup (t.erase e) :=
  List.Nodup.sublist (List.Sublist.map _ List.erase_sublist) h

theorem keysNodup_cons {k : κ} {m : Nat} {t : List (κ × Nat)} (h : KeysNodup t) (hn : ∀ n, (k, n) ∉ t) :
    KeysNodup ((k, m) :: t) := by
  simp only [KeysNodup, List.map_cons, List.nodup_cons]
  refine ⟨?_, h⟩
  intro hm
  obtain ⟨⟨k', n⟩, he, hk⟩ := List.mem_map.mp hm
  simp only at hk
  subst hk
  exact hn n he

theorem nodup_of_keysNodup {t : List (κ × Nat)} (h : KeysNodup t) : t.Nodup := by
  unfold KeysNodup List.Nodup at h
  rw [List.pairwise_map] at h
  exact h.imp (fun hne e => hne (by rw [e]))

end Tab

/-! ## counting -/

theorem sum_eq_zero : ∀ (l : List Nat), (∀ a, a ∈ l → a = 0) → l.sum = 0
  | [], _ => rfl
  | a :: l, h => by
    have h1 := h a List.mem_cons_self
    have h2 := sum_eq_zero l (fun b hb => h b (List.mem_cons_of_mem _ hb))
    simp only [List.sum_cons]; omega

theorem indegL_cons (n : Nat) (ids : List Nat) (dat : Nat → Data) (x : Nat) :
    indegL (n :: ids) dat x = contrib dat x n + indegL ids dat x := by
  simp [indegL]

theorem contrib_congr {dat dat' : Nat → Data} {m : Nat} (h : dat' m = dat m) (x : Nat) :
    contrib dat' x m = contrib dat x m := by
  unfold contrib; rw [h]

theorem indegL_congr {dat dat' : Nat → Data} : ∀ {ids : List Nat}, (∀ m, m ∈ ids → dat' m = dat m) → ∀ x,
    indegL ids dat' x = indegL ids dat x
  | [], _, _ => rfl
  | m :: ids, h, x => by
    rw [indegL_cons, indegL_cons, contrib_congr (h m List.mem_cons_self),
      indegL_congr (fun m' hm' => h m' (List.mem_cons_of_mem _ hm'))]

theorem contrib_le_indegL {ids : List Nat} {dat : Nat → Data} {m : Nat} (hm : m ∈ ids) (x : Nat) :
    contrib dat x m ≤ indegL ids dat x := by
  unfold indegL
  exact Vata.R.le_sum_of_mem _ _ (List.mem_map.mpr ⟨m, hm, rfl⟩)

theorem indegL_fresh {ids : List Nat} {dat : Nat → Data} {n : Nat} (hC : Closed ids dat) (hn : n ∉ ids) :
    indegL ids dat n = 0 := by
  unfold indegL
  apply sum_eq_zero
  intro a ha
  obtain ⟨m, hm, rfl⟩ := List.mem_map.mp ha
  unfold contrib
  split
  · rfl
  · rename_i lo hi var hd
    obtain ⟨h1, h2⟩ := hC m hm lo hi var hd
    have e1 : lo ≠ n := fun e => hn (e ▸ h1)
    have e2 : hi ≠ n := fun e => hn (e ▸ h2)
    simp [e1, e2]

theorem cnt_zero {x : Nat} {l : List Nat} (h : x ∉ l) : cnt x l = 0 := List.count_eq_zero.mpr h
theorem cnt_pos {x : Nat} {l : List Nat} (h : x ∈ l) : 0 < cnt x l := List.count_pos_iff.mpr h
theorem cnt_nil (x : Nat) : cnt x [] = 0 := rfl

theorem cnt_roots_erase {h r x : Nat} : ∀ {hs : List (Nat × Nat)}, (h, r) ∈ hs →
    cnt x (hs.map (·.2)) = cnt x ((hs.erase (h, r)).map (·.2)) + (if r = x then 1 else 0)
  | [], hm => by simp at hm
  | e :: t, hm => by
    by_cases he : e = (h, r)
    · subst he
      simp only [List.erase_cons_head, List.map_cons, Vata.R.cnt_cons]
      omega
    · have hm' : (h, r) ∈ t := by
        rcases List.mem_cons.mp hm with hm | hm
        · exact absurd hm.symm he
        · exact hm
      have ih := cnt_roots_erase (x := x) hm'
      rw [List.erase_cons_tail (by simpa using he)]
      simp only [List.map_cons, Vata.R.cnt_cons]
      omega

/-- what freeing a node whose counter is 0 does to the counting invariant -/
theorem free_core {ids : List Nat} {dat : Nat → Data} {rc : Nat → Nat} {roots P : List Nat} {n : Nat}
    (hnd : ids.Nodup) (hn : n ∈ ids) (hJ : J ids dat rc roots P) (hz : rc n = 0) (hC : Closed ids dat) :
    n ∉ P ∧ n ∉ roots ∧ (∀ m, m ∈ ids → ∀ lo hi var, dat m = .int lo hi var → lo ≠ n ∧ hi ≠ n) ∧
    Closed (ids.erase n) dat ∧
    (∀ x, x ∈ ids.erase n → rc x = indegL (ids.erase n) dat x + contrib dat x n + cnt x roots + cnt x P) := by
  have hrc := hJ n hn
  have hPn : n ∉ P := fun hp => by have := cnt_pos hp; omega
  have hRn : n ∉ roots := fun hp => by have := cnt_pos hp; omega
  have hCn : ∀ m, m ∈ ids → ∀ lo hi var, dat m = .int lo hi var → lo ≠ n ∧ hi ≠ n := by
    intro m hm lo hi var hd
    have hle := contrib_le_indegL (dat := dat) hm n
    have h0 : contrib dat n m = 0 := by omega
    rw [Vata.R.contrib_int hd] at h0
    constructor
    · intro e; simp [e] at h0
    · intro e; simp [e] at h0
  refine ⟨hPn, hRn, hCn, ?_, ?_⟩
  · intro m hm lo hi var hd
    have hmS := List.mem_of_mem_erase hm
    obtain ⟨h1, h2⟩ := hC m hmS lo hi var hd
    obtain ⟨h3, h4⟩ := hCn m hmS lo hi var hd
    exact ⟨(List.mem_erase_of_ne h3).mpr h1, (List.mem_erase_of_ne h4).mpr h2⟩
  · intro x hx
    have hxS : x ∈ ids := List.mem_of_mem_erase hx
    have h1 := hJ x hxS
    have h2 := Vata.R.indegL_erase dat x n ids hn hnd
    omega

/-! ## the invariant -/

def roots (s : Store) : List Nat := s.hs.map (·.2)

/-- everything except "no allocated node has counter 0"; `P` = decrements that are still to be done -/
structure WInv (s : Store) (P : List Nat) : Prop where
  nd      : s.ids.Nodup
  j       : J s.ids s.dat s.rc (roots s) P
  pin     : ∀ p, p ∈ P → p ∈ s.ids
  rin     : ∀ r, r ∈ roots s → r ∈ s.ids
  closed  : Closed s.ids s.dat
  ordered : ∀ m, m ∈ s.ids → ∀ lo hi var, s.dat m = .int lo hi var → lo < m ∧ hi < m
  fresh   : ∀ n, n ∈ s.ids → n < s.next
  leafK   : KeysNodup s.leafT
  leafOk  : ∀ v n, (v, n) ∈ s.leafT ↔ (n ∈ s.ids ∧ s.dat n = .leaf v)
  intK    : KeysNodup s.intT
  intOk   : ∀ (k : IKey) n, (k, n) ∈ s.intT ↔ (n ∈ s.ids ∧ s.dat n = .int k.1 k.2.1 k.2.2)
  hsK     : KeysNodup s.hs
  freedNd : s.freed.Nodup
  freedOk : ∀ n, n ∈ s.freed → n ∉ s.ids ∧ n < s.next
  noerr   : s.err = false

/-- no garbage: every allocated node is referred to -/
def NZ (s : Store) : Prop := ∀ n, n ∈ s.ids → s.rc n ≠ 0

/-- the invariant that holds between operations -/
def Inv (s : Store) : Prop := WInv s [] ∧ NZ s

theorem inv_empty : Inv empty := by
  refine ⟨⟨List.nodup_nil, ?_, ?_, ?_, ?_, ?_, ?_, ?_, ?_, ?_, ?_, ?_, List.nodup_nil, ?_, rfl⟩, ?_⟩
  all_goals first | (intro n hn; simp [empty, roots] at hn; done) | simp [KeysNodup, empty]

/-! ## release -/

theorem mem_erase_iff' {ids : List Nat} (hnd : ids.Nodup) {x n : Nat} : x ∈ ids.erase n ↔ x ≠ n ∧ x ∈ ids :=
  List.Nodup.mem_erase_iff hnd

theorem decRef_inv {s : Store} {n : Nat} {P : List Nat} (h : WInv s (n :: P)) :
    WInv (decRef s n) P ∧ (decRef s n).rc n = s.rc n - 1 ∧ (∀ x, x ≠ n → (decRef s n).rc x = s.rc x) := by
  have hn : n ∈ s.ids := h.pin n List.mem_cons_self
  have hrc := h.j n hn
  rw [Vata.R.cnt_cons] at hrc
  simp only [if_true] at hrc
  refine ⟨⟨h.nd, ?_, fun p hp => h.pin p (List.mem_cons_of_mem _ hp), h.rin, h.closed, h.ordered, h.fresh, h.leafK,
    h.leafOk, h.intK, h.intOk, h.hsK, h.freedNd, h.freedOk, ?_⟩, ?_, ?_⟩
  · intro x hx
    have := h.j x hx
    rw [Vata.R.cnt_cons] at this
    show decrRc s.rc n x = indegL s.ids s.dat x + cnt x (roots s) + cnt x P
    by_cases e : x = n
    · subst e; simp only [decrRc, if_true] at this ⊢; omega
    · simp only [decrRc, e, if_false, Ne.symm e] at this ⊢; omega
  · show (s.err || decide (s.rc n = 0) || !decide (n ∈ s.ids)) = false
    have h0 : s.rc n ≠ 0 := by omega
    simp [h.noerr, h0, hn]
  · show decrRc s.rc n n = _
    simp [decrRc]
  · intro x hx
    show decrRc s.rc n x = _
    simp [decrRc, hx]

theorem disposeLeaf_inv {s : Store} {n v : Nat} {P : List Nat} (h : WInv s P) (hn : n ∈ s.ids) (hz : s.rc n = 0)
    (hd : s.dat n = .leaf v) : WInv (disposeLeaf s n v) P := by
  obtain ⟨hPn, hRn, _, hC', hJ'⟩ := free_core h.nd hn h.j hz h.closed
  have hme : ∀ x, x ∈ s.ids.erase n ↔ x ≠ n ∧ x ∈ s.ids := fun x => mem_erase_iff' h.nd
  refine ⟨h.nd.erase n, ?_, ?_, ?_, hC', ?_, ?_, keysNodup_eraseKey h.leafK, ?_, h.intK, ?_, h.hsK, ?_, ?_, ?_⟩
  · intro x hx
    have := hJ' x hx
    rw [Vata.R.contrib_leaf hd] at this
    exact this
  · intro p hp
    exact (hme p).mpr ⟨fun e => hPn (e ▸ hp), h.pin p hp⟩
  · intro r hr
    exact (hme r).mpr ⟨fun e => hRn (e ▸ hr), h.rin r hr⟩
  · intro m hm
    exact h.ordered m ((hme m).mp hm).2
  · intro m hm
    exact h.fresh m ((hme m).mp hm).2
  · intro v' m
    show (v', m) ∈ eraseKey v s.leafT ↔ (m ∈ s.ids.erase n ∧ s.dat m = .leaf v')
    rw [mem_eraseKey, h.leafOk, hme]
    constructor
    · rintro ⟨⟨h1, h2⟩, h3⟩
      refine ⟨⟨?_, h1⟩, h2⟩
      intro e; subst e; rw [hd] at h2; cases h2; exact h3 rfl
    · rintro ⟨⟨h1, h2⟩, h3⟩
      refine ⟨⟨h2, h3⟩, ?_⟩
      intro e; subst e
      exact h1 (keys_inj h.leafK ((h.leafOk _ _).mpr ⟨h2, h3⟩) ((h.leafOk _ _).mpr ⟨hn, hd⟩))
  · intro k m
    show (k, m) ∈ s.intT ↔ (m ∈ s.ids.erase n ∧ _)
    rw [h.intOk, hme]
    constructor
    · rintro ⟨h1, h2⟩
      refine ⟨⟨?_, h1⟩, h2⟩
      intro e; subst e; rw [hd] at h2; cases h2
    · rintro ⟨⟨_, h2⟩, h3⟩
      exact ⟨h2, h3⟩
  · show (n :: s.freed).Nodup
    exact List.nodup_cons.mpr ⟨fun hf => (h.freedOk n hf).1 hn, h.freedNd⟩
  · intro m hm
    show m ∉ s.ids.erase n ∧ m < s.next
    rcases List.mem_cons.mp hm with e | hm
    · subst e
      exact ⟨fun hx => ((hme m).mp hx).1 rfl, h.fresh m hn⟩
    · exact ⟨fun hx => (h.freedOk m hm).1 ((hme m).mp hx).2, (h.freedOk m hm).2⟩
  · show (s.err || (find v s.leafT).isNone) = false
    rw [mem_find h.leafK ((h.leafOk _ _).mpr ⟨hn, hd⟩), h.noerr]; rfl

theorem unlinkInt_inv {s : Store} {n lo hi var : Nat} {P : List Nat} (h : WInv s P) (hn : n ∈ s.ids) (hz : s.rc n = 0)
    (hd : s.dat n = .int lo hi var) : WInv (unlinkInt s n (lo, hi, var)) (lo :: hi :: P) := by
  obtain ⟨hPn, hRn, hCn, hC', hJ'⟩ := free_core h.nd hn h.j hz h.closed
  have hme : ∀ x, x ∈ s.ids.erase n ↔ x ≠ n ∧ x ∈ s.ids := fun x => mem_erase_iff' h.nd
  obtain ⟨hlo, hhi⟩ := h.closed n hn lo hi var hd
  obtain ⟨hlon, hhin⟩ := hCn n hn lo hi var hd
  refine ⟨h.nd.erase n, ?_, ?_, ?_, hC', ?_, ?_, h.leafK, ?_, keysNodup_eraseKey h.intK, ?_, h.hsK, ?_, ?_, ?_⟩
  · intro x hx
    have := hJ' x hx
    rw [Vata.R.contrib_int hd] at this
    show s.rc x = indegL (s.ids.erase n) s.dat x + cnt x (roots s) + cnt x (lo :: hi :: P)
    rw [Vata.R.cnt_cons, Vata.R.cnt_cons]
    omega
  · intro p hp
    rcases List.mem_cons.mp hp with e | hp
    · subst e; exact (hme _).mpr ⟨hlon, hlo⟩
    rcases List.mem_cons.mp hp with e | hp
    · subst e; exact (hme _).mpr ⟨hhin, hhi⟩
    · exact (hme p).mpr ⟨fun e => hPn (e ▸ hp), h.pin p hp⟩
  · intro r hr
    exact (hme r).mpr ⟨fun e => hRn (e ▸ hr), h.rin r hr⟩
  · intro m hm
    exact h.ordered m ((hme m).mp hm).2
  · intro m hm
    exact h.fresh m ((hme m).mp hm).2
  · intro v' m
    show (v', m) ∈ s.leafT ↔ (m ∈ s.ids.erase n ∧ _)
    rw [h.leafOk, hme]
    constructor
    · rintro ⟨h1, h2⟩
      refine ⟨⟨?_, h1⟩, h2⟩
      intro e; subst e; rw [hd] at h2; cases h2
    · rintro ⟨⟨_, h2⟩, h3⟩
      exact ⟨h2, h3⟩
  · intro k m
    show (k, m) ∈ eraseKey (lo, hi, var) s.intT ↔ (m ∈ s.ids.erase n ∧ s.dat m = .int k.1 k.2.1 k.2.2)
    rw [mem_eraseKey, h.intOk, hme]
    constructor
    · rintro ⟨⟨h1, h2⟩, h3⟩
      refine ⟨⟨?_, h1⟩, h2⟩
      intro e; subst e; rw [hd] at h2; cases h2; exact h3 rfl
    · rintro ⟨⟨h1, h2⟩, h3⟩
      refine ⟨⟨h2, h3⟩, ?_⟩
      intro e; subst e
      exact h1 (keys_inj h.intK ((h.intOk _ _).mpr ⟨h2, h3⟩) ((h.intOk (lo, hi, var) _).mpr ⟨hn, hd⟩))
  · show (n :: s.freed).Nodup
    exact List.nodup_cons.mpr ⟨fun hf => (h.freedOk n hf).1 hn, h.freedNd⟩
  · intro m hm
    show m ∉ s.ids.erase n ∧ m < s.next
    rcases List.mem_cons.mp hm with e | hm
    · subst e
      exact ⟨fun hx => ((hme m).mp hx).1 rfl, h.fresh m hn⟩
    · exact ⟨fun hx => (h.freedOk m hm).1 ((hme m).mp hx).2, (h.freedOk m hm).2⟩
  · show (s.err || (find (lo, hi, var) s.intT).isNone) = false
    rw [mem_find h.intK ((h.intOk (lo, hi, var) _).mpr ⟨hn, hd⟩), h.noerr]; rfl

/-- `recursivelyDeleteMTBDDNode`: one pending decrement is carried out, everything that becomes unreferenced is freed,
    nothing else; `|ids| + 1` units of fuel are enough -/
theorem release_inv : ∀ (fuel : Nat) (s : Store) (n : Nat) (P : List Nat), WInv s (n :: P) → NZ s → s.ids.length < fuel →
    WInv (release fuel s n) P ∧ NZ (release fuel s n) ∧ (release fuel s n).dat = s.dat ∧
    (release fuel s n).hs = s.hs ∧ (release fuel s n).next = s.next ∧
    (release fuel s n).ids.length ≤ s.ids.length ∧ (∀ x, x ∈ (release fuel s n).ids → x ∈ s.ids)
  | 0, s, n, P, _, _, hf => by omega
  | fuel+1, s, n, P, h, hz, hf => by
    obtain ⟨h0, hrcn, hrcx⟩ := decRef_inv h
    have hn : n ∈ s.ids := h.pin n List.mem_cons_self
    have hzx : ∀ x, x ∈ s.ids → x ≠ n → (decRef s n).rc x ≠ 0 := fun x hx hxn => by
      rw [hrcx x hxn]; exact hz x hx
    have hlen : (s.ids.erase n).length + 1 = s.ids.length := by
      rw [List.length_erase_of_mem hn]
      have : 0 < s.ids.length := List.length_pos_of_mem hn
      omega
    simp only [release]
    split
    · rename_i hz0
      split
      · rename_i v hd
        refine ⟨disposeLeaf_inv h0 hn hz0 hd, ?_, rfl, rfl, rfl, ?_, ?_⟩
        · intro x hx
          have := (mem_erase_iff' h.nd).mp hx
          exact hzx x this.2 this.1
        · show (s.ids.erase n).length ≤ _
          omega
        · intro x hx; exact List.mem_of_mem_erase hx
      · rename_i lo hi var hd
        have h1 := unlinkInt_inv h0 hn hz0 hd
        have hz1 : NZ (unlinkInt (decRef s n) n (lo, hi, var)) := by
          intro x hx
          have := (mem_erase_iff' h.nd).mp hx
          exact hzx x this.2 this.1
        have hl1 : (unlinkInt (decRef s n) n (lo, hi, var)).ids.length < fuel := by
          show (s.ids.erase n).length < fuel
          omega
        obtain ⟨h2, hz2, hd2, hh2, hn2, hl2, hs2⟩ := release_inv fuel _ lo (hi :: P) h1 hz1 hl1
        obtain ⟨h3, hz3, hd3, hh3, hn3, hl3, hs3⟩ := release_inv fuel _ hi P h2 hz2 (by omega)
        refine ⟨h3, hz3, hd3.trans hd2, hh3.trans hh2, hn3.trans hn2, ?_, ?_⟩
        · have : (unlinkInt (decRef s n) n (lo, hi, var)).ids.length ≤ s.ids.length := by
            show (s.ids.erase n).length ≤ _
            omega
          omega
        · intro x hx
          exact List.mem_of_mem_erase (hs2 x (hs3 x hx))
    · rename_i hnz
      refine ⟨h0, ?_, rfl, rfl, rfl, Nat.le_refl _, fun x hx => hx⟩
      intro x hx
      by_cases e : x = n
      · subst e; exact hnz
      · exact hzx x hx e

/-! ## allocation -/

theorem setF_same {β : Type} (f : Nat → β) (n : Nat) (b : β) : setF f n b n = b := by simp [setF]
theorem setF_ne {β : Type} (f : Nat → β) {n x : Nat} (b : β) (h : x ≠ n) : setF f n b x = f x := by simp [setF, h]

/-- `s'` arises from `s` by allocations and increments only -/
structure Ext (s s' : Store) : Prop where
  ids  : ∀ x, x ∈ s.ids → x ∈ s'.ids
  dat  : ∀ x, x < s.next → s'.dat x = s.dat x
  hs   : s'.hs = s.hs
  next : s.next ≤ s'.next

theorem Ext.refl (s : Store) : Ext s s := ⟨fun _ h => h, fun _ _ => rfl, rfl, Nat.le_refl _⟩
theorem Ext.trans {s1 s2 s3 : Store} (a : Ext s1 s2) (b : Ext s2 s3) : Ext s1 s3 :=
  ⟨fun x h => b.ids x (a.ids x h), fun x h => (b.dat x (Nat.lt_of_lt_of_le h a.next)).trans (a.dat x h),
   b.hs.trans a.hs, Nat.le_trans a.next b.next⟩

/-- all allocated nodes with counter 0 are in `A` -/
def ZSub (s : Store) (A : List Nat) : Prop := ∀ x, x ∈ s.ids → s.rc x = 0 → x ∈ A

theorem ZSub.mono {s : Store} {A B : List Nat} (h : ZSub s A) (hAB : ∀ x, x ∈ A → x ∈ B) : ZSub s B :=
  fun x hx hz => hAB x (h x hx hz)

theorem zsub_nil_iff {s : Store} : ZSub s [] ↔ NZ s :=
  ⟨fun h n hn hz => by have := h n hn hz; simp at this, fun h n hn hz => absurd hz (h n hn)⟩

/-- a fresh node `s.next` with contents `d` and counter 0 whose children (if any) have been incremented -/
theorem alloc_inv {s s' : Store} {d : Data} (h : WInv s [])
    (hids : s'.ids = s.next :: s.ids) (hdat : s'.dat = setF s.dat s.next d) (hrcN : s'.rc s.next = 0)
    (hrc : ∀ x, x ∈ s.ids → s'.rc x = s.rc x + contrib s'.dat x s.next)
    (hkids : ∀ lo hi var, d = .int lo hi var → lo ∈ s.ids ∧ hi ∈ s.ids)
    (hhs : s'.hs = s.hs) (hnext : s'.next = s.next + 1) (hfreed : s'.freed = s.freed) (herr : s'.err = s.err)
    (hLK : KeysNodup s'.leafT)
    (hL : ∀ v n, (v, n) ∈ s'.leafT ↔ ((v, n) ∈ s.leafT ∨ (n = s.next ∧ d = .leaf v)))
    (hIK : KeysNodup s'.intT)
    (hI : ∀ (k : IKey) n, (k, n) ∈ s'.intT ↔ ((k, n) ∈ s.intT ∨ (n = s.next ∧ d = .int k.1 k.2.1 k.2.2))) :
    WInv s' [] ∧ Ext s s' := by
  have hN : s.next ∉ s.ids := fun hm => Nat.lt_irrefl _ (h.fresh _ hm)
  have hne : ∀ x, x ∈ s.ids → x ≠ s.next := fun x hx e => hN (e ▸ hx)
  have hdN : s'.dat s.next = d := by rw [hdat, setF_same]
  have hdx : ∀ x, x ≠ s.next → s'.dat x = s.dat x := fun x hx => by rw [hdat, setF_ne _ _ hx]
  have hroots : roots s' = roots s := by unfold roots; rw [hhs]
  have hmem : ∀ x, x ∈ s'.ids ↔ (x = s.next ∨ x ∈ s.ids) := fun x => by rw [hids, List.mem_cons]
  have hlt : ∀ lo hi var, d = .int lo hi var → lo < s.next ∧ hi < s.next := fun lo hi var e =>
    ⟨h.fresh _ (hkids lo hi var e).1, h.fresh _ (hkids lo hi var e).2⟩
  refine ⟨⟨?_, ?_, ?_, ?_, ?_, ?_, ?_, hLK, ?_, hIK, ?_, ?_, ?_, ?_, ?_⟩, ?_⟩
  · rw [hids]; exact List.nodup_cons.mpr ⟨hN, h.nd⟩
  · intro x hx
    rw [hroots, hids, indegL_cons, indegL_congr (fun m hm => hdx m (hne m hm)), cnt_nil]
    rcases (hmem x).mp hx with e | hx
    · subst e
      rw [hrcN, indegL_fresh h.closed hN, cnt_zero (fun hr => hN (h.rin _ hr))]
      have : contrib s'.dat s.next s.next = 0 := by
        unfold contrib
        rw [hdN]
        split
        · rfl
        · rename_i lo hi var
          have := hlt lo hi var rfl
          have e1 : lo ≠ s.next := by omega
          have e2 : hi ≠ s.next := by omega
          simp [e1, e2]
      omega
    · have := h.j x hx
      rw [cnt_nil] at this
      rw [hrc x hx]
      omega
  · intro p hp; simp at hp
  · intro r hr
    rw [hroots] at hr
    exact (hmem r).mpr (Or.inr (h.rin r hr))
  · intro m hm lo hi var hd
    rcases (hmem m).mp hm with e | hm
    · subst e
      rw [hdN] at hd
      obtain ⟨h1, h2⟩ := hkids lo hi var hd
      exact ⟨(hmem _).mpr (Or.inr h1), (hmem _).mpr (Or.inr h2)⟩
    · rw [hdx m (hne m hm)] at hd
      obtain ⟨h1, h2⟩ := h.closed m hm lo hi var hd
      exact ⟨(hmem _).mpr (Or.inr h1), (hmem _).mpr (Or.inr h2)⟩
  · intro m hm lo hi var hd
    rcases (hmem m).mp hm with e | hm
    · subst e
      rw [hdN] at hd
      exact hlt lo hi var hd
    · rw [hdx m (hne m hm)] at hd
      exact h.ordered m hm lo hi var hd
  · intro n hn
    rw [hnext]
    rcases (hmem n).mp hn with e | hn
    · omega
    · have := h.fresh n hn; omega
  · intro v n
    rw [hL, hmem, h.leafOk]
    constructor
    · rintro (⟨h1, h2⟩ | ⟨h1, h2⟩)
      · exact ⟨Or.inr h1, by rw [hdx n (hne n h1)]; exact h2⟩
      · subst h1; exact ⟨Or.inl rfl, by rw [hdN]; exact h2⟩
    · rintro ⟨h1 | h1, h2⟩
      · subst h1; rw [hdN] at h2; exact Or.inr ⟨rfl, h2⟩
      · rw [hdx n (hne n h1)] at h2; exact Or.inl ⟨h1, h2⟩
  · intro k n
    rw [hI, hmem, h.intOk]
    constructor
    · rintro (⟨h1, h2⟩ | ⟨h1, h2⟩)
      · exact ⟨Or.inr h1, by rw [hdx n (hne n h1)]; exact h2⟩
      · subst h1; exact ⟨Or.inl rfl, by rw [hdN]; exact h2⟩
    · rintro ⟨h1 | h1, h2⟩
      · subst h1; rw [hdN] at h2; exact Or.inr ⟨rfl, h2⟩
      · rw [hdx n (hne n h1)] at h2; exact Or.inl ⟨h1, h2⟩
  · rw [hhs]; exact h.hsK
  · rw [hfreed]; exact h.freedNd
  · intro n hn
    rw [hfreed] at hn
    obtain ⟨h1, h2⟩ := h.freedOk n hn
    rw [hnext, hmem]
    refine ⟨?_, by omega⟩
    rintro (e | hx)
    · omega
    · exact h1 hx
  · rw [herr]; exact h.noerr
  · exact ⟨fun x hx => (hmem x).mpr (Or.inr hx), fun x hx => hdx x (by omega), hhs, by omega⟩

theorem allocLeaf_inv {s : Store} {v : Nat} (h : WInv s []) (hf : find v s.leafT = none) :
    WInv (allocLeaf s v) [] ∧ Ext s (allocLeaf s v) := by
  have hN : s.next ∉ s.ids := fun hm => Nat.lt_irrefl _ (h.fresh _ hm)
  have hdN : (allocLeaf s v).dat s.next = .leaf v := setF_same _ _ _
  refine alloc_inv (d := .leaf v) h rfl rfl (setF_same _ _ _) ?_ ?_ rfl rfl rfl rfl ?_ ?_ h.intK ?_
  · intro x hx
    have hxn : x ≠ s.next := fun e => hN (e ▸ hx)
    rw [Vata.R.contrib_leaf hdN]
    show setF s.rc s.next 0 x = _
    rw [setF_ne _ _ hxn]; rfl
  · intro lo hi var e; cases e
  · exact keysNodup_cons h.leafK (find_none_not_mem hf)
  · intro v' n
    show (v', n) ∈ (v, s.next) :: s.leafT ↔ _
    rw [List.mem_cons]
    constructor
    · rintro (e | hm)
      · cases e; exact Or.inr ⟨rfl, rfl⟩
      · exact Or.inl hm
    · rintro (hm | ⟨e1, e2⟩)
      · exact Or.inr hm
      · cases e2; subst e1; exact Or.inl rfl
  · intro k n
    show (k, n) ∈ s.intT ↔ _
    constructor
    · exact Or.inl
    · rintro (hm | ⟨_, e2⟩)
      · exact hm
      · cases e2

theorem allocInt_rc {s : Store} {lo hi var : Nat} {x : Nat} (hx : x ≠ s.next) :
    (allocInt s lo hi var).rc x = s.rc x + ((if lo = x then 1 else 0) + (if hi = x then 1 else 0)) := by
  show incrRc (incrRc (setF s.rc s.next 0) lo) hi x = _
  by_cases e1 : hi = x <;> by_cases e2 : lo = x
  · subst e1; subst e2; simp [incrRc, setF, hx]
  · subst e1; simp [incrRc, setF, hx, e2, Ne.symm e2]
  · subst e2; simp [incrRc, setF, hx, e1, Ne.symm e1]
  · simp [incrRc, setF, hx, e1, e2, Ne.symm e1, Ne.symm e2]

theorem allocInt_inv {s : Store} {lo hi var : Nat} (h : WInv s []) (hlo : lo ∈ s.ids) (hhi : hi ∈ s.ids)
    (hf : find (lo, hi, var) s.intT = none) :
    WInv (allocInt s lo hi var) [] ∧ Ext s (allocInt s lo hi var) := by
  have hN : s.next ∉ s.ids := fun hm => Nat.lt_irrefl _ (h.fresh _ hm)
  have hdN : (allocInt s lo hi var).dat s.next = .int lo hi var := setF_same _ _ _
  have hloN : lo ≠ s.next := fun e => hN (e ▸ hlo)
  have hhiN : hi ≠ s.next := fun e => hN (e ▸ hhi)
  refine alloc_inv (d := .int lo hi var) h rfl rfl ?_ ?_ ?_ rfl rfl rfl rfl h.leafK ?_ ?_ ?_
  · show incrRc (incrRc (setF s.rc s.next 0) lo) hi s.next = 0
    simp [incrRc, setF, Ne.symm hloN, Ne.symm hhiN]
  · intro x hx
    have hxn : x ≠ s.next := fun e => hN (e ▸ hx)
    rw [Vata.R.contrib_int hdN, allocInt_rc hxn]
  · intro lo' hi' var' e; cases e; exact ⟨hlo, hhi⟩
  · intro v' n
    show (v', n) ∈ s.leafT ↔ _
    constructor
    · exact Or.inl
    · rintro (hm | ⟨_, e2⟩)
      · exact hm
      · cases e2
  · exact keysNodup_cons h.intK (find_none_not_mem hf)
  · intro k n
    show (k, n) ∈ ((lo, hi, var), s.next) :: s.intT ↔ _
    rw [List.mem_cons]
    constructor
    · rintro (e | hm)
      · cases e; exact Or.inr ⟨rfl, rfl⟩
      · exact Or.inl hm
    · rintro (hm | ⟨e1, e2⟩)
      · exact Or.inr hm
      · obtain ⟨k1, k2, k3⟩ := k
        cases e2; subst e1; exact Or.inl rfl

/-! ## hash‑consing spawns -/

theorem spawnLeaf_inv {s : Store} {v : Nat} (h : WInv s []) :
    WInv (spawnLeaf s v).1 [] ∧ Ext s (spawnLeaf s v).1 ∧ (spawnLeaf s v).2 ∈ (spawnLeaf s v).1.ids ∧
    (spawnLeaf s v).1.dat (spawnLeaf s v).2 = .leaf v ∧
    (∀ A, ZSub s A → ZSub (spawnLeaf s v).1 ((spawnLeaf s v).2 :: A)) := by
  unfold spawnLeaf
  split
  · rename_i n hf
    have := (h.leafOk v n).mp (find_some_mem hf)
    exact ⟨h, Ext.refl s, this.1, this.2, fun A hA => hA.mono (fun x hx => List.mem_cons_of_mem _ hx)⟩
  · rename_i hf
    obtain ⟨hw, he⟩ := allocLeaf_inv h hf
    have hN : s.next ∉ s.ids := fun hm => Nat.lt_irrefl _ (h.fresh _ hm)
    refine ⟨hw, he, List.mem_cons_self, setF_same _ _ _, ?_⟩
    intro A hA x hx hz
    dsimp only at hx hz ⊢
    rcases List.mem_cons.mp hx with e | hx'
    · exact e ▸ List.mem_cons_self
    · have hxn : x ≠ s.next := fun e => hN (e ▸ hx')
      have hrc : (allocLeaf s v).rc x = s.rc x := setF_ne _ _ hxn
      exact List.mem_cons_of_mem _ (hA x hx' (hrc ▸ hz))

theorem rc_pos_of_child {s : Store} {P : List Nat} (h : WInv s P) {m lo hi var : Nat} (hm : m ∈ s.ids)
    (hd : s.dat m = .int lo hi var) : s.rc lo ≠ 0 ∧ s.rc hi ≠ 0 := by
  obtain ⟨hlo, hhi⟩ := h.closed m hm lo hi var hd
  have h1 := h.j lo hlo
  have h2 := h.j hi hhi
  have c1 := contrib_le_indegL (dat := s.dat) hm lo
  have c2 := contrib_le_indegL (dat := s.dat) hm hi
  rw [Vata.R.contrib_int hd] at c1 c2
  simp only [if_true] at c1 c2
  constructor <;> omega

theorem spawnInternal_inv {s : Store} {lo hi var : Nat} (h : WInv s []) (hlo : lo ∈ s.ids) (hhi : hi ∈ s.ids) :
    WInv (spawnInternal s lo hi var).1 [] ∧ Ext s (spawnInternal s lo hi var).1 ∧
    (spawnInternal s lo hi var).2 ∈ (spawnInternal s lo hi var).1.ids ∧
    (spawnInternal s lo hi var).1.dat (spawnInternal s lo hi var).2 = .int lo hi var ∧
    (∀ A, ZSub s (lo :: hi :: A) → ZSub (spawnInternal s lo hi var).1 ((spawnInternal s lo hi var).2 :: A)) := by
  unfold spawnInternal
  split
  · rename_i n hf
    have := (h.intOk (lo, hi, var) n).mp (find_some_mem hf)
    refine ⟨h, Ext.refl s, this.1, this.2, ?_⟩
    intro A hA x hx hz
    dsimp only at hx hz ⊢
    obtain ⟨p1, p2⟩ := rc_pos_of_child h this.1 this.2
    rcases List.mem_cons.mp (hA x hx hz) with e | hm
    · subst e; exact absurd hz p1
    rcases List.mem_cons.mp hm with e | hm
    · subst e; exact absurd hz p2
    · exact List.mem_cons_of_mem _ hm
  · rename_i hf
    obtain ⟨hw, he⟩ := allocInt_inv h hlo hhi hf
    have hN : s.next ∉ s.ids := fun hm => Nat.lt_irrefl _ (h.fresh _ hm)
    refine ⟨hw, he, List.mem_cons_self, setF_same _ _ _, ?_⟩
    intro A hA x hx hz
    dsimp only at hx hz ⊢
    rcases List.mem_cons.mp hx with e | hx'
    · exact e ▸ List.mem_cons_self
    · have hxn : x ≠ s.next := fun e => hN (e ▸ hx')
      rw [allocInt_rc hxn] at hz
      have e1 : lo ≠ x := fun e => by simp [e] at hz
      have e2 : hi ≠ x := fun e => by simp [e] at hz
      have hz' : s.rc x = 0 := by omega
      rcases List.mem_cons.mp (hA x hx' hz') with e | hm
      · exact absurd e.symm e1
      rcases List.mem_cons.mp hm with e | hm
      · exact absurd e.symm e2
      · exact List.mem_cons_of_mem _ hm

/-! ## frames -/

/-- what an operation with target handle `t` leaves alone: contents of the existing nodes, the other handles -/
structure Frame (t : Nat) (s s' : Store) : Prop where
  next : s.next ≤ s'.next
  dat  : ∀ x, x < s.next → s'.dat x = s.dat x
  hs   : ∀ h r, (h, r) ∈ s.hs → h ≠ t → (h, r) ∈ s'.hs
  hs'  : ∀ h r, (h, r) ∈ s'.hs → h ≠ t → (h, r) ∈ s.hs

theorem Frame.refl (t : Nat) (s : Store) : Frame t s s := ⟨Nat.le_refl _, fun _ _ => rfl, fun _ _ h _ => h, fun _ _ h _ => h⟩
theorem Frame.trans {t : Nat} {s1 s2 s3 : Store} (a : Frame t s1 s2) (b : Frame t s2 s3) : Frame t s1 s3 :=
  ⟨Nat.le_trans a.next b.next, fun x h => (b.dat x (Nat.lt_of_lt_of_le h a.next)).trans (a.dat x h),
   fun h r hm ht => b.hs h r (a.hs h r hm ht) ht, fun h r hm ht => a.hs' h r (b.hs' h r hm ht) ht⟩
theorem Ext.frame {s s' : Store} (e : Ext s s') (t : Nat) : Frame t s s' :=
  ⟨e.next, e.dat, fun _ _ hm _ => e.hs ▸ hm, fun _ _ hm _ => e.hs ▸ hm⟩
theorem frame_addHandle (s : Store) (h r : Nat) : Frame h s (addHandle s h r) :=
  ⟨Nat.le_refl _, fun _ _ => rfl, fun _ _ hm _ => List.mem_cons_of_mem _ hm, fun h' r' hm ht => by
    rcases List.mem_cons.mp (show (h', r') ∈ (h, r) :: s.hs from hm) with e | hm
    · cases e; exact absurd rfl ht
    · exact hm⟩
theorem frame_disposeLeaf (t : Nat) (s : Store) (n v : Nat) : Frame t s (disposeLeaf s n v) :=
  ⟨Nat.le_refl _, fun _ _ => rfl, fun _ _ hm _ => hm, fun _ _ hm _ => hm⟩

/-! ## handles -/

theorem root_mem {s : Store} {h r : Nat} (hf : find h s.hs = some r) : r ∈ roots s :=
  List.mem_map.mpr ⟨(h, r), find_some_mem hf, rfl⟩

theorem addHandle_inv {s : Store} {h r : Nat} (hw : WInv s []) (hr : r ∈ s.ids) (hf : find h s.hs = none) :
    WInv (addHandle s h r) [] ∧ (ZSub s [r] → NZ (addHandle s h r)) := by
  refine ⟨⟨hw.nd, ?_, hw.pin, ?_, hw.closed, hw.ordered, hw.fresh, hw.leafK, hw.leafOk, hw.intK, hw.intOk, ?_,
    hw.freedNd, hw.freedOk, hw.noerr⟩, ?_⟩
  · intro x hx
    have := hw.j x hx
    show incrRc s.rc r x = indegL s.ids s.dat x + cnt x (r :: roots s) + cnt x []
    rw [Vata.R.cnt_cons]
    by_cases e : x = r
    · subst e; simp only [incrRc, if_true]; omega
    · simp only [incrRc, e, Ne.symm e, if_false]; omega
  · intro r' hr'
    rcases List.mem_cons.mp (show r' ∈ r :: roots s from hr') with e | hm
    · exact e ▸ hr
    · exact hw.rin r' hm
  · exact keysNodup_cons hw.hsK (find_none_not_mem hf)
  · intro hz x hx
    show incrRc s.rc r x ≠ 0
    by_cases e : x = r
    · subst e; simp [incrRc]
    · simp only [incrRc, e, if_false]
      intro h0
      have := hz x hx h0
      simp at this
      exact e this

theorem copy_inv {s : Store} {src dst : Nat} (h : Inv s) : Inv (copy s src dst) ∧ Frame dst s (copy s src dst) := by
  unfold copy
  split
  · rename_i r hf1 hf2
    have hr : r ∈ s.ids := h.1.rin r (root_mem hf1)
    obtain ⟨h1, h2⟩ := addHandle_inv h.1 hr hf2
    exact ⟨⟨h1, h2 ((zsub_nil_iff.mpr h.2).mono (fun x hx => by simp at hx))⟩, frame_addHandle _ _ _⟩
  · exact ⟨h, Frame.refl _ _⟩

theorem hsErase_inv {s : Store} {h r : Nat} (hw : WInv s []) (hm : (h, r) ∈ s.hs) :
    WInv { s with hs := s.hs.erase (h, r) } [r] := by
  have hr : r ∈ s.ids := hw.rin r (List.mem_map.mpr ⟨(h, r), hm, rfl⟩)
  refine ⟨hw.nd, ?_, ?_, ?_, hw.closed, hw.ordered, hw.fresh, hw.leafK, hw.leafOk, hw.intK, hw.intOk,
    keysNodup_erase hw.hsK, hw.freedNd, hw.freedOk, hw.noerr⟩
  · intro x hx
    have := hw.j x hx
    have e := cnt_roots_erase (x := x) hm
    show s.rc x = indegL s.ids s.dat x + cnt x ((s.hs.erase (h, r)).map (·.2)) + cnt x [r]
    rw [Vata.R.cnt_cons, cnt_nil]
    rw [cnt_nil] at this
    unfold roots at this
    omega
  · intro p hp
    simp at hp
    exact hp ▸ hr
  · intro r' hr'
    obtain ⟨e, he, rfl⟩ := List.mem_map.mp (show r' ∈ (s.hs.erase (h, r)).map (·.2) from hr')
    exact hw.rin _ (List.mem_map.mpr ⟨e, List.mem_of_mem_erase he, rfl⟩)

theorem destroy_inv {s : Store} {h : Nat} (hi : Inv s) :
    Inv (destroy s h) ∧ Frame h s (destroy s h) ∧ (∀ r, (h, r) ∉ (destroy s h).hs) := by
  unfold destroy
  split
  · rename_i hf
    exact ⟨hi, Frame.refl _ _, find_none_not_mem hf⟩
  · rename_i r hf
    have hm := find_some_mem hf
    have h1 := hsErase_inv hi.1 hm
    obtain ⟨h2, h3, hd, hh, hn, _⟩ := release_inv (s.ids.length + 1) _ r [] h1 hi.2 (Nat.lt_succ_self _)
    refine ⟨⟨h2, h3⟩, ⟨Nat.le_of_eq hn.symm, fun x _ => by rw [hd], ?_, ?_⟩, ?_⟩
    · intro h' r' hm' ht
      rw [hh]
      exact (List.mem_erase_of_ne (fun e => ht (by cases e; rfl))).mpr hm'
    · intro h' r' hm' _
      rw [hh] at hm'
      exact List.mem_of_mem_erase hm'
    · intro r' hm'
      rw [hh] at hm'
      have hm'' : (h, r') ∈ s.hs.erase (h, r) := hm'
      have e := keys_inj hi.1.hsK (List.mem_of_mem_erase hm'') hm
      subst e
      exact ((List.Nodup.mem_erase_iff (nodup_of_keysNodup hi.1.hsK)).mp hm'').1 rfl

theorem assign_inv {s : Store} {src dst : Nat} (hi : Inv s) : Inv (assign s src dst) ∧ Frame dst s (assign s src dst) := by
  unfold assign
  split
  · exact ⟨hi, Frame.refl _ _⟩
  · split
    · obtain ⟨h1, f1, _⟩ := destroy_inv (h := dst) hi
      obtain ⟨h2, f2⟩ := copy_inv (src := src) (dst := dst) h1
      exact ⟨h2, f1.trans f2⟩
    · exact ⟨hi, Frame.refl _ _⟩

/-! ## apply -/

theorem br_true_isInt {d1 d2 : Data} (h : br d1 d2 = true) : isInt d1 = true := by
  cases d1 <;> cases d2 <;> simp_all [br, isInt]

theorem kids_single {s : Store} (h : WInv s []) {n : Nat} (hn : n ∈ s.ids) (b : Bool) :
    (kids (s.dat n) b n).1 ∈ s.ids ∧ (kids (s.dat n) b n).2 ∈ s.ids ∧
    (kids (s.dat n) b n).1 ≤ n ∧ (kids (s.dat n) b n).2 ≤ n ∧
    (b = true → isInt (s.dat n) = true → (kids (s.dat n) b n).1 < n ∧ (kids (s.dat n) b n).2 < n) := by
  cases hd : s.dat n with
  | leaf v =>
    simp only [kids, isInt]
    exact ⟨hn, hn, Nat.le_refl _, Nat.le_refl _, fun _ h => by cases h⟩
  | int lo hi var =>
    obtain ⟨c1, c2⟩ := h.closed n hn lo hi var hd
    obtain ⟨o1, o2⟩ := h.ordered n hn lo hi var hd
    cases b
    · simp only [kids]
      exact ⟨hn, hn, Nat.le_refl _, Nat.le_refl _, fun h _ => by cases h⟩
    · simp only [kids]
      exact ⟨c1, c2, Nat.le_of_lt o1, Nat.le_of_lt o2, fun _ _ => ⟨o1, o2⟩⟩

theorem kids_ok {s : Store} (h : WInv s []) {n1 n2 : Nat} (h1 : n1 ∈ s.ids) (h2 : n2 ∈ s.ids)
    (hb : ¬ (br (s.dat n1) (s.dat n2) = false ∧ br (s.dat n2) (s.dat n1) = false)) :
    (kids (s.dat n1) (br (s.dat n1) (s.dat n2)) n1).1 ∈ s.ids ∧ (kids (s.dat n1) (br (s.dat n1) (s.dat n2)) n1).2 ∈ s.ids ∧
    (kids (s.dat n2) (br (s.dat n2) (s.dat n1)) n2).1 ∈ s.ids ∧ (kids (s.dat n2) (br (s.dat n2) (s.dat n1)) n2).2 ∈ s.ids ∧
    (kids (s.dat n1) (br (s.dat n1) (s.dat n2)) n1).1 + (kids (s.dat n2) (br (s.dat n2) (s.dat n1)) n2).1 < n1 + n2 ∧
    (kids (s.dat n1) (br (s.dat n1) (s.dat n2)) n1).2 + (kids (s.dat n2) (br (s.dat n2) (s.dat n1)) n2).2 < n1 + n2 := by
  obtain ⟨a1, a2, a3, a4, a5⟩ := kids_single h h1 (br (s.dat n1) (s.dat n2))
  obtain ⟨b1, b2, b3, b4, b5⟩ := kids_single h h2 (br (s.dat n2) (s.dat n1))
  refine ⟨a1, a2, b1, b2, ?_⟩
  cases e1 : br (s.dat n1) (s.dat n2) with
  | true =>
    have := a5 e1 (br_true_isInt e1)
    rw [e1] at this a3 a4
    constructor <;> omega
  | false =>
    cases e2 : br (s.dat n2) (s.dat n1) with
    | true =>
      have := b5 e2 (br_true_isInt e2)
      rw [e2] at this b3 b4
      rw [e1] at a3 a4
      constructor <;> omega
    | false => exact absurd ⟨e1, e2⟩ hb

theorem recDescend_inv (f : Nat → Nat → Nat) : ∀ (fuel : Nat) (s : Store) (n1 n2 : Nat), WInv s [] → n1 ∈ s.ids → n2 ∈ s.ids →
    n1 + n2 < fuel →
    WInv (recDescend f fuel s n1 n2).1 [] ∧ Ext s (recDescend f fuel s n1 n2).1 ∧
    (recDescend f fuel s n1 n2).2 ∈ (recDescend f fuel s n1 n2).1.ids ∧
    (∀ A, ZSub s A → ZSub (recDescend f fuel s n1 n2).1 ((recDescend f fuel s n1 n2).2 :: A))
  | 0, _, _, _, _, _, _, hf => by omega
  | fuel+1, s, n1, n2, h, h1, h2, hf => by
    simp only [recDescend]
    split
    · obtain ⟨a, b, c, _, e⟩ := spawnLeaf_inv (v := f (valOf (s.dat n1)) (valOf (s.dat n2))) h
      exact ⟨a, b, c, e⟩
    · rename_i hb
      obtain ⟨k11, k12, k21, k22, l1, l2⟩ := kids_ok h h1 h2 hb
      obtain ⟨w1, e1, m1, z1⟩ := recDescend_inv f fuel s _ _ h k11 k21 (by omega)
      obtain ⟨w2, e2, m2, z2⟩ := recDescend_inv f fuel _ _ _ w1 (e1.ids _ k12) (e1.ids _ k22) (by omega)
      split
      · rename_i heq
        refine ⟨w2, e1.trans e2, e2.ids _ m1, ?_⟩
        intro A hA
        refine (z2 _ (z1 A hA)).mono ?_
        intro x hx
        rcases List.mem_cons.mp hx with e | hx
        · rw [e, ← heq]; exact List.mem_cons_self
        · exact hx
      · obtain ⟨w3, e3, m3, _, z3⟩ := spawnInternal_inv
          (var := if br (s.dat n2) (s.dat n1) = true then varOf (s.dat n2) else varOf (s.dat n1)) w2 (e2.ids _ m1) m2
        refine ⟨w3, (e1.trans e2).trans e3, m3, ?_⟩
        intro A hA
        refine z3 A ((z2 _ (z1 A hA)).mono ?_)
        intro x hx
        rcases List.mem_cons.mp hx with e | hx
        · exact e ▸ List.mem_cons_of_mem _ List.mem_cons_self
        rcases List.mem_cons.mp hx with e | hx
        · exact e ▸ List.mem_cons_self
        · exact List.mem_cons_of_mem _ (List.mem_cons_of_mem _ hx)

theorem apply2_inv (f : Nat → Nat → Nat) {s : Store} {a b dst : Nat} (hi : Inv s) :
    Inv (apply2 f s a b dst) ∧ Frame dst s (apply2 f s a b dst) := by
  unfold apply2
  split
  · rename_i ra rb hfa hfb hfd
    have hra : ra ∈ s.ids := hi.1.rin ra (root_mem hfa)
    have hrb : rb ∈ s.ids := hi.1.rin rb (root_mem hfb)
    obtain ⟨w, e, m, z⟩ := recDescend_inv f (ra + rb + 1) s ra rb hi.1 hra hrb (Nat.lt_succ_self _)
    obtain ⟨h1, h2⟩ := addHandle_inv (h := dst) w m (by rw [e.hs]; exact hfd)
    exact ⟨⟨h1, h2 (z [] (zsub_nil_iff.mpr hi.2))⟩, (e.frame dst).trans (frame_addHandle _ _ _)⟩
  · exact ⟨hi, Frame.refl _ _⟩

/-! ## construct -/

theorem buildCube_inv (sink : Nat) : ∀ (as : List (Option Bool)) (s : Store) (proc i : Nat), WInv s [] → sink ∈ s.ids →
    proc ∈ s.ids →
    WInv (buildCube sink s proc i as).1 [] ∧ Ext s (buildCube sink s proc i as).1 ∧
    (buildCube sink s proc i as).2 ∈ (buildCube sink s proc i as).1.ids ∧
    (buildCube sink s proc i as = (s, proc) ∨
      ((∃ lo hi var, (buildCube sink s proc i as).1.dat (buildCube sink s proc i as).2 = .int lo hi var) ∧
       ∀ A, ZSub s (proc :: sink :: A) → ZSub (buildCube sink s proc i as).1 ((buildCube sink s proc i as).2 :: A)))
  | [], s, proc, i, h, _, hp => ⟨h, Ext.refl s, hp, Or.inl rfl⟩
  | none :: as, s, proc, i, h, hs, hp => by
    simp only [buildCube]
    exact buildCube_inv sink as s proc (i+1) h hs hp
  | some true :: as, s, proc, i, h, hs, hp => by
    simp only [buildCube]
    obtain ⟨w1, e1, m1, d1, z1⟩ := spawnInternal_inv (var := i) h hs hp
    obtain ⟨w2, e2, m2, dj⟩ := buildCube_inv sink as _ _ (i+1) w1 (e1.ids _ hs) m1
    refine ⟨w2, e1.trans e2, m2, Or.inr ?_⟩
    have zz : ∀ A, ZSub s (proc :: sink :: A) → ZSub (spawnInternal s sink proc i).1 ((spawnInternal s sink proc i).2 :: A) := by
      intro A hA
      refine z1 A (hA.mono ?_)
      intro x hx
      rcases List.mem_cons.mp hx with e | hx
      · exact e ▸ List.mem_cons_of_mem _ List.mem_cons_self
      rcases List.mem_cons.mp hx with e | hx
      · exact e ▸ List.mem_cons_self
      · exact List.mem_cons_of_mem _ (List.mem_cons_of_mem _ hx)
    rcases dj with heq | ⟨hint, z2⟩
    · rw [heq]
      exact ⟨⟨_, _, _, d1⟩, zz⟩
    · refine ⟨hint, fun A hA => z2 A ((zz A hA).mono ?_)⟩
      intro x hx
      rcases List.mem_cons.mp hx with e | hx
      · exact e ▸ List.mem_cons_self
      · exact List.mem_cons_of_mem _ (List.mem_cons_of_mem _ hx)
  | some false :: as, s, proc, i, h, hs, hp => by
    simp only [buildCube]
    obtain ⟨w1, e1, m1, d1, z1⟩ := spawnInternal_inv (var := i) h hp hs
    obtain ⟨w2, e2, m2, dj⟩ := buildCube_inv sink as _ _ (i+1) w1 (e1.ids _ hs) m1
    refine ⟨w2, e1.trans e2, m2, Or.inr ?_⟩
    rcases dj with heq | ⟨hint, z2⟩
    · rw [heq]
      exact ⟨⟨_, _, _, d1⟩, z1⟩
    · refine ⟨hint, fun A hA => z2 A ((z1 A hA).mono ?_)⟩
      intro x hx
      rcases List.mem_cons.mp hx with e | hx
      · exact e ▸ List.mem_cons_self
      · exact List.mem_cons_of_mem _ (List.mem_cons_of_mem _ hx)

/-- the part of `constructMTBDD` after the two leaves exist -/
theorem construct_tail {s : Store} {h node sink v d : Nat} (asgn : List (Option Bool)) (w : WInv s [])
    (hn : node ∈ s.ids) (hs : sink ∈ s.ids) (dn : s.dat node = .leaf v) (ds : s.dat sink = .leaf d) (hvd : v ≠ d)
    (z : ZSub s [sink, node]) (hf : find h s.hs = none) :
    Inv (addHandle
      (if (buildCube sink s node 0 asgn).2 = node then
        (if (buildCube sink s node 0 asgn).1.rc sink = 0 then disposeLeaf (buildCube sink s node 0 asgn).1 sink d
         else (buildCube sink s node 0 asgn).1)
       else (buildCube sink s node 0 asgn).1) h (buildCube sink s node 0 asgn).2) ∧
    Frame h s (addHandle
      (if (buildCube sink s node 0 asgn).2 = node then
        (if (buildCube sink s node 0 asgn).1.rc sink = 0 then disposeLeaf (buildCube sink s node 0 asgn).1 sink d
         else (buildCube sink s node 0 asgn).1)
       else (buildCube sink s node 0 asgn).1) h (buildCube sink s node 0 asgn).2) := by
  obtain ⟨w3, e3, m3, dj⟩ := buildCube_inv sink asgn s node 0 w hs hn
  have hns : node ≠ sink := fun e => by rw [e, ds] at dn; cases dn; exact hvd rfl
  rcases dj with heq | ⟨⟨lo, hi, var, hint⟩, z3⟩
  · rw [heq]
    simp only [if_true]
    split
    · rename_i hz
      have w4 := disposeLeaf_inv w hs hz ds
      have hme : ∀ x, x ∈ s.ids.erase sink ↔ x ≠ sink ∧ x ∈ s.ids := fun x => mem_erase_iff' w.nd
      obtain ⟨h1, h2⟩ := addHandle_inv (h := h) w4 ((hme node).mpr ⟨hns, hn⟩) hf
      refine ⟨⟨h1, h2 ?_⟩, (frame_disposeLeaf h s sink d).trans (frame_addHandle _ _ _)⟩
      intro x hx hz'
      have hx' := (hme x).mp hx
      have := z x hx'.2 hz'
      simp at this
      rcases this with e | e
      · exact absurd e hx'.1
      · simp [e]
    · rename_i hz
      obtain ⟨h1, h2⟩ := addHandle_inv (h := h) w hn hf
      refine ⟨⟨h1, h2 ?_⟩, frame_addHandle _ _ _⟩
      intro x hx hz'
      have := z x hx hz'
      simp at this
      rcases this with e | e
      · subst e; exact absurd hz' hz
      · simp [e]
  · have hne : (buildCube sink s node 0 asgn).2 ≠ node := by
      intro e
      rw [e, e3.dat node (w.fresh node hn), dn] at hint
      cases hint
    simp only [hne, if_false]
    obtain ⟨h1, h2⟩ := addHandle_inv (h := h) w3 m3 (by rw [e3.hs]; exact hf)
    refine ⟨⟨h1, h2 (z3 [] (z.mono ?_))⟩, (e3.frame h).trans (frame_addHandle _ _ _)⟩
    intro x hx
    simp at hx ⊢
    rcases hx with e | e
    · exact Or.inr e
    · exact Or.inl e

theorem construct_inv {s : Store} {h v d : Nat} {asgn : List (Option Bool)} (hi : Inv s) :
    Inv (construct s h asgn v d) ∧ Frame h s (construct s h asgn v d) := by
  simp only [construct]
  split
  · exact ⟨hi, Frame.refl _ _⟩
  · rename_i hf
    obtain ⟨w1, e1, m1, d1, z1⟩ := spawnLeaf_inv (v := v) hi.1
    have hf1 : find h (spawnLeaf s v).1.hs = none := by rw [e1.hs]; exact hf
    have zs1 := z1 [] (zsub_nil_iff.mpr hi.2)
    split
    · obtain ⟨h1, h2⟩ := addHandle_inv (h := h) w1 m1 hf1
      exact ⟨⟨h1, h2 zs1⟩, (e1.frame h).trans (frame_addHandle _ _ _)⟩
    · rename_i hvd
      obtain ⟨w2, e2, m2, d2, z2⟩ := spawnLeaf_inv (v := d) w1
      obtain ⟨i3, f3⟩ := construct_tail (h := h) asgn w2 (e2.ids _ m1) m2 (by rw [e2.dat _ (w1.fresh _ m1)]; exact d1) d2 hvd
        (z2 _ zs1) (by rw [e2.hs]; exact hf1)
      exact ⟨i3, ((e1.trans e2).frame h).trans f3⟩

/-! ## every operation, every operation list -/

theorem stepF_inv (f : Nat → Nat → Nat) {s : Store} (op : Op) (hi : Inv s) :
    Inv (stepF f s op) ∧ Frame op.target s (stepF f s op) := by
  cases op with
  | construct h asgn v d => exact construct_inv hi
  | copy src dst => exact copy_inv hi
  | assign src dst => exact assign_inv hi
  | apply a b dst => exact apply2_inv f hi
  | destroy h => exact ⟨(destroy_inv hi).1, (destroy_inv hi).2.1⟩

theorem foldl_inv (f : Nat → Nat → Nat) : ∀ (ops : List Op) (s : Store), Inv s → Inv (ops.foldl (stepF f) s)
  | [], _, h => h
  | op :: ops, s, h => foldl_inv f ops (stepF f s op) (stepF_inv f op h).1

/-- the invariant holds after every operation list -/
theorem runF_inv (f : Nat → Nat → Nat) (ops : List Op) : Inv (runF f ops) := foldl_inv f ops empty inv_empty

theorem run_eq_runF (ops : List Op) : run ops = runF applyOp ops := rfl

/-! ### C18.1  counters -/

/-- number of references to `n` from allocated internal nodes (`low` and `high` count separately) -/
def indeg (s : Store) (n : Nat) : Nat := indegL s.ids s.dat n
/-- number of live handles whose root is `n` -/
def handlesTo (s : Store) (n : Nat) : Nat := cnt n (roots s)

theorem indeg_eq (s : Store) (n : Nat) : indeg s n =
    (s.ids.map (fun m => match s.dat m with
      | .leaf _ => 0
      | .int lo hi _ => (if lo = n then 1 else 0) + (if hi = n then 1 else 0))).sum := rfl
theorem handlesTo_eq (s : Store) (n : Nat) : handlesTo s n = (s.hs.map (·.2)).count n := rfl

theorem Inv.rc_inv {s : Store} (hi : Inv s) :
    (∀ n, n ∈ s.ids → s.rc n = indeg s n + handlesTo s n) ∧
    (∀ v n, (v, n) ∈ s.leafT → n ∈ s.ids ∧ s.dat n = .leaf v) ∧
    (∀ lo hi var n, ((lo, hi, var), n) ∈ s.intT → n ∈ s.ids ∧ s.dat n = .int lo hi var) ∧
    (∀ n, n ∈ s.ids → s.rc n = 0 →
      n ∉ roots s ∧ ∀ m, m ∈ s.ids → ∀ lo hi var, s.dat m = .int lo hi var → lo ≠ n ∧ hi ≠ n) := by
  refine ⟨?_, fun v n hm => (hi.1.leafOk v n).mp hm, fun lo hi' var n hm => (hi.1.intOk (lo, hi', var) n).mp hm, ?_⟩
  · intro n hn
    have := hi.1.j n hn
    rw [cnt_nil] at this
    exact this
  · intro n hn hz
    exact absurd hz (hi.2 n hn)

/-- `rc_inv`: after every operation list the counter of an allocated node is the number of internal nodes (edges) plus the
    number of handles pointing to it, every entry of the two tables points to an allocated node with that contents, and a
    node with counter 0 is not referred to -/
theorem rc_inv (f : Nat → Nat → Nat) (ops : List Op) :
    (∀ n, n ∈ (runF f ops).ids → (runF f ops).rc n = indeg (runF f ops) n + handlesTo (runF f ops) n) ∧
    (∀ v n, (v, n) ∈ (runF f ops).leafT → n ∈ (runF f ops).ids ∧ (runF f ops).dat n = .leaf v) ∧
    (∀ lo hi var n, ((lo, hi, var), n) ∈ (runF f ops).intT →
      n ∈ (runF f ops).ids ∧ (runF f ops).dat n = .int lo hi var) ∧
    (∀ n, n ∈ (runF f ops).ids → (runF f ops).rc n = 0 →
      n ∉ roots (runF f ops) ∧
      ∀ m, m ∈ (runF f ops).ids → ∀ lo hi var, (runF f ops).dat m = .int lo hi var → lo ≠ n ∧ hi ≠ n) :=
  (runF_inv f ops).rc_inv

/-- the counting part of `rc_inv` alone implies its last part (also inside an operation, where counters 0 do occur) -/
theorem WInv.zero_unreferenced {s : Store} {P : List Nat} (h : WInv s P) {n : Nat} (hn : n ∈ s.ids) (hz : s.rc n = 0) :
    n ∉ roots s ∧ ∀ m, m ∈ s.ids → ∀ lo hi var, s.dat m = .int lo hi var → lo ≠ n ∧ hi ≠ n :=
  let ⟨_, h2, h3, _⟩ := free_core h.nd hn h.j hz h.closed
  ⟨h2, h3⟩

/-- between operations there is no garbage: no allocated node has counter 0 -/
theorem no_garbage (f : Nat → Nat → Nat) (ops : List Op) : ∀ n, n ∈ (runF f ops).ids → (runF f ops).rc n ≠ 0 :=
  (runF_inv f ops).2

/-- the tables are exactly the allocated nodes, one entry per node, keys unique -/
theorem tables_exact (f : Nat → Nat → Nat) (ops : List Op) :
    (∀ n v, n ∈ (runF f ops).ids → (runF f ops).dat n = .leaf v → find v (runF f ops).leafT = some n) ∧
    (∀ n lo hi var, n ∈ (runF f ops).ids → (runF f ops).dat n = .int lo hi var →
      find (lo, hi, var) (runF f ops).intT = some n) ∧
    KeysNodup (runF f ops).leafT ∧ KeysNodup (runF f ops).intT ∧ KeysNodup (runF f ops).hs ∧ (runF f ops).ids.Nodup := by
  have hi := runF_inv f ops
  exact ⟨fun n v hn hd => mem_find hi.1.leafK ((hi.1.leafOk v n).mpr ⟨hn, hd⟩),
    fun n lo hi' var hn hd => mem_find hi.1.intK ((hi.1.intOk (lo, hi', var) n).mpr ⟨hn, hd⟩),
    hi.1.leafK, hi.1.intK, hi.1.hsK, hi.1.nd⟩

/-! ### C18.2  no premature free, no double free -/

/-- `m` is reachable from `n` along low/high edges -/
inductive Reach (dat : Nat → Data) (n : Nat) : Nat → Prop
  | refl : Reach dat n n
  | lo {m lo hi var : Nat} : Reach dat n m → dat m = .int lo hi var → Reach dat n lo
  | hi {m lo hi var : Nat} : Reach dat n m → dat m = .int lo hi var → Reach dat n hi

theorem Inv.reach_alloc {s : Store} (hi : Inv s) {h r : Nat} (hm : (h, r) ∈ s.hs) {n : Nat} (hr : Reach s.dat r n) :
    n ∈ s.ids := by
  induction hr with
  | refl => exact hi.1.rin r (List.mem_map.mpr ⟨(h, r), hm, rfl⟩)
  | lo _ hd ih => exact (hi.1.closed _ ih _ _ _ hd).1
  | hi _ hd ih => exact (hi.1.closed _ ih _ _ _ hd).2

/-- `no_premature_free`: every node reachable from a live handle is allocated (and has never been freed) -/
theorem no_premature_free (f : Nat → Nat → Nat) (ops : List Op) (h r : Nat) (hm : (h, r) ∈ (runF f ops).hs) (n : Nat)
    (hr : Reach (runF f ops).dat r n) : n ∈ (runF f ops).ids ∧ n ∉ (runF f ops).freed :=
  have hi := runF_inv f ops
  have hn := hi.reach_alloc hm hr
  ⟨hn, fun hf => (hi.1.freedOk n hf).1 hn⟩

/-- `no_double_free`: no node is deleted twice, a deleted node is not allocated, and no assertion of the code
    (`refcnt > 0` before a decrement, `erase(...) == 1` in the two `disposeOf…` functions) fails; the model never runs
    out of fuel -/
theorem no_double_free (f : Nat → Nat → Nat) (ops : List Op) :
    (runF f ops).freed.Nodup ∧ (∀ n, n ∈ (runF f ops).freed → n ∉ (runF f ops).ids) ∧ (runF f ops).err = false :=
  have hi := runF_inv f ops
  ⟨hi.1.freedNd, fun n hn => (hi.1.freedOk n hn).1, hi.1.noerr⟩

/-! ### C18.3  denotations of the other handles are stable -/

theorem unfold_congr {dat dat' : Nat → Data} {ids : List Nat} (hC : Closed ids dat) (hd : ∀ m, m ∈ ids → dat' m = dat m) :
    ∀ (fuel n : Nat), n ∈ ids → unfold dat' fuel n = unfold dat fuel n
  | 0, _, _ => rfl
  | fuel+1, n, hn => by
    simp only [unfold]
    rw [hd n hn]
    split
    · rfl
    · rename_i lo hi var hdn
      obtain ⟨h1, h2⟩ := hC n hn lo hi var hdn
      rw [unfold_congr hC hd fuel lo h1, unfold_congr hC hd fuel hi h2]

theorem Inv.frame_denote {s s' : Store} {t : Nat} (hi : Inv s) (fr : Frame t s s') {h r : Nat} (hm : (h, r) ∈ s.hs)
    (ht : h ≠ t) : (h, r) ∈ s'.hs ∧ unfold s'.dat (r+1) r = unfold s.dat (r+1) r ∧ ∀ ρ, denote s' r ρ = denote s r ρ := by
  have hr : r ∈ s.ids := hi.1.rin r (List.mem_map.mpr ⟨(h, r), hm, rfl⟩)
  have hu := unfold_congr hi.1.closed (fun m hm => fr.dat m (hi.1.fresh m hm)) (r+1) r hr
  exact ⟨fr.hs h r hm ht, hu, fun ρ => by unfold denote; rw [hu]⟩

/-- one step: a live handle other than the target of the operation keeps its root and its denotation -/
theorem denotation_stable_step (f : Nat → Nat → Nat) {s : Store} (hi : Inv s) (op : Op) {h r : Nat} (hm : (h, r) ∈ s.hs)
    (ht : op.target ≠ h) : (h, r) ∈ (stepF f s op).hs ∧ ∀ ρ, denote (stepF f s op) r ρ = denote s r ρ :=
  have := hi.frame_denote (stepF_inv f op hi).2 hm (Ne.symm ht)
  ⟨this.1, this.2.2⟩

theorem foldl_stable (f : Nat → Nat → Nat) {h r : Nat} : ∀ (ops : List Op) (s : Store), Inv s → (h, r) ∈ s.hs →
    (∀ op, op ∈ ops → op.target ≠ h) →
    (h, r) ∈ (ops.foldl (stepF f) s).hs ∧ ∀ ρ, denote (ops.foldl (stepF f) s) r ρ = denote s r ρ
  | [], _, _, hm, _ => ⟨hm, fun _ => rfl⟩
  | op :: ops, s, hi, hm, ht => by
    obtain ⟨h1, h2⟩ := denotation_stable_step f hi op hm (ht op List.mem_cons_self)
    obtain ⟨h3, h4⟩ := foldl_stable f ops (stepF f s op) (stepF_inv f op hi).1 h1
      (fun op' ho => ht op' (List.mem_cons_of_mem _ ho))
    exact ⟨h3, fun ρ => (h4 ρ).trans (h2 ρ)⟩

/-- `denotation_stable`: after any operation list `ops`, a live handle `h` (root `r`) is still live with the same root and
    denotes the same function after any further operations `more` none of which has `h` as its target (they may read `h`) -/
theorem denotation_stable (f : Nat → Nat → Nat) (ops more : List Op) (h r : Nat) (hm : (h, r) ∈ (runF f ops).hs)
    (ht : ∀ op, op ∈ more → op.target ≠ h) :
    (h, r) ∈ (runF f (ops ++ more)).hs ∧ ∀ ρ, denote (runF f (ops ++ more)) r ρ = denote (runF f ops) r ρ := by
  have : runF f (ops ++ more) = more.foldl (stepF f) (runF f ops) := by simp [runF, List.foldl_append]
  rw [this]
  exact foldl_stable f more _ (runF_inv f ops) hm ht

/-! ### C18.4  everything is released -/

theorem exists_pos_of_sum_pos : ∀ (l : List Nat), 0 < l.sum → ∃ a, a ∈ l ∧ 0 < a
  | [], h => by simp at h
  | a :: l, h => by
    by_cases ha : 0 < a
    · exact ⟨a, List.mem_cons_self, ha⟩
    · have : 0 < l.sum := by simp only [List.sum_cons] at h; omega
      obtain ⟨b, hb, hp⟩ := exists_pos_of_sum_pos l this
      exact ⟨b, List.mem_cons_of_mem _ hb, hp⟩

theorem Inv.parent_of_no_handles {s : Store} (hi : Inv s) (hh : s.hs = []) {n : Nat} (hn : n ∈ s.ids) :
    ∃ m, m ∈ s.ids ∧ n < m := by
  have hj := hi.1.j n hn
  have hz := hi.2 n hn
  have : cnt n (roots s) = 0 := by unfold roots; rw [hh]; rfl
  rw [this, cnt_nil] at hj
  have hpos : 0 < indegL s.ids s.dat n := by omega
  obtain ⟨a, ha, hp⟩ := exists_pos_of_sum_pos _ hpos
  obtain ⟨m, hm, rfl⟩ := List.mem_map.mp ha
  refine ⟨m, hm, ?_⟩
  unfold contrib at hp
  split at hp
  · omega
  · rename_i lo hi' var hd
    obtain ⟨o1, o2⟩ := hi.1.ordered m hm lo hi' var hd
    by_cases e1 : lo = n
    · omega
    · by_cases e2 : hi' = n
      · omega
      · simp [e1, e2] at hp

theorem Inv.ids_nil_of_no_handles {s : Store} (hi : Inv s) (hh : s.hs = []) : s.ids = [] := by
  have key : ∀ (k n : Nat), n ∈ s.ids → s.next - n ≤ k → False := by
    intro k
    induction k with
    | zero => intro n hn hk; have := hi.1.fresh n hn; omega
    | succ k ih =>
      intro n hn hk
      obtain ⟨m, hm, hlt⟩ := hi.parent_of_no_handles hh hn
      have := hi.1.fresh m hm
      exact ih m hm (by omega)
  cases hs : s.ids with
  | nil => rfl
  | cons a l => exact (key _ a (hs ▸ List.mem_cons_self) (Nat.le_refl _)).elim

theorem Inv.tables_nil_of_no_handles {s : Store} (hi : Inv s) (hh : s.hs = []) : tableSizes s = (0, 0) := by
  have hids := hi.ids_nil_of_no_handles hh
  have h1 : s.leafT = [] := by
    apply List.eq_nil_iff_forall_not_mem.mpr
    rintro ⟨v, n⟩ hm
    have := ((hi.1.leafOk v n).mp hm).1
    rw [hids] at this
    cases this
  have h2 : s.intT = [] := by
    apply List.eq_nil_iff_forall_not_mem.mpr
    rintro ⟨k, n⟩ hm
    have := ((hi.1.intOk k n).mp hm).1
    rw [hids] at this
    cases this
  simp [tableSizes, h1, h2]

/-- `all_released`: whenever no handle is live, both unique tables are empty (their initial size) and no node is
    allocated -/
theorem all_released (f : Nat → Nat → Nat) (ops : List Op) (hh : (runF f ops).hs = []) :
    tableSizes (runF f ops) = tableSizes empty ∧ (runF f ops).ids = [] :=
  ⟨(runF_inv f ops).tables_nil_of_no_handles hh, (runF_inv f ops).ids_nil_of_no_handles hh⟩

theorem foldl_destroy_hs (f : Nat → Nat → Nat) : ∀ (L : List Nat) (s : Store), Inv s → (∀ h r, (h, r) ∈ s.hs → h ∈ L) →
    ((L.map Op.destroy).foldl (stepF f) s).hs = []
  | [], s, _, hL => by
    apply List.eq_nil_iff_forall_not_mem.mpr
    rintro ⟨h, r⟩ hm
    have := hL h r hm
    cases this
  | h :: L, s, hi, hL => by
    simp only [List.map_cons, List.foldl_cons]
    obtain ⟨i1, f1, n1⟩ := destroy_inv (h := h) hi
    apply foldl_destroy_hs f L (destroy s h) i1
    intro h' r' hm'
    by_cases e : h' = h
    · subst e; exact absurd hm' (n1 r')
    · have := hL h' r' (f1.hs' h' r' hm' e)
      rcases List.mem_cons.mp this with e' | hm
      · exact absurd e' e
      · exact hm

/-- `all_released` in the form "after destroying every handle that is still live both tables have their initial sizes" -/
theorem all_released_destroyAll (f : Nat → Nat → Nat) (ops : List Op) :
    tableSizes (runF f (ops ++ destroyAll (runF f ops))) = tableSizes empty ∧
    (runF f (ops ++ destroyAll (runF f ops))).ids = [] := by
  have hh : (runF f (ops ++ destroyAll (runF f ops))).hs = [] := by
    have : runF f (ops ++ destroyAll (runF f ops)) =
        (((runF f ops).hs.map (·.1)).map Op.destroy).foldl (stepF f) (runF f ops) := by
      simp [runF, List.foldl_append, destroyAll, List.map_map, Function.comp_def]
    rw [this]
    exact foldl_destroy_hs f _ _ (runF_inv f ops) (fun h r hm => List.mem_map.mpr ⟨(h, r), hm, rfl⟩)
  exact all_released f _ hh

/-! ### the denotation is the real unfolding (the fuel `r+1` is enough) -/

theorem Inv.unfold_fuel {s : Store} (hi : Inv s) : ∀ (f1 f2 n : Nat), n ∈ s.ids → n < f1 → n < f2 →
    unfold s.dat f1 n = unfold s.dat f2 n
  | 0, _, _, _, h, _ => by omega
  | _+1, 0, _, _, _, h => by omega
  | f1+1, f2+1, n, hn, h1, h2 => by
    simp only [unfold]
    split
    · rfl
    · rename_i lo hi' var hd
      obtain ⟨c1, c2⟩ := hi.1.closed n hn lo hi' var hd
      obtain ⟨o1, o2⟩ := hi.1.ordered n hn lo hi' var hd
      rw [hi.unfold_fuel f1 f2 lo c1 (by omega) (by omega), hi.unfold_fuel f1 f2 hi' c2 (by omega) (by omega)]

theorem Inv.denote_leaf {s : Store} {n v : Nat} (hd : s.dat n = .leaf v) (ρ : Nat → Bool) : denote s n ρ = v := by
  simp only [denote, unfold, hd, Vata.M.eval]

theorem Inv.denote_int {s : Store} (hi : Inv s) {n lo hi' var : Nat} (hn : n ∈ s.ids) (hd : s.dat n = .int lo hi' var)
    (ρ : Nat → Bool) : denote s n ρ = if ρ var then denote s hi' ρ else denote s lo ρ := by
  obtain ⟨c1, c2⟩ := hi.1.closed n hn lo hi' var hd
  obtain ⟨o1, o2⟩ := hi.1.ordered n hn lo hi' var hd
  have hu : unfold s.dat (n+1) n = .node var (unfold s.dat n lo) (unfold s.dat n hi') := by simp only [unfold, hd]
  unfold denote
  rw [hu, hi.unfold_fuel n (lo+1) lo c1 o1 (Nat.lt_succ_self _), hi.unfold_fuel n (hi'+1) hi' c2 o2 (Nat.lt_succ_self _)]
  rfl

/-! ## non‑vacuity: a concrete operation list that exercises every operation -/
namespace Ex

/-- two cubes, a constant with a different default (its unused sink is disposed of), a copy, an apply, an assignment,
    a self‑assignment, an assignment that frees a diagram, destructors -/
def ops : List Op :=
  [.construct 0 [some true, none, some false] 5 0, .construct 1 [some false, some true] 7 0, .construct 2 [none, none] 9 3,
   .copy 0 3, .apply 0 1 4, .assign 4 4, .assign 1 0, .destroy 3]

def more : List Op := [.apply 4 1 5, .destroy 0, .assign 5 1, .construct 6 [some true] 1 2, .destroy 5]

-- the store is not trivial: 4 leaves, 6 internal nodes, 4 live handles, 2 nodes freed so far, no assertion failed
example : tableSizes (run ops) = (4, 6) ∧ (run ops).hs.length = 4 ∧ (run ops).freed = [3, 8] ∧ (run ops).err = false := by
  decide
-- the unused sink leaf `3` (node 8) of `construct 2 [none, none] 9 3` was created and disposed of
example : tableSizes (run (ops.take 2)) = (3, 4) ∧ tableSizes (run (ops.take 3)) = (4, 4) ∧
    (run (ops.take 3)).freed = [8] := by decide
-- the apply created three internal nodes, the last destructor freed one
example : tableSizes (run (ops.take 5)) = (4, 7) ∧ tableSizes (run (ops.take 7)) = (4, 7) := by decide
-- `no_premature_free`: handle 4 is live and reaches internal nodes and a leaf
example : (4, 11) ∈ (run ops).hs ∧ (run ops).dat 11 = .int 10 6 2 ∧ (run ops).dat 10 = .int 2 9 1 ∧
    (run ops).dat 2 = .int 1 0 0 ∧ (run ops).dat 1 = .leaf 0 := by decide
example : Reach (run ops).dat 11 1 :=
  .lo (m := 2) (hi := 0) (var := 0)
    (.lo (m := 10) (hi := 9) (var := 1) (.lo (m := 11) (hi := 6) (var := 2) .refl (by decide)) (by decide)) (by decide)
-- `denotation_stable`: its hypotheses hold for handle 4 and the further operations `more`
example : (4, 11) ∈ (runF applyOp ops).hs ∧ ∀ op, op ∈ more → op.target ≠ 4 := by decide
example : (4, 11) ∈ (runF applyOp (ops ++ more)).hs := (denotation_stable applyOp ops more 4 11 (by decide) (by decide)).1
-- `all_released`: its hypothesis holds after the destructors, with a non‑empty store before
example : (runF applyOp (ops ++ destroyAll (runF applyOp ops))).hs = [] ∧ destroyAll (runF applyOp ops) ≠ [] := by decide
example : tableSizes (run (ops ++ more)) = (6, 7) ∧ (run (ops ++ more)).err = false := by decide

end Ex

end Vata.RcS
