import Vata.NfaCliPipeline
import Vata.Proofs.NfaUnionCoded
import Vata.Proofs.CliPipelineLang
/-!
# Proofs about the command-line pipeline for word automata (`Vata/NfaCliPipeline.lean`): `vata -r expl_fa union`
-/
namespace Vata.NfaCli
open Vata.CliPipe Vata.NfaLD Vata.Dict Vata.LoadDump Vata.Glue Vata.NfaS Vata.W

theorem bwd?_sub' {κ : Type} [DecidableEq κ] {y₁ y₂ : Dict κ} (h₁ : y₁.Ok) (h₂ : y₂.Ok) (s : Sub y₁ y₂) {f : Nat} {k : κ}
    (h : y₁.bwd? f = some k) : y₂.bwd? f = some k := h₂.bwd_fwd.mpr (s _ _ (h₁.bwd_fwd.mp h))

/-- what the two loads of word-shaped descriptions leave -/
theorem loadBoth_spec (rtl : Bool) (d₁ d₂ : AutDesc) (yd : WSymDict) (hyd : yd.Ok) (hw₁ : d₁.WordShaped)
    (hw₂ : d₂.WordShaped) :
    ∃ A sd₁ yd₁ B sd₂ yd₂, loadNFA rtl d₁ [] yd = .ok (A, sd₁, yd₁) ∧ loadNFA rtl d₂ [] yd₁ = .ok (B, sd₂, yd₂) ∧
      loadBoth rtl d₁ d₂ yd = .ok ((A, sd₁), (B, sd₂), yd₂) ∧ sd₁.Ok ∧ sd₂.Ok ∧ yd₁.Ok ∧ yd₂.Ok ∧ Sub yd₁ yd₂ ∧
      Dumpable A sd₁ yd₁ ∧ Dumpable B sd₂ yd₂ := by
  obtain ⟨A, s1, e1, h1, D1, _, _⟩ := loadFrom_dump rtl ⟨[], 0, yd⟩ (NfaLD.init_ok hyd) d₁ hw₁
  obtain ⟨B, s2, e2, h2, D2, _, _⟩ := loadFrom_dump rtl ⟨[], 0, s1.yd⟩ (NfaLD.init_ok h1.ok.yd) d₂ hw₂
  have l1 : loadNFA rtl d₁ [] yd = .ok (A, s1.sd, s1.yd) := by unfold loadNFA; rw [e1]
  have l2 : loadNFA rtl d₂ [] s1.yd = .ok (B, s2.sd, s2.yd) := by unfold loadNFA; rw [e2]
  refine ⟨A, s1.sd, s1.yd, B, s2.sd, s2.yd, l1, l2, ?_, h1.ok.sd, h2.ok.sd, h1.ok.yd, h2.ok.yd, h2.yd, D1, D2⟩
  unfold loadBoth; rw [l1]; simp only; rw [l2]

/-- the states of the result of the two `ReindexStates` calls -/
theorem mem_states_reindexBoth {fL fR : Nat → Nat} {A B : NFAS} {q : Nat}
    (hq : q ∈ nfaStates (nfasReindexInto (nfasReindexInto nfasEmpty fL A) fR B).toNFA) :
    (∃ p, p ∈ nfaStates A.toNFA ∧ q = fL p) ∨ (∃ p, p ∈ nfaStates B.toNFA ∧ q = fR p) := by
  obtain ⟨h1, h2, h3⟩ := reindexBoth_sets fL fR A B
  have hU : q ∈ nfaStates (nfaUnionWith fL fR A.toNFA B.toNFA) := by
    rcases mem_nfaStates.mp hq with h | h | ⟨e, he, h⟩
    · exact start_mem_nfaStates ((h3 q).mp h)
    · exact final_mem_nfaStates ((h2 q).mp h)
    · have he' : e ∈ (nfaUnionWith fL fR A.toNFA B.toNFA).trans := by rw [← h1]; exact he
      exact mem_nfaStates.mpr (Or.inr (Or.inr ⟨e, he', h⟩))
  have hsplit : q ∈ nfaStates (nfaMap fL A.toNFA) ∨ q ∈ nfaStates (nfaMap fR B.toNFA) := by
    rcases mem_nfaStates.mp hU with h | h | ⟨e, he, h⟩
    · rcases List.mem_append.mp h with h | h
      · exact Or.inl (start_mem_nfaStates h)
      · exact Or.inr (start_mem_nfaStates h)
    · rcases List.mem_append.mp h with h | h
      · exact Or.inl (final_mem_nfaStates h)
      · exact Or.inr (final_mem_nfaStates h)
    · rcases List.mem_append.mp he with he | he
      · exact Or.inl (mem_nfaStates.mpr (Or.inr (Or.inr ⟨e, he, h⟩)))
      · exact Or.inr (mem_nfaStates.mpr (Or.inr (Or.inr ⟨e, he, h⟩)))
  rcases hsplit with h | h
  · exact Or.inl (mem_nfaStates_nfaMap.mp h)
  · exact Or.inr (mem_nfaStates_nfaMap.mp h)

/-- the result of `Union` with the dictionary `CreateUnionStringToStateMap` builds can be dumped, every state under its own
name -/
theorem union_dumpable {A B : NFAS} {sd₁ sd₂ : Vata.StateDict} {yd₁ yd₂ : WSymDict} (hA : Dumpable A sd₁ yd₁)
    (hB : Dumpable B sd₂ yd₂) (h₁ : sd₁.Ok) (h₂ : sd₂.Ok) (hy₁ : yd₁.Ok) (hy₂ : yd₂.Ok) (hsub : Sub yd₁ yd₂) :
    Dumpable (nfaUnionCodedOrd (nfaVisitOrder A) (nfaVisitOrder B) A B [] []).1
      (ofGlue (unionDict (toGlue sd₁) (toGlue sd₂) (some (nfaUnionCodedOrd (nfaVisitOrder A) (nfaVisitOrder B) A B [] []).2.1)
        (some (nfaUnionCodedOrd (nfaVisitOrder A) (nfaVisitOrder B) A B [] []).2.2))) yd₂ ∧
    NamesInj (nfaUnionCodedOrd (nfaVisitOrder A) (nfaVisitOrder B) A B [] []).1
      (ofGlue (unionDict (toGlue sd₁) (toGlue sd₂) (some (nfaUnionCodedOrd (nfaVisitOrder A) (nfaVisitOrder B) A B [] []).2.1)
        (some (nfaUnionCodedOrd (nfaVisitOrder A) (nfaVisitOrder B) A B [] []).2.2))) := by
  obtain ⟨i1, i2, i3, iL, iR, iD, _, _, tL, tR⟩ := nfaUnionCodedFrom_maps (unionCnt [] []) (nfaVisitOrder A) (nfaVisitOrder B)
    A B [] [] (fun _ h => mem_nfaVisitOrder.mpr h) (fun _ h => mem_nfaVisitOrder.mpr h)
    (Um.below_unionCnt_left [] []) (Um.below_unionCnt_right [] []) Um.inj_nil Um.inj_nil (Um.disj_nil_left _)
  obtain ⟨hinv, nL, nR⟩ := unionDict_bwd h₁ h₂ iL iR iD
  obtain ⟨sL, sR⟩ := reindexBoth_symsOf _ _ A B i1 i2 i3
  obtain ⟨u1, _, u3⟩ := reindexBoth_sets
    (applyMap (nfaUnionCodedOrd (nfaVisitOrder A) (nfaVisitOrder B) A B [] []).2.1)
    (applyMap (nfaUnionCodedOrd (nfaVisitOrder A) (nfaVisitOrder B) A B [] []).2.2) A B
  have hname : ∀ q, q ∈ nfaStates (nfaUnionCodedOrd (nfaVisitOrder A) (nfaVisitOrder B) A B [] []).1.toNFA → ∃ n,
      (unionDict (toGlue sd₁) (toGlue sd₂) (some (nfaUnionCodedOrd (nfaVisitOrder A) (nfaVisitOrder B) A B [] []).2.1)
        (some (nfaUnionCodedOrd (nfaVisitOrder A) (nfaVisitOrder B) A B [] []).2.2)).bwd.lookup q = some n := by
    intro q hq
    rcases mem_states_reindexBoth (fL := applyMap (nfaUnionCodedOrd (nfaVisitOrder A) (nfaVisitOrder B) A B [] []).2.1)
        (fR := applyMap (nfaUnionCodedOrd (nfaVisitOrder A) (nfaVisitOrder B) A B [] []).2.2) hq with ⟨p, hp, e⟩ | ⟨p, hp, e⟩
    · obtain ⟨n, hn⟩ := hA.named p hp
      obtain ⟨q', hq'⟩ := tL p hp
      have e2 : q = q' := e.trans (Um.applyMap_of_lookup hq')
      rw [e2]
      exact ⟨_, nL p n q' hn hq'⟩
    · obtain ⟨n, hn⟩ := hB.named p hp
      obtain ⟨q', hq'⟩ := tR p hp
      have e2 : q = q' := e.trans (Um.applyMap_of_lookup hq')
      rw [e2]
      exact ⟨_, nR p n q' hn hq'⟩
  refine ⟨⟨?_, ?_, ?_⟩, ?_⟩
  · intro q hq
    obtain ⟨n, hn⟩ := hname q hq
    exact ⟨String.ofList n, by rw [bwd?_ofGlue, hn]; rfl⟩
  · intro e he
    have he' : e ∈ (nfaUnionWith (applyMap (nfaUnionCodedOrd (nfaVisitOrder A) (nfaVisitOrder B) A B [] []).2.1)
        (applyMap (nfaUnionCodedOrd (nfaVisitOrder A) (nfaVisitOrder B) A B [] []).2.2) A.toNFA B.toNFA).trans := by
      rw [← u1]; exact he
    simp only [nfaUnionWith, nfaUnionDisjoint, nfaMap, List.mem_append, List.mem_map] at he'
    rcases he' with ⟨e0, he0, rfl⟩ | ⟨e0, he0, rfl⟩
    · obtain ⟨k, hk⟩ := hA.syms e0 he0
      exact ⟨k, bwd?_sub' hy₁ hy₂ hsub hk⟩
    · exact hB.syms e0 he0
  · intro s hs a ha
    have hs' := (u3 s).mp hs
    simp only [nfaUnionWith, nfaUnionDisjoint, nfaMap, List.mem_append, List.mem_map] at hs'
    rcases hs' with ⟨s0, hs0, rfl⟩ | ⟨s0, hs0, rfl⟩
    · have e := sL s0 hs0
      have ha' : a ∈ A.symsOf s0 := by rw [← e]; exact ha
      obtain ⟨k, hk⟩ := hA.startSyms s0 hs0 a ha'
      exact ⟨k, bwd?_sub' hy₁ hy₂ hsub hk⟩
    · have e := sR s0 hs0
      have ha' : a ∈ B.symsOf s0 := by rw [← e]; exact ha
      exact hB.startSyms s0 hs0 a ha'
  · intro q q' hq hq' e
    obtain ⟨n, hn⟩ := hname q hq
    obtain ⟨n', hn'⟩ := hname q' hq'
    rw [bwd?_ofGlue, bwd?_ofGlue, hn, hn'] at e
    simp only [Option.map_some, Option.some.injEq] at e
    have := ofList_inj e
    subst this
    exact TwoWayDict.translateBwd_injective hinv hn hn'

/-- **`vata -r expl_fa union`, description level**: for word-shaped inputs the pipeline succeeds, and the description handed to
the serializer, loaded again (fresh state dictionary, the alphabet as the run left it), accepts exactly `L(A) ∪ L(B)`, `A` and
`B` being the automata the two loads produced -/
theorem cliNfaUnionDesc_lang (rtl : Bool) (d₁ d₂ : AutDesc) (yd : WSymDict) (hyd : yd.Ok) (hw₁ : d₁.WordShaped)
    (hw₂ : d₂.WordShaped) :
    ∃ A sd₁ yd₁ B sd₂ yd₂ out, loadNFA rtl d₁ [] yd = .ok (A, sd₁, yd₁) ∧ loadNFA rtl d₂ [] yd₁ = .ok (B, sd₂, yd₂) ∧
      cliNfaUnionDesc rtl d₁ d₂ yd = .ok out ∧
      ∃ U sd' yd', loadNFA rtl out [] yd₂ = .ok (U, sd', yd') ∧
        ∀ w, acceptsW U.toNFA w = (acceptsW A.toNFA w || acceptsW B.toNFA w) := by
  obtain ⟨A, sd₁, yd₁, B, sd₂, yd₂, l1, l2, lb, o1, o2, y1, y2, sub, D1, D2⟩ := loadBoth_spec rtl d₁ d₂ yd hyd hw₁ hw₂
  obtain ⟨hD, hI⟩ := union_dumpable D1 D2 o1 o2 y1 y2 sub
  obtain ⟨out, U, sd', yd', h1, h2, h3, _⟩ := nfa_dump_load_lang rtl _ _ _ y2 hD hI
  refine ⟨A, sd₁, yd₁, B, sd₂, yd₂, out, l1, l2, ?_, U, sd', yd', h2, ?_⟩
  · unfold cliNfaUnionDesc; rw [lb]; exact h1
  · intro w
    rw [h3 w]
    exact (nfaUnionCodedOrd_lang _ _ A B [] [] (fun _ h => mem_nfaVisitOrder.mpr h) (fun _ h => mem_nfaVisitOrder.mpr h)
      Um.inj_nil Um.inj_nil (Um.disj_nil_left _)).1 w

end Vata.NfaCli
