import Vata.Proofs.LtsEngineCalls2SL
import Vata.Proofs.LtsEngineCallsRun2
/-!
# The `SharedList` call discipline along `init`, `split`, the pruning loops, `processRemove` and the whole run
-/
namespace Vata.LEC2
open Vata.L Vata.LE Vata.LU Vata.LEC

/-! ### the pruning loops of `processRemove` (`decr` / `enqueueToRemove`) -/

/-- the state inside the pruning loops: the history is good, partition and insets are fixed -/
structure Fr (L : LTS) (P : List (List Nat)) (I : List (List (Nat × Nat))) (et : JE) : Prop where
  g : G L et.1 et.2 false
  hp : et.1.part = P
  hi : et.1.inset = I

section prune
variable {L : LTS} {P : List (List Nat)} {I : List (List (Nat × Nat))}

theorem decrStepJ_fr (hPn : P.length ≤ L.n) {b1 a : Nat} (hb1 : b1 < P.length) (ha : a < labels L) (et : JE) (q : Nat)
    (f : Fr L P I et) : Fr L P I (decrStepJ L b1 a et q) := by
  obtain ⟨f1, f2, f3⟩ := decrStep_frame b1 a et.1 q
  refine ⟨?_, f1.trans f.hp, f3.trans f.hi⟩
  show G L (decrStep b1 a et.1 q)
    ((et.2.addSC [SC.Op.decr b1 a q]).addSL (if et.1.cntv b1 a q - 1 == 0 then [SL.Op.append (slot L b1 a) q] else [])) false
  rw [decrStep_eq]
  have g0 : G L (decrCnt et.1 b1 a q) (et.2.addSC [SC.Op.decr b1 a q]) false := f.g.congr rfl rfl rfl
  by_cases hv : (et.1.cntv b1 a q - 1 == 0) = true
  · rw [if_pos hv, if_pos hv]
    obtain ⟨p1, _, _, _, p5, p6, _, _⟩ := enqueue_spec (decrCnt et.1 b1 a q) b1 a q
    exact append_good g0 (by show b1 < et.1.part.length; rw [f.hp]; exact hb1)
      (by show et.1.part.length ≤ L.n; rw [f.hp]; exact hPn) ha p1 p5 p6
  · rw [if_neg hv, if_neg hv]
    exact g0.congr rfl rfl (by simp [Tr2.addSL])

theorem decrBlockJ_fr (hPn : P.length ≤ L.n) (hI : ∀ i a, a ∈ insKeys (I.getD i []) → i < P.length ∧ a < labels L)
    (b1 b2 : Nat) (et : JE) (f : Fr L P I et) : Fr L P I (decrBlockJ L et b1 b2) := by
  unfold decrBlockJ
  refine foldl_inv (Fr L P I) _ _ _ ?_ f
  intro s a _ fs
  split
  · rename_i hc
    have ha : a ∈ insKeys (I.getD b1 []) := by
      have : a ∈ s.1.ins b1 := by simpa using hc
      simpa only [Eng.ins, fs.hi] using this
    obtain ⟨h1, h2⟩ := hI b1 a ha
    refine foldl_inv (Fr L P I) _ _ _ ?_ fs
    intro s' elem _ fs'
    exact foldl_inv (Fr L P I) _ _ _ (fun s'' q _ fs'' => decrStepJ_fr hPn h1 h2 s'' q fs'') fs'
  · exact fs

theorem pruneRowJ_fr (hPn : P.length ≤ L.n) (hI : ∀ i a, a ∈ insKeys (I.getD i []) → i < P.length ∧ a < labels L)
    (mask : List Nat) (et : JE) (b1 : Nat) (f : Fr L P I et) : Fr L P I (pruneRowJ L mask et b1) := by
  unfold pruneRowJ
  refine foldl_inv (Fr L P I) _ _ _ ?_ f
  intro s col _ fs
  unfold pruneColJ
  split
  · exact decrBlockJ_fr hPn hI b1 col _ ⟨fs.g.congr rfl rfl rfl, fs.hp, fs.hi⟩
  · exact fs

theorem pruneJ_fr (hPn : P.length ≤ L.n) (hI : ∀ i a, a ∈ insKeys (I.getD i []) → i < P.length ∧ a < labels L)
    (mask : List Nat) (pl : List Nat) (et : JE) (f : Fr L P I et) : Fr L P I (pl.foldl (pruneRowJ L mask) et) :=
  foldl_inv (Fr L P I) _ _ _ (fun s b1 _ fs => pruneRowJ_fr hPn hI mask s b1 fs) f

end prune

theorem wf_ins_bound {L : LTS} {e : Eng} (w : WF L e) :
    ∀ i a, a ∈ insKeys (e.inset.getD i []) → i < e.part.length ∧ a < labels L := by
  intro i a ha
  have hi : i < e.part.length := by
    refine Classical.byContradiction fun hn => ?_
    rw [getD_ge _ _ _ (by rw [w.hins]; exact Nat.le_of_not_lt hn)] at ha
    cases ha
  exact ⟨hi, w.ins_lt hi ha⟩

/-! ### `split`: the copies -/

/-- `gStep` with the two histories -/
theorem splitStepJ_gfst (L : LTS) (part0 : List (List Nat)) (rm : List Nat) (emt : (Eng × List Nat) × Tr2) (b : Nat) :
    (splitStepJ L part0 rm emt b).1 = gStep (stepS L) part0 rm emt.1 b := by
  rw [splitStepJ_fst, splitStep_eq]

/-- the copies for one new block -/
theorem copy_good {L : LTS} {e : Eng} {t : Tr2} {d : Bool} {b : Nat} {rest new : List Nat} (w : WF L e)
    (sok : SplitOK e b rest new) (g : G L e t d) :
    G L (copySlots (splitBlockCore L e b rest new) b e.part.length)
      ((t.addSC [SC.Op.copyCtor b, SC.Op.copyLabels e.part.length b ((splitBlockCore L e b rest new).ins e.part.length)]).addSL
        (copyT L (splitBlockCore L e b rest new) b e.part.length)) d := by
  have w1 : WF L (splitBlockCore L e b rest new) := core_wf w sok
  have hlen1 : (splitBlockCore L e b rest new).part.length = e.part.length + 1 := core_length
  have hn1 : e.part.length + 1 ≤ L.n := by rw [← hlen1]; exact w1.len_le
  have hnblt : e.part.length < (splitBlockCore L e b rest new).part.length := by rw [hlen1]; omega
  have hnd : ((splitBlockCore L e b rest new).ins e.part.length).Nodup := (w1.hinset _ hnblt).1.1
  have hlab : ∀ a, a ∈ (splitBlockCore L e b rest new).ins e.part.length → a < labels L := fun a ha => w1.ins_lt hnblt ha
  have hbn : b < e.part.length := sok.hb
  have hrem1 : ∀ i a, (splitBlockCore L e b rest new).remv i a = e.remv i a := fun _ _ => rfl
  obtain ⟨s1, _, _, _, _, s6, _, _⟩ := copySlots_spec (splitBlockCore L e b rest new) b e.part.length
    (Ne.symm (Nat.ne_of_lt hbn)) hnd
  have g0 : G L e (t.addSC [SC.Op.copyCtor b, SC.Op.copyLabels e.part.length b ((splitBlockCore L e b rest new).ins e.part.length)]) d :=
    g.congr rfl rfl rfl
  refine g0.add ?_
  generalize hA : SL.aRun (SL.A.mk0 (nSlots L)) (t.addSC [SC.Op.copyCtor b, SC.Op.copyLabels e.part.length b
    ((splitBlockCore L e b rest new).ins e.part.length)]).sl = A
  have si : SI L e A d := by rw [← hA]; exact g0.2
  generalize hls : (splitBlockCore L e b rest new).ins e.part.length = ls at *
  have hnone : ∀ a, e.remv e.part.length a = none := by
    intro a
    cases hx : e.remv e.part.length a with
    | none => rfl
    | some x => exact absurd (si.bnd _ a (by rw [hx]; rfl)).1 (Nat.lt_irrefl _)
  obtain ⟨c1, c2, c3, c4⟩ := copies_ok (fun a => ((splitBlockCore L e b rest new).remv b a).isSome) (fun a => slot L b a)
    (fun a => slot L e.part.length a) ls A
    (fun a ha => by rw [si.len]; exact ⟨slot_lt (by omega) (hlab a ha), slot_lt (by omega) (hlab a ha)⟩)
    (fun a ha hc => by rw [si.shp b a (by omega) (hlab a ha)]; exact hc)
    (fun a ha => by rw [si.shp _ a (by omega) (hlab a ha), hnone]; rfl)
    hnd (fun a a' ha ha' h => (slot_inj (hlab a ha) (hlab a' ha') h).2)
    (fun a a' ha ha' h => by have := (slot_inj (hlab a ha) (hlab a' ha') h).1; omega)
  have hT : copyT L (splitBlockCore L e b rest new) b e.part.length =
      ls.filterMap (fun a => if ((splitBlockCore L e b rest new).remv b a).isSome then
        some (SL.Op.copy (slot L b a) (slot L e.part.length a)) else none) := by
    unfold copyT; rw [hls]
  rw [hT]
  refine ⟨c1, ⟨by rw [c2]; exact si.len, by rw [c3]; exact si.det, ?_, ?_⟩⟩
  · intro b' a' hb' ha'
    rw [c4, si.shp b' a' hb' ha', s6, hrem1]
    by_cases hk : b' = e.part.length ∧ a' ∈ ls ∧ (e.remv b a').isSome = true
    · rw [if_pos hk, hk.2.2]
      simp only [Bool.or_eq_true, List.any_eq_true, Bool.and_eq_true, beq_iff_eq]
      exact Or.inr ⟨a', hk.2.1, hk.2.2, by rw [hk.1]⟩
    · rw [if_neg hk]
      have : (ls.any fun a => ((splitBlockCore L e b rest new).remv b a).isSome && slot L b' a' == slot L e.part.length a) = false := by
        rw [Bool.eq_false_iff]
        intro hany
        simp only [List.any_eq_true, Bool.and_eq_true, beq_iff_eq] at hany
        obtain ⟨a, ha, hc, heq⟩ := hany
        obtain ⟨e1, e2⟩ := slot_inj ha' (hlab a ha) heq
        exact hk ⟨e1, e2 ▸ ha, e2 ▸ hc⟩
      rw [this, Bool.or_false]
      rfl
  · intro b' a' hsome
    rw [s6, hrem1] at hsome
    rw [s1, hlen1]
    by_cases hk : b' = e.part.length ∧ a' ∈ ls ∧ (e.remv b a').isSome = true
    · exact ⟨by omega, hlab a' hk.2.1⟩
    · rw [if_neg hk] at hsome
      have := si.bnd b' a' hsome
      exact ⟨by omega, this.2⟩

section phase
variable {L : LTS} {e0 : Eng} {rm : List Nat} (P : Eng → (Nat → Nat) → Prop)

theorem splitJ_trace (hs : StepOK L (stepS L) P) (w0 : WF L e0) (hrm : ∀ q, q ∈ rm → q < L.n) (hnd : rm.Nodup) (d : Bool) :
    ∀ (todo done : List Nat) (emt : (Eng × List Nat) × Tr2) (par : Nat → Nat), todo.Nodup →
      (∀ b, b ∈ todo → b ∈ modifiedBlocks e0.part rm ∧ b ∉ done) →
      PhaseInv L e0 rm done emt.1 par → P emt.1.1 par → G L emt.1.1 emt.2 d →
      G L (todo.foldl (splitStepJ L e0.part rm) emt).1.1 (todo.foldl (splitStepJ L e0.part rm) emt).2 d
  | [], _, _, _, _, _, _, _, g => g
  | b :: todo, done, emt, par, hn, hto, inv, hP, g => by
    have hn' := List.nodup_cons.mp hn
    have hbm := (hto b List.mem_cons_self).1
    have hbd := (hto b List.mem_cons_self).2
    obtain ⟨par1, inv1, hP1⟩ := phase_step (stepS L) P hs w0 hrm hnd inv hP hbm hbd
    rw [← splitStepJ_gfst L] at inv1 hP1
    have g1 : G L (splitStepJ L e0.part rm emt b).1.1 (splitStepJ L e0.part rm emt b).2 d := by
      obtain ⟨q0, hq0rm, hq0b⟩ := (mem_modifiedBlocks w0 hrm b).mp hbm
      have hb0 : b < e0.part.length := lt_of_mem_block hq0b
      have hbk : b < emt.1.1.part.length := Nat.lt_of_lt_of_le hb0 inv.rs.hlen
      have hblk : emt.1.1.block b = e0.block b := inv.hkeep b hb0 hbd
      have htmp := mem_tmpOf w0 hrm b
      have htnd : (tmpOf e0.part rm b).Nodup := nodup_filter _ hnd
      have htsub : ∀ x, x ∈ tmpOf e0.part rm b → x ∈ emt.1.1.block b := fun x hx => hblk ▸ ((htmp x).mp hx).2
      unfold splitStepJ
      cases hts : trySplit (emt.1.1.block b) (tmpOf e0.part rm b) with
      | none => exact g
      | some rn =>
        obtain ⟨rest, new⟩ := rn
        obtain ⟨t1, t2, t3, t4, t5, t6⟩ := trySplit_some (inv.wf.hnd b) htnd htsub hts
        have sok : SplitOK emt.1.1 b rest new := by
          refine ⟨hbk, fun q hq => htsub q ((t1 q).mp hq), ?_, t3, t4, t5, t6⟩
          intro q
          rw [t2 q, t1 q]
        exact copy_good inv.wf sok g
    exact splitJ_trace hs w0 hrm hnd d todo (b :: done) _ par1 hn'.2
      (fun c hc => ⟨(hto c (List.mem_cons_of_mem _ hc)).1, fun h => by
        rcases List.mem_cons.mp h with h | h
        · exact hn'.1 (h ▸ hc)
        · exact (hto c (List.mem_cons_of_mem _ hc)).2 h⟩) inv1 hP1 g1

end phase

theorem splitJ_good {L : LTS} {et : JE} {rm : List Nat} {d : Bool} (w0 : WF L et.1) (qk : QOK et.1)
    (hrm : ∀ q, q ∈ rm → q < L.n) (hnd : rm.Nodup) (g : G L et.1 et.2 d) :
    G L (splitJ L et rm).1.1 (splitJ L et rm).2 d := by
  unfold splitJ
  have inv0 : PhaseInv L et.1 rm [] (et.1, []) id := by
    refine ⟨w0, RefineS.refl L et.1, fun _ _ => rfl, fun _ _ _ => rfl, fun _ _ _ => rfl, ?_, ?_⟩
    · intro i hi hd
      rcases hd with hd | hd
      · cases hd
      · exact absurd hi (Nat.not_lt_of_le hd)
    · intro i
      constructor
      · intro h; cases h
      · rintro ⟨h1, h2 | h2, _⟩
        · cases h2
        · exact absurd h1 (Nat.not_lt_of_le h2)
  exact splitJ_trace _ (stepS_ok L et.1) w0 hrm hnd d (modifiedBlocks et.1.part rm) [] ((et.1, []), et.2) id
    (nodup_dedupF _ _) (fun b hb => ⟨hb, fun h => by cases h⟩) inv0 ⟨qk, w0, Refine.refl L et.1, rfl⟩ g

end Vata.LEC2
