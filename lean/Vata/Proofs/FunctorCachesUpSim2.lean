import Vata.Proofs.FunctorCachesUpSim
/-!
# The caches of the upward algorithm with a simulation are transparent – with the library's deleter (property C01)

Second half of the proof (first: `Vata/Proofs/FunctorCachesUpSim.lean`).

* the transitions that survive `evalTransitions` + `intersectionByLookup` are, IN THE ORDER of `B.rules`, the matching rules of
  `post B f (S₁..Sₙ)` (`parents_eq_post`: an equality of LISTS – the minimisation `post.contains / refine / insert` depends on the
  order in which the parents arrive, a set equality as in `FCU.macroPost_pure` would not do);
* the loops, by the simulation `URelS`;
* `runS_eq`, `inclUpSim_cached_eq`, `checkInclUpSim_cached_eq`: for EVERY allocator and EVERY relation the algorithm with its
  caches and the library's deleter returns exactly what `InclUpSim.run` / `inclUpSim` / `checkInclUpSim` return;
* `runS_heap_sound`: the invariant of the memo tables at the end of a run;
* `FCUSEx.*`: the wiring regression for the simulation variant (`decide`d).
-/
namespace Vata
namespace FCUS
open Vata.InclUp Vata.CM Vata.FCU

/-! ### the surviving transitions, as a list -/

theorem foldl_filter_all : ∀ (ss : List (List Nat)) (cur : List Nat),
    ss.foldl (fun cur s' => cur.filter (fun x => s'.contains x)) cur =
      cur.filter (fun x => ss.all (fun s' => s'.contains x))
  | [], cur => by
    simp only [List.foldl_nil, List.all_nil]
    exact (List.filter_eq_self.mpr (fun _ _ => rfl)).symm
  | s' :: ss, cur => by
    simp only [List.foldl_cons, List.all_cons]
    rw [foldl_filter_all ss, List.filter_filter]
    apply List.filter_congr
    intro x _
    exact Bool.and_comm _ _

/-- the positions of a list selected by a predicate on positions that agrees with a predicate on the elements -/
theorem filterMap_range_filter {α β : Type} (f : α → β) (p : α → Bool) : ∀ (l : List α) (g : Nat → Bool),
    (∀ r (h : r < l.length), g r = p l[r]) →
    ((List.range l.length).filter g).filterMap (fun r => (l[r]?).map f) = (l.filter p).map f
  | [], _, _ => rfl
  | a :: l, g, hg => by
    have ih := filterMap_range_filter f p l (fun r => g (r + 1)) (fun r h => by
      have := hg (r + 1) (by simp only [List.length_cons]; omega)
      simpa using this)
    have h0 : g 0 = p a := hg 0 (by simp)
    simp only [List.length_cons, List.range_succ_eq_map, List.filter_cons, h0, List.filter_map]
    have hcomp : ((fun r => ((a :: l)[r]?).map f) ∘ fun x => x + 1) = fun r => (l[r]?).map f := by
      funext r; simp
    have hcomp' : (g ∘ fun x => x + 1) = fun r => g (r + 1) := rfl
    cases hp : p a with
    | true =>
      simp only [if_true, List.filterMap_cons, List.getElem?_cons_zero, Option.map_some, List.map_cons, List.filterMap_map,
        hcomp, hcomp', ih]
    | false =>
      simp only [Bool.false_eq_true, if_false, List.filterMap_map, hcomp, hcomp', ih]

theorem interAll_evalPure_filter (B : TA) (f n : Nat) (S : List Nat) (Ss : List (List Nat)) (k : Nat) :
    ∃ g0, interAll (evalPure B f n (S :: Ss) k) = (List.range B.rules.length).filter g0 := by
  simp only [evalPure, interAll, foldl_filter_all, evalT, List.filter_filter]
  exact ⟨_, rfl⟩

theorem filter_decide_mem {m : Nat} {g0 : Nat → Bool} {L : List Nat} (h : L = (List.range m).filter g0) :
    L = (List.range m).filter (fun r => decide (r ∈ L)) := by
  subst h
  apply List.filter_congr
  intro r hr
  simp [List.mem_filter, List.mem_range.mp hr]

/-- a transition of `B` survives iff it matches -/
theorem mem_interAll_evalPure {B : TA} {f r : Nat} {ρ : Rule} {Ss : List (List Nat)} (hne : Ss ≠ [])
    (hρ : B.rules[r]? = some ρ) :
    r ∈ interAll (evalPure B f Ss.length Ss 0) ↔ (ρ.sym = f ∧ matchKids ρ.kids Ss = true) := by
  have hne' : evalPure B f Ss.length Ss 0 ≠ [] := by
    cases Ss with
    | nil => exact (hne rfl).elim
    | cons _ _ => simp [evalPure]
  rw [mem_interAll hne']
  constructor
  · intro hall
    have h1 : r ∈ evalT B (f, Ss.length, 0) (Ss.head hne) := by
      apply hall
      cases Ss with
      | nil => exact (hne rfl).elim
      | cons S Ss => simp [evalPure]
    obtain ⟨ρ', hρ', hf, hn, _⟩ := mem_evalT.mp h1
    rw [hρ] at hρ'
    cases hρ'
    have hn' : ρ.kids.length = Ss.length := hn
    have := (all_evalPure hρ hf hn' Ss 0 (by omega)).mp hall
    rw [List.drop_zero] at this
    exact ⟨hf, this⟩
  · rintro ⟨hf, hmk⟩
    apply (all_evalPure hρ hf (matchKids_length hmk) Ss 0 (by omega)).mpr
    rw [List.drop_zero]; exact hmk

/-- **`evalTransitions` + `intersectionByLookup` leave the matching transitions of `B` in the order of `B.rules`**: their
parents are the LIST `post B f (S₁..Sₙ)` (`n ≥ 1`) -/
theorem parents_eq_post (B : TA) (f : Nat) {Ss : List (List Nat)} (hne : Ss ≠ []) :
    parentsOf B (interAll (evalPure B f Ss.length Ss 0)) = post B f Ss := by
  obtain ⟨g0, hg0⟩ : ∃ g0, interAll (evalPure B f Ss.length Ss 0) = (List.range B.rules.length).filter g0 := by
    cases Ss with
    | nil => exact (hne rfl).elim
    | cons S Ss => exact interAll_evalPure_filter B f _ S Ss 0
  rw [filter_decide_mem hg0]
  unfold parentsOf post
  apply filterMap_range_filter
  intro r hr
  have hρ : B.rules[r]? = some B.rules[r] := List.getElem?_eq_getElem hr
  rw [Bool.eq_iff_iff]
  simp only [decide_eq_true_eq, Bool.and_eq_true, beq_iff_eq]
  exact mem_interAll_evalPure hne hρ

theorem evalAllS_spec {R : Rel} {B : TA} (f n : Nat) : ∀ (as : List Nat) (k : Nat) (h : Heap), HInvS R B h →
    (∀ a, a ∈ as → Live h a) →
    (evalAll B f n as k h).2 = evalPure B f n (as.map (hval h)) k ∧ HInvS R B (evalAll B f n as k h).1 ∧
    (evalAll B f n as k h).1.store = h.store
  | [], _, h, hi, _ => ⟨rfl, hi, rfl⟩
  | a :: as, k, h, hi, hl => by
    obtain ⟨e1, m1, c1⟩ := hEvalS_spec hi (f, n, k) (hl a List.mem_cons_self)
    obtain ⟨e2, m2, c2⟩ := evalAllS_spec f n as (k + 1) (hEval B h (f, n, k) a).1 m1
      (fun b hb => (live_store c1 b).mpr (hl b (List.mem_cons_of_mem _ hb)))
    refine ⟨?_, m2, c2.trans c1⟩
    simp only [evalAll, List.map_cons, evalPure, e1, e2]
    have : as.map (hval (hEval B h (f, n, k) a).1) = as.map (hval h) :=
      List.map_congr_left (fun b _ => hval_store c1 b)
    rw [this]

/-- the minimised macro-state of a choice, computed through `evalTransitionsCache`, is the one of the cache-free model -/
theorem macroPostS_spec {R : Rel} {B : TA} {h : Heap} (hi : HInvS R B h) (f : Nat) {as : List Nat} (hne : as ≠ [])
    (hl : ∀ a, a ∈ as → Live h a) :
    (macroPostS R B h f as).2 = InclUpSim.macroPost R B f (as.map (hval h)) ∧ HInvS R B (macroPostS R B h f as).1 ∧
    (macroPostS R B h f as).1.store = h.store := by
  obtain ⟨e, m, c⟩ := evalAllS_spec (R := R) f as.length as 0 h hi hl
  refine ⟨?_, m, c⟩
  unfold macroPostS InclUpSim.macroPost
  simp only [e]
  have := parents_eq_post B f (Ss := as.map (hval h)) (by simpa using hne)
  rw [List.length_map] at this
  rw [this]

/-! ### the post-image step -/

/-- two results are related -/
def RResUS (R : Rel) (B : TA) (st : St) (QS : List Nat) (s0 : USt) : Res USt → Res (List Item) → Prop
  | .ok s, .ok tmp => URelS R B s st tmp QS ∧ s.processed = s0.processed ∧ s.next = s0.next ∧ s.Q = s0.Q
  | .error e, .error e' => e = e'
  | _, _ => False

theorem deref_choiceS {R : Rel} {B : TA} {s : USt} {st : St} {tmp : List Item} {QS : List Nat} (h : URelS R B s st tmp QS)
    {it : UIt} (hQ : s.Q = some it.a) {is : List UIt} (hc : ChoiceOK s it is) :
    ULive s.h is := by
  intro i hi
  rcases hc.2 i hi with hp | rfl
  · exact h.lp i hp
  · exact h.live _ (mem_roots.mpr (Or.inr (Or.inr hQ)))

/-- the same pointers denote the same pairs in two related states with the same `processed` and `Q` -/
theorem deref_stableS {R : Rel} {B : TA} {s s' : USt} {st : St} {tmp tmp' : List Item} {QS : List Nat}
    (h : URelS R B s st tmp QS) (h' : URelS R B s' st tmp' QS) (hp : s'.processed = s.processed) (hq : s'.Q = s.Q)
    {it : UIt} (hQ : s.Q = some it.a) {is : List UIt} (hc : ChoiceOK s it is) :
    is.map (UIt.deref s'.h) = is.map (UIt.deref s.h) := by
  apply List.map_inj_left.mpr
  intro i hi
  rcases hc.2 i hi with hi' | rfl
  · have := h'.pr
    rw [hp, ← h.pr] at this
    exact List.map_inj_left.mp this i hi'
  · simp only [UIt.deref, h.qv _ hQ, h'.qv _ (hq ▸ hQ)]

theorem stepChoiceS_rel {R : Rel} {A B : TA} (pick : List Nat → Nat) (ρ : Rule) {s : USt} {st : St} {tmp : List Item}
    {QS : List Nat} (h : URelS R B s st tmp QS) {is : List UIt} (hne : is ≠ []) (hl : ULive s.h is) :
    RResUS R B st QS s (stepChoiceS .lib pick R A B ρ s is) (InclUpSim.stepChoice R A B ρ tmp (is.map (UIt.deref s.h))) := by
  obtain ⟨e, m, c⟩ := macroPostS_spec h.hi ρ.sym (as := is.map (·.a)) (by simpa using hne)
    (by intro a ha; obtain ⟨i, hi, rfl⟩ := List.mem_map.mp ha; exact hl i hi)
  have hS : (is.map (·.a)).map (hval s.h) = (is.map (UIt.deref s.h)).map (·.S) := by
    simp only [List.map_map]; rfl
  have hT : is.map (·.t) = (is.map (UIt.deref s.h)).map (·.t) := by
    simp only [List.map_map]; rfl
  rw [hS] at e
  unfold stepChoiceS InclUpSim.stepChoice
  simp only
  rw [e, ← hT]
  have h1 : URelS R B { s with h := (macroPostS R B s.h ρ.sym (is.map (·.a))).1 } st tmp QS :=
    h.heap m (fun a _ ha => ⟨(live_store c a).mpr ha, hval_store c a⟩)
  split
  · exact rfl
  · split
    · exact rfl
    · split
      · -- `continue` before `biggerTypeCache.lookup(tmp)`
        exact ⟨h1, rfl, rfl, rfl⟩
      · -- `ptr = biggerTypeCache.lookup(tmp)`, `temporary.contains / refine / insert`, end of the iteration
        obtain ⟨h2, hlive, hval'⟩ := h1.lookup pick (InclUpSim.macroPost R B ρ.sym ((is.map (UIt.deref s.h)).map (·.S))).1
        have h3 := addTmpS_rel h2 (it := ⟨ρ.parent, _, Tree.node ρ.sym (is.map (·.t))⟩) hlive
        have hd : UIt.deref (hLookup pick (macroPostS R B s.h ρ.sym (is.map (·.a))).1
            (InclUpSim.macroPost R B ρ.sym ((is.map (UIt.deref s.h)).map (·.S))).1).1
            ⟨ρ.parent, (hLookup pick (macroPostS R B s.h ρ.sym (is.map (·.a))).1
              (InclUpSim.macroPost R B ρ.sym ((is.map (UIt.deref s.h)).map (·.S))).1).2, Tree.node ρ.sym (is.map (·.t))⟩ =
            ⟨ρ.parent, (InclUpSim.macroPost R B ρ.sym ((is.map (UIt.deref s.h)).map (·.S))).1,
              Tree.node ρ.sym (is.map (·.t))⟩ := by
          simp only [UIt.deref, hval']
        simp only at h3
        rw [hd] at h3
        refine ⟨h3.collect, ?_, ?_, ?_⟩
        · simp only [USt.collect, addTmpS]; split <;> rfl
        · simp only [USt.collect, addTmpS]; split <;> rfl
        · simp only [USt.collect, addTmpS]; split <;> rfl

theorem stepChoicesS_rel {R : Rel} {A B : TA} (pick : List Nat → Nat) (ρ : Rule) {st : St} {QS : List Nat} {it : UIt} :
    ∀ (iss : List (List UIt)) (s : USt) (tmp : List Item), URelS R B s st tmp QS → s.Q = some it.a →
    (∀ is, is ∈ iss → ChoiceOK s it is) →
    RResUS R B st QS s (stepChoicesS .lib pick R A B ρ iss s)
      (InclUpSim.stepChoices R A B ρ (iss.map (List.map (UIt.deref s.h))) tmp)
  | [], s, tmp, h, _, _ => ⟨h, rfl, rfl, rfl⟩
  | is :: iss, s, tmp, h, hQ, hc => by
    have hcis := hc is List.mem_cons_self
    have hr := stepChoiceS_rel (A := A) pick ρ h hcis.1 (deref_choiceS h hQ hcis)
    unfold stepChoicesS
    simp only [List.map_cons]
    unfold InclUpSim.stepChoices
    generalize stepChoiceS .lib pick R A B ρ s is = rc at hr
    generalize InclUpSim.stepChoice R A B ρ tmp (is.map (UIt.deref s.h)) = rb at hr
    cases rc with
    | error e =>
      cases rb with
      | error e' => exact hr
      | ok _ => exact hr.elim
    | ok s' =>
      cases rb with
      | error _ => exact hr.elim
      | ok tmp' =>
        obtain ⟨h', hp, hn, hq⟩ := hr
        simp only
        have hc' : ∀ is', is' ∈ iss → ChoiceOK s' it is' := by
          intro is' hi
          have := hc is' (List.mem_cons_of_mem _ hi)
          exact ⟨this.1, fun i hi => by rw [hp]; exact this.2 i hi⟩
        have hmap : iss.map (List.map (UIt.deref s'.h)) = iss.map (List.map (UIt.deref s.h)) := by
          apply List.map_congr_left
          intro is' hi
          exact deref_stableS h h' hp hq hQ (hc is' (List.mem_cons_of_mem _ hi))
        have := stepChoicesS_rel (A := A) pick ρ iss s' tmp' h' (hq ▸ hQ) hc'
        rw [hmap] at this
        generalize stepChoicesS .lib pick R A B ρ iss s' = rc2 at this
        generalize InclUpSim.stepChoices R A B ρ (iss.map (List.map (UIt.deref s.h))) tmp' = rb2 at this
        cases rc2 with
        | error e => cases rb2 with
          | error e' => exact this
          | ok _ => exact this.elim
        | ok s'' => cases rb2 with
          | error _ => exact this.elim
          | ok tmp'' =>
            obtain ⟨g1, g2, g3, g4⟩ := this
            exact ⟨g1, g2.trans hp, g3.trans hn, g4.trans hq⟩

/-- the merge of `temporary` into `processed` / `next` -/
theorem mergeS_rel {R : Rel} {B : TA} {tmp : List Item} {QS : List Nat} : ∀ (l : List UIt) (s : USt) (st : St),
    URelS R B s st tmp QS → (∀ i, i ∈ l → i ∈ s.temporary) →
    URelS R B (mergeS .lib R l s) ((l.map (UIt.deref s.h)).foldl (InclUpSim.addItem R) st) tmp QS ∧
    (mergeS .lib R l s).temporary = s.temporary ∧ (mergeS .lib R l s).Q = s.Q
  | [], _, _, h, _ => ⟨h, rfl, rfl⟩
  | i :: l, s, st, h, hl => by
    simp only [mergeS, List.map_cons, List.foldl_cons]
    have hi := hl i List.mem_cons_self
    have h1 := (addItemS_rel h (it := i) (h.lt i hi)).collect
    have ht : ((addItemS R s i).collect .lib).temporary = s.temporary := by
      simp only [USt.collect, addItemS]; split <;> rfl
    have hq : ((addItemS R s i).collect .lib).Q = s.Q := by
      simp only [USt.collect, addItemS]; split <;> rfl
    have hmap : l.map (UIt.deref ((addItemS R s i).collect .lib).h) = l.map (UIt.deref s.h) := by
      apply List.map_inj_left.mpr
      intro x hx
      have := h1.tm
      rw [ht, ← h.tm] at this
      exact List.map_inj_left.mp this x (hl x (List.mem_cons_of_mem _ hx))
    obtain ⟨g1, g2, g3⟩ := mergeS_rel l _ _ h1 (fun x hx => by rw [ht]; exact hl x (List.mem_cons_of_mem _ hx))
    rw [hmap] at g1
    exact ⟨g1, g2.trans ht, g3.trans hq⟩

/-- `temporary.clear()` -/
theorem URelS.clearTmp {R : Rel} {B : TA} {s : USt} {st : St} {tmp : List Item} {QS : List Nat}
    (h : URelS R B s st tmp QS) : URelS R B { s with temporary := [] } st [] QS := by
  refine ⟨h.pr, h.nx, rfl, h.qv, ?_, h.sub, h.hi⟩
  intro a ha
  apply h.live a
  rcases mem_roots.mp ha with hr | ⟨i, hi, _⟩ | hr
  · exact mem_roots.mpr (Or.inl hr)
  · cases hi
  · exact mem_roots.mpr (Or.inr (Or.inr hr))

/-- two results of a task are related -/
def RResPS (R : Rel) (B : TA) (QS : List Nat) (s0 : USt) : Res USt → Res St → Prop
  | .ok s, .ok st => URelS R B s st [] QS ∧ s.Q = s0.Q
  | .error e, .error e' => e = e'
  | _, _ => False

theorem procTaskS_rel {R : Rel} {A B : TA} (pick : List Nat → Nat) {it : UIt} {ρ : Rule} (j : Nat) {s : USt} {st : St}
    {QS : List Nat} (h : URelS R B s st [] QS) (hQ : s.Q = some it.a) (hks : ρ.kids ≠ []) :
    RResPS R B QS s (procTaskS .lib pick R A B it ρ j s) (InclUpSim.procTask R A B ⟨it.q, QS, it.t⟩ ρ j st) := by
  have hit : it.deref s.h = ⟨it.q, QS, it.t⟩ := by simp only [UIt.deref, h.qv _ hQ]
  have hch : ∀ is, is ∈ choicesAtC s.processed it ρ.kids j → ChoiceOK s it is := by
    intro is his
    obtain ⟨h1, h2⟩ := mem_choicesAtC his
    refine ⟨?_, h2⟩
    intro e; rw [e] at h1
    exact hks (List.length_eq_zero_iff.mp h1.symm)
  have hr := stepChoicesS_rel (A := A) pick ρ _ s [] h hQ hch
  rw [choicesAtC_map, h.pr, hit] at hr
  unfold procTaskS InclUpSim.procTask
  generalize stepChoicesS .lib pick R A B ρ (choicesAtC s.processed it ρ.kids j) s = rc at hr
  generalize InclUpSim.stepChoices R A B ρ (choicesAt st.processed ⟨it.q, QS, it.t⟩ ρ.kids j) [] = rb at hr
  cases rc with
  | error e => cases rb with
    | error e' => exact hr
    | ok _ => exact hr.elim
  | ok s' => cases rb with
    | error _ => exact hr.elim
    | ok tmp' =>
      obtain ⟨h', _, _, hq⟩ := hr
      obtain ⟨g1, _, g3⟩ := mergeS_rel s'.temporary s' st h' (fun _ hi => hi)
      rw [h'.tm] at g1
      exact ⟨g1.clearTmp.collect, by simp only [USt.collect]; exact g3.trans hq⟩

theorem procTasksS_rel {R : Rel} {A B : TA} (pick : List Nat → Nat) {it : UIt} {QS : List Nat} :
    ∀ (ts : List (Rule × Nat)) (s : USt) (st : St), URelS R B s st [] QS → s.Q = some it.a →
    (∀ t, t ∈ ts → t.1.kids ≠ []) →
    RResPS R B QS s (procTasksS .lib pick R A B it ts s) (InclUpSim.procTasks R A B ⟨it.q, QS, it.t⟩ ts st)
  | [], _, _, h, _, _ => ⟨h, rfl⟩
  | (ρ, j) :: ts, s, st, h, hQ, hks => by
    have hr := procTaskS_rel (A := A) pick j h hQ (hks (ρ, j) List.mem_cons_self)
    unfold procTasksS InclUpSim.procTasks
    generalize procTaskS .lib pick R A B it ρ j s = rc at hr
    generalize InclUpSim.procTask R A B ⟨it.q, QS, it.t⟩ ρ j st = rb at hr
    cases rc with
    | error e => cases rb with
      | error e' => exact hr
      | ok _ => exact hr.elim
    | ok s' => cases rb with
      | error _ => exact hr.elim
      | ok st' =>
        obtain ⟨h', hq⟩ := hr
        simp only
        have := procTasksS_rel (A := A) pick ts s' st' h' (hq ▸ hQ) (fun t ht => hks t (List.mem_cons_of_mem _ ht))
        generalize procTasksS .lib pick R A B it ts s' = rc2 at this
        generalize InclUpSim.procTasks R A B ⟨it.q, QS, it.t⟩ ts st' = rb2 at this
        cases rc2 with
        | error e => cases rb2 with
          | error e' => exact this
          | ok _ => exact this.elim
        | ok s'' => cases rb2 with
          | error _ => exact this.elim
          | ok st'' => exact ⟨this.1, this.2.trans hq⟩

/-- two finished runs are related -/
def RFinUS (R : Rel) (B : TA) : Option (Res USt) → Option (Res (List Item)) → Prop
  | none, none => True
  | some (.error e), some (.error e') => e = e'
  | some (.ok s), some (.ok P) => ∃ st QS, URelS R B s st [] QS ∧ P = st.processed
  | _, _ => False

theorem viewU_of_RFinUS {R : Rel} {B : TA} {rc : Option (Res USt)} {rb : Option (Res (List Item))} (h : RFinUS R B rc rb) :
    viewU rc = rb := by
  cases rc with
  | none => cases rb with
    | none => rfl
    | some _ => exact h.elim
  | some r => cases r with
    | error e => cases rb with
      | none => exact h.elim
      | some r' => cases r' with
        | error e' => simp only [RFinUS] at h; simp only [viewU, h]
        | ok _ => exact h.elim
    | ok s => cases rb with
      | none => exact h.elim
      | some r' => cases r' with
        | error _ => exact h.elim
        | ok P =>
          obtain ⟨st, QS, hr, rfl⟩ := h
          simp only [viewU, hr.pr]

/-- `q = next.begin()->first; Q = *next.begin()->second; next.erase(next.begin())` -/
theorem URelS.pick {R : Rel} {B : TA} {s : USt} {st : St} {QS : List Nat} (h : URelS R B s st [] QS) {it : UIt}
    {rest : List UIt} (hn : s.next = it :: rest) :
    URelS R B { s with next := rest, Q := some it.a } ⟨st.processed, rest.map (UIt.deref s.h)⟩ [] (hval s.h it.a) := by
  have hlive : Live s.h it.a := by
    obtain ⟨j, hj, _, ha⟩ := hasPair_iff.mp (h.sub it (by rw [hn]; exact List.mem_cons_self))
    rw [← ha]; exact h.lp j hj
  refine ⟨h.pr, rfl, h.tm, ?_, ?_, ?_, h.hi⟩
  · intro a ha
    simp only [Option.some.injEq] at ha
    rw [← ha]
  · intro a ha
    rcases mem_roots.mp ha with hr | hr | hr
    · exact h.live a (mem_roots.mpr (Or.inl hr))
    · exact h.live a (mem_roots.mpr (Or.inr (Or.inl hr)))
    · simp only [Option.some.injEq] at hr
      rw [← hr]; exact hlive
  · intro i hi
    exact h.sub i (by rw [hn]; exact List.mem_cons_of_mem _ hi)

theorem loopS_rel {R : Rel} {A B : TA} (pick : List Nat → Nat) : ∀ (n : Nat) (s : USt) (st : St) (QS : List Nat),
    URelS R B s st [] QS → RFinUS R B (loopS .lib pick R A B n s) (InclUpSim.loop R A B n st)
  | 0, _, _, _, _ => trivial
  | n+1, s, st, QS, h => by
    unfold loopS InclUpSim.loop
    cases hn : s.next with
    | nil =>
      have : st.next = [] := by rw [← h.nx, hn]; rfl
      simp only [this]
      exact ⟨st, QS, h, rfl⟩
    | cons it rest =>
      have hst : st.next = it.deref s.h :: rest.map (UIt.deref s.h) := by rw [← h.nx, hn]; rfl
      simp only [hst]
      have h1 := (h.pick hn).collect
      have hd : it.deref s.h = ⟨it.q, hval s.h it.a, it.t⟩ := rfl
      rw [hd]
      have hr := procTasksS_rel (A := A) pick (it := it) (tasks A it.q) _ _ h1 rfl (fun t ht => tasks_kids_ne ht)
      generalize procTasksS .lib pick R A B it (tasks A it.q) _ = rc at hr
      generalize InclUpSim.procTasks R A B ⟨it.q, hval s.h it.a, it.t⟩ (tasks A it.q) _ = rb at hr
      cases rc with
      | error e => cases rb with
        | error e' => exact hr
        | ok _ => exact hr.elim
      | ok s' => cases rb with
        | error _ => exact hr.elim
        | ok st' => exact loopS_rel pick n s' st' _ hr.1

def RResLS (R : Rel) (B : TA) : Res USt → Res St → Prop
  | .ok s, .ok st => URelS R B s st [] []
  | .error e, .error e' => e = e'
  | _, _ => False

theorem leafPhaseS_rel {R : Rel} {A B : TA} (pick : List Nat → Nat) : ∀ (ρs : List Rule) (s : USt) (st : St),
    URelS R B s st [] [] → RResLS R B (leafPhaseS .lib pick R A B ρs s) (InclUpSim.leafPhase R A B ρs st)
  | [], _, _, h => h
  | ρ :: ρs, s, st, h => by
    unfold leafPhaseS InclUpSim.leafPhase
    split
    · simp only
      split
      · exact rfl
      · obtain ⟨h1, hlive, hv⟩ := h.lookup pick (InclUpSim.macroPost R B ρ.sym []).1
        split
        · -- `continue`: the handle `ptr` is dropped
          exact leafPhaseS_rel pick ρs _ _ h1.collect
        · have h2 := (addItemS_rel h1 (it := ⟨ρ.parent, _, Tree.node ρ.sym []⟩) hlive).collect
          have hd : UIt.deref (hLookup pick s.h (InclUpSim.macroPost R B ρ.sym []).1).1
              ⟨ρ.parent, (hLookup pick s.h (InclUpSim.macroPost R B ρ.sym []).1).2, Tree.node ρ.sym []⟩ =
              ⟨ρ.parent, (InclUpSim.macroPost R B ρ.sym []).1, Tree.node ρ.sym []⟩ := by
            simp only [UIt.deref, hv]
          simp only at h2
          rw [hd] at h2
          exact leafPhaseS_rel pick ρs _ _ h2
    · exact leafPhaseS_rel pick ρs s st h

theorem runS_rel (pick : List Nat → Nat) (R : Rel) (A B : TA) (fuel : Nat) :
    RFinUS R B (runS .lib pick R A B fuel) (InclUpSim.run R A B fuel) := by
  unfold runS InclUpSim.run
  cases sizeExit A B with
  | some ρ => exact rfl
  | none =>
    simp only
    have h0 : URelS R B ⟨[], [], [], none, {}⟩ ⟨[], []⟩ [] [] :=
      ⟨rfl, rfl, rfl, (fun _ h => by cases h), (fun _ h => by cases h), (fun _ h => by cases h), HInvS.empty R B⟩
    have hr := leafPhaseS_rel (A := A) pick A.rules _ _ h0
    generalize leafPhaseS .lib pick R A B A.rules ⟨[], [], [], none, {}⟩ = rc at hr
    generalize InclUpSim.leafPhase R A B A.rules ⟨[], []⟩ = rb at hr
    cases rc with
    | error e => cases rb with
      | error e' => exact hr
      | ok _ => exact hr.elim
    | ok s' => cases rb with
      | error _ => exact hr.elim
      | ok st' => exact loopS_rel pick fuel s' st' [] hr

/-- **the cached upward exploration with a relation, read through its pointers, is the cache-free exploration – for every
allocator and every relation** (verdict, final antichain by value, `none` at the same fuel) -/
theorem runS_eq (pick : List Nat → Nat) (R : Rel) (A B : TA) (fuel : Nat) :
    viewU (runS .lib pick R A B fuel) = InclUpSim.run R A B fuel :=
  viewU_of_RFinUS (runS_rel pick R A B fuel)

theorem inclUpSim_eq_finish (A B : TA) (R : Rel) (fuel : Nat) :
    inclUpSim A B R fuel = finishUpSim A B R (InclUpSim.run R A B fuel) := by
  unfold inclUpSim
  cases InclUpSim.run R A B fuel with
  | none => rfl
  | some r => cases r with
    | ok P => rfl
    | error e => obtain ⟨q, t⟩ := e; rfl

/-- **C01, upward algorithm with a simulation: `biggerTypeCache`, `lteCache`, `evalTransitionsCache` are transparent under the
library's deleter.**  For all operands, EVERY relation (no simulation hypothesis), every fuel and EVERY allocator the algorithm
with its caches returns exactly what the cache-free model `inclUpSim` returns: the same verdict with the same antichain /
witness, `none` at the same fuel. -/
theorem inclUpSim_cached_eq (pick : List Nat → Nat) (A B : TA) (R : Rel) (fuel : Nat) :
    inclUpSimC .lib pick A B R fuel = inclUpSim A B R fuel := by
  rw [inclUpSim_eq_finish, inclUpSimC, runS_eq]

theorem checkInclUpSim_cached_eq (pick : List Nat → Nat) (A B : TA) (fuel : Nat) :
    checkInclUpSimC .lib pick A B fuel = checkInclUpSim A B fuel :=
  inclUpSim_cached_eq pick _ _ _ fuel

/-! ### the invariant at the end of a run; verdicts of the certifying model -/

theorem heapOKSB_of_HInvS {R : Rel} {B : TA} {h : Heap} (hi : HInvS R B h) : heapOKSB R B h = true := by
  simp only [heapOKSB, Bool.and_eq_true, List.all_eq_true, List.contains_iff_mem, beq_iff_eq]
  constructor
  · intro e he
    have := hi.sl e.1.1 e.1.2 e.2 (aget_of_mem_nodup hi.li.k0 he)
    exact ⟨⟨this.1, this.2.1⟩, this.2.2⟩
  · intro e he
    have := hi.se e.1.1 e.1.2 e.2 (aget_of_mem_nodup hi.ei.k0 he)
    exact ⟨this.1, this.2⟩

/-- **the invariant of the two memo tables (and interning) at the end of every run with the library's deleter, for every
allocator and relation** -/
theorem runS_heap_sound (pick : List Nat → Nat) (R : Rel) (A B : TA) (fuel : Nat) {h : Heap}
    (hf : finalHeap (runS .lib pick R A B fuel) = some h) : HInvS R B h ∧ heapOKSB R B h = true := by
  have hr := runS_rel pick R A B fuel
  generalize runS .lib pick R A B fuel = rc at hr hf
  cases rc with
  | none => cases hf
  | some r => cases r with
    | error _ => cases hf
    | ok s =>
      simp only [finalHeap, Option.some.injEq] at hf
      subst hf
      cases hb : InclUpSim.run R A B fuel with
      | none => rw [hb] at hr; exact hr.elim
      | some r' => cases r' with
        | error _ => rw [hb] at hr; exact hr.elim
        | ok P =>
          rw [hb] at hr
          obtain ⟨st, QS, hrel, _⟩ := hr
          exact ⟨hrel.hi, heapOKSB_of_HInvS hrel.hi⟩

theorem finishUpSim_iff {A B : TA} {R : Rel} {r : Option (Res (List Item))} {b : Bool} {c : Cert}
    (h : finishUpSim A B R r = some (b, c)) : b = true ↔ Incl A B := by
  cases r with
  | none => cases h
  | some r' =>
    -- `finishUpSim` on a finished exploration is `inclUpSim` on any run that ends so; reuse `inclUpSim_iff` through a
    -- direct case analysis
    cases r' with
    | ok P =>
      simp only [finishUpSim] at h
      split at h
      · next hc =>
        simp only [Option.some.injEq, Prod.mk.injEq] at h
        obtain ⟨rfl, _⟩ := h
        simp only [Bool.and_eq_true] at hc
        exact ⟨fun _ => upCertSimB_incl hc.1.1 hc.1.2 hc.2, fun _ => rfl⟩
      · cases h
    | error e =>
      obtain ⟨q, t⟩ := e
      simp only [finishUpSim] at h
      split at h
      · next hc =>
        simp only [Option.some.injEq, Prod.mk.injEq] at h
        obtain ⟨rfl, _⟩ := h
        simp only [Bool.and_eq_true, Bool.not_eq_true'] at hc
        constructor
        · intro h; cases h
        · intro hincl
          have := hincl _ hc.1
          rw [hc.2] at this; cases this
      · cases h

/-- the certifying cached model never returns a wrong verdict, whatever the wiring, the allocator and the relation -/
theorem inclUpSimC_iff {w : Wiring} {pick : List Nat → Nat} {A B : TA} {R : Rel} {fuel : Nat} {b : Bool} {c : Cert}
    (h : inclUpSimC w pick A B R fuel = some (b, c)) : b = true ↔ Incl A B :=
  finishUpSim_iff h

/-! ### the wiring matters for the simulation variant: a stale `lteCache` entry changes a verdict -/
namespace FCUSEx

/-- `L(A) ⊄ L(B)`; both trimmed, disjoint -/
def exWA : TA := ⟨[⟨2, [0, 0], 0⟩, ⟨2, [1, 1], 0⟩, ⟨2, [1, 0], 1⟩, ⟨1, [], 0⟩, ⟨1, [], 1⟩], [0, 1]⟩
def exWB : TA :=
  ⟨[⟨3, [12], 12⟩, ⟨2, [12, 11], 12⟩, ⟨1, [], 12⟩, ⟨2, [12, 12], 10⟩, ⟨2, [10, 11], 12⟩, ⟨1, [], 11⟩, ⟨2, [10, 12], 10⟩], [10, 12]⟩
/-- the greatest upward simulation of the disjoint union: the identity and `10 ≼ 12` -/
def exWR : Rel := [(0, 0), (1, 1), (12, 12), (11, 11), (10, 12), (10, 10)]
/-- the identity alone -/
def exWI : Rel := [(0, 0), (1, 1), (12, 12), (11, 11), (10, 10)]

theorem exWR_is_upSimRef : upSimRef (unionDisjoint exWA exWB) = exWR := by decide +kernel

def exWt1 : Tree := .node 2 [.node 1 [], .node 1 []]
def exWt2 : Tree := .node 2 [exWt1, exWt1]
/-- the tree `f(f(f(b,b),f(b,b)), f(f(b,b),f(b,b)))` is accepted by `A` and not by `B` -/
theorem exW_not_incl : ¬ Incl exWA exWB := fun h => by
  have := h (.node 2 [exWt2, exWt2]) (by decide)
  revert this; decide

/-- **the wiring of the deleter matters for `ANTICHAINS_UP_SIM`.**  The allocator recycles the address of a dead macro-state at
once (`pickLeast`); the relation is the computed simulation.  With the default deleter (`Wiring.none`) and with the slip that
purges ONE key position of `lteCache` only (`Wiring.firstTwice`: `invalidateFirst` twice, the entries with the dying address in
SECOND position survive) the exploration of `exWA ⊆ exWB` ends with `return true`; with the library's deleter it answers `false`,
which is right.  The stale entry is hit through the relation: with the identity in place of the simulation the same allocator
and the default deleter answer `false`. -/
theorem wiring_changes_verdict_sim :
    rawVerdictU (runS .none pickLeast exWR exWA exWB 12) = some true ∧
    rawVerdictU (runS .firstTwice pickLeast exWR exWA exWB 12) = some true ∧
    rawVerdictU (runS .lib pickLeast exWR exWA exWB 12) = some false ∧
    rawVerdictU (runS .none pickLeast exWI exWA exWB 12) = some false ∧ ¬ Incl exWA exWB :=
  ⟨by decide +kernel, by decide +kernel, by decide +kernel, by decide +kernel, exW_not_incl⟩

/-- … the certificate check of the model does not let the wrong `true` through -/
theorem wiring_certificate_rejects_sim :
    inclUpSimC .none pickLeast exWA exWB exWR 12 = none ∧ inclUpSimC .firstTwice pickLeast exWA exWB exWR 12 = none := by
  refine ⟨by decide +kernel, by decide +kernel⟩

/-- `L(A) ⊆ L(B)`; the verdict survives, the invariant does not -/
def exSA : TA := ⟨[⟨2, [1, 0], 0⟩, ⟨1, [], 0⟩, ⟨1, [], 1⟩, ⟨2, [1, 0], 0⟩, ⟨2, [1, 0], 0⟩], [0]⟩
def exSB : TA :=
  ⟨[⟨1, [], 11⟩, ⟨0, [], 11⟩, ⟨2, [11, 11], 10⟩, ⟨2, [11, 11], 11⟩, ⟨2, [12, 10], 11⟩, ⟨2, [10, 10], 12⟩, ⟨2, [10, 10], 11⟩],
    [10, 11]⟩
/-- the greatest upward simulation of the disjoint union: the identity and `12 ≼ 10` -/
def exSR : Rel := [(0, 0), (1, 1), (11, 11), (10, 10), (12, 10), (12, 12)]

theorem exSR_is_upSimRef : upSimRef (unionDisjoint exSA exSB) = exSR := by decide +kernel

/-- **a stale entry**: at the end of the run with the default deleter (and with the one-position slip) a memo table holds an
entry that is not the value of the memoised function on the objects now at its addresses (or whose object is dead); with the
library's deleter the tables pass the test (`runS_heap_sound`) -/
theorem wiring_breaks_invariant_sim :
    (finalHeap (runS .none pickLeast exSR exSA exSB 12)).map (heapOKSB exSR exSB) = some false ∧
    (finalHeap (runS .firstTwice pickLeast exSR exSA exSB 12)).map (heapOKSB exSR exSB) = some false ∧
    (finalHeap (runS .lib pickLeast exSR exSA exSB 12)).map (heapOKSB exSR exSB) = some true := by
  refine ⟨by decide +kernel, by decide +kernel, by decide +kernel⟩

/-! non-vacuity -/
example : inclUpSimC .lib pickLeast exWA exWB exWR 12 = inclUpSim exWA exWB exWR 12 := inclUpSim_cached_eq _ _ _ _ _
example : (inclUpSimC .lib pickLeast exWA exWB exWR 12).map (·.1) = some false := by decide +kernel
example : (inclUpSimC .lib pickLeast exSA exSB exSR 12).map (·.1) = some true := by decide +kernel
/-- objects do die and memo entries are made in that run -/
example : (finalHeap (runS .lib pickLeast exSR exSA exSB 12)).map
    (fun h => (h.store.length, h.lte.store.length, h.ev.store.length)) = some (1, 0, 2) := by decide +kernel

end FCUSEx

end FCUS
end Vata
