import Vata.FunctorCachesUp
import Vata.Proofs.CacheModel
import Vata.Proofs.InclUpTotal
import Vata.Proofs.FunctorCaches
/-!
# The caches of the upward tree inclusion algorithm are transparent – with the library's deleter (property C01)

Model: `Vata/FunctorCachesUp.lean`.  Objects die here and addresses are recycled; the invariant is the one of
`Vata/Proofs/CacheModel.lean` (`memo_sound`): every entry of `lteCache` / `evalTransitionsCache` is about LIVE objects and holds
the value of the memoised function on their CURRENT values (`HInv`).  It is kept by `lookup` of the two tables, by the creation
of an object at any free address, and – this is where the wiring enters – by the death of objects when the deleter purges
both key positions of `lteCache` and the second of `evalTransitionsCache` (`hCollect_spec`, on top of
`BinOp.invalidateFirst_store`, `invalidateSecond_store` of the cache model).

* `runC_eq`, `inclUp_cached_eq`, `checkInclUp_cached_eq`: for EVERY allocator the algorithm with its caches and the library's
  deleter returns exactly what `inclUp` returns;
* `wiring_changes_verdict`: with the default deleter (`Wiring.none`) or the slip `Wiring.firstTwice` and an allocator that
  recycles addresses at once a stale entry of `lteCache` changes a verdict on a concrete pair.
-/
namespace Vata
namespace FCU
open Vata.InclUp Vata.CM

/-! ### the store -/

def Live (h : Heap) (a : Nat) : Prop := a ∈ h.addrs

theorem le_foldl_max : ∀ (l : List Nat) (init x : Nat), (x ∈ l ∨ x ≤ init) → x ≤ l.foldl max init
  | [], _, _, h => by
    rcases h with h | h
    · cases h
    · exact h
  | y :: l, init, x, h => by
    simp only [List.foldl_cons]
    apply le_foldl_max l
    rcases h with h | h
    · rcases List.mem_cons.mp h with rfl | h
      · exact Or.inr (Nat.le_max_right _ _)
      · exact Or.inl h
    · exact Or.inr (Nat.le_trans h (Nat.le_max_left _ _))

/-- every allocator of the model returns a free address -/
theorem allocA_fresh (pick : List Nat → Nat) (live : List Nat) : allocA pick live ∉ live := by
  unfold allocA
  split
  · intro h
    have := le_foldl_max live 0 _ (Or.inl h)
    omega
  · next h => simpa using h

theorem find_addr_of_mem : ∀ {st : List (Nat × List Nat)} {a : Nat}, a ∈ st.map (·.1) →
    ∃ o, st.find? (fun o => o.1 == a) = some o ∧ o.1 = a ∧ o ∈ st
  | [], _, h => by cases h
  | o :: st, a, h => by
    simp only [List.find?_cons]
    by_cases ho : o.1 = a
    · exact ⟨o, by simp [ho], ho, List.mem_cons_self⟩
    · have : a ∈ st.map (·.1) := by
        simp only [List.map_cons, List.mem_cons] at h
        rcases h with h | h
        · exact (ho h.symm).elim
        · exact h
      obtain ⟨o', h1, h2, h3⟩ := find_addr_of_mem this
      refine ⟨o', ?_, h2, List.mem_cons_of_mem _ h3⟩
      have : (o.1 == a) = false := by simpa using ho
      simp [this, h1]

theorem find_addr_none : ∀ {st : List (Nat × List Nat)} {a : Nat}, a ∉ st.map (·.1) →
    st.find? (fun o => o.1 == a) = none
  | [], _, _ => rfl
  | o :: st, a, h => by
    simp only [List.map_cons, List.mem_cons, not_or] at h
    have : (o.1 == a) = false := by simpa using fun e => h.1 e.symm
    simp only [List.find?_cons, this]
    exact find_addr_none h.2

theorem hval_append_old {h : Heap} {o : Nat × List Nat} {a : Nat} (ha : Live h a) :
    hval { h with store := h.store ++ [o] } a = hval h a := by
  obtain ⟨o', h1, _, _⟩ := find_addr_of_mem ha
  simp only [hval, List.find?_append, h1, Option.some_or]

theorem hval_append_new {h : Heap} {a : Nat} {v : List Nat} (ha : ¬ Live h a) :
    hval { h with store := h.store ++ [(a, v)] } a = v := by
  simp only [hval, List.find?_append, find_addr_none ha, Option.none_or]
  simp

theorem find_filter_roots (roots : List Nat) {a : Nat} (ha : roots.contains a = true) :
    ∀ st : List (Nat × List Nat),
      (st.filter (fun o => roots.contains o.1)).find? (fun o => o.1 == a) = st.find? (fun o => o.1 == a)
  | [] => rfl
  | o :: st => by
    simp only [List.filter_cons]
    by_cases ho : o.1 = a
    · have h1 : roots.contains o.1 = true := by rw [ho]; exact ha
      have h2 : (o.1 == a) = true := by simpa using ho
      rw [if_pos h1]; simp only [List.find?_cons, h2]
    · have h2 : (o.1 == a) = false := by simpa using ho
      split
      · simp only [List.find?_cons, h2]; exact find_filter_roots roots ha st
      · simp only [List.find?_cons, h2]; exact find_filter_roots roots ha st

theorem mem_unique_addr : ∀ {st : List (Nat × List Nat)} {o o' : Nat × List Nat}, (st.map (·.1)).Nodup →
    o ∈ st → o' ∈ st → o'.1 = o.1 → o' = o
  | [], _, _, _, h, _, _ => by cases h
  | x :: st, o, o', hn, hm, hm', he => by
    simp only [List.map_cons, List.nodup_cons] at hn
    rcases List.mem_cons.mp hm with rfl | hm1
    · rcases List.mem_cons.mp hm' with rfl | hm2
      · rfl
      · exact (hn.1 (he ▸ List.mem_map_of_mem hm2)).elim
    · rcases List.mem_cons.mp hm' with rfl | hm2
      · exact (hn.1 (he ▸ List.mem_map_of_mem hm1)).elim
      · exact mem_unique_addr hn.2 hm1 hm2 he

/-! ### the invariant of the heap and of the two memo tables -/

/-- one object per address; the tables are well formed; every entry is about live objects and holds the value of the memoised
function on their values -/
structure HInv (B : TA) (h : Heap) : Prop where
  na : h.addrs.Nodup
  li : h.lte.Inv
  ei : h.ev.Inv
  sl : ∀ a b r, aget h.lte.store (a, b) = some r → Live h a ∧ Live h b ∧ r = subB (hval h a) (hval h b)
  se : ∀ k b r, aget h.ev.store (k, b) = some r → Live h b ∧ r = evalT B k (hval h b)

theorem HInv.empty (B : TA) : HInv B {} :=
  ⟨List.nodup_nil, BinOp.empty_inv, BinOp.empty_inv, (fun _ _ _ h => by cases h), (fun _ _ _ h => by cases h)⟩

/-- a heap with the same objects -/
theorem hval_store {h h' : Heap} (hs : h'.store = h.store) (a : Nat) : hval h' a = hval h a := by
  simp only [hval, hs]

theorem live_store {h h' : Heap} (hs : h'.store = h.store) (a : Nat) : Live h' a ↔ Live h a := by
  simp only [Live, Heap.addrs, hs]

/-- `biggerTypeCache.lookup(v)`: the returned object is live and holds `v`; the live objects keep their values -/
theorem hLookup_spec (pick : List Nat → Nat) {B : TA} {h : Heap} (hi : HInv B h) (v : List Nat) :
    HInv B (hLookup pick h v).1 ∧ Live (hLookup pick h v).1 (hLookup pick h v).2 ∧
    hval (hLookup pick h v).1 (hLookup pick h v).2 = v ∧
    (∀ a, Live h a → Live (hLookup pick h v).1 a ∧ hval (hLookup pick h v).1 a = hval h a) := by
  unfold hLookup
  split
  · next o ho =>
    have hm := List.mem_of_find?_eq_some ho
    have hv : o.2 = v := by simpa using List.find?_some ho
    have hlive : Live h o.1 := List.mem_map_of_mem hm
    refine ⟨hi, hlive, ?_, fun a ha => ⟨ha, rfl⟩⟩
    obtain ⟨o', h1, h2, h3⟩ := find_addr_of_mem hlive
    have : o' = o := mem_unique_addr hi.na hm h3 h2
    simp only [hval, h1, this, hv]
  · have hfresh := allocA_fresh pick h.addrs
    refine ⟨⟨?_, hi.li, hi.ei, ?_, ?_⟩, ?_, hval_append_new hfresh, ?_⟩
    · simp only [Heap.addrs, List.map_append, List.map_cons, List.map_nil]
      refine List.nodup_append.mpr ⟨hi.na, by simp, ?_⟩
      intro a ha b hb
      simp only [List.mem_singleton] at hb
      subst hb
      intro e; subst e; exact hfresh ha
    · intro a b r hr
      obtain ⟨ha, hb, he⟩ := hi.sl a b r hr
      refine ⟨?_, ?_, ?_⟩
      · simp only [Live, Heap.addrs, List.map_append, List.mem_append]; exact Or.inl ha
      · simp only [Live, Heap.addrs, List.map_append, List.mem_append]; exact Or.inl hb
      · rw [hval_append_old ha, hval_append_old hb]; exact he
    · intro k b r hr
      obtain ⟨hb, he⟩ := hi.se k b r hr
      refine ⟨?_, ?_⟩
      · simp only [Live, Heap.addrs, List.map_append, List.mem_append]; exact Or.inl hb
      · rw [hval_append_old hb]; exact he
    · simp [Live, Heap.addrs]
    · intro a ha
      refine ⟨?_, hval_append_old ha⟩
      simp only [Live, Heap.addrs, List.map_append, List.mem_append]; exact Or.inl ha

/-- the lambda `lte` answers `*x ⊆ *y` on live objects and keeps the invariant -/
theorem hLte_spec {B : TA} {h : Heap} (hi : HInv B h) {a b : Nat} (ha : Live h a) (hb : Live h b) :
    (hLte h a b).2 = subB (hval h a) (hval h b) ∧ HInv B (hLte h a b).1 ∧ (hLte h a b).1.store = h.store := by
  unfold hLte
  split
  · next e =>
    subst e
    exact ⟨(subB_iff.mpr (fun _ hx => hx)).symm, hi, rfl⟩
  · simp only
    have hans := BinOp.lookup_ans h.lte a b (fun x y => subB (hval h x) (hval h y))
    have hst := BinOp.lookup_store h.lte a b (fun x y => subB (hval h x) (hval h y))
    have hans' : (h.lte.lookup a b (fun x y => subB (hval h x) (hval h y))).2 = subB (hval h a) (hval h b) := by
      rw [hans]
      cases hg : aget h.lte.store (a, b) with
      | none => rfl
      | some v => exact (hi.sl a b v hg).2.2
    refine ⟨hans', ⟨hi.na, BinOp.lookup_inv hi.li _ _ _, hi.ei, ?_, hi.se⟩, trivial⟩
    intro a' b' r hr
    rw [hst] at hr
    split at hr
    · next hk =>
      simp only [Prod.mk.injEq] at hk
      obtain ⟨rfl, rfl⟩ := hk
      simp only [Option.some.injEq] at hr
      exact ⟨ha, hb, by rw [← hr]; exact hans'⟩
    · exact hi.sl a' b' r hr

/-- the lambda `evalTransitions` answers `noncachedEvalTransitions` on a live object and keeps the invariant -/
theorem hEval_spec {B : TA} {h : Heap} (hi : HInv B h) (k : EKey) {a : Nat} (ha : Live h a) :
    (hEval B h k a).2 = evalT B k (hval h a) ∧ HInv B (hEval B h k a).1 ∧ (hEval B h k a).1.store = h.store := by
  unfold hEval
  simp only
  have hans := BinOp.lookup_ans h.ev k a (fun k' y => evalT B k' (hval h y))
  have hst := BinOp.lookup_store h.ev k a (fun k' y => evalT B k' (hval h y))
  have hans' : (h.ev.lookup k a (fun k' y => evalT B k' (hval h y))).2 = evalT B k (hval h a) := by
    rw [hans]
    cases hg : aget h.ev.store (k, a) with
    | none => rfl
    | some v => exact (hi.se k a v hg).2
  refine ⟨hans', ⟨hi.na, hi.li, BinOp.lookup_inv hi.ei _ _ _, hi.sl, ?_⟩, trivial⟩
  intro k' b' r hr
  rw [hst] at hr
  split at hr
  · next hk =>
    simp only [Prod.mk.injEq] at hk
    obtain ⟨rfl, rfl⟩ := hk
    simp only [Option.some.injEq] at hr
    exact ⟨ha, by rw [← hr]; exact hans'⟩
  · exact hi.se k' b' r hr

/-- the library's deleter, run for a list of dying addresses: exactly the entries that mention one of them are gone -/
theorem fold_deleter_lib : ∀ (dead : List Nat) (h : Heap), h.lte.Inv → h.ev.Inv →
    (dead.foldl (deleter .lib) h).lte.Inv ∧ (dead.foldl (deleter .lib) h).ev.Inv ∧
    (dead.foldl (deleter .lib) h).store = h.store ∧
    (∀ k, aget (dead.foldl (deleter .lib) h).lte.store k =
      if k.1 ∈ dead ∨ k.2 ∈ dead then none else aget h.lte.store k) ∧
    (∀ k, aget (dead.foldl (deleter .lib) h).ev.store k = if k.2 ∈ dead then none else aget h.ev.store k)
  | [], h, hl, he => ⟨hl, he, rfl, fun k => by simp, fun k => by simp⟩
  | d :: dead, h, hl, he => by
    simp only [List.foldl_cons]
    have hl1 := BinOp.invalidateFirst_inv hl d
    have hl2 := BinOp.invalidateSecond_inv hl1 d
    have he2 := BinOp.invalidateSecond_inv he d
    obtain ⟨i1, i2, i3, i4, i5⟩ := fold_deleter_lib dead (deleter .lib h d) hl2 he2
    refine ⟨i1, i2, i3, ?_, ?_⟩
    · intro k
      rw [i4]
      simp only [deleter, BinOp.invalidateSecond_store hl1, BinOp.invalidateFirst_store hl, List.mem_cons]
      by_cases h1 : k.1 ∈ dead ∨ k.2 ∈ dead
      · have : (k.1 = d ∨ k.1 ∈ dead) ∨ (k.2 = d ∨ k.2 ∈ dead) := by
          rcases h1 with h1 | h1
          · exact Or.inl (Or.inr h1)
          · exact Or.inr (Or.inr h1)
        simp [h1, this]
      · simp only [h1, if_false]
        have h1' := not_or.mp h1
        by_cases h2 : k.2 = d
        · simp [h2]
        · by_cases h3 : k.1 = d
          · simp [h3]
          · simp [h2, h3, h1'.1, h1'.2]
    · intro k
      rw [i5]
      simp only [deleter, BinOp.invalidateSecond_store he, List.mem_cons]
      by_cases h1 : k.2 ∈ dead
      · simp [h1]
      · by_cases h2 : k.2 = d
        · simp [h2]
        · simp [h1, h2]

/-- **the deaths, with the library's wiring**: the invariant is kept, the objects with a handle keep their values -/
theorem hCollect_spec {B : TA} {h : Heap} (hi : HInv B h) (roots : List Nat) :
    HInv B (hCollect .lib roots h) ∧
    (∀ a, a ∈ roots → Live h a → Live (hCollect .lib roots h) a ∧ hval (hCollect .lib roots h) a = hval h a) := by
  obtain ⟨i1, i2, _, i4, i5⟩ := fold_deleter_lib ((h.store.filter (fun o => !roots.contains o.1)).map (·.1)) h hi.li hi.ei
  have hkeep : ∀ a, Live h a → a ∉ (h.store.filter (fun o => !roots.contains o.1)).map (·.1) →
      Live (hCollect .lib roots h) a ∧ hval (hCollect .lib roots h) a = hval h a := by
    intro a ha hnd
    obtain ⟨o, ho, hoa, hom⟩ := find_addr_of_mem ha
    have hr : roots.contains a = true := by
      cases hc : roots.contains a with
      | true => rfl
      | false =>
        exfalso; apply hnd
        exact List.mem_map.mpr ⟨o, List.mem_filter.mpr ⟨hom, by rw [hoa, hc]; rfl⟩, hoa⟩
    constructor
    · exact List.mem_map.mpr ⟨o, List.mem_filter.mpr ⟨hom, by rw [hoa]; exact hr⟩, hoa⟩
    · simp only [hval, hCollect, find_filter_roots roots hr]
  constructor
  · refine ⟨?_, i1, i2, ?_, ?_⟩
    · exact (List.filter_sublist.map _).nodup hi.na
    · intro a b r hr
      have hr' : aget ((h.store.filter (fun o => !roots.contains o.1)).map (·.1) |>.foldl (deleter .lib) h).lte.store (a, b)
          = some r := hr
      rw [i4] at hr'
      split at hr'
      · cases hr'
      · next hnd =>
        have hnd' := not_or.mp hnd
        obtain ⟨ha, hb, he⟩ := hi.sl a b r hr'
        obtain ⟨la, va⟩ := hkeep a ha hnd'.1
        obtain ⟨lb, vb⟩ := hkeep b hb hnd'.2
        exact ⟨la, lb, by rw [va, vb]; exact he⟩
    · intro k b r hr
      have hr' : aget ((h.store.filter (fun o => !roots.contains o.1)).map (·.1) |>.foldl (deleter .lib) h).ev.store (k, b)
          = some r := hr
      rw [i5] at hr'
      split at hr'
      · cases hr'
      · next hnd =>
        obtain ⟨hb, he⟩ := hi.se k b r hr'
        obtain ⟨lb, vb⟩ := hkeep b hb hnd
        exact ⟨lb, by rw [vb]; exact he⟩
  · intro a har ha
    apply hkeep a ha
    intro hd
    obtain ⟨o, ho, hoa⟩ := List.mem_map.mp hd
    have := (List.mem_filter.mp ho).2
    rw [hoa] at this
    have hc : roots.contains a = true := by simpa using har
    rw [hc] at this; cases this

/-! ### the antichains -/

def ULive (h : Heap) (l : List UIt) : Prop := ∀ i, i ∈ l → Live h i.a

theorem ULive.store {h h' : Heap} {l : List UIt} (hl : ULive h l) (hs : h'.store = h.store) : ULive h' l :=
  fun i hi => (live_store hs _).mpr (hl i hi)

theorem map_deref_store {h h' : Heap} (hs : h'.store = h.store) (l : List UIt) :
    l.map (UIt.deref h') = l.map (UIt.deref h) := by
  apply List.map_congr_left
  intro i _
  simp only [UIt.deref, hval_store hs]

theorem acContains_spec {B : TA} (q a : Nat) : ∀ (P : List UIt) (h : Heap), HInv B h → Live h a → ULive h P →
    (acContains q a P h).2 = subsumed (P.map (UIt.deref h)) q (hval h a) ∧
    HInv B (acContains q a P h).1 ∧ (acContains q a P h).1.store = h.store
  | [], h, hi, _, _ => ⟨by simp [acContains, subsumed], hi, rfl⟩
  | i :: P, h, hi, ha, hl => by
    have hlP : ULive h P := fun j hj => hl j (List.mem_cons_of_mem _ hj)
    have hia : Live h i.a := hl i List.mem_cons_self
    unfold acContains
    simp only [subsumed, List.map_cons, List.any_cons]
    split
    · next hq =>
      obtain ⟨e1, m1, c1⟩ := hLte_spec hi hia ha
      split
      · next ht =>
        refine ⟨?_, m1, c1⟩
        rw [e1] at ht
        simp [UIt.deref, hq, ht]
      · next ht =>
        have ht' : (hLte h i.a a).2 = false := by simpa using ht
        obtain ⟨e2, m2, c2⟩ := acContains_spec q a P (hLte h i.a a).1 m1 ((live_store c1 _).mpr ha) (hlP.store c1)
        refine ⟨?_, m2, c2.trans c1⟩
        rw [e2, map_deref_store c1, hval_store c1]
        rw [e1] at ht'
        simp [UIt.deref, ht', subsumed]
    · next hq =>
      obtain ⟨e2, m2, c2⟩ := acContains_spec q a P h hi ha hlP
      refine ⟨?_, m2, c2⟩
      rw [e2]
      simp [UIt.deref, hq, subsumed]

/-- the pairs `refine` keeps -/
def keepU (h : Heap) (q a : Nat) (i : UIt) : Bool := !(i.q == q && subB (hval h a) (hval h i.a))

theorem keepU_store {h h' : Heap} (hs : h'.store = h.store) (q a : Nat) : keepU h' q a = keepU h q a := by
  funext i; simp only [keepU, hval_store hs]

theorem acRefine_spec {B : TA} (q a : Nat) : ∀ (P : List UIt) (h : Heap), HInv B h → Live h a → ULive h P →
    (acRefine q a P h).2 = P.filter (keepU h q a) ∧
    HInv B (acRefine q a P h).1 ∧ (acRefine q a P h).1.store = h.store
  | [], h, hi, _, _ => ⟨by simp [acRefine], hi, rfl⟩
  | i :: P, h, hi, ha, hl => by
    have hlP : ULive h P := fun j hj => hl j (List.mem_cons_of_mem _ hj)
    have hia : Live h i.a := hl i List.mem_cons_self
    unfold acRefine
    split
    · next hq =>
      obtain ⟨e1, m1, c1⟩ := hLte_spec hi ha hia
      obtain ⟨e2, m2, c2⟩ := acRefine_spec q a P (hLte h a i.a).1 m1 ((live_store c1 _).mpr ha) (hlP.store c1)
      refine ⟨?_, m2, c2.trans c1⟩
      simp only [e2, keepU_store c1, e1, List.filter_cons, keepU, hq, Bool.true_and]
      cases subB (hval h a) (hval h i.a) <;> simp
    · next hq =>
      obtain ⟨e2, m2, c2⟩ := acRefine_spec q a P h hi ha hlP
      refine ⟨?_, m2, c2⟩
      simp only [e2, List.filter_cons, keepU]
      have : (i.q == q) = false := by simpa using hq
      simp [this]

theorem refine_map_derefU (h : Heap) (q a : Nat) (P : List UIt) :
    refine (P.map (UIt.deref h)) q (hval h a) = (P.filter (keepU h q a)).map (UIt.deref h) := by
  unfold refine
  rw [List.filter_map]
  rfl

theorem insNextC_map (h : Heap) (it : UIt) : ∀ l : List UIt,
    (insNextC h it l).map (UIt.deref h) = insNext (it.deref h) (l.map (UIt.deref h))
  | [] => rfl
  | x :: l => by
    have : itemLtC h it x = itemLt (it.deref h) (x.deref h) := rfl
    simp only [insNextC, insNext, List.map_cons, this]
    split
    · rfl
    · simp only [List.map_cons, insNextC_map h it l]

theorem mem_insNextC {h : Heap} {it x : UIt} : ∀ {l : List UIt}, x ∈ insNextC h it l ↔ x = it ∨ x ∈ l
  | [] => by simp [insNextC]
  | y :: l => by
    simp only [insNextC]
    split
    · simp only [List.mem_cons]
    · simp only [List.mem_cons, mem_insNextC (l := l)]
      constructor
      · rintro (h | h | h)
        · exact Or.inr (Or.inl h)
        · exact Or.inl h
        · exact Or.inr (Or.inr h)
      · rintro (h | h | h)
        · exact Or.inr (Or.inl h)
        · exact Or.inl h
        · exact Or.inr (Or.inr h)

theorem hasPair_iff {l : List UIt} {i : UIt} : hasPair l i = true ↔ ∃ j, j ∈ l ∧ j.q = i.q ∧ j.a = i.a := by
  simp only [hasPair, List.any_eq_true, Bool.and_eq_true, beq_iff_eq]

theorem keepU_pair {h : Heap} {q a : Nat} {i j : UIt} (hq : j.q = i.q) (ha : j.a = i.a) : keepU h q a j = keepU h q a i := by
  simp only [keepU, hq, ha]

/-- the `Eraser` removes from `next` exactly the pairs `refine` erased from `processed` -/
theorem filter_hasPair {h : Heap} {q a : Nat} {P N : List UIt} (hsub : ∀ i, i ∈ N → hasPair P i = true) :
    N.filter (hasPair (P.filter (keepU h q a))) = N.filter (keepU h q a) := by
  apply List.filter_congr
  intro i hi
  rw [Bool.eq_iff_iff, hasPair_iff]
  constructor
  · rintro ⟨j, hj, hq, ha⟩
    rw [← keepU_pair hq ha]; exact (List.mem_filter.mp hj).2
  · intro hk
    obtain ⟨j, hj, hq, ha⟩ := hasPair_iff.mp (hsub i hi)
    exact ⟨j, List.mem_filter.mpr ⟨hj, by rw [keepU_pair hq ha]; exact hk⟩, hq, ha⟩

/-! ### the simulation -/

/-- the cached state read through its pointers is the cache-free state (`tmp` = the antichain `temporary`, `QS` = the value
of `Q`); every handle points to a live object; the heap invariant holds -/
structure URel (B : TA) (s : USt) (st : St) (tmp : List Item) (QS : List Nat) : Prop where
  pr : s.processed.map (UIt.deref s.h) = st.processed
  nx : s.next.map (UIt.deref s.h) = st.next
  tm : s.temporary.map (UIt.deref s.h) = tmp
  qv : ∀ a, s.Q = some a → hval s.h a = QS
  live : ∀ a, a ∈ s.roots → Live s.h a
  sub : ∀ i, i ∈ s.next → hasPair s.processed i = true
  hi : HInv B s.h

theorem URel.lp {B : TA} {s : USt} {st : St} {tmp : List Item} {QS : List Nat} (h : URel B s st tmp QS) :
    ULive s.h s.processed := fun i hi => h.live _ (by
      simp only [USt.roots, List.mem_append, List.mem_map]; exact Or.inl (Or.inl ⟨i, hi, rfl⟩))

theorem URel.lt {B : TA} {s : USt} {st : St} {tmp : List Item} {QS : List Nat} (h : URel B s st tmp QS) :
    ULive s.h s.temporary := fun i hi => h.live _ (by
      simp only [USt.roots, List.mem_append, List.mem_map]; exact Or.inl (Or.inr ⟨i, hi, rfl⟩))

theorem map_deref_stable {h h' : Heap} {l : List UIt} (hl : ULive h l)
    (hst : ∀ a, Live h a → Live h' a ∧ hval h' a = hval h a) : l.map (UIt.deref h') = l.map (UIt.deref h) := by
  apply List.map_congr_left
  intro i hi
  simp only [UIt.deref, (hst _ (hl i hi)).2]

/-- a heap in which the live objects are still live with the same values -/
theorem URel.heap {B : TA} {s : USt} {st : St} {tmp : List Item} {QS : List Nat} (h : URel B s st tmp QS) {h' : Heap}
    (hi' : HInv B h') (hst : ∀ a, a ∈ s.roots → Live s.h a → Live h' a ∧ hval h' a = hval s.h a) :
    URel B { s with h := h' } st tmp QS := by
  have hroot : ∀ a, a ∈ s.roots → Live h' a ∧ hval h' a = hval s.h a := fun a ha => hst a ha (h.live a ha)
  have hmap : ∀ l : List UIt, (∀ i, i ∈ l → i.a ∈ s.roots) → l.map (UIt.deref h') = l.map (UIt.deref s.h) := by
    intro l hl
    apply List.map_congr_left
    intro i hi
    simp only [UIt.deref, (hroot _ (hl i hi)).2]
  have hp : ∀ i, i ∈ s.processed → i.a ∈ s.roots := fun i hi => by
    simp only [USt.roots, List.mem_append, List.mem_map]; exact Or.inl (Or.inl ⟨i, hi, rfl⟩)
  have ht : ∀ i, i ∈ s.temporary → i.a ∈ s.roots := fun i hi => by
    simp only [USt.roots, List.mem_append, List.mem_map]; exact Or.inl (Or.inr ⟨i, hi, rfl⟩)
  have hn : ∀ i, i ∈ s.next → i.a ∈ s.roots := fun i hi => by
    obtain ⟨j, hj, _, ha⟩ := hasPair_iff.mp (h.sub i hi)
    rw [← ha]; exact hp j hj
  refine ⟨?_, ?_, ?_, ?_, fun a ha => (hroot a ha).1, h.sub, hi'⟩
  · simp only; rw [hmap _ hp]; exact h.pr
  · simp only; rw [hmap _ hn]; exact h.nx
  · simp only; rw [hmap _ ht]; exact h.tm
  · intro a ha
    have : a ∈ s.roots := by
      simp only [USt.roots, List.mem_append]; exact Or.inr (by rw [ha]; simp)
    simp only; rw [(hroot a this).2]; exact h.qv a ha

/-- the dropped handles take effect: nothing the state can see changes -/
theorem URel.collect {B : TA} {s : USt} {st : St} {tmp : List Item} {QS : List Nat} (h : URel B s st tmp QS) :
    URel B (s.collect .lib) st tmp QS := by
  obtain ⟨h1, h2⟩ := hCollect_spec h.hi s.roots
  exact h.heap h1 h2

/-- `biggerTypeCache.lookup(v)` -/
theorem URel.lookup {B : TA} {s : USt} {st : St} {tmp : List Item} {QS : List Nat} (h : URel B s st tmp QS)
    (pick : List Nat → Nat) (v : List Nat) :
    URel B { s with h := (hLookup pick s.h v).1 } st tmp QS ∧
    Live (hLookup pick s.h v).1 (hLookup pick s.h v).2 ∧ hval (hLookup pick s.h v).1 (hLookup pick s.h v).2 = v := by
  obtain ⟨h1, h2, h3, h4⟩ := hLookup_spec pick h.hi v
  exact ⟨h.heap h1 (fun a _ ha => h4 a ha), h2, h3⟩

theorem mem_roots {s : USt} {a : Nat} :
    a ∈ s.roots ↔ (∃ i, i ∈ s.processed ∧ i.a = a) ∨ (∃ i, i ∈ s.temporary ∧ i.a = a) ∨ s.Q = some a := by
  simp only [USt.roots, List.mem_append, List.mem_map, Option.mem_toList, or_assoc]

/-- `processed.contains / refine(Eraser(next)) / insert`, `next.insert` -/
theorem addItemC_rel {B : TA} {s : USt} {st : St} {tmp : List Item} {QS : List Nat} (h : URel B s st tmp QS) {it : UIt}
    (hit : Live s.h it.a) : URel B (addItemC s it) (addItem st (it.deref s.h)) tmp QS := by
  obtain ⟨e1, m1, c1⟩ := acContains_spec (B := B) it.q it.a s.processed s.h h.hi hit h.lp
  rw [h.pr] at e1
  unfold addItemC addItem
  simp only
  rw [e1]
  have hd : (it.deref s.h).q = it.q ∧ (it.deref s.h).S = hval s.h it.a := ⟨rfl, rfl⟩
  rw [hd.1, hd.2]
  by_cases hs : subsumed st.processed it.q (hval s.h it.a) = true
  · rw [if_pos hs, if_pos hs]
    exact h.heap m1 (fun a _ ha => ⟨(live_store c1 a).mpr ha, hval_store c1 a⟩)
  · rw [if_neg hs, if_neg hs]
    obtain ⟨e2, m2, c2⟩ := acRefine_spec (B := B) it.q it.a s.processed _ m1 ((live_store c1 _).mpr hit) (h.lp.store c1)
    rw [keepU_store c1] at e2
    have c2' := c2.trans c1
    rw [e2, filter_hasPair h.sub]
    refine ⟨?_, ?_, ?_, ?_, ?_, ?_, m2⟩
    · simp only
      rw [map_deref_store c2', List.map_append, ← refine_map_derefU, h.pr]; rfl
    · simp only
      rw [insNextC_map, map_deref_store c2', ← refine_map_derefU, h.nx]
      simp only [UIt.deref, hval_store c2']
    · simp only; rw [map_deref_store c2']; exact h.tm
    · intro a ha; simp only; rw [hval_store c2']; exact h.qv a ha
    · intro a ha
      apply (live_store c2' a).mpr
      rcases mem_roots.mp ha with ⟨i, hi, rfl⟩ | hr
      · simp only [List.mem_append, List.mem_singleton] at hi
        rcases hi with hi | rfl
        · exact h.lp i (List.mem_filter.mp hi).1
        · exact hit
      · exact h.live a (mem_roots.mpr (Or.inr hr))
    · intro i hi
      simp only at hi ⊢
      rcases mem_insNextC.mp hi with rfl | hi
      · exact hasPair_iff.mpr ⟨i, List.mem_append_right _ List.mem_cons_self, rfl, rfl⟩
      · obtain ⟨hin, hk⟩ := List.mem_filter.mp hi
        obtain ⟨j, hj, hq, ha⟩ := hasPair_iff.mp (h.sub i hin)
        exact hasPair_iff.mpr ⟨j, List.mem_append_left _ (List.mem_filter.mpr ⟨hj, by rw [keepU_pair hq ha]; exact hk⟩), hq, ha⟩

/-- `temporary.contains / refine / insert` -/
theorem addTmpC_rel {B : TA} {s : USt} {st : St} {tmp : List Item} {QS : List Nat} (h : URel B s st tmp QS) {it : UIt}
    (hit : Live s.h it.a) : URel B (addTmpC s it) st (addTmp tmp (it.deref s.h)) QS := by
  obtain ⟨e1, m1, c1⟩ := acContains_spec (B := B) it.q it.a s.temporary s.h h.hi hit h.lt
  rw [h.tm] at e1
  unfold addTmpC addTmp
  simp only
  rw [e1]
  have hd : (it.deref s.h).q = it.q ∧ (it.deref s.h).S = hval s.h it.a := ⟨rfl, rfl⟩
  rw [hd.1, hd.2]
  by_cases hs : subsumed tmp it.q (hval s.h it.a) = true
  · rw [if_pos hs, if_pos hs]
    exact h.heap m1 (fun a _ ha => ⟨(live_store c1 a).mpr ha, hval_store c1 a⟩)
  · rw [if_neg hs, if_neg hs]
    obtain ⟨e2, m2, c2⟩ := acRefine_spec (B := B) it.q it.a s.temporary _ m1 ((live_store c1 _).mpr hit) (h.lt.store c1)
    rw [keepU_store c1] at e2
    have c2' := c2.trans c1
    rw [e2]
    refine ⟨?_, ?_, ?_, ?_, ?_, h.sub, m2⟩
    · simp only; rw [map_deref_store c2']; exact h.pr
    · simp only; rw [map_deref_store c2']; exact h.nx
    · simp only
      rw [map_deref_store c2', List.map_append, ← refine_map_derefU, h.tm]; rfl
    · intro a ha; simp only; rw [hval_store c2']; exact h.qv a ha
    · intro a ha
      apply (live_store c2' a).mpr
      rcases mem_roots.mp ha with hr | ⟨i, hi, rfl⟩ | hr
      · exact h.live a (mem_roots.mpr (Or.inl hr))
      · simp only [List.mem_append, List.mem_singleton] at hi
        rcases hi with hi | rfl
        · exact h.lt i (List.mem_filter.mp hi).1
        · exact hit
      · exact h.live a (mem_roots.mpr (Or.inr (Or.inr hr)))

/-! ### `evalTransitions`, `intersectionByLookup`: the macro-state of a choice -/

/-- the sets `evalTransitions(symbol, k, S_k)` computed without the cache -/
def evalPure (B : TA) (f n : Nat) : List (List Nat) → Nat → List (List Nat)
  | [], _ => []
  | S :: Ss, k => evalT B (f, n, k) S :: evalPure B f n Ss (k + 1)

theorem evalAll_spec {B : TA} (f n : Nat) : ∀ (as : List Nat) (k : Nat) (h : Heap), HInv B h → (∀ a, a ∈ as → Live h a) →
    (evalAll B f n as k h).2 = evalPure B f n (as.map (hval h)) k ∧ HInv B (evalAll B f n as k h).1 ∧
    (evalAll B f n as k h).1.store = h.store
  | [], _, h, hi, _ => ⟨rfl, hi, rfl⟩
  | a :: as, k, h, hi, hl => by
    obtain ⟨e1, m1, c1⟩ := hEval_spec hi (f, n, k) (hl a List.mem_cons_self)
    obtain ⟨e2, m2, c2⟩ := evalAll_spec f n as (k + 1) (hEval B h (f, n, k) a).1 m1
      (fun b hb => (live_store c1 b).mpr (hl b (List.mem_cons_of_mem _ hb)))
    refine ⟨?_, m2, c2.trans c1⟩
    simp only [evalAll, List.map_cons, evalPure, e1, e2]
    have : as.map (hval (hEval B h (f, n, k) a).1) = as.map (hval h) :=
      List.map_congr_left (fun b _ => hval_store c1 b)
    rw [this]

theorem mem_evalT {B : TA} {k : EKey} {S : List Nat} {r : Nat} :
    r ∈ evalT B k S ↔ ∃ ρ, B.rules[r]? = some ρ ∧ ρ.sym = k.1 ∧ ρ.kids.length = k.2.1 ∧
      ∃ c, ρ.kids[k.2.2]? = some c ∧ c ∈ S := by
  simp only [evalT, List.mem_filter, List.mem_range]
  constructor
  · rintro ⟨hr, hp⟩
    cases hρ : B.rules[r]? with
    | none => rw [hρ] at hp; cases hp
    | some ρ =>
      rw [hρ] at hp
      simp only [Bool.and_eq_true, beq_iff_eq] at hp
      refine ⟨ρ, rfl, hp.1.1, hp.1.2, ?_⟩
      cases hc : ρ.kids[k.2.2]? with
      | none => rw [hc] at hp; cases hp.2
      | some c => rw [hc] at hp; exact ⟨c, rfl, by simpa using hp.2⟩
  · rintro ⟨ρ, hρ, h1, h2, c, hc, hcS⟩
    refine ⟨?_, ?_⟩
    · exact (List.getElem?_eq_some_iff.mp hρ).1
    · rw [hρ]
      simp only [hc, Bool.and_eq_true, beq_iff_eq]
      exact ⟨⟨h1, h2⟩, by simpa using hcS⟩

theorem mem_interAll_cons {r : Nat} : ∀ (ss : List (List Nat)) (cur : List Nat),
    r ∈ ss.foldl (fun cur s' => cur.filter (fun x => s'.contains x)) cur ↔ r ∈ cur ∧ ∀ s', s' ∈ ss → r ∈ s'
  | [], cur => by simp
  | s' :: ss, cur => by
    simp only [List.foldl_cons]
    rw [mem_interAll_cons ss]
    simp only [List.mem_filter, List.contains_iff_mem, List.mem_cons, forall_eq_or_imp]
    constructor
    · rintro ⟨⟨h1, h2⟩, h3⟩; exact ⟨h1, h2, h3⟩
    · rintro ⟨h1, h2, h3⟩; exact ⟨⟨h1, h2⟩, h3⟩

theorem mem_interAll {sets : List (List Nat)} (hne : sets ≠ []) {r : Nat} :
    r ∈ interAll sets ↔ ∀ s, s ∈ sets → r ∈ s := by
  cases sets with
  | nil => exact (hne rfl).elim
  | cons s ss =>
    simp only [interAll, List.mem_cons, forall_eq_or_imp]
    exact mem_interAll_cons ss s

theorem matchKids_length : ∀ {ks : List Nat} {Ss : List (List Nat)}, matchKids ks Ss = true → ks.length = Ss.length
  | [], [], _ => rfl
  | [], _ :: _, h => by simp [matchKids] at h
  | _ :: _, [], h => by simp [matchKids] at h
  | k :: ks, S :: Ss, h => by
    simp only [matchKids, Bool.and_eq_true] at h
    simp only [List.length_cons, matchKids_length h.2]

/-- for a transition with the right symbol and rank: it is in every set iff its children match -/
theorem all_evalPure {B : TA} {f n r : Nat} {ρ : Rule} (hρ : B.rules[r]? = some ρ) (hf : ρ.sym = f)
    (hn : ρ.kids.length = n) : ∀ (Ss : List (List Nat)) (k0 : Nat), k0 + Ss.length = n →
    ((∀ s, s ∈ evalPure B f n Ss k0 → r ∈ s) ↔ matchKids (ρ.kids.drop k0) Ss = true)
  | [], k0, hk => by
    have : ρ.kids.drop k0 = [] := List.drop_eq_nil_of_le (by simp only [List.length_nil] at hk; omega)
    simp [evalPure, this, matchKids]
  | S :: Ss, k0, hk => by
    simp only [List.length_cons] at hk
    have hlt : k0 < ρ.kids.length := by omega
    rw [List.drop_eq_getElem_cons hlt]
    simp only [evalPure, List.mem_cons, forall_eq_or_imp, matchKids, Bool.and_eq_true, List.contains_iff_mem]
    rw [all_evalPure hρ hf hn Ss (k0 + 1) (by omega)]
    constructor
    · rintro ⟨h1, h2⟩
      refine ⟨?_, h2⟩
      obtain ⟨ρ', hρ', _, _, c, hc, hcS⟩ := mem_evalT.mp h1
      rw [hρ] at hρ'
      cases hρ'
      simp only [List.getElem?_eq_getElem hlt, Option.some.injEq] at hc
      rw [hc]; exact hcS
    · rintro ⟨h1, h2⟩
      exact ⟨mem_evalT.mpr ⟨ρ, hρ, hf, hn, _, List.getElem?_eq_getElem hlt, h1⟩, h2⟩

theorem normS_congr {l l' : List Nat} (h : ∀ x, x ∈ l ↔ x ∈ l') : normS l = normS l' := by
  apply FC.sorted_eq_of_sub (normS l') (normS l) (normS_sorted l) (normS_sorted l')
  · intro x hx; exact mem_normS.mpr ((h x).mp (mem_normS.mp hx))
  · exact length_le_of_sub (normS_sorted l') (fun x hx => mem_normS.mpr ((h x).mpr (mem_normS.mp hx)))

/-- **`evalTransitions` + `intersectionByLookup` compute the macro-state `post_B f (S₁..Sₙ)`** (`n ≥ 1`) -/
theorem macroPost_pure (B : TA) (f : Nat) {Ss : List (List Nat)} (hne : Ss ≠ []) :
    normS (parentsOf B (interAll (evalPure B f Ss.length Ss 0))) = macroPost B f Ss := by
  unfold macroPost
  apply normS_congr
  intro x
  have hne' : evalPure B f Ss.length Ss 0 ≠ [] := by
    cases Ss with
    | nil => exact (hne rfl).elim
    | cons _ _ => simp [evalPure]
  simp only [parentsOf, List.mem_filterMap, mem_interAll hne', mem_post', Option.map_eq_some_iff]
  constructor
  · rintro ⟨r, hall, ρ, hρ, rfl⟩
    -- the transition is in the first set, so it has the symbol and the rank
    have h1 : r ∈ evalT B (f, Ss.length, 0) (Ss.head hne) := by
      apply hall
      cases Ss with
      | nil => exact (hne rfl).elim
      | cons S Ss => simp [evalPure]
    obtain ⟨ρ', hρ', hf, hn, _⟩ := mem_evalT.mp h1
    rw [hρ] at hρ'
    cases hρ'
    have hn' : ρ.kids.length = Ss.length := hn
    have := (all_evalPure hρ hf hn' Ss 0 (by omega)).mp hall
    rw [List.drop_zero] at this
    exact ⟨ρ, List.mem_iff_getElem?.mpr ⟨r, hρ⟩, hf, this, rfl⟩
  · rintro ⟨ρ, hm, hf, hmk, rfl⟩
    obtain ⟨r, hr⟩ := List.mem_iff_getElem?.mp hm
    refine ⟨r, ?_, ρ, hr, rfl⟩
    apply (all_evalPure hr hf (matchKids_length hmk) Ss 0 (by omega)).mpr
    rw [List.drop_zero]; exact hmk

theorem macroPostC_spec {B : TA} {h : Heap} (hi : HInv B h) (f : Nat) {as : List Nat} (hne : as ≠ [])
    (hl : ∀ a, a ∈ as → Live h a) :
    (macroPostC B h f as).2 = macroPost B f (as.map (hval h)) ∧ HInv B (macroPostC B h f as).1 ∧
    (macroPostC B h f as).1.store = h.store := by
  obtain ⟨e, m, c⟩ := evalAll_spec f as.length as 0 h hi hl
  refine ⟨?_, m, c⟩
  unfold macroPostC
  simp only [e]
  have := macroPost_pure B f (Ss := as.map (hval h)) (by simpa using hne)
  rw [List.length_map] at this
  exact this

/-! ### the choices -/

theorem flatMap_congr' {α β : Type} {f g : α → List β} : ∀ {l : List α}, (∀ a, a ∈ l → f a = g a) →
    l.flatMap f = l.flatMap g
  | [], _ => rfl
  | a :: l, h => by
    simp only [List.flatMap_cons, h a List.mem_cons_self]
    rw [flatMap_congr' (fun b hb => h b (List.mem_cons_of_mem _ hb))]

theorem choicesAllC_map (h : Heap) (P : List UIt) : ∀ ks : List Nat,
    (choicesAllC P ks).map (List.map (UIt.deref h)) = choicesAll (P.map (UIt.deref h)) ks
  | [] => rfl
  | k :: ks => by
    simp only [choicesAllC, choicesAll, List.map_flatMap, List.filter_map, List.flatMap_map, List.map_map]
    apply flatMap_congr'
    intro i _
    rw [← choicesAllC_map h P ks, List.map_map]
    rfl

theorem choicesAtC_map (h : Heap) (P : List UIt) (it : UIt) : ∀ (ks : List Nat) (j : Nat),
    (choicesAtC P it ks j).map (List.map (UIt.deref h)) = choicesAt (P.map (UIt.deref h)) (it.deref h) ks j
  | [], _ => rfl
  | _ :: ks, 0 => by
    simp only [choicesAtC, choicesAt, List.map_map]
    rw [← choicesAllC_map h P ks, List.map_map]
    rfl
  | k :: ks, j+1 => by
    simp only [choicesAtC, choicesAt, List.map_flatMap, List.filter_map, List.flatMap_map, List.map_map]
    apply flatMap_congr'
    intro i _
    rw [← choicesAtC_map h P it ks j, List.map_map]
    rfl

theorem mem_choicesAllC {P : List UIt} : ∀ {ks : List Nat} {is : List UIt}, is ∈ choicesAllC P ks →
    is.length = ks.length ∧ ∀ i, i ∈ is → i ∈ P
  | [], is, h => by
    simp only [choicesAllC, List.mem_singleton] at h
    subst h; exact ⟨rfl, fun _ hi => by cases hi⟩
  | k :: ks, is, h => by
    simp only [choicesAllC, List.mem_flatMap, List.mem_filter, List.mem_map] at h
    obtain ⟨i, ⟨hi, _⟩, is', his', rfl⟩ := h
    obtain ⟨h1, h2⟩ := mem_choicesAllC his'
    refine ⟨by simp [h1], ?_⟩
    intro x hx
    rcases List.mem_cons.mp hx with rfl | hx
    · exact hi
    · exact h2 x hx

theorem mem_choicesAtC {P : List UIt} {it : UIt} : ∀ {ks : List Nat} {j : Nat} {is : List UIt},
    is ∈ choicesAtC P it ks j → is.length = ks.length ∧ ∀ i, i ∈ is → i ∈ P ∨ i = it
  | [], _, is, h => by
    simp only [choicesAtC, List.mem_singleton] at h
    subst h; exact ⟨rfl, fun _ hi => by cases hi⟩
  | _ :: ks, 0, is, h => by
    simp only [choicesAtC, List.mem_map] at h
    obtain ⟨is', his', rfl⟩ := h
    obtain ⟨h1, h2⟩ := mem_choicesAllC his'
    refine ⟨by simp [h1], ?_⟩
    intro x hx
    rcases List.mem_cons.mp hx with rfl | hx
    · exact Or.inr rfl
    · exact Or.inl (h2 x hx)
  | k :: ks, j+1, is, h => by
    simp only [choicesAtC, List.mem_flatMap, List.mem_filter, List.mem_map] at h
    obtain ⟨i, ⟨hi, _⟩, is', his', rfl⟩ := h
    obtain ⟨h1, h2⟩ := mem_choicesAtC his'
    refine ⟨by simp [h1], ?_⟩
    intro x hx
    rcases List.mem_cons.mp hx with rfl | hx
    · exact Or.inl hi
    · exact h2 x hx

/-! ### the post-image step -/

/-- the items of a choice: pairs of `processed` or the picked pair (whose macro-state is `Q`) -/
def ChoiceOK (s : USt) (it : UIt) (is : List UIt) : Prop :=
  is ≠ [] ∧ ∀ i, i ∈ is → i ∈ s.processed ∨ i = it

/-- two results are related -/
def RResU (B : TA) (st : St) (QS : List Nat) (s0 : USt) : Res USt → Res (List Item) → Prop
  | .ok s, .ok tmp => URel B s st tmp QS ∧ s.processed = s0.processed ∧ s.next = s0.next ∧ s.Q = s0.Q
  | .error e, .error e' => e = e'
  | _, _ => False

theorem deref_choice {B : TA} {s : USt} {st : St} {tmp : List Item} {QS : List Nat} (h : URel B s st tmp QS)
    {it : UIt} (hQ : s.Q = some it.a) {is : List UIt} (hc : ChoiceOK s it is) :
    ULive s.h is := by
  intro i hi
  rcases hc.2 i hi with hp | rfl
  · exact h.lp i hp
  · exact h.live _ (mem_roots.mpr (Or.inr (Or.inr hQ)))

/-- the same pointers denote the same pairs in two related states with the same `processed` and `Q` -/
theorem deref_stable {B : TA} {s s' : USt} {st : St} {tmp tmp' : List Item} {QS : List Nat}
    (h : URel B s st tmp QS) (h' : URel B s' st tmp' QS) (hp : s'.processed = s.processed) (hq : s'.Q = s.Q)
    {it : UIt} (hQ : s.Q = some it.a) {is : List UIt} (hc : ChoiceOK s it is) :
    is.map (UIt.deref s'.h) = is.map (UIt.deref s.h) := by
  apply List.map_inj_left.mpr
  intro i hi
  rcases hc.2 i hi with hi' | rfl
  · have := h'.pr
    rw [hp, ← h.pr] at this
    exact List.map_inj_left.mp this i hi'
  · simp only [UIt.deref, h.qv _ hQ, h'.qv _ (hq ▸ hQ)]

theorem stepChoiceC_rel {A B : TA} (pick : List Nat → Nat) (ρ : Rule) {s : USt} {st : St} {tmp : List Item}
    {QS : List Nat} (h : URel B s st tmp QS) {is : List UIt} (hne : is ≠ []) (hl : ULive s.h is) :
    RResU B st QS s (stepChoiceC .lib pick A B ρ s is) (stepChoice A B ρ tmp (is.map (UIt.deref s.h))) := by
  obtain ⟨e, m, c⟩ := macroPostC_spec h.hi ρ.sym (as := is.map (·.a)) (by simpa using hne)
    (by intro a ha; obtain ⟨i, hi, rfl⟩ := List.mem_map.mp ha; exact hl i hi)
  have hS : (is.map (·.a)).map (hval s.h) = (is.map (UIt.deref s.h)).map (·.S) := by
    simp only [List.map_map]; rfl
  have hT : is.map (·.t) = (is.map (UIt.deref s.h)).map (·.t) := by
    simp only [List.map_map]; rfl
  rw [hS] at e
  unfold stepChoiceC stepChoice
  simp only
  rw [e, ← hT]
  split
  · exact rfl
  · split
    · exact rfl
    · -- `ptr = biggerTypeCache.lookup(tmp)`, `temporary.contains / refine / insert`, end of the iteration
      have h1 : URel B { s with h := (macroPostC B s.h ρ.sym (is.map (·.a))).1 } st tmp QS :=
        h.heap m (fun a _ ha => ⟨(live_store c a).mpr ha, hval_store c a⟩)
      obtain ⟨h2, hlive, hval'⟩ := h1.lookup pick (macroPost B ρ.sym ((is.map (UIt.deref s.h)).map (·.S)))
      have h3 := addTmpC_rel h2 (it := ⟨ρ.parent, _, Tree.node ρ.sym (is.map (·.t))⟩) hlive
      have hd : UIt.deref (hLookup pick (macroPostC B s.h ρ.sym (is.map (·.a))).1
          (macroPost B ρ.sym ((is.map (UIt.deref s.h)).map (·.S)))).1
          ⟨ρ.parent, (hLookup pick (macroPostC B s.h ρ.sym (is.map (·.a))).1
            (macroPost B ρ.sym ((is.map (UIt.deref s.h)).map (·.S)))).2, Tree.node ρ.sym (is.map (·.t))⟩ =
          ⟨ρ.parent, macroPost B ρ.sym ((is.map (UIt.deref s.h)).map (·.S)), Tree.node ρ.sym (is.map (·.t))⟩ := by
        simp only [UIt.deref, hval']
      simp only at h3
      rw [hd] at h3
      refine ⟨h3.collect, ?_, ?_, ?_⟩
      · simp only [USt.collect, addTmpC]; split <;> rfl
      · simp only [USt.collect, addTmpC]; split <;> rfl
      · simp only [USt.collect, addTmpC]; split <;> rfl

theorem stepChoicesC_rel {A B : TA} (pick : List Nat → Nat) (ρ : Rule) {st : St} {QS : List Nat} {it : UIt} :
    ∀ (iss : List (List UIt)) (s : USt) (tmp : List Item), URel B s st tmp QS → s.Q = some it.a →
    (∀ is, is ∈ iss → ChoiceOK s it is) →
    RResU B st QS s (stepChoicesC .lib pick A B ρ iss s) (stepChoices A B ρ (iss.map (List.map (UIt.deref s.h))) tmp)
  | [], s, tmp, h, _, _ => ⟨h, rfl, rfl, rfl⟩
  | is :: iss, s, tmp, h, hQ, hc => by
    have hcis := hc is List.mem_cons_self
    have hr := stepChoiceC_rel (A := A) pick ρ h hcis.1 (deref_choice h hQ hcis)
    unfold stepChoicesC
    simp only [List.map_cons]
    unfold stepChoices
    generalize stepChoiceC .lib pick A B ρ s is = rc at hr
    generalize stepChoice A B ρ tmp (is.map (UIt.deref s.h)) = rb at hr
    cases rc with
    | error e =>
      cases rb with
      | error e' => exact hr
      | ok _ => exact hr.elim
    | ok s' =>
      cases rb with
      | error _ => exact hr.elim
      | ok tmp' =>
        obtain ⟨h', hp, hn, hq⟩ := hr
        simp only
        have hc' : ∀ is', is' ∈ iss → ChoiceOK s' it is' := by
          intro is' hi
          have := hc is' (List.mem_cons_of_mem _ hi)
          exact ⟨this.1, fun i hi => by rw [hp]; exact this.2 i hi⟩
        have hmap : iss.map (List.map (UIt.deref s'.h)) = iss.map (List.map (UIt.deref s.h)) := by
          apply List.map_congr_left
          intro is' hi
          exact deref_stable h h' hp hq hQ (hc is' (List.mem_cons_of_mem _ hi))
        have := stepChoicesC_rel (A := A) pick ρ iss s' tmp' h' (hq ▸ hQ) hc'
        rw [hmap] at this
        generalize stepChoicesC .lib pick A B ρ iss s' = rc2 at this
        generalize stepChoices A B ρ (iss.map (List.map (UIt.deref s.h))) tmp' = rb2 at this
        cases rc2 with
        | error e => cases rb2 with
          | error e' => exact this
          | ok _ => exact this.elim
        | ok s'' => cases rb2 with
          | error _ => exact this.elim
          | ok tmp'' =>
            obtain ⟨g1, g2, g3, g4⟩ := this
            exact ⟨g1, g2.trans hp, g3.trans hn, g4.trans hq⟩

/-- the merge of `temporary` into `processed` / `next` -/
theorem mergeC_rel {B : TA} {tmp : List Item} {QS : List Nat} : ∀ (l : List UIt) (s : USt) (st : St),
    URel B s st tmp QS → (∀ i, i ∈ l → i ∈ s.temporary) →
    URel B (mergeC .lib l s) ((l.map (UIt.deref s.h)).foldl addItem st) tmp QS ∧
    (mergeC .lib l s).temporary = s.temporary ∧ (mergeC .lib l s).Q = s.Q
  | [], _, _, h, _ => ⟨h, rfl, rfl⟩
  | i :: l, s, st, h, hl => by
    simp only [mergeC, List.map_cons, List.foldl_cons]
    have hi := hl i List.mem_cons_self
    have h1 := (addItemC_rel h (it := i) (h.lt i hi)).collect
    have ht : ((addItemC s i).collect .lib).temporary = s.temporary := by
      simp only [USt.collect, addItemC]; split <;> rfl
    have hq : ((addItemC s i).collect .lib).Q = s.Q := by
      simp only [USt.collect, addItemC]; split <;> rfl
    have hmap : l.map (UIt.deref ((addItemC s i).collect .lib).h) = l.map (UIt.deref s.h) := by
      apply List.map_inj_left.mpr
      intro x hx
      have := h1.tm
      rw [ht, ← h.tm] at this
      exact List.map_inj_left.mp this x (hl x (List.mem_cons_of_mem _ hx))
    obtain ⟨g1, g2, g3⟩ := mergeC_rel l _ _ h1 (fun x hx => by rw [ht]; exact hl x (List.mem_cons_of_mem _ hx))
    rw [hmap] at g1
    exact ⟨g1, g2.trans ht, g3.trans hq⟩

/-- `temporary.clear()` -/
theorem URel.clearTmp {B : TA} {s : USt} {st : St} {tmp : List Item} {QS : List Nat} (h : URel B s st tmp QS) :
    URel B { s with temporary := [] } st [] QS := by
  refine ⟨h.pr, h.nx, rfl, h.qv, ?_, h.sub, h.hi⟩
  intro a ha
  apply h.live a
  rcases mem_roots.mp ha with hr | ⟨i, hi, _⟩ | hr
  · exact mem_roots.mpr (Or.inl hr)
  · cases hi
  · exact mem_roots.mpr (Or.inr (Or.inr hr))

theorem temporary_nil {B : TA} {s : USt} {st : St} {QS : List Nat} (h : URel B s st [] QS) : s.temporary = [] :=
  List.map_eq_nil_iff.mp h.tm

/-- two results of a task are related -/
def RResP (B : TA) (QS : List Nat) (s0 : USt) : Res USt → Res St → Prop
  | .ok s, .ok st => URel B s st [] QS ∧ s.Q = s0.Q
  | .error e, .error e' => e = e'
  | _, _ => False

theorem procTaskC_rel {A B : TA} (pick : List Nat → Nat) {it : UIt} {ρ : Rule} (j : Nat) {s : USt} {st : St}
    {QS : List Nat} (h : URel B s st [] QS) (hQ : s.Q = some it.a) (hks : ρ.kids ≠ []) :
    RResP B QS s (procTaskC .lib pick A B it ρ j s) (procTask A B ⟨it.q, QS, it.t⟩ ρ j st) := by
  have hit : it.deref s.h = ⟨it.q, QS, it.t⟩ := by simp only [UIt.deref, h.qv _ hQ]
  have hch : ∀ is, is ∈ choicesAtC s.processed it ρ.kids j → ChoiceOK s it is := by
    intro is his
    obtain ⟨h1, h2⟩ := mem_choicesAtC his
    refine ⟨?_, h2⟩
    intro e; rw [e] at h1
    exact hks (List.length_eq_zero_iff.mp h1.symm)
  have hr := stepChoicesC_rel (A := A) pick ρ _ s [] h hQ hch
  rw [choicesAtC_map, h.pr, hit] at hr
  unfold procTaskC procTask
  generalize stepChoicesC .lib pick A B ρ (choicesAtC s.processed it ρ.kids j) s = rc at hr
  generalize stepChoices A B ρ (choicesAt st.processed ⟨it.q, QS, it.t⟩ ρ.kids j) [] = rb at hr
  cases rc with
  | error e => cases rb with
    | error e' => exact hr
    | ok _ => exact hr.elim
  | ok s' => cases rb with
    | error _ => exact hr.elim
    | ok tmp' =>
      obtain ⟨h', _, _, hq⟩ := hr
      obtain ⟨g1, _, g3⟩ := mergeC_rel s'.temporary s' st h' (fun _ hi => hi)
      rw [h'.tm] at g1
      exact ⟨g1.clearTmp.collect, by simp only [USt.collect]; exact g3.trans hq⟩

theorem procTasksC_rel {A B : TA} (pick : List Nat → Nat) {it : UIt} {QS : List Nat} :
    ∀ (ts : List (Rule × Nat)) (s : USt) (st : St), URel B s st [] QS → s.Q = some it.a →
    (∀ t, t ∈ ts → t.1.kids ≠ []) →
    RResP B QS s (procTasksC .lib pick A B it ts s) (procTasks A B ⟨it.q, QS, it.t⟩ ts st)
  | [], _, _, h, _, _ => ⟨h, rfl⟩
  | (ρ, j) :: ts, s, st, h, hQ, hks => by
    have hr := procTaskC_rel (A := A) pick j h hQ (hks (ρ, j) List.mem_cons_self)
    unfold procTasksC procTasks
    generalize procTaskC .lib pick A B it ρ j s = rc at hr
    generalize procTask A B ⟨it.q, QS, it.t⟩ ρ j st = rb at hr
    cases rc with
    | error e => cases rb with
      | error e' => exact hr
      | ok _ => exact hr.elim
    | ok s' => cases rb with
      | error _ => exact hr.elim
      | ok st' =>
        obtain ⟨h', hq⟩ := hr
        simp only
        have := procTasksC_rel (A := A) pick ts s' st' h' (hq ▸ hQ) (fun t ht => hks t (List.mem_cons_of_mem _ ht))
        generalize procTasksC .lib pick A B it ts s' = rc2 at this
        generalize procTasks A B ⟨it.q, QS, it.t⟩ ts st' = rb2 at this
        cases rc2 with
        | error e => cases rb2 with
          | error e' => exact this
          | ok _ => exact this.elim
        | ok s'' => cases rb2 with
          | error _ => exact this.elim
          | ok st'' => exact ⟨this.1, this.2.trans hq⟩

theorem tasks_kids_ne {A : TA} {q : Nat} {t : Rule × Nat} (h : t ∈ tasks A q) : t.1.kids ≠ [] := by
  simp only [tasks, List.mem_flatMap, List.mem_map] at h
  obtain ⟨ρ, _, j, hj, rfl⟩ := h
  simp only [positions, List.mem_filter, List.mem_range] at hj
  intro e
  rw [e] at hj
  simp at hj

/-- two finished runs are related -/
def RFinU (B : TA) : Option (Res USt) → Option (Res (List Item)) → Prop
  | none, none => True
  | some (.error e), some (.error e') => e = e'
  | some (.ok s), some (.ok P) => ∃ st QS, URel B s st [] QS ∧ P = st.processed
  | _, _ => False

theorem viewU_of_RFinU {B : TA} {rc : Option (Res USt)} {rb : Option (Res (List Item))} (h : RFinU B rc rb) :
    viewU rc = rb := by
  cases rc with
  | none => cases rb with
    | none => rfl
    | some _ => exact h.elim
  | some r => cases r with
    | error e => cases rb with
      | none => exact h.elim
      | some r' => cases r' with
        | error e' => simp only [RFinU] at h; simp only [viewU, h]
        | ok _ => exact h.elim
    | ok s => cases rb with
      | none => exact h.elim
      | some r' => cases r' with
        | error _ => exact h.elim
        | ok P =>
          obtain ⟨st, QS, hr, rfl⟩ := h
          simp only [viewU, hr.pr]

/-- `q = next.begin()->first; Q = *next.begin()->second; next.erase(next.begin())` -/
theorem URel.pick {B : TA} {s : USt} {st : St} {QS : List Nat} (h : URel B s st [] QS) {it : UIt} {rest : List UIt}
    (hn : s.next = it :: rest) :
    URel B { s with next := rest, Q := some it.a } ⟨st.processed, rest.map (UIt.deref s.h)⟩ [] (hval s.h it.a) := by
  have hlive : Live s.h it.a := by
    obtain ⟨j, hj, _, ha⟩ := hasPair_iff.mp (h.sub it (by rw [hn]; exact List.mem_cons_self))
    rw [← ha]; exact h.lp j hj
  refine ⟨h.pr, rfl, h.tm, ?_, ?_, ?_, h.hi⟩
  · intro a ha
    simp only [Option.some.injEq] at ha
    rw [← ha]
  · intro a ha
    rcases mem_roots.mp ha with hr | hr | hr
    · exact h.live a (mem_roots.mpr (Or.inl hr))
    · exact h.live a (mem_roots.mpr (Or.inr (Or.inl hr)))
    · simp only [Option.some.injEq] at hr
      rw [← hr]; exact hlive
  · intro i hi
    exact h.sub i (by rw [hn]; exact List.mem_cons_of_mem _ hi)

theorem loopC_rel {A B : TA} (pick : List Nat → Nat) : ∀ (n : Nat) (s : USt) (st : St) (QS : List Nat),
    URel B s st [] QS → RFinU B (loopC .lib pick A B n s) (loop A B n st)
  | 0, _, _, _, _ => trivial
  | n+1, s, st, QS, h => by
    unfold loopC loop
    cases hn : s.next with
    | nil =>
      have : st.next = [] := by rw [← h.nx, hn]; rfl
      simp only [this]
      exact ⟨st, QS, h, rfl⟩
    | cons it rest =>
      have hst : st.next = it.deref s.h :: rest.map (UIt.deref s.h) := by rw [← h.nx, hn]; rfl
      simp only [hst]
      have h1 := (h.pick hn).collect
      have hd : it.deref s.h = ⟨it.q, hval s.h it.a, it.t⟩ := rfl
      rw [hd]
      have hr := procTasksC_rel (A := A) pick (it := it) (tasks A it.q) _ _ h1 rfl (fun t ht => tasks_kids_ne ht)
      generalize procTasksC .lib pick A B it (tasks A it.q) _ = rc at hr
      generalize procTasks A B ⟨it.q, hval s.h it.a, it.t⟩ (tasks A it.q) _ = rb at hr
      cases rc with
      | error e => cases rb with
        | error e' => exact hr
        | ok _ => exact hr.elim
      | ok s' => cases rb with
        | error _ => exact hr.elim
        | ok st' => exact loopC_rel pick n s' st' _ hr.1

def RResL (B : TA) : Res USt → Res St → Prop
  | .ok s, .ok st => URel B s st [] []
  | .error e, .error e' => e = e'
  | _, _ => False

theorem leafPhaseC_rel {A B : TA} (pick : List Nat → Nat) : ∀ (ρs : List Rule) (s : USt) (st : St),
    URel B s st [] [] → RResL B (leafPhaseC .lib pick A B ρs s) (leafPhase A B ρs st)
  | [], _, _, h => h
  | ρ :: ρs, s, st, h => by
    unfold leafPhaseC leafPhase
    split
    · simp only
      split
      · exact rfl
      · obtain ⟨h1, hlive, hv⟩ := h.lookup pick (macroPost B ρ.sym [])
        have h2 := (addItemC_rel h1 (it := ⟨ρ.parent, _, Tree.node ρ.sym []⟩) hlive).collect
        have hd : UIt.deref (hLookup pick s.h (macroPost B ρ.sym [])).1
            ⟨ρ.parent, (hLookup pick s.h (macroPost B ρ.sym [])).2, Tree.node ρ.sym []⟩ =
            ⟨ρ.parent, macroPost B ρ.sym [], Tree.node ρ.sym []⟩ := by
          simp only [UIt.deref, hv]
        simp only at h2
        rw [hd] at h2
        exact leafPhaseC_rel pick ρs _ _ h2
    · exact leafPhaseC_rel pick ρs s st h

theorem runC_rel (pick : List Nat → Nat) (A B : TA) (fuel : Nat) : RFinU B (runC .lib pick A B fuel) (InclUp.run A B fuel) := by
  unfold runC InclUp.run
  cases sizeExit A B with
  | some ρ => exact rfl
  | none =>
    simp only
    have h0 : URel B ⟨[], [], [], none, {}⟩ ⟨[], []⟩ [] [] :=
      ⟨rfl, rfl, rfl, (fun _ h => by cases h), (fun _ h => by cases h), (fun _ h => by cases h), HInv.empty B⟩
    have hr := leafPhaseC_rel (A := A) pick A.rules _ _ h0
    generalize leafPhaseC .lib pick A B A.rules ⟨[], [], [], none, {}⟩ = rc at hr
    generalize leafPhase A B A.rules ⟨[], []⟩ = rb at hr
    cases rc with
    | error e => cases rb with
      | error e' => exact hr
      | ok _ => exact hr.elim
    | ok s' => cases rb with
      | error _ => exact hr.elim
      | ok st' => exact loopC_rel pick fuel s' st' [] hr

/-- **the cached upward exploration, read through its pointers, is the cache-free exploration – for every allocator** -/
theorem runC_eq (pick : List Nat → Nat) (A B : TA) (fuel : Nat) : viewU (runC .lib pick A B fuel) = InclUp.run A B fuel :=
  viewU_of_RFinU (runC_rel pick A B fuel)

theorem inclUp_eq_finish (A B : TA) (fuel : Nat) : inclUp A B fuel = finishUp A B (InclUp.run A B fuel) := by
  unfold inclUp
  cases InclUp.run A B fuel with
  | none => rfl
  | some r => cases r with
    | ok P => rfl
    | error e => obtain ⟨q, t⟩ := e; rfl

/-- **C01, upward algorithm: `biggerTypeCache`, `lteCache`, `evalTransitionsCache` are transparent under the library's deleter.**
For all operands, every fuel and EVERY allocator (any recycling of the addresses of dead macro-states) the algorithm with its
caches returns exactly what the cache-free model `inclUp` returns: the same verdict with the same antichain / witness, `none`
at the same fuel. -/
theorem inclUp_cached_eq (pick : List Nat → Nat) (A B : TA) (fuel : Nat) :
    inclUpC .lib pick A B fuel = inclUp A B fuel := by
  rw [inclUp_eq_finish, inclUpC, runC_eq]

theorem checkInclUp_cached_eq (pick : List Nat → Nat) (A B : TA) (fuel : Nat) :
    checkInclUpC .lib pick A B fuel = checkInclUp A B fuel :=
  inclUp_cached_eq pick _ _ fuel

/-! ### the invariant at the end of a run; verdicts of the certifying model -/

theorem heapOKB_of_HInv {B : TA} {h : Heap} (hi : HInv B h) : heapOKB B h = true := by
  simp only [heapOKB, Bool.and_eq_true, List.all_eq_true, List.contains_iff_mem, beq_iff_eq]
  constructor
  · intro e he
    have := hi.sl e.1.1 e.1.2 e.2 (aget_of_mem_nodup hi.li.k0 he)
    exact ⟨⟨this.1, this.2.1⟩, this.2.2⟩
  · intro e he
    have := hi.se e.1.1 e.1.2 e.2 (aget_of_mem_nodup hi.ei.k0 he)
    exact ⟨this.1, this.2⟩

/-- **the invariant of the two memo tables at the end of every run with the library's deleter, for every allocator**: every
entry of `lteCache` / `evalTransitionsCache` is about live macro-states and holds the value of the memoised function on them -/
theorem runC_heap_sound (pick : List Nat → Nat) (A B : TA) (fuel : Nat) {h : Heap}
    (hf : finalHeap (runC .lib pick A B fuel) = some h) : HInv B h ∧ heapOKB B h = true := by
  have hr := runC_rel pick A B fuel
  generalize runC .lib pick A B fuel = rc at hr hf
  cases rc with
  | none => cases hf
  | some r => cases r with
    | error _ => cases hf
    | ok s =>
      simp only [finalHeap, Option.some.injEq] at hf
      subst hf
      cases hb : InclUp.run A B fuel with
      | none => rw [hb] at hr; exact hr.elim
      | some r' => cases r' with
        | error _ => rw [hb] at hr; exact hr.elim
        | ok P =>
          rw [hb] at hr
          obtain ⟨st, QS, hrel, _⟩ := hr
          exact ⟨hrel.hi, heapOKB_of_HInv hrel.hi⟩

theorem finishUp_iff {A B : TA} {r : Option (Res (List Item))} {b : Bool} {c : Cert}
    (h : finishUp A B r = some (b, c)) : b = true ↔ Incl A B := by
  unfold finishUp at h
  split at h
  · cases h
  · simp only at h
    split at h
    · next hc =>
      simp only [Option.some.injEq, Prod.mk.injEq] at h
      obtain ⟨rfl, _⟩ := h
      exact ⟨fun _ => upCertB_incl hc, fun _ => rfl⟩
    · cases h
  · next q t =>
    simp only at h
    split at h
    · next hc =>
      simp only [Option.some.injEq, Prod.mk.injEq] at h
      obtain ⟨rfl, _⟩ := h
      simp only [Bool.and_eq_true, Bool.not_eq_true'] at hc
      constructor
      · intro h; cases h
      · intro hincl
        have := hincl _ hc.1
        rw [hc.2] at this; cases this
    · cases h

/-- the certifying cached model never returns a wrong verdict, whatever the wiring and the allocator -/
theorem inclUpC_iff {w : Wiring} {pick : List Nat → Nat} {A B : TA} {fuel : Nat} {b : Bool} {c : Cert}
    (h : inclUpC w pick A B fuel = some (b, c)) : b = true ↔ Incl A B :=
  finishUp_iff h

/-! ### the wiring matters: a stale `lteCache` entry changes a verdict -/
namespace FCUEx

/-- `L(A) ⊄ L(B)` -/
def exWA : TA := ⟨[⟨2, [1, 0], 1⟩, ⟨0, [], 0⟩, ⟨2, [0, 1], 0⟩, ⟨3, [0], 1⟩, ⟨1, [], 0⟩], [1, 0]⟩
def exWB : TA := ⟨[⟨2, [11, 11], 10⟩, ⟨0, [], 11⟩, ⟨1, [], 11⟩, ⟨3, [11], 11⟩, ⟨1, [], 10⟩], [11, 10]⟩

/-- the tree `f(g(a), f(a, g(a)))` is accepted by `A` and not by `B` -/
theorem exW_not_incl : ¬ Incl exWA exWB := fun h => by
  have := h (.node 2 [.node 3 [.node 0 []], .node 2 [.node 0 [], .node 3 [.node 0 []]]]) (by decide)
  revert this; decide

/-- **the wiring of the deleter matters at the level of the algorithm.**  The allocator recycles the address of a dead
macro-state at once (`pickLeast`).  With the default deleter (`Wiring.none`) and with the one-word slip (`Wiring.firstTwice`:
`invalidateFirst` twice, so the entries with the dying address in SECOND position survive) the exploration of `exWA ⊆ exWB`
ends with `return true`; with the library's deleter it answers `false`, which is right. -/
theorem wiring_changes_verdict :
    rawVerdictU (runC .none pickLeast exWA exWB 20) = some true ∧
    rawVerdictU (runC .firstTwice pickLeast exWA exWB 20) = some true ∧
    rawVerdictU (runC .lib pickLeast exWA exWB 20) = some false ∧ ¬ Incl exWA exWB :=
  ⟨by decide +kernel, by decide +kernel, by decide +kernel, exW_not_incl⟩

/-- … the certificate check of the model does not let the wrong `true` through -/
theorem wiring_certificate_rejects :
    inclUpC .none pickLeast exWA exWB 20 = none ∧ inclUpC .firstTwice pickLeast exWA exWB 20 = none := by
  refine ⟨by decide +kernel, by decide +kernel⟩

/-- `L(A) ⊆ L(B)`; the verdict survives, the invariant does not -/
def exSA : TA := ⟨[⟨2, [1, 1], 1⟩, ⟨1, [], 1⟩], [1]⟩
def exSB : TA := ⟨[⟨1, [], 10⟩, ⟨2, [11, 11], 11⟩, ⟨1, [], 11⟩, ⟨2, [10, 10], 11⟩, ⟨0, [], 10⟩], [11]⟩

/-- **a stale entry**: at the end of the run with the default deleter (and with the slip) a memo table holds an entry that
is not the value of the memoised function on the objects now at its addresses (or whose object is dead); with the library's
deleter the tables pass the test (`runC_heap_sound`) -/
theorem wiring_breaks_invariant :
    (finalHeap (runC .none pickLeast exSA exSB 20)).map (heapOKB exSB) = some false ∧
    (finalHeap (runC .firstTwice pickLeast exSA exSB 20)).map (heapOKB exSB) = some false ∧
    (finalHeap (runC .lib pickLeast exSA exSB 20)).map (heapOKB exSB) = some true := by
  refine ⟨by decide +kernel, by decide +kernel, by decide +kernel⟩

/-! non-vacuity -/
example : inclUpC .lib pickLeast exWA exWB 20 = inclUp exWA exWB 20 := inclUp_cached_eq _ _ _ _
example : (inclUpC .lib pickLeast exWA exWB 20).map (·.1) = some false := by decide +kernel
example : (inclUpC .lib pickLeast exSA exSB 20).map (·.1) = some true := by decide +kernel
/-- objects do die and memo entries are made in that run -/
example : (finalHeap (runC .lib pickLeast exSA exSB 20)).map
    (fun h => (h.store.length, h.lte.store.length, h.ev.store.length)) = some (1, 0, 2) := by decide +kernel

end FCUEx

end FCU
end Vata
