import Vata.RcStoreW
import Vata.Proofs.RcStore
/-!
# The `w`-bit store simulates the unbounded store modulo `2^w` (properties C18 / C20)

`wr w U` = the unbounded store `U` with every counter reduced modulo `2^w`.  Every operation that only allocates and
increments commutes with `wr` unconditionally; the operations that decrement and test a counter commute as long as the
tested counter of the unbounded store is below `2^w` and no `assert(refcnt_ > 0)` fails.
-/
namespace Vata.RcSW
open Vata.R (Data)
open Vata.RcS

/-- `U` with every counter reduced modulo `2^w` -/
def wr (w : Nat) (U : Store) : Store := { U with rc := fun n => U.rc n % 2^w }

def wrP (w : Nat) (r : Store × Nat) : Store × Nat := (wr w r.1, r.2)

theorem two_pow_pos' (w : Nat) : 0 < 2^w := Nat.pos_of_ne_zero (by simp)

theorem incRef_wr (w : Nat) (U : Store) (n : Nat) : incRef w (wr w U) n = wr w (RcS.incRef U n) := by
  simp only [incRef, wr, RcS.incRef, Store.mk.injEq, true_and, and_true]
  funext x
  simp only [incrRc, RcS.incrRc]
  split
  · simp [Nat.add_mod]
  · rfl

theorem allocLeaf_wr (w : Nat) (U : Store) (v : Nat) : allocLeaf (wr w U) v = wr w (allocLeaf U v) := by
  simp only [allocLeaf, wr, Store.mk.injEq, true_and, and_true]
  funext x
  simp only [setF]
  split <;> simp

theorem spawnLeaf_wr (w : Nat) (U : Store) (v : Nat) : spawnLeaf (wr w U) v = wrP w (spawnLeaf U v) := by
  simp only [spawnLeaf, wrP]
  have : (wr w U).leafT = U.leafT := rfl
  rw [this]
  split
  · rfl
  · simp only [allocLeaf_wr]; rfl

theorem allocInt_wr (w : Nat) (U : Store) (lo hi var : Nat) :
    allocInt w (wr w U) lo hi var = wr w (RcS.allocInt U lo hi var) := by
  simp only [allocInt, RcS.allocInt]
  rw [← incRef_wr, ← incRef_wr]
  congr 2
  simp only [wr, Store.mk.injEq, true_and, and_true]
  funext x
  simp only [setF]
  split <;> simp

theorem spawnInternal_wr (w : Nat) (U : Store) (lo hi var : Nat) :
    spawnInternal w (wr w U) lo hi var = wrP w (RcS.spawnInternal U lo hi var) := by
  have : (wr w U).intT = U.intT := rfl
  cases hf : find (lo, hi, var) U.intT with
  | some n => simp only [spawnInternal, RcS.spawnInternal, wrP, this, hf]
  | none => simp only [spawnInternal, RcS.spawnInternal, wrP, this, hf, allocInt_wr]; rfl

theorem buildCube_wr (w : Nat) (sink : Nat) : ∀ (as : List (Option Bool)) (U : Store) (proc i : Nat),
    buildCube w sink (wr w U) proc i as = wrP w (RcS.buildCube sink U proc i as)
  | [], U, proc, i => rfl
  | none :: as, U, proc, i => by
    simp only [buildCube, RcS.buildCube]; exact buildCube_wr w sink as U proc (i+1)
  | some true :: as, U, proc, i => by
    simp only [buildCube, RcS.buildCube, spawnInternal_wr, wrP]
    exact buildCube_wr w sink as _ _ (i+1)
  | some false :: as, U, proc, i => by
    simp only [buildCube, RcS.buildCube, spawnInternal_wr, wrP]
    exact buildCube_wr w sink as _ _ (i+1)

theorem recDescend_wr (w : Nat) (f : Nat → Nat → Nat) : ∀ (fuel : Nat) (U : Store) (n1 n2 : Nat),
    recDescend w f fuel (wr w U) n1 n2 = wrP w (RcS.recDescend f fuel U n1 n2)
  | 0, U, n1, n2 => rfl
  | fuel+1, U, n1, n2 => by
    have hd : (wr w U).dat = U.dat := rfl
    have ih := recDescend_wr w f fuel
    simp only [recDescend, RcS.recDescend, hd]
    split
    · exact spawnLeaf_wr w U _
    · simp only [ih, wrP]
      split
      · rfl
      · exact spawnInternal_wr w _ _ _ _

theorem addHandle_wr (w : Nat) (U : Store) (h r : Nat) : addHandle w (wr w U) h r = wr w (RcS.addHandle U h r) := by
  simp only [addHandle, RcS.addHandle, incRef_wr]; rfl

theorem copy_wr (w : Nat) (U : Store) (src dst : Nat) : copy w (wr w U) src dst = wr w (RcS.copy U src dst) := by
  have hh : (wr w U).hs = U.hs := rfl
  simp only [copy, RcS.copy, hh]
  cases find src U.hs <;> cases find dst U.hs <;> simp only [addHandle_wr]

theorem apply2_wr (w : Nat) (f : Nat → Nat → Nat) (U : Store) (a b dst : Nat) :
    apply2 w f (wr w U) a b dst = wr w (RcS.apply2 f U a b dst) := by
  have hh : (wr w U).hs = U.hs := rfl
  simp only [apply2, RcS.apply2, hh]
  cases find a U.hs <;> cases find b U.hs <;> cases find dst U.hs <;> simp only [recDescend_wr, wrP, addHandle_wr]

theorem disposeLeaf_wr (w : Nat) (U : Store) (n v : Nat) : disposeLeaf (wr w U) n v = wr w (disposeLeaf U n v) := rfl
theorem unlinkInt_wr (w : Nat) (U : Store) (n : Nat) (k : IKey) : unlinkInt (wr w U) n k = wr w (unlinkInt U n k) := rfl

/-! ## decrement, release -/

theorem decRef_wr (w : Nat) (U : Store) (n : Nat) (h0 : U.rc n ≠ 0) (hb : U.rc n < 2^w) :
    decRef w (wr w U) n = wr w (RcS.decRef U n) := by
  have hm : U.rc n % 2^w = U.rc n := Nat.mod_eq_of_lt hb
  simp only [decRef, wr, RcS.decRef, Store.mk.injEq, true_and, hm]
  refine ⟨?_, rfl⟩
  funext x
  simp only [decrRc, Vata.R.decrRc]
  split
  · rw [hm]
    have : U.rc n + 2^w - 1 = (U.rc n - 1) + 2^w := by omega
    rw [this, Nat.add_mod_right]
  · rfl

theorem release_rc_le : ∀ (fuel : Nat) (s : Store) (n x : Nat), (RcS.release fuel s n).rc x ≤ s.rc x
  | 0, s, n, x => Nat.le_refl _
  | fuel+1, s, n, x => by
    have h0 : (RcS.decRef s n).rc x ≤ s.rc x := by
      simp only [RcS.decRef, Vata.R.decrRc]; split
      · rename_i e; subst e; omega
      · omega
    simp only [RcS.release]
    split
    · split
      · exact h0
      · exact Nat.le_trans (release_rc_le fuel _ _ x) (Nat.le_trans (release_rc_le fuel _ _ x) h0)
    · exact h0

theorem release_ids_sub : ∀ (fuel : Nat) (s : Store) (n x : Nat), x ∈ (RcS.release fuel s n).ids → x ∈ s.ids
  | 0, s, n, x => fun h => h
  | fuel+1, s, n, x => by
    simp only [RcS.release]
    split
    · split
      · exact fun h => List.mem_of_mem_erase h
      · exact fun h => List.mem_of_mem_erase (release_ids_sub fuel _ _ x (release_ids_sub fuel _ _ x h))
    · exact fun h => h

theorem decRef_err {s : Store} {n : Nat} (h : (RcS.decRef s n).err = false) :
    s.err = false ∧ s.rc n ≠ 0 ∧ n ∈ s.ids := by
  simp [RcS.decRef] at h; exact ⟨h.1.1, h.1.2, h.2⟩
theorem disposeLeaf_err {s : Store} {n v : Nat} (h : (disposeLeaf s n v).err = false) : s.err = false := by
  simp [disposeLeaf] at h; exact h.1
theorem unlinkInt_err {s : Store} {n : Nat} {k : IKey} (h : (unlinkInt s n k).err = false) : s.err = false := by
  simp [unlinkInt] at h; exact h.1

theorem release_err_mono : ∀ (fuel : Nat) (s : Store) (n : Nat), (RcS.release fuel s n).err = false → s.err = false
  | 0, s, n => fun h => by simp [RcS.release] at h
  | fuel+1, s, n => by
    simp only [RcS.release]
    split
    · split
      · intro h; exact (decRef_err (disposeLeaf_err h)).1
      · intro h
        exact (decRef_err (unlinkInt_err (release_err_mono fuel _ _ (release_err_mono fuel _ _ h)))).1
    · exact fun h => (decRef_err h).1

/-- all allocated nodes have fewer than `2^w` referrers -/
def Bd (w : Nat) (s : Store) : Prop := ∀ n, n ∈ s.ids → s.rc n < 2^w

theorem release_wr (w : Nat) : ∀ (fuel : Nat) (U : Store) (n : Nat), Bd w U → (RcS.release fuel U n).err = false →
    release w fuel (wr w U) n = wr w (RcS.release fuel U n)
  | 0, U, n, _, _ => rfl
  | fuel+1, U, n, hb, he => by
    have he0 : (RcS.decRef U n).err = false := by
      revert he
      simp only [RcS.release]
      split
      · split
        · exact fun h => disposeLeaf_err h
        · exact fun h => unlinkInt_err (release_err_mono fuel _ _ (release_err_mono fuel _ _ h))
      · exact fun h => h
    obtain ⟨-, hnz, hnin⟩ := decRef_err he0
    have hlt := hb n hnin
    have hdec := decRef_wr w U n hnz hlt
    have hd : (wr w U).dat = U.dat := rfl
    have htest : ((wr w (RcS.decRef U n)).rc n = 0) ↔ ((RcS.decRef U n).rc n = 0) := by
      have : (RcS.decRef U n).rc n < 2^w := by
        simp only [RcS.decRef, Vata.R.decrRc, if_true]; omega
      simp only [wr, Nat.mod_eq_of_lt this]
    have hb0 : Bd w (RcS.decRef U n) := by
      intro x hx
      have := hb x hx
      simp only [RcS.decRef, Vata.R.decrRc]; split
      · rename_i e; subst e; omega
      · omega
    simp only [release, RcS.release, hdec, hd] at he ⊢
    by_cases ht : (RcS.decRef U n).rc n = 0
    · rw [if_pos (htest.mpr ht)]
      rw [if_pos ht] at he ⊢
      cases hdat : U.dat n with
      | leaf v => rfl
      | int lo hi var =>
        simp only [hdat] at he ⊢
        rw [unlinkInt_wr]
        have hb1 : Bd w (unlinkInt (RcS.decRef U n) n (lo, hi, var)) :=
          fun x hx => hb0 x (List.mem_of_mem_erase hx)
        have he1 := release_err_mono fuel _ _ he
        rw [release_wr w fuel _ lo hb1 he1]
        have hb2 : Bd w (RcS.release fuel (unlinkInt (RcS.decRef U n) n (lo, hi, var)) lo) :=
          fun x hx => Nat.lt_of_le_of_lt (release_rc_le fuel _ _ x) (hb1 x (release_ids_sub fuel _ _ x hx))
        exact release_wr w fuel _ hi hb2 he
    · rw [if_neg (fun h => ht (htest.mp h))]
      rw [if_neg ht]

theorem destroy_wr (w : Nat) (U : Store) (h : Nat) (hb : Bd w U) (he : (RcS.destroy U h).err = false) :
    destroy w (wr w U) h = wr w (RcS.destroy U h) := by
  have hh : (wr w U).hs = U.hs := rfl
  have hi : (wr w U).ids = U.ids := rfl
  simp only [destroy, RcS.destroy, hh, hi] at he ⊢
  cases hf : find h U.hs with
  | none => rfl
  | some r =>
    simp only [hf] at he ⊢
    exact release_wr w _ { U with hs := U.hs.erase (h, r) } r hb he

theorem copy_err (U : Store) (src dst : Nat) : (RcS.copy U src dst).err = U.err := by
  simp only [RcS.copy]; split <;> rfl

theorem assign_wr (w : Nat) (U : Store) (src dst : Nat) (hb : Bd w U) (he : (RcS.assign U src dst).err = false) :
    assign w (wr w U) src dst = wr w (RcS.assign U src dst) := by
  have hh : (wr w U).hs = U.hs := rfl
  simp only [assign, RcS.assign, hh] at he ⊢
  by_cases e : src = dst
  · simp only [e, if_true]
  · simp only [e, if_false] at he ⊢
    cases hs : find src U.hs with
    | none => rfl
    | some a =>
      cases hd : find dst U.hs with
      | none => rfl
      | some b =>
        simp only [hs, hd, copy_err] at he ⊢
        rw [destroy_wr w U dst hb he, copy_wr]

theorem addHandle_rc_le (U : Store) (h r x : Nat) : U.rc x ≤ (RcS.addHandle U h r).rc x := by
  simp only [RcS.addHandle, RcS.incRef, RcS.incrRc]; split
  · rename_i e; subst e; omega
  · exact Nat.le_refl _

/-- the tail of `constructMTBDD`: `if (procNode == node) { if (GetRefCnt(sink) == 0) disposeOfLeafNode(sink); }`,
    `IncrementRefCnt(procNode)` -/
theorem construct_tail_wr (w : Nat) (S : Store) (a b x d h : Nat) (hx : x ∈ S.ids)
    (hb : Bd w (RcS.addHandle (if a = b then (if S.rc x = 0 then disposeLeaf S x d else S) else S) h a)) :
    addHandle w (if a = b then (if (wr w S).rc x = 0 then disposeLeaf (wr w S) x d else wr w S) else wr w S) h a =
      wr w (RcS.addHandle (if a = b then (if S.rc x = 0 then disposeLeaf S x d else S) else S) h a) := by
  by_cases hab : a = b
  · simp only [hab, if_true] at hb ⊢
    by_cases hz : S.rc x = 0
    · have : (wr w S).rc x = 0 := by simp [wr, hz]
      simp only [hz, this, if_true, disposeLeaf_wr, addHandle_wr]
    · simp only [hz, if_false] at hb ⊢
      have h1 := hb x hx
      have h2 := addHandle_rc_le S h b x
      have : (wr w S).rc x ≠ 0 := by
        have : S.rc x < 2^w := Nat.lt_of_le_of_lt h2 h1
        simp only [wr, Nat.mod_eq_of_lt this]; exact hz
      simp only [this, if_false, addHandle_wr]
  · simp only [hab, if_false, addHandle_wr]

theorem construct_wr (w : Nat) (U : Store) (h : Nat) (asgn : List (Option Bool)) (v d : Nat) (hi : Inv U)
    (hb : Bd w (RcS.construct U h asgn v d)) :
    construct w (wr w U) h asgn v d = wr w (RcS.construct U h asgn v d) := by
  have hh : (wr w U).hs = U.hs := rfl
  simp only [construct, RcS.construct, hh] at hb ⊢
  cases hf : find h U.hs with
  | some r => rfl
  | none =>
    simp only [hf] at hb ⊢
    simp only [spawnLeaf_wr, wrP]
    by_cases hvd : v = d
    · simp only [hvd, if_true, addHandle_wr]
    · simp only [hvd, if_false] at hb ⊢
      simp only [wrP, buildCube_wr]
      obtain ⟨w1, e1, m1, -, -⟩ := spawnLeaf_inv (v := v) hi.1
      obtain ⟨w2, e2, m2, -, -⟩ := spawnLeaf_inv (v := d) w1
      obtain ⟨-, e3, -, -⟩ := buildCube_inv (spawnLeaf (spawnLeaf U v).1 d).2 asgn (spawnLeaf (spawnLeaf U v).1 d).1
        (spawnLeaf U v).2 0 w2 m2 (e2.ids _ m1)
      exact construct_tail_wr w _ _ _ _ _ _ (e3.ids _ m2) hb

theorem Bd_of_bounded {w : Nat} {s : Store} (h : bounded w s = true) : Bd w s := by
  intro n hn
  simp only [bounded, List.all_eq_true, decide_eq_true_eq] at h
  exact h n hn

/-- one operation: if the allocated nodes of the unbounded store have fewer than `2^w` referrers before and after the
    operation, the `w`-bit store does the same as the unbounded one (modulo `2^w`) -/
theorem stepF_wr (w : Nat) (f : Nat → Nat → Nat) (U : Store) (op : Op) (hi : Inv U) (hb : Bd w U)
    (hb' : Bd w (RcS.stepF f U op)) : stepF w f (wr w U) op = wr w (RcS.stepF f U op) := by
  have he : (RcS.stepF f U op).err = false := (stepF_inv f op hi).1.1.noerr
  cases op with
  | construct h asgn v d => exact construct_wr w U h asgn v d hi hb'
  | copy src dst => exact copy_wr w U src dst
  | assign src dst => exact assign_wr w U src dst hb he
  | apply a b dst => exact apply2_wr w f U a b dst
  | destroy h => exact destroy_wr w U h hb he

theorem foldl_wr (w : Nat) (f : Nat → Nat → Nat) : ∀ (ops : List Op) (U : Store), Inv U →
    histBoundedFrom w f U ops = true → ops.foldl (stepF w f) (wr w U) = wr w (ops.foldl (RcS.stepF f) U)
  | [], _, _, _ => rfl
  | op :: ops, U, hi, hb => by
    simp only [histBoundedFrom, Bool.and_eq_true] at hb
    have hb' : bounded w (RcS.stepF f U op) = true := by
      cases ops with
      | nil => exact hb.2
      | cons op' ops' => simp only [histBoundedFrom, Bool.and_eq_true] at hb; exact hb.2.1
    simp only [List.foldl_cons]
    rw [stepF_wr w f U op hi (Bd_of_bounded hb.1) (Bd_of_bounded hb')]
    exact foldl_wr w f ops _ (stepF_inv f op hi).1 hb.2

theorem wr_empty (w : Nat) : wr w empty = empty := by
  simp only [wr, empty, Store.mk.injEq, true_and, and_true]
  funext x; simp

theorem runF_wr (w : Nat) (f : Nat → Nat → Nat) (ops : List Op) (hb : histBounded w f ops = true) :
    runF w f ops = wr w (RcS.runF f ops) := by
  have := foldl_wr w f ops empty inv_empty hb
  rw [wr_empty] at this
  exact this

end Vata.RcSW
