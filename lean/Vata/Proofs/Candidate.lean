import Vata.Candidate
import Vata.Proofs.TrimModel
/-!
# Property C15 – the witness automaton: `candidate` (model of `GetCandidateTree`) is a sub-automaton of `A`
that is empty exactly if `A` is

Key invariant (`Cand.Inv`): every reached state has a tree built from the recorded rules only; every reached state is
either processed or still queued; the info record of a rule holds exactly its children that are not processed yet.
When the work-list runs empty without `goto found_`, the reached set is closed under the rules, so it contains every
productive state.  The fuel `|rules| + 1` suffices since every round removes a state from the queue and every newly
queued state is the parent of a rule that was not reached before (measure `Cand.M`).
-/
namespace Vata
namespace Cand

/-! ### small facts -/

theorem productive_mono {R R' : List Rule} (h : ∀ r, r ∈ R → r ∈ R') {x : Nat} :
    Productive ⟨R, []⟩ x → Productive ⟨R', []⟩ x := by
  rintro ⟨t, ht⟩
  exact ⟨t, reach_mono ⟨R, []⟩ ⟨R', []⟩ h t x ht⟩

/-- the measure: queued states + rules whose parent has not been reached -/
def M (A : TA) (st : CState) : Nat :=
  st.queue.length + A.rules.countP (fun r => !st.reached.contains r.parent)

theorem countP_new {A : TA} {S : List Nat} {r : Rule} (hr : r ∈ A.rules) (hn : r.parent ∉ S) :
    A.rules.countP (fun ρ => !(S ++ [r.parent]).contains ρ.parent) + 1 ≤
      A.rules.countP (fun ρ => !S.contains ρ.parent) := by
  apply Nat.succ_le_of_lt
  apply countP_lt_of_new
  · intro ρ _ h
    simp only [Bool.not_eq_true', ← Bool.not_eq_true, List.contains_iff_mem, List.mem_append] at h ⊢
    exact fun h' => h (Or.inl h')
  · refine ⟨r, hr, ?_, ?_⟩
    · simp only [Bool.not_eq_true', ← Bool.not_eq_true, List.contains_iff_mem]
      exact hn
    · simp

/-! ### the invariants -/

structure Inv (A : TA) (proc : List Nat) (st : CState) : Prop where
  rec_sub : ∀ r, r ∈ st.recorded → r ∈ A.rules
  prod : ∀ x, x ∈ st.reached → Productive ⟨st.recorded, []⟩ x
  reached_iff : ∀ x, x ∈ st.reached ↔ x ∈ proc ∨ x ∈ st.queue
  leaf : ∀ r, r ∈ A.rules → r.kids = [] → r.parent ∈ st.reached

/-- the info record `i` is up to date when the states `proc` have been processed -/
def InfoOk (A : TA) (proc : List Nat) (st : CState) (i : CInfo) : Prop :=
  i.1 ∈ A.rules ∧ (∀ k, k ∈ i.2 ↔ k ∈ i.1.kids ∧ k ∉ proc) ∧ (i.2 = [] → i.1.parent ∈ st.reached)

/-- every rule with children has an info record -/
def Cover (A : TA) (infos : List CInfo) : Prop := ∀ r, r ∈ A.rules → r.kids ≠ [] → r ∈ infos.map Prod.fst

theorem InfoOk.mono {A : TA} {proc : List Nat} {st st' : CState} {i : CInfo} (h : InfoOk A proc st i)
    (hs : ∀ x, x ∈ st.reached → x ∈ st'.reached) : InfoOk A proc st' i :=
  ⟨h.1, h.2.1, fun he => hs _ (h.2.2 he)⟩

/-- adding a new state `r.parent` justified by the rule `r` all of whose children are reached -/
theorem Inv.add {A : TA} {proc : List Nat} {st : CState} (hI : Inv A proc st) {r : Rule} (hr : r ∈ A.rules)
    (hk : ∀ k, k ∈ r.kids → k ∈ st.reached) (n : Nat) :
    Inv A proc ⟨st.reached ++ [r.parent], st.recorded ++ [r], st.queue ++ [r.parent], n⟩ := by
  have hsub : ∀ ρ, ρ ∈ st.recorded → ρ ∈ st.recorded ++ [r] := fun ρ h => List.mem_append_left _ h
  constructor
  · intro ρ hρ
    rcases List.mem_append.mp hρ with h | h
    · exact hI.rec_sub ρ h
    · rw [List.mem_singleton.mp h]; exact hr
  · intro x hx
    rcases List.mem_append.mp hx with h | h
    · exact productive_mono hsub (hI.prod x h)
    · rw [List.mem_singleton.mp h]
      exact productive_of_rule (A := ⟨st.recorded ++ [r], []⟩) (List.mem_append_right _ List.mem_cons_self)
        (fun k hk' => productive_mono hsub (hI.prod k (hk k hk')))
  · intro x
    simp only [List.mem_append, List.mem_singleton, hI.reached_iff x]
    constructor
    · rintro ((h | h) | h)
      · exact Or.inl h
      · exact Or.inr (Or.inl h)
      · exact Or.inr (Or.inr h)
    · rintro (h | h | h)
      · exact Or.inl (Or.inl h)
      · exact Or.inl (Or.inr h)
      · exact Or.inr h
  · intro ρ hρ hl
    exact List.mem_append_left _ (hI.leaf ρ hρ hl)

theorem M_add {A : TA} {st : CState} {r : Rule} (hr : r ∈ A.rules) (hn : r.parent ∉ st.reached) (rec : List Rule) (n : Nat) :
    M A ⟨st.reached ++ [r.parent], rec, st.queue ++ [r.parent], n⟩ ≤ M A st := by
  have := countP_new hr hn
  simp only [M, List.length_append, List.length_singleton]
  omega

/-! ### phase 2 -/

theorem stepInfo_spec {A : TA} {proc : List Nat} {q : Nat} {i : CInfo} {st : CState}
    (hI : Inv A (q :: proc) st) (hi : InfoOk A proc st i) :
    Inv A (q :: proc) (candStepInfo A.final q i st).1 ∧
    InfoOk A (q :: proc) (candStepInfo A.final q i st).1 (candStepInfo A.final q i st).2.1 ∧
    (candStepInfo A.final q i st).2.1.1 = i.1 ∧
    (∀ x, x ∈ st.reached → x ∈ (candStepInfo A.final q i st).1.reached) ∧
    M A (candStepInfo A.final q i st).1 ≤ M A st ∧
    ((candStepInfo A.final q i st).2.2 = true → ∃ f, f ∈ A.final ∧ f ∈ (candStepInfo A.final q i st).1.reached) := by
  obtain ⟨hi1, hi2, hi3⟩ := hi
  have hfilt : ∀ k, k ∈ i.2.filter (fun k => k != q) ↔ k ∈ i.1.kids ∧ k ∉ q :: proc := by
    intro k
    simp only [List.mem_filter, bne_iff_ne, ne_eq, hi2 k, List.mem_cons, not_or]
    constructor
    · rintro ⟨⟨h1, h2⟩, h3⟩; exact ⟨h1, h3, h2⟩
    · rintro ⟨h1, h3, h2⟩; exact ⟨⟨h1, h2⟩, h3⟩
  unfold candStepInfo
  by_cases hc : i.2.contains q = true
  · rw [if_pos hc]
    by_cases he : (i.2.filter (fun k => k != q)).isEmpty = true
    · rw [if_pos he]
      have he' : i.2.filter (fun k => k != q) = [] := List.isEmpty_iff.mp he
      by_cases hr : st.reached.contains i.1.parent = true
      · rw [if_pos hr]
        refine ⟨⟨hI.rec_sub, hI.prod, hI.reached_iff, hI.leaf⟩, ⟨hi1, hfilt, fun _ => List.contains_iff_mem.mp hr⟩,
          rfl, fun x hx => hx, Nat.le_refl _, ?_⟩
        intro h; exact absurd h (by simp)
      · rw [if_neg hr]
        have hn : i.1.parent ∉ st.reached := fun h => hr (List.contains_iff_mem.mpr h)
        have hkids : ∀ k, k ∈ i.1.kids → k ∈ st.reached := by
          intro k hk
          apply (hI.reached_iff k).mpr
          left
          apply Classical.byContradiction
          intro hkn
          have : k ∈ i.2.filter (fun k => k != q) := (hfilt k).mpr ⟨hk, hkn⟩
          rw [he'] at this
          simp at this
        refine ⟨hI.add hi1 hkids _, ⟨hi1, hfilt, fun _ => List.mem_append_right _ List.mem_cons_self⟩,
          rfl, fun x hx => List.mem_append_left _ hx, M_add hi1 hn _ _, ?_⟩
        intro h
        exact ⟨i.1.parent, List.contains_iff_mem.mp h, List.mem_append_right _ List.mem_cons_self⟩
    · rw [if_neg he]
      refine ⟨hI, ⟨hi1, hfilt, fun h => absurd (List.isEmpty_iff.mpr h) he⟩, rfl, fun x hx => hx, Nat.le_refl _, ?_⟩
      intro h; exact absurd h (by simp)
  · rw [if_neg hc]
    have hq : q ∉ i.2 := fun h => hc (List.contains_iff_mem.mpr h)
    refine ⟨hI, ⟨hi1, ?_, hi3⟩, rfl, fun x hx => hx, Nat.le_refl _, ?_⟩
    · intro k
      rw [hi2 k, List.mem_cons, not_or]
      constructor
      · rintro ⟨h1, h2⟩
        refine ⟨h1, ?_, h2⟩
        intro hkq
        rw [hkq] at h1 h2
        exact hq ((hi2 q).mpr ⟨h1, h2⟩)
      · rintro ⟨h1, _, h2⟩; exact ⟨h1, h2⟩
    · intro h; exact absurd h (by simp)

theorem procInfos_spec {A : TA} {proc : List Nat} {q : Nat} : ∀ (is : List CInfo) (st : CState),
    Inv A (q :: proc) st → (∀ i, i ∈ is → InfoOk A proc st i) →
    Inv A (q :: proc) (candProcInfos A.final q is st).1 ∧
    ((candProcInfos A.final q is st).2.2 = false →
      ∀ i, i ∈ (candProcInfos A.final q is st).2.1 → InfoOk A (q :: proc) (candProcInfos A.final q is st).1 i) ∧
    (candProcInfos A.final q is st).2.1.map Prod.fst = is.map Prod.fst ∧
    (∀ x, x ∈ st.reached → x ∈ (candProcInfos A.final q is st).1.reached) ∧
    M A (candProcInfos A.final q is st).1 ≤ M A st ∧
    ((candProcInfos A.final q is st).2.2 = true →
      ∃ f, f ∈ A.final ∧ f ∈ (candProcInfos A.final q is st).1.reached)
  | [], st, hI, _ => by
    simp only [candProcInfos]
    exact ⟨hI, fun _ i hi => by simp at hi, trivial, fun x hx => hx, Nat.le_refl _, fun h => by simp at h⟩
  | i :: is, st, hI, hi => by
    obtain ⟨s1, s2, s3, s4, s5, s6⟩ := stepInfo_spec hI (hi i List.mem_cons_self)
    simp only [candProcInfos]
    by_cases hb : (candStepInfo A.final q i st).2.2 = true
    · rw [if_pos hb]
      refine ⟨s1, fun h => by simp at h, ?_, s4, s5, fun _ => s6 hb⟩
      simp only [List.map_cons, s3]
    · rw [if_neg hb]
      have ih := procInfos_spec (A := A) (proc := proc) (q := q) is (candStepInfo A.final q i st).1 s1
        (fun j hj => (hi j (List.mem_cons_of_mem _ hj)).mono s4)
      obtain ⟨p1, p2, p3, p4, p5, p6⟩ := ih
      refine ⟨p1, ?_, ?_, fun x hx => p4 x (s4 x hx), Nat.le_trans p5 s5, p6⟩
      · intro hf j hj
        rcases List.mem_cons.mp hj with h | h
        · rw [h]; exact s2.mono p4
        · exact p2 hf j h
      · simp only [List.map_cons, s3, p3]

/-- when the work-list is empty the reached set is closed under the rules -/
theorem closed_of_queue_nil {A : TA} {proc : List Nat} {st : CState} {infos : List CInfo} (hI : Inv A proc st)
    (hq : st.queue = []) (hi : ∀ i, i ∈ infos → InfoOk A proc st i) (hc : Cover A infos) :
    ProdClosed A st.reached := by
  intro r hr hk
  by_cases hl : r.kids = []
  · exact hI.leaf r hr hl
  · obtain ⟨i, hi', rfl⟩ := List.mem_map.mp (hc r hr hl)
    obtain ⟨_, h2, h3⟩ := hi i hi'
    apply h3
    apply List.eq_nil_iff_forall_not_mem.mpr
    intro k hk'
    obtain ⟨h4, h5⟩ := (h2 k).mp hk'
    rcases (hI.reached_iff k).mp (hk k h4) with h | h
    · exact h5 h
    · rw [hq] at h; simp at h

theorem loop_spec {A : TA} : ∀ (n : Nat) (infos : List CInfo) (st : CState) (proc : List Nat),
    Inv A proc st → (∀ i, i ∈ infos → InfoOk A proc st i) → Cover A infos → M A st ≤ n →
    (∃ proc', Inv A proc' (candLoop A.final n infos st)) ∧
    ((∃ f, f ∈ A.final ∧ f ∈ (candLoop A.final n infos st).reached) ∨
      ProdClosed A (candLoop A.final n infos st).reached)
  | 0, infos, st, proc, hI, hi, hc, hM => by
    simp only [candLoop]
    refine ⟨⟨proc, hI⟩, Or.inr (closed_of_queue_nil hI ?_ hi hc)⟩
    have : st.queue.length = 0 := by unfold M at hM; omega
    exact List.length_eq_zero_iff.mp this
  | n+1, infos, st, proc, hI, hi, hc, hM => by
    cases hq : st.queue with
    | nil =>
      simp only [candLoop, hq]
      exact ⟨⟨proc, hI⟩, Or.inr (closed_of_queue_nil hI hq hi hc)⟩
    | cons q qs =>
      simp only [candLoop, hq]
      have hI' : Inv A (q :: proc) { st with queue := qs } := by
        refine ⟨hI.rec_sub, hI.prod, ?_, hI.leaf⟩
        intro x
        rw [hI.reached_iff x, hq]
        simp only [List.mem_cons]
        constructor
        · rintro (h | h | h)
          · exact Or.inl (Or.inr h)
          · exact Or.inl (Or.inl h)
          · exact Or.inr h
        · rintro ((h | h) | h)
          · exact Or.inr (Or.inl h)
          · exact Or.inl h
          · exact Or.inr (Or.inr h)
      have hM' : M A { st with queue := qs } + 1 ≤ M A st := by
        simp only [M, hq, List.length_cons]; omega
      obtain ⟨p1, p2, p3, p4, p5, p6⟩ := procInfos_spec (A := A) (proc := proc) (q := q) infos { st with queue := qs } hI'
        (fun i h => (hi i h).mono (fun x hx => hx))
      by_cases hb : (candProcInfos A.final q infos { st with queue := qs }).2.2 = true
      · rw [if_pos hb]
        exact ⟨⟨_, p1⟩, Or.inl (p6 hb)⟩
      · rw [if_neg hb]
        apply loop_spec n _ _ (q :: proc) p1 (p2 (by simpa using hb))
        · intro r hr hl; rw [p3]; exact hc r hr hl
        · omega

/-! ### phase 1 -/

structure Inv1 (A : TA) (done : List Rule) (acc : CState × List CInfo) : Prop where
  rec_sub : ∀ r, r ∈ acc.1.recorded → r ∈ A.rules
  prod : ∀ x, x ∈ acc.1.reached → Productive ⟨acc.1.recorded, []⟩ x
  rq : ∀ x, x ∈ acc.1.reached ↔ x ∈ acc.1.queue
  leaf : ∀ r, r ∈ done → r.kids = [] → r.parent ∈ acc.1.reached
  infos : ∀ i, i ∈ acc.2 → i.1 ∈ A.rules ∧ (∀ k, k ∈ i.2 ↔ k ∈ i.1.kids) ∧ i.2 ≠ []
  cover : ∀ r, r ∈ done → r.kids ≠ [] → r ∈ acc.2.map Prod.fst
  meas : M A acc.1 ≤ A.rules.length

theorem initStep_inv {A : TA} {done : List Rule} {acc : CState × List CInfo} (h : Inv1 A done acc) {r : Rule}
    (hr : r ∈ A.rules) : Inv1 A (done ++ [r]) (candInitStep acc r) := by
  unfold candInitStep
  have hsub : ∀ ρ, ρ ∈ acc.1.recorded → ρ ∈ acc.1.recorded ++ [r] := fun ρ h => List.mem_append_left _ h
  have hrec : ∀ ρ, ρ ∈ acc.1.recorded ++ [r] → ρ ∈ A.rules := by
    intro ρ hρ
    rcases List.mem_append.mp hρ with h' | h'
    · exact h.rec_sub ρ h'
    · rw [List.mem_singleton.mp h']; exact hr
  by_cases hl : r.kids.isEmpty = true
  · rw [if_pos hl]
    have hl' : r.kids = [] := List.isEmpty_iff.mp hl
    have hpr : Productive ⟨acc.1.recorded ++ [r], []⟩ r.parent :=
      productive_of_rule (A := ⟨acc.1.recorded ++ [r], []⟩) (List.mem_append_right _ List.mem_cons_self)
        (fun k hk => by rw [hl'] at hk; simp at hk)
    by_cases hc : acc.1.reached.contains r.parent = true
    · rw [if_pos hc]
      refine ⟨hrec, fun x hx => productive_mono hsub (h.prod x hx), h.rq, ?_, h.infos, ?_, h.meas⟩
      · intro ρ hρ hk
        rcases List.mem_append.mp hρ with h' | h'
        · exact h.leaf ρ h' hk
        · rw [List.mem_singleton.mp h']; exact List.contains_iff_mem.mp hc
      · intro ρ hρ hk
        rcases List.mem_append.mp hρ with h' | h'
        · exact h.cover ρ h' hk
        · rw [List.mem_singleton.mp h'] at hk; exact absurd hl' hk
    · rw [if_neg hc]
      have hn : r.parent ∉ acc.1.reached := fun h' => hc (List.contains_iff_mem.mpr h')
      refine ⟨hrec, ?_, ?_, ?_, h.infos, ?_, Nat.le_trans (M_add hr hn _ _) h.meas⟩
      · intro x hx
        rcases List.mem_append.mp hx with h' | h'
        · exact productive_mono hsub (h.prod x h')
        · rw [List.mem_singleton.mp h']; exact hpr
      · intro x
        simp only [List.mem_append, h.rq x]
      · intro ρ hρ hk
        rcases List.mem_append.mp hρ with h' | h'
        · exact List.mem_append_left _ (h.leaf ρ h' hk)
        · rw [List.mem_singleton.mp h']; exact List.mem_append_right _ List.mem_cons_self
      · intro ρ hρ hk
        rcases List.mem_append.mp hρ with h' | h'
        · exact h.cover ρ h' hk
        · rw [List.mem_singleton.mp h'] at hk; exact absurd hl' hk
  · rw [if_neg hl]
    have hl' : r.kids ≠ [] := fun h' => hl (List.isEmpty_iff.mpr h')
    refine ⟨h.rec_sub, h.prod, h.rq, ?_, ?_, ?_, h.meas⟩
    · intro ρ hρ hk
      rcases List.mem_append.mp hρ with h' | h'
      · exact h.leaf ρ h' hk
      · rw [List.mem_singleton.mp h'] at hk; exact absurd hk hl'
    · intro i hi
      rcases List.mem_append.mp hi with h' | h'
      · exact h.infos i h'
      · rw [List.mem_singleton.mp h']
        refine ⟨hr, fun k => mem_dedupL, ?_⟩
        intro he
        cases hk : r.kids with
        | nil => exact hl' hk
        | cons k ks =>
          have : k ∈ dedupL r.kids := mem_dedupL.mpr (by rw [hk]; exact List.mem_cons_self)
          have he' : dedupL r.kids = [] := he
          rw [he'] at this
          simp at this
    · intro ρ hρ hk
      rw [List.map_append, List.mem_append]
      rcases List.mem_append.mp hρ with h' | h'
      · exact Or.inl (h.cover ρ h' hk)
      · right; rw [List.mem_singleton.mp h']; simp

theorem init_inv {A : TA} : ∀ (rs done : List Rule) (acc : CState × List CInfo), Inv1 A done acc →
    (∀ r, r ∈ rs → r ∈ A.rules) → Inv1 A (done ++ rs) (candInit rs acc)
  | [], done, acc, h, _ => by simpa [candInit] using h
  | r :: rs, done, acc, h, hs => by
    have := init_inv rs (done ++ [r]) (candInitStep acc r) (initStep_inv h (hs r List.mem_cons_self))
      (fun ρ hρ => hs ρ (List.mem_cons_of_mem _ hρ))
    simpa [candInit] using this

theorem inv1_start (A : TA) : Inv1 A [] (⟨[], [], [], 0⟩, []) := by
  refine ⟨?_, ?_, ?_, ?_, ?_, ?_, ?_⟩
  · intro r hr; simp at hr
  · intro x hx; simp at hx
  · intro x; simp
  · intro r hr; simp at hr
  · intro i hi; simp at hi
  · intro r hr; simp at hr
  · simp only [M, List.length_nil, Nat.zero_add]
    exact List.countP_le_length

/-! ### the search as a whole -/

theorem search_spec (A : TA) :
    (∀ r, r ∈ (candSearch A).recorded → r ∈ A.rules) ∧
    (∀ x, x ∈ (candSearch A).reached → Productive ⟨(candSearch A).recorded, []⟩ x) ∧
    ((∃ f, f ∈ A.final ∧ f ∈ (candSearch A).reached) ∨ ProdClosed A (candSearch A).reached) := by
  have h1 := init_inv A.rules [] _ (inv1_start A) (fun r hr => hr)
  rw [List.nil_append] at h1
  have hI : Inv A [] (candInit A.rules (⟨[], [], [], 0⟩, [])).1 :=
    ⟨h1.rec_sub, h1.prod, fun x => by rw [h1.rq x]; simp, h1.leaf⟩
  have hi : ∀ i, i ∈ (candInit A.rules (⟨[], [], [], 0⟩, [])).2 →
      InfoOk A [] (candInit A.rules (⟨[], [], [], 0⟩, [])).1 i := by
    intro i hi
    obtain ⟨h2, h3, h4⟩ := h1.infos i hi
    exact ⟨h2, fun k => by rw [h3 k]; simp, fun he => absurd he h4⟩
  obtain ⟨⟨proc, hI'⟩, hfin⟩ := loop_spec (A.rules.length + 1) _ _ [] hI hi h1.cover (Nat.le_succ_of_le h1.meas)
  exact ⟨hI'.rec_sub, hI'.prod, hfin⟩

theorem candRaw_rules_sub (A : TA) : ∀ r, r ∈ (candRaw A).rules → r ∈ A.rules := by
  intro r hr
  simp only [candRaw] at hr
  split at hr
  · exact hr
  · exact (search_spec A).1 r hr

theorem candRaw_recorded_sub (A : TA) : ∀ r, r ∈ (candSearch A).recorded → r ∈ (candRaw A).rules := by
  intro r hr
  simp only [candRaw]
  split
  · exact (search_spec A).1 r hr
  · exact hr

theorem candRaw_final_sub (A : TA) : ∀ q, q ∈ (candRaw A).final → q ∈ A.final :=
  fun _ hq => (List.mem_filter.mp hq).1

theorem candRaw_nonempty (A : TA) : (∃ t, accepts A t = true) → ∃ t, accepts (candRaw A) t = true := by
  rintro ⟨t, ht⟩
  simp only [accepts, accepting, List.any_eq_true, List.contains_iff_mem] at ht
  obtain ⟨q, hq, hf⟩ := ht
  obtain ⟨_, hprod, hfin⟩ := search_spec A
  have hex : ∃ f, f ∈ A.final ∧ f ∈ (candSearch A).reached := by
    rcases hfin with h | h
    · exact h
    · exact ⟨q, hf, reach_sub_closed A _ h t q hq⟩
  obtain ⟨f, hfA, hfr⟩ := hex
  obtain ⟨t', ht'⟩ := hprod f hfr
  refine ⟨t', ?_⟩
  simp only [accepts, accepting, List.any_eq_true, List.contains_iff_mem]
  refine ⟨f, reach_mono ⟨(candSearch A).recorded, []⟩ (candRaw A) (candRaw_recorded_sub A) t' f ht', ?_⟩
  simp only [candRaw, List.mem_filter, List.contains_iff_mem]
  exact ⟨hfA, hfr⟩

end Cand

/-! ### the theorems of C15 -/

/-- the witness automaton is a sub-automaton of `A` -/
theorem candidate_sub (A : TA) :
    (∀ r, r ∈ (candidate A).rules → r ∈ A.rules) ∧ (∀ q, q ∈ (candidate A).final → q ∈ A.final) := by
  constructor
  · intro r hr
    exact Cand.candRaw_rules_sub A r (List.mem_filter.mp hr).1
  · intro q hq
    exact Cand.candRaw_final_sub A q hq

/-- hence its language is included in the language of `A` -/
theorem candidate_incl (A : TA) (t : Tree) : accepts (candidate A) t = true → accepts A t = true := by
  simp only [accepts, accepting, List.any_eq_true, List.contains_iff_mem]
  rintro ⟨q, hq, hf⟩
  exact ⟨q, reach_mono (candidate A) A (candidate_sub A).1 t q hq, (candidate_sub A).2 q hf⟩

/-- and it is non-empty whenever the language of `A` is -/
theorem candidate_nonempty (A : TA) : (∃ t, accepts A t = true) → ∃ t, accepts (candidate A) t = true := by
  intro h
  obtain ⟨t, ht⟩ := Cand.candRaw_nonempty A h
  exact ⟨t, by unfold candidate; rw [removeUnreachable_lang]; exact ht⟩

/-- emptiness is preserved in both directions -/
theorem candidate_empty_iff (A : TA) : (∀ t, accepts (candidate A) t = false) ↔ ∀ t, accepts A t = false := by
  constructor
  · intro h t
    cases ht : accepts A t with
    | false => rfl
    | true =>
      obtain ⟨t', ht'⟩ := candidate_nonempty A ⟨t, ht⟩
      rw [h t'] at ht'
      exact absurd ht' (by simp)
  · intro h t
    cases ht : accepts (candidate A) t with
    | false => rfl
    | true =>
      have := candidate_incl A t ht
      rw [h t] at this
      exact absurd this (by simp)

/-- the Boolean contract used by the harness holds of the model -/
theorem candidateOkB_candidate (A : TA) : candidateOkB A (candidate A) = true := by
  unfold candidateOkB
  simp only [Bool.and_eq_true, beq_iff_eq]
  refine ⟨⟨?_, ?_⟩, ?_⟩
  · simp only [rulesSub, List.all_eq_true, List.contains_iff_mem]
    exact (candidate_sub A).1
  · exact subB_iff.mpr (candidate_sub A).2
  · rw [Bool.eq_iff_iff, isEmptyRef_iff, isEmptyRef_iff]
    exact candidate_empty_iff A

/-- soundness of the contract for ANY automaton `C` (e.g. the one returned by the C++) -/
theorem candidateOkB_sound (A C : TA) (h : candidateOkB A C = true) :
    (∀ t, accepts C t = true → accepts A t = true) ∧ ((∃ t, accepts A t = true) → ∃ t, accepts C t = true) := by
  unfold candidateOkB at h
  simp only [Bool.and_eq_true, beq_iff_eq] at h
  obtain ⟨⟨h1, h2⟩, h3⟩ := h
  simp only [rulesSub, List.all_eq_true, List.contains_iff_mem] at h1
  have h2' := subB_iff.mp h2
  constructor
  · intro t
    simp only [accepts, accepting, List.any_eq_true, List.contains_iff_mem]
    rintro ⟨q, hq, hf⟩
    exact ⟨q, reach_mono C A h1 t q hq, h2' q hf⟩
  · rintro ⟨t, ht⟩
    apply Classical.byContradiction
    intro hn
    have hC : isEmptyRef C = true := (isEmptyRef_iff C).mpr (fun t' => by
      cases h' : accepts C t' with
      | false => rfl
      | true => exact absurd ⟨t', h'⟩ hn)
    rw [h3] at hC
    have := (isEmptyRef_iff A).mp hC t
    rw [ht] at this
    exact absurd this (by simp)

/-! ### every enumeration order -/

theorem candidateOrd_sub (ord : List Rule → List Rule) (A : TA) (h : ∀ r, r ∈ ord A.rules → r ∈ A.rules) :
    (∀ r, r ∈ (candidateOrd ord A).rules → r ∈ A.rules) ∧ (∀ q, q ∈ (candidateOrd ord A).final → q ∈ A.final) :=
  ⟨fun r hr => h r ((candidate_sub ⟨ord A.rules, A.final⟩).1 r hr), (candidate_sub ⟨ord A.rules, A.final⟩).2⟩

theorem candidateOrd_incl (ord : List Rule → List Rule) (A : TA) (h : ∀ r, r ∈ ord A.rules → r ∈ A.rules) (t : Tree) :
    accepts (candidateOrd ord A) t = true → accepts A t = true := by
  simp only [accepts, accepting, List.any_eq_true, List.contains_iff_mem]
  rintro ⟨q, hq, hf⟩
  exact ⟨q, reach_mono (candidateOrd ord A) A (candidateOrd_sub ord A h).1 t q hq, (candidateOrd_sub ord A h).2 q hf⟩

theorem candidateOrd_nonempty (ord : List Rule → List Rule) (A : TA) (h : ∀ r, r ∈ A.rules → r ∈ ord A.rules) :
    (∃ t, accepts A t = true) → ∃ t, accepts (candidateOrd ord A) t = true := by
  rintro ⟨t, ht⟩
  apply candidate_nonempty ⟨ord A.rules, A.final⟩
  refine ⟨t, ?_⟩
  simp only [accepts, accepting, List.any_eq_true, List.contains_iff_mem] at ht ⊢
  obtain ⟨q, hq, hf⟩ := ht
  exact ⟨q, reach_mono A ⟨ord A.rules, A.final⟩ h t q hq, hf⟩

/-! ### non-vacuity -/
namespace CandEx

/-- `h(1,4) → 5`, `f(0,0) → 1`, `a → 0`, `g(2) → 3`, `b → 4`, `k(5,1) → 6`, `u(0) → 7`; final `5`, `3`, `6` -/
def exA : TA := ⟨[⟨4, [1, 4], 5⟩, ⟨1, [0, 0], 1⟩, ⟨0, [], 0⟩, ⟨2, [2], 3⟩, ⟨3, [], 4⟩, ⟨5, [5, 1], 6⟩, ⟨6, [0], 7⟩],
  [5, 3, 6]⟩
/-- the same rules enumerated in the opposite order -/
def exRev : TA := ⟨exA.rules.reverse, exA.final⟩
/-- `h(f(a,a), b)` -/
def exT : Tree := .node 4 [.node 1 [.node 0 [], .node 0 []], .node 3 []]
/-- only unary rules and all of them are completed: `remaining = 0`, all rules of `A` are taken (also `k(0) → 1`,
which was not recorded), then `h(0) → 3` is pruned -/
def exU : TA := ⟨[⟨0, [], 0⟩, ⟨1, [0], 1⟩, ⟨3, [0], 1⟩, ⟨2, [0], 3⟩, ⟨1, [1], 2⟩], [2]⟩
/-- empty language although there are rules, a leaf rule and a final state -/
def exE : TA := ⟨[⟨0, [], 0⟩, ⟨2, [2], 3⟩, ⟨2, [3], 2⟩, ⟨1, [0, 2], 3⟩], [3]⟩

-- the search stops at the first final state (5): state 6 is never reached, `u(0) → 7` is recorded but then pruned
example : (candSearch exA).reached = [0, 4, 1, 7, 5] ∧ (candSearch exA).queue = [7, 5] ∧
    (candSearch exA).remaining = 4 := by decide
example : (candidate exA).rules = [⟨0, [], 0⟩, ⟨3, [], 4⟩, ⟨1, [0, 0], 1⟩, ⟨4, [1, 4], 5⟩] ∧ (candidate exA).final = [5] := by
  decide
example : accepts exA exT = true ∧ accepts (candidate exA) exT = true := by decide
-- `candidate_sub`, `candidate_incl`, `candidate_nonempty` are used on it
example : ∀ r, r ∈ (candidate exA).rules → r ∈ exA.rules := (candidate_sub exA).1
example : accepts exA exT = true := candidate_incl exA exT (by decide)
example : ∃ t, accepts (candidate exA) t = true := candidate_nonempty exA ⟨exT, by decide⟩
-- another enumeration order gives another (here: the same up to order) witness automaton
example : (candidate exRev).rules = [⟨3, [], 4⟩, ⟨0, [], 0⟩, ⟨1, [0, 0], 1⟩, ⟨4, [1, 4], 5⟩] ∧ (candidate exRev).final = [5] := by
  decide
example : candidateOrd List.reverse exA = candidate exRev := rfl
example : ∃ t, accepts (candidateOrd List.reverse exA) t = true :=
  candidateOrd_nonempty List.reverse exA (fun r hr => List.mem_reverse.mpr hr) ⟨exT, by decide⟩
-- the branch `remaining = 0`
example : (candSearch exU).remaining = 0 ∧ (candSearch exU).recorded = [⟨0, [], 0⟩, ⟨1, [0], 1⟩, ⟨2, [0], 3⟩, ⟨1, [1], 2⟩] ∧
    (candidate exU).rules = [⟨0, [], 0⟩, ⟨1, [0], 1⟩, ⟨3, [0], 1⟩, ⟨1, [1], 2⟩] ∧ (candidate exU).final = [2] := by decide
-- empty language: nothing final is reached, the result has no final state and no rule
example : (candidate exE).rules = [] ∧ (candidate exE).final = [] := by decide
example : ∀ t, accepts (candidate exE) t = false := (candidate_empty_iff exE).mpr ((isEmptyRef_iff exE).mp (by decide))
-- the contract
example : candidateOkB exA (candidate exA) = true := by decide
example : candidateOkB exA ⟨[], []⟩ = false := by decide
example : candidateOkB exA ⟨[⟨7, [], 5⟩], [5]⟩ = false := by decide

end CandEx

end Vata
