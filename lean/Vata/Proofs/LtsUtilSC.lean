import Vata.LtsUtil

/-!
# `SharedCounter` as coded refines a table of numbers (part 1: toolkit and invariant)

Model: section `namespace SC` of `Vata/LtsUtil.lean`.  Helpers live in `Vata.LU.SC.P`.

* this file: finite sums, index arithmetic, memory cells, counting sharers (`refs`), the invariant `Vata.LU.SC.Inv`,
  the generic steps `update_row` / `replace_cnt` / `append_cnt`, `resize`, `set`, the copy-on-write memory lemma `cow_spec`;
* `LtsUtilSC2.lean`: `decr` (four branches); `LtsUtilSC3.lean`: `init()`, the destructor;
  `LtsUtilSC4.lean`: `copyLabels` (any list of labels);
* `LtsUtilSC5.lean`: the theorems `inv_empty`, `step_refines`, `get_refines`, `refcount_eq_sharers`, `free_not_referenced`,
  `decr_no_shared_write`, `decr_other_unchanged`, `run_refines` and a concrete history through every branch.
-/
namespace Vata.LU.SC
namespace P

/-! ## finite sums -/

/-- `Σ_{c < n} f c` -/
def sumTo (f : Nat → Nat) : Nat → Nat
  | 0 => 0
  | n + 1 => sumTo f n + f n

/-- at most one of `f 0 … f (n-1)` is positive -/
def AtMostOne (f : Nat → Nat) (n : Nat) : Prop :=
  ∀ i j, i < n → j < n → 0 < f i → 0 < f j → i = j

theorem sumTo_congr {f g : Nat → Nat} : ∀ {n : Nat}, (∀ i, i < n → f i = g i) → sumTo f n = sumTo g n
  | 0, _ => rfl
  | n + 1, h => by
    simp only [sumTo]
    rw [sumTo_congr (n := n) (fun i hi => h i (by omega)), h n (by omega)]

theorem sumTo_update {f g : Nat → Nat} {j : Nat} :
    ∀ {n : Nat}, j < n → (∀ i, i < n → i ≠ j → g i = f i) → sumTo g n + f j = sumTo f n + g j
  | 0, h, _ => by omega
  | n + 1, hj, h => by
    simp only [sumTo]
    by_cases hjn : j = n
    · subst hjn
      rw [sumTo_congr (f := g) (g := f) (n := j) (fun i hi => h i (by omega) (by omega))]
      omega
    · have := sumTo_update (f := f) (g := g) (j := j) (n := n) (by omega) (fun i hi hne => h i (by omega) hne)
      have := h n (by omega) (fun e => hjn e.symm)
      omega

theorem le_sumTo {f : Nat → Nat} {j : Nat} : ∀ {n : Nat}, j < n → f j ≤ sumTo f n
  | 0, h => by omega
  | n + 1, hj => by
    simp only [sumTo]
    by_cases hjn : j = n
    · subst hjn; omega
    · have := le_sumTo (f := f) (j := j) (n := n) (by omega); omega

theorem add_le_sumTo {f : Nat → Nat} {i j : Nat} : ∀ {n : Nat}, i < n → j < n → i ≠ j → f i + f j ≤ sumTo f n
  | 0, h, _, _ => by omega
  | n + 1, hi, hj, hne => by
    simp only [sumTo]
    by_cases hin : i = n
    · subst hin
      have := le_sumTo (f := f) (j := j) (n := i) (by omega); omega
    · by_cases hjn : j = n
      · subst hjn
        have := le_sumTo (f := f) (j := i) (n := j) (by omega); omega
      · have := add_le_sumTo (f := f) (i := i) (j := j) (n := n) (by omega) (by omega) hne; omega

theorem sumTo_eq_zero {f : Nat → Nat} {n : Nat} (h : sumTo f n = 0) : ∀ i, i < n → f i = 0 := by
  intro i hi
  have := le_sumTo (f := f) hi
  omega

theorem sumTo_zero {f : Nat → Nat} : ∀ {n : Nat}, (∀ i, i < n → f i = 0) → sumTo f n = 0
  | 0, _ => rfl
  | n + 1, h => by
    simp only [sumTo]
    rw [sumTo_zero (n := n) (fun i hi => h i (by omega)), h n (by omega)]

/-- sum = one summand → the others are 0 -/
theorem sumTo_eq_single {f : Nat → Nat} {n j : Nat} (hj : j < n) (h : sumTo f n = f j) :
    ∀ i, i < n → i ≠ j → f i = 0 := by
  intro i hi hne
  have := add_le_sumTo (f := f) hi hj hne
  omega

theorem atMostOne_of_sum_le_one {f : Nat → Nat} {n : Nat} (h : sumTo f n ≤ 1) : AtMostOne f n := by
  intro i j hi hj hfi hfj
  apply Classical.byContradiction
  intro hne
  have := add_le_sumTo (f := f) hi hj hne
  omega

theorem atMostOne_of_zero {f : Nat → Nat} {n j : Nat} (h : ∀ i, i < n → i ≠ j → f i = 0) : AtMostOne f n := by
  intro i k hi hk hfi hfk
  have h1 : i = j := Classical.byContradiction fun hne => by have := h i hi hne; omega
  have h2 : k = j := Classical.byContradiction fun hne => by have := h k hk hne; omega
  omega

theorem AtMostOne.sum_eq {f : Nat → Nat} {n j : Nat} (h : AtMostOne f n) (hj : j < n) (hf : 0 < f j) :
    sumTo f n = f j := by
  have hz : ∀ i, i < n → i ≠ j → f i = 0 := by
    intro i hi hne
    apply Classical.byContradiction
    intro hpos
    exact hne (h i j hi hj (by omega) hf)
  have := sumTo_update (f := f) (g := fun i => if i = j then 0 else f i) (j := j) hj
    (fun i _ hne => by simp [hne])
  have h0 : sumTo (fun i => if i = j then 0 else f i) n = 0 :=
    sumTo_zero (fun i hi => by by_cases e : i = j <;> simp [e, hz i hi])
  simp at this
  omega

theorem AtMostOne.mono {f g : Nat → Nat} {n : Nat} (h : AtMostOne f n) (hle : ∀ i, i < n → g i ≤ f i) :
    AtMostOne g n := by
  intro i j hi hj hgi hgj
  exact h i j hi hj (by have := hle i hi; omega) (by have := hle j hj; omega)

theorem AtMostOne.congr {f g : Nat → Nat} {n : Nat} (h : AtMostOne f n) (he : ∀ i, i < n → g i = f i) :
    AtMostOne g n :=
  h.mono (fun i hi => by rw [he i hi]; exact Nat.le_refl _)

/-! ## index arithmetic -/

theorem idx_split {n idx : Nat} : idx / n * n + idx % n = idx := by
  rw [Nat.mul_comm]; exact Nat.div_add_mod idx n

theorem idx_inj {n r r' c c' : Nat} (hc : c < n) (hc' : c' < n) (h : r * n + c = r' * n + c') : r = r' ∧ c = c' := by
  have h1 : (r * n + c) / n = r := by
    rw [Nat.mul_comm, Nat.mul_add_div (by omega), Nat.div_eq_of_lt hc]; rfl
  have h2 : (r' * n + c') / n = r' := by
    rw [Nat.mul_comm, Nat.mul_add_div (by omega), Nat.div_eq_of_lt hc']; rfl
  have hr : r = r' := by rw [← h1, ← h2, h]
  subst hr
  exact ⟨rfl, by omega⟩

theorem idx_div {n r c : Nat} (hc : c < n) : (r * n + c) / n = r := by
  rw [Nat.mul_comm, Nat.mul_add_div (by omega), Nat.div_eq_of_lt hc]; rfl

theorem idx_lt {n r c rows : Nat} (hc : c < n) (hr : r < rows) : r * n + c < rows * n := by
  have : (r + 1) * n ≤ rows * n := Nat.mul_le_mul_right n hr
  rw [Nat.add_mul] at this
  omega

theorem div_lt_rows {n idx rows : Nat} (h : idx < rows * n) : idx / n < rows := by
  rw [Nat.mul_comm] at h
  exact Nat.div_lt_of_lt_mul h

/-! ## memory cells -/

@[simp] theorem setCell_next (m : Mem) (p i v : Nat) : (setCell m p i v).next = m.next := rfl
@[simp] theorem setCell_free (m : Mem) (p i v : Nat) : (setCell m p i v).free = m.free := rfl
@[simp] theorem reclaim_next (m : Mem) (p : Nat) : (reclaim m p).next = m.next := rfl
@[simp] theorem reclaim_cells (m : Mem) (p : Nat) : (reclaim m p).cells = m.cells := rfl
@[simp] theorem reclaim_free (m : Mem) (p : Nat) : (reclaim m p).free = p :: m.free := rfl
@[simp] theorem cell_reclaim (m : Mem) (p q i : Nat) : cell (reclaim m p) q i = cell m q i := rfl

theorem setCell_get (m : Mem) (p i v q : Nat) :
    (setCell m p i v).cells.get q = if q = p then (m.cells.get p).set i v else m.cells.get q := by
  simp [setCell, Heap.get_set]

theorem setCell_get_ne (m : Mem) (p i v : Nat) {q : Nat} (h : q ≠ p) : (setCell m p i v).cells.get q = m.cells.get q := by
  simp [setCell_get, h]

@[simp] theorem setCell_len (m : Mem) (p i v q : Nat) :
    ((setCell m p i v).cells.get q).length = (m.cells.get q).length := by
  rw [setCell_get]; split
  · rename_i h; subst h; simp
  · rfl

theorem cell_setCell (m : Mem) (p i v q j : Nat) :
    cell (setCell m p i v) q j = if q = p ∧ j = i ∧ i < (m.cells.get p).length then v else cell m q j := by
  unfold cell
  rw [setCell_get]
  by_cases hq : q = p
  · subst hq
    simp only [true_and, if_true, List.getD_eq_getElem?_getD, List.getElem?_set]
    by_cases hj : j = i
    · subst hj
      by_cases hl : j < (m.cells.get q).length
      · simp [hl]
      · simp [hl]
    · have : ¬ i = j := fun e => hj e.symm
      simp [hj, this]
  · simp [hq]

theorem cell_of_get {m m' : Mem} {p p' : Nat} (h : m'.cells.get p' = m.cells.get p) (j : Nat) :
    cell m' p' j = cell m p j := by
  unfold cell; rw [h]

theorem cell_setCell_same {m : Mem} {p i v : Nat} (h : i < (m.cells.get p).length) : cell (setCell m p i v) p i = v := by
  simp [cell_setCell, h]

theorem cell_setCell_ne_col (m : Mem) (p i v q : Nat) {j : Nat} (h : j ≠ i) : cell (setCell m p i v) q j = cell m q j := by
  simp [cell_setCell, h]

theorem cell_setCell_ne_addr (m : Mem) (p i v j : Nat) {q : Nat} (h : q ≠ p) : cell (setCell m p i v) q j = cell m q j := by
  simp [cell_setCell, h]

/-! ## counting the sharers of a row -/

/-- number of rows of a counter whose `data_` is `p` -/
def rowRefs (p : Nat) : List Row → Nat
  | [] => 0
  | row :: rest => (if row.data = some p then 1 else 0) + rowRefs p rest

def crefs (p : Nat) : Option Cnt → Nat
  | none => 0
  | some c => rowRefs p c

/-- number of (counter, row) pairs of the world whose `data_` is `p` -/
def refs (p : Nat) : List (Option Cnt) → Nat
  | [] => 0
  | c :: cs => crefs p c + refs p cs

theorem rowRefs_set {p : Nat} {row row' : Row} :
    ∀ {c : List Row} {r : Nat}, c[r]? = some row →
      rowRefs p (c.set r row') + (if row.data = some p then 1 else 0) = rowRefs p c + (if row'.data = some p then 1 else 0)
  | [], _, h => by simp at h
  | x :: rest, 0, h => by
    simp at h; subst h
    simp only [List.set_cons_zero, rowRefs]; omega
  | x :: rest, r + 1, h => by
    simp at h
    have := rowRefs_set (p := p) (row' := row') (c := rest) (r := r) h
    simp only [List.set_cons_succ, rowRefs]; omega

theorem rowRefs_pos_of_get {p : Nat} {row : Row} :
    ∀ {c : List Row} {r : Nat}, c[r]? = some row → row.data = some p → 0 < rowRefs p c
  | [], _, h, _ => by simp at h
  | x :: rest, 0, h, hd => by
    simp at h; subst h
    simp only [rowRefs, hd, if_true]; omega
  | x :: rest, r + 1, h, hd => by
    simp at h
    have := rowRefs_pos_of_get (c := rest) (r := r) h hd
    simp only [rowRefs]; omega

theorem rowRefs_pos_iff {p : Nat} : ∀ {c : List Row}, 0 < rowRefs p c ↔ ∃ row, row ∈ c ∧ row.data = some p
  | [] => by simp [rowRefs]
  | x :: rest => by
    simp only [rowRefs, List.mem_cons]
    constructor
    · intro h
      by_cases hx : x.data = some p
      · exact ⟨x, Or.inl rfl, hx⟩
      · simp [hx] at h
        obtain ⟨row, hm, hd⟩ := rowRefs_pos_iff.mp h
        exact ⟨row, Or.inr hm, hd⟩
    · rintro ⟨row, hm | hm, hd⟩
      · subst hm; simp only [hd, if_true]; omega
      · have := rowRefs_pos_iff.mpr ⟨row, hm, hd⟩; omega

theorem rowRefs_replicate_none (p n m : Nat) : rowRefs p (List.replicate n ⟨m, none⟩) = 0 := by
  induction n with
  | zero => rfl
  | succ n ih => simp [List.replicate_succ, rowRefs, ih]

theorem refs_append (p : Nat) (x : Option Cnt) : ∀ (cs : List (Option Cnt)), refs p (cs ++ [x]) = refs p cs + crefs p x
  | [] => by simp [refs]
  | c :: cs => by simp only [List.cons_append, refs, refs_append p x cs]; omega

theorem refs_set {p : Nat} {x : Option Cnt} :
    ∀ {cs : List (Option Cnt)} {i : Nat}, i < cs.length →
      refs p (cs.set i x) + crefs p (cs.getD i none) = refs p cs + crefs p x
  | [], _, h => by simp at h
  | c :: cs, 0, _ => by simp only [List.set_cons_zero, refs, List.getD_cons_zero]; omega
  | c :: cs, i + 1, h => by
    have := refs_set (p := p) (x := x) (cs := cs) (i := i) (by simpa using h)
    simp only [List.set_cons_succ, refs, List.getD_cons_succ]; omega

theorem crefs_le_refs {p : Nat} : ∀ {cs : List (Option Cnt)} (i : Nat), crefs p (cs.getD i none) ≤ refs p cs
  | [], i => by simp [crefs]
  | c :: cs, 0 => by simp only [List.getD_cons_zero, refs]; omega
  | c :: cs, i + 1 => by
    have := crefs_le_refs (p := p) (cs := cs) i
    simp only [List.getD_cons_succ, refs]; omega

theorem refs_pos {p : Nat} : ∀ {cs : List (Option Cnt)}, 0 < refs p cs → ∃ i c, cs.getD i none = some c ∧ 0 < rowRefs p c
  | [], h => by simp [refs] at h
  | x :: cs, h => by
    simp only [refs] at h
    by_cases hx : 0 < crefs p x
    · cases x with
      | none => simp [crefs] at hx
      | some c => exact ⟨0, c, rfl, hx⟩
    · have h' : 0 < refs p cs := by omega
      obtain ⟨i, c, hi, hc⟩ := refs_pos (cs := cs) h'
      exact ⟨i + 1, c, by simpa using hi, hc⟩

theorem getD_some_lt {α : Type} {l : List (Option α)} {i : Nat} {x : α} (h : l.getD i none = some x) : i < l.length := by
  apply Classical.byContradiction
  intro hn
  rw [List.getD_eq_getElem?_getD, List.getElem?_eq_none (by omega)] at h
  simp at h

theorem getD_set {α : Type} (l : List α) (i j : Nat) (x d : α) :
    (l.set i x).getD j d = if j = i ∧ i < l.length then x else l.getD j d := by
  simp only [List.getD_eq_getElem?_getD, List.getElem?_set]
  by_cases hji : i = j
  · subst hji
    by_cases hl : i < l.length
    · simp [hl]
    · simp [hl]
  · have : ¬ j = i := fun e => hji e.symm
    simp [hji, this]

/-- a reference from row `r` of counter `i` is counted -/
theorem refs_pos_of_get {p : Nat} {cs : List (Option Cnt)} {i r : Nat} {c : Cnt} {row : Row}
    (hc : cs.getD i none = some c) (hr : c[r]? = some row) (hd : row.data = some p) : 0 < refs p cs := by
  have h1 := crefs_le_refs (p := p) (cs := cs) i
  rw [hc] at h1
  have h2 := rowRefs_pos_of_get (p := p) hr hd
  simp only [crefs] at h1
  omega


/-- two different (counter, row) positions pointing to `p` -/
theorem refs_ge_two {p : Nat} {cs : List (Option Cnt)} {i r j r' : Nat} {c cj : Cnt} {row rowj : Row}
    (hc : cs.getD i none = some c) (hr : c[r]? = some row) (hd : row.data = some p)
    (hcj : cs.getD j none = some cj) (hrj : cj[r']? = some rowj) (hdj : rowj.data = some p)
    (hne : i ≠ j ∨ r ≠ r') : 2 ≤ refs p cs := by
  have hi := getD_some_lt hc
  have h1 := refs_set (p := p) (x := some (c.set r ⟨0, none⟩)) hi
  rw [hc] at h1
  have h2 := rowRefs_set (p := p) (row' := ⟨0, none⟩) hr
  simp only [crefs, hd, if_true] at h1 h2
  have h3 : 0 < refs p (cs.set i (some (c.set r ⟨0, none⟩))) := by
    by_cases hij : j = i
    · subst hij
      rw [hc] at hcj; cases hcj
      have hrr : r ≠ r' := by rcases hne with h | h; exact absurd rfl h; exact h
      refine refs_pos_of_get (i := j) (r := r') (c := c.set r ⟨0, none⟩) (row := rowj) ?_ ?_ hdj
      · rw [getD_set]; simp [hi]
      · rw [List.getElem?_set]; simp [hrr, hrj]
    · refine refs_pos_of_get (i := j) (r := r') (c := cj) (row := rowj) ?_ hrj hdj
      rw [getD_set, if_neg (fun h => hij h.1)]; exact hcj
  simp at h2
  omega

/-! ## the invariant -/

/-- the data columns of the row at `p` are the same in `m` and `m'` -/
def Same (cfg : Cfg) (m m' : Mem) (p : Nat) : Prop :=
  (m'.cells.get p).length = (m.cells.get p).length ∧ ∀ col, col < cfg.rowSize → cell m' p col = cell m p col

theorem Same.rfl' {cfg : Cfg} {m m' : Mem} {p : Nat} (h : m'.cells.get p = m.cells.get p) : Same cfg m m' p :=
  ⟨by rw [h], fun col _ => by unfold cell; rw [h]⟩

/-- a row with `data_ = p`; `f` = the values of its columns, `ms` = its `master_` -/
structure DataInv (cfg : Cfg) (m : Mem) (cs : List (Option Cnt)) (ph : Phase) (f : Nat → Nat) (ms p : Nat) : Prop where
  lt : p < m.next
  len : (m.cells.get p).length = cfg.rowSize + 1
  cols : ∀ col, col < cfg.rowSize → 0 < f col → cell m p col = f col
  /-- running: the reference count cell is the number of sharers -/
  run : ph = .running → cell m p cfg.rowSize = refs p cs
  /-- filling: not shared, count 0 (one column so far) or 1 -/
  fill : ph = .filling → refs p cs = 1 ∧ ms ≠ 0 ∧
    (cell m p cfg.rowSize = 1 ∨ (cell m p cfg.rowSize = 0 ∧ AtMostOne f cfg.rowSize))
  notFresh : ph ≠ .fresh

structure RowInv (cfg : Cfg) (m : Mem) (cs : List (Option Cnt)) (ph : Phase) (f : Nat → Nat) (row : Row) : Prop where
  master : row.master = sumTo f cfg.rowSize
  noData : row.data = none → (ph = .filling → row.master = 0) ∧ AtMostOne f cfg.rowSize
  data : ∀ p, row.data = some p → DataInv cfg m cs ph f row.master p

structure CntInv (cfg : Cfg) (m : Mem) (cs : List (Option Cnt)) (c : Cnt) (a : A) : Prop where
  len : c.length = a.rows
  vlen : a.val.length = a.rows * cfg.rowSize
  fresh : a.phase = .fresh → a.rows = 0
  rows : ∀ r row, c[r]? = some row → RowInv cfg m cs a.phase (fun col => a.at (r * cfg.rowSize + col)) row

end P

open P in
/-- the representation invariant of a world of counters over one allocator, against the table of numbers `aw` -/
structure Inv (cfg : Cfg) (w : World) (aw : AWorld) : Prop where
  len : w.cnts.length = aw.length
  live : ∀ i, w.cnts.getD i none = none ↔ aw.getD i none = none
  cnt : ∀ i c a, w.cnts.getD i none = some c → aw.getD i none = some a → CntInv cfg w.mem w.cnts c a
  nodup : w.mem.free.Nodup
  free : ∀ p, p ∈ w.mem.free → p < w.mem.next ∧ refs p w.cnts = 0

namespace P

theorem DataInv.congr {cfg : Cfg} {m : Mem} {cs : List (Option Cnt)} {ph : Phase} {f g : Nat → Nat} {ms p : Nat}
    (h : DataInv cfg m cs ph f ms p) (he : ∀ col, col < cfg.rowSize → g col = f col) : DataInv cfg m cs ph g ms p where
  lt := h.lt
  len := h.len
  cols := fun col hc hp => by rw [he col hc] at hp ⊢; exact h.cols col hc hp
  run := h.run
  fill := fun hph => by
    obtain ⟨h1, h2, h3⟩ := h.fill hph
    refine ⟨h1, h2, ?_⟩
    rcases h3 with h3 | ⟨h3, h4⟩
    · exact Or.inl h3
    · exact Or.inr ⟨h3, h4.congr he⟩
  notFresh := h.notFresh

theorem RowInv.congr {cfg : Cfg} {m : Mem} {cs : List (Option Cnt)} {ph : Phase} {f g : Nat → Nat} {row : Row}
    (h : RowInv cfg m cs ph f row) (he : ∀ col, col < cfg.rowSize → g col = f col) : RowInv cfg m cs ph g row where
  master := by rw [h.master]; exact (sumTo_congr he).symm
  noData := fun hd => ⟨(h.noData hd).1, (h.noData hd).2.congr he⟩
  data := fun p hp => (h.data p hp).congr he

theorem DataInv.frame {cfg : Cfg} {m m' : Mem} {cs cs' : List (Option Cnt)} {ph : Phase} {f : Nat → Nat} {ms p : Nat}
    (h : DataInv cfg m cs ph f ms p) (hn : m.next ≤ m'.next) (hs : Same cfg m m' p)
    (hc : (cell m' p cfg.rowSize = cell m p cfg.rowSize ∧ refs p cs' = refs p cs) ∨
          (ph = .running ∧ cell m' p cfg.rowSize = refs p cs')) : DataInv cfg m' cs' ph f ms p where
  lt := Nat.lt_of_lt_of_le h.lt hn
  len := by rw [hs.1]; exact h.len
  cols := fun col hcol hp => by rw [hs.2 col hcol]; exact h.cols col hcol hp
  run := fun hph => by
    rcases hc with ⟨h1, h2⟩ | ⟨_, h2⟩
    · rw [h1, h2]; exact h.run hph
    · exact h2
  fill := fun hph => by
    rcases hc with ⟨h1, h2⟩ | ⟨h1, _⟩
    · rw [h1, h2]; exact h.fill hph
    · rw [hph] at h1; cases h1
  notFresh := h.notFresh

theorem RowInv.frame {cfg : Cfg} {m m' : Mem} {cs cs' : List (Option Cnt)} {ph : Phase} {f : Nat → Nat} {row : Row}
    (h : RowInv cfg m cs ph f row) (hn : m.next ≤ m'.next)
    (hp : ∀ p, row.data = some p → Same cfg m m' p ∧
      ((cell m' p cfg.rowSize = cell m p cfg.rowSize ∧ refs p cs' = refs p cs) ∨
       (ph = .running ∧ cell m' p cfg.rowSize = refs p cs'))) : RowInv cfg m' cs' ph f row where
  master := h.master
  noData := h.noData
  data := fun p hd => (h.data p hd).frame hn (hp p hd).1 (hp p hd).2

/-- every referenced address is a row of the allocator -/
theorem _root_.Vata.LU.SC.Inv.ref {cfg : Cfg} {w : World} {aw : AWorld} (h : Inv cfg w aw) {p : Nat} (hp : 0 < refs p w.cnts) :
    p < w.mem.next ∧ (w.mem.cells.get p).length = cfg.rowSize + 1 := by
  obtain ⟨i, c, hc, hr⟩ := refs_pos hp
  obtain ⟨row, hm, hd⟩ := rowRefs_pos_iff.mp hr
  obtain ⟨r, hr'⟩ := List.getElem?_of_mem hm
  cases ha : aw.getD i none with
  | none => rw [← h.live i, hc] at ha; cases ha
  | some a =>
    have := ((h.cnt i c a hc ha).rows r row hr').data p hd
    exact ⟨this.lt, this.len⟩

theorem _root_.Vata.LU.SC.Inv.free_not_ref {cfg : Cfg} {w : World} {aw : AWorld} (h : Inv cfg w aw) {p : Nat} (hp : 0 < refs p w.cnts) :
    p ∉ w.mem.free := fun hm => by have := (h.free p hm).2; omega


theorem refs_update {p : Nat} {cs : List (Option Cnt)} {i r : Nat} {c : Cnt} {row : Row} (row' : Row)
    (hc : cs.getD i none = some c) (hr : c[r]? = some row) :
    refs p (cs.set i (some (c.set r row'))) + (if row.data = some p then 1 else 0) =
      refs p cs + (if row'.data = some p then 1 else 0) := by
  have h1 := refs_set (p := p) (x := some (c.set r row')) (getD_some_lt hc)
  rw [hc] at h1
  have h2 := rowRefs_set (p := p) (row' := row') hr
  simp only [crefs] at h1
  omega

theorem refs_replace {p : Nat} {cs : List (Option Cnt)} {i : Nat} {c : Cnt} (x : Option Cnt)
    (hc : cs.getD i none = some c) : refs p (cs.set i x) + rowRefs p c = refs p cs + crefs p x := by
  have h1 := refs_set (p := p) (x := x) (getD_some_lt hc)
  rw [hc] at h1
  exact h1

/-- The generic step "row `r` of counter `i` becomes `row'`, the memory becomes `m'`". -/
theorem update_row {cfg : Cfg} {m m' : Mem} {cs : List (Option Cnt)} {aw : AWorld} {i r : Nat} {c : Cnt} {a a' : A}
    {row row' : Row}
    (hinv : Inv cfg ⟨m, cs⟩ aw) (hc : cs.getD i none = some c) (ha : aw.getD i none = some a) (hr : c[r]? = some row)
    (hrows : a'.rows = a.rows) (hph : a'.phase = a.phase) (hvl : a'.val.length = a.val.length)
    (hval : ∀ r' col, r' ≠ r → col < cfg.rowSize → a'.at (r' * cfg.rowSize + col) = a.at (r' * cfg.rowSize + col))
    (hn : m.next ≤ m'.next)
    (hA : ∀ p, row'.data = some p → refs p (cs.set i (some (c.set r row'))) = 1)
    (hB : ∀ p, row'.data ≠ some p → 0 < refs p cs → 0 < refs p (cs.set i (some (c.set r row'))) →
       Same cfg m m' p ∧
       cell m' p cfg.rowSize + refs p cs = cell m p cfg.rowSize + refs p (cs.set i (some (c.set r row'))))
    (hrow : RowInv cfg m' (cs.set i (some (c.set r row'))) a.phase (fun col => a'.at (r * cfg.rowSize + col)) row')
    (hnd : m'.free.Nodup)
    (hfree : ∀ p, p ∈ m'.free → p < m'.next ∧ refs p (cs.set i (some (c.set r row'))) = 0) :
    Inv cfg ⟨m', cs.set i (some (c.set r row'))⟩ (aw.set i (some a')) := by
  have hi : i < cs.length := getD_some_lt hc
  have hi' : i < aw.length := getD_some_lt ha
  have hrl : r < c.length := by
    apply Classical.byContradiction; intro hn'
    rw [List.getElem?_eq_none (by omega)] at hr; cases hr
  have hself : (cs.set i (some (c.set r row'))).getD i none = some (c.set r row') := by
    rw [getD_set, if_pos ⟨rfl, hi⟩]
  have hselfr : (c.set r row')[r]? = some row' := by
    rw [List.getElem?_set]; simp [hrl]
  -- the other rows
  have key : ∀ (j : Nat) (cj : Cnt) (r' : Nat) (rowj : Row) (ph : Phase) (g : Nat → Nat),
      cs.getD j none = some cj → cj[r']? = some rowj → (j ≠ i ∨ r' ≠ r) → RowInv cfg m cs ph g rowj →
      RowInv cfg m' (cs.set i (some (c.set r row'))) ph g rowj := by
    intro j cj r' rowj ph g hcj hrj hne h
    refine h.frame hn ?_
    intro p hd
    have hpos : 0 < refs p cs := refs_pos_of_get hcj hrj hd
    have hin' : ∃ cj', (cs.set i (some (c.set r row'))).getD j none = some cj' ∧ cj'[r']? = some rowj := by
      by_cases hji : j = i
      · subst hji
        rw [hc] at hcj; cases hcj
        have hrr : r' ≠ r := by rcases hne with h | h; exact absurd rfl h; exact h
        refine ⟨_, hself, ?_⟩
        rw [List.getElem?_set, if_neg (fun e => hrr e.symm)]; exact hrj
      · refine ⟨cj, ?_, hrj⟩
        rw [getD_set, if_neg (fun h => hji h.1)]; exact hcj
    obtain ⟨cj', hcj', hrj'⟩ := hin'
    have hpos' : 0 < refs p (cs.set i (some (c.set r row'))) := refs_pos_of_get hcj' hrj' hd
    have hne' : row'.data ≠ some p := by
      intro e
      have h1 := hA p e
      have h2 := refs_ge_two hself hselfr e hcj' hrj' hd
        (by rcases hne with h | h; exact Or.inl (fun e => h e.symm); exact Or.inr (fun e => h e.symm))
      omega
    obtain ⟨hs, he⟩ := hB p hne' hpos hpos'
    refine ⟨hs, ?_⟩
    have hform := refs_update (p := p) row' hc hr
    rw [if_neg hne'] at hform
    have hdi := h.data p hd
    cases ph with
    | fresh => exact absurd rfl hdi.notFresh
    | filling =>
      have := (hdi.fill rfl).1
      left
      by_cases hrd : row.data = some p
      · rw [if_pos hrd] at hform; omega
      · rw [if_neg hrd] at hform; omega
    | running =>
      right
      have := hdi.run rfl
      exact ⟨rfl, by omega⟩
  refine ⟨?_, ?_, ?_, hnd, hfree⟩
  · simp [hinv.len]
  · intro j
    show (cs.set i (some (c.set r row'))).getD j none = none ↔ _
    rw [getD_set, getD_set]
    by_cases hji : j = i
    · subst hji; simp [hi, hi']
    · rw [if_neg (fun h => hji h.1), if_neg (fun h => hji h.1)]; exact hinv.live j
  · intro j cj aj hcj haj
    change (cs.set i (some (c.set r row'))).getD j none = some cj at hcj
    rw [getD_set] at hcj haj
    show CntInv cfg m' (cs.set i (some (c.set r row'))) cj aj
    by_cases hji : j = i
    · subst hji
      rw [if_pos ⟨rfl, hi⟩] at hcj
      rw [if_pos ⟨rfl, hi'⟩] at haj
      cases hcj; cases haj
      have hold := hinv.cnt j c a hc ha
      refine ⟨?_, ?_, ?_, ?_⟩
      · rw [List.length_set, hrows]; exact hold.len
      · rw [hvl, hrows]; exact hold.vlen
      · rw [hph, hrows]; exact hold.fresh
      · intro r' rowj hrj
        rw [hph]
        by_cases hrr : r' = r
        · subst hrr
          rw [hselfr] at hrj; cases hrj
          exact hrow
        · rw [List.getElem?_set, if_neg (fun e => hrr e.symm)] at hrj
          have := key j c r' rowj a.phase _ hc hrj (Or.inr hrr) (hold.rows r' rowj hrj)
          exact this.congr (fun col hcol => hval r' col hrr hcol)
    · rw [if_neg (fun h => hji h.1)] at hcj haj
      have hold := hinv.cnt j cj aj hcj haj
      refine ⟨hold.len, hold.vlen, hold.fresh, ?_⟩
      intro r' rowj hrj
      exact key j cj r' rowj aj.phase _ hcj hrj (Or.inl hji) (hold.rows r' rowj hrj)


/-- The generic step "counter `i` is replaced as a whole (or destroyed), the memory becomes `m'`". -/
theorem replace_cnt {cfg : Cfg} {m m' : Mem} {cs : List (Option Cnt)} {aw : AWorld} {i : Nat} {c : Cnt}
    {x : Option Cnt} {y : Option A}
    (hinv : Inv cfg ⟨m, cs⟩ aw) (hc : cs.getD i none = some c) (hxy : x = none ↔ y = none) (hn : m.next ≤ m'.next)
    (hB : ∀ (j : Nat) (cj : Cnt) (aj : A) (r' : Nat) (rowj : Row) (p : Nat), j ≠ i → cs.getD j none = some cj →
       aw.getD j none = some aj → cj[r']? = some rowj →
       rowj.data = some p →
       Same cfg m m' p ∧ cell m' p cfg.rowSize + refs p cs = cell m p cfg.rowSize + refs p (cs.set i x) ∧
       (aj.phase = .filling → refs p (cs.set i x) = refs p cs))
    (hnew : ∀ c' a', x = some c' → y = some a' → CntInv cfg m' (cs.set i x) c' a')
    (hnd : m'.free.Nodup) (hfree : ∀ p, p ∈ m'.free → p < m'.next ∧ refs p (cs.set i x) = 0) :
    Inv cfg ⟨m', cs.set i x⟩ (aw.set i y) := by
  have hi : i < cs.length := getD_some_lt hc
  have hi' : i < aw.length := by rw [← hinv.len]; exact hi
  refine ⟨?_, ?_, ?_, hnd, hfree⟩
  · simp [hinv.len]
  · intro j
    show (cs.set i x).getD j none = none ↔ _
    rw [getD_set, getD_set]
    by_cases hji : j = i
    · subst hji; rw [if_pos ⟨rfl, hi⟩, if_pos ⟨rfl, hi'⟩]; exact hxy
    · rw [if_neg (fun h => hji h.1), if_neg (fun h => hji h.1)]; exact hinv.live j
  · intro j cj aj hcj haj
    change (cs.set i x).getD j none = some cj at hcj
    rw [getD_set] at hcj haj
    show CntInv cfg m' (cs.set i x) cj aj
    by_cases hji : j = i
    · subst hji
      rw [if_pos ⟨rfl, hi⟩] at hcj
      rw [if_pos ⟨rfl, hi'⟩] at haj
      exact hnew cj aj hcj haj
    · rw [if_neg (fun h => hji h.1)] at hcj haj
      have hold : CntInv cfg m cs cj aj := hinv.cnt j cj aj hcj haj
      refine ⟨hold.len, hold.vlen, hold.fresh, ?_⟩
      intro r' rowj hrj
      refine (hold.rows r' rowj hrj).frame hn ?_
      intro p hd
      obtain ⟨hs, he, hf⟩ := hB j cj aj r' rowj p hji hcj haj hrj hd
      refine ⟨hs, ?_⟩
      have hdi := (hold.rows r' rowj hrj).data p hd
      cases hph : aj.phase with
      | fresh => exact absurd hph hdi.notFresh
      | filling => left; have := hf hph; exact ⟨by omega, this⟩
      | running => right; have := hdi.run hph; exact ⟨rfl, by omega⟩

theorem getD_append_one {α : Type} (l : List α) (x d : α) (j : Nat) :
    (l ++ [x]).getD j d = if j < l.length then l.getD j d else if j = l.length then x else d := by
  simp only [List.getD_eq_getElem?_getD, List.getElem?_append]
  by_cases h : j < l.length
  · simp [h]
  · by_cases h2 : j = l.length
    · subst h2; simp
    · have : j - l.length ≠ 0 := by omega
      have h3 : ([x] : List α)[j - l.length]? = none := List.getElem?_eq_none (by simp; omega)
      simp [h, h2, h3]

/-- `new` / the copy constructor: a counter without rows is appended -/
theorem append_cnt {cfg : Cfg} {w : World} {aw : AWorld} (hinv : Inv cfg w aw) :
    Inv cfg { w with cnts := w.cnts ++ [some []] } (aw ++ [some ⟨0, [], .fresh⟩]) := by
  have hrefs : ∀ p, refs p (w.cnts ++ [some []]) = refs p w.cnts := fun p => by
    rw [refs_append]; simp [crefs, rowRefs]
  refine ⟨?_, ?_, ?_, hinv.nodup, ?_⟩
  · simp [hinv.len]
  · intro j
    show (w.cnts ++ [some []]).getD j none = none ↔ _
    rw [getD_append_one, getD_append_one, hinv.len]
    by_cases h : j < aw.length
    · simp only [h, if_true]; exact hinv.live j
    · by_cases h2 : j = aw.length
      · simp [h2]
      · simp [h, h2]
  · intro j cj aj hcj haj
    change (w.cnts ++ [some []]).getD j none = some cj at hcj
    show CntInv cfg w.mem (w.cnts ++ [some []]) cj aj
    rw [getD_append_one] at hcj haj
    rw [hinv.len] at hcj
    by_cases h : j < aw.length
    · rw [if_pos h] at hcj haj
      have hold := hinv.cnt j cj aj hcj haj
      refine ⟨hold.len, hold.vlen, hold.fresh, ?_⟩
      intro r' rowj hrj
      refine (hold.rows r' rowj hrj).frame (Nat.le_refl _) ?_
      intro p _
      exact ⟨Same.rfl' rfl, Or.inl ⟨rfl, hrefs p⟩⟩
    · rw [if_neg h] at hcj haj
      by_cases h2 : j = aw.length
      · rw [if_pos h2] at hcj haj
        cases hcj; cases haj
        refine ⟨rfl, by simp, fun _ => rfl, ?_⟩
        intro r row hr; simp at hr
      · rw [if_neg h2] at hcj; cases hcj
  · intro p hp
    show p < w.mem.next ∧ refs p (w.cnts ++ [some []]) = 0
    rw [hrefs]; exact hinv.free p hp


theorem _root_.Vata.LU.SC.Inv.live_some {cfg : Cfg} {w : World} {aw : AWorld} (h : Inv cfg w aw) {i : Nat} {a : A}
    (ha : aw.getD i none = some a) : ∃ c, w.cnts.getD i none = some c := by
  cases hc : w.cnts.getD i none with
  | none => rw [h.live i, ha] at hc; cases hc
  | some c => exact ⟨c, rfl⟩

theorem _root_.Vata.LU.SC.Inv.live_some' {cfg : Cfg} {w : World} {aw : AWorld} (h : Inv cfg w aw) {i : Nat} {c : Cnt}
    (hc : w.cnts.getD i none = some c) : ∃ a, aw.getD i none = some a := by
  cases ha : aw.getD i none with
  | none => rw [← h.live i, hc] at ha; cases ha
  | some a => exact ⟨a, rfl⟩

theorem at_replicate_zero (rows n : Nat) (ph : Phase) (idx : Nat) : (A.mk rows (List.replicate n 0) ph).at idx = 0 := by
  simp only [A.at, List.getD_eq_getElem?_getD, List.getElem?_replicate]
  split <;> rfl

/-- a default row whose columns are all 0 -/
theorem rowInv_default {cfg : Cfg} {m : Mem} {cs : List (Option Cnt)} {ph : Phase} {f : Nat → Nat}
    (hf : ∀ col, col < cfg.rowSize → f col = 0) : RowInv cfg m cs ph f ⟨0, none⟩ where
  master := (sumTo_zero hf).symm
  noData := fun _ => ⟨fun _ => rfl, fun i j hi _ hfi _ => by have := hf i hi; omega⟩
  data := fun p hp => by cases hp

theorem resize_inv {cfg : Cfg} {m : Mem} {cs : List (Option Cnt)} {aw : AWorld} {i n : Nat} {c : Cnt} {a : A}
    (hinv : Inv cfg ⟨m, cs⟩ aw) (hc : cs.getD i none = some c) (ha : aw.getD i none = some a) (hph : a.phase = .fresh) :
    Inv cfg ⟨m, cs.set i (some (resize c n))⟩
      (aw.set i (some ⟨n, List.replicate (n * cfg.rowSize) 0, .filling⟩)) := by
  have hold : CntInv cfg m cs c a := hinv.cnt i c a hc ha
  have hc0 : c = [] := List.eq_nil_of_length_eq_zero (by rw [hold.len]; exact hold.fresh hph)
  subst hc0
  have hrs : resize [] n = List.replicate n ⟨0, none⟩ := by simp [resize]
  rw [hrs]
  have hrefs : ∀ p, refs p (cs.set i (some (List.replicate n ⟨0, none⟩))) = refs p cs := fun p => by
    have := refs_replace (p := p) (some (List.replicate n ⟨0, none⟩)) hc
    simp only [crefs, rowRefs_replicate_none, rowRefs] at this
    omega
  refine replace_cnt hinv hc (by simp) (Nat.le_refl _) ?_ ?_ hinv.nodup ?_
  · intro j cj aj r' rowj p _ _ _ _ _
    exact ⟨Same.rfl' rfl, by rw [hrefs], fun _ => hrefs p⟩
  · intro c' a' hc' ha'
    cases hc'; cases ha'
    refine ⟨by simp, by simp, (fun h => by cases h), ?_⟩
    intro r row hr
    rw [List.getElem?_replicate] at hr
    split at hr
    · cases hr
      exact rowInv_default (fun col _ => at_replicate_zero _ _ _ _)
    · cases hr
  · intro p hp
    rw [hrefs]; exact hinv.free p hp


/-! ## `alloc`, key indices, value updates -/

theorem alloc_spec {cfg : Cfg} {m : Mem} {cs : List (Option Cnt)} (hnd : m.free.Nodup)
    (hfree : ∀ p, p ∈ m.free → p < m.next ∧ refs p cs = 0) (href : ∀ p, 0 < refs p cs → p < m.next) :
    refs (alloc cfg m).1 cs = 0 ∧ (alloc cfg m).1 < (alloc cfg m).2.next ∧ m.next ≤ (alloc cfg m).2.next ∧
    (alloc cfg m).2.cells = m.cells.set (alloc cfg m).1 (poisonRow cfg) ∧ (alloc cfg m).2.free.Nodup ∧
    ∀ p, p ∈ (alloc cfg m).2.free → p ∈ m.free ∧ p ≠ (alloc cfg m).1 := by
  unfold alloc
  cases hf : m.free with
  | nil =>
    simp only
    refine ⟨?_, by omega, by omega, trivial, List.nodup_nil, ?_⟩
    · apply Classical.byContradiction; intro h
      have := href m.next (by omega); omega
    · intro p hp; cases hp
  | cons q f =>
    simp only
    rw [hf] at hnd hfree
    have hq := hfree q (List.mem_cons_self ..)
    rw [List.nodup_cons] at hnd
    refine ⟨hq.2, hq.1, Nat.le_refl _, trivial, hnd.2, ?_⟩
    intro p hp
    exact ⟨List.mem_cons_of_mem _ hp, fun e => hnd.1 (e ▸ hp)⟩

theorem locate_of_keyIdx {cfg : Cfg} {l q idx : Nat} (h : keyIdx cfg l q = some idx) :
    locate cfg l q = some (idx / cfg.rowSize, idx % cfg.rowSize) ∧ 0 < cfg.rowSize := by
  unfold keyIdx at h
  unfold locate
  split at h
  · rename_i hc
    cases h
    rw [if_pos hc]
    exact ⟨rfl, hc.2⟩
  · cases h

theorem at_set (a : A) (idx v k : Nat) (h : idx < a.val.length) :
    ({ a with val := a.val.set idx v } : A).at k = if k = idx then v else a.at k := by
  simp only [A.at]
  rw [getD_set]
  by_cases hk : k = idx
  · simp [hk, h]
  · simp [hk]

theorem at_set_other {cfg : Cfg} (a : A) (idx v : Nat) (h : idx < a.val.length) (r' col : Nat)
    (hr : r' ≠ idx / cfg.rowSize) (hcol : col < cfg.rowSize) :
    ({ a with val := a.val.set idx v } : A).at (r' * cfg.rowSize + col) = a.at (r' * cfg.rowSize + col) := by
  rw [at_set a idx v _ h, if_neg]
  intro e
  have : idx % cfg.rowSize < cfg.rowSize := Nat.mod_lt _ (by omega)
  rw [← idx_split (n := cfg.rowSize) (idx := idx)] at e
  exact hr (idx_inj hcol this e).1

theorem at_set_row {cfg : Cfg} (a : A) (idx v : Nat) (h : idx < a.val.length) (col : Nat) (hcol : col < cfg.rowSize) :
    ({ a with val := a.val.set idx v } : A).at (idx / cfg.rowSize * cfg.rowSize + col) =
      if col = idx % cfg.rowSize then v else a.at (idx / cfg.rowSize * cfg.rowSize + col) := by
  rw [at_set a idx v _ h]
  have hm : idx % cfg.rowSize < cfg.rowSize := Nat.mod_lt _ (by omega)
  by_cases hc : col = idx % cfg.rowSize
  · rw [if_pos hc, if_pos]; rw [hc]; exact idx_split
  · rw [if_neg hc, if_neg]
    intro e
    have e' : idx / cfg.rowSize * cfg.rowSize + col = idx / cfg.rowSize * cfg.rowSize + idx % cfg.rowSize := by
      rw [e]; exact idx_split.symm
    exact hc (idx_inj hcol hm e').2


/-! ## `set` -/

/-- `set` into a row that already has data -/
theorem set_old {cfg : Cfg} {m : Mem} {cs : List (Option Cnt)} {aw : AWorld} {i idx n p : Nat} {c : Cnt} {a : A}
    {row : Row} (hinv : Inv cfg ⟨m, cs⟩ aw) (hc : cs.getD i none = some c) (ha : aw.getD i none = some a)
    (hrs : 0 < cfg.rowSize) (hph : a.phase = .filling) (hn : 0 < n) (hidx : idx < a.rows * cfg.rowSize)
    (hz : a.at idx = 0) (hr : c[idx / cfg.rowSize]? = some row) (hd : row.data = some p) :
    Inv cfg ⟨setCell (setCell m p (idx % cfg.rowSize) n) p cfg.rowSize 1,
        cs.set i (some (c.set (idx / cfg.rowSize) ⟨row.master + n, some p⟩))⟩
      (aw.set i (some { a with val := a.val.set idx n })) := by
  have hold : CntInv cfg m cs c a := hinv.cnt i c a hc ha
  have hrow := hold.rows _ row hr
  have hdi := hrow.data p hd
  have hvl : idx < a.val.length := by rw [hold.vlen]; exact hidx
  have hcol : idx % cfg.rowSize < cfg.rowSize := Nat.mod_lt _ hrs
  have hsame : ∀ p', refs p' (cs.set i (some (c.set (idx / cfg.rowSize) ⟨row.master + n, some p⟩))) = refs p' cs := by
    intro p'
    have := refs_update (p := p') ⟨row.master + n, some p⟩ hc hr
    simp only [hd] at this
    omega
  have hfill := hdi.fill hph
  refine update_row hinv hc ha hr rfl rfl (by simp) (fun r' col hr' hcol' => at_set_other a idx n hvl r' col hr' hcol')
    (Nat.le_refl _) ?_ ?_ ?_ hinv.nodup ?_
  · intro p' hp'
    cases hp'
    rw [hsame]; exact hfill.1
  · intro p' hp' _ _
    have hne : p' ≠ p := fun e => hp' (by rw [e])
    have hg : (setCell (setCell m p (idx % cfg.rowSize) n) p cfg.rowSize 1).cells.get p' = m.cells.get p' := by
      rw [setCell_get_ne _ _ _ _ hne, setCell_get_ne _ _ _ _ hne]
    refine ⟨Same.rfl' hg, ?_⟩
    rw [hsame]; unfold cell; rw [hg]
  · refine ⟨?_, (fun h => by cases h), ?_⟩
    · show row.master + n = _
      have := sumTo_update (f := fun col => a.at (idx / cfg.rowSize * cfg.rowSize + col))
        (g := fun col => ({ a with val := a.val.set idx n } : A).at (idx / cfg.rowSize * cfg.rowSize + col))
        (j := idx % cfg.rowSize) hcol (fun col hc' hne => by rw [at_set_row a idx n hvl col hc', if_neg hne])
      rw [at_set_row a idx n hvl _ hcol, if_pos rfl, idx_split, hz] at this
      rw [hrow.master]; omega
    · intro p' hp'
      cases hp'
      refine ⟨hdi.lt, by simp [hdi.len], ?_, (fun h => by rw [hph] at h; cases h), fun _ => ⟨?_, ?_, Or.inl ?_⟩,
        (fun h => by rw [hph] at h; cases h)⟩
      · intro col hc' hpos
        rw [at_set_row a idx n hvl col hc'] at hpos ⊢
        rw [cell_setCell_ne_col _ _ _ _ _ (by omega)]
        by_cases hcc : col = idx % cfg.rowSize
        · rw [if_pos hcc, hcc]
          exact cell_setCell_same (by rw [hdi.len]; omega)
        · rw [if_neg hcc] at hpos ⊢
          rw [cell_setCell_ne_col _ _ _ _ _ hcc]
          exact hdi.cols col hc' hpos
      · rw [hsame]; exact hfill.1
      · show row.master + n ≠ 0
        omega
      · exact cell_setCell_same (by simp [hdi.len])
  · intro p' hp'
    rw [hsame]; exact hinv.free p' hp'


theorem poisonRow_len (cfg : Cfg) : (poisonRow cfg).length = cfg.rowSize + 1 := by simp [poisonRow]

/-- `set` into a row without data: a row is allocated, reference count 0 -/
theorem set_new {cfg : Cfg} {m : Mem} {cs : List (Option Cnt)} {aw : AWorld} {i idx n : Nat} {c : Cnt} {a : A}
    {row : Row} (hinv : Inv cfg ⟨m, cs⟩ aw) (hc : cs.getD i none = some c) (ha : aw.getD i none = some a)
    (hrs : 0 < cfg.rowSize) (hph : a.phase = .filling) (hn : 0 < n) (hidx : idx < a.rows * cfg.rowSize)
    (hr : c[idx / cfg.rowSize]? = some row) (hm : row.master = 0) :
    Inv cfg ⟨setCell (setCell (alloc cfg m).2 (alloc cfg m).1 cfg.rowSize 0) (alloc cfg m).1 (idx % cfg.rowSize) n,
        cs.set i (some (c.set (idx / cfg.rowSize) ⟨n, some (alloc cfg m).1⟩))⟩
      (aw.set i (some { a with val := a.val.set idx n })) := by
  have hold : CntInv cfg m cs c a := hinv.cnt i c a hc ha
  have hrow := hold.rows _ row hr
  have hvl : idx < a.val.length := by rw [hold.vlen]; exact hidx
  have hcol : idx % cfg.rowSize < cfg.rowSize := Nat.mod_lt _ hrs
  have hd : row.data = none := by
    cases hd : row.data with
    | none => rfl
    | some p => exact absurd hm ((hrow.data p hd).fill hph).2.1
  obtain ⟨hq0, hqlt, hnext, hcells, hnd, hfr⟩ := alloc_spec (cfg := cfg) hinv.nodup hinv.free (fun p hp => (hinv.ref hp).1)
  generalize (alloc cfg m).1 = q at *
  generalize (alloc cfg m).2 = m1 at *
  have hrefs : ∀ p', refs p' (cs.set i (some (c.set (idx / cfg.rowSize) ⟨n, some q⟩))) =
      refs p' cs + (if q = p' then 1 else 0) := by
    intro p'
    have := refs_update (p := p') ⟨n, some q⟩ hc hr
    simp only [hd, Option.some.injEq] at this
    simpa using this
  have hz : ∀ col, col < cfg.rowSize → a.at (idx / cfg.rowSize * cfg.rowSize + col) = 0 :=
    sumTo_eq_zero (by rw [← hrow.master]; exact hm)
  have hlen : (m1.cells.get q).length = cfg.rowSize + 1 := by
    rw [hcells, Heap.get_set_same]; exact poisonRow_len cfg
  refine update_row hinv hc ha hr rfl rfl (by simp) (fun r' col hr' hcol' => at_set_other a idx n hvl r' col hr' hcol')
    hnext ?_ ?_ ?_ hnd ?_
  · intro p' hp'
    cases hp'
    rw [hrefs, hq0]; simp
  · intro p' hp' hpos _
    have hne : p' ≠ q := fun e => hp' (by rw [e])
    have hg : (setCell (setCell m1 q cfg.rowSize 0) q (idx % cfg.rowSize) n).cells.get p' = m.cells.get p' := by
      rw [setCell_get_ne _ _ _ _ hne, setCell_get_ne _ _ _ _ hne, hcells, Heap.get_set_ne _ _ hne]
    refine ⟨Same.rfl' hg, ?_⟩
    rw [hrefs, if_neg (fun e => hne e.symm)]; unfold cell; rw [hg]; rfl
  · refine ⟨?_, (fun h => by cases h), ?_⟩
    · show n = _
      have := sumTo_update (f := fun col => a.at (idx / cfg.rowSize * cfg.rowSize + col))
        (g := fun col => ({ a with val := a.val.set idx n } : A).at (idx / cfg.rowSize * cfg.rowSize + col))
        (j := idx % cfg.rowSize) hcol (fun col hc' hne => by rw [at_set_row a idx n hvl col hc', if_neg hne])
      rw [at_set_row a idx n hvl _ hcol, if_pos rfl, hz _ hcol, ← hrow.master, hm] at this
      omega
    · intro p' hp'
      cases hp'
      have hother : ∀ col, col < cfg.rowSize → col ≠ idx % cfg.rowSize →
          ({ a with val := a.val.set idx n } : A).at (idx / cfg.rowSize * cfg.rowSize + col) = 0 := by
        intro col hc' hne
        rw [at_set_row a idx n hvl col hc', if_neg hne]; exact hz col hc'
      refine ⟨hqlt, by simp [hlen], ?_, (fun h => by rw [hph] at h; cases h), fun _ => ⟨?_, ?_, Or.inr ⟨?_, ?_⟩⟩,
        (fun h => by rw [hph] at h; cases h)⟩
      · intro col hc' hpos
        by_cases hcc : col = idx % cfg.rowSize
        · rw [at_set_row a idx n hvl col hc', if_pos hcc, hcc]
          exact cell_setCell_same (by simp [hlen]; omega)
        · rw [hother col hc' hcc] at hpos; omega
      · rw [hrefs, hq0]; simp
      · show n ≠ 0
        omega
      · rw [cell_setCell_ne_col _ _ _ _ _ (by omega)]
        exact cell_setCell_same (by rw [hlen]; omega)
      · exact atMostOne_of_zero hother
  · intro p' hp'
    have := hfr p' hp'
    have h2 := hinv.free p' this.1
    refine ⟨Nat.lt_of_lt_of_le h2.1 hnext, ?_⟩
    rw [hrefs, if_neg (fun e => this.2 e.symm)]; exact h2.2

/-- `set(label, state, count)` inside the discipline -/
theorem set_inv {cfg : Cfg} {m : Mem} {cs : List (Option Cnt)} {aw : AWorld} {i l q idx n : Nat} {c : Cnt} {a : A}
    (hinv : Inv cfg ⟨m, cs⟩ aw) (hc : cs.getD i none = some c) (ha : aw.getD i none = some a)
    (hk : keyIdx cfg l q = some idx) (hph : a.phase = .filling) (hn : 0 < n) (hidx : idx < a.rows * cfg.rowSize)
    (hz : a.at idx = 0) :
    ∃ mc, set cfg m c l q n = some mc ∧
      Inv cfg ⟨mc.1, cs.set i (some mc.2)⟩ (aw.set i (some { a with val := a.val.set idx n })) := by
  obtain ⟨hloc, hrs⟩ := locate_of_keyIdx hk
  have hold : CntInv cfg m cs c a := hinv.cnt i c a hc ha
  have hrl : idx / cfg.rowSize < c.length := by rw [hold.len]; exact div_lt_rows hidx
  have hr : c[idx / cfg.rowSize]? = some c[idx / cfg.rowSize] := List.getElem?_eq_getElem hrl
  generalize c[idx / cfg.rowSize] = row at hr
  unfold set
  simp only [hloc, hr, if_neg (show ¬ n = 0 by omega)]
  by_cases hm : row.master = 0
  · simp only [hm, ne_eq, not_true_eq_false, if_false]
    exact ⟨_, rfl, set_new hinv hc ha hrs hph hn hidx hr hm⟩
  · simp only [ne_eq, hm, not_false_eq_true, if_true]
    have hrow := hold.rows _ row hr
    cases hd : row.data with
    | none => exact absurd ((hrow.noData hd).1 hph) hm
    | some p => exact ⟨_, rfl, set_old hinv hc ha hrs hph hn hidx hz hr hd⟩


/-! ## `decr` -/

theorem copied_len (l l' : List Nat) (n v : Nat) (h : l.length = n + 1) (h' : l'.length = n + 1) :
    ((l.set n v).take n ++ l'.drop n).length = n + 1 := by
  simp [h, h']

theorem copied_getD (l l' : List Nat) (n v j : Nat) (h : l.length = n + 1) (hj : j < n) :
    ((l.set n v).take n ++ l'.drop n).getD j 0 = l.getD j 0 := by
  simp only [List.getD_eq_getElem?_getD]
  rw [List.getElem?_append_left (by simp [h]; omega), List.getElem?_take, if_pos hj, List.getElem?_set_ne (by omega)]

/-- the copy-on-write branch of `decr`: new memory, address of the copy, returned value -/
def cow (cfg : Cfg) (m : Mem) (p col : Nat) : Mem × Nat × Nat :=
  let rc := cell m p cfg.rowSize
  let m1 := setCell m p cfg.rowSize (rc - 1)
  let qm := alloc cfg m1
  let copied := (qm.2.cells.get p).take cfg.rowSize ++ (qm.2.cells.get qm.1).drop cfg.rowSize
  let m2 : Mem := { qm.2 with cells := qm.2.cells.set qm.1 copied }
  let m3 := setCell m2 qm.1 cfg.rowSize 1
  (setCell m3 qm.1 col (dec64 (cell m3 qm.1 col)), qm.1, dec64 (cell m3 qm.1 col))

structure CowSpec (cfg : Cfg) (m : Mem) (cs : List (Option Cnt)) (p col : Nat) (m' : Mem) (q out : Nat) : Prop where
  fresh : refs q cs = 0
  ne : q ≠ p
  lt : q < m'.next
  next : m.next ≤ m'.next
  other : ∀ x, x ≠ p → x ≠ q → m'.cells.get x = m.cells.get x
  same : Same cfg m m' p
  cnt : cell m' p cfg.rowSize = cell m p cfg.rowSize - 1
  len : (m'.cells.get q).length = cfg.rowSize + 1
  one : cell m' q cfg.rowSize = 1
  atCol : cell m' q col = cell m p col - 1
  atOther : ∀ col', col' < cfg.rowSize → col' ≠ col → cell m' q col' = cell m p col'
  out : out = cell m p col - 1
  nodup : m'.free.Nodup
  free : ∀ x, x ∈ m'.free → x ∈ m.free ∧ x ≠ q

theorem dec64_pos {x : Nat} (h : 0 < x) : dec64 x = x - 1 := by
  unfold dec64; rw [if_neg (by omega)]

theorem cow_spec {cfg : Cfg} {m : Mem} {cs : List (Option Cnt)} {p col : Nat} (hnd : m.free.Nodup)
    (hfree : ∀ x, x ∈ m.free → x < m.next ∧ refs x cs = 0) (href : ∀ x, 0 < refs x cs → x < m.next)
    (hp : 0 < refs p cs) (hlen : (m.cells.get p).length = cfg.rowSize + 1) (hcol : col < cfg.rowSize)
    (hv : 0 < cell m p col) :
    CowSpec cfg m cs p col (cow cfg m p col).1 (cow cfg m p col).2.1 (cow cfg m p col).2.2 := by
  obtain ⟨hq0, hqlt, hnext, hcells, hnd', hfr⟩ :=
    alloc_spec (cfg := cfg) (m := setCell m p cfg.rowSize (cell m p cfg.rowSize - 1)) (cs := cs) hnd hfree href
  unfold cow
  simp only
  generalize hm1 : setCell m p cfg.rowSize (cell m p cfg.rowSize - 1) = m1 at *
  generalize (alloc cfg m1).1 = q at *
  generalize (alloc cfg m1).2 = m1' at *
  have hne : q ≠ p := fun e => by rw [e] at hq0; omega
  have hgp : m1'.cells.get p = (m.cells.get p).set cfg.rowSize (cell m p cfg.rowSize - 1) := by
    rw [hcells, Heap.get_set_ne _ _ (fun e => hne e.symm), ← hm1, setCell_get, if_pos rfl]
  have hgq : m1'.cells.get q = poisonRow cfg := by rw [hcells, Heap.get_set_same]
  rw [hgp, hgq]
  generalize hcp : ((m.cells.get p).set cfg.rowSize (cell m p cfg.rowSize - 1)).take cfg.rowSize ++
    (poisonRow cfg).drop cfg.rowSize = copied
  have hcl : copied.length = cfg.rowSize + 1 := by rw [← hcp]; exact copied_len _ _ _ _ hlen (poisonRow_len cfg)
  generalize hm2 : ({ cells := m1'.cells.set q copied, free := m1'.free, next := m1'.next } : Mem) = m2
  have hg2 : m2.cells.get q = copied := by rw [← hm2]; exact Heap.get_set_same ..
  have hc3 : ∀ col', col' < cfg.rowSize → cell (setCell m2 q cfg.rowSize 1) q col' = cell m p col' := by
    intro col' hc'
    rw [cell_setCell_ne_col _ _ _ _ _ (by omega)]
    unfold cell
    rw [hg2, ← hcp]
    exact copied_getD _ _ _ _ _ hlen hc'
  have hl3 : ((setCell m2 q cfg.rowSize 1).cells.get q).length = cfg.rowSize + 1 := by
    rw [setCell_len, hg2]; exact hcl
  rw [hc3 col hcol, dec64_pos hv]
  have hnx : m2.next = m1'.next := by rw [← hm2]
  have hfr2 : m2.free = m1'.free := by rw [← hm2]
  have hoth : ∀ x, x ≠ q → (setCell (setCell m2 q cfg.rowSize 1) q col (cell m p col - 1)).cells.get x =
      m1.cells.get x := by
    intro x hx
    rw [setCell_get_ne _ _ _ _ hx, setCell_get_ne _ _ _ _ hx, ← hm2]
    show (m1'.cells.set q copied).get x = _
    rw [Heap.get_set_ne _ _ hx, hcells, Heap.get_set_ne _ _ hx]
  refine ⟨hq0, hne, ?_, ?_, ?_, ?_, ?_, ?_, ?_, ?_, ?_, rfl, ?_, ?_⟩
  · show m2.next > q; rw [hnx]; exact hqlt
  · show m.next ≤ m2.next; rw [hnx, ← hm1] at *; exact hnext
  · intro x hxp hxq
    rw [hoth x hxq, ← hm1, setCell_get_ne _ _ _ _ hxp]
  · constructor
    · rw [hoth p (fun e => hne e.symm), ← hm1, setCell_len]
    · intro col' hc'
      rw [cell_of_get (hoth p (fun e => hne e.symm)), ← hm1]
      exact cell_setCell_ne_col _ _ _ _ _ (by omega)
  · rw [cell_of_get (hoth p (fun e => hne e.symm)), ← hm1]
    exact cell_setCell_same (by rw [hlen]; omega)
  · rw [setCell_len]; exact hl3
  · rw [cell_setCell_ne_col _ _ _ _ _ (by omega)]
    exact cell_setCell_same (by rw [hg2, hcl]; omega)
  · exact cell_setCell_same (by rw [hl3]; omega)
  · intro col' hc' hne'
    rw [cell_setCell_ne_col _ _ _ _ _ hne']; exact hc3 col' hc'
  · show m2.free.Nodup; rw [hfr2]; exact hnd'
  · intro x hx
    have hx' : x ∈ m1'.free := by rw [← hfr2]; exact hx
    have := hfr x hx'
    rw [← hm1] at this
    exact this

end P
end Vata.LU.SC
