import Vata.Proofs.BddTrimCoded
/-!
# The construction of the AND/OR graph of the top-down `RemoveUselessStates` as coded meets `Spec` (property C08)

The construction is decomposed into six primitive updates (`newOr`, `edgeOA`, `edgeAO`, `newAnd`, `addTerm`, the pop of the
work-list); each keeps the invariant `SInv` and only EXTENDS the state (`Ext`).  `buildLoop_spec`: every result of the loop
meets `Spec`.
-/
namespace Vata
namespace BddTrimCoded
open M BddAbs BddAbsTD

theorem mem_addEdge_ing {G : Graph} {src dst x m : Nat} :
    m ∈ (G.addEdge src dst).ing x ↔ m ∈ G.ing x ∨ (x = dst ∧ m = src) := by
  simp only [Graph.addEdge]
  split
  · rename_i h; subst h; rw [mem_ins]; constructor
    · rintro (h | h); exact Or.inl h; exact Or.inr ⟨rfl, h⟩
    · rintro (h | ⟨_, h⟩); exact Or.inl h; exact Or.inr h
  · rename_i h; constructor
    · exact Or.inl
    · rintro (h' | ⟨h', _⟩); exact h'; exact absurd h' h

theorem mem_addEdge_egr {G : Graph} {src dst x m : Nat} :
    m ∈ (G.addEdge src dst).egr x ↔ m ∈ G.egr x ∨ (x = src ∧ m = dst) := by
  simp only [Graph.addEdge]
  split
  · rename_i h; subst h; rw [mem_ins]; constructor
    · rintro (h | h); exact Or.inl h; exact Or.inr ⟨rfl, h⟩
    · rintro (h | ⟨_, h⟩); exact Or.inl h; exact Or.inr h
  · rename_i h; constructor
    · exact Or.inl
    · rintro (h' | ⟨h', _⟩); exact h'; exact absurd h' h

/-- the state is only extended -/
structure Ext (B B' : Build) : Prop where
  orS : ∀ e, e ∈ B.orN → e ∈ B'.orN
  andS : ∀ e, e ∈ B.andN → e ∈ B'.andN
  termS : ∀ n, n ∈ B.term → n ∈ B'.term
  egrS : ∀ x m, m ∈ B.G.egr x → m ∈ B'.G.egr x
  ingS : ∀ x m, m ∈ B.G.ing x → m ∈ B'.G.ing x

theorem Ext.refl (B : Build) : Ext B B := ⟨fun _ h => h, fun _ h => h, fun _ h => h, fun _ _ h => h, fun _ _ h => h⟩
theorem Ext.trans {B B' B'' : Build} (h : Ext B B') (h' : Ext B' B'') : Ext B B'' :=
  ⟨fun e he => h'.orS e (h.orS e he), fun e he => h'.andS e (h.andS e he), fun e he => h'.termS e (h.termS e he),
   fun x m he => h'.egrS x m (h.egrS x m he), fun x m he => h'.ingS x m (h.ingS x m he)⟩

/-- the tuple `t` of the state with node `n` has been entered into the graph -/
def Done (B : Build) (n : Nat) (t : List Nat) : Prop :=
  (t = [] → n ∈ B.term) ∧ (t ≠ [] → ∃ a, (a, t) ∈ B.andN ∧ n ∈ B.G.egr a)

theorem Done.mono {B B' : Build} (h : Ext B B') {n : Nat} {t : List Nat} (hd : Done B n t) : Done B' n t :=
  ⟨fun e => h.termS n (hd.1 e), fun e => by
    obtain ⟨a, h1, h2⟩ := hd.2 e
    exact ⟨a, h.andS _ h1, h.egrS _ _ h2⟩⟩

/-- every state of the tuple of an AND node has its OR node among the inputs of the AND node -/
def FullAt (B : Build) (a : Nat) (t : List Nat) : Prop := ∀ s, s ∈ t → ∃ m, (m, s) ∈ B.orN ∧ m ∈ B.G.ing a

theorem FullAt.mono {B B' : Build} (h : Ext B B') {a : Nat} {t : List Nat} (hf : FullAt B a t) : FullAt B' a t := by
  intro s hs
  obtain ⟨m, h1, h2⟩ := hf s hs
  exact ⟨m, h.orS _ h1, h.ingS _ _ h2⟩

/-- the invariant of the construction (`cur`: the pair being processed) -/
structure SInv (T : TableTD) (F : List Nat) (cur : Nat × Nat) (B : Build) : Prop where
  szO : ∀ n s, (n, s) ∈ B.orN → n < B.G.size
  szA : ∀ a t, (a, t) ∈ B.andN → a < B.G.size
  fresh : ∀ x, B.G.size ≤ x → B.G.ing x = [] ∧ B.G.egr x = []
  orFun : ∀ n s s', (n, s) ∈ B.orN → (n, s') ∈ B.orN → s = s'
  orInj : ∀ n n' s, (n, s) ∈ B.orN → (n', s) ∈ B.orN → n = n'
  andFun : ∀ a t t', (a, t) ∈ B.andN → (a, t') ∈ B.andN → t = t'
  disj : ∀ n s t, (n, s) ∈ B.orN → (n, t) ∉ B.andN
  orEgr : ∀ n s a, (n, s) ∈ B.orN → a ∈ B.G.egr n → ∃ t, (a, t) ∈ B.andN
  orIng : ∀ n s a, (n, s) ∈ B.orN → a ∈ B.G.ing n → ∃ t, (a, t) ∈ B.andN
  sym : ∀ a t m, (a, t) ∈ B.andN → m ∈ B.G.ing a → a ∈ B.G.egr m
  andIng : ∀ a t m, (a, t) ∈ B.andN → m ∈ B.G.ing a → ∃ s, s ∈ t ∧ (m, s) ∈ B.orN
  andEgr : ∀ a t m, (a, t) ∈ B.andN → m ∈ B.G.egr a → ∃ p, (m, p) ∈ B.orN ∧ t ∈ leafTuples (getTD T p)
  andNe : ∀ a t, (a, t) ∈ B.andN → t ≠ []
  termOk : ∀ n, n ∈ B.term → ∃ p, (n, p) ∈ B.orN ∧ [] ∈ leafTuples (getTD T p)
  reach : ∀ n s, (n, s) ∈ B.orN → s ∈ tdReach (skelTD T F)
  wsOr : ∀ e, e ∈ B.ws → e ∈ B.orN
  doneI : ∀ n p, (n, p) ∈ B.orN → (n, p) ∈ B.ws ∨ (n, p) = cur ∨ ∀ t, t ∈ leafTuples (getTD T p) → Done B n t

variable {T : TableTD} {F : List Nat} {cur : Nat × Nat}

/-! ### the primitive updates -/

/-- a new OR node for the state `s`, pushed on the work-list -/
def newOr (B : Build) (s : Nat) : Build :=
  { B with G := B.G.addNode.1, orN := B.orN ++ [(B.G.addNode.2, s)], ws := (B.G.addNode.2, s) :: B.ws }

theorem newOr_ext (B : Build) (s : Nat) : Ext B (newOr B s) :=
  ⟨fun _ h => List.mem_append_left _ h, fun _ h => h, fun _ h => h, fun _ _ h => h, fun _ _ h => h⟩

theorem newOr_inv {B : Build} (hI : SInv T F cur B) {s : Nat} (hn : ∀ n, (n, s) ∉ B.orN) (hr : s ∈ tdReach (skelTD T F)) :
    SInv T F cur (newOr B s) := by
  have mem : ∀ e, e ∈ (newOr B s).orN ↔ e ∈ B.orN ∨ e = (B.G.size, s) := by
    intro e; simp [newOr, Graph.addNode]
  have hsz : (newOr B s).G.size = B.G.size + 1 := rfl
  constructor
  · intro n s' h
    rw [hsz]
    rcases (mem _).mp h with h | h
    · exact Nat.lt_succ_of_lt (hI.szO n s' h)
    · cases h; exact Nat.lt_succ_self _
  · intro a t h; rw [hsz]; exact Nat.lt_succ_of_lt (hI.szA a t h)
  · intro x hx; exact hI.fresh x (by rw [hsz] at hx; omega)
  · intro n s1 s2 h1 h2
    rcases (mem _).mp h1 with h1 | h1 <;> rcases (mem _).mp h2 with h2 | h2
    · exact hI.orFun n s1 s2 h1 h2
    · cases h2; exact absurd (hI.szO _ _ h1) (Nat.lt_irrefl _)
    · cases h1; exact absurd (hI.szO _ _ h2) (Nat.lt_irrefl _)
    · cases h1; cases h2; rfl
  · intro n1 n2 s' h1 h2
    rcases (mem _).mp h1 with h1 | h1 <;> rcases (mem _).mp h2 with h2 | h2
    · exact hI.orInj n1 n2 s' h1 h2
    · cases h2; exact absurd h1 (hn _)
    · cases h1; exact absurd h2 (hn _)
    · cases h1; cases h2; rfl
  · exact hI.andFun
  · intro n s' t h
    rcases (mem _).mp h with h | h
    · exact hI.disj n s' t h
    · cases h; intro h'; exact absurd (hI.szA _ _ h') (Nat.lt_irrefl _)
  · intro n s' a h ha
    rcases (mem _).mp h with h | h
    · exact hI.orEgr n s' a h ha
    · cases h
      have := (hI.fresh B.G.size (Nat.le_refl _)).2
      rw [show (newOr B s).G.egr B.G.size = B.G.egr B.G.size from rfl, this] at ha; cases ha
  · intro n s' a h ha
    rcases (mem _).mp h with h | h
    · exact hI.orIng n s' a h ha
    · cases h
      have := (hI.fresh B.G.size (Nat.le_refl _)).1
      rw [show (newOr B s).G.ing B.G.size = B.G.ing B.G.size from rfl, this] at ha; cases ha
  · exact hI.sym
  · intro a t m h1 h2
    obtain ⟨s', h3, h4⟩ := hI.andIng a t m h1 h2
    exact ⟨s', h3, (mem _).mpr (Or.inl h4)⟩
  · intro a t m h1 h2
    obtain ⟨p, h3, h4⟩ := hI.andEgr a t m h1 h2
    exact ⟨p, (mem _).mpr (Or.inl h3), h4⟩
  · exact hI.andNe
  · intro n h
    obtain ⟨p, h3, h4⟩ := hI.termOk n h
    exact ⟨p, (mem _).mpr (Or.inl h3), h4⟩
  · intro n s' h
    rcases (mem _).mp h with h | h
    · exact hI.reach n s' h
    · cases h; exact hr
  · intro e he
    simp only [newOr, List.mem_cons] at he
    rcases he with rfl | he
    · exact (mem _).mpr (Or.inr rfl)
    · exact (mem _).mpr (Or.inl (hI.wsOr e he))
  · intro n p h
    rcases (mem _).mp h with h | h
    · rcases hI.doneI n p h with h' | h' | h'
      · exact Or.inl (List.mem_cons_of_mem _ h')
      · exact Or.inr (Or.inl h')
      · exact Or.inr (Or.inr fun t ht => (h' t ht).mono (newOr_ext B s))
    · left; rw [h]; exact List.mem_cons_self

/-- `AddEdge(n, a)` from the OR node of a state of the tuple to the AND node of the tuple -/
def edgeOA (B : Build) (n a : Nat) : Build := { B with G := B.G.addEdge n a }

theorem edgeOA_ext (B : Build) (n a : Nat) : Ext B (edgeOA B n a) :=
  ⟨fun _ h => h, fun _ h => h, fun _ h => h, fun _ _ h => mem_addEdge_egr.mpr (Or.inl h),
   fun _ _ h => mem_addEdge_ing.mpr (Or.inl h)⟩

theorem edgeOA_inv {B : Build} (hI : SInv T F cur B) {n s a : Nat} {t : List Nat} (hn : (n, s) ∈ B.orN)
    (ha : (a, t) ∈ B.andN) (hs : s ∈ t) : SInv T F cur (edgeOA B n a) := by
  have hna : n ≠ a := fun e => hI.disj n s t hn (e ▸ ha)
  constructor
  · exact hI.szO
  · exact hI.szA
  · intro x hx
    have hx : B.G.size ≤ x := hx
    have h1 : x ≠ a := fun e => by have := hI.szA _ _ ha; omega
    have h2 : x ≠ n := fun e => by have := hI.szO _ _ hn; omega
    simp only [edgeOA, Graph.addEdge, if_neg h1, if_neg h2]
    exact hI.fresh x hx
  · exact hI.orFun
  · exact hI.orInj
  · exact hI.andFun
  · exact hI.disj
  · intro n' s' a' h1 h2
    rcases mem_addEdge_egr.mp h2 with h2 | ⟨_, rfl⟩
    · exact hI.orEgr n' s' a' h1 h2
    · exact ⟨t, ha⟩
  · intro n' s' a' h1 h2
    rcases mem_addEdge_ing.mp h2 with h2 | ⟨rfl, _⟩
    · exact hI.orIng n' s' a' h1 h2
    · exact absurd ha (hI.disj _ _ _ h1)
  · intro a' t' m h1 h2
    rcases mem_addEdge_ing.mp h2 with h2 | ⟨rfl, rfl⟩
    · exact mem_addEdge_egr.mpr (Or.inl (hI.sym a' t' m h1 h2))
    · exact mem_addEdge_egr.mpr (Or.inr ⟨rfl, rfl⟩)
  · intro a' t' m h1 h2
    rcases mem_addEdge_ing.mp h2 with h2 | ⟨rfl, rfl⟩
    · exact hI.andIng a' t' m h1 h2
    · rw [hI.andFun _ _ _ h1 ha]; exact ⟨s, hs, hn⟩
  · intro a' t' m h1 h2
    rcases mem_addEdge_egr.mp h2 with h2 | ⟨rfl, _⟩
    · exact hI.andEgr a' t' m h1 h2
    · exact absurd h1 (hI.disj _ _ _ hn)
  · exact hI.andNe
  · exact hI.termOk
  · exact hI.reach
  · exact hI.wsOr
  · intro n' p h
    rcases hI.doneI n' p h with h' | h' | h'
    · exact Or.inl h'
    · exact Or.inr (Or.inl h')
    · exact Or.inr (Or.inr fun t ht => (h' t ht).mono (edgeOA_ext B n a))

/-- `AddEdge(a, n)` from the AND node of a tuple to the OR node of a state that has the tuple -/
theorem edgeAO_inv {B : Build} (hI : SInv T F cur B) {n p a : Nat} {t : List Nat} (hn : (n, p) ∈ B.orN)
    (ha : (a, t) ∈ B.andN) (ht : t ∈ leafTuples (getTD T p)) : SInv T F cur { B with G := B.G.addEdge a n } := by
  have hext : Ext B { B with G := B.G.addEdge a n } :=
    ⟨fun _ h => h, fun _ h => h, fun _ h => h, fun _ _ h => mem_addEdge_egr.mpr (Or.inl h),
     fun _ _ h => mem_addEdge_ing.mpr (Or.inl h)⟩
  constructor
  · exact hI.szO
  · exact hI.szA
  · intro x hx
    have hx : B.G.size ≤ x := hx
    have h1 : x ≠ a := fun e => by have := hI.szA _ _ ha; omega
    have h2 : x ≠ n := fun e => by have := hI.szO _ _ hn; omega
    simp only [Graph.addEdge, if_neg h1, if_neg h2]
    exact hI.fresh x hx
  · exact hI.orFun
  · exact hI.orInj
  · exact hI.andFun
  · exact hI.disj
  · intro n' s' a' h1 h2
    rcases mem_addEdge_egr.mp h2 with h2 | ⟨rfl, _⟩
    · exact hI.orEgr n' s' a' h1 h2
    · exact absurd ha (hI.disj _ _ _ h1)
  · intro n' s' a' h1 h2
    rcases mem_addEdge_ing.mp h2 with h2 | ⟨_, rfl⟩
    · exact hI.orIng n' s' a' h1 h2
    · exact ⟨t, ha⟩
  · intro a' t' m h1 h2
    rcases mem_addEdge_ing.mp h2 with h2 | ⟨rfl, _⟩
    · exact mem_addEdge_egr.mpr (Or.inl (hI.sym a' t' m h1 h2))
    · exact absurd h1 (hI.disj _ _ _ hn)
  · intro a' t' m h1 h2
    rcases mem_addEdge_ing.mp h2 with h2 | ⟨rfl, _⟩
    · exact hI.andIng a' t' m h1 h2
    · exact absurd h1 (hI.disj _ _ _ hn)
  · intro a' t' m h1 h2
    rcases mem_addEdge_egr.mp h2 with h2 | ⟨rfl, rfl⟩
    · exact hI.andEgr a' t' m h1 h2
    · rw [hI.andFun _ _ _ h1 ha]; exact ⟨p, hn, ht⟩
  · exact hI.andNe
  · exact hI.termOk
  · exact hI.reach
  · exact hI.wsOr
  · intro n' p' h
    rcases hI.doneI n' p' h with h' | h' | h'
    · exact Or.inl h'
    · exact Or.inr (Or.inl h')
    · exact Or.inr (Or.inr fun t ht => (h' t ht).mono hext)

/-- a new AND node for the non-empty tuple `t` -/
def newAnd (B : Build) (t : List Nat) : Build :=
  { B with G := B.G.addNode.1, andN := B.andN ++ [(B.G.addNode.2, t)] }

theorem newAnd_ext (B : Build) (t : List Nat) : Ext B (newAnd B t) :=
  ⟨fun _ h => h, fun _ h => List.mem_append_left _ h, fun _ h => h, fun _ _ h => h, fun _ _ h => h⟩

theorem newAnd_inv {B : Build} (hI : SInv T F cur B) {t : List Nat} (hne : t ≠ []) : SInv T F cur (newAnd B t) := by
  have mem : ∀ e, e ∈ (newAnd B t).andN ↔ e ∈ B.andN ∨ e = (B.G.size, t) := by
    intro e; simp [newAnd, Graph.addNode]
  have hsz : (newAnd B t).G.size = B.G.size + 1 := rfl
  have hing : ∀ m, m ∉ B.G.ing B.G.size := by
    intro m hm; rw [(hI.fresh _ (Nat.le_refl _)).1] at hm; cases hm
  have hegr : ∀ m, m ∉ B.G.egr B.G.size := by
    intro m hm; rw [(hI.fresh _ (Nat.le_refl _)).2] at hm; cases hm
  constructor
  · intro n s h; rw [hsz]; exact Nat.lt_succ_of_lt (hI.szO n s h)
  · intro a t' h
    rw [hsz]
    rcases (mem _).mp h with h | h
    · exact Nat.lt_succ_of_lt (hI.szA a t' h)
    · cases h; exact Nat.lt_succ_self _
  · intro x hx; exact hI.fresh x (by rw [hsz] at hx; omega)
  · exact hI.orFun
  · exact hI.orInj
  · intro a t1 t2 h1 h2
    rcases (mem _).mp h1 with h1 | h1 <;> rcases (mem _).mp h2 with h2 | h2
    · exact hI.andFun a t1 t2 h1 h2
    · cases h2; exact absurd (hI.szA _ _ h1) (Nat.lt_irrefl _)
    · cases h1; exact absurd (hI.szA _ _ h2) (Nat.lt_irrefl _)
    · cases h1; cases h2; rfl
  · intro n s t' h h'
    rcases (mem _).mp h' with h' | h'
    · exact hI.disj n s t' h h'
    · cases h'; exact absurd (hI.szO _ _ h) (Nat.lt_irrefl _)
  · intro n s a h ha
    obtain ⟨t', h'⟩ := hI.orEgr n s a h ha
    exact ⟨t', (mem _).mpr (Or.inl h')⟩
  · intro n s a h ha
    obtain ⟨t', h'⟩ := hI.orIng n s a h ha
    exact ⟨t', (mem _).mpr (Or.inl h')⟩
  · intro a t' m h1 h2
    rcases (mem _).mp h1 with h1 | h1
    · exact hI.sym a t' m h1 h2
    · cases h1; exact absurd h2 (hing m)
  · intro a t' m h1 h2
    rcases (mem _).mp h1 with h1 | h1
    · exact hI.andIng a t' m h1 h2
    · cases h1; exact absurd h2 (hing m)
  · intro a t' m h1 h2
    rcases (mem _).mp h1 with h1 | h1
    · exact hI.andEgr a t' m h1 h2
    · cases h1; exact absurd h2 (hegr m)
  · intro a t' h
    rcases (mem _).mp h with h | h
    · exact hI.andNe a t' h
    · cases h; exact hne
  · exact hI.termOk
  · exact hI.reach
  · exact hI.wsOr
  · intro n' p' h
    rcases hI.doneI n' p' h with h' | h' | h'
    · exact Or.inl h'
    · exact Or.inr (Or.inl h')
    · exact Or.inr (Or.inr fun t' ht => (h' t' ht).mono (newAnd_ext B t))

/-- `termNodes_.insert(procNode_)` -/
theorem addTerm_inv {B : Build} (hI : SInv T F cur B) {n p : Nat} (hn : (n, p) ∈ B.orN)
    (ht : [] ∈ leafTuples (getTD T p)) : SInv T F cur { B with term := ins n B.term } := by
  have hext : Ext B { B with term := ins n B.term } :=
    ⟨fun _ h => h, fun _ h => h, fun _ h => mem_ins.mpr (Or.inl h), fun _ _ h => h, fun _ _ h => h⟩
  constructor
  · exact hI.szO
  · exact hI.szA
  · exact hI.fresh
  · exact hI.orFun
  · exact hI.orInj
  · exact hI.andFun
  · exact hI.disj
  · exact hI.orEgr
  · exact hI.orIng
  · exact hI.sym
  · exact hI.andIng
  · exact hI.andEgr
  · exact hI.andNe
  · intro n' h
    rcases mem_ins.mp h with h | rfl
    · exact hI.termOk n' h
    · exact ⟨p, hn, ht⟩
  · exact hI.reach
  · exact hI.wsOr
  · intro n' p' h
    rcases hI.doneI n' p' h with h' | h' | h'
    · exact Or.inl h'
    · exact Or.inr (Or.inl h')
    · exact Or.inr (Or.inr fun t' ht => (h' t' ht).mono hext)

/-! ### the loops -/

theorem stateStep_inv {B : Build} (hI : SInv T F cur B) {a s : Nat} {t : List Nat} (ha : (a, t) ∈ B.andN) (hs : s ∈ t)
    (hr : s ∈ tdReach (skelTD T F)) :
    SInv T F cur (stateStep a B s) ∧ Ext B (stateStep a B s) ∧ (stateStep a B s).andN = B.andN ∧
      ∃ m, (m, s) ∈ (stateStep a B s).orN ∧ m ∈ (stateStep a B s).G.ing a := by
  unfold stateStep
  cases h : findBwd B.orN s with
  | none =>
    show SInv T F cur (edgeOA (newOr B s) B.G.size a) ∧ Ext B (edgeOA (newOr B s) B.G.size a) ∧ _ ∧
      ∃ m, (m, s) ∈ (edgeOA (newOr B s) B.G.size a).orN ∧ m ∈ (edgeOA (newOr B s) B.G.size a).G.ing a
    have h1 := newOr_inv hI (findBwd_none h) hr
    have hn : (B.G.size, s) ∈ (newOr B s).orN := by simp [newOr, Graph.addNode]
    exact ⟨edgeOA_inv h1 hn ha hs, (newOr_ext B s).trans (edgeOA_ext _ _ _), rfl, B.G.size, hn,
      mem_addEdge_ing.mpr (Or.inr ⟨rfl, rfl⟩)⟩
  | some n =>
    have hn := findBwd_some h
    exact ⟨edgeOA_inv hI hn ha hs, edgeOA_ext _ _ _, rfl, n, hn, mem_addEdge_ing.mpr (Or.inr ⟨rfl, rfl⟩)⟩

theorem stateFold_inv {a : Nat} {t : List Nat} : ∀ (l : List Nat) (B : Build), SInv T F cur B → (a, t) ∈ B.andN →
    (∀ s, s ∈ l → s ∈ t ∧ s ∈ tdReach (skelTD T F)) →
    SInv T F cur (l.foldl (stateStep a) B) ∧ Ext B (l.foldl (stateStep a) B) ∧ (l.foldl (stateStep a) B).andN = B.andN ∧
      ∀ s, s ∈ l → ∃ m, (m, s) ∈ (l.foldl (stateStep a) B).orN ∧ m ∈ (l.foldl (stateStep a) B).G.ing a
  | [], B, hI, _, _ => ⟨hI, Ext.refl _, rfl, fun _ h => by cases h⟩
  | s :: l, B, hI, ha, hl => by
    obtain ⟨h1, h2, h3, h4⟩ := stateStep_inv hI ha (hl s (by simp)).1 (hl s (by simp)).2
    obtain ⟨k1, k2, k3, k4⟩ := stateFold_inv l _ h1 (h3 ▸ ha) (fun s' hs' => hl s' (List.mem_cons_of_mem _ hs'))
    refine ⟨k1, h2.trans k2, k3.trans h3, ?_⟩
    intro s' hs'
    simp only [List.mem_cons] at hs'
    rcases hs' with rfl | hs'
    · obtain ⟨m, h5, h6⟩ := h4
      exact ⟨m, k2.orS _ h5, k2.ingS _ _ h6⟩
    · exact k4 s' hs'

/-- all AND nodes have all their inputs -/
def Full (B : Build) : Prop := ∀ a t, (a, t) ∈ B.andN → FullAt B a t

theorem tupleStep_inv {B : Build} {n p : Nat} (hI : SInv T F (n, p) B) (hn : (n, p) ∈ B.orN) (hF : Full B)
    {tuple : List Nat} (ht : tuple ∈ leafTuples (getTD T p)) :
    SInv T F (n, p) (tupleStep n B tuple) ∧ Ext B (tupleStep n B tuple) ∧ Full (tupleStep n B tuple) ∧
      Done (tupleStep n B tuple) n tuple := by
  cases tuple with
  | nil =>
    have e : tupleStep n B [] = { B with term := ins n B.term } := by simp [tupleStep]
    rw [e]
    have hext : Ext B { B with term := ins n B.term } :=
      ⟨fun _ h => h, fun _ h => h, fun _ h => mem_ins.mpr (Or.inl h), fun _ _ h => h, fun _ _ h => h⟩
    exact ⟨addTerm_inv hI hn ht, hext, fun a t h => (hF a t h).mono hext,
      fun _ => mem_ins.mpr (Or.inr rfl), fun h => absurd rfl h⟩
  | cons s0 tl =>
    have hreach : ∀ s, s ∈ s0 :: tl → s ∈ s0 :: tl ∧ s ∈ tdReach (skelTD T F) := fun s hs =>
      ⟨hs, tdReach_closed (skelTD T F) ⟨0, s0 :: tl, p⟩ (skelTD_rule ht) (hI.reach n p hn) s hs⟩
    unfold tupleStep
    rw [if_neg (by simp)]
    cases h : findBwd B.andN (s0 :: tl) with
    | some a =>
      have ha := findBwd_some h
      have hext : Ext B { B with G := B.G.addEdge a n } :=
        ⟨fun _ h => h, fun _ h => h, fun _ h => h, fun _ _ h => mem_addEdge_egr.mpr (Or.inl h),
         fun _ _ h => mem_addEdge_ing.mpr (Or.inl h)⟩
      exact ⟨edgeAO_inv hI hn ha ht, hext, fun a' t' h' => (hF a' t' h').mono hext,
        (fun e => by cases e), fun _ => ⟨a, ha, mem_addEdge_egr.mpr (Or.inr ⟨rfl, rfl⟩)⟩⟩
    | none =>
      dsimp only
      have h1 := newAnd_inv hI (t := s0 :: tl) (by simp)
      have ha : (B.G.size, s0 :: tl) ∈ (newAnd B (s0 :: tl)).andN := by simp [newAnd, Graph.addNode]
      obtain ⟨k1, k2, k3, k4⟩ := stateFold_inv (s0 :: tl) _ h1 ha hreach
      have ha2 : (B.G.size, s0 :: tl) ∈ ((s0 :: tl).foldl (stateStep B.G.size) (newAnd B (s0 :: tl))).andN := k3 ▸ ha
      have hn2 := k2.orS _ ((newAnd_ext B _).orS _ hn)
      have hext3 : Ext ((s0 :: tl).foldl (stateStep B.G.size) (newAnd B (s0 :: tl)))
          { ((s0 :: tl).foldl (stateStep B.G.size) (newAnd B (s0 :: tl))) with
            G := ((s0 :: tl).foldl (stateStep B.G.size) (newAnd B (s0 :: tl))).G.addEdge B.G.size n } :=
        ⟨fun _ h => h, fun _ h => h, fun _ h => h, fun _ _ h => mem_addEdge_egr.mpr (Or.inl h),
         fun _ _ h => mem_addEdge_ing.mpr (Or.inl h)⟩
      refine ⟨edgeAO_inv k1 hn2 ha2 ht, ((newAnd_ext B _).trans k2).trans hext3, ?_,
        (fun e => by cases e), fun _ => ⟨B.G.size, ha2, mem_addEdge_egr.mpr (Or.inr ⟨rfl, rfl⟩)⟩⟩
      intro a' t' h'
      have h'' : (a', t') ∈ (newAnd B (s0 :: tl)).andN := by rw [← k3]; exact h'
      simp only [newAnd, Graph.addNode, List.mem_append, List.mem_singleton] at h''
      rcases h'' with h'' | h''
      · exact (hF a' t' h'').mono (((newAnd_ext B _).trans k2).trans hext3)
      · cases h''
        exact FullAt.mono hext3 k4

theorem tupleFold_inv {n p : Nat} : ∀ (l : List (List Nat)) (B : Build), SInv T F (n, p) B → (n, p) ∈ B.orN → Full B →
    (∀ t, t ∈ l → t ∈ leafTuples (getTD T p)) →
    SInv T F (n, p) (l.foldl (tupleStep n) B) ∧ Ext B (l.foldl (tupleStep n) B) ∧ Full (l.foldl (tupleStep n) B) ∧
      ∀ t, t ∈ l → Done (l.foldl (tupleStep n) B) n t
  | [], B, hI, _, hF, _ => ⟨hI, Ext.refl _, hF, fun _ h => by cases h⟩
  | t :: l, B, hI, hn, hF, hl => by
    obtain ⟨h1, h2, h3, h4⟩ := tupleStep_inv hI hn hF (hl t (by simp))
    obtain ⟨k1, k2, k3, k4⟩ := tupleFold_inv l _ h1 (h2.orS _ hn) h3 (fun t' ht' => hl t' (List.mem_cons_of_mem _ ht'))
    refine ⟨k1, h2.trans k2, k3, ?_⟩
    intro t' ht'
    simp only [List.mem_cons] at ht'
    rcases ht' with rfl | ht'
    · exact h4.mono k2
    · exact k4 t' ht'

/-- the invariant at the head of `while (!workset.empty())` -/
def HInv (T : TableTD) (F : List Nat) (B : Build) : Prop :=
  (∃ cur, SInv T F cur B ∧ (cur ∈ B.orN → cur ∈ B.ws ∨ ∀ t, t ∈ leafTuples (getTD T cur.2) → Done B cur.1 t)) ∧ Full B

theorem buildLoop_inv : ∀ (fuel : Nat) (B B' : Build), HInv T F B → buildLoop T fuel B = some B' →
    HInv T F B' ∧ B'.ws = [] ∧ Ext B B' := by
  intro fuel
  induction fuel with
  | zero =>
    intro B B' hH h
    unfold buildLoop at h
    split at h
    · rename_i hs
      simp only [Option.some.injEq] at h; subst h
      exact ⟨hH, hs, Ext.refl _⟩
    · simp at h
  | succ fuel ih =>
    intro B B' hH h
    unfold buildLoop at h
    split at h
    · rename_i hs
      simp only [Option.some.injEq] at h; subst h
      exact ⟨hH, hs, Ext.refl _⟩
    · rename_i n s ws hs
      simp only at h
      obtain ⟨⟨cur, hI, hcur⟩, hF⟩ := hH
      have hns : (n, s) ∈ B.orN := hI.wsOr _ (by rw [hs]; simp)
      have hI0 : SInv T F (n, s) { B with ws := ws } := by
        have hext : Ext B { B with ws := ws } := ⟨fun _ h => h, fun _ h => h, fun _ h => h, fun _ _ h => h, fun _ _ h => h⟩
        constructor
        · exact hI.szO
        · exact hI.szA
        · exact hI.fresh
        · exact hI.orFun
        · exact hI.orInj
        · exact hI.andFun
        · exact hI.disj
        · exact hI.orEgr
        · exact hI.orIng
        · exact hI.sym
        · exact hI.andIng
        · exact hI.andEgr
        · exact hI.andNe
        · exact hI.termOk
        · exact hI.reach
        · intro e he; exact hI.wsOr e (by rw [hs]; exact List.mem_cons_of_mem _ he)
        · intro n' p' h'
          have key : (n', p') ∈ B.ws → (n', p') ∈ ws ∨ (n', p') = (n, s) ∨
              ∀ t, t ∈ leafTuples (getTD T p') → Done { B with ws := ws } n' t := by
            intro hw
            rw [hs] at hw
            simp only [List.mem_cons] at hw
            rcases hw with hw | hw
            · exact Or.inr (Or.inl hw)
            · exact Or.inl hw
          rcases hI.doneI n' p' h' with h1 | h1 | h1
          · exact key h1
          · subst h1
            rcases hcur h' with h2 | h2
            · exact key h2
            · exact Or.inr (Or.inr fun t ht => (h2 t ht).mono hext)
          · exact Or.inr (Or.inr fun t ht => (h1 t ht).mono hext)
      obtain ⟨k1, k2, k3, k4⟩ := tupleFold_inv (leafTuples (getTD T s)) _ hI0 hns hF (fun _ h => h)
      obtain ⟨j1, j2, j3⟩ := ih _ _ ⟨⟨(n, s), k1, fun _ => Or.inr k4⟩, k3⟩ h
      refine ⟨j1, j2, Ext.trans (B' := { B with ws := ws }) ?_ (k2.trans j3)⟩
      exact ⟨fun _ h => h, fun _ h => h, fun _ h => h, fun _ _ h => h, fun _ _ h => h⟩

theorem initFold_build : ∀ (l : List Nat) (B : Build), SInv T F cur B → l.Nodup → (∀ f, f ∈ l → ∀ n, (n, f) ∉ B.orN) →
    (∀ f, f ∈ l → f ∈ tdReach (skelTD T F)) → (∀ e, e ∈ B.orN → e ∈ B.ws) →
    SInv T F cur (l.foldl newOr B) ∧ Ext B (l.foldl newOr B) ∧ (∀ f, f ∈ l → ∃ n, (n, f) ∈ (l.foldl newOr B).orN) ∧
      (∀ e, e ∈ (l.foldl newOr B).orN → e ∈ (l.foldl newOr B).ws) ∧ (l.foldl newOr B).andN = B.andN
  | [], B, hI, _, _, _, hw => ⟨hI, Ext.refl _, (fun _ h => by cases h), hw, rfl⟩
  | f :: l, B, hI, hnd, hnot, hr, hw => by
    have h1 := newOr_inv hI (hnot f (by simp)) (hr f (by simp))
    rw [List.nodup_cons] at hnd
    obtain ⟨k1, k2, k3, k4, k5⟩ := initFold_build l (newOr B f) h1 hnd.2 (by
        intro f' hf' n hm
        simp only [newOr, Graph.addNode, List.mem_append, List.mem_singleton, Prod.mk.injEq] at hm
        rcases hm with hm | ⟨_, e⟩
        · exact hnot f' (List.mem_cons_of_mem _ hf') n hm
        · subst e; exact hnd.1 hf')
      (fun f' hf' => hr f' (List.mem_cons_of_mem _ hf')) (by
        intro e he
        simp only [newOr, Graph.addNode, List.mem_append, List.mem_singleton] at he
        simp only [newOr, Graph.addNode, List.mem_cons]
        rcases he with he | he
        · exact Or.inr (hw e he)
        · exact Or.inl he)
    refine ⟨k1, (newOr_ext B f).trans k2, ?_, k4, k5⟩
    intro f' hf'
    simp only [List.mem_cons] at hf'
    rcases hf' with rfl | hf'
    · exact ⟨B.G.size, k2.orS _ (by simp [newOr, Graph.addNode])⟩
    · exact k3 f' hf'

/-- **the construction as coded meets `Spec`** (for a duplicate-free list of final states – `GetFinalStates()` is a set) -/
theorem buildLoop_spec (hF : F.Nodup) {fuel : Nat} {B : Build} (h : buildLoop T fuel (initBuild F) = some B) :
    Spec T F B := by
  have h0 : SInv T F (0, 0) ⟨Graph.empty, [], [], [], []⟩ := by
    constructor
    case fresh => intro x _; exact ⟨rfl, rfl⟩
    all_goals (intros; first | (rename_i hm; cases hm) | (rename_i hm _; cases hm))
  have e : initBuild F = F.foldl newOr ⟨Graph.empty, [], [], [], []⟩ := rfl
  obtain ⟨i1, i2, i3, i4, i5⟩ := initFold_build (T := T) (F := F) F _ h0 hF (fun _ _ _ hm => by cases hm)
    (fun f hf => tdReach_final (skelTD T F) f hf) (fun _ hm => by cases hm)
  rw [← e] at i1 i2 i3 i4 i5
  have hH : HInv T F (initBuild F) := ⟨⟨(0, 0), i1, fun hc => Or.inl (i4 _ hc)⟩, fun a t hat => by rw [i5] at hat; cases hat⟩
  obtain ⟨⟨⟨cur, hI, hcur⟩, hFull⟩, hws, hext⟩ := buildLoop_inv fuel _ _ hH h
  exact {
    orFun := hI.orFun, orInj := hI.orInj, disj := hI.disj, orEgr := hI.orEgr, orIng := hI.orIng, sym := hI.sym,
    andIng := hI.andIng, andEgr := hI.andEgr, andFull := (fun a t s h hs => hFull a t h s hs), andNe := hI.andNe, termOk := hI.termOk, reach := hI.reach,
    done := by
      intro n p t hnp ht
      rcases hI.doneI n p hnp with h1 | h1 | h1
      · rw [hws] at h1; cases h1
      · subst h1
        rcases hcur hnp with h2 | h2
        · rw [hws] at h2; cases h2
        · exact h2 t ht
      · exact h1 t ht
    fin := by
      intro f hf
      obtain ⟨n, hn⟩ := i3 f hf
      exact ⟨n, hext.orS _ hn⟩ }

end BddTrimCoded
end Vata
