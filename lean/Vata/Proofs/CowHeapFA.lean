import Vata.CowHeapFA
import Vata.Proofs.CowHeap
import Vata.Proofs.CowHeapX
/-!
# Copy-on-write of the explicit finite automaton core – the actions on the shared part (proofs for `Vata/CowHeapFA.lean`)

For every action on the two-level heap that the finite-automaton operations are made of: it keeps the reference-count
invariant `CowHeap.Inv` and changes the value seen through ONE handle, in the stated way
(`modCluster_spec`, `addCore_spec`, `reindexCore_spec`, `reverseCore_spec`, `unionDisjCore_spec`, `shareCore_spec`).
-/
namespace Vata.CowHeapFA

open Vata.Store (Cluster upsert insTuple addToCluster addToMap)
open Vata.CowHeap (Heap upd upd_same upd_other allocMap incMap retarget addHandle dropHandle allocCluster setEntry
  writeCluster releaseCluster releaseMap uniqueMap mout valM Val InvP Inv MapUnique abs hout indeg_upd)
open Vata.CowHeapX (missing missing_map mem_missing upd_upd_same upd_self)

variable {H : Heap}

theorem abs_val {h : Nat} {v : Val} (e : abs H h = some v) : h ∈ H.hl ∧ valM H (H.hmap h) = v := by
  have hh : h ∈ H.hl := CowHeap.abs_isSome.mp (by rw [e]; rfl)
  rw [CowHeap.abs_of_mem hh] at e
  exact ⟨hh, Option.some.inj e⟩

/-! ### `insert` of cluster pointers into a map node -/

theorem mout_insertEntries (H : Heap) (m : Nat) (ins : List (Nat × Nat)) :
    mout (insertEntries H m ins) = upd (mout H) m (mout H m ++ ins.map Prod.snd) := by
  funext x
  by_cases e : x = m
  · subst e; simp [mout, insertEntries]
  · simp [mout, insertEntries, upd_other _ _ e]

theorem insertEntries_inv {pm pc : List Nat} {m : Nat} {ins : List (Nat × Nat)} (h : InvP H pm pc)
    (hm : m ∈ H.ml) (hins : ∀ c, c ∈ ins.map Prod.snd → c ∈ H.cl) : InvP (insertEntries H m ins) pm pc := by
  refine ⟨h.hnd, h.mnd, h.cnd, h.hm, ?_, h.mrc, ?_, h.pmm, h.pcc, h.mlt, h.clt, h.mpos, ?_⟩
  · intro m' hm' c hc
    rw [mout_insertEntries] at hc
    by_cases e : m' = m
    · subst e
      rw [upd_same] at hc
      rcases List.mem_append.mp hc with hc' | hc'
      · exact h.mc m' hm' c hc'
      · exact hins c hc'
    · rw [upd_other _ _ e] at hc
      exact h.mc m' hm' c hc
  · intro c hc
    show H.crc c + (ins.map Prod.snd).count c = CowHeap.indeg H.ml (mout (insertEntries H m ins)) c + pc.count c
    rw [mout_insertEntries]
    have h1 := h.crc c hc
    have h2 := indeg_upd (out := mout H) (mout H m ++ ins.map Prod.snd) h.mnd hm c
    rw [List.count_append] at h2
    omega
  · intro c hc
    show 0 < H.crc c + (ins.map Prod.snd).count c
    have := h.cpos c hc
    omega

theorem abs_insertEntries {h : Nat} (hh : h ∈ H.hl) (hu : MapUnique H h) (ins : List (Nat × Nat)) :
    abs (insertEntries H (H.hmap h) ins) =
      upd (abs H) h (some (valM H (H.hmap h) ++ ins.map (fun kc => (kc.1, H.cdat kc.2)))) := by
  funext x
  by_cases hx : x ∈ H.hl
  · have hx' : x ∈ (insertEntries H (H.hmap h) ins).hl := hx
    rw [CowHeap.abs_of_mem hx']
    by_cases e : x = h
    · subst e
      rw [upd_same]
      congr 1
      show ((upd H.ment (H.hmap x) (H.ment (H.hmap x) ++ ins)) (H.hmap x)).map _ = _
      rw [upd_same, List.map_append]
      rfl
    · rw [upd_other _ _ e, CowHeap.abs_of_mem hx]
      congr 1
      show ((upd H.ment (H.hmap h) (H.ment (H.hmap h) ++ ins)) (H.hmap x)).map _ = _
      rw [upd_other _ _ (hu x hx e)]
      rfl
  · have hx' : x ∉ (insertEntries H (H.hmap h) ins).hl := hx
    have e : x ≠ h := fun e => hx (e ▸ hh)
    rw [CowHeap.abs_of_not_mem hx', upd_other _ _ e, CowHeap.abs_of_not_mem hx]

/-- `insert(first, last)` of pointers to allocated clusters into the private map node of `h` -/
theorem insertRange_spec (hI : Inv H) {h : Nat} (hh : h ∈ H.hl) (hu : MapUnique H h) (l : List (Nat × Nat))
    (hl : ∀ c, c ∈ l.map Prod.snd → c ∈ H.cl) :
    Inv (insertRange H (H.hmap h) l) ∧
      abs (insertRange H (H.hmap h) l) =
        upd (abs H) h (some (valM H (H.hmap h) ++
          missing (valM H (H.hmap h)) (l.map (fun kc => (kc.1, H.cdat kc.2))))) := by
  unfold insertRange
  constructor
  · apply insertEntries_inv hI (hI.hm h hh)
    intro c hc
    obtain ⟨kc, hkc, e⟩ := List.mem_map.mp hc
    exact hl c (List.mem_map.mpr ⟨kc, mem_missing hkc, e⟩)
  · rw [abs_insertEntries hh hu, missing_map H.cdat]
    rfl

/-! ### `transitions_ = Ptr(new Map())` and the default constructor -/

theorem freshMap_spec (hI : Inv H) {h : Nat} (hh : h ∈ H.hl) :
    Inv (freshMap H h) ∧ abs (freshMap H h) = upd (abs H) h (some []) ∧ (freshMap H h).hl = H.hl ∧
      MapUnique (freshMap H h) h := by
  unfold freshMap
  have h1 : InvP (allocMap H []) [H.next] [] := CowHeap.allocMap_inv hI [] (by intro c hc; simp at hc)
  have h2 := CowHeap.retarget_inv (h := h) h1 hh
  have hfr := CowHeap.releaseMap_frame (retarget (allocMap H []) h H.next) (H.hmap h)
  refine ⟨CowHeap.releaseMap_inv h2, ?_, hfr.1, ?_⟩
  · rw [CowHeap.abs_releaseMap, CowHeap.abs_retarget (H := allocMap H []) H.next hh, CowHeap.abs_allocMap hI,
      CowHeap.valM_allocMap_next]
    rfl
  · intro x hx hne
    rw [hfr.1] at hx
    rw [hfr.2.1]
    show upd H.hmap h H.next x ≠ upd H.hmap h H.next h
    rw [upd_same, upd_other _ _ hne]
    intro e
    exact CowHeap.fresh_not_ml hI (e ▸ hI.hm x hx)

theorem step_new_dead (hI : Inv H) {dst : Nat} (hd : dst ∉ H.hl) :
    Inv (CowHeap.step H (.new dst)) ∧ abs (CowHeap.step H (.new dst)) = upd (abs H) dst (some []) ∧
      dst ∈ (CowHeap.step H (.new dst)).hl ∧ MapUnique (CowHeap.step H (.new dst)) dst := by
  obtain ⟨h1, h2⟩ := CowHeap.cow_refines_values hI (.new dst)
  have e : CowHeap.step H (.new dst) = addHandle (allocMap H []) dst H.next := by
    simp only [CowHeap.step]; rw [if_neg hd]
  refine ⟨h2, ?_, ?_, ?_⟩
  · rw [h1]
    simp only [CowHeap.specStep]
    rw [if_neg (fun hs => hd (CowHeap.abs_isSome.mp hs))]
  · rw [e]; exact List.mem_cons_self
  · rw [e]
    intro x hx hne
    have hx' : x ∈ H.hl := by
      rcases List.mem_cons.mp hx with e' | hx'
      · exact absurd e' hne
      · exact hx'
    show upd H.hmap dst H.next x ≠ upd H.hmap dst H.next dst
    rw [upd_same, upd_other _ _ hne]
    intro e'
    exact CowHeap.fresh_not_ml hI (e' ▸ hI.hm x hx')

theorem step_copy_live (hI : Inv H) {src dst : Nat} (hs : src ∈ H.hl) (hd : dst ∉ H.hl) :
    Inv (CowHeap.step H (.copy src dst)) ∧
      abs (CowHeap.step H (.copy src dst)) = upd (abs H) dst (some (valM H (H.hmap src))) := by
  obtain ⟨h1, h2⟩ := CowHeap.cow_refines_values hI (.copy src dst)
  refine ⟨h2, ?_⟩
  rw [h1]
  simp only [CowHeap.specStep]
  rw [if_pos ⟨CowHeap.abs_isSome.mpr hs, CowHeap.abs_isNone.mpr hd⟩, CowHeap.abs_of_mem hs]

/-! ### `uniqueCluster` followed by writes into the returned cluster -/

theorem modCluster_frame (H : Heap) (h q : Nat) (G : Cluster → Cluster) :
    (modCluster H h q G).hl = H.hl ∧ (modCluster H h q G).hmap = H.hmap := by
  unfold modCluster
  simp only
  split
  · exact ⟨rfl, rfl⟩
  · split
    · exact ⟨rfl, rfl⟩
    · have := CowHeap.releaseCluster_frame
        (setEntry (allocCluster H (G (H.cdat ‹Nat›))) (H.hmap h) q H.next) ‹Nat›
      exact ⟨this.1, this.2.1⟩

theorem modCluster_spec (hI : Inv H) {h : Nat} (hh : h ∈ H.hl) (hu : MapUnique H h) (q : Nat)
    (G : Cluster → Cluster) :
    Inv (modCluster H h q G) ∧
      abs (modCluster H h q G) =
        upd (abs H) h (some (upsert q (fun o => G (o.getD [])) (valM H (H.hmap h)))) := by
  have hm := hI.hm h hh
  unfold modCluster
  simp only
  split
  · rename_i hl
    constructor
    · have h1 := CowHeap.allocCluster_inv hI (G [])
      have h2 := CowHeap.setEntry_inv q h1 (m := H.hmap h) hm
      have e : (allocCluster H (G [])).ment = H.ment := rfl
      rw [e, hl] at h2
      exact h2
    · apply CowHeap.abs_setEntry_alloc hI hh hu q (fun o => G (o.getD []))
      rw [hl]; rfl
  · rename_i c hl
    split
    · rename_i hrc
      exact ⟨CowHeap.writeCluster_inv hI _ _,
        CowHeap.abs_writeCluster hI hh hu q c (fun o => G (o.getD [])) hl hrc⟩
    · constructor
      · have h1 := CowHeap.allocCluster_inv hI (G (H.cdat c))
        have h2 := CowHeap.setEntry_inv q h1 (m := H.hmap h) hm
        have e : (allocCluster H (G (H.cdat c))).ment = H.ment := rfl
        rw [e, hl] at h2
        exact CowHeap.releaseCluster_inv h2
      · rw [CowHeap.abs_releaseCluster]
        apply CowHeap.abs_setEntry_alloc hI hh hu q (fun o => G (o.getD []))
        rw [hl]; rfl

/-- the handle `h` is live, the invariant holds, and no other live handle uses the map node of `h` -/
structure Good (H : Heap) (h : Nat) : Prop where
  inv  : Inv H
  live : h ∈ H.hl
  uniq : MapUnique H h

theorem modCluster_good {h : Nat} (g : Good H h) (q : Nat) (G : Cluster → Cluster) :
    Good (modCluster H h q G) h ∧
      abs (modCluster H h q G) =
        upd (abs H) h (some (upsert q (fun o => G (o.getD [])) (valM H (H.hmap h)))) := by
  obtain ⟨h1, h2⟩ := modCluster_spec g.inv g.live g.uniq q G
  obtain ⟨f1, f2⟩ := modCluster_frame H h q G
  refine ⟨⟨h1, by rw [f1]; exact g.live, ?_⟩, h2⟩
  intro x hx hne
  rw [f1] at hx
  rw [f2]
  exact g.uniq x hx hne

theorem uniqueMap_good (hI : Inv H) {h : Nat} (hh : h ∈ H.hl) :
    Good (uniqueMap H h) h ∧ abs (uniqueMap H h) = abs H := by
  obtain ⟨h1, h2, h3, h4⟩ := CowHeap.uniqueMap_spec hI hh
  exact ⟨⟨h1, h3, h4⟩, h2⟩

/-- `internalAddTransition` -/
theorem addCore_spec (hI : Inv H) {h : Nat} (hh : h ∈ H.hl) (l a r : Nat) :
    Good (addCore H h l a r) h ∧
      abs (addCore H h l a r) = upd (abs H) h (some (addToMap l a [r] (valM H (H.hmap h)))) := by
  obtain ⟨g, e⟩ := uniqueMap_good hI hh
  obtain ⟨g', e'⟩ := modCluster_good g l (addToCluster a [r])
  refine ⟨g', ?_⟩
  unfold addCore
  rw [e', e]
  have hv := abs_val (H := uniqueMap H h) (h := h) (v := valM H (H.hmap h)) (by rw [e, CowHeap.abs_of_mem hh])
  rw [hv.2]
  rfl

/-! ### loops that write through one handle -/

theorem fold_spec {α : Type} (h : Nat) (P : Heap → Prop) (hP : ∀ H, P H → h ∈ H.hl) (f : Heap → α → Heap)
    (g : Val → α → Val)
    (hstep : ∀ H x, P H → P (f H x) ∧ abs (f H x) = upd (abs H) h (some (g (valM H (H.hmap h)) x))) :
    ∀ (l : List α) (H : Heap), P H →
      P (l.foldl f H) ∧ abs (l.foldl f H) = upd (abs H) h (some (l.foldl g (valM H (H.hmap h)))) := by
  intro l
  induction l with
  | nil =>
    intro H hH
    exact ⟨hH, (CowHeap.upd_abs_self (hP H hH)).symm⟩
  | cons x l ih =>
    intro H hH
    obtain ⟨h1, h2⟩ := hstep H x hH
    obtain ⟨h3, h4⟩ := ih (f H x) h1
    refine ⟨h3, ?_⟩
    have hv := abs_val (H := f H x) (h := h) (by rw [h2, upd_same])
    rw [List.foldl_cons, List.foldl_cons, h4, hv.2, h2, upd_upd_same]

/-- the transition part of `ReindexStates(dst, index)` -/
theorem reindexCore_spec (hI : Inv H) {dst : Nat} (hd : dst ∈ H.hl) (idx : Nat → Nat) (src : Val) :
    Inv (reindexCore H dst idx src) ∧
      abs (reindexCore H dst idx src) = upd (abs H) dst (some (reindexTrans idx src (valM H (H.hmap dst)))) := by
  obtain ⟨g, e⟩ := uniqueMap_good hI hd
  obtain ⟨h1, h2⟩ := fold_spec dst (fun H => Good H dst) (fun _ g => g.live)
    (fun H qc => modCluster H dst (idx qc.1) (reindexCluster idx qc.2))
    (fun t qc => upsert (idx qc.1) (fun o => reindexCluster idx qc.2 (o.getD [])) t)
    (fun H x g => modCluster_good g _ _) src (uniqueMap H dst) g
  refine ⟨h1.inv, ?_⟩
  unfold reindexCore
  rw [h2, e]
  have hv := abs_val (H := uniqueMap H dst) (h := dst) (v := valM H (H.hmap dst))
    (by rw [e, CowHeap.abs_of_mem hd])
  rw [hv.2]
  rfl

/-- the transition part of `Reverse()` -/
theorem reverseCore_spec (hI : Inv H) {dst : Nat} (hd : dst ∉ H.hl) (tr : List (Nat × Nat × Nat)) :
    Inv (reverseCore H dst tr) ∧
      abs (reverseCore H dst tr) =
        upd (abs H) dst (some (tr.foldl (fun t e => addToMap e.2.2 e.2.1 [e.1] t) [])) := by
  obtain ⟨g1, g2, g3, g4⟩ := step_new_dead hI hd
  obtain ⟨h1, h2⟩ := fold_spec dst (fun H => Good H dst) (fun _ g => g.live)
    (fun H (e : Nat × Nat × Nat) => addCore H dst e.2.2 e.2.1 e.1)
    (fun t e => addToMap e.2.2 e.2.1 [e.1] t)
    (fun H x g => addCore_spec g.inv g.live _ _ _) tr (CowHeap.step H (.new dst)) ⟨g1, g3, g4⟩
  refine ⟨h1.inv, ?_⟩
  unfold reverseCore
  rw [h2, g2, upd_upd_same]
  have hv := abs_val (H := CowHeap.step H (.new dst)) (h := dst) (v := []) (by rw [g2, upd_same])
  rw [hv.2]

/-! ### results that share cluster nodes with their operands -/

theorem lookup_map_val {β γ : Type} (f : β → γ) (k : Nat) (l : List (Nat × β)) :
    (l.map (fun kc => (kc.1, f kc.2))).lookup k = (l.lookup k).map f := by
  induction l with
  | nil => rfl
  | cons kc l ih =>
    obtain ⟨k0, v0⟩ := kc
    simp only [List.map_cons, List.lookup_cons]
    cases k == k0 <;> simp [ih]

theorem pick_map {β γ : Type} (f : β → γ) (es : List (Nat × β)) (keys : List Nat) :
    pick (es.map (fun kc => (kc.1, f kc.2))) keys = (pick es keys).map (fun kc => (kc.1, f kc.2)) := by
  induction keys with
  | nil => rfl
  | cons q keys ih =>
    simp only [pick, List.filterMap_cons, lookup_map_val] at ih ⊢
    cases es.lookup q with
    | none => simpa using ih
    | some c => simpa using ih

theorem mem_pick {es : List (Nat × Nat)} {keys : List Nat} {c : Nat} (h : c ∈ (pick es keys).map Prod.snd) :
    c ∈ es.map Prod.snd := by
  obtain ⟨kc, hkc, e⟩ := List.mem_map.mp h
  simp only [pick, List.mem_filterMap] at hkc
  obtain ⟨q, _, hq⟩ := hkc
  cases hl : es.lookup q with
  | none => rw [hl] at hq; simp at hq
  | some c0 =>
    rw [hl] at hq
    simp only [Option.map_some, Option.some.injEq] at hq
    rw [← e, ← hq]
    exact CowHeap.mem_of_lookup_snd hl

/-- `UnionDisjointStates`, the shared part -/
theorem unionDisjCore_spec (hI : Inv H) {a b dst : Nat} (ha : a ∈ H.hl) (hb : b ∈ H.hl) (hd : dst ∉ H.hl) :
    Inv (unionDisjCore H a b dst) ∧
      abs (unionDisjCore H a b dst) =
        upd (abs H) dst (some (valM H (H.hmap a) ++ missing (valM H (H.hmap a)) (valM H (H.hmap b)))) := by
  unfold unionDisjCore
  simp only
  have hne : b ≠ dst := fun e => hd (e ▸ hb)
  obtain ⟨h1, h2⟩ := step_copy_live hI ha hd
  have hd0 : dst ∈ (CowHeap.step H (.copy a dst)).hl := (abs_val (by rw [h2, upd_same])).1
  obtain ⟨g, g2⟩ := uniqueMap_good h1 hd0
  rw [h2] at g2
  generalize uniqueMap (CowHeap.step H (.copy a dst)) dst = H1 at g g2
  have hdv := abs_val (H := H1) (h := dst) (v := valM H (H.hmap a)) (by rw [g2, upd_same])
  have hbv := abs_val (H := H1) (h := b) (v := valM H (H.hmap b))
    (by rw [g2, upd_other _ _ hne, CowHeap.abs_of_mem hb])
  obtain ⟨r1, r2⟩ := insertRange_spec g.inv g.live g.uniq (H1.ment (H1.hmap b))
    (fun c hc => g.inv.mc _ (g.inv.hm b hbv.1) c hc)
  refine ⟨r1, ?_⟩
  rw [r2, g2, upd_upd_same, hdv.2]
  show upd (abs H) dst (some (valM H (H.hmap a) ++ missing (valM H (H.hmap a)) (valM H1 (H1.hmap b)))) = _
  rw [hbv.2]

/-- `RemoveUnreachableStates` (`second = true`) and the local `res` of `GetCandidateTree` (`second = false`), the shared
    part: a private map node whose entries are cluster POINTERS of the operand -/
theorem shareCore_spec (hI : Inv H) {src dst : Nat} (hs : src ∈ H.hl) (hd : dst ∉ H.hl) (keys : List Nat)
    (second : Bool) :
    Inv (shareCore H src dst keys second) ∧
      abs (shareCore H src dst keys second) =
        upd (abs H) dst (some (missing [] (pick (valM H (H.hmap src)) keys))) := by
  unfold shareCore
  simp only
  have hne : src ≠ dst := fun e => hd (e ▸ hs)
  obtain ⟨h1, h2, h3, h4⟩ := step_new_dead hI hd
  have hH1 : ∃ H1, (if second = true then freshMap (CowHeap.step H (.new dst)) dst else CowHeap.step H (.new dst)) = H1 ∧
      Good H1 dst ∧ abs H1 = upd (abs H) dst (some []) := by
    cases second with
    | false => exact ⟨CowHeap.step H (.new dst), by simp, ⟨h1, h3, h4⟩, h2⟩
    | true =>
      obtain ⟨g1, g2, g3, g4⟩ := freshMap_spec h1 h3
      refine ⟨freshMap (CowHeap.step H (.new dst)) dst, by simp, ⟨g1, by rw [g3]; exact h3, g4⟩, ?_⟩
      rw [g2, h2, upd_upd_same]
  obtain ⟨H1, e1, g, g2⟩ := hH1
  rw [e1]
  have hdv := abs_val (H := H1) (h := dst) (v := []) (by rw [g2, upd_same])
  have hsv := abs_val (H := H1) (h := src) (v := valM H (H.hmap src))
    (by rw [g2, upd_other _ _ hne, CowHeap.abs_of_mem hs])
  obtain ⟨r1, r2⟩ := insertRange_spec g.inv g.live g.uniq (pick (H1.ment (H1.hmap src)) keys)
    (fun c hc => g.inv.mc _ (g.inv.hm src hsv.1) c (mem_pick hc))
  refine ⟨r1, ?_⟩
  rw [r2, g2, upd_upd_same, hdv.2, List.nil_append, ← pick_map H1.cdat]
  show upd (abs H) dst (some (missing [] (pick (valM H1 (H1.hmap src)) keys))) = _
  rw [hsv.2]

end Vata.CowHeapFA
