import Vata.Proofs.RcStoreX
/-!
# The new store operations preserve the invariant (C18)

For every builder (`recDescend1`, `recDescend3`, `renameNode`, `projectNode`): the store afterwards satisfies `WInv`, arises
from the old one by allocations and increments only (`Ext`), the result is allocated; and – except for `projectNode` – the
only node whose counter may be 0 afterwards is the result (`ZSub` clause), which the caller increments.
The fuel given by the callers suffices (the `0` cases are unreachable, so `err` is never set).
-/
namespace Vata.RcSX
open Vata.R (Data decrRc contrib indegL cnt J Closed)
open Vata.RcS

theorem joinNode_inv {s : Store} {a b var : Nat} (w : WInv s []) (ha : a ∈ s.ids) (hb : b ∈ s.ids) :
    WInv (joinNode s a b var).1 [] ∧ Ext s (joinNode s a b var).1 ∧ (joinNode s a b var).2 ∈ (joinNode s a b var).1.ids ∧
    (∀ A, ZSub s (b :: a :: A) → ZSub (joinNode s a b var).1 ((joinNode s a b var).2 :: A)) := by
  unfold joinNode
  split
  · rename_i heq
    refine ⟨w, Ext.refl s, ha, fun A hA => hA.mono ?_⟩
    intro x hx
    rcases List.mem_cons.mp hx with e | hx
    · rw [e, ← heq]; exact List.mem_cons_self
    · exact hx
  · obtain ⟨w3, e3, m3, _, z3⟩ := spawnInternal_inv (var := var) w ha hb
    refine ⟨w3, e3, m3, fun A hA => z3 A (hA.mono ?_)⟩
    intro x hx
    rcases List.mem_cons.mp hx with e | hx
    · exact e ▸ List.mem_cons_of_mem _ List.mem_cons_self
    rcases List.mem_cons.mp hx with e | hx
    · exact e ▸ List.mem_cons_self
    · exact List.mem_cons_of_mem _ (List.mem_cons_of_mem _ hx)

/-- two consecutive builders followed by `joinNode` -/
theorem join_two {s s1 s2 : Store} {r1 r2 var : Nat} (_w1 : WInv s1 []) (e1 : Ext s s1) (m1 : r1 ∈ s1.ids)
    (w2 : WInv s2 []) (e2 : Ext s1 s2) (m2 : r2 ∈ s2.ids) :
    WInv (joinNode s2 r1 r2 var).1 [] ∧ Ext s (joinNode s2 r1 r2 var).1 ∧
    (joinNode s2 r1 r2 var).2 ∈ (joinNode s2 r1 r2 var).1.ids ∧
    (∀ A, (ZSub s A → ZSub s1 (r1 :: A)) → (ZSub s1 (r1 :: A) → ZSub s2 (r2 :: r1 :: A)) → ZSub s A →
      ZSub (joinNode s2 r1 r2 var).1 ((joinNode s2 r1 r2 var).2 :: A)) := by
  obtain ⟨w3, e3, m3, z3⟩ := joinNode_inv (var := var) w2 (e2.ids _ m1) m2
  exact ⟨w3, (e1.trans e2).trans e3, m3, fun A z1 z2 hA => z3 A (z2 (z1 hA))⟩

/-! ## unary apply -/

theorem recDescend1_inv (f : Nat → Nat) : ∀ (fuel : Nat) (s : Store) (n : Nat), WInv s [] → n ∈ s.ids → n < fuel →
    WInv (recDescend1 f fuel s n).1 [] ∧ Ext s (recDescend1 f fuel s n).1 ∧
    (recDescend1 f fuel s n).2 ∈ (recDescend1 f fuel s n).1.ids ∧
    (∀ A, ZSub s A → ZSub (recDescend1 f fuel s n).1 ((recDescend1 f fuel s n).2 :: A))
  | 0, _, _, _, _, hf => by omega
  | fuel+1, s, n, h, hn, hf => by
    simp only [recDescend1]
    split
    · rename_i v hd
      obtain ⟨a, b, c, _, e⟩ := spawnLeaf_inv (v := f v) h
      exact ⟨a, b, c, e⟩
    · rename_i lo hi var hd
      obtain ⟨c1, c2⟩ := h.closed n hn lo hi var hd
      obtain ⟨o1, o2⟩ := h.ordered n hn lo hi var hd
      obtain ⟨w1, e1, m1, z1⟩ := recDescend1_inv f fuel s lo h c1 (by omega)
      obtain ⟨w2, e2, m2, z2⟩ := recDescend1_inv f fuel _ hi w1 (e1.ids _ c2) (by omega)
      obtain ⟨w3, e3, m3, z3⟩ := join_two (var := var) w1 e1 m1 w2 e2 m2
      exact ⟨w3, e3, m3, fun A hA => z3 A (z1 A) (z2 _) hA⟩

theorem apply1_winv (f : Nat → Nat) {s : Store} {a dst : Nat} (hi : WInv s []) :
    WInv (apply1 f s a dst) [] ∧ Frame dst s (apply1 f s a dst) ∧ (NZ s → NZ (apply1 f s a dst)) := by
  unfold apply1
  split
  · rename_i ra hfa hfd
    have hra : ra ∈ s.ids := hi.rin ra (root_mem hfa)
    obtain ⟨w, e, m, z⟩ := recDescend1_inv f (ra + 1) s ra hi hra (Nat.lt_succ_self _)
    obtain ⟨h1, h2, h3⟩ := addHandle_built w e m hfd
    exact ⟨h1, h2, fun hz => h3 (z [] (zsub_nil_iff.mpr hz))⟩
  · exact ⟨hi, Frame.refl _ _, fun hz => hz⟩

/-! ## ternary apply -/

theorem br3_true_isInt {d1 d2 d3 : Data} (h : br3 d1 d2 d3 = true) : isInt d1 = true := by
  cases d1 <;> simp_all [br3, isInt]

theorem kids3_ok {s : Store} (h : WInv s []) {n1 n2 n3 : Nat} (h1 : n1 ∈ s.ids) (h2 : n2 ∈ s.ids) (h3 : n3 ∈ s.ids)
    (b1 b2 b3 : Bool) (i1 : b1 = true → isInt (s.dat n1) = true) (i2 : b2 = true → isInt (s.dat n2) = true)
    (i3 : b3 = true → isInt (s.dat n3) = true) (hb : ¬ (b1 = false ∧ b2 = false ∧ b3 = false)) :
    (kids (s.dat n1) b1 n1).1 ∈ s.ids ∧ (kids (s.dat n1) b1 n1).2 ∈ s.ids ∧
    (kids (s.dat n2) b2 n2).1 ∈ s.ids ∧ (kids (s.dat n2) b2 n2).2 ∈ s.ids ∧
    (kids (s.dat n3) b3 n3).1 ∈ s.ids ∧ (kids (s.dat n3) b3 n3).2 ∈ s.ids ∧
    (kids (s.dat n1) b1 n1).1 + (kids (s.dat n2) b2 n2).1 + (kids (s.dat n3) b3 n3).1 < n1 + n2 + n3 ∧
    (kids (s.dat n1) b1 n1).2 + (kids (s.dat n2) b2 n2).2 + (kids (s.dat n3) b3 n3).2 < n1 + n2 + n3 := by
  obtain ⟨a1, a2, a3, a4, a5⟩ := kids_single h h1 b1
  obtain ⟨b1', b2', b3', b4', b5'⟩ := kids_single h h2 b2
  obtain ⟨c1, c2, c3, c4, c5⟩ := kids_single h h3 b3
  refine ⟨a1, a2, b1', b2', c1, c2, ?_⟩
  cases b1 with
  | true =>
    have := a5 rfl (i1 rfl)
    constructor <;> omega
  | false =>
    cases b2 with
    | true =>
      have := b5' rfl (i2 rfl)
      constructor <;> omega
    | false =>
      cases b3 with
      | true =>
        have := c5 rfl (i3 rfl)
        constructor <;> omega
      | false => exact absurd ⟨rfl, rfl, rfl⟩ hb

theorem recDescend3_inv (f : Nat → Nat → Nat → Nat) : ∀ (fuel : Nat) (s : Store) (n1 n2 n3 : Nat), WInv s [] →
    n1 ∈ s.ids → n2 ∈ s.ids → n3 ∈ s.ids → n1 + n2 + n3 < fuel →
    WInv (recDescend3 f fuel s n1 n2 n3).1 [] ∧ Ext s (recDescend3 f fuel s n1 n2 n3).1 ∧
    (recDescend3 f fuel s n1 n2 n3).2 ∈ (recDescend3 f fuel s n1 n2 n3).1.ids ∧
    (∀ A, ZSub s A → ZSub (recDescend3 f fuel s n1 n2 n3).1 ((recDescend3 f fuel s n1 n2 n3).2 :: A))
  | 0, _, _, _, _, _, _, _, _, hf => by omega
  | fuel+1, s, n1, n2, n3, h, h1, h2, h3, hf => by
    simp only [recDescend3]
    split
    · obtain ⟨a, b, c, _, e⟩ := spawnLeaf_inv (v := f (valOf (s.dat n1)) (valOf (s.dat n2)) (valOf (s.dat n3))) h
      exact ⟨a, b, c, e⟩
    · rename_i hb
      obtain ⟨k11, k12, k21, k22, k31, k32, l1, l2⟩ := kids3_ok h h1 h2 h3 _ _ _ br3_true_isInt br3_true_isInt
        br3_true_isInt hb
      obtain ⟨w1, e1, m1, z1⟩ := recDescend3_inv f fuel s _ _ _ h k11 k21 k31 (by omega)
      obtain ⟨w2, e2, m2, z2⟩ := recDescend3_inv f fuel _ _ _ _ w1 (e1.ids _ k12) (e1.ids _ k22) (e1.ids _ k32) (by omega)
      obtain ⟨w3, e3, m3, z3⟩ := join_two
        (var := if br3 (s.dat n3) (s.dat n1) (s.dat n2) = true then varOf (s.dat n3)
          else if br3 (s.dat n2) (s.dat n1) (s.dat n3) = true then varOf (s.dat n2) else varOf (s.dat n1)) w1 e1 m1 w2 e2 m2
      exact ⟨w3, e3, m3, fun A hA => z3 A (z1 A) (z2 _) hA⟩

theorem apply3_winv (f : Nat → Nat → Nat → Nat) {s : Store} {a b c dst : Nat} (hi : WInv s []) :
    WInv (apply3 f s a b c dst) [] ∧ Frame dst s (apply3 f s a b c dst) ∧ (NZ s → NZ (apply3 f s a b c dst)) := by
  unfold apply3
  split
  · rename_i ra rb rc hfa hfb hfc hfd
    have hra : ra ∈ s.ids := hi.rin ra (root_mem hfa)
    have hrb : rb ∈ s.ids := hi.rin rb (root_mem hfb)
    have hrc : rc ∈ s.ids := hi.rin rc (root_mem hfc)
    obtain ⟨w, e, m, z⟩ := recDescend3_inv f (ra + rb + rc + 1) s ra rb rc hi hra hrb hrc (Nat.lt_succ_self _)
    obtain ⟨h1, h2, h3⟩ := addHandle_built w e m hfd
    exact ⟨h1, h2, fun hz => h3 (z [] (zsub_nil_iff.mpr hz))⟩
  · exact ⟨hi, Frame.refl _ _, fun hz => hz⟩

/-! ## Rename -/

theorem renameNode_inv (ren : Nat → Nat) : ∀ (fuel : Nat) (s : Store) (n : Nat), WInv s [] → n ∈ s.ids → n < fuel →
    WInv (renameNode ren fuel s n).1 [] ∧ Ext s (renameNode ren fuel s n).1 ∧
    (renameNode ren fuel s n).2 ∈ (renameNode ren fuel s n).1.ids ∧
    (∀ A, ZSub s A → ZSub (renameNode ren fuel s n).1 ((renameNode ren fuel s n).2 :: A))
  | 0, _, _, _, _, hf => by omega
  | fuel+1, s, n, h, hn, hf => by
    simp only [renameNode]
    split
    · rename_i v hd
      obtain ⟨a, b, c, _, e⟩ := spawnLeaf_inv (v := v) h
      exact ⟨a, b, c, e⟩
    · rename_i lo hi var hd
      obtain ⟨c1, c2⟩ := h.closed n hn lo hi var hd
      obtain ⟨o1, o2⟩ := h.ordered n hn lo hi var hd
      obtain ⟨w1, e1, m1, z1⟩ := renameNode_inv ren fuel s lo h c1 (by omega)
      obtain ⟨w2, e2, m2, z2⟩ := renameNode_inv ren fuel _ hi w1 (e1.ids _ c2) (by omega)
      obtain ⟨w3, e3, m3, _, z3⟩ := spawnInternal_inv (var := ren var) w2 (e2.ids _ m1) m2
      refine ⟨w3, (e1.trans e2).trans e3, m3, fun A hA => z3 A ((z2 _ (z1 A hA)).mono ?_)⟩
      intro x hx
      rcases List.mem_cons.mp hx with e | hx
      · exact e ▸ List.mem_cons_of_mem _ List.mem_cons_self
      rcases List.mem_cons.mp hx with e | hx
      · exact e ▸ List.mem_cons_self
      · exact List.mem_cons_of_mem _ (List.mem_cons_of_mem _ hx)

theorem rename_winv (ren : Nat → Nat) {s : Store} {a dst : Nat} (hi : WInv s []) :
    WInv (rename ren s a dst) [] ∧ Frame dst s (rename ren s a dst) ∧ (NZ s → NZ (rename ren s a dst)) := by
  unfold rename
  split
  · rename_i ra hfa hfd
    have hra : ra ∈ s.ids := hi.rin ra (root_mem hfa)
    obtain ⟨w, e, m, z⟩ := renameNode_inv ren (ra + 1) s ra hi hra (Nat.lt_succ_self _)
    obtain ⟨h1, h2, h3⟩ := addHandle_built w e m hfd
    exact ⟨h1, h2, fun hz => h3 (z [] (zsub_nil_iff.mpr hz))⟩
  · exact ⟨hi, Frame.refl _ _, fun hz => hz⟩

/-! ## Project -/

theorem projectNode_inv (f : Nat → Nat → Nat) (pred : Nat → Bool) : ∀ (fuel : Nat) (s : Store) (n : Nat), WInv s [] →
    n ∈ s.ids → n < fuel →
    WInv (projectNode f pred fuel s n).1 [] ∧ Ext s (projectNode f pred fuel s n).1 ∧
    (projectNode f pred fuel s n).2 ∈ (projectNode f pred fuel s n).1.ids
  | 0, _, _, _, _, hf => by omega
  | fuel+1, s, n, h, hn, hf => by
    simp only [projectNode]
    split
    · rename_i v hd
      obtain ⟨a, b, c, _, _⟩ := spawnLeaf_inv (v := v) h
      exact ⟨a, b, c⟩
    · rename_i lo hi var hd
      obtain ⟨c1, c2⟩ := h.closed n hn lo hi var hd
      obtain ⟨o1, o2⟩ := h.ordered n hn lo hi var hd
      obtain ⟨w1, e1, m1⟩ := projectNode_inv f pred fuel s lo h c1 (by omega)
      obtain ⟨w2, e2, m2⟩ := projectNode_inv f pred fuel _ hi w1 (e1.ids _ c2) (by omega)
      split
      · obtain ⟨w3, e3, m3, _⟩ := recDescend_inv f _ _ _ _ w2 (e2.ids _ m1) m2 (Nat.lt_succ_self _)
        exact ⟨w3, (e1.trans e2).trans e3, m3⟩
      · obtain ⟨w3, e3, m3, _⟩ := join_two (var := var) w1 e1 m1 w2 e2 m2
        exact ⟨w3, e3, m3⟩

theorem project_winv (f : Nat → Nat → Nat) (pred : Nat → Bool) {s : Store} {a dst : Nat} (hi : WInv s []) :
    WInv (project f pred s a dst) [] ∧ Frame dst s (project f pred s a dst) := by
  unfold project
  split
  · rename_i ra hfa hfd
    have hra : ra ∈ s.ids := hi.rin ra (root_mem hfa)
    obtain ⟨w, e, m⟩ := projectNode_inv f pred (ra + 1) s ra hi hra (Nat.lt_succ_self _)
    obtain ⟨h1, h2, _⟩ := addHandle_built w e m hfd
    exact ⟨h1, h2⟩
  · exact ⟨hi, Frame.refl _ _⟩

/-! ## GetMtbddForPrefix -/

theorem prefixWalk_mem {s : Store} (h : WInv s []) (asgn : List (Option Bool)) (off : Nat) : ∀ (fuel n : Nat),
    n ∈ s.ids → prefixWalk s.dat asgn off fuel n ∈ s.ids
  | 0, _, hn => hn
  | fuel+1, n, hn => by
    simp only [prefixWalk]
    split
    · exact hn
    · rename_i lo hi var hd
      obtain ⟨c1, c2⟩ := h.closed n hn lo hi var hd
      split
      · exact hn
      · split
        · exact prefixWalk_mem h asgn off fuel hi c2
        · exact prefixWalk_mem h asgn off fuel lo c1

theorem getPrefix_winv {s : Store} {a dst : Nat} {asgn : List (Option Bool)} {off : Nat} (hi : WInv s []) :
    WInv (getPrefix s a dst asgn off) [] ∧ Frame dst s (getPrefix s a dst asgn off) ∧
    (NZ s → NZ (getPrefix s a dst asgn off)) := by
  unfold getPrefix
  split
  · rename_i ra hfa hfd
    have hra : ra ∈ s.ids := hi.rin ra (root_mem hfa)
    obtain ⟨h1, h2, h3⟩ := addHandle_built hi (Ext.refl s) (prefixWalk_mem hi asgn off (ra + 1) ra hra) hfd
    exact ⟨h1, h2, fun hz => h3 ((zsub_nil_iff.mpr hz).mono (fun x hx => by simp at hx))⟩
  · exact ⟨hi, Frame.refl _ _, fun hz => hz⟩

/-! ## ExtendWith -/

theorem root_rc_pos {s : Store} (hi : WInv s []) {a ra : Nat} (hf : find a s.hs = some ra) : s.rc ra ≠ 0 := by
  have hra : ra ∈ s.ids := hi.rin ra (root_mem hf)
  have := hi.j ra hra
  have := cnt_pos (root_mem hf)
  omega

theorem extendWith_winv {s : Store} {a dst : Nat} {asgn : List (Option Bool)} {off d : Nat} (hi : WInv s []) :
    WInv (extendWith s a dst asgn off d) [] ∧ Frame dst s (extendWith s a dst asgn off d) ∧
    (NZ s → NZ (extendWith s a dst asgn off d)) := by
  unfold extendWith
  split
  · rename_i ra hfa hfd
    have hra : ra ∈ s.ids := hi.rin ra (root_mem hfa)
    split
    · obtain ⟨h1, h2, h3⟩ := addHandle_built hi (Ext.refl s) hra hfd
      exact ⟨h1, h2, fun hz => h3 ((zsub_nil_iff.mpr hz).mono (fun x hx => by simp at hx))⟩
    · rename_i hnd
      obtain ⟨w2, e2, m2, d2, z2⟩ := spawnLeaf_inv (v := d) hi
      have hn := e2.ids _ hra
      have dra : (spawnLeaf s d).1.dat ra = s.dat ra := e2.dat _ (hi.fresh _ hra)
      have hns : ra ≠ (spawnLeaf s d).2 := fun e => hnd (by rw [← dra, e, d2])
      simp only [buildCubeT_eq]
      obtain ⟨w3, e3, m3, dj⟩ := buildCube_inv (spawnLeaf s d).2 asgn _ _ (0 + off) w2 m2 hn
      have ds3 := (e3.dat _ (w2.fresh _ m2)).trans d2
      have hge := buildCube_ge (spawnLeaf s d).2 asgn _ _ (0 + off) w2 m2 hn
      have hrs : (buildCube (spawnLeaf s d).2 (spawnLeaf s d).1 ra (0 + off) asgn).2 ≠ (spawnLeaf s d).2 := by
        intro e
        rcases dj with heq | ⟨⟨lo, hi', var, hint⟩, _⟩
        · rw [heq] at e; exact hns e
        · rw [e, ds3] at hint; cases hint
      obtain ⟨w4, m4, hh4, hd4, hn4, hsub4⟩ := cubeFinish_winv (node := ra) (d := d) w3 (e3.ids _ m2) ds3 m3 hrs
      obtain ⟨a1, a2⟩ := addHandle_inv (h := dst) w4 m4 (by rw [hh4, e3.hs, e2.hs]; exact hfd)
      refine ⟨a1, (((e2.trans e3).frame dst).trans (frame_of_eq dst hh4 hd4 hn4)).trans (frame_addHandle _ _ _), ?_⟩
      intro hz
      apply a2
      have zs2 := z2 [] (zsub_nil_iff.mpr hz)
      -- the root `ra` has a positive counter throughout
      have hpos : ∀ {t : Store}, WInv t [] → t.hs = s.hs → t.rc ra ≠ 0 := fun wt ht =>
        root_rc_pos wt (by rw [ht]; exact hfa)
      rcases dj with heq | ⟨_, z3⟩
      · -- nothing was built: the sink is disposed of if it is unreferenced
        rw [heq]
        intro x hx hzx
        unfold cubeFinish at hx hzx
        simp only [if_true] at hx hzx
        split at hx
        · rename_i hz0
          have hx' := (mem_erase_iff' w2.nd).mp hx
          rw [if_pos hz0] at hzx
          have := zs2 x hx'.2 hzx
          simp at this
          exact absurd this hx'.1
        · rename_i hz0
          rw [if_neg hz0] at hzx
          have := zs2 x hx hzx
          simp at this
          subst this
          exact absurd hzx hz0
      · have zs3 : ZSub (buildCube (spawnLeaf s d).2 (spawnLeaf s d).1 ra (0 + off) asgn).1
            [(buildCube (spawnLeaf s d).2 (spawnLeaf s d).1 ra (0 + off) asgn).2] := by
          refine z3 [] ?_
          intro x hx hzx
          have := zs2 x hx hzx
          simp at this
          subst this
          exact List.mem_cons_of_mem _ List.mem_cons_self
        intro x hx hzx
        have hx3 := hsub4 x hx
        have hrcx : (cubeFinish (buildCube (spawnLeaf s d).2 (spawnLeaf s d).1 ra (0 + off) asgn) ra (spawnLeaf s d).2 d).rc x
            = (buildCube (spawnLeaf s d).2 (spawnLeaf s d).1 ra (0 + off) asgn).1.rc x := by
          unfold cubeFinish
          split
          · split <;> rfl
          · rfl
        rw [hrcx] at hzx
        exact zs3 x hx3 hzx
  · exact ⟨hi, Frame.refl _ _, fun hz => hz⟩

/-! ## every operation -/

theorem stepS_winv (F : Fns) (dv : Nat → Nat) {s : Store} (op : Op) (hi : WInv s []) :
    WInv (stepS F dv s op) [] ∧ Frame op.target s (stepS F dv s op) ∧
    (op.isProject = false → NZ s → NZ (stepS F dv s op)) := by
  cases op with
  | construct h asgn v d =>
    exact ⟨(construct_winv hi).1, (construct_winv hi).2, fun _ hz => (construct_inv ⟨hi, hz⟩).1.2⟩
  | copy src dst => exact ⟨(copy_winv hi).1, (copy_winv hi).2, fun _ hz => (copy_inv ⟨hi, hz⟩).1.2⟩
  | assign src dst => exact ⟨(assign_winv hi).1, (assign_winv hi).2, fun _ hz => (assign_inv ⟨hi, hz⟩).1.2⟩
  | apply a b dst => exact ⟨(apply2_winv F.f2 hi).1, (apply2_winv F.f2 hi).2, fun _ hz => (apply2_inv F.f2 ⟨hi, hz⟩).1.2⟩
  | destroy h => exact ⟨(destroy_winv hi).1, (destroy_winv hi).2.1, fun _ hz => (destroy_inv ⟨hi, hz⟩).1.2⟩
  | apply1 a dst => exact ⟨(apply1_winv F.f1 hi).1, (apply1_winv F.f1 hi).2.1, fun _ => (apply1_winv F.f1 hi).2.2⟩
  | apply3 a b c dst => exact ⟨(apply3_winv F.f3 hi).1, (apply3_winv F.f3 hi).2.1, fun _ => (apply3_winv F.f3 hi).2.2⟩
  | project a dst vars => exact ⟨(project_winv F.f2 _ hi).1, (project_winv F.f2 _ hi).2, fun h => by cases h⟩
  | rename a dst tab => exact ⟨(rename_winv _ hi).1, (rename_winv _ hi).2.1, fun _ => (rename_winv _ hi).2.2⟩
  | extendWith a dst asgn off => exact ⟨(extendWith_winv hi).1, (extendWith_winv hi).2.1, fun _ => (extendWith_winv hi).2.2⟩
  | getPrefix a dst asgn off => exact ⟨(getPrefix_winv hi).1, (getPrefix_winv hi).2.1, fun _ => (getPrefix_winv hi).2.2⟩

end Vata.RcSX
