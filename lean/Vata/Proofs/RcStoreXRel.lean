import Vata.Proofs.RcStoreXHist
/-!
# The relative release theorem (C18: "the node store is back to the size it had before")

`same_nodes`: two stores without garbage, the second reached from the first (`dat` of the old nodes unchanged), with the
same handle ↦ root map, have the same allocated nodes, the same unique-table entries and the same table sizes.
`xrelative_release`: for every history `h₁ ++ h₂` without `project` in which no handle that is live after `h₁` is the
target of an operation of `h₂` and every handle live at the end was live after `h₁`.
`xrelative_release_destroyNew`: the same with the destructors of all newer handles appended.
`Leak.*`: `decide`d histories showing that the theorem fails when `h₁` or `h₂` contains a `project`.
-/
namespace Vata.RcSX
open Vata.R (Data decrRc contrib indegL cnt J Closed)
open Vata.RcS

/-- a node with a positive counter is the root of a live handle or a child of an allocated inner node -/
theorem parent_or_root {s : Store} (hw : WInv s []) {n : Nat} (hn : n ∈ s.ids) (hz : s.rc n ≠ 0) :
    n ∈ roots s ∨ ∃ m lo hi var, m ∈ s.ids ∧ s.dat m = .int lo hi var ∧ (lo = n ∨ hi = n) := by
  have hj := hw.j n hn
  rw [cnt_nil] at hj
  by_cases hr : 0 < cnt n (roots s)
  · exact Or.inl (List.count_pos_iff.mp hr)
  · right
    have hpos : 0 < indegL s.ids s.dat n := by omega
    obtain ⟨a, ha, hp⟩ := exists_pos_of_sum_pos _ hpos
    obtain ⟨m, hm, rfl⟩ := List.mem_map.mp ha
    unfold contrib at hp
    split at hp
    · omega
    · rename_i lo hi' var hd
      refine ⟨m, lo, hi', var, hm, hd, ?_⟩
      by_cases e1 : lo = n
      · exact Or.inl e1
      · by_cases e2 : hi' = n
        · exact Or.inr e2
        · simp [e1, e2] at hp

/-- every node of the later store is a node of the earlier one, if the later store has no garbage and no new roots -/
theorem ids_sub {s s' : Store} (hw : WInv s []) (hw' : WInv s' []) (hz' : NZ s')
    (hdat : ∀ x, x < s.next → s'.dat x = s.dat x) (hroots : ∀ r, r ∈ roots s' → r ∈ roots s) :
    ∀ n, n ∈ s'.ids → n ∈ s.ids := by
  have key : ∀ (k n : Nat), n ∈ s'.ids → s'.next - n ≤ k → n ∈ s.ids := by
    intro k
    induction k with
    | zero => intro n hn hk; have := hw'.fresh n hn; omega
    | succ k ih =>
      intro n hn hk
      rcases parent_or_root hw' hn (hz' n hn) with hr | ⟨m, lo, hi, var, hm, hd, hc⟩
      · exact hw.rin n (hroots n hr)
      · obtain ⟨o1, o2⟩ := hw'.ordered m hm lo hi var hd
        have hlt : n < m := by rcases hc with e | e <;> omega
        have hm' : m ∈ s.ids := ih m hm (by have := hw'.fresh m hm; omega)
        have hd' : s.dat m = .int lo hi var := by rw [← hdat m (hw.fresh m hm')]; exact hd
        obtain ⟨c1, c2⟩ := hw.closed m hm' lo hi var hd'
        rcases hc with e | e
        · exact e ▸ c1
        · exact e ▸ c2
  intro n hn
  exact key _ n hn (Nat.le_refl _)

/-- every node of the earlier store is still a node of the later one, if the earlier store has no garbage and no root
    was lost -/
theorem ids_sup {s s' : Store} (hw : WInv s []) (hw' : WInv s' []) (hz : NZ s)
    (hdat : ∀ x, x < s.next → s'.dat x = s.dat x) (hroots : ∀ r, r ∈ roots s → r ∈ roots s') :
    ∀ n, n ∈ s.ids → n ∈ s'.ids := by
  have key : ∀ (k n : Nat), n ∈ s.ids → s.next - n ≤ k → n ∈ s'.ids := by
    intro k
    induction k with
    | zero => intro n hn hk; have := hw.fresh n hn; omega
    | succ k ih =>
      intro n hn hk
      rcases parent_or_root hw hn (hz n hn) with hr | ⟨m, lo, hi, var, hm, hd, hc⟩
      · exact hw'.rin n (hroots n hr)
      · obtain ⟨o1, o2⟩ := hw.ordered m hm lo hi var hd
        have hlt : n < m := by rcases hc with e | e <;> omega
        have hm' : m ∈ s'.ids := ih m hm (by have := hw.fresh m hm; omega)
        have hd' : s'.dat m = .int lo hi var := by rw [hdat m (hw.fresh m hm)]; exact hd
        obtain ⟨c1, c2⟩ := hw'.closed m hm' lo hi var hd'
        rcases hc with e | e
        · exact e ▸ c1
        · exact e ▸ c2
  intro n hn
  exact key _ n hn (Nat.le_refl _)

theorem length_eq_of_mem_iff {α : Type} {l₁ l₂ : List α} (d₁ : l₁.Nodup) (d₂ : l₂.Nodup) (h : ∀ a, a ∈ l₁ ↔ a ∈ l₂) :
    l₁.length = l₂.length :=
  ((List.perm_ext_iff_of_nodup d₁ d₂).mpr h).length_eq

/-- the semantic core of the relative release theorem -/
theorem same_nodes {s s' : Store} (hi : Inv s) (hi' : Inv s') (hdat : ∀ x, x < s.next → s'.dat x = s.dat x)
    (hhs : ∀ h r, (h, r) ∈ s'.hs ↔ (h, r) ∈ s.hs) :
    (∀ n, n ∈ s'.ids ↔ n ∈ s.ids) ∧ (∀ e, e ∈ s'.leafT ↔ e ∈ s.leafT) ∧ (∀ e, e ∈ s'.intT ↔ e ∈ s.intT) ∧
    tableSizes s' = tableSizes s ∧ s'.ids.length = s.ids.length := by
  have r1 : ∀ r, r ∈ roots s' → r ∈ roots s := by
    intro r hr
    obtain ⟨⟨h, r'⟩, hm, rfl⟩ := List.mem_map.mp hr
    exact List.mem_map.mpr ⟨(h, r'), (hhs h r').mp hm, rfl⟩
  have r2 : ∀ r, r ∈ roots s → r ∈ roots s' := by
    intro r hr
    obtain ⟨⟨h, r'⟩, hm, rfl⟩ := List.mem_map.mp hr
    exact List.mem_map.mpr ⟨(h, r'), (hhs h r').mpr hm, rfl⟩
  have hids : ∀ n, n ∈ s'.ids ↔ n ∈ s.ids :=
    fun n => ⟨ids_sub hi.1 hi'.1 hi'.2 hdat r1 n, ids_sup hi.1 hi'.1 hi.2 hdat r2 n⟩
  have hd : ∀ n, n ∈ s.ids → s'.dat n = s.dat n := fun n hn => hdat n (hi.1.fresh n hn)
  have hL : ∀ e, e ∈ s'.leafT ↔ e ∈ s.leafT := by
    rintro ⟨v, n⟩
    rw [hi'.1.leafOk, hi.1.leafOk, hids]
    constructor
    · rintro ⟨a, b⟩; exact ⟨a, by rw [← hd n a]; exact b⟩
    · rintro ⟨a, b⟩; exact ⟨a, by rw [hd n a]; exact b⟩
  have hI : ∀ e, e ∈ s'.intT ↔ e ∈ s.intT := by
    rintro ⟨k, n⟩
    rw [hi'.1.intOk, hi.1.intOk, hids]
    constructor
    · rintro ⟨a, b⟩; exact ⟨a, by rw [← hd n a]; exact b⟩
    · rintro ⟨a, b⟩; exact ⟨a, by rw [hd n a]; exact b⟩
  refine ⟨hids, hL, hI, ?_, length_eq_of_mem_iff hi'.1.nd hi.1.nd hids⟩
  unfold tableSizes
  rw [length_eq_of_mem_iff (nodup_of_keysNodup hi'.1.leafK) (nodup_of_keysNodup hi.1.leafK) hL,
    length_eq_of_mem_iff (nodup_of_keysNodup hi'.1.intK) (nodup_of_keysNodup hi.1.intK) hI]

/-- the handle map after `h₁ ++ h₂` is the one after `h₁` if no old handle is a target in `h₂` and no newer handle
    survives -/
theorem hs_same (F : Fns) (h₁ h₂ : List Op)
    (hold : ∀ op, op ∈ h₂ → find op.target (runX F h₁).st.hs = none)
    (hnew : ∀ h, (find h (runX F (h₁ ++ h₂)).st.hs).isSome → (find h (runX F h₁).st.hs).isSome) :
    ∀ h r, (h, r) ∈ (runX F (h₁ ++ h₂)).st.hs ↔ (h, r) ∈ (runX F h₁).st.hs := by
  have hw1 := runX_winv F h₁
  have hw2 := runX_winv F (h₁ ++ h₂)
  have stable : ∀ h r, (h, r) ∈ (runX F h₁).st.hs → (h, r) ∈ (runX F (h₁ ++ h₂)).st.hs := by
    intro h r hm
    refine (xdenotation_stable F h₁ h₂ h r hm ?_).1
    intro op ho e
    have := hold op ho
    rw [e, mem_find hw1.hsK hm] at this
    cases this
  intro h r
  constructor
  · intro hm
    have h1 := hnew h (by rw [mem_find hw2.hsK hm]; rfl)
    cases hf : find h (runX F h₁).st.hs with
    | none => rw [hf] at h1; cases h1
    | some r' =>
      have hm' := find_some_mem hf
      have := keys_inj hw2.hsK (stable h r' hm') hm
      exact this ▸ hm'
  · exact stable h r

/-- **relative release**: `h₁ ++ h₂` without `project`; no handle live after `h₁` is created-into / assigned / destroyed
    in `h₂` (`hold`); every handle live at the end was live after `h₁`, i.e. every handle created in `h₂` has been
    destroyed (`hnew`).  Then the allocated nodes and both unique tables after `h₁ ++ h₂` are exactly those after `h₁`. -/
theorem xrelative_release (F : Fns) (h₁ h₂ : List Op) (np₁ : NoProj h₁) (np₂ : NoProj h₂)
    (hold : ∀ op, op ∈ h₂ → find op.target (runX F h₁).st.hs = none)
    (hnew : ∀ h, (find h (runX F (h₁ ++ h₂)).st.hs).isSome → (find h (runX F h₁).st.hs).isSome) :
    (∀ n, n ∈ (runX F (h₁ ++ h₂)).st.ids ↔ n ∈ (runX F h₁).st.ids) ∧
    (∀ e, e ∈ (runX F (h₁ ++ h₂)).st.leafT ↔ e ∈ (runX F h₁).st.leafT) ∧
    (∀ e, e ∈ (runX F (h₁ ++ h₂)).st.intT ↔ e ∈ (runX F h₁).st.intT) ∧
    tableSizes (runX F (h₁ ++ h₂)).st = tableSizes (runX F h₁).st ∧
    (runX F (h₁ ++ h₂)).st.ids.length = (runX F h₁).st.ids.length := by
  refine same_nodes (runX_inv F h₁ np₁) (runX_inv F _ (np₁.append np₂)) ?_ (hs_same F h₁ h₂ hold hnew)
  rw [runX_append]
  exact (foldlX_frame F h₂ _ (runX_winv F h₁)).2

/-! ### the form with explicit destructors -/

theorem destroyNew_eq (s₀ s : Store) :
    destroyNew s₀ s = (((s.hs.filter (fun e => (find e.1 s₀.hs).isNone))).map (·.1)).map Op.destroy := by
  simp [destroyNew, List.map_map, Function.comp_def]

/-- destroying the handles of `L` (none of which is live in `s₀`) keeps the other handles -/
theorem foldlX_destroy_keep (F : Fns) : ∀ (L : List Nat) (x : XStore), WInv x.st [] →
    (∀ h r, (h, r) ∈ ((L.map Op.destroy).foldl (stepX F) x).st.hs → (h, r) ∈ x.st.hs ∧ h ∉ L)
  | [], x, _ => fun h r hm => ⟨hm, by simp⟩
  | t :: L, x, hi => by
    intro h r hm
    simp only [List.map_cons, List.foldl_cons] at hm
    obtain ⟨i1, f1, n1, _⟩ := destroy_winv (h := t) hi
    obtain ⟨a, b⟩ := foldlX_destroy_keep F L (stepX F x (.destroy t)) i1 h r hm
    have hne : h ≠ t := fun e => n1 r (e ▸ a)
    refine ⟨f1.hs' h r a hne, ?_⟩
    intro hc
    rcases List.mem_cons.mp hc with e | e
    · exact hne e
    · exact b e

/-- **relative release, destructor form**: after any `h₁` and any continuation `h₂` (both without `project`) that does
    not create-into / assign / destroy a handle that was live after `h₁`, running the destructors of all handles that
    are live now but were not live after `h₁` brings the allocated nodes and both unique tables back to exactly what they
    were after `h₁` -/
theorem xrelative_release_destroyNew (F : Fns) (h₁ h₂ : List Op) (np₁ : NoProj h₁) (np₂ : NoProj h₂)
    (hold : ∀ op, op ∈ h₂ → find op.target (runX F h₁).st.hs = none) :
    let d := destroyNew (runX F h₁).st (runX F (h₁ ++ h₂)).st
    (∀ n, n ∈ (runX F (h₁ ++ (h₂ ++ d))).st.ids ↔ n ∈ (runX F h₁).st.ids) ∧
    (∀ e, e ∈ (runX F (h₁ ++ (h₂ ++ d))).st.leafT ↔ e ∈ (runX F h₁).st.leafT) ∧
    (∀ e, e ∈ (runX F (h₁ ++ (h₂ ++ d))).st.intT ↔ e ∈ (runX F h₁).st.intT) ∧
    tableSizes (runX F (h₁ ++ (h₂ ++ d))).st = tableSizes (runX F h₁).st ∧
    (runX F (h₁ ++ (h₂ ++ d))).st.ids.length = (runX F h₁).st.ids.length := by
  intro d
  have hd : d = _ := destroyNew_eq (runX F h₁).st (runX F (h₁ ++ h₂)).st
  have hmemL : ∀ h, h ∈ ((runX F (h₁ ++ h₂)).st.hs.filter (fun e => (find e.1 (runX F h₁).st.hs).isNone)).map (·.1) →
      find h (runX F h₁).st.hs = none := by
    intro h hm
    obtain ⟨⟨h', r⟩, he, rfl⟩ := List.mem_map.mp hm
    have := (List.mem_filter.mp he).2
    simpa using this
  refine xrelative_release F h₁ (h₂ ++ d) np₁ (np₂.append (hd ▸ noProj_destroys _)) ?_ ?_
  · intro op ho
    rcases List.mem_append.mp ho with ho | ho
    · exact hold op ho
    · rw [hd] at ho
      obtain ⟨h, hm, rfl⟩ := List.mem_map.mp ho
      exact hmemL h hm
  · intro h hs
    cases hf : find h (runX F (h₁ ++ (h₂ ++ d))).st.hs with
    | none => rw [hf] at hs; cases hs
    | some r =>
      have hm := find_some_mem hf
      rw [← List.append_assoc, runX_append, hd] at hm
      obtain ⟨a, b⟩ := foldlX_destroy_keep F _ _ (runX_winv F (h₁ ++ h₂)) h r hm
      cases hf1 : find h (runX F h₁).st.hs with
      | some _ => rfl
      | none =>
        exfalso
        apply b
        exact List.mem_map.mpr ⟨(h, r), List.mem_filter.mpr ⟨a, by simp [hf1]⟩, rfl⟩

end Vata.RcSX
