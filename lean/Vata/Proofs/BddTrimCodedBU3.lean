import Vata.Proofs.BddTrimCodedBU2
/-!
# The bottom-up `RemoveUselessStates` as coded, 2: the graph built by the functor (property C08)

Invariants of `graph` and `nodes` during the first loop of `buUselessSt`: every reachable state has exactly one node,
every edge `node(p) → node(k)` comes from a processed tuple (`k` in the tuple, `p` in a leaf of its MTBDD, all states of
the tuple reachable), and every processed tuple has all its edges (`gLoop_final`).  The `assert(false)` of
`nodes_.FindBwd(tupState)` is unreachable: the states of a processed tuple are reachable, hence have nodes.
-/
namespace Vata
namespace BddTrimCoded
open M BddAbs BddAbsTD

/-! ### the dictionary -/

theorem findBwdBU_some {d : List (Nat × Nat)} {q n : Nat} (h : findBwd d q = some n) : (n, q) ∈ d := by
  unfold findBwd at h
  cases hf : d.find? (fun e => e.2 == q) with
  | none => rw [hf] at h; cases h
  | some e =>
    rw [hf] at h
    simp only [Option.map_some, Option.some.injEq] at h
    have h1 := List.mem_of_find?_eq_some hf
    have h2 := List.find?_some hf
    simp only [beq_iff_eq] at h2
    obtain ⟨a, b⟩ := e
    simp only at h h2
    subst h h2
    exact h1

theorem findBwdBU_none {d : List (Nat × Nat)} {q : Nat} (h : findBwd d q = none) (n : Nat) : (n, q) ∉ d := by
  unfold findBwd at h
  simp only [Option.map_eq_none_iff, List.find?_eq_none] at h
  intro hm
  exact h _ hm (by simp)

theorem findFwd_some {d : List (Nat × Nat)} {m k : Nat} (h : findFwd d m = some k) : (m, k) ∈ d := by
  unfold findFwd at h
  cases hf : d.find? (fun e => e.1 == m) with
  | none => rw [hf] at h; cases h
  | some e =>
    rw [hf] at h
    simp only [Option.map_some, Option.some.injEq] at h
    have h1 := List.mem_of_find?_eq_some hf
    have h2 := List.find?_some hf
    simp only [beq_iff_eq] at h2
    obtain ⟨a, b⟩ := e
    simp only at h h2
    subst h h2
    exact h1

theorem findFwd_none {d : List (Nat × Nat)} {m : Nat} (h : findFwd d m = none) (k : Nat) : (m, k) ∉ d := by
  unfold findFwd at h
  simp only [Option.map_eq_none_iff, List.find?_eq_none] at h
  intro hm
  exact h _ hm (by simp)

/-! ### the edges -/

theorem mem_egr_addEdge {G : Graph} {s t n m : Nat} : m ∈ (G.addEdge s t).egr n ↔ m ∈ G.egr n ∨ (n = s ∧ m = t) := by
  unfold Graph.addEdge
  simp only
  split
  · next h => rw [mem_ins]; simp [h]
  · next h => simp [h]

theorem mem_egr_addEdges (d : List (Nat × Nat)) (node : Nat) (n m : Nat) : ∀ (tup : List Nat) (G : Graph),
    m ∈ (addEdges d node tup G).egr n ↔ m ∈ G.egr n ∨ (n = node ∧ ∃ t, t ∈ tup ∧ findBwd d t = some m)
  | [], G => by simp [addEdges]
  | t :: tup, G => by
    have ih := fun G' => mem_egr_addEdges d node n m tup G'
    unfold addEdges at ih ⊢
    simp only [List.foldl_cons]
    rw [ih]
    cases hf : findBwd d t with
    | none =>
      simp only [List.mem_cons, exists_eq_or_imp, hf]
      simp
    | some m' =>
      simp only [mem_egr_addEdge, List.mem_cons, exists_eq_or_imp, hf, Option.some.injEq]
      constructor
      · rintro ((h | ⟨h1, h2⟩) | h)
        · exact Or.inl h
        · exact Or.inr ⟨h1, Or.inl h2.symm⟩
        · exact Or.inr ⟨h.1, Or.inr h.2⟩
      · rintro (h | ⟨h1, h2 | h2⟩)
        · exact Or.inl (Or.inl h)
        · exact Or.inl (Or.inr ⟨h1, h2.symm⟩)
        · exact Or.inr ⟨h1, h2⟩

/-- the edges justified by the skeleton restricted to the productive states -/
def EdgeS (T : Table) (F : List Nat) (p k : Nat) : Prop :=
  ∃ r, r ∈ (restrict (skelBU T F) (prodStates (skelBU T F))).rules ∧ r.parent = p ∧ k ∈ r.kids

/-- `node(p) → node(k)` is an edge -/
def Conn (G : Graph) (d : List (Nat × Nat)) (p k : Nat) : Prop := ∃ n m, (n, p) ∈ d ∧ (m, k) ∈ d ∧ m ∈ G.egr n

structure GInv (E : Nat → Nat → Prop) (r : List Nat) (G : Graph) (d : List (Nat × Nat)) : Prop where
  lt : ∀ n q, (n, q) ∈ d → n < G.size
  funN : ∀ n q q', (n, q) ∈ d → (n, q') ∈ d → q = q'
  funS : ∀ n n' q, (n, q) ∈ d → (n', q) ∈ d → n = n'
  dom : ∀ q, q ∈ r ↔ ∃ n, (n, q) ∈ d
  sound : ∀ n m, m ∈ G.egr n → ∃ p k, (n, p) ∈ d ∧ (m, k) ∈ d ∧ E p k

/-- growth -/
def ExtG (r : List Nat) (G : Graph) (d : List (Nat × Nat)) (r' : List Nat) (G' : Graph) (d' : List (Nat × Nat)) : Prop :=
  (∀ x, x ∈ r → x ∈ r') ∧ (∀ x, x ∈ d → x ∈ d') ∧ (∀ n m, m ∈ G.egr n → m ∈ G'.egr n)

theorem ExtG.trans {r r' r'' : List Nat} {G G' G'' : Graph} {d d' d'' : List (Nat × Nat)} (h : ExtG r G d r' G' d')
    (h' : ExtG r' G' d' r'' G'' d'') : ExtG r G d r'' G'' d'' :=
  ⟨fun x hx => h'.1 x (h.1 x hx), fun x hx => h'.2.1 x (h.2.1 x hx), fun n m hm => h'.2.2 n m (h.2.2 n m hm)⟩

theorem Conn.mono {r r' : List Nat} {G G' : Graph} {d d' : List (Nat × Nat)} (h : ExtG r G d r' G' d') {p k : Nat}
    (hc : Conn G d p k) : Conn G' d' p k := by
  obtain ⟨n, m, h1, h2, h3⟩ := hc
  exact ⟨n, m, h.2.1 _ h1, h.2.1 _ h2, h.2.2 _ _ h3⟩

theorem collectStepG_spec {E : Nat → Nat → Prop} (tup : List Nat) (fs : FSt) (q : Nat)
    (hI : GInv E fs.reach fs.graph fs.nodes) (ht : ∀ k, k ∈ tup → k ∈ fs.reach) (hE : ∀ k, k ∈ tup → E q k) :
    GInv E (collectStepG tup fs q).reach (collectStepG tup fs q).graph (collectStepG tup fs q).nodes ∧
    ExtG fs.reach fs.graph fs.nodes (collectStepG tup fs q).reach (collectStepG tup fs q).graph (collectStepG tup fs q).nodes ∧
    (∀ k, k ∈ tup → Conn (collectStepG tup fs q).graph (collectStepG tup fs q).nodes q k) := by
  obtain ⟨a1, _, _, _⟩ := collectStep_spec (fs.reach, fs.ws) q
  -- the node of `q`
  have key : ∃ (G1 : Graph) (d' : List (Nat × Nat)) (node : Nat),
      (collectStepG tup fs q).graph = addEdges d' node tup G1 ∧ (collectStepG tup fs q).nodes = d' ∧
      G1.egr = fs.graph.egr ∧ (∀ x, x ∈ fs.nodes → x ∈ d') ∧ (node, q) ∈ d' ∧
      (∀ n q', (n, q') ∈ d' → n < G1.size) ∧ (∀ n q1 q2, (n, q1) ∈ d' → (n, q2) ∈ d' → q1 = q2) ∧
      (∀ n n' q', (n, q') ∈ d' → (n', q') ∈ d' → n = n') ∧
      (∀ x, (x ∈ fs.reach ∨ x = q) ↔ ∃ n, (n, x) ∈ d') := by
    cases hf : findBwd fs.nodes q with
    | some n =>
      refine ⟨fs.graph, fs.nodes, n, by simp [collectStepG, hf], by simp [collectStepG, hf], rfl, fun _ => id,
        findBwdBU_some hf, hI.lt, hI.funN, hI.funS, fun x => ?_⟩
      rw [hI.dom]
      exact ⟨fun h => h.elim id (fun e => e ▸ ⟨n, findBwdBU_some hf⟩), Or.inl⟩
    | none =>
      have hno := findBwdBU_none hf
      refine ⟨fs.graph.addNode.1, fs.nodes ++ [(fs.graph.size, q)], fs.graph.size, by simp [collectStepG, hf, Graph.addNode],
        by simp [collectStepG, hf, Graph.addNode], rfl, fun x hx => List.mem_append.mpr (Or.inl hx), by simp, ?_, ?_, ?_, ?_⟩
      · intro n q' h
        simp only [List.mem_append, List.mem_singleton, Prod.mk.injEq] at h
        simp only [Graph.addNode]
        rcases h with h | h
        · exact Nat.lt_succ_of_lt (hI.lt n q' h)
        · omega
      · intro n q1 q2 h1 h2
        simp only [List.mem_append, List.mem_singleton, Prod.mk.injEq] at h1 h2
        rcases h1 with h1 | h1 <;> rcases h2 with h2 | h2
        · exact hI.funN n q1 q2 h1 h2
        · have := hI.lt n q1 h1; omega
        · have := hI.lt n q2 h2; omega
        · rw [h1.2, h2.2]
      · intro n n' q' h1 h2
        simp only [List.mem_append, List.mem_singleton, Prod.mk.injEq] at h1 h2
        rcases h1 with h1 | h1 <;> rcases h2 with h2 | h2
        · exact hI.funS n n' q' h1 h2
        · rw [h2.2] at h1; exact absurd h1 (hno n)
        · rw [h1.2] at h2; exact absurd h2 (hno n')
        · rw [h1.1, h2.1]
      · intro x
        rw [hI.dom]
        simp only [List.mem_append, List.mem_singleton, Prod.mk.injEq]
        constructor
        · rintro (⟨n, h⟩ | rfl)
          · exact ⟨n, Or.inl h⟩
          · exact ⟨_, Or.inr ⟨rfl, rfl⟩⟩
        · rintro ⟨n, h | h⟩
          · exact Or.inl ⟨n, h⟩
          · exact Or.inr h.2
  obtain ⟨G1, d', node, e1, e2, e3, k1, k2, k3, k4, k5, k6⟩ := key
  have er : (collectStepG tup fs q).reach = (collectStep (fs.reach, fs.ws) q).1 := rfl
  have hsize : ∀ (tup : List Nat) (G : Graph), (addEdges d' node tup G).size = G.size := by
    intro tup
    induction tup with
    | nil => intro G; rfl
    | cons t tup ih =>
      intro G
      unfold addEdges at ih ⊢
      simp only [List.foldl_cons]
      rw [ih]
      split <;> rfl
  rw [e1, e2, er]
  refine ⟨⟨fun n q' h => by rw [hsize]; exact k3 n q' h, k4, k5, fun x => by rw [a1]; exact k6 x, fun n m hm => ?_⟩,
    ⟨fun x hx => (a1 x).mpr (Or.inl hx), k1, fun n m hm => ?_⟩, fun k hk => ?_⟩
  · rw [mem_egr_addEdges, e3] at hm
    rcases hm with hm | ⟨rfl, t, ht', hf⟩
    · obtain ⟨p, k, h1, h2, h3⟩ := hI.sound n m hm
      exact ⟨p, k, k1 _ h1, k1 _ h2, h3⟩
    · exact ⟨q, t, k2, findBwdBU_some hf, hE t ht'⟩
  · rw [mem_egr_addEdges, e3]; exact Or.inl hm
  · obtain ⟨m, hm⟩ := (k6 k).mp (Or.inl (ht k hk))
    cases hf : findBwd d' k with
    | none => exact absurd hm (findBwdBU_none hf m)
    | some m' =>
      refine ⟨node, m', k2, findBwdBU_some hf, ?_⟩
      rw [mem_egr_addEdges]
      exact Or.inr ⟨rfl, k, hk, hf⟩

theorem collectG_fold_spec {E : Nat → Nat → Prop} (tup : List Nat) : ∀ (L : List Nat) (fs : FSt),
    GInv E fs.reach fs.graph fs.nodes → (∀ k, k ∈ tup → k ∈ fs.reach) → (∀ q, q ∈ L → ∀ k, k ∈ tup → E q k) →
    GInv E (L.foldl (collectStepG tup) fs).reach (L.foldl (collectStepG tup) fs).graph (L.foldl (collectStepG tup) fs).nodes ∧
    ExtG fs.reach fs.graph fs.nodes (L.foldl (collectStepG tup) fs).reach (L.foldl (collectStepG tup) fs).graph
      (L.foldl (collectStepG tup) fs).nodes ∧
    (∀ q, q ∈ L → ∀ k, k ∈ tup → Conn (L.foldl (collectStepG tup) fs).graph (L.foldl (collectStepG tup) fs).nodes q k)
  | [], fs, hI, _, _ => ⟨hI, ⟨fun _ => id, fun _ => id, fun _ _ => id⟩, fun _ h => nomatch h⟩
  | q :: L, fs, hI, ht, hE => by
    obtain ⟨s1, s2, s3⟩ := collectStepG_spec tup fs q hI ht (hE q List.mem_cons_self)
    obtain ⟨i1, i2, i3⟩ := collectG_fold_spec tup L (collectStepG tup fs q) s1 (fun k hk => s2.1 k (ht k hk))
      (fun q' hq' => hE q' (List.mem_cons_of_mem _ hq'))
    simp only [List.foldl_cons]
    refine ⟨i1, s2.trans i2, fun q' hq' k hk => ?_⟩
    rcases List.mem_cons.mp hq' with rfl | hq'
    · exact (s3 k hk).mono i2
    · exact i3 q' hq' k hk

/-! ### the scan and the loop -/

/-- all edges of a tuple are there -/
def ConnAll (G : Graph) (d : List (Nat × Nat)) (e : List Nat × MT) : Prop :=
  ∀ p, p ∈ leafParents e.2 → ∀ k, k ∈ e.1 → Conn G d p k

structure GLoopInv (T : Table) (F : List Nat) (g : BuGSt) : Prop where
  ginv : GInv (EdgeS T F) g.reach g.graph g.nodes
  rsound : ∀ x, x ∈ g.reach → x ∈ prodStates (skelBU T F)

theorem edgeS_entry {T : Table} (hT : TableOk T) (F : List Nat) {e : List Nat × MT} (he : e ∈ T.entries)
    (hk : ∀ k, k ∈ e.1 → k ∈ prodStates (skelBU T F)) {p k : Nat} (hp : p ∈ leafParents e.2) (hk' : k ∈ e.1) :
    EdgeS T F p k := by
  refine ⟨⟨0, e.1, p⟩, mem_restrict_rules.mpr ⟨skel_rule_entry hT he hp, ?_, hk⟩, rfl, hk'⟩
  exact prodStates_closed _ _ (skel_rule_entry hT he hp) hk

theorem scanStepG_spec {T : Table} (hT : TableOk T) (F : List Nat) (s : Nat) (g : BuGSt) {e : List Nat × MT}
    (he : e ∈ T.entries) (hI : GLoopInv T F g) :
    GLoopInv T F (scanStepG s g e) ∧
    ExtG g.reach g.graph g.nodes (scanStepG s g e).reach (scanStepG s g e).graph (scanStepG s g e).nodes ∧
    (∀ e', e' ∈ g.tuples → e' ∈ (scanStepG s g e).tuples) ∧
    (e ∈ (scanStepG s g e).tuples ∨ ConnAll (scanStepG s g e).graph (scanStepG s g e).nodes e) := by
  unfold scanStepG
  split
  · next hc =>
    simp only [Bool.and_eq_true, List.contains_iff_mem, List.all_eq_true] at hc
    have hkP : ∀ k, k ∈ e.1 → k ∈ prodStates (skelBU T F) := fun k hk => hI.rsound k (hc.2 k hk)
    obtain ⟨i1, i2, i3⟩ := collectG_fold_spec (E := EdgeS T F) e.1 (leafParents e.2) ⟨g.reach, g.ws, g.graph, g.nodes⟩
      hI.ginv hc.2 (fun q hq k hk => edgeS_entry hT F he hkP hq hk)
    obtain ⟨c1, _⟩ := collectG_reach e.1 ⟨g.reach, g.ws, g.graph, g.nodes⟩ e.2
    obtain ⟨d1, _, _, _⟩ := collect_spec (g.reach, g.ws) e.2
    refine ⟨⟨i1, fun x hx => ?_⟩, i2, fun _ => id, Or.inr i3⟩
    have hx' : x ∈ (collectG e.1 ⟨g.reach, g.ws, g.graph, g.nodes⟩ e.2).reach := hx
    rw [c1] at hx'
    rcases (d1 x).mp hx' with h | h
    · exact hI.rsound x h
    · exact prodStates_closed _ _ (skel_rule_entry hT he h) hkP
  · exact ⟨⟨hI.ginv, hI.rsound⟩, ⟨fun _ => id, fun _ => id, fun _ _ => id⟩,
      fun e' he' => List.mem_append.mpr (Or.inl he'), Or.inl (List.mem_append.mpr (Or.inr List.mem_cons_self))⟩

theorem scanG_fold_spec {T : Table} (hT : TableOk T) (F : List Nat) (s : Nat) : ∀ (l : List (List Nat × MT)) (g : BuGSt),
    (∀ e, e ∈ l → e ∈ T.entries) → GLoopInv T F g →
    GLoopInv T F (l.foldl (scanStepG s) g) ∧
    ExtG g.reach g.graph g.nodes (l.foldl (scanStepG s) g).reach (l.foldl (scanStepG s) g).graph (l.foldl (scanStepG s) g).nodes ∧
    (∀ e', e' ∈ g.tuples → e' ∈ (l.foldl (scanStepG s) g).tuples) ∧
    (∀ e, e ∈ l → e ∈ (l.foldl (scanStepG s) g).tuples ∨
      ConnAll (l.foldl (scanStepG s) g).graph (l.foldl (scanStepG s) g).nodes e)
  | [], g, _, hI => ⟨hI, ⟨fun _ => id, fun _ => id, fun _ _ => id⟩, fun _ => id, fun _ h => nomatch h⟩
  | e :: l, g, hl, hI => by
    obtain ⟨s1, s2, s3, s4⟩ := scanStepG_spec hT F s g (hl e List.mem_cons_self) hI
    obtain ⟨i1, i2, i3, i4⟩ := scanG_fold_spec hT F s l (scanStepG s g e) (fun e' he' => hl e' (List.mem_cons_of_mem _ he')) s1
    simp only [List.foldl_cons]
    refine ⟨i1, s2.trans i2, fun e' he' => i3 e' (s3 e' he'), fun e' he' => ?_⟩
    rcases List.mem_cons.mp he' with rfl | he'
    · rcases s4 with h | h
      · exact Or.inl (i3 _ h)
      · exact Or.inr (fun p hp k hk => (h p hp k hk).mono i2)
    · exact i4 e' he'

/-- the invariant of the first loop: the graph invariant, and every tuple of the table is still in `tuples` or has its edges -/
structure GMainInv (T : Table) (F : List Nat) (g : BuGSt) : Prop where
  li : GLoopInv T F g
  tup_sub : ∀ e, e ∈ g.tuples → e ∈ T.entries
  cover : ∀ e, e ∈ T.entries → e ∈ g.tuples ∨ ConnAll g.graph g.nodes e

theorem gInv_empty (E : Nat → Nat → Prop) : GInv E [] Graph.empty [] where
  lt _ _ h := by cases h
  funN _ _ _ h := by cases h
  funS _ _ _ h := by cases h
  dom q := by simp
  sound _ _ h := by cases h

theorem gMainInv_init {T : Table} (hT : TableOk T) (F : List Nat) : GMainInv T F (buGInit T) := by
  obtain ⟨i1, _, _⟩ := collectG_fold_spec (E := EdgeS T F) [] (leafParents T.nullary) ⟨[], [], Graph.empty, []⟩
    (gInv_empty _) (fun _ h => nomatch h) (fun _ _ _ h => nomatch h)
  obtain ⟨c1, _⟩ := collectG_reach [] ⟨[], [], Graph.empty, []⟩ T.nullary
  obtain ⟨d1, _, _, _⟩ := collect_spec ([], []) T.nullary
  have hf : ∀ e, e ∈ T.entries.filter (fun e => e.1 != []) ↔ e ∈ T.entries := by
    intro e
    simp only [List.mem_filter, bne_iff_ne, ne_eq, and_iff_left_iff_imp]
    exact fun he => (hT e he).1
  refine ⟨⟨i1, fun x hx => ?_⟩, fun e he => (hf e).mp he, fun e he => Or.inl ((hf e).mpr he)⟩
  have hx' : x ∈ (collectG [] ⟨[], [], Graph.empty, []⟩ T.nullary).reach := hx
  rw [c1] at hx'
  rcases (d1 x).mp hx' with h | h
  · cases h
  · exact prodStates_closed _ _ (skel_rule_nullary h) (fun k hk => nomatch hk)

theorem buGLoop_inv {T : Table} (hT : TableOk T) {F : List Nat} : ∀ (fuel : Nat) (g g' : BuGSt), GMainInv T F g →
    buGLoop fuel g = some g' → GMainInv T F g'
  | fuel, ⟨r, [], tu, G, d⟩, g', h, e => by
    have : buGLoop fuel ⟨r, [], tu, G, d⟩ = some ⟨r, [], tu, G, d⟩ := by cases fuel <;> simp [buGLoop]
    rw [this] at e
    cases e
    exact h
  | 0, ⟨r, s :: ws, tu, G, d⟩, g', _, e => by simp [buGLoop] at e
  | fuel + 1, ⟨r, s :: ws, tu, G, d⟩, g', h, e => by
    simp only [buGLoop] at e
    refine buGLoop_inv hT fuel _ g' ?_ e
    obtain ⟨i1, i2, _, i4⟩ := scanG_fold_spec hT F s tu ⟨r, ws, [], G, d⟩ h.tup_sub ⟨h.li.ginv, h.li.rsound⟩
    refine ⟨i1, fun e' he' => ?_, fun e' he' => ?_⟩
    · -- the tuples kept are tuples of the scan
      have : ∀ (l : List (List Nat × MT)) (g : BuGSt) (e' : List Nat × MT), e' ∈ (l.foldl (scanStepG s) g).tuples →
          e' ∈ g.tuples ∨ e' ∈ l := by
        intro l
        induction l with
        | nil => intro g e' h; exact Or.inl h
        | cons e0 l ih =>
          intro g e' h
          rcases ih _ e' h with h' | h'
          · unfold scanStepG at h'
            split at h'
            · exact Or.inl h'
            · rcases List.mem_append.mp h' with h' | h'
              · exact Or.inl h'
              · exact Or.inr (by rw [List.mem_singleton.mp h']; exact List.mem_cons_self)
          · exact Or.inr (List.mem_cons_of_mem _ h')
      rcases this tu _ e' he' with h' | h'
      · cases h'
      · exact h.tup_sub e' h'
    · rcases h.cover e' he' with h' | h'
      · exact i4 e' h'
      · exact Or.inr (fun p hp k hk => (h' p hp k hk).mono i2)

/-- **the graph at the end of the first loop** -/
theorem gLoop_final {T : Table} (hT : TableOk T) (F : List Nat) {fuel : Nat} {g : BuGSt}
    (h : buGLoop fuel (buGInit T) = some g) :
    GInv (EdgeS T F) g.reach g.graph g.nodes ∧ (∀ p k, EdgeS T F p k → Conn g.graph g.nodes p k) := by
  have hI := buGLoop_inv hT fuel _ g (gMainInv_init hT F) h
  obtain ⟨hr, _, hrem⟩ := buGLoop_reach hT F h
  refine ⟨hI.li.ginv, ?_⟩
  rintro p k ⟨r, hr', rfl, hk⟩
  obtain ⟨h1, _, h3⟩ := mem_restrict_rules.mp hr'
  obtain ⟨k1, k2⟩ := skel_rule_inv h1
  have hks : r.kids ≠ [] := fun e => by rw [e] at hk; cases hk
  simp only [Table.keys, List.mem_cons, hks, false_or] at k1
  have hm := getE_mem k1
  simp only [Table.get, if_neg hks] at k2
  rcases hI.cover _ hm with h' | h'
  · obtain ⟨q, hq, hn⟩ := hrem _ h'
    exact absurd ((hr q).mpr (h3 q hq)) hn
  · exact h' _ k2 k hk

end BddTrimCoded
end Vata
